/-
  Redress.Lemmas.SimAttempt — call() and execute() in lock step (C12), part 2: one attempt.
-/
import Redress.Lemmas.SimLock

namespace Redress
open Twin Retry

/-! ### where exceptions of `check_abort` come from -/

theorem ask_err {r : Req} {w : World} {e : Exn} {w' : World} (h : ask r w = .error e w') :
    e = .stuck ∨ ∃ d, (r, Ans.raise e d) ∈ w'.trace := by
  cases hw : w.answers with
  | nil =>
    rw [ask_nil r w hw] at h
    injection h with he _
    exact Or.inl he.symm
  | cons a rest =>
    rw [ask_cons r w a rest hw] at h
    cases a with
    | raise e' d =>
      simp only [askStep] at h
      injection h with he hw'
      subst he hw'
      exact Or.inr ⟨d, List.mem_cons_self⟩
    | _ => simp only [askStep] at h; cases h

theorem swallow_err {x : M Unit} {w : World} {e : Exn} {w' : World}
    (h : (tryCatch x swallowException : M Unit) w = .error e w') : e.isException = false := by
  rw [tryCatch_run] at h
  cases hx : x w with
  | ok a w1 => rw [hx] at h; cases h
  | error e1 w1 =>
    rw [hx] at h
    simp only at h
    unfold swallowException at h
    by_cases he : e1.isException = true
    · rw [if_pos he] at h; cases h
    · rw [if_neg he] at h
      injection h with h1 _
      subst h1
      simpa using he

/-- only BaseException-only kinds get out of `emit` -/
theorem emit_err {cfg : Cfg} {tl : Bool} {ev : Event} {a s : Nat} {k : Option EClass} {e : Option Exn}
    {st : Option StopReason} {c : Option Cause} {cl : Option Classification} {w : World} {x : Exn}
    {w' : World} (h : emit cfg tl ev a s k e st c cl w = .error x w') : x.isException = false := by
  simp only [emit] at h
  rcases bind_err h with h1 | ⟨_, w1, _, h2⟩
  · exact swallow_err h1
  · by_cases hl : cfg.log = true
    · rw [if_pos hl] at h2; exact swallow_err h2
    · rw [if_neg hl] at h2; cases h2

/-- `check_abort` raises: its own `AbortRetryError` after a poll that said "abort" (the stop reason is
    recorded), or what the predicate raised, or a BaseException-only kind of an observability hook -/
theorem checkAbort_err {cfg : Cfg} {tl : Bool} {a : Nat} {w : World} {e : Exn} {w' : World}
    (h : checkAbort cfg tl a w = .error e w') :
    (e = .libAbort ∧ w'.rs.lastStop = some .aborted) ∨
      (∃ d, (Req.abortIf, Ans.raise e d) ∈ w'.trace) ∨ e.isException = false := by
  unfold checkAbort at h
  by_cases hc : cfg.abortIf = true
  · rw [if_pos hc] at h
    rcases bind_err h with h1 | ⟨ans, w1, h1, h2⟩
    · rcases ask_err h1 with rfl | hd
      · exact Or.inr (Or.inr rfl)
      · exact Or.inr (Or.inl hd)
    · cases ans with
      | bool b d =>
        cases b with
        | false => simp only at h2; cases h2
        | true =>
          simp only at h2
          rcases bind_err h2 with k1 | ⟨_, w2, k1, k2⟩
          · rw [setStop_run] at k1; cases k1
          · rcases bind_err k2 with m1 | ⟨_, w3, m1, m2⟩
            · exact Or.inr (Or.inr (emit_err m1))
            · injection m2 with he hw
              subst he hw
              rw [setStop_run] at k1
              injection k1 with _ hw2
              subst hw2
              have := (emit_rs ..).ok m1
              exact Or.inl ⟨rfl, by show (gRS w3).lastStop = _; rw [this]; rfl⟩
      | _ =>
        simp only at h2
        injection h2 with he _
        subst he
        exact Or.inr (Or.inr rfl)
  · rw [if_neg hc] at h; cases h

theorem abortTail_sim (cfg : Cfg) (tl : Bool) (a : Nat) :
    Sim (do setStop .aborted; emit cfg tl .aborted a 0 (stop := some .aborted); throw .libAbort : M Unit)
        (do setStop .aborted; emit cfg false .aborted a 0 (stop := some .aborted); throw .libAbort : M Unit) := by
  refine ⟨fun we wc h => ?_⟩
  have h1 := ((setStop_sim .aborted).run we wc h).2.1
  rw [bind_run, bind_run, setStop_run, setStop_run]
  simp only
  rw [bind_run, bind_run]
  rcases (emit_sim cfg tl .aborted a 0 none none (some .aborted) none none).step h1 with
    ⟨u, we2, wc2, k1, k2, k3, k4⟩ | ⟨e, we2, wc2, k1, k2, k3, k4, k5⟩
  · rw [k1, k2]
    have := (emit_rs ..).ok k2
    refine ⟨rfl, k3, k4, fun _ => Or.inr ⟨rfl, ?_⟩⟩
    show (gRS wc2).lastStop = _
    rw [this]; rfl
  · rw [k1, k2]
    exact ⟨rfl, k3, k4, k5⟩

theorem checkAbort_sim (cfg : Cfg) (tl : Bool) (a : Nat) :
    Sim (checkAbort cfg tl a) (checkAbort cfg false a) := by
  unfold checkAbort
  sim [abortTail_sim]

/-! ### the operation itself -/

theorem invokeOp_step {a : Nat} {we wc : World} (h : π we = π wc) :
    (∃ v we1 wc1, invokeOp a we = .ok v we1 ∧ invokeOp a wc = .ok v wc1 ∧ π we1 = π wc1 ∧
        we1.attempts = we.attempts) ∨
    (∃ e we1 wc1, invokeOp a we = .error e we1 ∧ invokeOp a wc = .error e wc1 ∧ π we1 = π wc1 ∧
        we1.attempts = we.attempts ∧ (e = .stuck ∨ ∃ n d, (Req.op n, Ans.raise e d) ∈ wc1.trace)) := by
  unfold invokeOp
  simp only [bind_run, modify_run, get_run]
  obtain ⟨h1, h2, h3, h4, h5, h6, h7, h8, h9⟩ := (π_iff _ _).mp h
  have h0 : π { we with opCalls := wc.opCalls + 1 } = π { wc with opCalls := wc.opCalls + 1 } :=
    (π_iff _ _).mpr ⟨h1, h2, h3, h4, rfl, h6, h7, h8, h9⟩
  rw [h5]
  generalize hwe : ({ we with opCalls := wc.opCalls + 1 } : World) = we0
  generalize hwc : ({ wc with opCalls := wc.opCalls + 1 } : World) = wc0
  have h0' : π we0 = π wc0 := by rw [← hwe, ← hwc]; exact h0
  have hatt : we0.attempts = we.attempts := by rw [← hwe]
  have ha : we0.answers = wc0.answers := π_answers h0'
  cases hw : wc0.answers with
  | nil =>
    rw [ask_nil _ wc0 hw, ask_nil _ we0 (ha.trans hw)]
    exact Or.inr ⟨_, _, _, rfl, rfl, π_logged h0' _, hatt, Or.inl rfl⟩
  | cons x rest =>
    rw [ask_cons _ wc0 x rest hw, ask_cons _ we0 x rest (ha.trans hw)]
    have hx := π_exchange h0' rest x.dur (Req.op (wc.opCalls + 1), x)
    cases x with
    | value v d => exact Or.inl ⟨_, _, _, rfl, rfl, hx, hatt⟩
    | raise e d =>
      exact Or.inr ⟨_, _, _, rfl, rfl, hx, hatt, Or.inr ⟨_, d, List.mem_cons_self⟩⟩
    | _ => exact Or.inr ⟨_, _, _, rfl, rfl, hx, hatt, Or.inl rfl⟩

/-! ### the common tail of a failed attempt -/

/-- call mode: `_sync_failure_outcome`, attempt-end hook, `determine_action_from_outcome`, deliver -/
def callTail (cfg : Cfg) (a : Nat) (d : Decision) (cls : Option Classification) (exc : Option Exn)
    (res : Option Nat) (cause : Option Cause) (fr : Bool) (orig : Option Exn)
    (fbf : RState → ExhaustedFields) : M (Option Nat) := do
  let o ← failureOutcome cfg false a d cls exc res cause
  callAttemptEndFromOutcome cfg a o
  modifyAS fun a => { a with endCalled := true }
  let r ← getRS
  deliverCall (determineAction o r a fr) orig (fbf r)

/-- execute mode: the same, ending in `deliverExecute` -/
def execTail (cfg : Cfg) (tl : Bool) (a : Nat) (d : Decision) (cls : Option Classification)
    (exc : Option Exn) (res : Option Nat) (cause : Option Cause) (fr : Bool) : M (Option Outcome) := do
  let o ← failureOutcome cfg tl a d cls exc res cause
  callAttemptEndFromOutcome cfg a o
  modifyAS fun a => { a with endCalled := true }
  let r ← getRS
  deliverExecute cfg tl (determineAction o r a fr) o

theorem tail_rel {cfg : Cfg} (he : cfg.attemptEnd = none) (tl : Bool) {a : Nat} {d : Decision}
    {cls : Option Classification} {exc : Option Exn} {res : Option Nat} {cause : Option Cause} {fr : Bool}
    {orig : Option Exn} {fbf : RState → ExhaustedFields} {we wc : World}
    (hπ : π we = π wc) (hatt : we.attempts = a)
    (hd : d = .raise → ∃ s, wc.rs.lastStop = some s ∧ s ≠ .aborted)
    (hcr : fr = true → wc.rs.lastCause = some .result)
    (hce : fr = false → wc.rs.lastCause = some .exception ∧
      ∃ e, orig = some e ∧ wc.rs.lastExc = some e ∧ OpExn e) :
    ARel a (callTail cfg a d cls exc res cause fr orig fbf wc)
      (execTail cfg tl a d cls exc res cause fr we) := by
  unfold callTail execTail
  apply Sim.bindA (failureOutcome_sim cfg tl a d cls exc res cause) hπ
  intro o we1 wc1 k1 k2 k3 k4
  obtain ⟨hf, hc1, hc2⟩ := failureOutcome_ok k2 hd
  simp only [callAttemptEndFromOutcome_none he, bind_run, pure_run, modifyAS_run, getRS_run]
  intro _
  refine deliver_rel tl (r := wc1.rs) (re := we1.rs) k3 (k4.trans hatt) rfl (π_rs k3) hf ?_ ?_
  · intro h; rw [hc1]; exact hcr h
  · intro h
    obtain ⟨q1, e, q2, q3, q4⟩ := hce h
    exact ⟨by rw [hc1]; exact q1, e, q2, by rw [hc2]; exact q3, q4⟩

/-! ### after the operation returned -/

theorem resultFailure_rel {cfg : Cfg} (he : cfg.attemptEnd = none) (tl : Bool) {a v : Nat}
    {c : Classification} {we wc : World} (hπ : π we = π wc) (hatt : we.attempts = a) :
    ARel a (callResultFailure cfg a v c wc) (execResultFailure cfg tl a v c we) := by
  unfold callResultFailure execResultFailure
  apply Sim.bindA (checkAbort_sim cfg tl a) hπ
  intro _ we1 wc1 _ _ k3 k4
  apply Sim.bindA (modifyAS_sim _) k3
  intro _ we2 wc2 _ _ m3 m4
  apply Sim.bindA (handleFailure_sim cfg tl c a .result none (some v)) m3
  intro d we3 wc3 _ n2 n3 n4
  obtain ⟨f1, f2, f3⟩ := handleFailure_ok n2
  have hatt3 : we3.attempts = a := by rw [n4, m4, k4, hatt]
  by_cases hdr : d.isRaise = true
  · simp only [hdr, if_true]
    exact tail_rel he tl (cls := some c) (exc := none) (res := some v) (cause := some .result) (fr := true)
      (orig := none)
      (fbf := fun r => { stop := r.lastStop.getD .maxAttemptsGlobal, attempts := a, lastClass := r.lastClass,
                         lastExc := none, lastResult := r.lastResult, nextSleep := none })
      n3 hatt3 f3 (fun _ => f1) (fun h => by cases h)
  · simp only [hdr]
    apply Sim.bindA (checkAbort_sim cfg tl a) n3
    intro _ we4 wc4 _ p2 p3 p4
    have hk := (checkAbort_ce cfg false a).ok p2
    have hk1 : wc4.rs.lastCause = wc3.rs.lastCause := congrArg Prod.fst hk
    exact tail_rel he tl (cls := some c) (exc := none) (res := some v) (cause := some .result) (fr := true)
      (orig := none)
      (fbf := fun r => { stop := r.lastStop.getD .maxAttemptsGlobal, attempts := a, lastClass := r.lastClass,
                         lastExc := none, lastResult := r.lastResult, nextSleep := none })
      p3 (p4.trans hatt3) (fun h => by subst h; exact absurd rfl hdr) (fun _ => by rw [hk1]; exact f1)
      (fun h => by cases h)

theorem resultPath_rel {cfg : Cfg} (he : cfg.attemptEnd = none) (tl : Bool) {a v : Nat}
    {we wc : World} (hπ : π we = π wc) (hatt : we.attempts = a) :
    ARel a (callResultPath cfg a v wc) (execResultPath cfg tl a v we) := by
  unfold callResultPath execResultPath
  apply Sim.bindA (shouldClassifyResult_sim cfg v) hπ
  intro c we1 wc1 _ _ k3 k4
  cases c with
  | none =>
    simp only
    apply Sim.bindA (handleSuccessAttemptEnd_sim cfg tl a v) k3
    intro _ we2 wc2 _ _ m3 m4
    simp only [bind_run, buildOutcome_run, pure_run]
    intro _
    exact ⟨m3, by simp [deliverRelated]⟩
  | some c => exact resultFailure_rel he tl k3 (k4.trans hatt)

/-- execute()'s `try` around the post-return region: an abort that gets there is already recorded -/
theorem ARel.wrap {cfg : Cfg} (he : cfg.attemptEnd = none) (tl : Bool) (a : Nat)
    {rc : EStateM.Result Exn World (Option Nat)} {re : EStateM.Result Exn World (Option Outcome)}
    (h : ARel a rc re) :
    ARel a rc (match (generalizing := false) re with
      | .ok o w => .ok o w
      | .error e w => execReturnedHandler cfg tl a e w) := by
  intro henv
  have h' := h henv
  cases rc with
  | ok x wc =>
    cases re with
    | ok y we => exact h'
    | error e we => cases x <;> exact h'.elim
  | error e wc =>
    cases re with
    | ok y we => exact h'
    | error e' we =>
      obtain ⟨h1, h2, h3⟩ := h'
      subst h2
      simp only
      unfold execReturnedHandler
      by_cases hab : e'.isAbort = true
      · rw [if_pos hab]
        obtain ⟨rfl, hls⟩ := h3.resolve henv hab
        obtain ⟨o, w', q1, q2, q3, q4, q5⟩ :=
          execAbortExit_noop he tl a .libAbort we (by rw [π_rs h1]; exact hls)
        rw [q1]
        exact ⟨q2.trans h1, by simp [deliverRelated, q3, q4],
          q3, by rw [q5, π_rs h1], Or.inl ⟨rfl, q4⟩⟩
      · rw [if_neg hab]
        exact ⟨h1, rfl, h3⟩

theorem resultRegion_rel {cfg : Cfg} (he : cfg.attemptEnd = none) (tl : Bool) {a v : Nat}
    {we wc : World} (hπ : π we = π wc) (hatt : we.attempts = a) :
    ARel a (callResultPath cfg a v wc)
      ((tryCatch (execResultPath cfg tl a v) (execReturnedHandler cfg tl a) : M (Option Outcome)) we) := by
  rw [tryCatch_run]
  have := (resultPath_rel he tl (v := v) hπ hatt).wrap he tl a
  cases hx : execResultPath cfg tl a v we <;> rw [hx] at this <;> exact this

/-! ### the operation raised -/

/-- a poll in the exception-handler region: call mode lets `check_abort`'s exception go, execute mode
    catches an abort and ends the run as aborted -/
theorem checkCaught_rel {cfg : Cfg} (he : cfg.attemptEnd = none) (tl : Bool) {a : Nat} {e : Exn}
    {we wc : World} {kc : Unit → M (Option Nat)} {ke : M (Option Outcome)} (hπ : π we = π wc)
    (hok : ∀ we1 wc1, checkAbort cfg false a wc = .ok ⟨⟩ wc1 → π we1 = π wc1 →
      we1.attempts = we.attempts → ARel a (kc ⟨⟩ wc1) (ke we1)) :
    ARel a ((checkAbort cfg false a >>= kc) wc)
      ((checkAbortCaught cfg tl a >>= fun ab => if ab = true then execAbortExit cfg tl a e else ke) we) := by
  unfold checkAbortCaught
  rw [bind_run, bind_run, tryCatch_run, bind_run]
  rcases (checkAbort_sim cfg tl a).step hπ with ⟨u, we1, wc1, k1, k2, k3, k4⟩ | ⟨e1, we1, wc1, k1, k2, k3, k4, k5⟩
  · rw [k1, k2]
    simp only [pure_run, Bool.false_eq_true, if_false]
    exact hok we1 wc1 k2 k3 k4
  · rw [k1, k2]
    simp only
    unfold abortToTrue
    by_cases hab : e1.isAbort = true
    · simp only [hab, if_true, pure_run]
      intro henv
      obtain ⟨rfl, hls⟩ := k5.resolve henv hab
      obtain ⟨o, w', q1, q2, q3, q4, q5⟩ :=
        execAbortExit_noop he tl a e we1 (by rw [π_rs k3]; exact hls)
      rw [q1]
      exact ⟨q2.trans k3, by simp [deliverRelated, q3, q4],
        q3, by rw [q5, π_rs k3], Or.inl ⟨rfl, q4⟩⟩
    · simp only [hab]
      intro _
      exact ⟨k3, rfl, k5⟩

theorem execExceptionPath3_eq (cfg : Cfg) (tl : Bool) (a : Nat) (e : Exn) (d : Decision) (w : World) :
    execExceptionPath3 cfg tl a e d w
      = execTail cfg tl a d w.rs.lastClassification (some e) none (some .exception) false w := rfl

theorem modifyAS_rs {f : AState → AState} {w : World} {u : Unit} {w' : World}
    (h : modifyAS f w = .ok u w') : w'.rs = w.rs := by
  rw [modifyAS_run] at h
  injection h with _ hw
  subst hw
  rfl

theorem excPath_rel {cfg : Cfg} (he : cfg.attemptEnd = none) (tl : Bool) {a : Nat} {e : Exn}
    {we wc : World} (hπ : π we = π wc) (hatt : we.attempts = a) (hp : OpExn e) :
    ARel a (callExceptionPath cfg a e wc) (execExceptionPath cfg tl a e we) := by
  unfold callExceptionPath execExceptionPath
  apply Sim.bindA (modifyAS_sim _) hπ
  intro _ we1 wc1 _ _ k3 k4
  apply checkCaught_rel he tl k3
  intro we2 wc2 _ m3 m4
  unfold execExceptionPath2
  apply Sim.bindA (handleException_sim cfg tl e a) m3
  intro d we3 wc3 _ n2 n3 n4
  obtain ⟨f1, f2, f3⟩ := handleException_ok n2
  have hatt3 : we3.attempts = a := by rw [n4, m4, k4, hatt]
  rw [bind_run, bind_run, getRS_run, getRS_run]
  simp only
  rw [π_rs n3]
  apply Sim.bindA (modifyAS_sim _) n3
  intro _ we4 wc4 q1 q2 q3 q4
  have hr4 : wc4.rs = wc3.rs := modifyAS_rs q2
  have hre4 : we4.rs = wc3.rs := (π_rs q3).trans hr4
  have hatt4 : we4.attempts = a := q4.trans hatt3
  have hce : false = false → wc4.rs.lastCause = some .exception ∧
      ∃ e', some e = some e' ∧ wc4.rs.lastExc = some e' ∧ OpExn e' :=
    fun _ => ⟨by rw [hr4]; exact f1, e, rfl, by rw [hr4]; exact f2, hp⟩
  by_cases hdr : d.isRaise = true
  · simp only [hdr, if_true]
    rw [execExceptionPath3_eq, hre4]
    exact tail_rel he tl (fr := false) (orig := some e) (fbf := fun _ => default) q3 hatt4
      (fun h => by rw [hr4]; exact f3 h) (fun h => by cases h) hce
  · simp only [hdr]
    apply checkCaught_rel he tl q3
    intro we5 wc5 p2 p3 p4
    have hk := (checkAbort_ce cfg false a).ok p2
    have hk1 : wc5.rs.lastCause = wc4.rs.lastCause := congrArg Prod.fst hk
    have hk2 : wc5.rs.lastExc = wc4.rs.lastExc := congrArg Prod.snd hk
    have hns := (checkAbort_ns cfg false a).ok p2
    have hk3 : wc5.rs.lastClassification = wc4.rs.lastClassification := by
      have := congrArg RState.lastClassification hns
      exact this
    have hre5 : we5.rs.lastClassification = wc3.rs.lastClassification := by
      rw [π_rs p3, hk3, hr4]
    rw [execExceptionPath3_eq, hre5]
    exact tail_rel he tl (fr := false) (orig := some e) (fbf := fun _ => default) p3 (p4.trans hatt4)
      (fun h => by subst h; exact absurd rfl hdr) (fun h => by cases h)
      (fun _ => ⟨by rw [hk1, hr4]; exact f1, e, rfl, by rw [hk2, hr4]; exact f2, hp⟩)

end Redress
