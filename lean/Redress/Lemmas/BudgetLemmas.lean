/-
  Redress.Lemmas.BudgetLemmas — helper lemmas for C10.

  * `prune` (pop-left-while) on a sorted deque is the filter `live`;
  * the refinement invariant `Inv` and its preservation by `step`;
  * counting lemmas for the sliding window, and the proof that checking the windows that END AT A
    GRANT TIME covers every `t` (`windowBoundOk_iff`);
  * the spec-level sliding-window induction.
-/
import Redress.Spec.Budget

namespace Redress.Budget

/-! ### prune -/

theorem prune_suffix (w now : Nat) (l : List Nat) : prune w now l <:+ l := by
  induction l with
  | nil => simp [prune]
  | cons x xs ih =>
    simp only [prune]
    split
    · exact List.IsSuffix.trans ih (List.suffix_cons x xs)
    · exact List.suffix_refl _

theorem prune_length_le (w now : Nat) (l : List Nat) : (prune w now l).length ≤ l.length :=
  (prune_suffix w now l).length_le

/-- Everything `prune` pops has expired (`x + w ≤ now`), on ANY deque (sorted or not). -/
theorem prune_keeps_live (w now : Nat) (l : List Nat) :
    ∀ g ∈ live w now l, g ∈ live w now (prune w now l) := by
  induction l with
  | nil => simp [prune]
  | cons x xs ih =>
    intro g hg
    simp only [prune]
    split
    · rename_i hle
      apply ih
      simp only [live, List.mem_filter, List.mem_cons, decide_eq_true_eq] at hg ⊢
      rcases hg with ⟨rfl | hm, hl⟩
      · omega
      · exact ⟨hm, hl⟩
    · exact hg

/-- On a sorted deque the pop-left loop is the filter. -/
theorem prune_eq_live_of_sorted (w now : Nat) (l : List Nat) (h : l.Pairwise (· ≤ ·)) :
    prune w now l = live w now l := by
  induction l with
  | nil => simp [prune, live]
  | cons x xs ih =>
    have hx := (List.pairwise_cons.mp h).1
    have hxs := (List.pairwise_cons.mp h).2
    simp only [prune]
    split
    · rename_i hle
      rw [ih hxs]
      have : ¬ now < x + w := by omega
      simp [live, this]
    · rename_i hgt
      have hlt : now < x + w := by omega
      have hall : ∀ y ∈ xs, now < y + w := fun y hy => by have := hx y hy; omega
      simp only [live, List.filter_cons, hlt, decide_true, if_true]
      congr 1
      exact (List.filter_eq_self.mpr (by simpa using hall)).symm

/-! ### live -/

theorem mem_live {w now g : Nat} {l : List Nat} : g ∈ live w now l ↔ g ∈ l ∧ now < g + w := by
  simp [live, List.mem_filter]

theorem live_append (w now : Nat) (a b : List Nat) :
    live w now (a ++ b) = live w now a ++ live w now b := by
  simp [live, List.filter_append]

theorem live_replicate_self {w : Nat} (hw : 0 < w) (now k : Nat) :
    live w now (List.replicate k now) = List.replicate k now := by
  have : now < now + w := by omega
  simp [live, this]

theorem live_sorted (w now : Nat) (l : List Nat) (h : l.Pairwise (· ≤ ·)) :
    (live w now l).Pairwise (· ≤ ·) :=
  h.sublist List.filter_sublist

theorem live_live (w : Nat) {lo now : Nat} (hle : lo ≤ now) (l : List Nat) :
    live w now (live w lo l) = live w now l := by
  simp only [live, List.filter_filter]
  apply List.filter_congr
  intro g _
  by_cases h : now < g + w
  · have : lo < g + w := by omega
    simp [h, this]
  · simp [h]

theorem prune_live (w : Nat) {lo now : Nat} (hle : lo ≤ now) (l : List Nat)
    (h : l.Pairwise (· ≤ ·)) : prune w now (live w lo l) = live w now l := by
  rw [prune_eq_live_of_sorted _ _ _ (live_sorted w lo l h), live_live w hle]

theorem liveCount_le_length (w now : Nat) (l : List Nat) : liveCount w now l ≤ l.length := by
  simp only [liveCount, live]; exact List.length_filter_le _ _

/-- `liveCount` as a `countP`. -/
theorem liveCount_eq_countP (w now : Nat) (l : List Nat) :
    liveCount w now l = l.countP (fun g => decide (now < g + w)) := by
  simp [liveCount, live, List.countP_eq_length_filter]

/-- Between `now` and a later `now'` the live count drops by exactly the number of grants whose
    expiry instant `g + w` lies in `(now, now']`. -/
theorem liveCount_split (w : Nat) {now now' : Nat} (hle : now ≤ now') (l : List Nat) :
    liveCount w now l =
      liveCount w now' l + l.countP (fun g => decide (now < g + w) && decide (g + w ≤ now')) := by
  rw [liveCount_eq_countP, liveCount_eq_countP]
  induction l with
  | nil => simp
  | cons x xs ih =>
    simp only [List.countP_cons, ih]
    by_cases h1 : now < x + w <;> by_cases h2 : now' < x + w <;>
      by_cases h3 : x + w ≤ now' <;> simp [h1, h2, h3] <;> omega

/-! ### histories -/

theorem monotoneFrom_cons {lo : Nat} {op : Op} {rest : History} :
    monotoneFrom lo (op :: rest) = true ↔ lo ≤ op.now ∧ monotoneFrom op.now rest = true := by
  simp [monotoneFrom]

theorem monotoneFrom_append {lo : Nat} {h : History} {op : Op} :
    monotoneFrom lo (h ++ [op]) = true ↔
      monotoneFrom lo h = true ∧ lastNow lo h ≤ op.now := by
  induction h generalizing lo with
  | nil => simp [monotoneFrom, lastNow]
  | cons a r ih => simp [monotoneFrom, lastNow, ih, and_assoc]

theorem le_lastNow {lo : Nat} {h : History} (hm : monotoneFrom lo h = true) : lo ≤ lastNow lo h := by
  induction h generalizing lo with
  | nil => simp [lastNow]
  | cons a r ih =>
    obtain ⟨h1, h2⟩ := monotoneFrom_cons.mp hm
    exact Nat.le_trans h1 (ih h2)

/-- `Monotone` is the usual "pairwise non-decreasing" on the list of clock values. -/
theorem monotoneFrom_iff_pairwise {lo : Nat} {h : History} :
    monotoneFrom lo h = true ↔ (lo :: h.map Op.now).Pairwise (· ≤ ·) := by
  induction h generalizing lo with
  | nil => simp [monotoneFrom]
  | cons a r ih =>
    rw [monotoneFrom_cons, ih]
    simp only [List.map_cons, List.pairwise_cons, List.mem_cons, List.mem_map, forall_eq_or_imp]
    constructor
    · rintro ⟨h1, h2, h3⟩
      refine ⟨⟨h1, ?_⟩, h2, h3⟩
      rintro x ⟨op, hop, rfl⟩
      exact Nat.le_trans h1 (h2 _ ⟨op, hop, rfl⟩)
    · rintro ⟨⟨h1, _⟩, h2, h3⟩
      exact ⟨h1, h2, h3⟩

/-! ### logs -/

@[simp] theorem grants_nil : Log.grants [] = [] := rfl

@[simp] theorem grants_cons (e : Entry) (l : Log) : Log.grants (e :: l) = entryGrants e ++ Log.grants l := by
  simp [Log.grants]

theorem grants_append (a b : Log) : Log.grants (a ++ b) = Log.grants a ++ Log.grants b := by
  simp [Log.grants]

@[simp] theorem run_nil (c : Cfg) (s : St) : run c s [] = ([], s) := rfl

theorem run_cons (c : Cfg) (s : St) (op : Op) (rest : History) :
    run c s (op :: rest) =
      ((op, (step c s op).1) :: (run c (step c s op).2 rest).1, (run c (step c s op).2 rest).2) := rfl

theorem run_ops (c : Cfg) (s : St) (h : History) : (run c s h).1.ops = h := by
  induction h generalizing s with
  | nil => rfl
  | cons op rest ih =>
    rw [run_cons]
    simp only [Log.ops, List.map_cons] at ih ⊢
    rw [ih]

theorem run_append (c : Cfg) (s : St) (h₁ h₂ : History) :
    run c s (h₁ ++ h₂) =
      ((run c s h₁).1 ++ (run c (run c s h₁).2 h₂).1, (run c (run c s h₁).2 h₂).2) := by
  induction h₁ generalizing s with
  | nil => simp
  | cons op rest ih => simp [run_cons, ih]

theorem specLog_ops (c : Cfg) (g : List Nat) (h : History) : (specLog c g h).ops = h := by
  induction h generalizing g with
  | nil => rfl
  | cons op rest ih =>
    simp only [specLog, Log.ops, List.map_cons] at ih ⊢
    rw [ih]

/-! ### the refinement invariant -/

/-- `events` is exactly the grants still inside the window as of the last prune (`last`), oldest
    first; `grants` (all tokens ever granted) is sorted and not later than `last`. -/
structure Inv (c : Cfg) (s : St) (grants : List Nat) (last : Nat) : Prop where
  sorted : grants.Pairwise (· ≤ ·)
  le_last : ∀ g ∈ grants, g ≤ last
  events_eq : s.events = live c.window last grants

theorem Inv.init (c : Cfg) (lo : Nat) : Inv c {} [] lo :=
  ⟨List.Pairwise.nil, by simp, by simp [live]⟩

theorem Inv.events_sorted {c : Cfg} {s : St} {g : List Nat} {last : Nat} (h : Inv c s g last) :
    s.events.Pairwise (· ≤ ·) := by
  rw [h.events_eq]; exact live_sorted _ _ _ h.sorted

/-- One model step from a state satisfying `Inv`, at a clock value not before the last one:
    the output is the spec's output and `Inv` holds again for the extended grant history. -/
theorem step_inv {c : Cfg} (hw : 0 < c.window) {s : St} {g : List Nat} {last : Nat}
    (hi : Inv c s g last) (op : Op) (hle : last ≤ op.now) :
    (step c s op).1 = specOut c g op ∧
      Inv c (step c s op).2 (g ++ entryGrants (op, specOut c g op)) op.now := by
  cases op with
  | remaining now =>
    simp only [Op.now] at hle
    have hp : prune c.window now s.events = live c.window now g := by
      rw [hi.events_eq, prune_live _ hle _ hi.sorted]
    refine ⟨by simp [step, remaining, specOut, hp, liveCount], ?_⟩
    simp only [step, remaining, entryGrants, List.append_nil, Op.now, hp]
    exact ⟨hi.sorted, fun x hx => Nat.le_trans (hi.le_last x hx) hle, rfl⟩
  | consume now cost =>
    simp only [Op.now] at hle
    have hp : prune c.window now s.events = live c.window now g := by
      rw [hi.events_eq, prune_live _ hle _ hi.sorted]
    by_cases hfull : liveCount c.window now g + cost ≤ c.maxRetries
    · have hnot : ¬ (live c.window now g).length + cost > c.maxRetries := by
        simp only [liveCount] at hfull; omega
      refine ⟨by simp [step, consume, specOut, hp, hnot, hfull], ?_⟩
      simp only [step, consume, specOut, hp, hnot, hfull, if_false, decide_true, entryGrants, Op.now]
      refine ⟨?_, ?_, ?_⟩
      · rw [List.pairwise_append]
        refine ⟨hi.sorted, by simp [List.pairwise_replicate], ?_⟩
        intro a ha b hb
        rw [List.eq_of_mem_replicate hb]
        exact Nat.le_trans (hi.le_last a ha) hle
      · intro x hx
        rcases List.mem_append.mp hx with hx | hx
        · exact Nat.le_trans (hi.le_last x hx) hle
        · rw [List.eq_of_mem_replicate hx]; exact Nat.le_refl _
      · rw [live_append, live_replicate_self hw]
    · have hyes : (live c.window now g).length + cost > c.maxRetries := by
        simp only [liveCount] at hfull; omega
      refine ⟨by simp [step, consume, specOut, hp, hyes, hfull], ?_⟩
      simp only [step, consume, specOut, hp, hyes, hfull, if_true, decide_false, entryGrants,
        List.append_nil, Op.now]
      exact ⟨hi.sorted, fun x hx => Nat.le_trans (hi.le_last x hx) hle, rfl⟩

/-- The model run from any `Inv` state over any monotone continuation equals the spec run, and
    `Inv` holds at the end. -/
theorem run_inv {c : Cfg} (hw : 0 < c.window) {s : St} {g : List Nat} {last : Nat}
    (hi : Inv c s g last) (h : History) (hm : monotoneFrom last h = true) :
    (run c s h).1 = specLog c g h ∧
      Inv c (run c s h).2 (g ++ (specLog c g h).grants) (lastNow last h) := by
  induction h generalizing s g last with
  | nil => simpa [specLog, lastNow] using hi
  | cons op rest ih =>
    obtain ⟨h1, h2⟩ := monotoneFrom_cons.mp hm
    obtain ⟨ho, hi'⟩ := step_inv hw hi op h1
    obtain ⟨hl, hi''⟩ := ih hi' h2
    rw [run_cons]
    simp only [specLog, lastNow, grants_cons]
    refine ⟨by rw [ho, hl], ?_⟩
    simpa [List.append_assoc] using hi''

/-! ### counting in windows -/

theorem countIn_append (w t : Nat) (a b : List Nat) :
    countIn w t (a ++ b) = countIn w t a + countIn w t b := by
  simp [countIn, List.countP_append]

theorem countIn_replicate (w t k x : Nat) :
    countIn w t (List.replicate k x) = if inWindow w t x then k else 0 := by
  simp [countIn, List.countP_replicate]

/-- A window ending at `t ≥ now` only contains grants that are live at `now`
    (for grants not later than `now`... no such restriction is needed: `t < g + w` suffices). -/
theorem countIn_le_liveCount (w : Nat) {now t : Nat} (hle : now ≤ t) (l : List Nat) :
    countIn w t l ≤ liveCount w now l := by
  rw [liveCount_eq_countP]
  apply List.countP_mono_left
  intro g _ hg
  simp only [inWindow, Bool.and_eq_true, decide_eq_true_eq] at hg ⊢
  omega

/-- Appending a granted batch keeps the sliding-window bound at every `t`. -/
theorem countIn_grant {max w now cost : Nat} {l : List Nat}
    (hall : ∀ t, countIn w t l ≤ max) (hroom : liveCount w now l + cost ≤ max) (t : Nat) :
    countIn w t (l ++ List.replicate cost now) ≤ max := by
  rw [countIn_append, countIn_replicate]
  by_cases hin : inWindow w t now = true
  · have hle : now ≤ t := by
      simp only [inWindow, Bool.and_eq_true, decide_eq_true_eq] at hin; exact hin.1
    have := countIn_le_liveCount w hle l
    simp only [hin, if_true]; omega
  · simp only [hin]; exact hall t

/-- Spec-level sliding-window induction: no hypothesis on the clock is needed for the SPEC (it
    filters); monotonicity is needed only to relate the model's pop-left loop to it. -/
theorem spec_window_bound (c : Cfg) (g : List Nat) (h : History)
    (hall : ∀ t, countIn c.window t g ≤ c.maxRetries) :
    ∀ t, countIn c.window t (g ++ (specLog c g h).grants) ≤ c.maxRetries := by
  induction h generalizing g with
  | nil => simpa [specLog] using hall
  | cons op rest ih =>
    simp only [specLog, grants_cons, ← List.append_assoc]
    apply ih
    cases op with
    | remaining now => simpa [specOut, entryGrants] using hall
    | consume now cost =>
      by_cases hroom : liveCount c.window now g + cost ≤ c.maxRetries
      · simp only [specOut, hroom, decide_true, entryGrants]
        exact countIn_grant hall hroom
      · simpa [specOut, hroom, entryGrants] using hall

/-! ### which window positions have to be checked -/

/-- If `t` is not itself a grant time, the window ending at `t` holds no more than the one ending
    at `t - 1`. -/
theorem countIn_pred_of_not_mem (w t : Nat) (l : List Nat) (hn : t + 1 ∉ l) :
    countIn w (t + 1) l ≤ countIn w t l := by
  apply List.countP_mono_left
  intro g hg hin
  simp only [inWindow, Bool.and_eq_true, decide_eq_true_eq] at hin ⊢
  have : g ≠ t + 1 := fun h => hn (h ▸ hg)
  omega

theorem countIn_zero_of_not_mem (w : Nat) (l : List Nat) (hn : 0 ∉ l) : countIn w 0 l = 0 := by
  simp only [countIn, List.countP_eq_zero, inWindow, Bool.and_eq_true, decide_eq_true_eq]
  intro g hg h
  have : g = 0 := by omega
  exact hn (this ▸ hg)

/-- Checking the windows that end at a grant time covers EVERY `t`. -/
theorem windowBoundOk_iff (max w : Nat) (l : List Nat) :
    windowBoundOk max w l = true ↔ ∀ t, countIn w t l ≤ max := by
  constructor
  · intro h t
    simp only [windowBoundOk, List.all_eq_true, decide_eq_true_eq] at h
    induction t with
    | zero =>
      by_cases hm : 0 ∈ l
      · exact h 0 hm
      · rw [countIn_zero_of_not_mem w l hm]; exact Nat.zero_le _
    | succ t ih =>
      by_cases hm : t + 1 ∈ l
      · exact h _ hm
      · exact Nat.le_trans (countIn_pred_of_not_mem w t l hm) ih
  · intro h
    simp only [windowBoundOk, List.all_eq_true, decide_eq_true_eq]
    exact fun t _ => h t

/-- `[t, t + w)` is `(t' − w, t']` for `t' = t + w − 1` (and empty for `w = 0`). -/
theorem countInFwd_eq (w t : Nat) (l : List Nat) (hw : 0 < w) :
    countInFwd w t l = countIn w (t + w - 1) l := by
  simp only [countInFwd, countIn]
  apply List.countP_congr
  intro g _
  simp only [inWindowFwd, inWindow, Bool.and_eq_true, decide_eq_true_eq]
  omega

theorem countInFwd_zero (t : Nat) (l : List Nat) : countInFwd 0 t l = 0 := by
  simp only [countInFwd, List.countP_eq_zero, inWindowFwd, Bool.and_eq_true, decide_eq_true_eq]
  intro g _; omega

theorem countIn_zero_window (t : Nat) (l : List Nat) : countIn 0 t l = 0 := by
  simp only [countIn, List.countP_eq_zero, inWindow, Bool.and_eq_true, decide_eq_true_eq]
  intro g _; omega

/-! ### checkers vs the spec -/

theorem allSteps_and (p q : List Nat → Entry → Bool) (g : List Nat) (l : Log) :
    allSteps (fun g e => p g e && q g e) g l = (allSteps p g l && allSteps q g l) := by
  induction l generalizing g with
  | nil => rfl
  | cons e r ih =>
    simp only [allSteps, ih]
    cases p g e <;> cases q g e <;> simp

/-- The three per-entry monitors together say exactly "the output is the spec's output". -/
theorem entry_ok_iff (c : Cfg) (g : List Nat) (e : Entry) :
    (shapeEntryOk g e && refusalEntryOk c g e && remainingEntryOk c g e) = true ↔
      e.2 = specOut c g e.1 := by
  obtain ⟨op, out⟩ := e
  cases op <;> cases out <;>
    simp [shapeEntryOk, refusalEntryOk, remainingEntryOk, specOut]

theorem allSteps_spec_iff (c : Cfg) (g : List Nat) (l : Log) :
    allSteps (fun g e => shapeEntryOk g e && refusalEntryOk c g e && remainingEntryOk c g e) g l
        = true ↔ l = specLog c g l.ops := by
  induction l generalizing g with
  | nil => simp [allSteps, specLog, Log.ops]
  | cons e r ih =>
    obtain ⟨op, out⟩ := e
    simp only [allSteps, Bool.and_eq_true, Log.ops, List.map_cons, specLog] at ih ⊢
    have he := entry_ok_iff c g (op, out)
    simp only [Bool.and_eq_true] at he
    rw [he, ih]
    constructor
    · rintro ⟨h1, h2⟩
      rw [← h1, ← h2]
    · intro h
      simp only [List.cons.injEq, Prod.mk.injEq, true_and] at h
      obtain ⟨h1, h2⟩ := h
      refine ⟨h1, ?_⟩
      rw [← h1] at h2
      exact h2

/-- A recorded log passes `shapeOk`, `refusalOk` and `remainingOk` iff it IS the spec's log for
    its own operations. -/
theorem monitors_iff_spec (c : Cfg) (l : Log) :
    (shapeOk l && refusalOk c l && remainingOk c l) = true ↔ l = specLog c [] l.ops := by
  rw [← allSteps_spec_iff]
  simp only [shapeOk, refusalOk, remainingOk, allSteps_and]

end Redress.Budget
