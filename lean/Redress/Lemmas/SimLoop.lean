/-
  Redress.Lemmas.SimLoop — call() and execute() in lock step (C12), part 3: the `except` ladders, one
  whole attempt, the loop, `runCall` vs `runExecute`.
-/
import Redress.Lemmas.SimAttempt

open Std.Do

namespace Redress
open Twin Retry

/-! ### the log only grows (from the `Ext` footprints) -/

theorem grows_of_ext {x : M α}
    (hx : ∀ w0, ⦃fun w => ⌜Ext loopK w0 w⌝⦄ x ⦃extPost loopK w0⦄) (w : World) :
    ∀ y ∈ w.trace, y ∈ (finalWorld (x w)).trace := by
  have h := adequacy (hx w) w (Ext.refl _ _)
  have hg : ∃ δ, (finalWorld (x w)).trace = δ ++ w.trace := by
    show ∃ δ, (finalWorld (x.run w)).trace = δ ++ w.trace
    cases hr : x.run w with
    | ok a w' => rw [hr] at h; exact Ext.grows h
    | error e w' => rw [hr] at h; exact Ext.grows h
  obtain ⟨δ, hδ⟩ := hg
  intro y hy
  rw [hδ]
  exact List.mem_append_right _ hy

/-! ### the `except` ladders around the operation -/

/-- the operation raised `AbortRetryError` -/
theorem abortExit_rel {cfg : Cfg} (he : cfg.attemptEnd = none) (tl : Bool) {a : Nat} {e : Exn}
    {we wc : World} (hπ : π we = π wc) (hatt : we.attempts = a) (hab : e.isAbort = true) :
    ARel a ((do handleAbortAttemptEnd cfg a e; emitAbortedOnce cfg false a; throw e : M (Option Nat)) wc)
      (execAbortExit cfg tl a e we) := by
  obtain ⟨wc1, p1, p2, _⟩ := handleAbortAttemptEnd_run he a e wc
  obtain ⟨we1, q1, q2, q3⟩ := handleAbortAttemptEnd_run he a e we
  have h1 : π we1 = π wc1 := q2.trans (hπ.trans p2.symm)
  have hatt1 : we1.attempts = a := q3.trans hatt
  unfold execAbortExit
  rw [bind_run, bind_run, p1, q1]
  simp only
  rw [bind_run (x := get), get_run]
  simp only
  unfold abortOutcome
  rw [hatt1, bind_run, bind_run, bind_run]
  rcases (emitAbortedOnce_sim cfg tl a).step h1 with
    ⟨u, we2, wc2, k1, k2, k3, k4⟩ | ⟨e1, we2, wc2, k1, k2, k3, k4, k5⟩
  · rw [k1, k2]
    simp only [buildOutcome_run, pure_run, throw_run]
    intro _
    have hls : we2.rs.lastStop = some .aborted := by rw [π_rs k3]; exact emitAbortedOnce_ok k2
    refine ⟨k3, ?_, rfl, by simp [π_rs k3], Or.inl ⟨hab, by simp [hls]⟩⟩
    cases e <;> simp_all [Exn.isAbort, deliverRelated]
  · rw [k1, k2]
    intro _
    exact ⟨k3, rfl, k5⟩

/-- `callOpHandler` vs `execHandler` on what the operation raised -/
theorem opHandler_rel {cfg : Cfg} (he : cfg.attemptEnd = none) (tl : Bool) {a : Nat} {e : Exn}
    {we wc : World} (hπ : π we = π wc) (hatt : we.attempts = a)
    (hop : e = .stuck ∨ ∃ n d, (Req.op n, Ans.raise e d) ∈ wc.trace) :
    ARel a (callOpHandler cfg a e wc) (execHandler cfg tl a e we) := by
  intro henv
  revert henv
  show ARel a (callOpHandler cfg a e wc) (execHandler cfg tl a e we)
  unfold callOpHandler execHandler
  by_cases h1 : e.isAbort = true
  · rw [if_pos h1, if_pos h1]
    exact abortExit_rel he tl hπ hatt h1
  · have h1' : e.isAbort = false := by simpa using h1
    rw [if_neg h1, if_neg h1]
    by_cases h2 : e = .cancelled
    · rw [if_pos h2, if_pos h2]
      intro _
      exact ⟨hπ, rfl, AbOK.of_not_abort _ h1'⟩
    · rw [if_neg h2, if_neg h2]
      by_cases h3 : e.isKiSe = true
      · rw [if_pos h3, if_pos h3]
        intro _
        exact ⟨hπ, rfl, AbOK.of_not_abort _ h1'⟩
      · rw [if_neg h3, if_neg h3]
        by_cases h4 : e.isExhausted = true
        · rw [if_pos h4, if_pos h4]
          intro _
          exact ⟨hπ, rfl, AbOK.of_not_abort _ h1'⟩
        · rw [if_neg h4, if_neg h4]
          by_cases h5 : e.isException = true
          · rw [if_pos h5, if_pos h5]
            intro henv
            have hp : OpExn e := by
              rcases hop with rfl | ⟨n, d, hm⟩
              · cases h5
              · have hin := grows_of_ext (fun w0 => callExceptionPath_ext w0 cfg a e) wc _ hm
                have := okX_op (henv _ hin)
                exact ⟨plain_of h1' (by simpa using h4) this.1 this.2, h5, h1', by simpa using h4⟩
            exact excPath_rel he tl hπ hatt hp henv
          · rw [if_neg h5, if_neg h5]
            intro _
            exact ⟨hπ, rfl, AbOK.of_not_abort _ h1'⟩

/-- the loop-top poll raised: call() lets it go; execute()'s handler ladder sees it -/
theorem topErr_rel {cfg : Cfg} (he : cfg.attemptEnd = none) (tl : Bool) {a : Nat} {e : Exn}
    {we1 wc1 : World} (hπ : π we1 = π wc1) (hab : AbOK e wc1)
    (hsrc : (e = .libAbort ∧ wc1.rs.lastStop = some .aborted) ∨
      (∃ d, (Req.abortIf, Ans.raise e d) ∈ wc1.trace) ∨ e.isException = false) :
    ARel a (.error e wc1) (execHandler cfg tl a e we1) := by
  intro henv
  unfold execHandler
  by_cases h1 : e.isAbort = true
  · rw [if_pos h1]
    obtain ⟨rfl, hls⟩ := hab.resolve henv h1
    obtain ⟨o, w', q1, q2, q3, q4, q5⟩ :=
      execAbortExit_noop he tl a .libAbort we1 (by rw [π_rs hπ]; exact hls)
    rw [q1]
    exact ⟨q2.trans hπ, by simp [deliverRelated, q3, q4],
      q3, by rw [q5, π_rs hπ], Or.inl ⟨rfl, q4⟩⟩
  · rw [if_neg h1]
    by_cases h2 : e = .cancelled
    · rw [if_pos h2]; exact ⟨hπ, rfl, hab⟩
    · rw [if_neg h2]
      by_cases h3 : e.isKiSe = true
      · rw [if_pos h3]; exact ⟨hπ, rfl, hab⟩
      · rw [if_neg h3]
        by_cases h4 : e.isExhausted = true
        · rw [if_pos h4]; exact ⟨hπ, rfl, hab⟩
        · rw [if_neg h4]
          by_cases h5 : e.isException = true
          · exfalso
            rcases hsrc with ⟨rfl, _⟩ | ⟨d, hm⟩ | h
            · exact h1 rfl
            · rcases okX_abortIf (henv _ hm) with h | h
              · rw [h] at h5; cases h5
              · exact h4 h
            · rw [h] at h5; cases h5
          · rw [if_neg h5]; exact ⟨hπ, rfl, hab⟩

/-! ### one attempt -/

theorem execAttempt_run (cfg : Cfg) (tl : Bool) (a : Nat) (we : World) :
    execAttempt cfg tl a we = (match execPre cfg tl a { we with as := {} } with
      | .ok v w1 => (tryCatch (execResultPath cfg tl a v) (execReturnedHandler cfg tl a) : M (Option Outcome)) w1
      | .error e w1 => execHandler cfg tl a e w1) := by
  unfold execAttempt
  simp only [bind_run, modify_run]
  rw [tryCatch_run]
  simp only [bind_run, pure_run]
  cases execPre cfg tl a { we with as := {} } with
  | ok v w1 => rfl
  | error e w1 =>
    simp only
    cases execHandler cfg tl a e w1 <;> rfl

theorem execPre_run {cfg : Cfg} (hs : cfg.attemptStart = none) (tl : Bool) (a : Nat) (w : World) :
    execPre cfg tl a w = (match checkAbort cfg tl (a - 1) w with
      | .error e w1 => .error e w1
      | .ok _ w1 =>
        match invokeOp a { w1 with as := { w1.as with started := true }, attempts := a } with
        | .ok v w2 => .ok v { w2 with as := { w2.as with returned := true } }
        | .error e w2 => .error e w2) := by
  unfold execPre
  simp only [callAttemptStart_none hs, bind_run, pure_run, modifyAS_run, modify_run]
  cases checkAbort cfg tl (a - 1) w with
  | error e w1 => rfl
  | ok u w1 =>
    simp only
    cases invokeOp a _ <;> rfl

theorem callAttempt_run {cfg : Cfg} (hs : cfg.attemptStart = none) (a : Nat) (wc : World) :
    callAttempt cfg a wc = (match checkAbort cfg false (a - 1) { wc with as := {} } with
      | .error e w1 => .error e w1
      | .ok _ w1 =>
        match invokeOp a { w1 with as := { w1.as with started := true } } with
        | .ok v w2 => callResultPath cfg a v w2
        | .error e w2 => callOpHandler cfg a e w2) := by
  unfold callAttempt
  simp only [callAttemptStart_none hs, bind_run, pure_run, modifyAS_run, modify_run, tryCatch_run]
  cases checkAbort cfg false (a - 1) { wc with as := {} } with
  | error e w1 => rfl
  | ok u w1 =>
    simp only
    cases invokeOp a _ with
    | ok v w2 => rfl
    | error e w2 =>
      simp only
      cases callOpHandler cfg a e w2 <;> rfl

theorem attempt_rel {cfg : Cfg} (hs : cfg.attemptStart = none) (he : cfg.attemptEnd = none) (tl : Bool)
    {a : Nat} {we wc : World} (hπ : π we = π wc) :
    ARel a (callAttempt cfg a wc) (execAttempt cfg tl a we) := by
  rw [callAttempt_run hs, execAttempt_run, execPre_run hs]
  have h0 : π { we with as := {} } = π { wc with as := {} } := hπ
  rcases (checkAbort_sim cfg tl (a - 1)).step h0 with
    ⟨u, we1, wc1, k1, k2, k3, k4⟩ | ⟨e1, we1, wc1, k1, k2, k3, k4, k5⟩
  · rw [k1, k2]
    simp only
    have h1 : π { we1 with as := { we1.as with started := true }, attempts := a }
        = π { wc1 with as := { wc1.as with started := true } } := k3
    rcases invokeOp_step (a := a) h1 with
      ⟨v, we2, wc2, m1, m2, m3, m4⟩ | ⟨e, we2, wc2, m1, m2, m3, m4, m5⟩
    · rw [m1, m2]
      simp only
      exact resultRegion_rel he tl (we := { we2 with as := { we2.as with returned := true } }) m3 m4
    · rw [m1, m2]
      simp only
      exact opHandler_rel he tl m3 m4 m5
  · rw [k1, k2]
    simp only
    exact topErr_rel he tl k3 k5 (checkAbort_err k2)

/-! ### the loop -/

/-- call-mode result of the whole run vs execute-mode result -/
def FinalRel (m : Nat) (rc : EStateM.Result Exn World Nat) (re : EStateM.Result Exn World Outcome) : Prop :=
  match rc, re with
  | .ok v wc, .ok o we => π we = π wc ∧ deliverRelated (.ret v) (.outcome o []) = true
  | .error e wc, .ok o we =>
    π we = π wc ∧ deliverRelated (.raised e) (.outcome o []) = true ∧ ErrKind m e o wc
  | .error e wc, .error e' we => π we = π wc ∧ e' = e
  | .ok _ _, .error _ _ => False

/-- before attempt `a`: nothing recorded yet (first attempt), or what the last failed attempt recorded -/
def LoopInv (a : Nat) (w : World) : Prop :=
  (a = 1 ∧ w.rs.lastCause = none ∧ w.rs.lastExc = none) ∨ Carry w

theorem callLoop_zero (cfg : Cfg) (a : Nat) : callLoop cfg 0 a = raiseExhaustedCall cfg := rfl
theorem callLoop_succ (cfg : Cfg) (fuel a : Nat) :
    callLoop cfg (fuel + 1) a = (callAttempt cfg a >>= fun r =>
      match r with
      | some v => pure v
      | none => callLoop cfg fuel (a + 1)) := rfl
theorem execLoop_zero (cfg : Cfg) (tl : Bool) (a : Nat) :
    execLoop cfg tl 0 a = buildExhaustedOutcome cfg tl := rfl
theorem execLoop_succ (cfg : Cfg) (tl : Bool) (fuel a : Nat) :
    execLoop cfg tl (fuel + 1) a = (execAttempt cfg tl a >>= fun r =>
      match r with
      | some o => pure o
      | none => execLoop cfg tl fuel (a + 1)) := rfl

/-- `raise_exhausted_call` vs `build_exhausted_outcome` -/
theorem exhausted_rel {cfg : Cfg} (tl : Bool) {we wc : World} (hπ : π we = π wc)
    (hatt : we.attempts = cfg.maxAttempts) (hinv : LoopInv (cfg.maxAttempts + 1) wc) :
    FinalRel cfg.maxAttempts (raiseExhaustedCall cfg wc) (buildExhaustedOutcome cfg tl we) := by
  unfold raiseExhaustedCall buildExhaustedOutcome
  rw [bind_run, bind_run]
  rcases (emitMaxAttemptsExceeded_sim cfg tl).step hπ with
    ⟨u, we1, wc1, k1, k2, k3, k4⟩ | ⟨e1, we1, wc1, k1, k2, k3, k4, k5⟩
  · rw [k1, k2]
    obtain ⟨g1, g2, g3⟩ := emitMaxAttemptsExceeded_ok k2
    have hrs : we1.rs = wc1.rs := π_rs k3
    have hatt1 : we1.attempts = cfg.maxAttempts := k4.trans hatt
    simp only [bind_run, getRS_run, get_run, buildOutcome_run]
    rcases hinv with ⟨h1, h2, h3⟩ | h | ⟨h1, e, h2, h3⟩
    · have hm : cfg.maxAttempts = 0 := by omega
      rw [g2, g3, h2, h3]
      simp only [reduceCtorEq, if_false, throw_run]
      exact ⟨k3, by simp [deliverRelated, hrs, g1, hatt1, hm],
        rfl, by simp [hrs], Or.inr (Or.inr (Or.inr ⟨rfl, hm⟩))⟩
    · rw [g2, h]
      simp only [if_true, throw_run]
      exact ⟨k3, by simp [deliverRelated, hrs, g1, g2, h, hatt1],
        rfl, by simp [hrs], Or.inr (Or.inl ⟨⟨_, rfl, rfl⟩, by simp [hrs, g1]⟩)⟩
    · rw [g2, g3, h1, h2]
      simp only [reduceCtorEq, if_false]
      refine ⟨k3, ?_, rfl, by simp [hrs], Or.inr (Or.inr (Or.inl ⟨h3, by rw [g3]; exact h2, by simp [hrs, g1]⟩))⟩
      rw [dr_plain h3.1]
      simp [hrs, g2, g3, h1, h2]
  · rw [k1, k2]
    exact ⟨k3, rfl⟩

theorem loop_rel {cfg : Cfg} (hs : cfg.attemptStart = none) (he : cfg.attemptEnd = none) (tl : Bool) :
    ∀ (fuel a : Nat) (we wc : World), π we = π wc → fuel + a = cfg.maxAttempts + 1 →
      we.attempts + 1 = a → LoopInv a wc → Env (finalWorld (callLoop cfg fuel a wc)).trace →
      FinalRel cfg.maxAttempts (callLoop cfg fuel a wc) (execLoop cfg tl fuel a we)
  | 0, a, we, wc, hπ, hfa, hatt, hinv, _ => by
    have ha : a = cfg.maxAttempts + 1 := by omega
    subst ha
    rw [callLoop_zero, execLoop_zero]
    exact exhausted_rel tl hπ (by omega) hinv
  | fuel + 1, a, we, wc, hπ, hfa, hatt, hinv, henv => by
    have hA := attempt_rel hs he tl (a := a) hπ
    rw [callLoop_succ] at henv ⊢
    rw [execLoop_succ]
    rw [bind_run] at henv ⊢
    rw [bind_run]
    cases hc : callAttempt cfg a wc with
    | ok x wc1 =>
      rw [hc] at henv hA
      cases x with
      | none =>
        simp only at henv ⊢
        have henv1 : Env wc1.trace :=
          henv.mono (grows_of_ext (fun w0 => callLoop_ext w0 cfg fuel (a + 1)) wc1)
        have h' := hA henv1
        cases he' : execAttempt cfg tl a we with
        | ok y we1 =>
          rw [he'] at h'
          cases y with
          | none =>
            obtain ⟨p1, p2, p3⟩ := h'
            exact loop_rel hs he tl fuel (a + 1) we1 wc1 p1 (by omega) (by omega) (Or.inr p3) henv
          | some o => exact h'.elim
        | error e we1 => rw [he'] at h'; exact h'.elim
      | some v =>
        simp only at henv ⊢
        have h' := hA henv
        cases he' : execAttempt cfg tl a we with
        | ok y we1 =>
          rw [he'] at h'
          cases y with
          | none => exact h'.elim
          | some o => exact h'
        | error e we1 => rw [he'] at h'; exact h'.elim
    | error e wc1 =>
      rw [hc] at henv hA
      simp only at henv ⊢
      have h' := hA henv
      cases he' : execAttempt cfg tl a we with
      | ok y we1 =>
        rw [he'] at h'
        cases y with
        | none => exact h'.elim
        | some o => exact ⟨h'.1, h'.2.1, h'.2.2.mono⟩
      | error e' we1 =>
        rw [he'] at h'
        exact ⟨h'.1, h'.2.1⟩

/-- `_run_sync_call` vs `_run_sync_execute` -/
theorem run_rel {cfg : Cfg} (hs : cfg.attemptStart = none) (he : cfg.attemptEnd = none) (w : World)
    (henv : Env (finalWorld (runCall cfg w)).trace) :
    FinalRel cfg.maxAttempts (runCall cfg w) (runExecute cfg w) := by
  unfold runCall runExecute initState at *
  simp only [bind_run, modify_run] at henv ⊢
  exact loop_rel hs he cfg.timeline cfg.maxAttempts 1 _ _ rfl rfl rfl (Or.inl ⟨rfl, rfl, rfl⟩) henv

end Redress
