/-
  Redress.Lemmas.SimPolicyNR — Policy.call vs Policy.execute without a retry loop (C12, T3-NR).
  Both wrappers run from the SAME world, so the relation is plain equality of the final worlds.
-/
import Redress.Lemmas.SimPolicyNB

namespace Redress
open Twin Retry Policy

/-- `Policy.call` vs `Policy.execute`, no-retry mode: equal worlds, related results -/
def NRRel (rc : EStateM.Result Exn World Nat) (re : EStateM.Result Exn World Outcome) : Prop :=
  match rc, re with
  | .ok v wc, .ok o we => we = wc ∧ deliverRelated (.ret v) (.outcome o []) = true
  | .error e wc, .ok o we => we = wc ∧ deliverRelated (.raised e) (.outcome o []) = true
  | .error e wc, .error e' we => we = wc ∧ e' = e
  | .ok _ _, .error _ _ => False

/-- the requests whose exception enters the `except` ladders of the no-retry paths -/
def entersLadder : Req → Bool
  | .op _ | .attemptStart _ => true
  | _ => false

/-- what T3-NR assumes about an exception raised by the operation (or the start hook):
    not one of the library's own terminal objects; a circuit-open kind only without a breaker (F12);
    a `RetryExhaustedError` only without a breaker or with `last_class` UNKNOWN / unset (F13) -/
def LadderOK (cfg : Cfg) (e : Exn) : Prop :=
  (e.isCircuitOpen = true → cfg.breaker = none ∧ ∀ st, e ≠ .libCircuitOpen st) ∧
  e ≠ .libRuntimeError ∧ (∀ f, e ≠ .libExhausted f) ∧
  (e.isExhausted = true → cfg.breaker = none ∨ e.exhaustedClass.getD .unknown = .unknown)

structure NRHyp (cfg : Cfg) (rc : EStateM.Result Exn World Nat) : Prop where
  lad : ∀ x ∈ (finalWorld rc).trace, entersLadder x.1 = true → ∀ e d, x.2 = .raise e d → LadderOK cfg e
  hook : HookOK (finalWorld rc).trace

theorem LadderOK.stuck (cfg : Cfg) : LadderOK cfg .stuck :=
  ⟨(fun h => by cases h), (fun h => by cases h), (fun _ h => by cases h), (fun h => by cases h)⟩

/-! ### the pieces -/

theorem noRetryEndHook_off {cfg : Cfg} (hend : cfg.cAttemptEnd = false) (exc : Option Exn) (r : Option Nat)
    (d : AttemptDecision) (st : Option StopReason) (c : Option Cause) :
    noRetryEndHook cfg exc r d st c = pure () := by
  unfold noRetryEndHook
  simp [hend]

theorem xElapsed_grows : Grows xElapsed := ⟨fun _ _ h => h⟩

theorem callLadder_grows' (cfg : Cfg) (e : Exn) : Grows (callLadder cfg e) := by
  unfold callLadder handleAbortCall handleExhaustedCall handleExceptionCall classifyForBreaker callClassifier
    noRetryEndHook
  grows [recordCancel_grows, recordFailureP_grows, xElapsed_grows]

theorem noRetryStartHook_err {cfg : Cfg} {w : World} {e : Exn} {w' : World}
    (h : noRetryStartHook cfg w = .error e w') :
    e = .stuck ∨ ∃ c d, (Req.attemptStart c, Ans.raise e d) ∈ w'.trace := by
  unfold noRetryStartHook at h
  by_cases hc : cfg.cAttemptStart = true
  · rw [if_pos hc] at h
    rcases bind_err h with h1 | ⟨el, w1, h1, h2⟩
    · cases h1
    · rcases bind_err h2 with k1 | ⟨_, w2, _, k2⟩
      · rcases ask_err k1 with rfl | ⟨d, hd⟩
        · exact Or.inl rfl
        · exact Or.inr ⟨_, d, hd⟩
      · cases k2
  · rw [if_neg hc] at h; cases h

theorem invokeOp_err {a : Nat} {w : World} {e : Exn} {w' : World} (h : invokeOp a w = .error e w') :
    e = .stuck ∨ ∃ n d, (Req.op n, Ans.raise e d) ∈ w'.trace := by
  rcases invokeOp_step (a := a) (we := w) (wc := w) rfl with
    ⟨v, we1, wc1, m1, _⟩ | ⟨e1, we1, wc1, m1, m2, _, _, m5⟩
  · rw [h] at m1; cases m1
  · rw [h] at m2
    injection m2 with h1 h2
    subst h1 h2
    exact m5

/-- `policyOutcome` only reads -/
theorem policyOutcome_run (ok : Bool) (value : Option Nat) (stop : Option StopReason) (n : Nat)
    (lc : Option EClass) (le : Option String) (c : Option Cause) (w : World) :
    policyOutcome ok value stop n lc le c w = .ok
      { ok, value := if ok then value else none, stop, attempts := n, lastClass := lc, lastExc := le,
        lastResult := none, cause := c, elapsed := w.now - w.xc.start, nextSleep := none } w := rfl

/-- the two ladders on the same exception from the same world -/
theorem ladder_nr {cfg : Cfg} (hret : cfg.hasRetry = false) (hend : cfg.cAttemptEnd = false)
    (invoked : Bool) (e : Exn) (w : World) (hl : LadderOK cfg e) :
    NRRel (callLadder cfg e w) (noRetryLadder cfg invoked e w) := by
  obtain ⟨l1, l2, l3, l4⟩ := hl
  unfold callLadder noRetryLadder
  by_cases hab : e.isAbort = true
  · have k1 : (cfg.isAsync && decide (e = .cancelled)) = false := by cases e <;> simp_all [Exn.isAbort]
    have k2 : e.isKiSe = false := by cases e <;> simp_all [Exn.isAbort, Exn.isKiSe]
    simp only [k1, k2, hab, Bool.false_eq_true, if_false, if_true]
    unfold handleAbortCall
    simp only [hret, Bool.not_false, if_true, noRetryEndHook_off hend, bind_run, pure_run, recordCancel_run,
      throw_run, policyOutcome_run]
    refine ⟨rfl, ?_⟩
    cases e <;> simp_all [Exn.isAbort, deliverRelated]
  · have hab' : e.isAbort = false := by simpa using hab
    rw [if_neg hab, if_neg hab]
    by_cases k1 : (cfg.isAsync && decide (e = .cancelled)) = true
    · rw [if_pos k1, if_pos k1]
      simp only [bind_run, recordCancel_run, throw_run]
      exact ⟨rfl, rfl⟩
    · rw [if_neg k1, if_neg k1]
      by_cases k2 : e.isKiSe = true
      · rw [if_pos k2, if_pos k2]
        simp only [bind_run, recordCancel_run, throw_run]
        exact ⟨rfl, rfl⟩
      · rw [if_neg k2, if_neg k2]
        by_cases hex : e.isExhausted = true
        · have hxc : e.isException = true := by cases e <;> simp_all [Exn.isExhausted, Exn.isException]
          rw [if_pos hex, if_pos hxc]
          unfold handleExhaustedCall
          have hk : Policy.recordFailure cfg (e.exhaustedClass.getD .unknown)
              = Policy.recordFailure cfg (defaultClass e) := by
            rcases l4 hex with hb | hu
            · rw [recordFailure_none hb, recordFailure_none hb]
            · rw [hu]
              cases e <;> simp_all [Exn.isExhausted, defaultClass]
          rw [hk]
          simp only [noRetryEndHook_off hend, bind_run, pure_run, throw_run, policyOutcome_run]
          cases Policy.recordFailure cfg (defaultClass e) w with
          | ok u w1 =>
            refine ⟨rfl, ?_⟩
            cases e <;> simp_all [Exn.isExhausted, deliverRelated]
          | error e2 w1 => exact ⟨rfl, rfl⟩
        · have hex' : e.isExhausted = false := by simpa using hex
          rw [if_neg hex]
          by_cases hxc : e.isException = true
          · rw [if_pos hxc, if_pos hxc]
            unfold handleExceptionCall
            by_cases hco : e.isCircuitOpen = true
            · obtain ⟨hb, hnl⟩ := l1 hco
              rw [if_pos hco]
              simp only [recordFailure_none hb, noRetryEndHook_off hend, bind_run, pure_run, throw_run,
                policyOutcome_run]
              refine ⟨rfl, ?_⟩
              cases e <;> simp_all [Exn.isCircuitOpen, deliverRelated, Exn.ref]
            · rw [if_neg hco]
              unfold classifyForBreaker
              simp only [hret, Bool.not_false, Bool.true_and, if_true, Bool.false_eq_true, if_false,
                noRetryEndHook_off hend, bind_run, pure_run, throw_run, policyOutcome_run]
              cases Policy.recordFailure cfg (defaultClass e) w with
              | ok u w1 =>
                refine ⟨rfl, ?_⟩
                have hp : Plain e := by
                  cases e <;> simp_all [Plain, Exn.isAbort, Exn.isCircuitOpen, Exn.isExhausted]
                rw [dr_plain hp]
                simp
              | error e2 w1 => exact ⟨rfl, rfl⟩
          · rw [if_neg hxc, if_neg hxc]
            exact ⟨rfl, rfl⟩

/-! ### the two no-retry paths -/

/-- `Policy.call` after admission and the pre-call poll (no retry loop) -/
def callMidNR (cfg : Cfg) : M Nat :=
  tryCatch (do let v ← callWithoutRetry cfg; Policy.recordSuccess cfg; pure v) (callLadder cfg)

theorem callMidNR_run {cfg : Cfg} (hend : cfg.cAttemptEnd = false) (w : World) :
    callMidNR cfg w = (match noRetryStartHook cfg w with
      | .error e w1 => callLadder cfg e w1
      | .ok _ w1 =>
        match invokeOp 1 w1 with
        | .error e w2 => callLadder cfg e w2
        | .ok v w2 =>
          match Policy.recordSuccess cfg w2 with
          | .ok _ w3 => .ok v w3
          | .error e3 w3 => callLadder cfg e3 w3) := by
  unfold callMidNR callWithoutRetry
  simp only [noRetryEndHook_off hend, bind_run, tryCatch_run, pure_run]
  cases noRetryStartHook cfg w with
  | error e w1 => rfl
  | ok u w1 =>
    simp only
    cases invokeOp 1 w1 with
    | error e w2 => rfl
    | ok v w2 =>
      simp only
      cases Policy.recordSuccess cfg w2 <;> rfl

theorem execNR_run {cfg : Cfg} (hend : cfg.cAttemptEnd = false) (w : World) :
    executeWithoutRetry cfg w = (match noRetryStartHook cfg w with
      | .error e w1 => noRetryLadder cfg false e w1
      | .ok _ w1 =>
        match invokeOp 1 w1 with
        | .error e w2 => noRetryLadder cfg true e w2
        | .ok v w2 =>
          match Policy.recordSuccess cfg w2 with
          | .ok _ w3 => policyOutcome true (some v) none 1 none none none w3
          | .error e3 w3 => .error e3 w3) := by
  unfold executeWithoutRetry
  simp only [noRetryEndHook_off hend, bind_run, tryCatch_run, pure_run]
  cases noRetryStartHook cfg w with
  | error e w1 =>
    simp only
    cases noRetryLadder cfg false e w1 <;> rfl
  | ok u w1 =>
    simp only [bind_run, tryCatch_run, pure_run]
    cases invokeOp 1 w1 with
    | error e w2 =>
      simp only
      cases noRetryLadder cfg true e w2 <;> rfl
    | ok v w2 =>
      simp only [bind_run, pure_run]
      cases Policy.recordSuccess cfg w2 <;> rfl

theorem mid_nr {cfg : Cfg} (hret : cfg.hasRetry = false) (hend : cfg.cAttemptEnd = false) (w : World)
    (H : NRHyp cfg (callMidNR cfg w)) : NRRel (callMidNR cfg w) (executeWithoutRetry cfg w) := by
  rw [callMidNR_run hend] at H ⊢
  rw [execNR_run hend]
  cases hS : noRetryStartHook cfg w with
  | error e w1 =>
    rw [hS] at H
    simp only at H ⊢
    have hl : LadderOK cfg e := by
      rcases noRetryStartHook_err hS with rfl | ⟨c, d, hm⟩
      · exact LadderOK.stuck cfg
      · exact H.lad _ ((callLadder_grows' cfg e).le w1 _ hm) rfl e d rfl
    exact ladder_nr hret hend false e w1 hl
  | ok u w1 =>
    rw [hS] at H
    simp only at H ⊢
    cases hO : invokeOp 1 w1 with
    | error e w2 =>
      rw [hO] at H
      simp only at H ⊢
      have hl : LadderOK cfg e := by
        rcases invokeOp_err hO with rfl | ⟨n, d, hm⟩
        · exact LadderOK.stuck cfg
        · exact H.lad _ ((callLadder_grows' cfg e).le w2 _ hm) rfl e d rfl
      exact ladder_nr hret hend true e w2 hl
    | ok v w2 =>
      rw [hO] at H
      simp only at H ⊢
      cases hR : Policy.recordSuccess cfg w2 with
      | ok u3 w3 =>
        simp only [policyOutcome_run]
        exact ⟨rfl, by simp [deliverRelated]⟩
      | error e3 w3 =>
        exfalso
        rw [hR] at H
        obtain ⟨h1, r, d, h2, h3⟩ := recordSuccess_err hR
        have hin := (callLadder_grows' cfg e3).le w3 _ h2
        have := H.hook _ hin h3 e3 d rfl
        rw [h1] at this
        cases this

/-! ### the pre-call poll and admission -/

/-- `Policy.call` from the pre-call poll on -/
def callTailNR (cfg : Cfg) : M Nat := do
  let aborted ← checkAbortNoRetry cfg
  if aborted = true then throw .libAbort else callMidNR cfg

/-- `Policy.execute` from the pre-call poll on -/
def execTailNR (cfg : Cfg) : M Outcome := do
  let aborted ← checkAbortNoRetry cfg
  if aborted = true then policyOutcome false none (some .aborted) 0 none none none
  else executeWithoutRetry cfg

theorem callAdmitted_nr {cfg : Cfg} (hret : cfg.hasRetry = false) :
    callAdmitted cfg = (do checkBreaker cfg; callTailNR cfg) := by
  unfold callAdmitted callTailNR callMidNR
  simp [hret]

theorem executeAdmitted2_nr {cfg : Cfg} (hret : cfg.hasRetry = false) :
    executeAdmitted2 cfg = execTailNR cfg := by
  unfold executeAdmitted2 execTailNR
  simp [hret]

theorem abortPhase_nr {cfg : Cfg} (hret : cfg.hasRetry = false) (hend : cfg.cAttemptEnd = false) (w : World)
    (H : NRHyp cfg (callTailNR cfg w)) : NRRel (callTailNR cfg w) (execTailNR cfg w) := by
  revert H
  unfold callTailNR execTailNR
  rw [bind_run, bind_run]
  cases hA : checkAbortNoRetry cfg w with
  | error e w1 => intro _; exact ⟨rfl, rfl⟩
  | ok ab w1 =>
    cases ab with
    | true =>
      intro _
      simp only [if_true, throw_run, policyOutcome_run]
      exact ⟨rfl, by simp [deliverRelated]⟩
    | false =>
      simp only [Bool.false_eq_true, if_false]
      exact mid_nr hret hend w1

theorem admitted_nr {cfg : Cfg} (hret : cfg.hasRetry = false) (hend : cfg.cAttemptEnd = false) (w : World)
    (H : NRHyp cfg (callAdmitted cfg w)) : NRRel (callAdmitted cfg w) (executeAdmitted cfg w) := by
  revert H
  rw [callAdmitted_nr hret]
  unfold executeAdmitted checkBreaker
  cases hb : cfg.breaker with
  | none =>
    simp only [bind_run, pure_run]
    rw [executeAdmitted2_nr hret]
    exact abortPhase_nr hret hend w
  | some bc =>
    have hba : ∃ d w2, breakerAllow bc w = .ok d w2 := ⟨_, _, rfl⟩
    obtain ⟨d, w2, hba1⟩ := hba
    simp only [bind_run, hba1]
    cases hE : emitBreakerEvent cfg d.2.2 d.2.1 none w2 with
    | error e w3 => intro _; exact ⟨rfl, rfl⟩
    | ok u w3 =>
      simp only
      by_cases hd1 : d.1 = true
      · simp only [hd1, if_true, pure_run]
        rw [executeAdmitted2_nr hret]
        exact abortPhase_nr hret hend w3
      · simp only [hd1, Bool.false_eq_true, if_false, throw_run, policyOutcome_run]
        intro _
        exact ⟨rfl, by simp [deliverRelated, Exn.ref]⟩

end Redress
