/-
  Redress.Lemmas.ThreadsLemmas — helper lemmas for C17 (one-mutex thread calculus).

  `wl_step`   : the lock discipline is preserved by every fine step;
  `sim_step`  : a fine step is either absorbed by "complete the holder's section" or is exactly one
                coarse step between the completed configurations;
  `simulate`  : hence every fine execution is matched by a coarse execution;
  `wl_append`, `wl_flatten`, `wlc_eq_wl` : the discipline of a program that is a concatenation of
                method shapes follows from the discipline of each shape.
-/
import Redress.Model.Threads

namespace Redress.Threads

variable {L S : Type}

@[simp] theorem upd_same {α : Type} (f : Nat → α) (i : Nat) (v : α) : upd f i v i = v := by
  simp [upd]

@[simp] theorem upd_other {α : Type} (f : Nat → α) (i j : Nat) (v : α) (h : j ≠ i) :
    upd f i v j = f j := by simp [upd, h]

theorem upd_upd {α : Type} (f : Nat → α) (i : Nat) (v w : α) : upd (upd f i v) i w = upd f i w := by
  funext j; by_cases h : j = i <;> simp [upd, h]

theorem upd_comm {α : Type} (f : Nat → α) (i j : Nat) (v w : α) (h : i ≠ j) :
    upd (upd f i v) j w = upd (upd f j w) i v := by
  funext k
  by_cases h1 : k = i <;> by_cases h2 : k = j <;> simp_all [upd]

theorem Conf.ext' {a b : Conf L S} (h1 : a.threads = b.threads) (h2 : a.shared = b.shared)
    (h3 : a.holder = b.holder) : a = b := by
  cases a; cases b; simp_all

/-! ### shapes versus code -/

/-- The discipline on code is the discipline on its shape. -/
theorem wlc_eq_wl (h : Bool) (c : List (Cmd L S)) : wlc h c = wl h (c.map Cmd.instr) := by
  induction c generalizing h with
  | nil => simp [wlc, wl]
  | cons x r ih => cases x <;> simp [wlc, wl, Cmd.instr, ih]

/-- A shape that ends lock-free followed by a well-locked shape is well-locked. -/
theorem wl_append (h : Bool) (a b : List Instr) (ha : wl h a = true) (hb : wl false b = true) :
    wl h (a ++ b) = true := by
  induction a generalizing h with
  | nil =>
    cases h with
    | false => simpa using hb
    | true => simp [wl] at ha
  | cons x r ih =>
    cases x with
    | loc => simp only [List.cons_append, wl] at ha ⊢; exact ih h ha
    | acq =>
      simp only [List.cons_append, wl, Bool.and_eq_true] at ha ⊢
      exact ⟨ha.1, ih true ha.2⟩
    | rel =>
      simp only [List.cons_append, wl, Bool.and_eq_true] at ha ⊢
      exact ⟨ha.1, ih false ha.2⟩
    | sh =>
      simp only [List.cons_append, wl, Bool.and_eq_true] at ha ⊢
      exact ⟨ha.1, ih true ha.2⟩

/-- Any concatenation of well-locked shapes is well-locked (any number of operations). -/
theorem wl_flatten (ss : List (List Instr)) (h : ∀ s ∈ ss, wl false s = true) :
    wl false ss.flatten = true := by
  induction ss with
  | nil => simp [wl]
  | cons s r ih =>
    simp only [List.flatten_cons]
    exact wl_append false s r.flatten (h s (by simp)) (ih (fun t ht => h t (by simp [ht])))

/-- A lock-neutral block (only `loc`/`sh`, e.g. a loop body inside or outside a `with`). -/
def neutral (b : List Instr) : Bool := b.all (fun x => x == .loc || x == .sh)

/-- A lock-neutral block does not change the holding status: what follows it is checked with the
    same status. -/
theorem wl_neutral_append (h : Bool) (b r : List Instr) (hn : neutral b = true) :
    wl h (b ++ r) = (wl h r && (h || b.all (· == .loc))) := by
  induction b with
  | nil => simp
  | cons x t ih =>
    have hn' : neutral t = true := by
      simp only [neutral, List.all_cons, Bool.and_eq_true] at hn; exact hn.2
    cases x with
    | loc => simp [wl, ih hn']
    | sh => cases h <;> simp [wl, ih hn']
    | acq => simp [neutral] at hn
    | rel => simp [neutral] at hn

theorem wl_repeat_core (h : Bool) (b post : List Instr) (hn : neutral b = true) (n : Nat)
    (h1 : wl h (b ++ post) = true) :
    wl h ((List.replicate (n + 1) b).flatten ++ post) = true := by
  induction n with
  | zero => simpa using h1
  | succ k ih =>
    rw [List.replicate_succ, List.flatten_cons, List.append_assoc, wl_neutral_append h b _ hn]
    rw [wl_neutral_append h b _ hn] at h1
    simp only [Bool.and_eq_true] at h1 ⊢
    exact ⟨ih, h1.2⟩

/-- Loop justification: if a path on which a lock-neutral loop body `b` is taken once is well-locked,
    the path with the body taken any number `n+1` of times is well-locked too.  (The extractor emits
    each loop with its body taken 0 times and once, and refuses loops whose body acquires, releases
    or returns.) -/
theorem wl_repeat (h : Bool) (pre b post : List Instr) (hn : neutral b = true) (n : Nat)
    (hw : wl h (pre ++ (b ++ post)) = true) :
    wl h (pre ++ ((List.replicate (n + 1) b).flatten ++ post)) = true := by
  induction pre generalizing h with
  | nil => simpa using wl_repeat_core h b post hn n (by simpa using hw)
  | cons x r ih =>
    cases x with
    | loc => simp only [List.cons_append, wl] at hw ⊢; exact ih h hw
    | acq =>
      simp only [List.cons_append, wl, Bool.and_eq_true] at hw ⊢
      exact ⟨hw.1, ih true hw.2⟩
    | rel =>
      simp only [List.cons_append, wl, Bool.and_eq_true] at hw ⊢
      exact ⟨hw.1, ih false hw.2⟩
    | sh =>
      simp only [List.cons_append, wl, Bool.and_eq_true] at hw ⊢
      exact ⟨hw.1, ih true hw.2⟩

/-! ### preservation of the discipline -/

theorem wl_step (c c' : Conf L S) (i : Nat) (hwl : WL c) (hs : step c i = some c') : WL c' := by
  intro j
  have hwi := hwl i
  have hwj := hwl j
  unfold step at hs
  cases hcode : (c.threads i).code with
  | nil => simp [hcode] at hs
  | cons ins r =>
    rw [hcode] at hwi
    cases ins with
    | loc f =>
      simp [hcode] at hs; subst hs
      by_cases hj : j = i
      · subst hj; simpa [wlc] using hwi
      · simpa [upd, hj] using hwj
    | acq =>
      by_cases hn : c.holder = none
      · simp [hcode, hn] at hs; subst hs
        by_cases hj : j = i
        · subst hj; simp [wlc, hn] at hwi; simpa using hwi
        · have : (some i == some j) = false := by simp; exact fun e => hj e.symm
          simp [upd, hj, this]
          simpa [hn] using hwj
      · simp [hcode, hn] at hs
    | rel =>
      by_cases hn : c.holder = some i
      · simp [hcode, hn] at hs; subst hs
        by_cases hj : j = i
        · subst hj; simp [wlc, hn] at hwi; simpa using hwi
        · have : (some i == some j) = false := by simp; exact fun e => hj e.symm
          simp [upd, hj]
          simpa [hn, this] using hwj
      · simp [hcode, hn] at hs
    | sh f =>
      simp [hcode] at hs; subst hs
      by_cases hj : j = i
      · subst hj; simp [wlc] at hwi; simp [hwi.1]; exact hwi.2
      · simpa [upd, hj] using hwj

theorem wl_exec (sched : List Nat) :
    ∀ (c cf : Conf L S), WL c → exec c sched = some cf → WL cf := by
  induction sched with
  | nil => intro c cf hw he; simp [exec] at he; subst he; exact hw
  | cons j js ih =>
    intro c cf hw he
    simp only [exec] at he
    cases hs : step c j with
    | none => simp [hs] at he
    | some c' => simp [hs] at he; exact ih c' cf (wl_step c c' j hw hs) he

/-! ### simulation -/

/-- One fine step of a well-locked configuration is either absorbed by `complete` (a step inside the
    holder's critical section) or is exactly one coarse step between the completed configurations. -/
theorem sim_step (c c' : Conf L S) (i : Nat) (hwl : WL c) (hs : step c i = some c') :
    complete c' = complete c ∨ astep (complete c) i = some (complete c') := by
  have hwi := hwl i
  unfold step at hs
  cases hh : c.holder with
  | none =>
    have hc : complete c = c := by simp [complete, hh]
    rw [hc]
    cases hcode : (c.threads i).code with
    | nil => simp [hcode] at hs
    | cons ins r =>
      cases ins with
      | loc f =>
        simp [hcode] at hs
        right
        subst hs
        simp [astep, hcode, complete, hh]
      | acq =>
        simp [hcode, hh] at hs
        right
        subst hs
        simp [astep, hcode, hh, complete, upd_upd]
      | rel => simp [hcode, hh] at hs
      | sh f => simp [hcode, hh, wlc] at hwi
  | some h =>
    by_cases hih : i = h
    · subst hih
      left
      cases hcode : (c.threads i).code with
      | nil => simp [hcode] at hs
      | cons ins r =>
        cases ins with
        | loc f =>
          simp [hcode] at hs
          subst hs
          simp [complete, hh, hcode, finish, upd_upd]
        | acq => simp [hcode, hh] at hs
        | rel =>
          simp [hcode, hh] at hs
          subst hs
          simp [complete, hh, hcode, finish]
        | sh f =>
          simp [hcode] at hs
          subst hs
          simp [complete, hh, hcode, finish, upd_upd]
    · right
      have hne : (c.holder == some i) = false := by simp [hh]; exact fun e => hih e.symm
      rw [hne] at hwi
      cases hcode : (c.threads i).code with
      | nil => simp [hcode] at hs
      | cons ins r =>
        cases ins with
        | loc f =>
          simp [hcode] at hs
          subst hs
          have : (complete c).threads i = c.threads i := by simp [complete, hh, upd, hih]
          have hhi : ¬ h = i := fun e => hih e.symm
          simp [astep, complete, hh, hih, hhi, hcode, upd_other]
          exact upd_comm _ _ _ _ _ hhi
        | acq => simp [hcode, hh] at hs
        | rel =>
          simp [hcode, hh] at hs
          exact absurd hs.1.symm hih
        | sh f => simp [hcode, wlc] at hwi

/-- Every fine-grained execution of a well-locked program is matched by a coarse execution in which
    each critical section is a single atomic step (in lock-acquisition order). -/
theorem simulate (sched : List Nat) : ∀ (c cf : Conf L S), WL c → exec c sched = some cf →
    ∃ sched', aexec (complete c) sched' = some (complete cf) := by
  induction sched with
  | nil => intro c cf _ h; simp [exec] at h; subst h; exact ⟨[], rfl⟩
  | cons i is ih =>
    intro c cf hwl h
    simp only [exec] at h
    cases hs : step c i with
    | none => simp [hs] at h
    | some c' =>
      simp [hs] at h
      obtain ⟨sched', hsched'⟩ := ih c' cf (wl_step c c' i hwl hs) h
      rcases sim_step c c' i hwl hs with heq | hstep
      · exact ⟨sched', by rw [← heq]; exact hsched'⟩
      · exact ⟨i :: sched', by simp [aexec, hstep, hsched']⟩

theorem terminal_holder_none (c : Conf L S) (hwl : WL c) (ht : Terminal c) : c.holder = none := by
  cases hh : c.holder with
  | none => rfl
  | some h =>
    have := hwl h
    simp [ht h, hh, wlc] at this

/-! ### observation logs (branching programs: the coarse run follows the same paths) -/

/-- what one instruction read: the thread-local state and, for `sh`, the shared state -/
abbrev Obs (L S : Type) := L × Option S

/-- the same instruction, additionally appending what it read to a log kept in the local state -/
def Cmd.logged : Cmd L S → Cmd (L × List (Obs L S)) S
  | .loc f => .loc (fun p => (f p.1, p.2 ++ [(p.1, none)]))
  | .acq => .acq
  | .rel => .rel
  | .sh f => .sh (fun p s => (((f p.1 s).1, p.2 ++ [(p.1, some s)]), (f p.1 s).2))

/-- forget the logs -/
def Conf.forget (c : Conf (L × List (Obs L S)) S) (code : Nat → List (Cmd L S)) : Conf L S :=
  { threads := fun i => ⟨(c.threads i).loc.1, code i⟩, shared := c.shared, holder := c.holder }

/-- `c'` is `c` with logging instructions and some logs -/
def LoggedOf (c : Conf L S) (c' : Conf (L × List (Obs L S)) S) : Prop :=
  c'.shared = c.shared ∧ c'.holder = c.holder ∧
  ∀ i, (c'.threads i).loc.1 = (c.threads i).loc ∧ (c'.threads i).code = (c.threads i).code.map Cmd.logged

theorem step_logged (c cn : Conf L S) (c' : Conf (L × List (Obs L S)) S) (i : Nat)
    (h : LoggedOf c c') (hs : step c i = some cn) : ∃ cn', step c' i = some cn' ∧ LoggedOf cn cn' := by
  obtain ⟨hsh, hho, hth⟩ := h
  have hi := hth i
  unfold step at hs ⊢
  cases hcode : (c.threads i).code with
  | nil => simp [hcode] at hs
  | cons ins r =>
    rw [hcode] at hi
    rw [hi.2]
    cases ins with
    | loc f =>
      simp [hcode] at hs; subst hs
      simp only [List.map_cons, Cmd.logged]
      refine ⟨_, rfl, hsh, hho, ?_⟩
      intro j
      by_cases hj : j = i
      · subst hj; simp [hi.1]
      · simp [upd, hj]; exact hth j
    | acq =>
      by_cases hn : c.holder = none
      · simp [hcode, hn] at hs; subst hs
        simp only [List.map_cons, Cmd.logged, hho, hn, if_true]
        refine ⟨_, rfl, hsh, rfl, ?_⟩
        intro j
        by_cases hj : j = i
        · subst hj; simp [hi.1]
        · simp [upd, hj]; exact hth j
      · simp [hcode, hn] at hs
    | rel =>
      by_cases hn : c.holder = some i
      · simp [hcode, hn] at hs; subst hs
        simp only [List.map_cons, Cmd.logged, hho, hn, if_true]
        refine ⟨_, rfl, hsh, rfl, ?_⟩
        intro j
        by_cases hj : j = i
        · subst hj; simp [hi.1]
        · simp [upd, hj]; exact hth j
      · simp [hcode, hn] at hs
    | sh f =>
      simp [hcode] at hs; subst hs
      simp only [List.map_cons, Cmd.logged]
      refine ⟨_, rfl, by simp [hsh, hi.1], hho, ?_⟩
      intro j
      by_cases hj : j = i
      · subst hj; simp [hi.1, hsh]
      · simp [upd, hj]; exact hth j
/-- start every thread with an empty log -/
def Conf.withLogs (c : Conf L S) : Conf (L × List (Obs L S)) S :=
  { threads := fun i => ⟨((c.threads i).loc, []), (c.threads i).code.map Cmd.logged⟩,
    shared := c.shared, holder := c.holder }

theorem loggedOf_withLogs (c : Conf L S) : LoggedOf c c.withLogs :=
  ⟨rfl, rfl, fun _ => ⟨rfl, rfl⟩⟩

theorem exec_logged (sched : List Nat) : ∀ (c cf : Conf L S) (c' : Conf (L × List (Obs L S)) S),
    LoggedOf c c' → exec c sched = some cf → ∃ cf', exec c' sched = some cf' ∧ LoggedOf cf cf' := by
  induction sched with
  | nil => intro c cf c' h he; simp [exec] at he; subst he; exact ⟨c', rfl, h⟩
  | cons i is ih =>
    intro c cf c' h he
    simp only [exec] at he
    cases hs : step c i with
    | none => simp [hs] at he
    | some cn =>
      simp [hs] at he
      obtain ⟨cn', hs', hl⟩ := step_logged c cn c' i h hs
      obtain ⟨cf', he', hlf⟩ := ih cn cf cn' hl he
      exact ⟨cf', by simp [exec, hs', he'], hlf⟩

theorem logged_instr (code : List (Cmd L S)) :
    (code.map Cmd.logged).map Cmd.instr = code.map Cmd.instr := by
  induction code with
  | nil => rfl
  | cons x r ih => cases x <;> simp [Cmd.logged, Cmd.instr, ih]

theorem WL_logged (c : Conf L S) (c' : Conf (L × List (Obs L S)) S) (h : LoggedOf c c')
    (hwl : WL c) : WL c' := by
  intro i
  have := hwl i
  rw [wlc_eq_wl] at this ⊢
  rw [(h.2.2 i).2, logged_instr, h.2.1]
  exact this

theorem terminal_logged (c : Conf L S) (c' : Conf (L × List (Obs L S)) S) (h : LoggedOf c c')
    (ht : Terminal c) : Terminal c' := by
  intro i
  rw [(h.2.2 i).2, ht i]; rfl

end Redress.Threads
