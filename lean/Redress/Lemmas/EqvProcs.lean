/-
  Redress.Lemmas.EqvProcs — every procedure of the model is equivariant under σ ("silence the hooks").
-/
import Redress.Lemmas.Eqv

namespace Redress
open Twin Retry

/-- structural steps of an equivariance proof; `ls` are the lemmas for the procedures called -/
syntax "eqv" "[" ident,* "]" : tactic
macro_rules
  | `(tactic| eqv [$ls,*]) => do
    let alts ← ls.getElems.mapM fun l => `(tacticSeq| with_reducible apply $l)
    `(tactic| repeat (first
        | with_reducible exact Eqv.pure _
        | with_reducible exact Eqv.throw _
        | (with_reducible apply Eqv.ask) <;> rfl
        | (with_reducible apply Eqv.modify) <;> (intro _; rfl)
        | assumption
        $[| $alts]*
        | with_reducible apply Eqv.bind
        | with_reducible apply Eqv.tryC
        | with_reducible apply Eqv.ite
        | (intro _)
        | split))

theorem getRS_eqv : Eqv getRS := Eqv.read (fun w => w.rs) (fun _ => rfl)
theorem getAS_eqv : Eqv getAS := Eqv.read (fun w => w.as) (fun _ => rfl)
theorem getNow_eqv : Eqv getNow := Eqv.read (fun w => w.now) (fun _ => rfl)
theorem elapsed_eqv : Eqv elapsed := Eqv.read (fun w => w.now - w.rs.start) (fun _ => rfl)
theorem modifyRS_eqv (f : RState → RState) : Eqv (modifyRS f) := Eqv.modify _ (fun _ => rfl)
theorem modifyAS_eqv (f : AState → AState) : Eqv (modifyAS f) := Eqv.modify _ (fun _ => rfl)

theorem setStop_eqv (s : StopReason) : Eqv (setStop s) := modifyRS_eqv _

theorem recordTimeline_eqv (ev : Event) (a s : Nat) (t : Tags) : Eqv (recordTimeline ev a s t) :=
  Eqv.modify _ (fun _ => rfl)

theorem swallowException_eqv (e : Exn) : Eqv (swallowException e) := by
  unfold swallowException
  eqv []

/-! ### state.py -/

theorem askMetric_eqvS (ev : Event) (a s : Nat) (t : Tags) : EqvS (askMetric ev a s t) :=
  EqvS.askHook _ rfl

theorem askLog_eqvS (ev : Event) (a s : Nat) (t : Tags) (ra : Option Int) : EqvS (askLog ev a s t ra) :=
  EqvS.askHook _ rfl

theorem metricHook_eqvS (cfg : Cfg) (tl : Bool) (ev : Event) (a s : Nat) (t : Tags) :
    EqvS (metricHook cfg tl ev a s t) := by
  unfold metricHook
  split
  · apply EqvS.seq (recordTimeline_eqv _ _ _ _)
    split
    · exact askMetric_eqvS _ _ _ _
    · exact EqvS.of_eqv (Eqv.pure _)
  · split
    · exact askMetric_eqvS _ _ _ _
    · exact EqvS.of_eqv (Eqv.pure _)

theorem emit_eqv (cfg : Cfg) (tl : Bool) (ev : Event) (a s : Nat) (k : Option EClass) (e : Option Exn)
    (st : Option StopReason) (c : Option Cause) (cl : Option Classification) :
    Eqv (emit cfg tl ev a s k e st c cl) := by
  unfold emit
  apply Eqv.bind (metricHook_eqvS _ _ _ _ _ _)
  intro _
  split
  · exact askLog_eqvS _ _ _ _ _
  · exact Eqv.pure _

theorem askAbortIf_eqv : Eqv (ask .abortIf) := Eqv.ask _ rfl

theorem checkAbort_eqv (cfg : Cfg) (tl : Bool) (a : Nat) : Eqv (checkAbort cfg tl a) := by
  unfold checkAbort
  eqv [askAbortIf_eqv, setStop_eqv, emit_eqv]

theorem recordFailure_eqv (c : Classification) (cause : Cause) (e : Option Exn) (r : Option Nat) :
    Eqv (Retry.recordFailure c cause e r) := modifyRS_eqv _

theorem askAny_eqv (r : Req) (h : isHook r = false) : Eqv (ask r) := Eqv.ask r h

theorem recordStrategySuccess_eqv (cfg : Cfg) : Eqv (recordStrategySuccess cfg) := by
  unfold recordStrategySuccess
  eqv [getRS_eqv]

theorem callStrategy_eqv (key : SKey) (kind : SKind) (ctx : BackoffCtx) : Eqv (callStrategy key kind ctx) := by
  unfold callStrategy
  eqv []

theorem stratRecordFailure_eqv (cfg : Cfg) (key : SKey) (k : EClass) : Eqv (stratRecordFailure cfg key k) := by
  unfold stratRecordFailure
  eqv []

theorem budgetConsume_eqv (cfg : Cfg) : Eqv (budgetConsume cfg) := by
  unfold budgetConsume
  split
  · exact Eqv.pure _
  · apply Eqv.getThen
    intro w
    simp [bind_run, set_run, pure_run, σ, mapRes, silenceX, isHook]

theorem stopWith_eqv (cfg : Cfg) (tl : Bool) (s : StopReason) (ev : Event) (a : Nat) (k : EClass)
    (e : Option Exn) (c : Cause) : Eqv (stopWith cfg tl s ev a k e c) := by
  unfold stopWith
  eqv [setStop_eqv, emit_eqv]

theorem grantRetry_eqv (cfg : Cfg) (tl : Bool) (c : Classification) (a : Nat) (cause : Cause)
    (e : Option Exn) (key : SKey) (kind : SKind) (rem : Nat) :
    Eqv (grantRetry cfg tl c a cause e key kind rem) := by
  unfold grantRetry
  eqv [getRS_eqv, callStrategy_eqv, budgetConsume_eqv, modifyRS_eqv, emit_eqv, stopWith_eqv]

theorem handleFailure2_eqv (cfg : Cfg) (tl : Bool) (c : Classification) (a : Nat) (cause : Cause)
    (e : Option Exn) : Eqv (handleFailure2 cfg tl c a cause e) := by
  unfold handleFailure2
  eqv [elapsed_eqv, stopWith_eqv, modifyRS_eqv, stratRecordFailure_eqv, grantRetry_eqv]

theorem handleUnknown_eqv (cfg : Cfg) (tl : Bool) (c : Classification) (a : Nat) (cause : Cause)
    (e : Option Exn) : Eqv (handleUnknown cfg tl c a cause e) := by
  unfold handleUnknown
  eqv [getRS_eqv, modifyRS_eqv, stopWith_eqv, handleFailure2_eqv]

theorem handleFailure1_eqv (cfg : Cfg) (tl : Bool) (c : Classification) (a : Nat) (cause : Cause)
    (e : Option Exn) : Eqv (handleFailure1 cfg tl c a cause e) := by
  unfold handleFailure1
  eqv [getRS_eqv, stopWith_eqv, handleUnknown_eqv, handleFailure2_eqv]

theorem handleFailure_eqv (cfg : Cfg) (tl : Bool) (c : Classification) (a : Nat) (cause : Cause)
    (e : Option Exn) (r : Option Nat) : Eqv (handleFailure cfg tl c a cause e r) := by
  unfold handleFailure
  eqv [recordFailure_eqv, modifyRS_eqv, handleFailure1_eqv]

theorem callClassifier_eqv (e : Exn) : Eqv (callClassifier e) := by
  unfold callClassifier
  eqv []

theorem handleException_eqv (cfg : Cfg) (tl : Bool) (e : Exn) (a : Nat) : Eqv (handleException cfg tl e a) := by
  unfold handleException
  eqv [callClassifier_eqv, handleFailure_eqv]

/-! ### retry_helpers.py -/

theorem buildOutcome_eqv (ok : Bool) (value : Option Nat) (n : Nat) (ns : Option Nat) :
    Eqv (buildOutcome ok value n ns) := by
  unfold buildOutcome
  eqv [getRS_eqv, elapsed_eqv]

theorem emitAbortedOnce_eqv (cfg : Cfg) (tl : Bool) (a : Nat) : Eqv (emitAbortedOnce cfg tl a) := by
  unfold emitAbortedOnce
  eqv [getRS_eqv, setStop_eqv, emit_eqv]

theorem abortOutcome_eqv (cfg : Cfg) (tl : Bool) (a : Nat) : Eqv (abortOutcome cfg tl a) := by
  unfold abortOutcome
  eqv [emitAbortedOnce_eqv, buildOutcome_eqv]

theorem callAttemptStart_eqv (cfg : Cfg) (a : Nat) : Eqv (callAttemptStart cfg a) := by
  unfold callAttemptStart
  eqv [elapsed_eqv]

theorem callAttemptEnd_eqv (cfg : Cfg) (a : Nat) (cls : Option Classification) (e : Option Exn)
    (r : Option Nat) (d : AttemptDecision) (st : Option StopReason) (c : Option Cause) (sl : Option Nat) :
    Eqv (callAttemptEnd cfg a cls e r d st c sl) := by
  unfold callAttemptEnd
  eqv [elapsed_eqv]

theorem callAttemptEndFromOutcome_eqv (cfg : Cfg) (a : Nat) (o : AOutcome) :
    Eqv (callAttemptEndFromOutcome cfg a o) := by
  unfold callAttemptEndFromOutcome
  exact callAttemptEnd_eqv _ _ _ _ _ _ _ _ _

theorem finalizeAttempt_eqv (cfg : Cfg) (tl : Bool) (a : Nat) (d : Decision) (act : Option SleepDecision)
    (cls : Option Classification) (e : Option Exn) (r : Option Nat) (c : Option Cause) :
    Eqv (finalizeAttempt cfg tl a d act cls e r c) := by
  unfold finalizeAttempt
  eqv [getRS_eqv, elapsed_eqv, setStop_eqv, emit_eqv]

theorem handleSleepDecision_eqv (cfg : Cfg) (tl : Bool) (act : SleepDecision) (a s : Nat) :
    Eqv (handleSleepDecision cfg tl act a s) := by
  unfold handleSleepDecision
  eqv [getRS_eqv, setStop_eqv, emit_eqv, emitAbortedOnce_eqv]

theorem callBeforeSleep_eqv (cfg : Cfg) (ctx : BackoffCtx) (s : Nat) : Eqv (callBeforeSleep cfg ctx s) := by
  unfold callBeforeSleep
  split
  · exact Eqv.pure _
  · exact EqvS.askHook _ rfl

theorem callSleeper_eqv (cfg : Cfg) (s : Nat) : Eqv (callSleeper cfg s) := by
  unfold callSleeper
  eqv []

theorem callSleepHandler_eqv (lvl : Lvl) (ctx : BackoffCtx) (s : Nat) : Eqv (callSleepHandler lvl ctx s) := by
  unfold callSleepHandler
  eqv []

theorem sleepAction_eqv (cfg : Cfg) (tl : Bool) (a s : Nat) (ctx : BackoffCtx) :
    Eqv (sleepAction cfg tl a s ctx) := by
  unfold sleepAction
  eqv [callBeforeSleep_eqv, callSleeper_eqv, callSleepHandler_eqv, handleSleepDecision_eqv]

theorem failureOutcome_eqv (cfg : Cfg) (tl : Bool) (a : Nat) (d : Decision) (cls : Option Classification)
    (e : Option Exn) (r : Option Nat) (c : Option Cause) : Eqv (failureOutcome cfg tl a d cls e r c) := by
  unfold failureOutcome
  eqv [finalizeAttempt_eqv, sleepAction_eqv]

/-! ### runner/logic.py, sync_core.py -/

theorem shouldClassifyResult_eqv (cfg : Cfg) (v : Nat) : Eqv (shouldClassifyResult cfg v) := by
  unfold shouldClassifyResult
  eqv []

theorem handleSuccessAttemptEnd_eqv (cfg : Cfg) (tl : Bool) (a v : Nat) :
    Eqv (handleSuccessAttemptEnd cfg tl a v) := by
  unfold handleSuccessAttemptEnd
  eqv [recordStrategySuccess_eqv, emit_eqv, callAttemptEnd_eqv]

theorem handleAbortAttemptEnd_eqv (cfg : Cfg) (a : Nat) (e : Exn) : Eqv (handleAbortAttemptEnd cfg a e) := by
  unfold handleAbortAttemptEnd
  eqv [getAS_eqv, callAttemptEnd_eqv, modifyAS_eqv]

theorem emitMaxAttemptsExceeded_eqv (cfg : Cfg) (tl : Bool) : Eqv (emitMaxAttemptsExceeded cfg tl) := by
  unfold emitMaxAttemptsExceeded
  eqv [getRS_eqv, emit_eqv, setStop_eqv]

theorem raiseExhaustedCall_eqv (cfg : Cfg) : Eqv (raiseExhaustedCall cfg) := by
  unfold raiseExhaustedCall
  eqv [emitMaxAttemptsExceeded_eqv, getRS_eqv]

theorem invokeOp_eqv (a : Nat) : Eqv (invokeOp a) := by
  unfold invokeOp
  refine Eqv.bind (Eqv.modify _ (fun w => rfl)) (fun _ => ?_)
  apply Eqv.getThen'
  · intro w; rfl
  · intro w
    eqv []

theorem deliverCall_eqv (act : Action) (orig : Option Exn) (fb : ExhaustedFields) :
    Eqv (deliverCall act orig fb) := by
  unfold deliverCall
  eqv []

theorem callExceptionPath_eqv (cfg : Cfg) (a : Nat) (e : Exn) : Eqv (callExceptionPath cfg a e) := by
  unfold callExceptionPath
  eqv [modifyAS_eqv, checkAbort_eqv, handleException_eqv, getRS_eqv, failureOutcome_eqv,
    callAttemptEndFromOutcome_eqv, deliverCall_eqv]

theorem callOpHandler_eqv (cfg : Cfg) (a : Nat) (e : Exn) : Eqv (callOpHandler cfg a e) := by
  unfold callOpHandler
  eqv [handleAbortAttemptEnd_eqv, emitAbortedOnce_eqv, callExceptionPath_eqv]

theorem callResultFailure_eqv (cfg : Cfg) (a v : Nat) (c : Classification) :
    Eqv (callResultFailure cfg a v c) := by
  unfold callResultFailure
  eqv [modifyAS_eqv, checkAbort_eqv, handleFailure_eqv, getRS_eqv, failureOutcome_eqv,
    callAttemptEndFromOutcome_eqv, deliverCall_eqv]

theorem callResultPath_eqv (cfg : Cfg) (a v : Nat) : Eqv (callResultPath cfg a v) := by
  unfold callResultPath
  eqv [shouldClassifyResult_eqv, handleSuccessAttemptEnd_eqv, callResultFailure_eqv]

theorem callAttempt_eqv (cfg : Cfg) (a : Nat) : Eqv (callAttempt cfg a) := by
  unfold callAttempt
  eqv [checkAbort_eqv, callAttemptStart_eqv, modifyAS_eqv, invokeOp_eqv, callOpHandler_eqv, callResultPath_eqv]

theorem callLoop_eqv (cfg : Cfg) : ∀ (fuel a : Nat), Eqv (callLoop cfg fuel a)
  | 0, a => by unfold callLoop; exact raiseExhaustedCall_eqv cfg
  | fuel + 1, a => by
    unfold callLoop
    have ih := callLoop_eqv cfg fuel
    eqv [callAttempt_eqv, ih]

theorem initState_eqv : Eqv initState := Eqv.modify _ (fun _ => rfl)

theorem runCall_eqv (cfg : Cfg) : Eqv (runCall cfg) := by
  unfold runCall
  eqv [initState_eqv, callLoop_eqv]

/-! #### execute -/

theorem deliverExecute_eqv (cfg : Cfg) (tl : Bool) (act : Action) (o : AOutcome) :
    Eqv (deliverExecute cfg tl act o) := by
  unfold deliverExecute
  apply Eqv.getThen'
  · intro w; rfl
  · intro w
    eqv [abortOutcome_eqv, buildOutcome_eqv]

theorem execResultFailure_eqv (cfg : Cfg) (tl : Bool) (a v : Nat) (c : Classification) :
    Eqv (execResultFailure cfg tl a v c) := by
  unfold execResultFailure
  eqv [modifyAS_eqv, checkAbort_eqv, handleFailure_eqv, getRS_eqv, failureOutcome_eqv,
    callAttemptEndFromOutcome_eqv, deliverExecute_eqv]

theorem execPre_eqv (cfg : Cfg) (tl : Bool) (a : Nat) : Eqv (execPre cfg tl a) := by
  unfold execPre
  eqv [checkAbort_eqv, callAttemptStart_eqv, modifyAS_eqv, invokeOp_eqv]

theorem execResultPath_eqv (cfg : Cfg) (tl : Bool) (a v : Nat) : Eqv (execResultPath cfg tl a v) := by
  unfold execResultPath
  eqv [shouldClassifyResult_eqv, handleSuccessAttemptEnd_eqv, buildOutcome_eqv, execResultFailure_eqv]

theorem execAbortExit_eqv (cfg : Cfg) (tl : Bool) (a : Nat) (e : Exn) : Eqv (execAbortExit cfg tl a e) := by
  unfold execAbortExit
  refine Eqv.bind (handleAbortAttemptEnd_eqv _ _ _) (fun _ => ?_)
  apply Eqv.getThen'
  · intro w; rfl
  · intro w
    eqv [abortOutcome_eqv]

theorem abortToTrue_eqv (e : Exn) : Eqv (abortToTrue e) := by
  unfold abortToTrue
  eqv []

theorem checkAbortCaught_eqv (cfg : Cfg) (tl : Bool) (a : Nat) : Eqv (checkAbortCaught cfg tl a) := by
  unfold checkAbortCaught
  eqv [checkAbort_eqv, abortToTrue_eqv]

theorem execExceptionPath3_eqv (cfg : Cfg) (tl : Bool) (a : Nat) (e : Exn) (d : Decision) :
    Eqv (execExceptionPath3 cfg tl a e d) := by
  unfold execExceptionPath3
  eqv [getRS_eqv, failureOutcome_eqv, callAttemptEndFromOutcome_eqv, modifyAS_eqv, deliverExecute_eqv]

theorem execExceptionPath2_eqv (cfg : Cfg) (tl : Bool) (a : Nat) (e : Exn) :
    Eqv (execExceptionPath2 cfg tl a e) := by
  unfold execExceptionPath2
  eqv [handleException_eqv, getRS_eqv, modifyAS_eqv, execExceptionPath3_eqv, checkAbortCaught_eqv,
    execAbortExit_eqv]

theorem execExceptionPath_eqv (cfg : Cfg) (tl : Bool) (a : Nat) (e : Exn) :
    Eqv (execExceptionPath cfg tl a e) := by
  unfold execExceptionPath
  eqv [modifyAS_eqv, checkAbortCaught_eqv, execAbortExit_eqv, execExceptionPath2_eqv]

theorem execHandler_eqv (cfg : Cfg) (tl : Bool) (a : Nat) (e : Exn) : Eqv (execHandler cfg tl a e) := by
  unfold execHandler
  eqv [execAbortExit_eqv, execExceptionPath_eqv]

theorem execReturnedHandler_eqv (cfg : Cfg) (tl : Bool) (a : Nat) (e : Exn) :
    Eqv (execReturnedHandler cfg tl a e) := by
  unfold execReturnedHandler
  eqv [execAbortExit_eqv]

theorem execAttempt_eqv (cfg : Cfg) (tl : Bool) (a : Nat) : Eqv (execAttempt cfg tl a) := by
  unfold execAttempt
  eqv [execPre_eqv, execHandler_eqv, execResultPath_eqv, execReturnedHandler_eqv]

theorem buildExhaustedOutcome_eqv (cfg : Cfg) (tl : Bool) : Eqv (buildExhaustedOutcome cfg tl) := by
  unfold buildExhaustedOutcome
  refine Eqv.bind (emitMaxAttemptsExceeded_eqv _ _) (fun _ => ?_)
  apply Eqv.getThen'
  · intro w; rfl
  · intro w
    exact buildOutcome_eqv _ _ _ _

theorem execLoop_eqv (cfg : Cfg) (tl : Bool) : ∀ (fuel a : Nat), Eqv (execLoop cfg tl fuel a)
  | 0, a => by unfold execLoop; exact buildExhaustedOutcome_eqv cfg tl
  | fuel + 1, a => by
    unfold execLoop
    have ih := execLoop_eqv cfg tl fuel
    eqv [execAttempt_eqv, ih]

theorem runExecute_eqv (cfg : Cfg) : Eqv (runExecute cfg) := by
  unfold runExecute
  eqv [initState_eqv, execLoop_eqv]

/-! ### policy.py, execution.py -/
open Policy

theorem askMetric_site (ev : Event) (a s : Nat) (t : Tags) :
    Eqv (tryCatch (askMetric ev a s t) swallowException : M Unit) := askMetric_eqvS ev a s t

theorem askLog_site (ev : Event) (a s : Nat) (t : Tags) (ra : Option Int) :
    Eqv (tryCatch (askLog ev a s t ra) swallowException : M Unit) := askLog_eqvS ev a s t ra

theorem emitBreakerEvent_eqv (cfg : Cfg) (ev : Option Event) (st : CState) (k : Option EClass) :
    Eqv (emitBreakerEvent cfg ev st k) := by
  unfold emitBreakerEvent
  split
  · exact Eqv.pure _
  · dsimp only
    eqv [askMetric_site, askLog_site]

theorem breakerAllow_eqv (bc : Breaker.Cfg) : Eqv (breakerAllow bc) := by
  unfold breakerAllow
  apply Eqv.getThen
  intro w
  simp [bind_run, set_run, pure_run, σ, mapRes, silenceX, isHook]

theorem checkBreaker_eqv (cfg : Cfg) : Eqv (checkBreaker cfg) := by
  unfold checkBreaker
  eqv [breakerAllow_eqv, emitBreakerEvent_eqv]

/-- `do let w ← get; set (g w); k w` where `g` commutes with σ and `k` only reads σ-invariant data -/
theorem Eqv.getSetThen (g : World → World) (k : World → M α) (hg : ∀ w, g (σ w) = σ (g w))
    (hk : ∀ w, k (σ w) = k w) (he : ∀ w, Eqv (k w)) :
    Eqv (get >>= fun w => (set (g w) : M PUnit) >>= fun _ => k w) := by
  apply Eqv.getThen
  intro w
  simp only [bind_run, set_run]
  rw [hg, hk]
  exact (he w).eq _

theorem recordSuccess_eqv (cfg : Cfg) : Eqv (Policy.recordSuccess cfg) := by
  unfold Policy.recordSuccess
  split
  · exact Eqv.pure _
  · refine Eqv.getSetThen (fun w => _) (fun w => _) ?_ ?_ ?_
    · intro w; rfl
    · intro w; rfl
    · intro w; exact emitBreakerEvent_eqv _ _ _ _

theorem recordCancel_eqv (cfg : Cfg) : Eqv (Policy.recordCancel cfg) := by
  unfold Policy.recordCancel
  split
  · exact Eqv.pure _
  · exact Eqv.modify _ (fun w => rfl)

theorem recordFailureP_eqv (cfg : Cfg) (k : EClass) : Eqv (Policy.recordFailure cfg k) := by
  unfold Policy.recordFailure
  split
  · exact Eqv.pure _
  · refine Eqv.getSetThen (fun w => _) (fun w => _) ?_ ?_ ?_
    · intro w; rfl
    · intro w; rfl
    · intro w; exact emitBreakerEvent_eqv _ _ _ _

theorem ensureSettled_eqv (cfg : Cfg) : Eqv (ensureSettled cfg) := by
  unfold ensureSettled
  apply Eqv.getThen'
  · intro w; rfl
  · intro w
    eqv [recordCancel_eqv]

theorem classifyForBreaker_eqv (cfg : Cfg) (e : Exn) : Eqv (classifyForBreaker cfg e) := by
  unfold classifyForBreaker
  eqv [callClassifier_eqv]

theorem checkAbortNoRetry_eqv (cfg : Cfg) : Eqv (checkAbortNoRetry cfg) := by
  unfold checkAbortNoRetry
  eqv [recordCancel_eqv]

theorem xElapsed_eqv : Eqv xElapsed := Eqv.read (fun w => w.now - w.xc.start) (fun _ => rfl)

theorem noRetryStartHook_eqv (cfg : Cfg) : Eqv (noRetryStartHook cfg) := by
  unfold noRetryStartHook
  eqv [xElapsed_eqv]

theorem noRetryEndHook_eqv (cfg : Cfg) (e : Option Exn) (r : Option Nat) (d : AttemptDecision)
    (st : Option StopReason) (c : Option Cause) : Eqv (noRetryEndHook cfg e r d st c) := by
  unfold noRetryEndHook
  eqv [xElapsed_eqv]

theorem callWithoutRetry_eqv (cfg : Cfg) : Eqv (callWithoutRetry cfg) := by
  unfold callWithoutRetry
  eqv [noRetryStartHook_eqv, invokeOp_eqv, noRetryEndHook_eqv]

theorem handleAbortCall_eqv (cfg : Cfg) (e : Exn) : Eqv (handleAbortCall cfg e) := by
  unfold handleAbortCall
  eqv [noRetryEndHook_eqv, recordCancel_eqv]

theorem handleExhaustedCall_eqv (cfg : Cfg) (e : Exn) : Eqv (handleExhaustedCall cfg e) := by
  unfold handleExhaustedCall
  exact recordFailureP_eqv _ _

theorem handleExceptionCall_eqv (cfg : Cfg) (e : Exn) (b : Bool) : Eqv (handleExceptionCall cfg e b) := by
  unfold handleExceptionCall
  eqv [noRetryEndHook_eqv, classifyForBreaker_eqv, recordFailureP_eqv]

theorem callLadder_eqv (cfg : Cfg) (e : Exn) : Eqv (callLadder cfg e) := by
  unfold callLadder
  eqv [recordCancel_eqv, handleAbortCall_eqv, handleExhaustedCall_eqv, handleExceptionCall_eqv]

theorem callAdmitted_eqv (cfg : Cfg) : Eqv (callAdmitted cfg) := by
  unfold callAdmitted
  eqv [checkBreaker_eqv, checkAbortNoRetry_eqv, runCall_eqv, callWithoutRetry_eqv, recordSuccess_eqv,
    callLadder_eqv]

theorem initCtx_eqv : Eqv initCtx := Eqv.modify _ (fun _ => rfl)

theorem withFinally_eqv {x : M α} {fin : M Unit} (hx : Eqv x) (hf : Eqv fin) : Eqv (withFinally x fin) := by
  unfold withFinally
  eqv [hx, hf]

theorem call_eqv (cfg : Cfg) : Eqv (Policy.call cfg) := by
  unfold Policy.call
  exact Eqv.bind initCtx_eqv (fun _ => withFinally_eqv (callAdmitted_eqv cfg) (ensureSettled_eqv cfg))

theorem policyOutcome_eqv (ok : Bool) (value : Option Nat) (stop : Option StopReason) (n : Nat)
    (lc : Option EClass) (le : Option String) (c : Option Cause) :
    Eqv (policyOutcome ok value stop n lc le c) := by
  unfold policyOutcome
  eqv [xElapsed_eqv]

theorem executeLadder_eqv (cfg : Cfg) (e : Exn) : Eqv (executeLadder cfg e) := by
  unfold executeLadder
  eqv [handleExhaustedCall_eqv, recordCancel_eqv, handleExceptionCall_eqv]

theorem executeWithRetry_eqv (cfg : Cfg) : Eqv (executeWithRetry cfg) := by
  unfold executeWithRetry
  eqv [runExecute_eqv, executeLadder_eqv, recordSuccess_eqv, recordCancel_eqv, recordFailureP_eqv]

theorem noRetryLadder_eqv (cfg : Cfg) (b : Bool) (e : Exn) : Eqv (noRetryLadder cfg b e) := by
  unfold noRetryLadder
  eqv [recordCancel_eqv, noRetryEndHook_eqv, policyOutcome_eqv, recordFailureP_eqv]

theorem executeWithoutRetry_eqv (cfg : Cfg) : Eqv (executeWithoutRetry cfg) := by
  unfold executeWithoutRetry
  eqv [noRetryStartHook_eqv, invokeOp_eqv, noRetryLadder_eqv, recordSuccess_eqv, noRetryEndHook_eqv,
    policyOutcome_eqv]

theorem executeAdmitted2_eqv (cfg : Cfg) : Eqv (executeAdmitted2 cfg) := by
  unfold executeAdmitted2
  eqv [checkAbortNoRetry_eqv, policyOutcome_eqv, executeWithRetry_eqv, executeWithoutRetry_eqv]

theorem executeAdmitted_eqv (cfg : Cfg) : Eqv (executeAdmitted cfg) := by
  unfold executeAdmitted
  eqv [executeAdmitted2_eqv, breakerAllow_eqv, emitBreakerEvent_eqv, policyOutcome_eqv]

theorem execute_eqv (cfg : Cfg) : Eqv (Policy.execute cfg) := by
  unfold Policy.execute
  exact Eqv.bind initCtx_eqv (fun _ => withFinally_eqv (executeAdmitted_eqv cfg) (ensureSettled_eqv cfg))

end Redress
