/-
  Redress.Lemmas.SimPolicy2 — Policy.call vs Policy.execute (C12, T3), part 2: what the two wrappers do
  with the result of the retry loop.
-/
import Redress.Lemmas.SimPolicy

open Std.Do

namespace Redress
open Twin Retry Policy

/-- `Policy.call` after admission (with a retry loop) -/
def callMid (cfg : Cfg) : M Nat :=
  tryCatch (do let v ← runCall cfg; Policy.recordSuccess cfg; pure v) (callLadder cfg)

/-- what `_execute_with_retry` does with the outcome -/
def execPost (cfg : Cfg) (o : Outcome) : M Outcome :=
  match cfg.breaker with
  | none => pure o
  | some _ =>
    if o.ok then do Policy.recordSuccess cfg; pure o
    else if o.stop = some .aborted then do recordCancel cfg; pure o
    else do Policy.recordFailure cfg (o.lastClass.getD .unknown); pure o

/-- `Policy.execute` after admission (with a retry loop) -/
def execMid (cfg : Cfg) : M Outcome := do
  let o ← tryCatch (runExecute cfg) (executeLadder cfg)
  execPost cfg o

theorem executeWithRetry_eq (cfg : Cfg) : executeWithRetry cfg = execMid cfg := rfl

/-- the hypotheses of T3, about the result of `callMid` -/
structure PolHyp (cfg : Cfg) (rc : EStateM.Result Exn World Nat) : Prop where
  env : Env (finalWorld rc).trace
  hook : HookOK (finalWorld rc).trace
  co : ∀ id w', rc ≠ .error (.circuitOpen id) w'
  clsOK : ∀ x ∈ (finalWorld rc).trace, ∀ e, (finalWorld rc).rs.lastExc = some e → x.1 = .classify e.ref →
    ∃ c d, x.2 = .klass c d ∧ (finalWorld rc).rs.lastClass = some c.klass
  clsLast : ∀ e w', rc = .error e w' → w'.rs.lastExc = some e → e.isException = true →
    ∃ a rest, w'.trace.filter (fun x => !isInternal x.1) = (.classify e.ref, a) :: rest ∧ a.dur = 0

/-! ### the ladders, kind by kind -/

theorem recordSuccess_none {cfg : Cfg} (hb : cfg.breaker = none) : Policy.recordSuccess cfg = pure () := by
  unfold Policy.recordSuccess; rw [hb]

theorem recordFailure_none {cfg : Cfg} (hb : cfg.breaker = none) (k : EClass) :
    Policy.recordFailure cfg k = pure () := by
  unfold Policy.recordFailure; rw [hb]

theorem cancelW_none {cfg : Cfg} (hb : cfg.breaker = none) (w : World) : cancelW cfg w = w := by
  unfold cancelW; rw [hb]

theorem callLadder_abort {cfg : Cfg} (hret : cfg.hasRetry = true) {e : Exn} (hab : e.isAbort = true)
    (w : World) : callLadder cfg e w = .error e (cancelW cfg w) := by
  unfold callLadder
  have h1 : (cfg.isAsync && decide (e = .cancelled)) = false := by cases e <;> simp_all [Exn.isAbort]
  have h2 : e.isKiSe = false := by cases e <;> simp_all [Exn.isAbort, Exn.isKiSe]
  simp only [h1, h2, hab, Bool.false_eq_true, if_false, if_true]
  rw [handleAbortCall_hret hret]
  simp only [bind_run, recordCancel_run, throw_run]

theorem executeLadder_abort {cfg : Cfg} {e : Exn} (hab : e.isAbort = true)
    (w : World) : executeLadder cfg e w = .error e (cancelW cfg w) := by
  unfold executeLadder
  have h1 : e.isExhausted = false := by cases e <;> simp_all [Exn.isAbort, Exn.isExhausted]
  simp only [h1, hab, Bool.false_eq_true, if_false, if_true]
  simp only [bind_run, recordCancel_run, throw_run]

theorem callLadder_exhausted {cfg : Cfg} {e : Exn} (hex : e.isExhausted = true) (w : World) :
    callLadder cfg e w = (do handleExhaustedCall cfg e; throw e : M Nat) w := by
  unfold callLadder
  have h1 : (cfg.isAsync && decide (e = .cancelled)) = false := by cases e <;> simp_all [Exn.isExhausted]
  have h2 : e.isKiSe = false := by cases e <;> simp_all [Exn.isExhausted, Exn.isKiSe]
  have h3 : e.isAbort = false := by cases e <;> simp_all [Exn.isExhausted, Exn.isAbort]
  simp only [h1, h2, h3, hex, Bool.false_eq_true, if_false, if_true]

theorem executeLadder_exhausted {cfg : Cfg} {e : Exn} (hex : e.isExhausted = true) (w : World) :
    executeLadder cfg e w = (do handleExhaustedCall cfg e; throw e : M Outcome) w := by
  unfold executeLadder
  simp only [hex, if_true]

theorem callLadder_exception {cfg : Cfg} {e : Exn} (h1 : e.isException = true) (h2 : e.isAbort = false)
    (h3 : e.isExhausted = false) (w : World) :
    callLadder cfg e w = (do handleExceptionCall cfg e true; throw e : M Nat) w := by
  unfold callLadder
  have k1 : (cfg.isAsync && decide (e = .cancelled)) = false := by cases e <;> simp_all [Exn.isException]
  have k2 : e.isKiSe = false := by cases e <;> simp_all [Exn.isException, Exn.isKiSe]
  simp only [k1, k2, h1, h2, h3, Bool.false_eq_true, if_false, if_true]

theorem executeLadder_exception {cfg : Cfg} {e : Exn} (h1 : e.isException = true) (h2 : e.isAbort = false)
    (h3 : e.isExhausted = false) (w : World) :
    executeLadder cfg e w = (do handleExceptionCall cfg e false; throw e : M Outcome) w := by
  unfold executeLadder
  simp only [h1, h2, h3, Bool.false_eq_true, if_false, if_true]

/-- BaseException-only kinds: call() records a cancel at once for `KeyboardInterrupt` / `SystemExit` (and
    `CancelledError` in the async policy), or leaves it to `ensure_settled`; execute() always leaves it to
    `ensure_settled` -/
theorem callLadder_base {cfg : Cfg} {e : Exn} (h1 : e.isException = false) (w : World) :
    ∃ w', callLadder cfg e w = .error e w' ∧ (w' = cancelW cfg w ∨ w' = w) := by
  unfold callLadder
  have h2 : e.isAbort = false := by cases e <;> simp_all [Exn.isException, Exn.isAbort]
  have h3 : e.isExhausted = false := by cases e <;> simp_all [Exn.isException, Exn.isExhausted]
  by_cases k1 : (cfg.isAsync && decide (e = .cancelled)) = true
  · rw [if_pos k1]
    refine ⟨cancelW cfg w, ?_, Or.inl rfl⟩
    simp only [bind_run, recordCancel_run, throw_run]
  · rw [if_neg k1]
    by_cases k2 : e.isKiSe = true
    · rw [if_pos k2]
      refine ⟨cancelW cfg w, ?_, Or.inl rfl⟩
      simp only [bind_run, recordCancel_run, throw_run]
    · rw [if_neg k2]
      refine ⟨w, ?_, Or.inr rfl⟩
      simp only [h1, h2, h3, Bool.false_eq_true, if_false]
      rfl

theorem executeLadder_base {cfg : Cfg} {e : Exn} (h1 : e.isException = false) (w : World) :
    executeLadder cfg e w = .error e w := by
  unfold executeLadder
  have h2 : e.isAbort = false := by cases e <;> simp_all [Exn.isException, Exn.isAbort]
  have h3 : e.isExhausted = false := by cases e <;> simp_all [Exn.isException, Exn.isExhausted]
  simp only [h1, h2, h3, Bool.false_eq_true, if_false]
  rfl

/-! ### settling after the fact -/

/-- a cancel recorded at once and a cancel recorded by `ensure_settled` are the same -/
theorem settle_cancel {cfg : Cfg} {we wc : World} (h : PRel we wc) (hxs : wc.xc.settled = false)
    (hadm : ∀ bc, cfg.breaker = some bc → wc.xc.admitted = true) :
    PRel (settle cfg we) (settle cfg (cancelW cfg wc)) := by
  cases hb : cfg.breaker with
  | none =>
    rw [cancelW_none hb]
    exact h.settle
  | some bc =>
    have ha := hadm bc hb
    have h1 : settle cfg we = cancelW cfg we := by
      unfold settle
      rw [h.xc, ha, hxs]
      rfl
    have h2 : settle cfg (cancelW cfg wc) = cancelW cfg wc := by
      unfold settle cancelW
      rw [hb]
      simp
    rw [h1, h2]
    exact h.cancel

theorem xc_of_ext {x : M α}
    (hx : ∀ w0, ⦃fun w => ⌜Ext loopK w0 w⌝⦄ x ⦃extPost loopK w0⦄) (w : World) :
    (finalWorld (x w)).xc = w.xc := by
  have h := adequacy (hx w) w (Ext.refl _ _)
  show (finalWorld (x.run w)).xc = w.xc
  cases hr : x.run w with
  | ok a w' => rw [hr] at h; exact h.xc
  | error e w' => rw [hr] at h; exact h.xc

/-! ### what the wrappers compute from the loop's result -/

theorem callMid_ok {cfg : Cfg} {w : World} {v : Nat} {wa : World} (hc : runCall cfg w = .ok v wa) :
    callMid cfg w = (match Policy.recordSuccess cfg wa with
      | .ok _ wa' => .ok v wa'
      | .error e wa' => callLadder cfg e wa') := by
  unfold callMid
  simp only [tryCatch_run, bind_run, hc, pure_run]
  cases Policy.recordSuccess cfg wa <;> rfl

theorem callMid_err {cfg : Cfg} {w : World} {e : Exn} {wa : World} (hc : runCall cfg w = .error e wa) :
    callMid cfg w = callLadder cfg e wa := by
  unfold callMid
  simp only [tryCatch_run, bind_run, hc]

theorem execMid_ok {cfg : Cfg} {w : World} {o : Outcome} {wb : World} (hx : runExecute cfg w = .ok o wb) :
    execMid cfg w = execPost cfg o wb := by
  unfold execMid
  simp only [tryCatch_run, bind_run, hx]

theorem execMid_err {cfg : Cfg} {w : World} {e : Exn} {wb : World} (hx : runExecute cfg w = .error e wb) :
    execMid cfg w = (match executeLadder cfg e wb with
      | .ok o w1 => execPost cfg o w1
      | .error e2 w1 => .error e2 w1) := by
  unfold execMid
  simp only [tryCatch_run, bind_run, hx]
  cases executeLadder cfg e wb <;> rfl

theorem emitBreakerEvent_rs (cfg : Cfg) (ev : Option Event) (st : CState) (k : Option EClass) :
    Keep gRS (emitBreakerEvent cfg ev st k) := by
  unfold emitBreakerEvent
  split
  · exact Keep.pure _ _
  · dsimp only
    keep [askMetric_rs, askLog_rs, swallow_keep]

theorem recordSuccess_err {cfg : Cfg} {w : World} {e : Exn} {w' : World}
    (h : Policy.recordSuccess cfg w = .error e w') :
    e.isException = false ∧ ∃ r d, (r, Ans.raise e d) ∈ w'.trace ∧ circuitHook r = true := by
  unfold Policy.recordSuccess at h
  cases hb : cfg.breaker with
  | none => rw [hb] at h; cases h
  | some bc =>
    rw [hb] at h
    simp only [bind_run, get_run, set_run] at h
    cases hev : (Breaker.recordSuccess w.breaker).1 with
    | none => rw [hev] at h; cases h
    | some ev =>
      rw [hev] at h
      obtain ⟨h1, r, d, h2, h3⟩ := emitBreakerEvent_err h
      exact ⟨h1, r, d, h2, by rw [h3]; exact FX.recordSuccess_circuit _ _ hev⟩

/-- after `X; raise e` -/
theorem seqThrow_run {α : Type} (x : M Unit) (e : Exn) (w : World) :
    (do x; throw e : M α) w = (match x w with
      | .ok _ w1 => .error e w1
      | .error e2 w1 => .error e2 w1) := by
  rw [bind_run]
  cases x w <;> rfl

theorem keep_filter_cons_internal (x : Req × Ans) (t : List (Req × Ans)) (h : isInternal x.1 = true) :
    (x :: t).filter (fun y => !isInternal y.1) = t.filter (fun y => !isInternal y.1) := by
  rw [List.filter_cons]
  simp [h]

theorem keep_filter_cons_ext (x : Req × Ans) (t : List (Req × Ans)) (h : isInternal x.1 = false) :
    (x :: t).filter (fun y => !isInternal y.1) = x :: t.filter (fun y => !isInternal y.1) := by
  rw [List.filter_cons]
  simp [h]

theorem isHook_not_internal (r : Req) (h : isHook r = true) : isInternal r = false := by
  cases r <;> simp_all [isHook, isInternal]

theorem cancelW_filter (cfg : Cfg) (w : World) :
    (cancelW cfg w).trace.filter (fun y => !isInternal y.1) = w.trace.filter (fun y => !isInternal y.1) := by
  unfold cancelW
  cases cfg.breaker with
  | none => rfl
  | some _ => exact keep_filter_cons_internal _ _ rfl

/-! ### case by case -/

/-- the loop returned a value -/
theorem mid_caseA {cfg : Cfg} (hret : cfg.hasRetry = true) {v : Nat} {wa : World} {o : Outcome} {wb : World}
    (hπ : π wb = π wa) (hd : deliverRelated (.ret v) (.outcome o []) = true)
    (H : PolHyp cfg (match Policy.recordSuccess cfg wa with
      | .ok _ wa' => .ok v wa'
      | .error e wa' => callLadder cfg e wa')) :
    PolRel cfg (match Policy.recordSuccess cfg wa with
      | .ok _ wa' => .ok v wa'
      | .error e wa' => callLadder cfg e wa') (execPost cfg o wb) := by
  have hok : o.ok = true := by
    simp only [deliverRelated, Bool.and_eq_true] at hd
    exact hd.1
  cases hb : cfg.breaker with
  | none =>
    rw [recordSuccess_none hb]
    unfold execPost
    rw [hb]
    exact ⟨(PRel.of_pi hπ).settle, hd⟩
  | some bc =>
    unfold execPost
    rw [hb]
    simp only [hok, if_true, bind_run]
    rcases (recordSuccess_sim cfg).step hπ with
      ⟨u, wb', wa', k1, k2, k3, k4⟩ | ⟨e, wb', wa', k1, k2, k3, k4, k5⟩
    · rw [k1, k2]
      exact ⟨(PRel.of_pi k3).settle, hd⟩
    · exfalso
      rw [k2] at H
      obtain ⟨h1, r, d, h2, h3⟩ := recordSuccess_err k2
      have hin := (callLadder_grows hret e).le wa' _ h2
      have := H.hook _ hin h3 e d rfl
      rw [h1] at this
      cases this

/-- the loop raised, execute() returned a failed outcome: abort kinds -/
theorem mid_caseB1 {cfg : Cfg} (hret : cfg.hasRetry = true) {e : Exn} {wa : World} {o : Outcome} {wb : World}
    (hπ : π wb = π wa) (hd : deliverRelated (.raised e) (.outcome o []) = true)
    (hok : o.ok = false) (hab : e.isAbort = true) (hst : o.stop = some .aborted) :
    PolRel cfg (callLadder cfg e wa) (execPost cfg o wb) := by
  rw [callLadder_abort hret hab]
  have hex : execPost cfg o wb = .ok o (cancelW cfg wb) := by
    unfold execPost
    cases hb : cfg.breaker with
    | none => rw [cancelW_none hb]; rfl
    | some bc =>
      simp only [hok, hst, Bool.false_eq_true, if_false, if_true, bind_run, recordCancel_run, pure_run]
  rw [hex]
  exact ⟨(PRel.of_pi hπ).cancel.settle, hd⟩

/-- …`RetryExhaustedError` -/
theorem mid_caseB2 {cfg : Cfg} {f : ExhaustedFields} {wa : World} {o : Outcome} {wb : World}
    (hπ : π wb = π wa) (hd : deliverRelated (.raised (.libExhausted f)) (.outcome o []) = true)
    (hok : o.ok = false) (hlc : o.lastClass = f.lastClass) (hst : o.stop ≠ some .aborted) :
    PolRel cfg (callLadder cfg (.libExhausted f) wa) (execPost cfg o wb) := by
  rw [callLadder_exhausted rfl, seqThrow_run]
  unfold handleExhaustedCall
  show PolRel cfg (match Policy.recordFailure cfg (f.lastClass.getD .unknown) wa with
      | .ok _ w1 => .error (.libExhausted f) w1
      | .error e2 w1 => .error e2 w1) (execPost cfg o wb)
  cases hb : cfg.breaker with
  | none =>
    rw [recordFailure_none hb]
    unfold execPost
    rw [hb]
    exact ⟨(PRel.of_pi hπ).settle, hd⟩
  | some bc =>
    unfold execPost
    rw [hb]
    simp only [hok, hst, Bool.false_eq_true, if_false, bind_run, hlc]
    rcases (recordFailureP_sim cfg (f.lastClass.getD .unknown)).step hπ with
      ⟨u, wb', wa', k1, k2, k3, k4⟩ | ⟨e2, wb', wa', k1, k2, k3, k4, k5⟩
    · rw [k1, k2]
      exact ⟨(PRel.of_pi k3).settle, hd⟩
    · rw [k1, k2]
      exact ⟨(PRel.of_pi k3).settle, rfl⟩

/-- both modes raised: the two `except` ladders -/
theorem mid_caseC {cfg : Cfg} (hret : cfg.hasRetry = true) {e : Exn} {wa wb : World}
    (hπ : π wb = π wa) (hxs : wa.xc.settled = false)
    (hadm : ∀ bc, cfg.breaker = some bc → wa.xc.admitted = true) :
    PolRel cfg (callLadder cfg e wa) (match executeLadder cfg e wb with
      | .ok o w1 => execPost cfg o w1
      | .error e2 w1 => .error e2 w1) := by
  by_cases h1 : e.isException = true
  · by_cases h2 : e.isAbort = true
    · rw [callLadder_abort hret h2, executeLadder_abort h2]
      exact ⟨(PRel.of_pi hπ).cancel.settle, rfl⟩
    · have h2' : e.isAbort = false := by simpa using h2
      by_cases h3 : e.isExhausted = true
      · rw [callLadder_exhausted h3, executeLadder_exhausted h3, seqThrow_run, seqThrow_run]
        unfold handleExhaustedCall
        rcases (recordFailureP_sim cfg (e.exhaustedClass.getD .unknown)).step hπ with
          ⟨u, wb', wa', k1, k2, k3, k4⟩ | ⟨e2, wb', wa', k1, k2, k3, k4, k5⟩
        · rw [k1, k2]
          exact ⟨(PRel.of_pi k3).settle, rfl⟩
        · rw [k1, k2]
          exact ⟨(PRel.of_pi k3).settle, rfl⟩
      · have h3' : e.isExhausted = false := by simpa using h3
        rw [callLadder_exception h1 h2' h3', executeLadder_exception h1 h2' h3', seqThrow_run, seqThrow_run]
        rcases (handleExceptionCall_sim hret e false true).step hπ with
          ⟨u, wb', wa', k1, k2, k3, k4⟩ | ⟨e2, wb', wa', k1, k2, k3, k4, k5⟩
        · rw [k1, k2]
          exact ⟨(PRel.of_pi k3).settle, rfl⟩
        · rw [k1, k2]
          exact ⟨(PRel.of_pi k3).settle, rfl⟩
  · have h1' : e.isException = false := by simpa using h1
    rw [executeLadder_base h1']
    obtain ⟨w', q1, q2⟩ := callLadder_base (cfg := cfg) h1' wa
    rw [q1]
    rcases q2 with rfl | rfl
    · exact ⟨settle_cancel (PRel.of_pi hπ) hxs hadm, rfl⟩
    · exact ⟨(PRel.of_pi hπ).settle, rfl⟩

/-- the world after the breaker noted a failure (before the event is emitted) -/
def failW (bc : Breaker.Cfg) (k : EClass) (w : World) : World :=
  { w with breaker := (Breaker.recordFailure bc w.breaker k w.now).2, xc := { w.xc with settled := true },
           trace := (Req.breakerFailure k, Ans.recorded (Breaker.recordFailure bc w.breaker k w.now).1
                      (Breaker.recordFailure bc w.breaker k w.now).2.state) :: w.trace }

theorem recordFailure_some {cfg : Cfg} {bc : Breaker.Cfg} (hb : cfg.breaker = some bc) (k : EClass) (w : World) :
    Policy.recordFailure cfg k w = emitBreakerEvent cfg (Breaker.recordFailure bc w.breaker k w.now).1
      (Breaker.recordFailure bc w.breaker k w.now).2.state (some k) (failW bc k w) := by
  unfold Policy.recordFailure
  rw [hb]
  rfl

/-- the loop re-raised the operation's last exception: call() classifies it once more for the breaker -/
theorem mid_caseB3 {cfg : Cfg} (hret : cfg.hasRetry = true) {e : Exn} {wa : World} {o : Outcome} {wb : World}
    (hπ : π wb = π wa) (hd : deliverRelated (.raised e) (.outcome o []) = true)
    (hok : o.ok = false) (hlc : o.lastClass = wa.rs.lastClass) (hop : OpExn e)
    (hle : wa.rs.lastExc = some e) (hst : o.stop ≠ some .aborted)
    (H : PolHyp cfg (callLadder cfg e wa)) :
    PolRel cfg (callLadder cfg e wa) (execPost cfg o wb) := by
  obtain ⟨hpl, hexc, hnab, hnex⟩ := hop
  have hcl := callLadder_exception (cfg := cfg) hexc hnab hnex wa
  rw [hcl] at H ⊢
  rw [seqThrow_run] at H ⊢
  rw [handleExceptionCall_hret hret] at H ⊢
  by_cases hco : e.isCircuitOpen = true
  · exfalso
    rw [if_pos hco] at H
    cases e <;> simp [Exn.isCircuitOpen] at hco
    · exact H.co _ wa rfl
    · exact hpl.elim
  · rw [if_neg hco] at H ⊢
    unfold classifyForBreaker at H ⊢
    simp only [hret, if_true] at H ⊢
    rw [bind_run, bind_run] at H ⊢
    rcases callClassifier_cases e wa with ⟨c, d, rest, ha, hcc⟩ | ⟨e2, a, wa1, hcc, ht, hrs, hnk⟩
    · rw [hcc] at H ⊢
      simp only [pure_run] at H ⊢
      obtain ⟨wa1, hwa1⟩ : ∃ wa1 : World, wa1 =
          ({ wa with answers := rest, now := wa.now + d, trace := (Req.classify e.ref, Ans.klass c d) :: wa.trace } : World) :=
        ⟨_, rfl⟩
      rw [← hwa1] at H ⊢
      have t_tr : wa1.trace = (Req.classify e.ref, Ans.klass c d) :: wa.trace := by rw [hwa1]
      have t_rs : wa1.rs = wa.rs := by rw [hwa1]
      have t_now : wa1.now = wa.now + d := by rw [hwa1]
      have t_br : wa1.breaker = wa.breaker := by rw [hwa1]
      have t_xc : wa1.xc = wa.xc := by rw [hwa1]
      have t_bud : wa1.budget = wa.budget := by rw [hwa1]
      have t_op : wa1.opCalls = wa.opCalls := by rw [hwa1]
      clear hwa1
      obtain ⟨p1, p2, p3, p4, p5, p6, p7, p8, p9⟩ := (π_iff _ _).mp hπ
      cases hb : cfg.breaker with
      | none =>
        rw [recordFailure_none hb] at H ⊢
        simp only [pure_run] at H ⊢
        obtain ⟨a, rest', hf, hdur⟩ := H.clsLast e wa1 rfl (by rw [t_rs]; exact hle) hexc
        rw [t_tr, keep_filter_cons_ext _ _ rfl] at hf
        injection hf with hf1 _
        injection hf1 with _ hf2
        subst hf2
        have hd0 : d = 0 := hdur
        subst hd0
        unfold execPost
        rw [hb]
        refine ⟨PRel.settle ⟨by rw [t_now, p2]; rfl, by rw [t_rs, p4], by rw [t_bud, p6], by rw [t_br, p7],
          by rw [t_xc, p8], by rw [t_op, p5], ?_⟩, hd⟩
        rw [t_tr, projC12_cons, p3]
        rfl
      | some bc =>
        rw [recordFailure_some hb] at H ⊢
        have f_tr : (failW bc c.klass wa1).trace = (Req.breakerFailure c.klass,
            Ans.recorded (Breaker.recordFailure bc wa1.breaker c.klass wa1.now).1
              (Breaker.recordFailure bc wa1.breaker c.klass wa1.now).2.state) ::
            (Req.classify e.ref, Ans.klass c d) :: wa.trace := by
          unfold failW
          rw [t_tr]
        have f_rs : (failW bc c.klass wa1).rs = wa.rs := t_rs
        by_cases hq : (Breaker.recordFailure bc wa1.breaker c.klass wa1.now).1 = none ∨
            (cfg.metric = false ∧ cfg.log = false)
        · rw [emitBreakerEvent_quiet _ _ _ _ _ hq] at H ⊢
          simp only at H ⊢
          obtain ⟨a, rest', hf, hdur⟩ := H.clsLast e _ rfl (by rw [f_rs]; exact hle) hexc
          rw [f_tr, keep_filter_cons_internal _ _ rfl, keep_filter_cons_ext _ _ rfl] at hf
          injection hf with hf1 _
          injection hf1 with _ hf2
          subst hf2
          have hd0 : d = 0 := hdur
          subst hd0
          obtain ⟨c', d', hkl, hlast⟩ := H.clsOK (Req.classify e.ref, Ans.klass c 0)
            (by show _ ∈ (failW bc c.klass wa1).trace
                rw [f_tr]; exact List.mem_cons_of_mem _ List.mem_cons_self)
            e (by show (failW bc c.klass wa1).rs.lastExc = _; rw [f_rs]; exact hle) rfl
          injection hkl with hc' _
          subst hc'
          have hlast' : wa.rs.lastClass = some c.klass := by
            have : (failW bc c.klass wa1).rs.lastClass = some c.klass := hlast
            rw [f_rs] at this
            exact this
          have hbr : wb.breaker = wa1.breaker := by rw [t_br, p7]
          have hnow : wb.now = wa1.now := by rw [t_now, p2]; rfl
          unfold execPost
          rw [hb]
          simp only [hok, hst, Bool.false_eq_true, if_false, bind_run]
          rw [hlc, hlast']
          simp only [Option.getD_some]
          rw [recordFailure_some hb, hbr, hnow, emitBreakerEvent_quiet _ _ _ _ _ hq]
          simp only [pure_run]
          refine ⟨PRel.settle ⟨hnow, by show wb.rs = wa1.rs; rw [t_rs, p4], by show wb.budget = wa1.budget; rw [t_bud, p6],
            ?_, ?_, by show wb.opCalls = wa1.opCalls; rw [t_op, p5], ?_⟩, hd⟩
          · show (Breaker.recordFailure bc wb.breaker c.klass wb.now).2 = (Breaker.recordFailure bc wa1.breaker c.klass wa1.now).2
            rw [hbr, hnow]
          · show ({ wb.xc with settled := true } : XCtx) = { wa1.xc with settled := true }
            rw [t_xc, p8]
          · show projC12 (failW bc c.klass wb).trace = projC12 (failW bc c.klass wa1).trace
            rw [f_tr]
            unfold failW
            simp only [projC12_cons, hbr, hnow, p3]
            rfl
        · exfalso
          have hev : ∃ ev', (Breaker.recordFailure bc wa1.breaker c.klass wa1.now).1 = some ev' := by
            cases hh : (Breaker.recordFailure bc wa1.breaker c.klass wa1.now).1 with
            | none => exact absurd (Or.inl hh) hq
            | some ev' => exact ⟨ev', rfl⟩
          obtain ⟨ev', hev'⟩ := hev
          have hml : cfg.metric = true ∨ cfg.log = true := by
            by_cases hm : cfg.metric = true
            · exact Or.inl hm
            · by_cases hl : cfg.log = true
              · exact Or.inr hl
              · exact absurd (Or.inr ⟨by simpa using hm, by simpa using hl⟩) hq
          rw [hev'] at H
          cases hemit : emitBreakerEvent cfg (some ev') (Breaker.recordFailure bc wa1.breaker c.klass wa1.now).2.state
              (some c.klass) (failW bc c.klass wa1) with
          | error e3 w3 =>
            rw [hemit] at H
            obtain ⟨h1, r, d3, h2, h3⟩ := emitBreakerEvent_err hemit
            have := H.hook _ h2 (by rw [h3]; exact FX.recordFailure_circuit _ _ _ _ _ hev') e3 d3 rfl
            rw [h1] at this
            cases this
          | ok u w3 =>
            rw [hemit] at H
            obtain ⟨y, t', hy, hyh⟩ := emitBreakerEvent_loud cfg ev'
              (Breaker.recordFailure bc wa1.breaker c.klass wa1.now).2.state (some c.klass) (failW bc c.klass wa1) hml
            rw [hemit] at hy
            have hrs3 : w3.rs = wa.rs := by
              have := (emitBreakerEvent_rs cfg (some ev') _ (some c.klass)).ok hemit
              exact this.trans f_rs
            obtain ⟨a, rest', hf, _⟩ := H.clsLast e w3 rfl (by rw [hrs3]; exact hle) hexc
            have hy' : w3.trace = y :: t' := hy
            rw [hy', keep_filter_cons_ext _ _ (isHook_not_internal _ hyh)] at hf
            injection hf with hf1 _
            rw [hf1] at hyh
            cases hyh
    · exfalso
      rw [hcc] at H
      have hm : (Req.classify e.ref, a) ∈ wa1.trace := by rw [ht]; exact List.mem_cons_self
      obtain ⟨c, d, hkl, _⟩ := H.clsOK _ hm e (by show wa1.rs.lastExc = _; rw [hrs]; exact hle) rfl
      exact hnk c d hkl

end Redress
