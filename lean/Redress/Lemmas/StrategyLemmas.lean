/-
  Redress.Lemmas.StrategyLemmas — helper lemmas for C18 (rational arithmetic of the strategies).
-/
import Redress.Model.Strategies
import Mathlib.Tactic.Linarith
import Mathlib.Tactic.Positivity
import Mathlib.Tactic.Ring

namespace Redress.Strategies

/-- A convex combination lies between its end points (either order). -/
theorem uniform_between (a b u : Rat) (hu0 : 0 ≤ u) (hu1 : u ≤ 1) :
    min a b ≤ uniform a b u ∧ uniform a b u ≤ max a b := by
  unfold uniform
  rcases le_total a b with h | h
  · rw [min_eq_left h, max_eq_right h]
    constructor <;> nlinarith [mul_nonneg (sub_nonneg.mpr h) hu0,
      mul_nonneg (sub_nonneg.mpr h) (sub_nonneg.mpr hu1)]
  · rw [min_eq_right h, max_eq_left h]
    constructor <;> nlinarith [mul_nonneg (sub_nonneg.mpr h) hu0,
      mul_nonneg (sub_nonneg.mpr h) (sub_nonneg.mpr hu1)]

theorem uniform_mem_of_le (a b u : Rat) (hab : a ≤ b) (hu0 : 0 ≤ u) (hu1 : u ≤ 1) :
    a ≤ uniform a b u ∧ uniform a b u ≤ b := by
  have := uniform_between a b u hu0 hu1
  rwa [min_eq_left hab, max_eq_right hab] at this

theorem prevOr_nonneg (base : Rat) (prev : Option Rat) (hb : 0 ≤ base)
    (hp : ∀ p, prev = some p → 0 ≤ p) : 0 ≤ prevOr base prev := by
  unfold prevOr
  cases prev with
  | none => exact hb
  | some p =>
    have := hp p rfl
    simp only
    split <;> assumption

theorem one_le_pow_of_one_le (g : Rat) (hg : 1 ≤ g) (n : Nat) : 1 ≤ g ^ n := by
  induction n with
  | zero => simp
  | succ n ih =>
    rw [pow_succ]
    nlinarith

/-- The early-exit product is the plain product as far as `min mx ·` can tell. -/
theorem min_growCapped (mx g : Rat) (hg : 1 ≤ g) :
    ∀ (n : Nat) (acc : Rat), 0 ≤ acc → min mx (growCapped mx g n acc) = min mx (acc * g ^ n) := by
  intro n
  induction n with
  | zero => intro acc _; simp [growCapped]
  | succ n ih =>
    intro acc hacc
    unfold growCapped
    have hpow : 1 ≤ g ^ (n + 1) := one_le_pow_of_one_le g hg (n + 1)
    split
    · next h =>
      rcases h with h | h
      · have : mx ≤ acc * g ^ (n + 1) := by nlinarith
        rw [min_eq_left h, min_eq_left this]
      · subst h; simp
    · next h =>
      rw [ih (acc * g) (by nlinarith), pow_succ]
      congr 1
      ring

theorem prune_sublist (cutoff : Rat) : ∀ ev : Events, (prune cutoff ev).Sublist ev := by
  intro ev
  induction ev with
  | nil => simp [prune]
  | cons e rest ih =>
    obtain ⟨t, s⟩ := e
    unfold prune
    split
    · exact ih.trans (List.sublist_cons_self _ _)
    · exact List.Sublist.refl _

/-- `min hi (max lo x)` is in `[lo, hi]` when `lo ≤ hi`. -/
theorem clamp_mem (lo hi x : Rat) (h : lo ≤ hi) :
    lo ≤ min hi (max lo x) ∧ min hi (max lo x) ≤ hi :=
  ⟨le_min h (le_max_left _ _), min_le_left _ _⟩

end Redress.Strategies
