/-
  Redress.Lemmas.RetryAfterLemmas — helper lemmas for C20 (characters, `str.strip`, `int()`,
  exception flow).  Property theorems are in `Redress/Props/C20.lean`.
-/
import Redress.Model.RetryAfter

namespace Redress.RetryAfter

-- so that concrete instances of the model can be checked by `decide` in `example`s
deriving instance DecidableEq for Except

/-! ### characters -/

theorem isDigit_iff_toNat (c : Char) : c.isDigit = true ↔ 48 ≤ c.toNat ∧ c.toNat ≤ 57 := by
  simp [Char.isDigit, UInt32.le_iff_toNat_le]

theorem isPySpace_of_isDigit {c : Char} (h : c.isDigit = true) : isPySpace c = false := by
  rw [isDigit_iff_toNat] at h
  simp [isPySpace]
  omega

theorem isIntSpace_of_isDigit {c : Char} (h : c.isDigit = true) : isIntSpace c = false := by
  simp [isIntSpace, isPySpace_of_isDigit h]

theorem isIntSpace_imp_isPySpace {c : Char} (h : isIntSpace c = true) : isPySpace c = true := by
  simp [isIntSpace] at h
  exact h.1

theorem ne_underscore_of_isDigit {c : Char} (h : c.isDigit = true) : c ≠ '_' := by
  rw [isDigit_iff_toNat] at h
  rintro rfl
  simp at h

theorem ne_plus_of_isDigit {c : Char} (h : c.isDigit = true) : c ≠ '+' := by
  rw [isDigit_iff_toNat] at h
  rintro rfl
  simp at h

theorem ne_minus_of_isDigit {c : Char} (h : c.isDigit = true) : c ≠ '-' := by
  rw [isDigit_iff_toNat] at h
  rintro rfl
  simp at h

theorem isRunChar_of_isDigit {c : Char} (h : c.isDigit = true) : isRunChar c = true := by
  simp [isRunChar, h]

/-! ### lists -/

theorem dropWhile_append_of_all {α : Type} {p : α → Bool} {l r : List α} (h : ∀ x ∈ l, p x = true) :
    (l ++ r).dropWhile p = r.dropWhile p := by
  induction l with
  | nil => rfl
  | cons a t ih =>
    have ha : p a = true := h a (by simp)
    simp only [List.cons_append, List.dropWhile_cons_of_pos ha]
    exact ih (fun x hx => h x (by simp [hx]))

theorem dropWhile_eq_nil_of_all {α : Type} {p : α → Bool} {l : List α} (h : ∀ x ∈ l, p x = true) :
    l.dropWhile p = [] := by
  simpa using dropWhile_append_of_all (r := []) h

theorem takeWhile_eq_self_of_all {α : Type} {p : α → Bool} {l : List α} (h : ∀ x ∈ l, p x = true) :
    l.takeWhile p = l := by
  induction l with
  | nil => rfl
  | cons a t ih =>
    have ha : p a = true := h a (by simp)
    rw [List.takeWhile_cons_of_pos ha, ih (fun x hx => h x (by simp [hx]))]

theorem hasDoubleUnderscore_false_of_no_underscore {l : List Char} (h : ∀ c ∈ l, c ≠ '_') :
    hasDoubleUnderscore l = false := by
  induction l with
  | nil => rfl
  | cons a t ih =>
    cases t with
    | nil => rfl
    | cons b u =>
      have ha : a ≠ '_' := h a (by simp)
      have := ih (fun c hc => h c (by simp [hc]))
      simp [hasDoubleUnderscore, ha, this]

/-! ### `str.strip()` -/

/-- Stripping removes a whitespace prefix and suffix around a core that neither starts nor ends
with whitespace. -/
theorem pyStripL_around {ws1 ws2 init t : List Char} {a b : Char}
    (h1 : ∀ c ∈ ws1, isPySpace c = true) (h2 : ∀ c ∈ ws2, isPySpace c = true)
    (hcore : a :: t = init ++ [b]) (ha : isPySpace a = false) (hb : isPySpace b = false) :
    pyStripL (ws1 ++ (a :: t) ++ ws2) = a :: t := by
  unfold pyStripL
  rw [List.append_assoc, dropWhile_append_of_all h1]
  have hna : ¬ isPySpace a = true := by simp [ha]
  rw [List.cons_append, List.dropWhile_cons_of_neg hna, ← List.cons_append, hcore]
  simp only [List.reverse_append, List.reverse_cons, List.reverse_nil, List.nil_append,
    List.singleton_append]
  have h2' : ∀ c ∈ ws2.reverse, isPySpace c = true := fun c hc => h2 c (by simpa using hc)
  rw [dropWhile_append_of_all h2']
  have hnb : ¬ isPySpace b = true := by simp [hb]
  rw [List.dropWhile_cons_of_neg hnb]
  simp

theorem pyStripL_all_space {l : List Char} (h : ∀ c ∈ l, isPySpace c = true) : pyStripL l = [] := by
  unfold pyStripL
  rw [dropWhile_eq_nil_of_all h]
  rfl

/-! ### `int()` on sign + digits -/

/-- the digit run: a non-empty list of ASCII digits within the limit, nothing after it -/
theorem pyIntBody_digits {lim : Nat} {neg : Bool} {ds : List Char} (hne : ds ≠ [])
    (hd : ∀ c ∈ ds, c.isDigit = true) (hlim : lim = 0 ∨ ds.length ≤ lim) :
    pyIntBody lim neg ds = .value (if neg then -(decVal ds : Int) else (decVal ds : Int)) := by
  have hrun : ∀ c ∈ ds, isRunChar c = true := fun c hc => isRunChar_of_isDigit (hd c hc)
  have hnu : ∀ c ∈ ds, c ≠ '_' := fun c hc => ne_underscore_of_isDigit (hd c hc)
  have hlast : ds.getLast? ≠ some '_' := fun h => hnu _ (List.mem_of_getLast? h) rfl
  have hhead : ds.head? ≠ some '_' := fun h => hnu _ (List.mem_of_head? h) rfl
  have hlim' : ¬ (0 < lim ∧ lim < ds.length) := by omega
  unfold pyIntBody
  simp only [takeWhile_eq_self_of_all hrun, dropWhile_eq_nil_of_all hrun,
    hasDoubleUnderscore_false_of_no_underscore hnu, List.filter_eq_self.mpr hd]
  simp [hlast, hhead, hne, hlim']

/-- the digit limit: more than `lim` digits (and nothing else wrong) is the limit ValueError -/
theorem pyIntBody_too_many {lim : Nat} {neg : Bool} {ds : List Char}
    (hd : ∀ c ∈ ds, c.isDigit = true) (hpos : 0 < lim) (hlim : lim < ds.length) :
    pyIntBody lim neg ds = .tooManyDigits := by
  have hne : ds ≠ [] := by
    intro h; subst h; simp at hlim
  have hrun : ∀ c ∈ ds, isRunChar c = true := fun c hc => isRunChar_of_isDigit (hd c hc)
  have hnu : ∀ c ∈ ds, c ≠ '_' := fun c hc => ne_underscore_of_isDigit (hd c hc)
  have hlast : ds.getLast? ≠ some '_' := fun h => hnu _ (List.mem_of_getLast? h) rfl
  have hhead : ds.head? ≠ some '_' := fun h => hnu _ (List.mem_of_head? h) rfl
  unfold pyIntBody
  simp only [takeWhile_eq_self_of_all hrun, dropWhile_eq_nil_of_all hrun,
    hasDoubleUnderscore_false_of_no_underscore hnu, List.filter_eq_self.mpr hd]
  simp [hlast, hhead, hne, hpos, hlim]

theorem pyIntL_of_digit_head {lim : Nat} {d : Char} {t : List Char} (hd : d.isDigit = true) :
    pyIntL lim (d :: t) = pyIntBody lim false (d :: t) := by
  have hsp : ¬ isIntSpace d = true := by simp [isIntSpace_of_isDigit hd]
  have hm : (d == '-') = false := by simp [ne_minus_of_isDigit hd]
  unfold pyIntL
  simp [List.dropWhile_cons_of_neg hsp, ne_plus_of_isDigit hd, hm]

theorem pyIntL_plus {lim : Nat} {t : List Char} : pyIntL lim ('+' :: t) = pyIntBody lim false t := by
  have hp : ¬ isIntSpace '+' = true := by decide
  unfold pyIntL
  simp [List.dropWhile_cons_of_neg hp]

theorem pyIntL_minus {lim : Nat} {t : List Char} : pyIntL lim ('-' :: t) = pyIntBody lim true t := by
  have hp : ¬ isIntSpace '-' = true := by decide
  unfold pyIntL
  simp [List.dropWhile_cons_of_neg hp]

/-! ### more list facts -/

theorem all_of_dropWhile_nil {α : Type} {p : α → Bool} {l : List α} (h : l.dropWhile p = []) :
    ∀ x ∈ l, p x = true := by
  induction l with
  | nil => simp
  | cons a t ih =>
    by_cases ha : p a = true
    · rw [List.dropWhile_cons_of_pos ha] at h
      intro x hx
      rcases List.mem_cons.mp hx with rfl | hx
      · exact ha
      · exact ih h x hx
    · rw [List.dropWhile_cons_of_neg ha] at h
      cases h

theorem all_takeWhile {α : Type} {p : α → Bool} {l : List α} : ∀ x ∈ l.takeWhile p, p x = true := by
  induction l with
  | nil => simp
  | cons a t ih =>
    by_cases ha : p a = true
    · rw [List.takeWhile_cons_of_pos ha]
      intro x hx
      rcases List.mem_cons.mp hx with rfl | hx
      · exact ha
      · exact ih x hx
    · rw [List.takeWhile_cons_of_neg ha]
      simp

/-! ### which strings `int()` accepts: only digits, `_`, one sign, whitespace -/

/-- the characters that can occur in a string `int()` accepts -/
def isIntChar (c : Char) : Bool := c.isDigit || c == '_' || c == '+' || c == '-' || isIntSpace c

/-- If the digit-run parser returns a value, nothing but whitespace follows the run. -/
theorem pyIntBody_value_chars {lim : Nat} {neg : Bool} {s2 : List Char} {n : Int}
    (h : pyIntBody lim neg s2 = .value n) : ∀ c ∈ s2, isIntChar c = true := by
  have htail' : (s2.dropWhile isRunChar).dropWhile isIntSpace = [] := by
    unfold pyIntBody at h
    simp only at h
    repeat' split at h
    all_goals first | (cases h; done) | skip
    all_goals (rename_i _ _ _ _ _ _ htail _; simpa using htail)
  intro c hc
  rw [← List.takeWhile_append_dropWhile (p := isRunChar) (l := s2)] at hc
  rcases List.mem_append.mp hc with hc | hc
  · have := all_takeWhile c hc
    simp only [isRunChar, Bool.or_eq_true] at this
    rcases this with h' | h' <;> simp [isIntChar, h']
  · have := all_of_dropWhile_nil htail' c hc
    simp [isIntChar, this]

/-- **`int()` accepts only strings made of digits, underscores, a sign and whitespace.** -/
theorem pyIntL_value_chars {lim : Nat} {s : List Char} {n : Int}
    (h : pyIntL lim s = .value n) : ∀ c ∈ s, isIntChar c = true := by
  unfold pyIntL at h
  simp only at h
  have hbody := pyIntBody_value_chars h
  intro c hc
  rw [← List.takeWhile_append_dropWhile (p := isIntSpace) (l := s)] at hc
  rcases List.mem_append.mp hc with hc | hc
  · have := all_takeWhile c hc
    simp [isIntChar, this]
  · generalize s.dropWhile isIntSpace = s1 at hbody hc
    cases s1 with
    | nil => cases hc
    | cons a t =>
      rcases List.mem_cons.mp hc with rfl | hc'
      · by_cases hp : c = '+'
        · subst hp; decide
        · by_cases hm : c = '-'
          · subst hm; decide
          · exact hbody c (by simp [hp, hm])
      · exact hbody c (by split <;> simp [hc'])

/-! ### size of a digit string's value -/

theorem decVal_cons (d : Char) (t : List Char) :
    decVal (d :: t) = 10 ^ t.length * (d.toNat - 48) + decVal t := by
  unfold decVal
  rw [Nat.ofDigitChars_cons, Nat.ofDigitChars_eq_ofDigitChars_zero]
  simp

/-- a digit string that does not start with `0` is at least `10^(length-1)` -/
theorem decVal_lower_bound {d : Char} {t : List Char} (hd : d.isDigit = true) (h0 : d ≠ '0') :
    10 ^ t.length ≤ decVal (d :: t) := by
  rw [decVal_cons]
  have h48 : 1 ≤ d.toNat - 48 := by
    rw [isDigit_iff_toNat] at hd
    have : d.toNat ≠ 48 := fun h => h0 (Char.toNat_inj.mp (by simpa using h))
    omega
  calc 10 ^ t.length = 10 ^ t.length * 1 := by simp
    _ ≤ 10 ^ t.length * (d.toNat - 48) := Nat.mul_le_mul_left _ h48
    _ ≤ _ := Nat.le_add_right _ _

/-! ### `str.lower()` -/

theorem toLower_idem (c : Char) : c.toLower.toLower = c.toLower := by
  simp only [Char.toLower]
  split
  · split
    · next h1 h2 =>
      simp only [UInt32.le_iff_toNat_le, UInt32.toNat_add, seval] at h1 h2
      omega
    · simp
  · rfl

theorem lowerL_pyLower (s : String) : lowerL (pyLower s) = lowerL s := by
  unfold pyLower lowerL
  rw [String.toList_ofList, List.map_map]
  apply List.map_congr_left
  intro c _
  simp [toLower_idem]

/-! ### `try … except` -/

theorem tryExcept_error_iff {α : Type} {c : ExcKind → Bool} {body : Py α} {h : α} {k : ExcKind} :
    tryExcept c body h = .error k ↔ body = .error k ∧ c k = false := by
  unfold tryExcept
  cases body with
  | ok a => simp
  | error k' =>
    by_cases hc : c k' = true
    · simp [hc]
      intro hk; subst hk; simp [hc]
    · simp [hc]
      intro hk; subst hk; simpa using hc

theorem tryExcept_total {α : Type} {c : ExcKind → Bool} {body : Py α} {h : α}
    (hb : ∀ k, body = .error k → c k = true) : ∃ r, tryExcept c body h = .ok r := by
  cases hr : tryExcept c body h with
  | ok r => exact ⟨r, rfl⟩
  | error k =>
    have := tryExcept_error_iff.mp hr
    have := hb k this.1
    simp_all

end Redress.RetryAfter
