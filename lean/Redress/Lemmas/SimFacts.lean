/-
  Redress.Lemmas.SimFacts — unary facts about the shared procedures that the call/execute lock-step (C12)
  needs: what a procedure leaves alone (`Keep`), what holds when it returns (`Post`), and a few run
  equations.  All proved from the run equations (`bind_run`, `tryCatch_run`, …), no Hoare logic.
-/
import Redress.Lemmas.SimProcs
import Redress.Lemmas.Hoare

namespace Redress
open Twin Retry

/-! ### run equations and inversion of `>>=` -/

theorem setStop_run (s : StopReason) (w : World) :
    setStop s w = .ok ⟨⟩ { w with rs := { w.rs with lastStop := some s } } := rfl
theorem getRS_run (w : World) : getRS w = .ok w.rs w := rfl
theorem getAS_run (w : World) : getAS w = .ok w.as w := rfl
theorem elapsed_run (w : World) : elapsed w = .ok (w.now - w.rs.start) w := rfl
theorem modifyRS_run (f : RState → RState) (w : World) :
    modifyRS f w = .ok ⟨⟩ { w with rs := f w.rs } := rfl
theorem modifyAS_run (f : AState → AState) (w : World) :
    modifyAS f w = .ok ⟨⟩ { w with as := f w.as } := rfl

theorem bind_ok {x : M α} {f : α → M β} {w : World} {b : β} {w' : World}
    (h : (x >>= f) w = .ok b w') : ∃ a w1, x w = .ok a w1 ∧ f a w1 = .ok b w' := by
  rw [bind_run] at h
  cases hx : x w with
  | ok a w1 => rw [hx] at h; exact ⟨a, w1, rfl, h⟩
  | error e w1 => rw [hx] at h; cases h

theorem bind_err {x : M α} {f : α → M β} {w : World} {e : Exn} {w' : World}
    (h : (x >>= f) w = .error e w') :
    x w = .error e w' ∨ ∃ a w1, x w = .ok a w1 ∧ f a w1 = .error e w' := by
  rw [bind_run] at h
  cases hx : x w with
  | ok a w1 => rw [hx] at h; exact Or.inr ⟨a, w1, rfl, h⟩
  | error e1 w1 => rw [hx] at h; cases h; exact Or.inl rfl

theorem finalWorld_bind (x : M α) (f : α → M β) (w : World) :
    finalWorld ((x >>= f) w) = (match x w with
      | .ok a w1 => finalWorld (f a w1)
      | .error _ w1 => w1) := by
  rw [bind_run]
  cases x w <;> rfl

/-! ### `Keep g x`: `x` leaves the projection `g` of the world alone, on both exits -/

structure Keep (g : World → β) (x : M α) : Prop where
  eq : ∀ w, g (finalWorld (x w)) = g w

theorem Keep.pure (g : World → β) (a : α) : Keep g (pure a : M α) := ⟨fun _ => rfl⟩
theorem Keep.throw (g : World → β) (e : Exn) : Keep g (throw e : M α) := ⟨fun _ => rfl⟩

theorem Keep.bind {g : World → β} {x : M α} {f : α → M γ} (hx : Keep g x) (hf : ∀ a, Keep g (f a)) :
    Keep g (x >>= f) := by
  refine ⟨fun w => ?_⟩
  rw [finalWorld_bind]
  have := hx.eq w
  cases hxw : x w with
  | ok a w1 =>
    rw [hxw] at this
    simp only
    rw [(hf a).eq w1]; exact this
  | error e w1 => rw [hxw] at this; exact this

theorem Keep.tryC {g : World → β} {x : M α} {h : Exn → M α} (hx : Keep g x) (hh : ∀ e, Keep g (h e)) :
    Keep g (tryCatch x h : M α) := by
  refine ⟨fun w => ?_⟩
  rw [tryCatch_run]
  have := hx.eq w
  cases hxw : x w with
  | ok a w1 => rw [hxw] at this; exact this
  | error e w1 =>
    rw [hxw] at this
    simp only
    rw [(hh e).eq w1]; exact this

theorem Keep.ite {g : World → β} {c : Prop} [Decidable c] {x y : M α} (hx : Keep g x) (hy : Keep g y) :
    Keep g (if c then x else y) := by
  split <;> assumption

/-- `g` does not look at the answers, the clock or the log -/
def Inert (g : World → β) : Prop :=
  ∀ (w : World) (ans : List Ans) (n : Nat) (t : List (Req × Ans)),
    g { w with answers := ans, now := n, trace := t } = g w

theorem Keep.ask {g : World → β} (hg : Inert g) (r : Req) : Keep g (ask r) := by
  refine ⟨fun w => ?_⟩
  cases hw : w.answers with
  | nil =>
    rw [ask_nil r w hw]
    have := hg w w.answers w.now ((r, Ans.raise .stuck 0) :: w.trace)
    exact this
  | cons a rest =>
    rw [ask_cons r w a rest hw]
    have := hg w rest (w.now + a.dur) ((r, a) :: w.trace)
    cases a <;> exact this

theorem Keep.askHook {g : World → β} (hg : Inert g) (r : Req) : Keep g (askHook r) := by
  refine ⟨fun w => ?_⟩
  cases hw : w.answers with
  | nil =>
    rw [askHook_nil r w hw]
    have := hg w w.answers w.now ((r, Ans.raise .stuck 0) :: w.trace)
    exact this
  | cons a rest =>
    rw [askHook_cons r w a rest hw]
    unfold askHookStep
    generalize (if w.silent = true then a.silenced else a) = a'
    have := hg w rest (w.now + a.dur) ((r, a') :: w.trace)
    cases a' <;> exact this

theorem Keep.modify {g : World → β} (f : World → World) (hf : ∀ w, g (f w) = g w) :
    Keep g (_root_.modify f : M PUnit) := ⟨fun w => hf w⟩

theorem Keep.getThen {g : World → β} (k : World → M α) (hk : ∀ w, Keep g (k w)) : Keep g (get >>= k) := by
  refine ⟨fun w => ?_⟩
  rw [bind_run, get_run]
  exact (hk w).eq w

theorem Keep.map {g : World → β} (f : β → γ) {x : M α} (h : Keep g x) : Keep (fun w => f (g w)) x :=
  ⟨fun w => by rw [h.eq w]⟩

theorem Keep.ok {g : World → β} {x : M α} (h : Keep g x) {w : World} {a : α} {w' : World}
    (hx : x w = .ok a w') : g w' = g w := by
  have := h.eq w; rw [hx] at this; exact this

theorem Keep.err {g : World → β} {x : M α} (h : Keep g x) {w : World} {e : Exn} {w' : World}
    (hx : x w = .error e w') : g w' = g w := by
  have := h.eq w; rw [hx] at this; exact this

syntax "keep" "[" ident,* "]" : tactic
macro_rules
  | `(tactic| keep [$ls,*]) => do
    let alts ← ls.getElems.mapM fun l => `(tacticSeq| with_reducible apply $l)
    `(tactic| repeat (first
        | with_reducible exact Keep.pure _ _
        | with_reducible exact Keep.throw _ _
        | (with_reducible apply Keep.ask) <;> (intro _ _ _ _; rfl)
        | (with_reducible apply Keep.askHook) <;> (intro _ _ _ _; rfl)
        | (with_reducible apply Keep.modify) <;> (intro _; rfl)
        | assumption
        $[| $alts]*
        | with_reducible apply Keep.bind
        | with_reducible apply Keep.tryC
        | with_reducible apply Keep.ite
        | with_reducible apply Keep.getThen
        | (intro _)
        | split))

/-! #### what leaves `rs` alone -/

def gRS : World → RState := fun w => w.rs

theorem getRS_keep (g : World → β) : Keep g getRS := ⟨fun _ => rfl⟩
theorem elapsed_keep (g : World → β) : Keep g elapsed := ⟨fun _ => rfl⟩

theorem swallow_keep (g : World → β) (e : Exn) : Keep g (swallowException e) := by
  unfold swallowException
  keep []

theorem askMetric_rs (ev : Event) (a s : Nat) (t : Tags) : Keep gRS (askMetric ev a s t) := by
  unfold askMetric
  keep []

theorem askLog_rs (ev : Event) (a s : Nat) (t : Tags) (ra : Option Int) : Keep gRS (askLog ev a s t ra) := by
  unfold askLog
  keep []

theorem recordTimeline_rs (ev : Event) (a s : Nat) (t : Tags) : Keep gRS (recordTimeline ev a s t) :=
  Keep.modify _ (fun _ => rfl)

theorem metricHook_rs (cfg : Cfg) (tl : Bool) (ev : Event) (a s : Nat) (t : Tags) :
    Keep gRS (metricHook cfg tl ev a s t) := by
  unfold metricHook
  keep [recordTimeline_rs, askMetric_rs]

theorem emit_rs (cfg : Cfg) (tl : Bool) (ev : Event) (a s : Nat) (k : Option EClass) (e : Option Exn)
    (st : Option StopReason) (c : Option Cause) (cl : Option Classification) :
    Keep gRS (emit cfg tl ev a s k e st c cl) := by
  unfold emit
  keep [metricHook_rs, swallow_keep, askLog_rs]

theorem callStrategy_rs (key : SKey) (kind : SKind) (ctx : BackoffCtx) : Keep gRS (callStrategy key kind ctx) := by
  unfold callStrategy
  keep []

theorem stratRecordFailure_rs (cfg : Cfg) (key : SKey) (k : EClass) : Keep gRS (stratRecordFailure cfg key k) := by
  unfold stratRecordFailure
  keep []

theorem budgetConsume_rs (cfg : Cfg) : Keep gRS (budgetConsume cfg) := by
  unfold budgetConsume
  split
  · exact Keep.pure _ _
  · exact ⟨fun w => rfl⟩

theorem callBeforeSleep_rs (cfg : Cfg) (ctx : BackoffCtx) (s : Nat) : Keep gRS (callBeforeSleep cfg ctx s) := by
  unfold callBeforeSleep
  keep [swallow_keep]

theorem callSleeper_rs (cfg : Cfg) (s : Nat) : Keep gRS (callSleeper cfg s) := by
  unfold callSleeper
  keep []

theorem callSleepHandler_rs (lvl : Lvl) (ctx : BackoffCtx) (s : Nat) : Keep gRS (callSleepHandler lvl ctx s) := by
  unfold callSleepHandler
  keep []

/-! #### what leaves `last_cause` / `last_exc` alone -/

/-- the two `_RetryState` fields `raise_exhausted_call` / `_build_outcome` consult besides `last_stop_reason` -/
def gCE : World → Option Cause × Option Exn := fun w => (w.rs.lastCause, w.rs.lastExc)

theorem ce_of_rs {x : M α} (h : Keep gRS x) : Keep gCE x :=
  Keep.map (fun r : RState => (r.lastCause, r.lastExc)) h

theorem setStop_ce (s : StopReason) : Keep gCE (setStop s) := Keep.modify _ (fun _ => rfl)

theorem emit_ce (cfg : Cfg) (tl : Bool) (ev : Event) (a s : Nat) (k : Option EClass) (e : Option Exn)
    (st : Option StopReason) (c : Option Cause) (cl : Option Classification) :
    Keep gCE (emit cfg tl ev a s k e st c cl) := ce_of_rs (emit_rs ..)

theorem checkAbort_ce (cfg : Cfg) (tl : Bool) (a : Nat) : Keep gCE (checkAbort cfg tl a) := by
  unfold checkAbort
  keep [setStop_ce, emit_ce]

/-- everything in `_RetryState` but `last_stop_reason` -/
def gNS : World → RState := fun w => { w.rs with lastStop := none }

theorem checkAbort_ns (cfg : Cfg) (tl : Bool) (a : Nat) : Keep gNS (checkAbort cfg tl a) := by
  unfold checkAbort
  have h1 : ∀ s, Keep gNS (setStop s) := fun s => Keep.modify _ (fun _ => rfl)
  have h2 : ∀ ev n s k e st c cl, Keep gNS (emit cfg tl ev n s k e st c cl) :=
    fun ev n s k e st c cl => Keep.map (fun r : RState => { r with lastStop := none }) (emit_rs ..)
  keep [h1, h2]

theorem emitAbortedOnce_ce (cfg : Cfg) (tl : Bool) (a : Nat) : Keep gCE (emitAbortedOnce cfg tl a) := by
  unfold emitAbortedOnce
  keep [getRS_keep, setStop_ce, emit_ce]

theorem handleSleepDecision_ce (cfg : Cfg) (tl : Bool) (act : SleepDecision) (a s : Nat) :
    Keep gCE (handleSleepDecision cfg tl act a s) := by
  unfold handleSleepDecision
  keep [getRS_keep, setStop_ce, emit_ce, emitAbortedOnce_ce]

theorem callBeforeSleep_ce (cfg : Cfg) (ctx : BackoffCtx) (s : Nat) : Keep gCE (callBeforeSleep cfg ctx s) :=
  ce_of_rs (callBeforeSleep_rs ..)
theorem callSleeper_ce (cfg : Cfg) (s : Nat) : Keep gCE (callSleeper cfg s) := ce_of_rs (callSleeper_rs ..)
theorem callSleepHandler_ce (lvl : Lvl) (ctx : BackoffCtx) (s : Nat) : Keep gCE (callSleepHandler lvl ctx s) :=
  ce_of_rs (callSleepHandler_rs ..)

theorem sleepAction_ce (cfg : Cfg) (tl : Bool) (a s : Nat) (ctx : BackoffCtx) :
    Keep gCE (sleepAction cfg tl a s ctx) := by
  unfold sleepAction
  keep [callBeforeSleep_ce, callSleeper_ce, callSleepHandler_ce, handleSleepDecision_ce]

theorem finalizeAttempt_ce (cfg : Cfg) (tl : Bool) (a : Nat) (d : Decision) (act : Option SleepDecision)
    (cls : Option Classification) (e : Option Exn) (r : Option Nat) (c : Option Cause) :
    Keep gCE (finalizeAttempt cfg tl a d act cls e r c) := by
  unfold finalizeAttempt
  keep [getRS_keep, elapsed_keep, setStop_ce, emit_ce]

theorem failureOutcome_ce (cfg : Cfg) (tl : Bool) (a : Nat) (d : Decision) (cls : Option Classification)
    (e : Option Exn) (r : Option Nat) (c : Option Cause) : Keep gCE (failureOutcome cfg tl a d cls e r c) := by
  unfold failureOutcome
  keep [finalizeAttempt_ce, sleepAction_ce]

theorem emitMaxAttemptsExceeded_ce (cfg : Cfg) (tl : Bool) : Keep gCE (emitMaxAttemptsExceeded cfg tl) := by
  unfold emitMaxAttemptsExceeded
  keep [getRS_keep, emit_ce, setStop_ce]

theorem modifyRS_ce (f : RState → RState) (hf : ∀ r, (f r).lastCause = r.lastCause ∧ (f r).lastExc = r.lastExc) :
    Keep gCE (modifyRS f) :=
  Keep.modify _ (fun w => by
    show ((f w.rs).lastCause, (f w.rs).lastExc) = (w.rs.lastCause, w.rs.lastExc)
    rw [(hf w.rs).1, (hf w.rs).2])

theorem stopWith_ce (cfg : Cfg) (tl : Bool) (s : StopReason) (ev : Event) (a : Nat) (k : EClass)
    (e : Option Exn) (c : Cause) : Keep gCE (stopWith cfg tl s ev a k e c) := by
  unfold stopWith
  keep [setStop_ce, emit_ce]

theorem callStrategy_ce (key : SKey) (kind : SKind) (ctx : BackoffCtx) : Keep gCE (callStrategy key kind ctx) :=
  ce_of_rs (callStrategy_rs ..)
theorem stratRecordFailure_ce (cfg : Cfg) (key : SKey) (k : EClass) : Keep gCE (stratRecordFailure cfg key k) :=
  ce_of_rs (stratRecordFailure_rs ..)
theorem budgetConsume_ce (cfg : Cfg) : Keep gCE (budgetConsume cfg) := ce_of_rs (budgetConsume_rs ..)

theorem grantRetry_ce (cfg : Cfg) (tl : Bool) (c : Classification) (a : Nat) (cause : Cause)
    (e : Option Exn) (key : SKey) (kind : SKind) (rem : Nat) :
    Keep gCE (grantRetry cfg tl c a cause e key kind rem) := by
  unfold grantRetry
  have h1 : ∀ s : Nat, Keep gCE (modifyRS fun r => { r with prevSleep := some s }) :=
    fun s => modifyRS_ce _ (fun _ => ⟨rfl, rfl⟩)
  keep [getRS_keep, callStrategy_ce, budgetConsume_ce, h1, emit_ce, stopWith_ce]

theorem handleFailure2_ce (cfg : Cfg) (tl : Bool) (c : Classification) (a : Nat) (cause : Cause)
    (e : Option Exn) : Keep gCE (handleFailure2 cfg tl c a cause e) := by
  unfold handleFailure2
  have h1 : ∀ key : SKey, Keep gCE (modifyRS fun r => { r with lastStrategy := some key }) :=
    fun key => modifyRS_ce _ (fun _ => ⟨rfl, rfl⟩)
  keep [elapsed_keep, stopWith_ce, h1, stratRecordFailure_ce, grantRetry_ce]

theorem handleUnknown_ce (cfg : Cfg) (tl : Bool) (c : Classification) (a : Nat) (cause : Cause)
    (e : Option Exn) : Keep gCE (handleUnknown cfg tl c a cause e) := by
  unfold handleUnknown
  have h1 : Keep gCE (modifyRS fun r => { r with unknownAttempts := r.unknownAttempts + 1 }) :=
    modifyRS_ce _ (fun _ => ⟨rfl, rfl⟩)
  keep [getRS_keep, h1, stopWith_ce, handleFailure2_ce]

theorem handleFailure1_ce (cfg : Cfg) (tl : Bool) (c : Classification) (a : Nat) (cause : Cause)
    (e : Option Exn) : Keep gCE (handleFailure1 cfg tl c a cause e) := by
  unfold handleFailure1
  keep [getRS_keep, stopWith_ce, handleUnknown_ce, handleFailure2_ce]

/-! ### `Post Q x`: what holds when `x` returns normally -/

structure Post (Q : α → World → Prop) (x : M α) : Prop where
  ok : ∀ w a w', x w = .ok a w' → Q a w'

theorem Post.pure {Q : α → World → Prop} (a : α) (h : ∀ w, Q a w) : Post Q (pure a : M α) :=
  ⟨fun w a' w' hx => by cases hx; exact h w⟩

theorem Post.throw {Q : α → World → Prop} (e : Exn) : Post Q (throw e : M α) :=
  ⟨fun w a' w' hx => by cases hx⟩

/-- the last step decides -/
theorem Post.tail {Q : β → World → Prop} {x : M α} {f : α → M β} (hf : ∀ a, Post Q (f a)) :
    Post Q (x >>= f) :=
  ⟨fun _ _ _ hx => by
    obtain ⟨a, w1, _, h2⟩ := bind_ok hx
    exact (hf a).ok _ _ _ h2⟩

theorem Post.ite {Q : α → World → Prop} {c : Prop} [Decidable c] {x y : M α} (hx : Post Q x) (hy : Post Q y) :
    Post Q (if c then x else y) := by
  split <;> assumption

/-- `_handle_failure` decides "raise" only after setting a stop reason -/
def RaiseStop : Decision → World → Prop := fun d w => d = .raise → ∃ s, w.rs.lastStop = some s ∧ s ≠ .aborted

theorem stopWith_ok {cfg : Cfg} {tl : Bool} {s : StopReason} {ev : Event} {a : Nat} {k : EClass}
    {e : Option Exn} {c : Cause} {w : World} {d : Decision} {w' : World}
    (h : stopWith cfg tl s ev a k e c w = .ok d w') : d = .raise ∧ w'.rs.lastStop = some s := by
  unfold stopWith at h
  obtain ⟨u1, w1, h1, hb⟩ := bind_ok h
  obtain ⟨u2, w2, h2, hc⟩ := bind_ok hb
  clear h hb
  rw [setStop_run] at h1
  injection h1 with _ hw1
  injection hc with hd hw2
  subst hw1 hw2 hd
  have := (emit_rs ..).ok h2
  exact ⟨rfl, by show (gRS w2).lastStop = _; rw [this]; rfl⟩

theorem stopWith_post (cfg : Cfg) (tl : Bool) (s : StopReason) (ev : Event) (a : Nat) (k : EClass)
    (e : Option Exn) (c : Cause) (hs : s ≠ .aborted) : Post RaiseStop (stopWith cfg tl s ev a k e c) :=
  ⟨fun _ _ _ hx _ => ⟨s, (stopWith_ok hx).2, hs⟩⟩

syntax "post" "[" ident,* "]" : tactic
macro_rules
  | `(tactic| post [$ls,*]) => do
    let alts ← ls.getElems.mapM fun l => `(tacticSeq| with_reducible apply $l)
    `(tactic| repeat (first
        | with_reducible exact Post.throw _
        | (with_reducible apply Post.pure) <;> (intro _ h; cases h)
        | assumption
        | (intro h; cases h)
        $[| $alts]*
        | with_reducible apply Post.tail
        | with_reducible apply Post.ite
        | (intro _)
        | split))

theorem grantRetry_post (cfg : Cfg) (tl : Bool) (c : Classification) (a : Nat) (cause : Cause)
    (e : Option Exn) (key : SKey) (kind : SKind) (rem : Nat) :
    Post RaiseStop (grantRetry cfg tl c a cause e key kind rem) := by
  unfold grantRetry
  post [stopWith_post]

theorem handleFailure2_post (cfg : Cfg) (tl : Bool) (c : Classification) (a : Nat) (cause : Cause)
    (e : Option Exn) : Post RaiseStop (handleFailure2 cfg tl c a cause e) := by
  unfold handleFailure2
  post [stopWith_post, grantRetry_post]

theorem handleUnknown_post (cfg : Cfg) (tl : Bool) (c : Classification) (a : Nat) (cause : Cause)
    (e : Option Exn) : Post RaiseStop (handleUnknown cfg tl c a cause e) := by
  unfold handleUnknown
  post [stopWith_post, handleFailure2_post]

theorem handleFailure1_post (cfg : Cfg) (tl : Bool) (c : Classification) (a : Nat) (cause : Cause)
    (e : Option Exn) : Post RaiseStop (handleFailure1 cfg tl c a cause e) := by
  unfold handleFailure1
  post [stopWith_post, handleUnknown_post, handleFailure2_post]

/-- `_handle_failure`: the failure is recorded; "raise" comes with a stop reason -/
theorem handleFailure_ok {cfg : Cfg} {tl : Bool} {c : Classification} {a : Nat} {cause : Cause}
    {exc : Option Exn} {res : Option Nat} {w : World} {d : Decision} {w' : World}
    (h : handleFailure cfg tl c a cause exc res w = .ok d w') :
    w'.rs.lastCause = some cause ∧ w'.rs.lastExc = (if cause = .exception then exc else none) ∧
      (d = .raise → ∃ s, w'.rs.lastStop = some s ∧ s ≠ .aborted) := by
  unfold handleFailure at h
  obtain ⟨u1, w1, h1, hb⟩ := bind_ok h
  obtain ⟨u2, w2, h2, hc⟩ := bind_ok hb
  clear h hb
  have hp := (handleFailure1_post ..).ok _ _ _ hc
  have hk := (handleFailure1_ce ..).ok hc
  injection h1 with _ hw1
  injection h2 with _ hw2
  subst hw1 hw2
  have hk1 : w'.rs.lastCause = some cause := congrArg Prod.fst hk
  have hk2 : w'.rs.lastExc = (if cause = .exception then exc else none) := congrArg Prod.snd hk
  exact ⟨hk1, hk2, hp⟩

theorem callClassifier_rs (e : Exn) : Keep gRS (callClassifier e) := by
  unfold callClassifier
  keep []

theorem handleException_ok {cfg : Cfg} {tl : Bool} {e : Exn} {a : Nat} {w : World} {d : Decision}
    {w' : World} (h : handleException cfg tl e a w = .ok d w') :
    w'.rs.lastCause = some .exception ∧ w'.rs.lastExc = some e ∧
      (d = .raise → ∃ s, w'.rs.lastStop = some s ∧ s ≠ .aborted) := by
  unfold handleException at h
  obtain ⟨c, w1, _, hb⟩ := bind_ok h
  have := handleFailure_ok hb
  simpa using this

/-! ### aborted / scheduled bookkeeping -/

theorem emitAbortedOnce_noop (cfg : Cfg) (tl : Bool) (a : Nat) (w : World)
    (h : w.rs.lastStop = some .aborted) : emitAbortedOnce cfg tl a w = .ok ⟨⟩ w := by
  unfold emitAbortedOnce
  rw [bind_run, getRS_run]
  simp only [h, if_true]
  rfl

theorem emitAbortedOnce_ok {cfg : Cfg} {tl : Bool} {a : Nat} {w : World} {u : Unit} {w' : World}
    (h : emitAbortedOnce cfg tl a w = .ok u w') : w'.rs.lastStop = some .aborted := by
  unfold emitAbortedOnce at h
  rw [bind_run, getRS_run] at h
  simp only at h
  by_cases hls : w.rs.lastStop = some .aborted
  · rw [if_pos hls] at h
    injection h with _ hw
    subst hw
    exact hls
  · rw [if_neg hls] at h
    obtain ⟨u1, w1, h1, h2⟩ := bind_ok h
    clear h
    rw [setStop_run] at h1
    injection h1 with _ hw1
    subst hw1
    have := (emit_rs ..).ok h2
    show (gRS w').lastStop = _
    rw [this]; rfl

structure SleepPost (r : SleepDecision) (w : World) : Prop where
  defer : r = .defer → w.rs.lastStop = some .scheduled
  abort : r = .abort → w.rs.lastStop = some .aborted

theorem SleepPost.sleep (w : World) : SleepPost .sleep w := ⟨(fun h => by cases h), fun h => by cases h⟩

theorem handleSleepDecision_post (cfg : Cfg) (tl : Bool) (act : SleepDecision) (a s : Nat) :
    Post SleepPost (handleSleepDecision cfg tl act a s) := by
  refine ⟨fun w r w' h => ?_⟩
  unfold handleSleepDecision at h
  cases act with
  | sleep =>
    injection h with hr hw
    subst hr
    exact SleepPost.sleep _
  | defer =>
    simp only at h
    obtain ⟨r1, w1, h1, hb⟩ := bind_ok h
    obtain ⟨u2, w2, h2, hc⟩ := bind_ok hb
    obtain ⟨u3, w3, h3, hd⟩ := bind_ok hc
    clear h hb hc
    rw [getRS_run] at h1
    injection h1 with hr1 hw1
    subst hw1
    rw [setStop_run] at h2
    injection h2 with _ hw2
    subst hw2
    injection hd with hr hw
    subst hr hw
    have := (emit_rs ..).ok h3
    refine ⟨fun _ => ?_, fun h => by cases h⟩
    show (gRS w3).lastStop = _
    rw [this]; rfl
  | abort =>
    simp only at h
    obtain ⟨u1, w1, h1, hb⟩ := bind_ok h
    injection hb with hr hw
    subst hr hw
    exact ⟨(fun h => by cases h), fun _ => emitAbortedOnce_ok h1⟩
  | other => cases h

theorem sleepAction_post (cfg : Cfg) (tl : Bool) (a s : Nat) (ctx : BackoffCtx) :
    Post SleepPost (sleepAction cfg tl a s ctx) := by
  refine ⟨fun w r w' h => ?_⟩
  unfold sleepAction at h
  cases hh : cfg.handler with
  | none =>
    rw [hh] at h
    simp only at h
    obtain ⟨u1, w1, _, hb⟩ := bind_ok h
    obtain ⟨u2, w2, _, hc⟩ := bind_ok hb
    injection hc with hr hw
    subst hr
    exact SleepPost.sleep _
  | some lvl =>
    rw [hh] at h
    simp only at h
    obtain ⟨act, w1, _, hb⟩ := bind_ok h
    obtain ⟨r1, w2, h2, hc⟩ := bind_ok hb
    have hp := (handleSleepDecision_post ..).ok _ _ _ h2
    by_cases hr : r1 = .sleep
    · rw [if_pos hr] at hc
      obtain ⟨u3, w3, _, hd⟩ := bind_ok hc
      obtain ⟨u4, w4, _, he⟩ := bind_ok hd
      injection he with hr' hw
      subst hr' hr
      exact SleepPost.sleep _
    · rw [if_neg hr] at hc
      injection hc with hr' hw
      subst hr' hw
      exact hp

/-- what `_finalize_attempt` / `_sync_failure_outcome` guarantee about the `_AttemptOutcome` they build -/
structure DecFacts (o : AOutcome) (r : RState) : Prop where
  notSuccess : o.decision ≠ .success
  aborted : o.decision = .aborted → r.lastStop = some .aborted
  scheduled : o.decision = .scheduled → o.stop = some .scheduled ∧ r.lastStop = some .scheduled
  raise : o.decision = .raise → o.stop = r.lastStop ∧ ∃ s, r.lastStop = some s ∧ s ≠ .aborted

theorem finalizeAttempt_ok {cfg : Cfg} {tl : Bool} {a : Nat} {d : Decision} {act : Option SleepDecision}
    {cls : Option Classification} {e : Option Exn} {res : Option Nat} {c : Option Cause}
    {w : World} {o : AOutcome} {w' : World}
    (h : finalizeAttempt cfg tl a d act cls e res c w = .ok o w')
    (hd : d = .raise → ∃ s, w.rs.lastStop = some s ∧ s ≠ .aborted)
    (ha : ∀ s, act = some s → SleepPost s w) : DecFacts o w'.rs := by
  unfold finalizeAttempt at h
  rw [bind_run, getRS_run] at h
  simp only at h
  cases d with
  | raise =>
    injection h with ho hw
    subst ho hw
    exact ⟨by simp, by simp, by simp, fun _ => ⟨rfl, hd rfl⟩⟩
  | retry sleep ctx =>
    simp only at h
    by_cases h1 : act = some .defer
    · rw [if_pos h1] at h
      injection h with ho hw
      subst ho hw
      exact ⟨by simp, by simp, fun _ => ⟨rfl, (ha _ h1).defer rfl⟩, by simp⟩
    · rw [if_neg h1] at h
      by_cases h2 : act = some .abort
      · rw [if_pos h2] at h
        injection h with ho hw
        subst ho hw
        exact ⟨by simp, fun _ => (ha _ h2).abort rfl, by simp, by simp⟩
      · rw [if_neg h2, bind_run, elapsed_run] at h
        simp only at h
        by_cases h3 : w.now - w.rs.start > cfg.deadline
        · rw [if_pos h3] at h
          obtain ⟨u1, w1, k1, hb⟩ := bind_ok h
          obtain ⟨u2, w2, k2, hc⟩ := bind_ok hb
          clear h hb
          rw [setStop_run] at k1
          injection k1 with _ hw1
          subst hw1
          injection hc with ho hw
          subst ho hw
          have := (emit_rs ..).ok k2
          have hls : w2.rs.lastStop = some .deadlineExceeded := by
            show (gRS w2).lastStop = _
            rw [this]; rfl
          exact ⟨by simp, by simp, by simp, fun _ => ⟨hls.symm, _, hls, by decide⟩⟩
        · rw [if_neg h3] at h
          by_cases h4 : a = cfg.maxAttempts
          · rw [if_pos h4] at h
            obtain ⟨u1, w1, k1, hb⟩ := bind_ok h
            obtain ⟨u2, w2, k2, hc⟩ := bind_ok hb
            clear h hb
            rw [setStop_run] at k1
            injection k1 with _ hw1
            subst hw1
            injection hc with ho hw
            subst ho hw
            have := (emit_rs ..).ok k2
            have hls : w2.rs.lastStop = some .maxAttemptsGlobal := by
              show (gRS w2).lastStop = _
              rw [this]; rfl
            exact ⟨by simp, by simp, by simp, fun _ => ⟨hls.symm, _, hls, by decide⟩⟩
          · rw [if_neg h4] at h
            injection h with ho hw
            subst ho hw
            exact ⟨by simp, by simp, by simp, by simp⟩

theorem failureOutcome_ok {cfg : Cfg} {tl : Bool} {a : Nat} {d : Decision}
    {cls : Option Classification} {e : Option Exn} {res : Option Nat} {c : Option Cause}
    {w : World} {o : AOutcome} {w' : World}
    (h : failureOutcome cfg tl a d cls e res c w = .ok o w')
    (hd : d = .raise → ∃ s, w.rs.lastStop = some s ∧ s ≠ .aborted) :
    DecFacts o w'.rs ∧ w'.rs.lastCause = w.rs.lastCause ∧ w'.rs.lastExc = w.rs.lastExc := by
  have hk := (failureOutcome_ce ..).ok h
  refine ⟨?_, congrArg Prod.fst hk, congrArg Prod.snd hk⟩
  unfold failureOutcome at h
  cases d with
  | raise =>
    exact finalizeAttempt_ok h hd (fun s hs => by cases hs)
  | retry sleep ctx =>
    simp only at h
    obtain ⟨act, w1, h1, hb⟩ := bind_ok h
    have hp := (sleepAction_post ..).ok _ _ _ h1
    exact finalizeAttempt_ok hb (fun hh => by cases hh) (fun s hs => by cases hs; exact hp)

theorem emitMaxAttemptsExceeded_ok {cfg : Cfg} {tl : Bool} {w : World} {u : Unit} {w' : World}
    (h : emitMaxAttemptsExceeded cfg tl w = .ok u w') :
    w'.rs.lastStop = some .maxAttemptsGlobal ∧ w'.rs.lastCause = w.rs.lastCause ∧
      w'.rs.lastExc = w.rs.lastExc := by
  have hk := (emitMaxAttemptsExceeded_ce ..).ok h
  refine ⟨?_, congrArg Prod.fst hk, congrArg Prod.snd hk⟩
  unfold emitMaxAttemptsExceeded at h
  obtain ⟨r1, w1, _, hb⟩ := bind_ok h
  obtain ⟨u2, w2, _, hc⟩ := bind_ok hb
  rw [setStop_run] at hc
  injection hc with _ hw
  subst hw
  rfl

end Redress
