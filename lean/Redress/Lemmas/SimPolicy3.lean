/-
  Redress.Lemmas.SimPolicy3 — Policy.call vs Policy.execute (C12, T3), part 3: assembling the cases;
  admission by the breaker; `ensure_settled`.
-/
import Redress.Lemmas.SimPolicy2

open Std.Do

namespace Redress
open Twin Retry Policy

/-- after admission: `Policy.call`'s `try: retry.call(); record_success() except …` vs
    `_execute_with_retry` -/
theorem mid_rel {cfg : Cfg} (hret : cfg.hasRetry = true) (hs : cfg.attemptStart = none)
    (he : cfg.attemptEnd = none) (hmax : 0 < cfg.maxAttempts) (w : World) (hxs : w.xc.settled = false)
    (hadm : ∀ bc, cfg.breaker = some bc → w.xc.admitted = true)
    (H : PolHyp cfg (callMid cfg w)) : PolRel cfg (callMid cfg w) (execMid cfg w) := by
  have hgrow : ∀ y ∈ (finalWorld (runCall cfg w)).trace, y ∈ (finalWorld (callMid cfg w)).trace := by
    intro y hy
    unfold callMid
    apply grows_after_tryCatch (fun e => callLadder_grows hret e)
    exact grows_after_bind (fun v => Grows.bind (recordSuccess_grows cfg) (fun _ => Grows.pure v)) w y hy
  have henvL := H.env.mono hgrow
  have hF := run_rel hs he w henvL
  have hxc : (finalWorld (runCall cfg w)).xc = w.xc := xc_of_ext (fun w0 => runCall_ext w0 cfg) w
  cases hc : runCall cfg w with
  | ok v wa =>
    cases hx : runExecute cfg w with
    | error e wb => rw [hc, hx] at hF; exact hF.elim
    | ok o wb =>
      rw [hc, hx] at hF
      rw [callMid_ok hc] at H ⊢
      rw [execMid_ok hx]
      exact mid_caseA hret hF.1 hF.2 H
  | error e wa =>
    rw [hc] at hxc
    cases hx : runExecute cfg w with
    | ok o wb =>
      rw [hc, hx] at hF
      obtain ⟨hπ, hd, hok, hlc, hk⟩ := hF
      rw [callMid_err hc] at H ⊢
      rw [execMid_ok hx]
      rcases hk with ⟨hab, hst⟩ | ⟨⟨f, rfl, hfl⟩, hst⟩ | ⟨hop, hle, hst⟩ | ⟨_, hm0⟩
      · exact mid_caseB1 hret hπ hd hok hab hst
      · exact mid_caseB2 hπ hd hok (hlc.trans hfl.symm) hst
      · exact mid_caseB3 hret hπ hd hok hlc hop hle hst H
      · omega
    | error e' wb =>
      rw [hc, hx] at hF
      obtain ⟨hπ, rfl⟩ := hF
      rw [callMid_err hc, execMid_err hx]
      have hxc' : wa.xc = w.xc := hxc
      exact mid_caseC hret hπ (by rw [hxc']; exact hxs) (fun bc hb => by rw [hxc']; exact hadm bc hb)

/-! ### admission -/

theorem callAdmitted_hret {cfg : Cfg} (hret : cfg.hasRetry = true) :
    callAdmitted cfg = (do checkBreaker cfg; callMid cfg) := by
  unfold callAdmitted callMid
  simp [hret]

theorem executeAdmitted2_hret {cfg : Cfg} (hret : cfg.hasRetry = true) :
    executeAdmitted2 cfg = execMid cfg := by
  unfold executeAdmitted2
  simp [hret]
  rfl

theorem PRel.refl (w : World) : PRel w w := ⟨rfl, rfl, rfl, rfl, rfl, rfl, rfl⟩

theorem emitBreakerEvent_xc (cfg : Cfg) (ev : Option Event) (st : CState) (k : Option EClass) :
    Keep (fun w => w.xc) (emitBreakerEvent cfg ev st k) := by
  unfold emitBreakerEvent
  split
  · exact Keep.pure _ _
  · dsimp only
    unfold askMetric askLog
    keep [swallow_keep]

/-- `Policy.call` vs `Policy.execute` between `ExecutionContext` creation and `ensure_settled` -/
theorem admitted_rel {cfg : Cfg} (hret : cfg.hasRetry = true) (hs : cfg.attemptStart = none)
    (he : cfg.attemptEnd = none) (hmax : 0 < cfg.maxAttempts) (w : World)
    (hx0 : w.xc.settled = false)
    (H : PolHyp cfg (callAdmitted cfg w)) : PolRel cfg (callAdmitted cfg w) (executeAdmitted cfg w) := by
  revert H
  rw [callAdmitted_hret hret]
  unfold executeAdmitted checkBreaker
  cases hb : cfg.breaker with
  | none =>
    simp only [bind_run, pure_run]
    rw [executeAdmitted2_hret hret]
    intro H
    exact mid_rel hret hs he hmax w hx0 (fun bc h => by rw [hb] at h; cases h) H
  | some bc =>
    have hba : ∃ d w2, breakerAllow bc w = .ok d w2 ∧ w2.xc.settled = false ∧ w2.xc.admitted = d.1 :=
      ⟨_, _, rfl, hx0, rfl⟩
    obtain ⟨d, w2, hba1, hba2, hba3⟩ := hba
    simp only [bind_run, hba1]
    cases hE : emitBreakerEvent cfg d.2.2 d.2.1 none w2 with
    | error e w3 =>
      intro _
      exact ⟨(PRel.refl _), rfl⟩
    | ok u w3 =>
      have hxc3 : w3.xc = w2.xc := (emitBreakerEvent_xc cfg d.2.2 d.2.1 none).ok hE
      simp only
      by_cases hd1 : d.1 = true
      · simp only [hd1, if_true, pure_run]
        rw [executeAdmitted2_hret hret]
        intro H
        exact mid_rel hret hs he hmax w3 (by rw [hxc3]; exact hba2)
          (fun _ _ => by rw [hxc3, hba3]; exact hd1) H
      · simp only [hd1, Bool.false_eq_true, if_false, throw_run]
        intro _
        unfold policyOutcome
        simp only [bind_run, pure_run]
        exact ⟨PRel.refl _, by simp [deliverRelated, Exn.ref]⟩

/-- `Policy.call` vs `Policy.execute` -/
theorem policy_run_call (cfg : Cfg) (w : World) :
    Policy.call cfg w = (match callAdmitted cfg { w with xc := { start := w.now } } with
      | .ok a w1 => .ok a (settle cfg w1)
      | .error e w1 => .error e (settle cfg w1)) := by
  unfold Policy.call
  rw [bind_run, initCtx_run]
  simp only
  rw [withFinally_settle]
  cases callAdmitted cfg _ <;> rfl

theorem policy_run_execute (cfg : Cfg) (w : World) :
    Policy.execute cfg w = (match executeAdmitted cfg { w with xc := { start := w.now } } with
      | .ok a w1 => .ok a (settle cfg w1)
      | .error e w1 => .error e (settle cfg w1)) := by
  unfold Policy.execute
  rw [bind_run, initCtx_run]
  simp only
  rw [withFinally_settle]
  cases executeAdmitted cfg _ <;> rfl

theorem settle_rs (cfg : Cfg) (w : World) : (settle cfg w).rs = w.rs := by
  unfold settle cancelW
  split
  · cases cfg.breaker <;> rfl
  · rfl

theorem settle_filter (cfg : Cfg) (w : World) :
    (settle cfg w).trace.filter (fun y => !isInternal y.1) = w.trace.filter (fun y => !isInternal y.1) := by
  unfold settle
  split
  · exact cancelW_filter cfg w
  · rfl

theorem HookOK.mono {t t' : List (Req × Ans)} (h : HookOK t') (hs : ∀ x ∈ t, x ∈ t') : HookOK t :=
  fun x hx => h x (hs x hx)

end Redress
