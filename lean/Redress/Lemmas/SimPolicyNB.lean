/-
  Redress.Lemmas.SimPolicyNB — a Policy without a breaker does what its Retry does (C12, T2):
  run equations of `Policy.call` / `Policy.execute` for `cfg.breaker = none`, `cfg.hasRetry = true`.
-/
import Redress.Lemmas.SimPolicy3

namespace Redress
open Twin Retry Policy

/-- the exceptions `_handle_exception_call` classifies for the breaker -/
def needsBreakerClass (e : Exn) : Bool :=
  e.isException && !e.isAbort && !e.isExhausted && !e.isCircuitOpen

/-- `Policy.call` / `Policy.execute` classifying the propagating exception once more (for a breaker that
    is not there): the class is discarded, but a faulty classifier replaces the exception -/
def classifyAgain (e : Exn) (w : World) : Exn × World :=
  match callClassifier e w with
  | .ok _ w2 => (e, w2)
  | .error e2 w2 => (e2, w2)

theorem settle_none {cfg : Cfg} (hb : cfg.breaker = none) (w : World) : settle cfg w = w := by
  unfold settle
  split
  · exact cancelW_none hb w
  · rfl

theorem handleExceptionCall_nb {cfg : Cfg} (hret : cfg.hasRetry = true) (hb : cfg.breaker = none)
    (e : Exn) (b : Bool) (hco : e.isCircuitOpen = false) (w : World) :
    handleExceptionCall cfg e b w = (match callClassifier e w with
      | .ok _ w2 => .ok ⟨⟩ w2
      | .error e2 w2 => .error e2 w2) := by
  rw [handleExceptionCall_hret hret]
  simp only [hco, Bool.false_eq_true, if_false]
  unfold classifyForBreaker
  simp only [hret, if_true, bind_run, pure_run, recordFailure_none hb]
  cases callClassifier e w <;> rfl

theorem callLadder_nb {cfg : Cfg} (hret : cfg.hasRetry = true) (hb : cfg.breaker = none) (e : Exn) (w : World) :
    callLadder cfg e w = (if needsBreakerClass e = true then
      .error (classifyAgain e w).1 (classifyAgain e w).2 else .error e w) := by
  unfold needsBreakerClass classifyAgain
  by_cases h1 : e.isException = true
  · by_cases h2 : e.isAbort = true
    · rw [callLadder_abort hret h2, cancelW_none hb]
      simp [h2]
    · have h2' : e.isAbort = false := by simpa using h2
      by_cases h3 : e.isExhausted = true
      · rw [callLadder_exhausted h3, seqThrow_run]
        unfold handleExhaustedCall
        rw [recordFailure_none hb]
        simp [h3]
        rfl
      · have h3' : e.isExhausted = false := by simpa using h3
        rw [callLadder_exception h1 h2' h3', seqThrow_run]
        by_cases h4 : e.isCircuitOpen = true
        · rw [handleExceptionCall_hret hret]
          simp [h4]
          rfl
        · have h4' : e.isCircuitOpen = false := by simpa using h4
          rw [handleExceptionCall_nb hret hb e true h4']
          simp only [h1, h2', h3', h4', Bool.not_false, Bool.and_self, if_true]
          cases callClassifier e w <;> rfl
  · have h1' : e.isException = false := by simpa using h1
    obtain ⟨w', q1, q2⟩ := callLadder_base (cfg := cfg) h1' w
    rw [q1]
    simp only [h1', Bool.false_and, Bool.false_eq_true, if_false]
    rcases q2 with rfl | rfl
    · rw [cancelW_none hb]
    · rfl

theorem executeLadder_nb {cfg : Cfg} (hret : cfg.hasRetry = true) (hb : cfg.breaker = none) (e : Exn) (w : World) :
    executeLadder cfg e w = (if needsBreakerClass e = true then
      .error (classifyAgain e w).1 (classifyAgain e w).2 else .error e w) := by
  unfold needsBreakerClass classifyAgain
  by_cases h1 : e.isException = true
  · by_cases h2 : e.isAbort = true
    · rw [executeLadder_abort h2, cancelW_none hb]
      simp [h2]
    · have h2' : e.isAbort = false := by simpa using h2
      by_cases h3 : e.isExhausted = true
      · rw [executeLadder_exhausted h3, seqThrow_run]
        unfold handleExhaustedCall
        rw [recordFailure_none hb]
        simp [h3]
        rfl
      · have h3' : e.isExhausted = false := by simpa using h3
        rw [executeLadder_exception h1 h2' h3', seqThrow_run]
        by_cases h4 : e.isCircuitOpen = true
        · rw [handleExceptionCall_hret hret]
          simp [h4]
          rfl
        · have h4' : e.isCircuitOpen = false := by simpa using h4
          rw [handleExceptionCall_nb hret hb e false h4']
          simp only [h1, h2', h3', h4', Bool.not_false, Bool.and_self, if_true]
          cases callClassifier e w <;> rfl
  · have h1' : e.isException = false := by simpa using h1
    rw [executeLadder_base h1']
    simp only [h1', Bool.false_and, Bool.false_eq_true, if_false]

/-- `Policy.call` without a breaker -/
theorem policyCall_nb {cfg : Cfg} (hret : cfg.hasRetry = true) (hb : cfg.breaker = none) (w : World) :
    Policy.call cfg w = (match runCall cfg { w with xc := { start := w.now } } with
      | .ok v wa => .ok v wa
      | .error e wa => callLadder cfg e wa) := by
  rw [policy_run_call, callAdmitted_hret hret]
  unfold checkBreaker
  rw [hb]
  simp only [bind_run, pure_run]
  cases hc : runCall cfg { w with xc := { start := w.now } } with
  | ok v wa =>
    rw [callMid_ok hc, recordSuccess_none hb]
    simp only [pure_run, settle_none hb]
  | error e wa =>
    rw [callMid_err hc]
    simp only
    cases callLadder cfg e wa <;> simp only [settle_none hb]

/-- `Policy.execute` without a breaker -/
theorem policyExecute_nb {cfg : Cfg} (hret : cfg.hasRetry = true) (hb : cfg.breaker = none) (w : World) :
    Policy.execute cfg w = (match runExecute cfg { w with xc := { start := w.now } } with
      | .ok o wb => .ok o wb
      | .error e wb => (match executeLadder cfg e wb with
        | .ok o w1 => .ok o w1
        | .error e2 w1 => .error e2 w1)) := by
  rw [policy_run_execute]
  unfold executeAdmitted
  rw [hb]
  simp only
  rw [executeAdmitted2_hret hret]
  cases hx : runExecute cfg { w with xc := { start := w.now } } with
  | ok o wb =>
    rw [execMid_ok hx]
    unfold execPost
    rw [hb]
    simp only [pure_run, settle_none hb]
  | error e wb =>
    rw [execMid_err hx]
    simp only
    cases executeLadder cfg e wb with
    | ok o w1 =>
      unfold execPost
      rw [hb]
      simp only [pure_run, settle_none hb]
    | error e2 w1 => simp only [settle_none hb]

/-- what the extra classification does to the world: one `classify` exchange, nothing else observable -/
theorem classifyAgain_spec (e : Exn) (w : World) :
    ∃ a, (classifyAgain e w).2.trace = (.classify e.ref, a) :: w.trace ∧
      (classifyAgain e w).2.rs = w.rs ∧ (classifyAgain e w).2.budget = w.budget ∧
      (classifyAgain e w).2.breaker = w.breaker ∧ (classifyAgain e w).2.opCalls = w.opCalls ∧
      (classifyAgain e w).2.xc = w.xc ∧ (classifyAgain e w).2.now = w.now + a.dur ∧
      ((∃ c d, a = .klass c d) → (classifyAgain e w).1 = e) := by
  unfold classifyAgain callClassifier
  rw [bind_run]
  cases hw : w.answers with
  | nil =>
    rw [ask_nil _ w hw]
    exact ⟨_, rfl, rfl, rfl, rfl, rfl, rfl, rfl, fun ⟨c, d, h⟩ => by cases h⟩
  | cons a rest =>
    rw [ask_cons _ w a rest hw]
    cases a with
    | klass c d => exact ⟨_, rfl, rfl, rfl, rfl, rfl, rfl, rfl, fun _ => rfl⟩
    | _ => exact ⟨_, rfl, rfl, rfl, rfl, rfl, rfl, rfl, fun ⟨c, d, h⟩ => by cases h⟩

end Redress
