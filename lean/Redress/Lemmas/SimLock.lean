/-
  Redress.Lemmas.SimLock — call() and execute() in lock step (C12), part 1: the environment assumption
  `Env`, the relation between the results of one attempt, and the delivery step.
-/
import Redress.Lemmas.SimFacts
import Redress.Lemmas.Footprint

namespace Redress
open Twin Retry

/-! ### the environment C12 speaks about, as a predicate on the call() log -/

/-- What C12 assumes about one exchange of the call() log:
    * the operation does not raise the *library's own* `RuntimeError("Retry attempts exhausted …")` /
      `CircuitOpenError(state)` objects (environment-made exceptions of those types are `ordinary` /
      `circuitOpen id`);
    * a raising abort predicate raises something both modes re-raise (a BaseException-only kind or a
      `RetryExhaustedError`) — an `Exception` raised by `abort_if` before the operation runs is a failed
      attempt for execute() only (DESIGN §6.2), an `AbortRetryError` raised by it ends execute() with an
      `aborted` event that call() does not emit;
    * no other callback raises `AbortRetryError` itself (execute() turns that into an aborted outcome with
      an `aborted` event once the operation has returned; call() re-raises it without the event). -/
def okX : Req × Ans → Prop
  | (.op _, .raise e _) => e ≠ .libRuntimeError ∧ ∀ st, e ≠ .libCircuitOpen st
  | (.abortIf, .raise e _) => e.isException = false ∨ e.isExhausted = true
  | (_, .raise e _) => e.isAbort = false
  | _ => True

def Env (t : List (Req × Ans)) : Prop := ∀ x ∈ t, okX x

theorem Env.mono {t t' : List (Req × Ans)} (h : Env t') (hs : ∀ x ∈ t, x ∈ t') : Env t :=
  fun x hx => h x (hs x hx)

theorem okX_nonop {r : Req} {e : Exn} {d : Nat} (hr : isOp r = false) (h : okX (r, .raise e d)) :
    e.isAbort = false := by
  cases r <;> simp only [okX, isOp] at h hr <;> (try exact h)
  all_goals (cases e <;> simp_all [Exn.isException, Exn.isExhausted, Exn.isAbort])

theorem okX_abortIf {e : Exn} {d : Nat} (h : okX (.abortIf, .raise e d)) :
    e.isException = false ∨ e.isExhausted = true := h

theorem okX_op {n : Nat} {e : Exn} {d : Nat} (h : okX (.op n, .raise e d)) :
    e ≠ .libRuntimeError ∧ ∀ st, e ≠ .libCircuitOpen st := h

/-- under `Env`, an abort leaving a shared procedure is the library's own, after a poll -/
theorem AbOK.resolve {e : Exn} {w : World} (h : AbOK e w) (henv : Env w.trace) (he : e.isAbort = true) :
    e = .libAbort ∧ w.rs.lastStop = some .aborted := by
  rcases h he with ⟨r, d, hm, hr⟩ | h
  · have := okX_nonop hr (henv _ hm)
    rw [this] at he; cases he
  · exact h

/-! ### result delivery: `deliverRelated`, clause by clause -/

/-- exceptions for which `deliverRelated` uses its general clause "the operation's last exception" -/
def Plain : Exn → Prop
  | .libExhausted _ | .libAbort | .abort _ | .libCircuitOpen _ | .libRuntimeError => False
  | _ => True

theorem plain_of {e : Exn} (h1 : e.isAbort = false) (h2 : e.isExhausted = false)
    (h3 : e ≠ .libRuntimeError) (h4 : ∀ st, e ≠ .libCircuitOpen st) : Plain e := by
  cases e <;> simp_all [Plain, Exn.isAbort, Exn.isExhausted]

theorem dr_plain {e : Exn} (hp : Plain e) (o : Outcome) (t : List TimelineEv) :
    deliverRelated (.raised e) (.outcome o t)
      = (!o.ok && o.cause == some .exception && o.lastExc == some e.ref) := by
  cases e <;> first | rfl | exact hp.elim

/-- what the operation raised, when it is re-raised by call() as "the last exception" -/
def OpExn (e : Exn) : Prop :=
  Plain e ∧ e.isException = true ∧ e.isAbort = false ∧ e.isExhausted = false

/-- how call() ended when execute() returned a failed outcome `o` (`w` = call()'s final world; `m` = the
    configured `max_attempts`, for the "nothing was ever attempted" case) -/
def ErrKind (m : Nat) (e : Exn) (o : Outcome) (w : World) : Prop :=
  o.ok = false ∧ o.lastClass = w.rs.lastClass ∧
  ((e.isAbort = true ∧ o.stop = some .aborted) ∨
   ((∃ f, e = .libExhausted f ∧ f.lastClass = w.rs.lastClass) ∧ o.stop ≠ some .aborted) ∨
   (OpExn e ∧ w.rs.lastExc = some e ∧ o.stop ≠ some .aborted) ∨
   (e = .libRuntimeError ∧ m = 0))

theorem ErrKind.mono {m : Nat} {e : Exn} {o : Outcome} {w : World} (h : ErrKind 1 e o w) : ErrKind m e o w := by
  obtain ⟨h1, h2, h3⟩ := h
  refine ⟨h1, h2, ?_⟩
  rcases h3 with h | h | h | ⟨_, h⟩
  · exact Or.inl h
  · exact Or.inr (Or.inl h)
  · exact Or.inr (Or.inr (Or.inl h))
  · cases h

theorem ErrKind.congr {m : Nat} {e : Exn} {o : Outcome} {w w' : World} (hr : w'.rs = w.rs)
    (h : ErrKind m e o w) : ErrKind m e o w' := by
  unfold ErrKind at *
  rw [hr]; exact h

theorem dr_tl (rc : Res) (o : Outcome) (t : List TimelineEv) :
    deliverRelated rc (.outcome o t) = deliverRelated rc (.outcome o []) := by
  cases rc with
  | raised e => cases e <;> rfl
  | _ => rfl

theorem dr_raised (e e' : Exn) : deliverRelated (.raised e) (.raised e') = (e == e') := by
  cases e <;> rfl

theorem buildOutcome_run (ok : Bool) (value : Option Nat) (n : Nat) (ns : Option Nat) (w : World) :
    buildOutcome ok value n ns w = .ok
      { ok, value := if ok then value else none,
        stop := if ok then none else w.rs.lastStop,
        attempts := n,
        lastClass := if ok then none else w.rs.lastClass,
        lastExc := if !ok && w.rs.lastCause = some .exception then w.rs.lastExc.map Exn.ref else none,
        lastResult := if !ok && w.rs.lastCause = some .result then w.rs.lastResult else none,
        cause := if ok then none else w.rs.lastCause,
        elapsed := w.now - w.rs.start, nextSleep := ns } w := rfl

/-! ### the relation between the results of one attempt -/

/-- what a continuing attempt leaves behind for `raise_exhausted_call` / `build_exhausted_outcome` -/
def Carry (w : World) : Prop :=
  w.rs.lastCause = some .result ∨ (w.rs.lastCause = some .exception ∧ ∃ e, w.rs.lastExc = some e ∧ OpExn e)

/-- call-mode result of an attempt vs execute-mode result of the same attempt (`a` = attempt number) -/
def AttemptRel (a : Nat) (rc : EStateM.Result Exn World (Option Nat))
    (re : EStateM.Result Exn World (Option Outcome)) : Prop :=
  match rc, re with
  | .ok none wc, .ok none we => π we = π wc ∧ we.attempts = a ∧ Carry wc
  | .ok (some v) wc, .ok (some o) we => π we = π wc ∧ deliverRelated (.ret v) (.outcome o []) = true
  | .error e wc, .ok (some o) we =>
    π we = π wc ∧ deliverRelated (.raised e) (.outcome o []) = true ∧ ErrKind 1 e o wc
  | .error e wc, .error e' we => π we = π wc ∧ e' = e ∧ AbOK e wc
  | _, _ => False

/-- …provided the call-mode log satisfies the environment assumption -/
def ARel (a : Nat) (rc : EStateM.Result Exn World (Option Nat))
    (re : EStateM.Result Exn World (Option Outcome)) : Prop :=
  Env (finalWorld rc).trace → AttemptRel a rc re

/-- one shared step, then the rest -/
theorem Sim.bindA {x x' : M α} (hs : Sim x x') {kc : α → M (Option Nat)} {ke : α → M (Option Outcome)}
    {a : Nat} {we wc : World} (hπ : π we = π wc)
    (hok : ∀ v we1 wc1, x we = .ok v we1 → x' wc = .ok v wc1 → π we1 = π wc1 →
      we1.attempts = we.attempts → ARel a (kc v wc1) (ke v we1)) :
    ARel a ((x' >>= kc) wc) ((x >>= ke) we) := by
  rw [bind_run, bind_run]
  rcases hs.step hπ with ⟨v, we1, wc1, k1, k2, k3, k4⟩ | ⟨e, we1, wc1, k1, k2, k3, k4, k5⟩
  · rw [k1, k2]
    exact hok v we1 wc1 k1 k2 k3 k4
  · rw [k1, k2]
    intro _
    exact ⟨k3, rfl, k5⟩

/-! ### procedures that do nothing observable without attempt hooks -/

theorem callAttemptStart_none {cfg : Cfg} (hs : cfg.attemptStart = none) (a : Nat) :
    callAttemptStart cfg a = pure () := by
  unfold callAttemptStart
  rw [hs]

theorem callAttemptEnd_none {cfg : Cfg} (he : cfg.attemptEnd = none) (a : Nat) (cls : Option Classification)
    (e : Option Exn) (r : Option Nat) (d : AttemptDecision) (st : Option StopReason) (c : Option Cause)
    (sl : Option Nat) : callAttemptEnd cfg a cls e r d st c sl = pure () := by
  unfold callAttemptEnd
  rw [he]

theorem callAttemptEndFromOutcome_none {cfg : Cfg} (he : cfg.attemptEnd = none) (a : Nat) (o : AOutcome) :
    callAttemptEndFromOutcome cfg a o = pure () := by
  unfold callAttemptEndFromOutcome
  exact callAttemptEnd_none he ..

theorem handleAbortAttemptEnd_run {cfg : Cfg} (he : cfg.attemptEnd = none) (a : Nat) (e : Exn) (w : World) :
    ∃ w', handleAbortAttemptEnd cfg a e w = .ok ⟨⟩ w' ∧ π w' = π w ∧ w'.attempts = w.attempts := by
  unfold handleAbortAttemptEnd
  rw [bind_run, getAS_run]
  simp only
  split
  · rw [callAttemptEnd_none he, bind_run, pure_run]
    exact ⟨_, rfl, rfl, rfl⟩
  · exact ⟨_, rfl, rfl, rfl⟩

/-- the abort exit of execute() when the abort is already recorded: no event, an aborted outcome -/
theorem execAbortExit_noop {cfg : Cfg} (he : cfg.attemptEnd = none) (tl : Bool) (a : Nat) (e : Exn)
    (w : World) (hls : w.rs.lastStop = some .aborted) :
    ∃ o w', execAbortExit cfg tl a e w = .ok (some o) w' ∧ π w' = π w ∧
      o.ok = false ∧ o.stop = some .aborted ∧ o.lastClass = w.rs.lastClass := by
  obtain ⟨w1, h1, h2, h3⟩ := handleAbortAttemptEnd_run he a e w
  have hls1 : w1.rs.lastStop = some .aborted := by rw [π_rs h2]; exact hls
  unfold execAbortExit
  rw [bind_run, h1]
  simp only
  rw [bind_run, get_run]
  simp only
  unfold abortOutcome
  rw [bind_run, bind_run, emitAbortedOnce_noop _ _ _ _ hls1]
  simp only [buildOutcome_run, pure_run]
  exact ⟨_, _, rfl, h2, rfl, by simp [hls1], by simp [π_rs h2]⟩

/-! ### delivery: `deliverCall` vs `deliverExecute` -/

theorem deliver_rel {cfg : Cfg} (tl : Bool) {a : Nat} {o : AOutcome} {r re : RState} {fr : Bool}
    {orig : Option Exn} {fb : ExhaustedFields} {we wc : World}
    (hπ : π we = π wc) (hatt : we.attempts = a) (hr : wc.rs = r) (hrr : re = r) (hf : DecFacts o r)
    (hcr : fr = true → r.lastCause = some .result)
    (hce : fr = false → r.lastCause = some .exception ∧ ∃ e, orig = some e ∧ r.lastExc = some e ∧ OpExn e) :
    AttemptRel a (deliverCall (determineAction o r a fr) orig fb wc)
      (deliverExecute cfg tl (determineAction o re a fr) o we) := by
  subst hrr
  have hre : we.rs = re := (π_rs hπ).trans hr
  unfold deliverExecute
  rw [bind_run, get_run]
  simp only
  cases hdec : o.decision with
  | retry =>
    simp only [determineAction, hdec, deliverCall]
    refine ⟨hπ, hatt, ?_⟩
    cases fr with
    | true => exact Or.inl (by rw [hr]; exact hcr rfl)
    | false =>
      obtain ⟨h1, e, _, h3, h4⟩ := hce rfl
      exact Or.inr ⟨by rw [hr]; exact h1, e, by rw [hr]; exact h3, h4⟩
  | aborted =>
    simp only [determineAction, hdec, deliverCall]
    have hls : we.rs.lastStop = some .aborted := by rw [hre]; exact hf.aborted hdec
    unfold abortOutcome
    rw [bind_run, bind_run, emitAbortedOnce_noop _ _ _ _ hls]
    simp only [buildOutcome_run, pure_run, throw_run]
    exact ⟨hπ, by simp [deliverRelated, hls],
      rfl, by simp [hre, hr], Or.inl ⟨rfl, by simp [hls]⟩⟩
  | scheduled =>
    simp only [determineAction, hdec, deliverCall]
    obtain ⟨hs1, hs2⟩ := hf.scheduled hdec
    simp only [bind_run, buildOutcome_run, pure_run, throw_run]
    refine ⟨hπ, ?_, rfl, by simp [hre, hr],
      Or.inr (Or.inl ⟨⟨_, rfl, by simp [hr]⟩, by simp [hre, hs2]⟩)⟩
    cases fr with
    | true =>
      have := hcr rfl
      simp [deliverRelated, hre, hs1, hs2, hatt, this]
    | false =>
      obtain ⟨h1, e, _, h3, _⟩ := hce rfl
      simp [deliverRelated, hre, hs1, hs2, hatt, h1, h3, determineAction.refOf]
  | raise =>
    obtain ⟨hs1, hs2⟩ := hf.raise hdec
    cases fr with
    | true =>
      simp only [determineAction, hdec, deliverCall, if_true]
      simp only [bind_run, buildOutcome_run, pure_run, throw_run]
      obtain ⟨s, hs, hsa⟩ := hs2
      refine ⟨hπ, ?_, rfl, by simp [hre, hr],
        Or.inr (Or.inl ⟨⟨_, rfl, by simp [hr]⟩, by simp [hre, hs, hsa]⟩)⟩
      have := hcr rfl
      simp [deliverRelated, hre, hs1, hs, hatt, this]
    | false =>
      obtain ⟨h1, e, he1, h3, h4⟩ := hce rfl
      simp only [determineAction, hdec, deliverCall, Bool.false_eq_true, if_false, he1]
      simp only [bind_run, buildOutcome_run, pure_run, throw_run]
      obtain ⟨s, hs, hsa⟩ := hs2
      refine ⟨hπ, ?_, rfl, by simp [hre, hr],
        Or.inr (Or.inr (Or.inl ⟨h4, by rw [hr]; exact h3, by simp [hre, hs, hsa]⟩))⟩
      rw [dr_plain h4.1]
      simp [hre, h1, h3]
  | success => exact absurd hdec hf.notSuccess

end Redress
