/-
  Redress.Lemmas.SimPolicy — Policy.call vs Policy.execute (C12, T3), with a retry loop (`cfg.hasRetry`).
  Part 1: run equations of the wrappers, the final relation, simulation / growth lemmas for the
  policy-level leaves.
-/
import Redress.Lemmas.SimLoop

namespace Redress
open Twin Retry Policy

/-! ### run equations of the wrappers -/

theorem initCtx_run (w : World) : initCtx w = .ok ⟨⟩ { w with xc := { start := w.now } } := rfl

/-- the world after `record_cancel` -/
def cancelW (cfg : Cfg) (w : World) : World :=
  match cfg.breaker with
  | none => w
  | some _ =>
    { w with breaker := Breaker.recordCancel w.breaker, xc := { w.xc with settled := true },
             trace := (Req.breakerCancel, Ans.recorded none (Breaker.recordCancel w.breaker).state) :: w.trace }

theorem recordCancel_run (cfg : Cfg) (w : World) : recordCancel cfg w = .ok ⟨⟩ (cancelW cfg w) := by
  unfold recordCancel cancelW
  cases cfg.breaker <;> rfl

/-- the world after `ensure_settled` -/
def settle (cfg : Cfg) (w : World) : World :=
  if (w.xc.admitted && !w.xc.settled) = true then cancelW cfg w else w

theorem ensureSettled_run (cfg : Cfg) (w : World) : ensureSettled cfg w = .ok ⟨⟩ (settle cfg w) := by
  unfold ensureSettled settle
  rw [bind_run, get_run]
  simp only
  split
  · exact recordCancel_run cfg w
  · rfl

theorem withFinally_settle (cfg : Cfg) (x : M α) (w : World) :
    withFinally x (ensureSettled cfg) w = (match x w with
      | .ok a w1 => .ok a (settle cfg w1)
      | .error e w1 => .error e (settle cfg w1)) := by
  unfold withFinally
  simp only [bind_run, tryCatch_run, ensureSettled_run, pure_run, throw_run]
  cases x w <;> rfl

/-! ### the final relation -/

/-- what T3 concludes about the two final worlds -/
structure PRel (we wc : World) : Prop where
  now : we.now = wc.now
  rs : we.rs = wc.rs
  budget : we.budget = wc.budget
  breaker : we.breaker = wc.breaker
  xc : we.xc = wc.xc
  opCalls : we.opCalls = wc.opCalls
  trace : projC12 we.trace = projC12 wc.trace

theorem PRel.of_pi {we wc : World} (h : π we = π wc) : PRel we wc := by
  obtain ⟨h1, h2, h3, h4, h5, h6, h7, h8, h9⟩ := (π_iff _ _).mp h
  exact ⟨h2, h4, h6, h7, h8, h5, by rw [h3]⟩

theorem projC12_cons (x : Req × Ans) (t : List (Req × Ans)) :
    projC12 (x :: t) = if keepC12 x.1 = true then x :: projC12 t else projC12 t := by
  unfold projC12
  rw [List.filter_cons]

theorem PRel.cancel {cfg : Cfg} {we wc : World} (h : PRel we wc) : PRel (cancelW cfg we) (cancelW cfg wc) := by
  unfold cancelW
  cases cfg.breaker with
  | none => exact h
  | some bc =>
    refine ⟨h.now, h.rs, h.budget, ?_, ?_, h.opCalls, ?_⟩
    · show Breaker.recordCancel we.breaker = Breaker.recordCancel wc.breaker
      rw [h.breaker]
    · show ({ we.xc with settled := true } : XCtx) = { wc.xc with settled := true }
      rw [h.xc]
    · show projC12 (_ :: we.trace) = projC12 (_ :: wc.trace)
      rw [projC12_cons, projC12_cons, h.trace, h.breaker]

theorem PRel.settle {cfg : Cfg} {we wc : World} (h : PRel we wc) : PRel (settle cfg we) (settle cfg wc) := by
  unfold Redress.settle
  rw [h.xc]
  split
  · exact h.cancel
  · exact h

/-- the results of `Policy.call` and `Policy.execute` (before the result is packaged by `runEntry`) -/
def PolRel (cfg : Cfg) (rc : EStateM.Result Exn World Nat) (re : EStateM.Result Exn World Outcome) : Prop :=
  match rc, re with
  | .ok v wc, .ok o we =>
    PRel (settle cfg we) (settle cfg wc) ∧ deliverRelated (.ret v) (.outcome o []) = true
  | .error e wc, .ok o we =>
    PRel (settle cfg we) (settle cfg wc) ∧ deliverRelated (.raised e) (.outcome o []) = true
  | .error e wc, .error e' we => PRel (settle cfg we) (settle cfg wc) ∧ e' = e
  | .ok _ _, .error _ _ => False

/-! ### simulation lemmas for the policy-level leaves (identical programs on both sides) -/

theorem emitBreakerEvent_sim (cfg : Cfg) (ev : Option Event) (st : CState) (k : Option EClass) :
    Sim (emitBreakerEvent cfg ev st k) (emitBreakerEvent cfg ev st k) := by
  unfold emitBreakerEvent
  split
  · exact Sim.pure _
  · dsimp only
    sim [askMetric_sim, askLog_sim, swallow_sim]

theorem recordSuccess_sim (cfg : Cfg) : Sim (Policy.recordSuccess cfg) (Policy.recordSuccess cfg) := by
  unfold Policy.recordSuccess
  split
  · exact Sim.pure _
  · refine ⟨fun we wc h => ?_⟩
    simp only [bind_run, get_run, set_run]
    obtain ⟨h1, h2, h3, h4, h5, h6, h7, h8, h9⟩ := (π_iff _ _).mp h
    rw [h7]
    refine (emitBreakerEvent_sim cfg _ _ none).run _ _ ?_
    exact (π_iff _ _).mpr ⟨h1, h2, by rw [h3], h4, h5, h6, rfl, by rw [h8], h9⟩

theorem recordFailureP_sim (cfg : Cfg) (k : EClass) :
    Sim (Policy.recordFailure cfg k) (Policy.recordFailure cfg k) := by
  unfold Policy.recordFailure
  split
  · exact Sim.pure _
  · refine ⟨fun we wc h => ?_⟩
    simp only [bind_run, get_run, set_run]
    obtain ⟨h1, h2, h3, h4, h5, h6, h7, h8, h9⟩ := (π_iff _ _).mp h
    rw [h7, h2]
    refine (emitBreakerEvent_sim cfg _ _ (some k)).run _ _ ?_
    exact (π_iff _ _).mpr ⟨h1, rfl, by rw [h3], h4, h5, h6, rfl, by rw [h8], h9⟩

theorem recordCancel_sim (cfg : Cfg) : Sim (recordCancel cfg) (recordCancel cfg) := by
  unfold recordCancel
  split
  · exact Sim.pure _
  · exact Sim.modify _ (fun _ => rfl) (fun _ => rfl)

theorem classifyForBreaker_sim (cfg : Cfg) (e : Exn) :
    Sim (classifyForBreaker cfg e) (classifyForBreaker cfg e) := by
  unfold classifyForBreaker
  sim [callClassifier_sim]

/-- with a retry loop, `_handle_exception_call` never runs the no-retry end hook -/
theorem handleExceptionCall_hret {cfg : Cfg} (hret : cfg.hasRetry = true) (e : Exn) (b : Bool) :
    handleExceptionCall cfg e b = (if e.isCircuitOpen = true then pure () else do
      let k ← classifyForBreaker cfg e
      Policy.recordFailure cfg k) := by
  unfold handleExceptionCall
  simp [hret]

theorem handleExceptionCall_sim {cfg : Cfg} (hret : cfg.hasRetry = true) (e : Exn) (b b' : Bool) :
    Sim (handleExceptionCall cfg e b) (handleExceptionCall cfg e b') := by
  rw [handleExceptionCall_hret hret, handleExceptionCall_hret hret]
  sim [classifyForBreaker_sim, recordFailureP_sim]

theorem handleAbortCall_hret {cfg : Cfg} (hret : cfg.hasRetry = true) (e : Exn) :
    handleAbortCall cfg e = (do pure (); recordCancel cfg) := by
  unfold handleAbortCall
  simp [hret]

/-! ### the log only grows (policy-level leaves) -/

structure Grows (x : M α) : Prop where
  le : ∀ w y, y ∈ w.trace → y ∈ (finalWorld (x w)).trace

theorem Grows.pure (a : α) : Grows (pure a : M α) := ⟨fun _ _ h => h⟩
theorem Grows.throw (e : Exn) : Grows (throw e : M α) := ⟨fun _ _ h => h⟩

theorem Grows.bind {x : M α} {f : α → M β} (hx : Grows x) (hf : ∀ a, Grows (f a)) : Grows (x >>= f) := by
  refine ⟨fun w y hy => ?_⟩
  rw [finalWorld_bind]
  have := hx.le w y hy
  cases hxw : x w with
  | ok a w1 => rw [hxw] at this; exact (hf a).le w1 y this
  | error e w1 => rw [hxw] at this; exact this

theorem Grows.tryC {x : M α} {h : Exn → M α} (hx : Grows x) (hh : ∀ e, Grows (h e)) :
    Grows (tryCatch x h : M α) := by
  refine ⟨fun w y hy => ?_⟩
  rw [tryCatch_run]
  have := hx.le w y hy
  cases hxw : x w with
  | ok a w1 => rw [hxw] at this; exact this
  | error e w1 => rw [hxw] at this; exact (hh e).le w1 y this

theorem Grows.ite {c : Prop} [Decidable c] {x y : M α} (hx : Grows x) (hy : Grows y) :
    Grows (if c then x else y) := by
  split <;> assumption

theorem Grows.ask (r : Req) : Grows (ask r) := by
  refine ⟨fun w y hy => ?_⟩
  cases hw : w.answers with
  | nil => rw [ask_nil r w hw]; exact List.mem_cons_of_mem _ hy
  | cons a rest =>
    rw [ask_cons r w a rest hw]
    cases a <;> exact List.mem_cons_of_mem _ hy

theorem Grows.askHook (r : Req) : Grows (askHook r) := by
  refine ⟨fun w y hy => ?_⟩
  cases hw : w.answers with
  | nil => rw [askHook_nil r w hw]; exact List.mem_cons_of_mem _ hy
  | cons a rest =>
    rw [askHook_cons r w a rest hw]
    unfold askHookStep
    generalize (if w.silent = true then a.silenced else a) = a'
    cases a' <;> exact List.mem_cons_of_mem _ hy

theorem Grows.modify (f : World → World) (hf : ∀ w y, y ∈ w.trace → y ∈ (f w).trace) :
    Grows (_root_.modify f : M PUnit) := ⟨fun w y hy => hf w y hy⟩

theorem Grows.getThen (k : World → M α) (hk : ∀ w, Grows (k w)) : Grows (get >>= k) := by
  refine ⟨fun w y hy => ?_⟩
  rw [bind_run, get_run]
  exact (hk w).le w y hy

/-- what follows a step only adds to the log -/
theorem grows_after_bind {x : M α} {f : α → M β} (hf : ∀ a, Grows (f a)) (w : World) :
    ∀ y ∈ (finalWorld (x w)).trace, y ∈ (finalWorld ((x >>= f) w)).trace := by
  intro y hy
  rw [finalWorld_bind]
  cases hxw : x w with
  | ok a w1 => rw [hxw] at hy; exact (hf a).le w1 y hy
  | error e w1 => rw [hxw] at hy; exact hy

theorem grows_after_tryCatch {x : M α} {h : Exn → M α} (hh : ∀ e, Grows (h e)) (w : World) :
    ∀ y ∈ (finalWorld (x w)).trace, y ∈ (finalWorld ((tryCatch x h : M α) w)).trace := by
  intro y hy
  rw [tryCatch_run]
  cases hxw : x w with
  | ok a w1 => rw [hxw] at hy; exact hy
  | error e w1 => rw [hxw] at hy; exact (hh e).le w1 y hy

syntax "grows" "[" ident,* "]" : tactic
macro_rules
  | `(tactic| grows [$ls,*]) => do
    let alts ← ls.getElems.mapM fun l => `(tacticSeq| with_reducible apply $l)
    `(tactic| repeat (first
        | with_reducible exact Grows.pure _
        | with_reducible exact Grows.throw _
        | with_reducible exact Grows.ask _
        | with_reducible exact Grows.askHook _
        | assumption
        $[| $alts]*
        | with_reducible apply Grows.bind
        | with_reducible apply Grows.tryC
        | with_reducible apply Grows.ite
        | (intro _)
        | split))

theorem swallow_grows (e : Exn) : Grows (swallowException e) := by
  unfold swallowException
  grows []

theorem emitBreakerEvent_grows (cfg : Cfg) (ev : Option Event) (st : CState) (k : Option EClass) :
    Grows (emitBreakerEvent cfg ev st k) := by
  unfold emitBreakerEvent
  split
  · exact Grows.pure _
  · dsimp only
    unfold askMetric askLog
    grows [swallow_grows]

theorem recordSuccess_grows (cfg : Cfg) : Grows (Policy.recordSuccess cfg) := by
  unfold Policy.recordSuccess
  split
  · exact Grows.pure _
  · refine ⟨fun w y hy => ?_⟩
    simp only [bind_run, get_run, set_run]
    exact (emitBreakerEvent_grows ..).le _ y (List.mem_cons_of_mem _ hy)

theorem recordFailureP_grows (cfg : Cfg) (k : EClass) : Grows (Policy.recordFailure cfg k) := by
  unfold Policy.recordFailure
  split
  · exact Grows.pure _
  · refine ⟨fun w y hy => ?_⟩
    simp only [bind_run, get_run, set_run]
    exact (emitBreakerEvent_grows ..).le _ y (List.mem_cons_of_mem _ hy)

theorem recordCancel_grows (cfg : Cfg) : Grows (recordCancel cfg) := by
  refine ⟨fun w y hy => ?_⟩
  rw [recordCancel_run]
  unfold cancelW
  cases cfg.breaker with
  | none => exact hy
  | some _ => exact List.mem_cons_of_mem _ hy

theorem settle_grows (cfg : Cfg) (w : World) : ∀ y ∈ w.trace, y ∈ (settle cfg w).trace := by
  intro y hy
  unfold settle
  split
  · have := (recordCancel_grows cfg).le w y hy
    rw [recordCancel_run] at this
    exact this
  · exact hy

theorem callLadder_grows {cfg : Cfg} (hret : cfg.hasRetry = true) (e : Exn) : Grows (callLadder cfg e) := by
  unfold callLadder
  rw [handleExceptionCall_hret hret, handleAbortCall_hret hret]
  unfold handleExhaustedCall classifyForBreaker callClassifier
  grows [recordCancel_grows, recordFailureP_grows]

/-! ### what a breaker event does to the log -/

/-- a metric / log request for one of the breaker's own events -/
def circuitHook : Req → Bool
  | .metric ev _ _ _ => FX.circuitEv ev
  | .log ev _ _ _ _ => FX.circuitEv ev
  | _ => false

/-- no hook that receives a `circuit_*` event raises a BaseException-only kind (C12 T3, hypothesis iii) -/
def HookOK (t : List (Req × Ans)) : Prop :=
  ∀ x ∈ t, circuitHook x.1 = true → ∀ e d, x.2 = .raise e d → e.isException = true

/-- one hook call site `try: hook(...) except Exception: pass` -/
theorem site_cases (r : Req) (w : World) :
    (∃ a w', (tryCatch (do let _ ← askHook r; pure ()) swallowException : M Unit) w = .ok ⟨⟩ w' ∧
        w'.trace = (r, a) :: w.trace) ∨
    (∃ e d w', (tryCatch (do let _ ← askHook r; pure ()) swallowException : M Unit) w = .error e w' ∧
        w'.trace = (r, .raise e d) :: w.trace ∧ e.isException = false) := by
  rw [tryCatch_run, bind_run]
  cases hw : w.answers with
  | nil =>
    rw [askHook_nil r w hw]
    exact Or.inr ⟨.stuck, 0, _, rfl, rfl, rfl⟩
  | cons a rest =>
    rw [askHook_cons r w a rest hw]
    unfold askHookStep
    generalize (if w.silent = true then a.silenced else a) = a'
    cases a' with
    | raise e d =>
      simp only
      unfold swallowException
      by_cases he : e.isException = true
      · rw [if_pos he]
        exact Or.inl ⟨_, _, rfl, rfl⟩
      · rw [if_neg he]
        exact Or.inr ⟨e, d, _, rfl, rfl, by simpa using he⟩
    | _ => exact Or.inl ⟨_, _, rfl, rfl⟩

theorem emitBreakerEvent_quiet (cfg : Cfg) (ev : Option Event) (st : CState) (k : Option EClass) (w : World)
    (h : ev = none ∨ (cfg.metric = false ∧ cfg.log = false)) :
    emitBreakerEvent cfg ev st k w = .ok ⟨⟩ w := by
  unfold emitBreakerEvent
  cases ev with
  | none => rfl
  | some ev' =>
    rcases h with h | ⟨h1, h2⟩
    · cases h
    · simp only [h1, h2, Bool.false_eq_true, if_false]
      rfl

/-- a breaker event with a hook configured: the newest exchange afterwards is a hook exchange for that
    event; an exception leaving it is a BaseException-only kind raised by that hook -/
theorem emitBreakerEvent_loud (cfg : Cfg) (ev : Event) (st : CState) (k : Option EClass) (w : World)
    (h : cfg.metric = true ∨ cfg.log = true) :
    (∃ y t', (finalWorld (emitBreakerEvent cfg (some ev) st k w)).trace = y :: t' ∧ isHook y.1 = true) := by
  unfold emitBreakerEvent
  dsimp only
  unfold askMetric askLog
  by_cases hm : cfg.metric = true
  · rw [if_pos hm, finalWorld_bind]
    rcases site_cases (.metric ev 0 0 { state := some st, klass := k, operation := cfg.opTag }) w with
      ⟨a, w1, k1, k2⟩ | ⟨e, d, w1, k1, k2, _⟩
    · rw [k1]
      simp only
      by_cases hl : cfg.log = true
      · rw [if_pos hl]
        rcases site_cases (.log ev 0 0 { state := some st, klass := k, operation := cfg.opTag } none) w1 with
          ⟨a2, w2, m1, m2⟩ | ⟨e2, d2, w2, m1, m2, _⟩
        · rw [m1]; exact ⟨_, _, m2, rfl⟩
        · rw [m1]; exact ⟨_, _, m2, rfl⟩
      · rw [if_neg hl]
        exact ⟨_, _, k2, rfl⟩
    · rw [k1]
      exact ⟨_, _, k2, rfl⟩
  · have hl : cfg.log = true := by
      rcases h with h | h
      · exact absurd h hm
      · exact h
    rw [if_neg hm, if_pos hl]
    rcases site_cases (.log ev 0 0 { state := some st, klass := k, operation := cfg.opTag } none) w with
      ⟨a2, w2, m1, m2⟩ | ⟨e2, d2, w2, m1, m2, _⟩
    · rw [m1]; exact ⟨_, _, m2, rfl⟩
    · rw [m1]; exact ⟨_, _, m2, rfl⟩

theorem emitBreakerEvent_err {cfg : Cfg} {ev : Event} {st : CState} {k : Option EClass} {w : World}
    {e : Exn} {w' : World} (h : emitBreakerEvent cfg (some ev) st k w = .error e w') :
    e.isException = false ∧ ∃ r d, (r, Ans.raise e d) ∈ w'.trace ∧ circuitHook r = FX.circuitEv ev := by
  unfold emitBreakerEvent at h
  dsimp only at h
  unfold askMetric askLog at h
  have hrest : ∀ w1 : World, (if cfg.log = true then
        (tryCatch (do let _ ← askHook (.log ev 0 0 { state := some st, klass := k, operation := cfg.opTag } none); pure ())
          swallowException : M Unit) else pure ()) w1 = .error e w' →
      e.isException = false ∧ ∃ r d, (r, Ans.raise e d) ∈ w'.trace ∧ circuitHook r = FX.circuitEv ev := by
    intro w1 h2
    by_cases hl : cfg.log = true
    · rw [if_pos hl] at h2
      rcases site_cases (.log ev 0 0 { state := some st, klass := k, operation := cfg.opTag } none) w1 with
        ⟨a, w2, k1, k2⟩ | ⟨e1, d, w2, k1, k2, k3⟩
      · rw [k1] at h2; cases h2
      · rw [k1] at h2
        injection h2 with he hw
        subst he hw
        exact ⟨k3, _, d, by rw [k2]; exact List.mem_cons_self, rfl⟩
    · rw [if_neg hl] at h2; cases h2
  by_cases hm : cfg.metric = true
  · rw [if_pos hm] at h
    rcases bind_err h with h1 | ⟨_, w1, _, h2⟩
    · rcases site_cases (.metric ev 0 0 { state := some st, klass := k, operation := cfg.opTag }) w with
        ⟨a, w1, k1, k2⟩ | ⟨e1, d, w1, k1, k2, k3⟩
      · rw [k1] at h1; cases h1
      · rw [k1] at h1
        injection h1 with he hw
        subst he hw
        exact ⟨k3, _, d, by rw [k2]; exact List.mem_cons_self, rfl⟩
    · exact hrest w1 h2
  · rw [if_neg hm] at h
    exact hrest w h

/-- the classifier call made for the breaker -/
theorem callClassifier_cases (e : Exn) (w : World) :
    (∃ c d rest, w.answers = .klass c d :: rest ∧ callClassifier e w = .ok c
        { w with answers := rest, now := w.now + d, trace := (.classify e.ref, .klass c d) :: w.trace }) ∨
    (∃ e2 a w', callClassifier e w = .error e2 w' ∧ w'.trace = (.classify e.ref, a) :: w.trace ∧
        w'.rs = w.rs ∧ ∀ c d, a ≠ .klass c d) := by
  unfold callClassifier
  rw [bind_run]
  cases hw : w.answers with
  | nil =>
    rw [ask_nil _ w hw]
    exact Or.inr ⟨_, _, _, rfl, rfl, rfl, fun c d h => by cases h⟩
  | cons a rest =>
    rw [ask_cons _ w a rest hw]
    cases a with
    | klass c d => exact Or.inl ⟨c, d, rest, rfl, rfl⟩
    | _ => exact Or.inr ⟨_, _, _, rfl, rfl, rfl, fun c d h => by cases h⟩

end Redress
