/-
  Redress.Lemmas.Footprint — what each leaf procedure of the model can touch (property independent).
  One lemma per procedure: if the footprint from an origin `w0` is within the kind set `K` before,
  it is within `K` afterwards (on both exits), for every `K` containing the kinds of the requests
  the procedure can make.
-/
import Redress.Lemmas.Hoare

open Std.Do

namespace Redress
open Retry

/-- postcondition "the footprint from `w0` is within `K`", on both exits -/
abbrev footPost (K : Kind → Bool) (w0 : World) : PostCond α (.except Exn (.arg World .pure)) :=
  post⟨fun _ w => ⌜Foot K w0 w⌝, fun _ w => ⌜Foot K w0 w⌝⟩

/-- chain footprint hypotheses -/
syntax "foot_chain" : tactic
macro_rules
  | `(tactic| foot_chain) => `(tactic| first
      | assumption
      | exact Foot.refl _ _
      | exact Foot.frame _ _ _ _ _ _ _ _ rfl
      | exact Foot.internal _ _ _ _ _ _ (by assumption)
      | (refine Foot.trans (by assumption) ?_; foot_chain))

macro "foot_close" : tactic => `(tactic| all_goals (
  (try subst_vars) <;> (try intros) <;>
  (try simp only [true_and, and_true, ne_eq, reduceCtorEq, not_false_eq_true, false_implies, implies_true, forall_const]) <;>
  first
    | assumption
    | rfl
    | foot_chain
    | (simp_all; done)
    | skip))

section
variable (K : Kind → Bool) (w0 : World)

/-- `ask r` touches nothing but one exchange for `r` -/
theorem ask_foot (r : Req) (hk : K r.kind = true) :
    ⦃fun w => ⌜Foot K w0 w⌝⦄ ask r ⦃footPost K w0⦄ := by
  mvcgen [ask]
  all_goals refine Foot.trans (by assumption) ?_
  all_goals first
    | exact Foot.exchange _ _ _ _ _ hk
    | exact ⟨⟨[(r, Ans.raise .stuck 0)], rfl, by simp [hk]⟩, rfl, rfl, rfl, rfl, Nat.le_refl _⟩

attribute [local spec] ask_foot

theorem askMetric_foot (hm : K .metric = true) (ev : Event) (a s : Nat) (t : Tags) :
    ⦃fun w => ⌜Foot K w0 w⌝⦄ askMetric ev a s t ⦃footPost K w0⦄ := by
  mvcgen [askMetric]
  foot_close

theorem askLog_foot (hl : K .log = true) (ev : Event) (a s : Nat) (t : Tags) (ra : Option Int) :
    ⦃fun w => ⌜Foot K w0 w⌝⦄ askLog ev a s t ra ⦃footPost K w0⦄ := by
  mvcgen [askLog]
  foot_close

theorem setStop_foot (s : StopReason) :
    ⦃fun w => ⌜Foot K w0 w⌝⦄ setStop s ⦃footPost K w0⦄ := by
  mvcgen [setStop, modifyRS]
  foot_close

theorem recordTimeline_foot (ev : Event) (a s : Nat) (t : Tags) :
    ⦃fun w => ⌜Foot K w0 w⌝⦄ recordTimeline ev a s t ⦃footPost K w0⦄ := by
  mvcgen [recordTimeline]
  foot_close

attribute [local spec] askMetric_foot askLog_foot setStop_foot recordTimeline_foot

theorem metricHook_foot (hm : K .metric = true) (cfg : Cfg) (tl : Bool)
    (ev : Event) (a s : Nat) (t : Tags) :
    ⦃fun w => ⌜Foot K w0 w⌝⦄ metricHook cfg tl ev a s t ⦃footPost K w0⦄ := by
  mvcgen [metricHook]
  foot_close

attribute [local spec] metricHook_foot

theorem emit_foot (hm : K .metric = true) (hl : K .log = true) (cfg : Cfg) (tl : Bool) (ev : Event)
    (attempt sleep : Nat) (klass : Option EClass) (exc : Option Exn) (stop : Option StopReason)
    (cause : Option Cause) (cls : Option Classification) :
    ⦃fun w => ⌜Foot K w0 w⌝⦄ emit cfg tl ev attempt sleep klass exc stop cause cls ⦃footPost K w0⦄ := by
  mvcgen [emit, swallowException]
  foot_close

attribute [local spec] emit_foot

theorem checkAbort_foot (hm : K .metric = true) (hl : K .log = true) (ha : K .abortIf = true)
    (cfg : Cfg) (tl : Bool) (attempt : Nat) :
    ⦃fun w => ⌜Foot K w0 w⌝⦄ checkAbort cfg tl attempt ⦃footPost K w0⦄ := by
  mvcgen [checkAbort]
  foot_close

theorem stopWith_foot (hm : K .metric = true) (hl : K .log = true) (cfg : Cfg) (tl : Bool)
    (s : StopReason) (ev : Event) (attempt : Nat) (k : EClass) (exc : Option Exn) (cause : Cause) :
    ⦃fun w => ⌜Foot K w0 w⌝⦄ stopWith cfg tl s ev attempt k exc cause
    ⦃post⟨fun d w => ⌜d = .raise ∧ Foot K w0 w⌝, fun _ w => ⌜Foot K w0 w⌝⟩⦄ := by
  mvcgen [stopWith]
  foot_close

theorem recordStrategySuccess_foot (hs : K .stratRecordSuccess = true) (cfg : Cfg) :
    ⦃fun w => ⌜Foot K w0 w⌝⦄ recordStrategySuccess cfg ⦃footPost K w0⦄ := by
  mvcgen [recordStrategySuccess, getRS]
  foot_close

theorem stratRecordFailure_foot (hs : K .stratRecordFailure = true) (cfg : Cfg) (key : SKey) (k : EClass) :
    ⦃fun w => ⌜Foot K w0 w⌝⦄ stratRecordFailure cfg key k ⦃footPost K w0⦄ := by
  mvcgen [stratRecordFailure]
  foot_close

theorem callStrategy_foot (hs : K .strategy = true) (key : SKey) (kind : SKind) (ctx : BackoffCtx) :
    ⦃fun w => ⌜Foot K w0 w⌝⦄ callStrategy key kind ctx ⦃footPost K w0⦄ := by
  mvcgen [callStrategy]
  foot_close

theorem callClassifier_foot (hc : K .classify = true) (e : Exn) :
    ⦃fun w => ⌜Foot K w0 w⌝⦄ callClassifier e ⦃footPost K w0⦄ := by
  mvcgen [callClassifier]
  foot_close

theorem shouldClassifyResult_foot (hc : K .resultClassify = true) (cfg : Cfg) (v : Nat) :
    ⦃fun w => ⌜Foot K w0 w⌝⦄ shouldClassifyResult cfg v ⦃footPost K w0⦄ := by
  mvcgen [shouldClassifyResult]
  foot_close

theorem callAttemptStart_foot (hs : K .attemptStart = true) (cfg : Cfg) (attempt : Nat) :
    ⦃fun w => ⌜Foot K w0 w⌝⦄ callAttemptStart cfg attempt ⦃footPost K w0⦄ := by
  mvcgen [callAttemptStart, elapsed]
  foot_close

theorem callAttemptEnd_foot (he : K .attemptEnd = true) (cfg : Cfg) (attempt : Nat)
    (cls : Option Classification) (exc : Option Exn) (result : Option Nat) (d : AttemptDecision)
    (stop : Option StopReason) (cause : Option Cause) (sleep : Option Nat) :
    ⦃fun w => ⌜Foot K w0 w⌝⦄ callAttemptEnd cfg attempt cls exc result d stop cause sleep
    ⦃footPost K w0⦄ := by
  mvcgen [callAttemptEnd, elapsed]
  foot_close

attribute [local spec] callAttemptEnd_foot

theorem callAttemptEndFromOutcome_foot (he : K .attemptEnd = true) (cfg : Cfg) (attempt : Nat)
    (o : AOutcome) :
    ⦃fun w => ⌜Foot K w0 w⌝⦄ callAttemptEndFromOutcome cfg attempt o ⦃footPost K w0⦄ := by
  mvcgen [callAttemptEndFromOutcome]
  foot_close

theorem callBeforeSleep_foot (hb : K .beforeSleep = true) (cfg : Cfg) (ctx : BackoffCtx) (sleep : Nat) :
    ⦃fun w => ⌜Foot K w0 w⌝⦄ callBeforeSleep cfg ctx sleep ⦃footPost K w0⦄ := by
  mvcgen [callBeforeSleep, swallowException]
  foot_close

theorem callSleeper_foot (hs : K .sleeper = true) (cfg : Cfg) (sleep : Nat) :
    ⦃fun w => ⌜Foot K w0 w⌝⦄ callSleeper cfg sleep ⦃footPost K w0⦄ := by
  mvcgen [callSleeper]
  foot_close

theorem callSleepHandler_foot (hs : K .sleepHandler = true) (lvl : Lvl) (ctx : BackoffCtx) (sleep : Nat) :
    ⦃fun w => ⌜Foot K w0 w⌝⦄ callSleepHandler lvl ctx sleep ⦃footPost K w0⦄ := by
  mvcgen [callSleepHandler]
  foot_close

theorem buildOutcome_foot (ok : Bool) (value : Option Nat) (attempts : Nat) (ns : Option Nat) :
    ⦃fun w => ⌜Foot K w0 w⌝⦄ buildOutcome ok value attempts ns ⦃footPost K w0⦄ := by
  mvcgen [buildOutcome, getRS, elapsed]
  foot_close

attribute [local spec] setStop_foot buildOutcome_foot

theorem emitAbortedOnce_foot (hm : K .metric = true) (hl : K .log = true) (cfg : Cfg) (tl : Bool)
    (attempt : Nat) :
    ⦃fun w => ⌜Foot K w0 w⌝⦄ emitAbortedOnce cfg tl attempt ⦃footPost K w0⦄ := by
  mvcgen [emitAbortedOnce, getRS]
  foot_close

attribute [local spec] emitAbortedOnce_foot

theorem abortOutcome_foot (hm : K .metric = true) (hl : K .log = true) (cfg : Cfg) (tl : Bool)
    (attempts : Nat) :
    ⦃fun w => ⌜Foot K w0 w⌝⦄ abortOutcome cfg tl attempts ⦃footPost K w0⦄ := by
  mvcgen [abortOutcome]
  foot_close

theorem handleSleepDecision_foot (hm : K .metric = true) (hl : K .log = true) (cfg : Cfg) (tl : Bool)
    (action : SleepDecision) (attempt sleep : Nat) :
    ⦃fun w => ⌜Foot K w0 w⌝⦄ handleSleepDecision cfg tl action attempt sleep
    ⦃post⟨fun r w => ⌜(r = action ∧ action ≠ .other) ∧ Foot K w0 w⌝, fun _ w => ⌜Foot K w0 w⌝⟩⦄ := by
  mvcgen [handleSleepDecision, getRS]
  foot_close

attribute [local spec] recordStrategySuccess_foot

theorem handleSuccessAttemptEnd_foot (hm : K .metric = true) (hl : K .log = true)
    (hs : K .stratRecordSuccess = true) (he : K .attemptEnd = true) (cfg : Cfg) (tl : Bool)
    (attempt v : Nat) :
    ⦃fun w => ⌜Foot K w0 w⌝⦄ handleSuccessAttemptEnd cfg tl attempt v ⦃footPost K w0⦄ := by
  mvcgen [handleSuccessAttemptEnd]
  foot_close

theorem handleAbortAttemptEnd_foot (he : K .attemptEnd = true) (cfg : Cfg) (attempt : Nat) (e : Exn) :
    ⦃fun w => ⌜Foot K w0 w⌝⦄ handleAbortAttemptEnd cfg attempt e ⦃footPost K w0⦄ := by
  mvcgen [handleAbortAttemptEnd, getAS, modifyAS]
  foot_close

theorem emitMaxAttemptsExceeded_foot (hm : K .metric = true) (hl : K .log = true) (cfg : Cfg)
    (tl : Bool) :
    ⦃fun w => ⌜Foot K w0 w⌝⦄ emitMaxAttemptsExceeded cfg tl ⦃footPost K w0⦄ := by
  mvcgen [emitMaxAttemptsExceeded, getRS]
  foot_close

attribute [local spec] emitMaxAttemptsExceeded_foot abortOutcome_foot

theorem raiseExhaustedCall_foot (hm : K .metric = true) (hl : K .log = true) (cfg : Cfg) :
    ⦃fun w => ⌜Foot K w0 w⌝⦄ raiseExhaustedCall cfg ⦃footPost K w0⦄ := by
  mvcgen [raiseExhaustedCall, getRS]
  foot_close

theorem buildExhaustedOutcome_foot (hm : K .metric = true) (hl : K .log = true) (cfg : Cfg)
    (tl : Bool) :
    ⦃fun w => ⌜Foot K w0 w⌝⦄ buildExhaustedOutcome cfg tl ⦃footPost K w0⦄ := by
  mvcgen [buildExhaustedOutcome]
  foot_close

theorem deliverCall_foot (act : Action) (orig : Option Exn) (fb : ExhaustedFields) :
    ⦃fun w => ⌜Foot K w0 w⌝⦄ deliverCall act orig fb
    ⦃post⟨fun r w => ⌜(r = none ∧ act = .continue_) ∧ Foot K w0 w⌝, fun _ w => ⌜Foot K w0 w⌝⟩⦄ := by
  mvcgen [deliverCall]
  foot_close

theorem deliverExecute_foot (hm : K .metric = true) (hl : K .log = true) (cfg : Cfg) (tl : Bool)
    (act : Action) (o : AOutcome) :
    ⦃fun w => ⌜Foot K w0 w⌝⦄ deliverExecute cfg tl act o
    ⦃post⟨fun r w => ⌜(r = none → act = .continue_) ∧ Foot K w0 w⌝, fun _ w => ⌜Foot K w0 w⌝⟩⦄ := by
  mvcgen [deliverExecute]
  foot_close

/-! ### policy level (`policy.py`, `execution.py`) -/
open Policy

attribute [local spec] askMetric_foot askLog_foot callClassifier_foot

theorem emitBreakerEvent_foot (hm : K .metric = true) (hl : K .log = true) (cfg : Cfg)
    (ev : Option Event) (st : CState) (k : Option EClass) :
    ⦃fun w => ⌜Foot K w0 w⌝⦄ emitBreakerEvent cfg ev st k ⦃footPost K w0⦄ := by
  mvcgen [emitBreakerEvent, swallowException]
  foot_close

attribute [local spec] emitBreakerEvent_foot

theorem breakerAllow_foot (ha : K .breakerAllow = true) (bc : Breaker.Cfg) :
    ⦃fun w => ⌜Foot K w0 w⌝⦄ breakerAllow bc ⦃footPost K w0⦄ := by
  mvcgen [breakerAllow]
  foot_close

attribute [local spec] breakerAllow_foot

theorem checkBreaker_foot (hm : K .metric = true) (hl : K .log = true) (ha : K .breakerAllow = true)
    (cfg : Cfg) :
    ⦃fun w => ⌜Foot K w0 w⌝⦄ checkBreaker cfg ⦃footPost K w0⦄ := by
  mvcgen [checkBreaker]
  foot_close

theorem recordSuccess_foot (hm : K .metric = true) (hl : K .log = true) (hs : K .breakerSuccess = true)
    (cfg : Cfg) :
    ⦃fun w => ⌜Foot K w0 w⌝⦄ Policy.recordSuccess cfg ⦃footPost K w0⦄ := by
  mvcgen [Policy.recordSuccess]
  foot_close

theorem recordCancel_foot (hc : K .breakerCancel = true) (cfg : Cfg) :
    ⦃fun w => ⌜Foot K w0 w⌝⦄ Policy.recordCancel cfg ⦃footPost K w0⦄ := by
  mvcgen [Policy.recordCancel]
  foot_close

theorem recordFailure_foot (hm : K .metric = true) (hl : K .log = true) (hf : K .breakerFailure = true)
    (cfg : Cfg) (k : EClass) :
    ⦃fun w => ⌜Foot K w0 w⌝⦄ Policy.recordFailure cfg k ⦃footPost K w0⦄ := by
  mvcgen [Policy.recordFailure]
  foot_close

attribute [local spec] recordCancel_foot recordFailure_foot recordSuccess_foot checkBreaker_foot

theorem ensureSettled_foot (hc : K .breakerCancel = true) (cfg : Cfg) :
    ⦃fun w => ⌜Foot K w0 w⌝⦄ ensureSettled cfg ⦃footPost K w0⦄ := by
  mvcgen [ensureSettled]
  foot_close

theorem checkAbortNoRetry_foot (ha : K .abortIf = true) (hc : K .breakerCancel = true) (cfg : Cfg) :
    ⦃fun w => ⌜Foot K w0 w⌝⦄ checkAbortNoRetry cfg ⦃footPost K w0⦄ := by
  mvcgen [checkAbortNoRetry]
  foot_close

theorem noRetryStartHook_foot (hs : K .attemptStart = true) (cfg : Cfg) :
    ⦃fun w => ⌜Foot K w0 w⌝⦄ noRetryStartHook cfg ⦃footPost K w0⦄ := by
  mvcgen [noRetryStartHook, xElapsed]
  foot_close

theorem noRetryEndHook_foot (he : K .attemptEnd = true) (cfg : Cfg) (exc : Option Exn)
    (result : Option Nat) (d : AttemptDecision) (stop : Option StopReason) (cause : Option Cause) :
    ⦃fun w => ⌜Foot K w0 w⌝⦄ noRetryEndHook cfg exc result d stop cause ⦃footPost K w0⦄ := by
  mvcgen [noRetryEndHook, xElapsed]
  foot_close

theorem policyOutcome_foot (ok : Bool) (value : Option Nat) (stop : Option StopReason) (attempts : Nat)
    (lc : Option EClass) (le : Option String) (cause : Option Cause) :
    ⦃fun w => ⌜Foot K w0 w⌝⦄ policyOutcome ok value stop attempts lc le cause ⦃footPost K w0⦄ := by
  mvcgen [policyOutcome, xElapsed]
  foot_close

theorem initCtx_foot :
    ⦃fun w => ⌜Foot K w0 w⌝⦄ initCtx ⦃footPost K w0⦄ := by
  mvcgen [initCtx]
  foot_close

attribute [local spec] noRetryEndHook_foot

theorem classifyForBreaker_foot (hc : K .classify = true) (cfg : Cfg) (e : Exn) :
    ⦃fun w => ⌜Foot K w0 w⌝⦄ classifyForBreaker cfg e ⦃footPost K w0⦄ := by
  mvcgen [classifyForBreaker]
  foot_close

attribute [local spec] classifyForBreaker_foot

theorem handleAbortCall_foot (he : K .attemptEnd = true) (hc : K .breakerCancel = true) (cfg : Cfg)
    (e : Exn) :
    ⦃fun w => ⌜Foot K w0 w⌝⦄ handleAbortCall cfg e ⦃footPost K w0⦄ := by
  mvcgen [handleAbortCall]
  foot_close

theorem handleExhaustedCall_foot (hm : K .metric = true) (hl : K .log = true)
    (hf : K .breakerFailure = true) (cfg : Cfg) (e : Exn) :
    ⦃fun w => ⌜Foot K w0 w⌝⦄ handleExhaustedCall cfg e ⦃footPost K w0⦄ := by
  mvcgen [handleExhaustedCall]
  foot_close

theorem handleExceptionCall_foot (hm : K .metric = true) (hl : K .log = true)
    (hf : K .breakerFailure = true) (he : K .attemptEnd = true) (hc : K .classify = true) (cfg : Cfg)
    (e : Exn) (onEnd : Bool) :
    ⦃fun w => ⌜Foot K w0 w⌝⦄ handleExceptionCall cfg e onEnd ⦃footPost K w0⦄ := by
  mvcgen [handleExceptionCall]
  foot_close

end
end Redress
