/-
  Redress.Lemmas.Footprint — what each leaf procedure of the model can touch (property independent).
  One lemma per procedure: if the footprint from an origin `w0` is within the kind set `K` before,
  it is within `K` afterwards (on both exits), for every `K` containing the kinds of the requests
  the procedure can make.
-/
import Redress.Lemmas.Hoare

open Std.Do

namespace Redress
open Retry

/-- postcondition "the footprint from `w0` is within `K`", on both exits -/
abbrev footPost (K : Kind → Bool) (w0 : World) : PostCond α (.except Exn (.arg World .pure)) :=
  post⟨fun _ w => ⌜Foot K w0 w⌝, fun _ w => ⌜Foot K w0 w⌝⟩

/-- chain footprint hypotheses -/
syntax "foot_chain" : tactic
macro_rules
  | `(tactic| foot_chain) => `(tactic| first
      | assumption
      | exact Foot.refl _ _
      | exact Foot.frame _ _ _ _ _ _ _ _ rfl
      | exact Foot.internal _ _ _ _ _ _ (by assumption)
      | (refine Foot.trans (by assumption) ?_; foot_chain))

macro "foot_close" : tactic => `(tactic| all_goals (
  (try subst_vars) <;> (try intros) <;>
  (try simp only [true_and, and_true, ne_eq, reduceCtorEq, not_false_eq_true, false_implies, implies_true, forall_const]) <;>
  first
    | assumption
    | rfl
    | foot_chain
    | (simp_all; done)
    | skip))

section
variable (K : Kind → Bool) (w0 : World)

/-- `ask r` touches nothing but one exchange for `r` -/
theorem ask_foot (r : Req) (hk : K r.kind = true) :
    ⦃fun w => ⌜Foot K w0 w⌝⦄ ask r ⦃footPost K w0⦄ := by
  mvcgen [ask]
  all_goals refine Foot.trans (by assumption) ?_
  all_goals first
    | exact Foot.exchange _ _ _ _ _ hk
    | exact ⟨⟨[(r, Ans.raise .stuck 0)], rfl, by simp [hk]⟩, rfl, rfl, rfl, rfl, Nat.le_refl _⟩

attribute [local spec] ask_foot

/-- `askHook r` (the `ask` of the observability call sites) has the same footprint -/
theorem askHook_foot (r : Req) (hk : K r.kind = true) :
    ⦃fun w => ⌜Foot K w0 w⌝⦄ askHook r ⦃footPost K w0⦄ := by
  mvcgen [askHook]
  all_goals refine Foot.trans (by assumption) ?_
  all_goals first
    | exact Foot.exchange _ _ _ _ _ hk
    | exact ⟨⟨[(r, Ans.raise .stuck 0)], rfl, by simp [hk]⟩, rfl, rfl, rfl, rfl, Nat.le_refl _⟩

attribute [local spec] askHook_foot

theorem askMetric_foot (hm : K .metric = true) (ev : Event) (a s : Nat) (t : Tags) :
    ⦃fun w => ⌜Foot K w0 w⌝⦄ askMetric ev a s t ⦃footPost K w0⦄ := by
  mvcgen [askMetric]
  foot_close

theorem askLog_foot (hl : K .log = true) (ev : Event) (a s : Nat) (t : Tags) (ra : Option Int) :
    ⦃fun w => ⌜Foot K w0 w⌝⦄ askLog ev a s t ra ⦃footPost K w0⦄ := by
  mvcgen [askLog]
  foot_close

theorem setStop_foot (s : StopReason) :
    ⦃fun w => ⌜Foot K w0 w⌝⦄ setStop s ⦃footPost K w0⦄ := by
  mvcgen [setStop, modifyRS]
  foot_close

theorem recordTimeline_foot (ev : Event) (a s : Nat) (t : Tags) :
    ⦃fun w => ⌜Foot K w0 w⌝⦄ recordTimeline ev a s t ⦃footPost K w0⦄ := by
  mvcgen [recordTimeline]
  foot_close

attribute [local spec] askMetric_foot askLog_foot setStop_foot recordTimeline_foot

theorem metricHook_foot (hm : K .metric = true) (cfg : Cfg) (tl : Bool)
    (ev : Event) (a s : Nat) (t : Tags) :
    ⦃fun w => ⌜Foot K w0 w⌝⦄ metricHook cfg tl ev a s t ⦃footPost K w0⦄ := by
  mvcgen [metricHook]
  foot_close

attribute [local spec] metricHook_foot

theorem emit_foot (hm : K .metric = true) (hl : K .log = true) (cfg : Cfg) (tl : Bool) (ev : Event)
    (attempt sleep : Nat) (klass : Option EClass) (exc : Option Exn) (stop : Option StopReason)
    (cause : Option Cause) (cls : Option Classification) :
    ⦃fun w => ⌜Foot K w0 w⌝⦄ emit cfg tl ev attempt sleep klass exc stop cause cls ⦃footPost K w0⦄ := by
  mvcgen [emit, swallowException]
  foot_close

attribute [local spec] emit_foot

theorem checkAbort_foot (hm : K .metric = true) (hl : K .log = true) (ha : K .abortIf = true)
    (cfg : Cfg) (tl : Bool) (attempt : Nat) :
    ⦃fun w => ⌜Foot K w0 w⌝⦄ checkAbort cfg tl attempt ⦃footPost K w0⦄ := by
  mvcgen [checkAbort]
  foot_close

theorem stopWith_foot (hm : K .metric = true) (hl : K .log = true) (cfg : Cfg) (tl : Bool)
    (s : StopReason) (ev : Event) (attempt : Nat) (k : EClass) (exc : Option Exn) (cause : Cause) :
    ⦃fun w => ⌜Foot K w0 w⌝⦄ stopWith cfg tl s ev attempt k exc cause
    ⦃post⟨fun d w => ⌜d = .raise ∧ Foot K w0 w⌝, fun _ w => ⌜Foot K w0 w⌝⟩⦄ := by
  mvcgen [stopWith]
  foot_close

theorem recordStrategySuccess_foot (hs : K .stratRecordSuccess = true) (cfg : Cfg) :
    ⦃fun w => ⌜Foot K w0 w⌝⦄ recordStrategySuccess cfg ⦃footPost K w0⦄ := by
  mvcgen [recordStrategySuccess, getRS]
  foot_close

theorem stratRecordFailure_foot (hs : K .stratRecordFailure = true) (cfg : Cfg) (key : SKey) (k : EClass) :
    ⦃fun w => ⌜Foot K w0 w⌝⦄ stratRecordFailure cfg key k ⦃footPost K w0⦄ := by
  mvcgen [stratRecordFailure]
  foot_close

theorem callStrategy_foot (hs : K .strategy = true) (key : SKey) (kind : SKind) (ctx : BackoffCtx) :
    ⦃fun w => ⌜Foot K w0 w⌝⦄ callStrategy key kind ctx ⦃footPost K w0⦄ := by
  mvcgen [callStrategy]
  foot_close

theorem callClassifier_foot (hc : K .classify = true) (e : Exn) :
    ⦃fun w => ⌜Foot K w0 w⌝⦄ callClassifier e ⦃footPost K w0⦄ := by
  mvcgen [callClassifier]
  foot_close

theorem shouldClassifyResult_foot (hc : K .resultClassify = true) (cfg : Cfg) (v : Nat) :
    ⦃fun w => ⌜Foot K w0 w⌝⦄ shouldClassifyResult cfg v ⦃footPost K w0⦄ := by
  mvcgen [shouldClassifyResult]
  foot_close

theorem callAttemptStart_foot (hs : K .attemptStart = true) (cfg : Cfg) (attempt : Nat) :
    ⦃fun w => ⌜Foot K w0 w⌝⦄ callAttemptStart cfg attempt ⦃footPost K w0⦄ := by
  mvcgen [callAttemptStart, elapsed]
  foot_close

theorem callAttemptEnd_foot (he : K .attemptEnd = true) (cfg : Cfg) (attempt : Nat)
    (cls : Option Classification) (exc : Option Exn) (result : Option Nat) (d : AttemptDecision)
    (stop : Option StopReason) (cause : Option Cause) (sleep : Option Nat) :
    ⦃fun w => ⌜Foot K w0 w⌝⦄ callAttemptEnd cfg attempt cls exc result d stop cause sleep
    ⦃footPost K w0⦄ := by
  mvcgen [callAttemptEnd, elapsed]
  foot_close

attribute [local spec] callAttemptEnd_foot

theorem callAttemptEndFromOutcome_foot (he : K .attemptEnd = true) (cfg : Cfg) (attempt : Nat)
    (o : AOutcome) :
    ⦃fun w => ⌜Foot K w0 w⌝⦄ callAttemptEndFromOutcome cfg attempt o ⦃footPost K w0⦄ := by
  mvcgen [callAttemptEndFromOutcome]
  foot_close

theorem callBeforeSleep_foot (hb : K .beforeSleep = true) (cfg : Cfg) (ctx : BackoffCtx) (sleep : Nat) :
    ⦃fun w => ⌜Foot K w0 w⌝⦄ callBeforeSleep cfg ctx sleep ⦃footPost K w0⦄ := by
  mvcgen [callBeforeSleep, swallowException]
  foot_close

theorem callSleeper_foot (hs : K .sleeper = true) (cfg : Cfg) (sleep : Nat) :
    ⦃fun w => ⌜Foot K w0 w⌝⦄ callSleeper cfg sleep ⦃footPost K w0⦄ := by
  mvcgen [callSleeper]
  foot_close

theorem callSleepHandler_foot (hs : K .sleepHandler = true) (lvl : Lvl) (ctx : BackoffCtx) (sleep : Nat) :
    ⦃fun w => ⌜Foot K w0 w⌝⦄ callSleepHandler lvl ctx sleep ⦃footPost K w0⦄ := by
  mvcgen [callSleepHandler]
  foot_close

theorem buildOutcome_foot (ok : Bool) (value : Option Nat) (attempts : Nat) (ns : Option Nat) :
    ⦃fun w => ⌜Foot K w0 w⌝⦄ buildOutcome ok value attempts ns ⦃footPost K w0⦄ := by
  mvcgen [buildOutcome, getRS, elapsed]
  foot_close

attribute [local spec] setStop_foot buildOutcome_foot

theorem emitAbortedOnce_foot (hm : K .metric = true) (hl : K .log = true) (cfg : Cfg) (tl : Bool)
    (attempt : Nat) :
    ⦃fun w => ⌜Foot K w0 w⌝⦄ emitAbortedOnce cfg tl attempt ⦃footPost K w0⦄ := by
  mvcgen [emitAbortedOnce, getRS]
  foot_close

attribute [local spec] emitAbortedOnce_foot

theorem abortOutcome_foot (hm : K .metric = true) (hl : K .log = true) (cfg : Cfg) (tl : Bool)
    (attempts : Nat) :
    ⦃fun w => ⌜Foot K w0 w⌝⦄ abortOutcome cfg tl attempts ⦃footPost K w0⦄ := by
  mvcgen [abortOutcome]
  foot_close

theorem handleSleepDecision_foot (hm : K .metric = true) (hl : K .log = true) (cfg : Cfg) (tl : Bool)
    (action : SleepDecision) (attempt sleep : Nat) :
    ⦃fun w => ⌜Foot K w0 w⌝⦄ handleSleepDecision cfg tl action attempt sleep
    ⦃post⟨fun r w => ⌜(r = action ∧ action ≠ .other) ∧ Foot K w0 w⌝, fun _ w => ⌜Foot K w0 w⌝⟩⦄ := by
  mvcgen [handleSleepDecision, getRS]
  foot_close

attribute [local spec] recordStrategySuccess_foot

theorem handleSuccessAttemptEnd_foot (hm : K .metric = true) (hl : K .log = true)
    (hs : K .stratRecordSuccess = true) (he : K .attemptEnd = true) (cfg : Cfg) (tl : Bool)
    (attempt v : Nat) :
    ⦃fun w => ⌜Foot K w0 w⌝⦄ handleSuccessAttemptEnd cfg tl attempt v ⦃footPost K w0⦄ := by
  mvcgen [handleSuccessAttemptEnd]
  foot_close

theorem handleAbortAttemptEnd_foot (he : K .attemptEnd = true) (cfg : Cfg) (attempt : Nat) (e : Exn) :
    ⦃fun w => ⌜Foot K w0 w⌝⦄ handleAbortAttemptEnd cfg attempt e ⦃footPost K w0⦄ := by
  mvcgen [handleAbortAttemptEnd, getAS, modifyAS]
  foot_close

theorem emitMaxAttemptsExceeded_foot (hm : K .metric = true) (hl : K .log = true) (cfg : Cfg)
    (tl : Bool) :
    ⦃fun w => ⌜Foot K w0 w⌝⦄ emitMaxAttemptsExceeded cfg tl ⦃footPost K w0⦄ := by
  mvcgen [emitMaxAttemptsExceeded, getRS]
  foot_close

attribute [local spec] emitMaxAttemptsExceeded_foot abortOutcome_foot

theorem raiseExhaustedCall_foot (hm : K .metric = true) (hl : K .log = true) (cfg : Cfg) :
    ⦃fun w => ⌜Foot K w0 w⌝⦄ raiseExhaustedCall cfg ⦃footPost K w0⦄ := by
  mvcgen [raiseExhaustedCall, getRS]
  foot_close

theorem buildExhaustedOutcome_foot (hm : K .metric = true) (hl : K .log = true) (cfg : Cfg)
    (tl : Bool) :
    ⦃fun w => ⌜Foot K w0 w⌝⦄ buildExhaustedOutcome cfg tl ⦃footPost K w0⦄ := by
  mvcgen [buildExhaustedOutcome]
  foot_close

theorem deliverCall_foot (act : Action) (orig : Option Exn) (fb : ExhaustedFields) :
    ⦃fun w => ⌜Foot K w0 w⌝⦄ deliverCall act orig fb
    ⦃post⟨fun r w => ⌜(r = none ∧ act = .continue_) ∧ Foot K w0 w⌝, fun _ w => ⌜Foot K w0 w⌝⟩⦄ := by
  mvcgen [deliverCall]
  foot_close

theorem deliverExecute_foot (hm : K .metric = true) (hl : K .log = true) (cfg : Cfg) (tl : Bool)
    (act : Action) (o : AOutcome) :
    ⦃fun w => ⌜Foot K w0 w⌝⦄ deliverExecute cfg tl act o
    ⦃post⟨fun r w => ⌜(r = none → act = .continue_) ∧ Foot K w0 w⌝, fun _ w => ⌜Foot K w0 w⌝⟩⦄ := by
  mvcgen [deliverExecute]
  foot_close

/-! ### policy level (`policy.py`, `execution.py`) -/
open Policy

attribute [local spec] askMetric_foot askLog_foot callClassifier_foot

theorem emitBreakerEvent_foot (hm : K .metric = true) (hl : K .log = true) (cfg : Cfg)
    (ev : Option Event) (st : CState) (k : Option EClass) :
    ⦃fun w => ⌜Foot K w0 w⌝⦄ emitBreakerEvent cfg ev st k ⦃footPost K w0⦄ := by
  mvcgen [emitBreakerEvent, swallowException]
  foot_close

attribute [local spec] emitBreakerEvent_foot

theorem breakerAllow_foot (ha : K .breakerAllow = true) (bc : Breaker.Cfg) :
    ⦃fun w => ⌜Foot K w0 w⌝⦄ breakerAllow bc ⦃footPost K w0⦄ := by
  mvcgen [breakerAllow]
  foot_close

attribute [local spec] breakerAllow_foot

theorem checkBreaker_foot (hm : K .metric = true) (hl : K .log = true) (ha : K .breakerAllow = true)
    (cfg : Cfg) :
    ⦃fun w => ⌜Foot K w0 w⌝⦄ checkBreaker cfg ⦃footPost K w0⦄ := by
  mvcgen [checkBreaker]
  foot_close

theorem recordSuccess_foot (hm : K .metric = true) (hl : K .log = true) (hs : K .breakerSuccess = true)
    (cfg : Cfg) :
    ⦃fun w => ⌜Foot K w0 w⌝⦄ Policy.recordSuccess cfg ⦃footPost K w0⦄ := by
  mvcgen [Policy.recordSuccess]
  foot_close

theorem recordCancel_foot (hc : K .breakerCancel = true) (cfg : Cfg) :
    ⦃fun w => ⌜Foot K w0 w⌝⦄ Policy.recordCancel cfg ⦃footPost K w0⦄ := by
  mvcgen [Policy.recordCancel]
  foot_close

theorem recordFailure_foot (hm : K .metric = true) (hl : K .log = true) (hf : K .breakerFailure = true)
    (cfg : Cfg) (k : EClass) :
    ⦃fun w => ⌜Foot K w0 w⌝⦄ Policy.recordFailure cfg k ⦃footPost K w0⦄ := by
  mvcgen [Policy.recordFailure]
  foot_close

attribute [local spec] recordCancel_foot recordFailure_foot recordSuccess_foot checkBreaker_foot

theorem ensureSettled_foot (hc : K .breakerCancel = true) (cfg : Cfg) :
    ⦃fun w => ⌜Foot K w0 w⌝⦄ ensureSettled cfg ⦃footPost K w0⦄ := by
  mvcgen [ensureSettled]
  foot_close

theorem checkAbortNoRetry_foot (ha : K .abortIf = true) (hc : K .breakerCancel = true) (cfg : Cfg) :
    ⦃fun w => ⌜Foot K w0 w⌝⦄ checkAbortNoRetry cfg ⦃footPost K w0⦄ := by
  mvcgen [checkAbortNoRetry]
  foot_close

theorem noRetryStartHook_foot (hs : K .attemptStart = true) (cfg : Cfg) :
    ⦃fun w => ⌜Foot K w0 w⌝⦄ noRetryStartHook cfg ⦃footPost K w0⦄ := by
  mvcgen [noRetryStartHook, xElapsed]
  foot_close

theorem noRetryEndHook_foot (he : K .attemptEnd = true) (cfg : Cfg) (exc : Option Exn)
    (result : Option Nat) (d : AttemptDecision) (stop : Option StopReason) (cause : Option Cause) :
    ⦃fun w => ⌜Foot K w0 w⌝⦄ noRetryEndHook cfg exc result d stop cause ⦃footPost K w0⦄ := by
  mvcgen [noRetryEndHook, xElapsed]
  foot_close

theorem policyOutcome_foot (ok : Bool) (value : Option Nat) (stop : Option StopReason) (attempts : Nat)
    (lc : Option EClass) (le : Option String) (cause : Option Cause) :
    ⦃fun w => ⌜Foot K w0 w⌝⦄ policyOutcome ok value stop attempts lc le cause ⦃footPost K w0⦄ := by
  mvcgen [policyOutcome, xElapsed]
  foot_close

theorem initCtx_foot :
    ⦃fun w => ⌜Foot K w0 w⌝⦄ initCtx ⦃footPost K w0⦄ := by
  mvcgen [initCtx]
  foot_close

attribute [local spec] noRetryEndHook_foot

theorem classifyForBreaker_foot (hc : K .classify = true) (cfg : Cfg) (e : Exn) :
    ⦃fun w => ⌜Foot K w0 w⌝⦄ classifyForBreaker cfg e ⦃footPost K w0⦄ := by
  mvcgen [classifyForBreaker]
  foot_close

attribute [local spec] classifyForBreaker_foot

theorem handleAbortCall_foot (he : K .attemptEnd = true) (hc : K .breakerCancel = true) (cfg : Cfg)
    (e : Exn) :
    ⦃fun w => ⌜Foot K w0 w⌝⦄ handleAbortCall cfg e ⦃footPost K w0⦄ := by
  mvcgen [handleAbortCall]
  foot_close

theorem handleExhaustedCall_foot (hm : K .metric = true) (hl : K .log = true)
    (hf : K .breakerFailure = true) (cfg : Cfg) (e : Exn) :
    ⦃fun w => ⌜Foot K w0 w⌝⦄ handleExhaustedCall cfg e ⦃footPost K w0⦄ := by
  mvcgen [handleExhaustedCall]
  foot_close

theorem handleExceptionCall_foot (hm : K .metric = true) (hl : K .log = true)
    (hf : K .breakerFailure = true) (he : K .attemptEnd = true) (hc : K .classify = true) (cfg : Cfg)
    (e : Exn) (onEnd : Bool) :
    ⦃fun w => ⌜Foot K w0 w⌝⦄ handleExceptionCall cfg e onEnd ⦃footPost K w0⦄ := by
  mvcgen [handleExceptionCall]
  foot_close

end
end Redress


/-! ## A second relation: what does not touch the policy's `ExecutionContext` or the embedded breaker

`Foot` does not constrain `World.xc` / `World.breaker`.  `Ext K w w'` says: the log grew by exchanges
whose request kinds satisfy `K`, and `xc` and `breaker` are the same (everything else is free).  It is
proved below for EVERY procedure of the retry loop, up to `runCall` / `runExecute`, with
`K = loopK` (every request kind but the breaker's four): the loop never talks to the breaker and never
touches the execution context — only the `Policy.*` procedures do.  (Used by C07–C09.) -/

namespace Redress
open Retry

def loopK : Kind → Bool
  | .breakerAllow | .breakerSuccess | .breakerFailure | .breakerCancel => false
  | _ => true

/-- `Ext` on the projections: the log grew by exchanges of kinds in `K`; execution context and
    embedded breaker are the same -/
structure ExtP (K : Kind → Bool) (tr : List (Req × Ans)) (xc : XCtx) (br : Breaker.St)
    (tr' : List (Req × Ans)) (xc' : XCtx) (br' : Breaker.St) : Prop where
  trace : ∃ δ, tr' = δ ++ tr ∧ ∀ x ∈ δ, K x.1.kind = true
  xc : xc' = xc
  breaker : br' = br

/-- `w'` arises from `w` by appending exchanges whose request kinds satisfy `K` (and anything that
    does not touch the log, the policy's `ExecutionContext` or the embedded breaker) -/
def Ext (K : Kind → Bool) (w w' : World) : Prop :=
  ExtP K w.trace w.xc w.breaker w'.trace w'.xc w'.breaker

theorem ExtP.refl (K : Kind → Bool) (tr : List (Req × Ans)) (xc : XCtx) (br : Breaker.St) :
    ExtP K tr xc br tr xc br := ⟨⟨[], by simp, by simp⟩, rfl, rfl⟩

theorem ExtP.trans {K : Kind → Bool} {t₁ t₂ t₃ : List (Req × Ans)} {x₁ x₂ x₃ : XCtx}
    {b₁ b₂ b₃ : Breaker.St} (h₁ : ExtP K t₁ x₁ b₁ t₂ x₂ b₂) (h₂ : ExtP K t₂ x₂ b₂ t₃ x₃ b₃) :
    ExtP K t₁ x₁ b₁ t₃ x₃ b₃ := by
  obtain ⟨δ₁, e₁, k₁⟩ := h₁.trace
  obtain ⟨δ₂, e₂, k₂⟩ := h₂.trace
  refine ⟨⟨δ₂ ++ δ₁, by simp [e₂, e₁], ?_⟩, by rw [h₂.xc, h₁.xc], by rw [h₂.breaker, h₁.breaker]⟩
  intro x hx
  rcases List.mem_append.mp hx with h | h
  · exact k₂ x h
  · exact k₁ x h

/-- one exchange logged -/
theorem ExtP.cons {K : Kind → Bool} (r : Req) (a : Ans) (tr : List (Req × Ans)) (xc : XCtx)
    (br : Breaker.St) (hk : K r.kind = true) : ExtP K tr xc br ((r, a) :: tr) xc br :=
  ⟨⟨[(r, a)], by simp, by simp [hk]⟩, rfl, rfl⟩

theorem Ext.refl (K : Kind → Bool) (w : World) : Ext K w w := ExtP.refl ..

theorem Ext.trans {K : Kind → Bool} {w₁ w₂ w₃ : World} (h₁ : Ext K w₁ w₂) (h₂ : Ext K w₂ w₃) :
    Ext K w₁ w₃ := ExtP.trans h₁ h₂

theorem Ext.mono {K K' : Kind → Bool} {w w' : World} (h : Ext K w w')
    (hk : ∀ k, K k = true → K' k = true) : Ext K' w w' := by
  obtain ⟨δ, e, k⟩ := h.trace
  exact ⟨⟨δ, e, fun x hx => hk _ (k x hx)⟩, h.xc, h.breaker⟩

abbrev extPost (K : Kind → Bool) (w0 : World) : PostCond α (.except Exn (.arg World .pure)) :=
  post⟨fun _ w => ⌜Ext K w0 w⌝, fun _ w => ⌜Ext K w0 w⌝⟩

syntax "ext_chain" : tactic
macro_rules
  | `(tactic| ext_chain) => `(tactic| first
      | assumption
      | exact ExtP.refl _ _ _ _
      | exact ExtP.cons _ _ _ _ _ (by first | assumption | rfl)
      | (refine ExtP.trans (by assumption) ?_; ext_chain))

macro "ext_close" : tactic => `(tactic| all_goals (
  (try subst_vars) <;> (try intros) <;>
  (try simp +zetaDelta only [Ext, restore_dummy, true_and, and_true, ne_eq, reduceCtorEq, not_false_eq_true,
    false_implies, implies_true, forall_const] at *) <;>
  first
    | assumption
    | rfl
    | ext_chain
    | (simp_all; done)
    | skip))

section
variable (K : Kind → Bool) (w0 : World)

theorem ask_ext (r : Req) (hk : K r.kind = true) :
    ⦃fun w => ⌜Ext K w0 w⌝⦄ ask r ⦃extPost K w0⦄ := by
  mvcgen [ask]
  ext_close


theorem askHook_ext (r : Req) (hk : K r.kind = true) :
    ⦃fun w => ⌜Ext K w0 w⌝⦄ askHook r ⦃extPost K w0⦄ :=
  askHook_triple r (ask_ext K w0 r hk) (fun w h => presil_cases (Ext K w0) w (fun _ => h))

attribute [local spec] ask_ext askHook_ext
end

section loopProcs
variable (w0 : World)

theorem ask_loop (r : Req) (hk : loopK r.kind = true) :
    ⦃fun w => ⌜Ext loopK w0 w⌝⦄ ask r ⦃extPost loopK w0⦄ := ask_ext loopK w0 r hk
theorem askHook_loop (r : Req) (hk : loopK r.kind = true) :
    ⦃fun w => ⌜Ext loopK w0 w⌝⦄ askHook r ⦃extPost loopK w0⦄ := askHook_ext loopK w0 r hk
end loopProcs
attribute [local spec] ask_loop askHook_loop

theorem askMetric_ext (w0 : World) (ev : Event) (a s : Nat) (t : Tags) :
    ⦃fun w => ⌜Ext loopK w0 w⌝⦄ askMetric ev a s t ⦃extPost loopK w0⦄ := by
  mvcgen [askMetric]
  ext_close
attribute [local spec] askMetric_ext

theorem askLog_ext (w0 : World) (ev : Event) (a s : Nat) (t : Tags) (ra : Option Int) :
    ⦃fun w => ⌜Ext loopK w0 w⌝⦄ askLog ev a s t ra ⦃extPost loopK w0⦄ := by
  mvcgen [askLog]
  ext_close
attribute [local spec] askLog_ext

theorem setStop_ext (w0 : World) (s : StopReason) :
    ⦃fun w => ⌜Ext loopK w0 w⌝⦄ setStop s ⦃extPost loopK w0⦄ := by
  mvcgen [setStop, modifyRS]
  ext_close
attribute [local spec] setStop_ext

theorem recordTimeline_ext (w0 : World) (ev : Event) (a s : Nat) (t : Tags) :
    ⦃fun w => ⌜Ext loopK w0 w⌝⦄ recordTimeline ev a s t ⦃extPost loopK w0⦄ := by
  mvcgen [recordTimeline]
  ext_close
attribute [local spec] recordTimeline_ext

theorem metricHook_ext (w0 : World) (cfg : Cfg) (tl : Bool) (ev : Event) (a s : Nat) (t : Tags) :
    ⦃fun w => ⌜Ext loopK w0 w⌝⦄ metricHook cfg tl ev a s t ⦃extPost loopK w0⦄ := by
  mvcgen [metricHook]
  ext_close
attribute [local spec] metricHook_ext

theorem emit_ext (w0 : World) (cfg : Cfg) (tl : Bool) (ev : Event) (attempt sleep : Nat) (klass : Option EClass) (exc : Option Exn) (stop : Option StopReason) (cause : Option Cause) (cls : Option Classification) :
    ⦃fun w => ⌜Ext loopK w0 w⌝⦄ emit cfg tl ev attempt sleep klass exc stop cause cls ⦃extPost loopK w0⦄ := by
  mvcgen [emit, swallowException]
  ext_close
attribute [local spec] emit_ext

theorem checkAbort_ext (w0 : World) (cfg : Cfg) (tl : Bool) (attempt : Nat) :
    ⦃fun w => ⌜Ext loopK w0 w⌝⦄ checkAbort cfg tl attempt ⦃extPost loopK w0⦄ := by
  mvcgen [checkAbort]
  ext_close
attribute [local spec] checkAbort_ext

theorem retryRecordFailure_ext (w0 : World) (c : Classification) (cause : Cause) (e : Option Exn) (r : Option Nat) :
    ⦃fun w => ⌜Ext loopK w0 w⌝⦄ Retry.recordFailure c cause e r ⦃extPost loopK w0⦄ := by
  mvcgen [Retry.recordFailure, modifyRS]
  ext_close
attribute [local spec] retryRecordFailure_ext

theorem recordStrategySuccess_ext (w0 : World) (cfg : Cfg) :
    ⦃fun w => ⌜Ext loopK w0 w⌝⦄ recordStrategySuccess cfg ⦃extPost loopK w0⦄ := by
  mvcgen [recordStrategySuccess, getRS]
  ext_close
attribute [local spec] recordStrategySuccess_ext

theorem callStrategy_ext (w0 : World) (key : SKey) (kind : SKind) (ctx : BackoffCtx) :
    ⦃fun w => ⌜Ext loopK w0 w⌝⦄ callStrategy key kind ctx ⦃extPost loopK w0⦄ := by
  mvcgen [callStrategy]
  ext_close
attribute [local spec] callStrategy_ext

theorem stratRecordFailure_ext (w0 : World) (cfg : Cfg) (key : SKey) (k : EClass) :
    ⦃fun w => ⌜Ext loopK w0 w⌝⦄ stratRecordFailure cfg key k ⦃extPost loopK w0⦄ := by
  mvcgen [stratRecordFailure]
  ext_close
attribute [local spec] stratRecordFailure_ext

theorem budgetConsume_ext (w0 : World) (cfg : Cfg) :
    ⦃fun w => ⌜Ext loopK w0 w⌝⦄ budgetConsume cfg ⦃extPost loopK w0⦄ := by
  mvcgen [budgetConsume]
  ext_close
attribute [local spec] budgetConsume_ext

theorem stopWith_ext (w0 : World) (cfg : Cfg) (tl : Bool) (s : StopReason) (ev : Event) (attempt : Nat) (k : EClass) (exc : Option Exn) (cause : Cause) :
    ⦃fun w => ⌜Ext loopK w0 w⌝⦄ stopWith cfg tl s ev attempt k exc cause ⦃extPost loopK w0⦄ := by
  mvcgen [stopWith]
  ext_close
attribute [local spec] stopWith_ext

theorem grantRetry_ext (w0 : World) (cfg : Cfg) (tl : Bool) (c : Classification) (a : Nat) (cause : Cause) (e : Option Exn) (key : SKey) (kind : SKind) (rem : Nat) :
    ⦃fun w => ⌜Ext loopK w0 w⌝⦄ grantRetry cfg tl c a cause e key kind rem ⦃extPost loopK w0⦄ := by
  mvcgen [grantRetry, getRS, modifyRS]
  ext_close
attribute [local spec] grantRetry_ext

theorem handleFailure2_ext (w0 : World) (cfg : Cfg) (tl : Bool) (c : Classification) (a : Nat) (cause : Cause) (e : Option Exn) :
    ⦃fun w => ⌜Ext loopK w0 w⌝⦄ handleFailure2 cfg tl c a cause e ⦃extPost loopK w0⦄ := by
  mvcgen [handleFailure2, elapsed, modifyRS]
  ext_close
attribute [local spec] handleFailure2_ext

theorem handleUnknown_ext (w0 : World) (cfg : Cfg) (tl : Bool) (c : Classification) (a : Nat) (cause : Cause) (e : Option Exn) :
    ⦃fun w => ⌜Ext loopK w0 w⌝⦄ handleUnknown cfg tl c a cause e ⦃extPost loopK w0⦄ := by
  mvcgen [handleUnknown, getRS, modifyRS]
  ext_close
attribute [local spec] handleUnknown_ext

theorem handleFailure1_ext (w0 : World) (cfg : Cfg) (tl : Bool) (c : Classification) (a : Nat) (cause : Cause) (e : Option Exn) :
    ⦃fun w => ⌜Ext loopK w0 w⌝⦄ handleFailure1 cfg tl c a cause e ⦃extPost loopK w0⦄ := by
  mvcgen [handleFailure1, getRS]
  ext_close
attribute [local spec] handleFailure1_ext

theorem handleFailure_ext (w0 : World) (cfg : Cfg) (tl : Bool) (c : Classification) (a : Nat) (cause : Cause) (e : Option Exn) (r : Option Nat) :
    ⦃fun w => ⌜Ext loopK w0 w⌝⦄ handleFailure cfg tl c a cause e r ⦃extPost loopK w0⦄ := by
  mvcgen [handleFailure, modifyRS]
  ext_close
attribute [local spec] handleFailure_ext

theorem callClassifier_ext (w0 : World) (e : Exn) :
    ⦃fun w => ⌜Ext loopK w0 w⌝⦄ callClassifier e ⦃extPost loopK w0⦄ := by
  mvcgen [callClassifier]
  ext_close
attribute [local spec] callClassifier_ext

theorem handleException_ext (w0 : World) (cfg : Cfg) (tl : Bool) (e : Exn) (a : Nat) :
    ⦃fun w => ⌜Ext loopK w0 w⌝⦄ handleException cfg tl e a ⦃extPost loopK w0⦄ := by
  mvcgen [handleException]
  ext_close
attribute [local spec] handleException_ext

theorem buildOutcome_ext (w0 : World) (ok : Bool) (value : Option Nat) (n : Nat) (ns : Option Nat) :
    ⦃fun w => ⌜Ext loopK w0 w⌝⦄ buildOutcome ok value n ns ⦃extPost loopK w0⦄ := by
  mvcgen [buildOutcome, getRS, elapsed]
  ext_close
attribute [local spec] buildOutcome_ext

theorem emitAbortedOnce_ext (w0 : World) (cfg : Cfg) (tl : Bool) (a : Nat) :
    ⦃fun w => ⌜Ext loopK w0 w⌝⦄ emitAbortedOnce cfg tl a ⦃extPost loopK w0⦄ := by
  mvcgen [emitAbortedOnce, getRS]
  ext_close
attribute [local spec] emitAbortedOnce_ext

theorem abortOutcome_ext (w0 : World) (cfg : Cfg) (tl : Bool) (a : Nat) :
    ⦃fun w => ⌜Ext loopK w0 w⌝⦄ abortOutcome cfg tl a ⦃extPost loopK w0⦄ := by
  mvcgen [abortOutcome]
  ext_close
attribute [local spec] abortOutcome_ext

theorem callAttemptStart_ext (w0 : World) (cfg : Cfg) (a : Nat) :
    ⦃fun w => ⌜Ext loopK w0 w⌝⦄ callAttemptStart cfg a ⦃extPost loopK w0⦄ := by
  mvcgen [callAttemptStart, elapsed]
  ext_close
attribute [local spec] callAttemptStart_ext

theorem callAttemptEnd_ext (w0 : World) (cfg : Cfg) (attempt : Nat) (cls : Option Classification) (exc : Option Exn) (result : Option Nat) (d : AttemptDecision) (stop : Option StopReason) (cause : Option Cause) (sleep : Option Nat) :
    ⦃fun w => ⌜Ext loopK w0 w⌝⦄ callAttemptEnd cfg attempt cls exc result d stop cause sleep ⦃extPost loopK w0⦄ := by
  mvcgen [callAttemptEnd, elapsed]
  ext_close
attribute [local spec] callAttemptEnd_ext

theorem callAttemptEndFromOutcome_ext (w0 : World) (cfg : Cfg) (a : Nat) (o : AOutcome) :
    ⦃fun w => ⌜Ext loopK w0 w⌝⦄ callAttemptEndFromOutcome cfg a o ⦃extPost loopK w0⦄ := by
  mvcgen [callAttemptEndFromOutcome]
  ext_close
attribute [local spec] callAttemptEndFromOutcome_ext

theorem finalizeAttempt_ext (w0 : World) (cfg : Cfg) (tl : Bool) (a : Nat) (d : Decision) (act : Option SleepDecision) (cls : Option Classification) (e : Option Exn) (r : Option Nat) (c : Option Cause) :
    ⦃fun w => ⌜Ext loopK w0 w⌝⦄ finalizeAttempt cfg tl a d act cls e r c ⦃extPost loopK w0⦄ := by
  mvcgen [finalizeAttempt, getRS, elapsed]
  ext_close
attribute [local spec] finalizeAttempt_ext

theorem handleSleepDecision_ext (w0 : World) (cfg : Cfg) (tl : Bool) (act : SleepDecision) (a s : Nat) :
    ⦃fun w => ⌜Ext loopK w0 w⌝⦄ handleSleepDecision cfg tl act a s ⦃extPost loopK w0⦄ := by
  mvcgen [handleSleepDecision, getRS]
  ext_close
attribute [local spec] handleSleepDecision_ext

theorem callBeforeSleep_ext (w0 : World) (cfg : Cfg) (ctx : BackoffCtx) (s : Nat) :
    ⦃fun w => ⌜Ext loopK w0 w⌝⦄ callBeforeSleep cfg ctx s ⦃extPost loopK w0⦄ := by
  mvcgen [callBeforeSleep, swallowException]
  ext_close
attribute [local spec] callBeforeSleep_ext

theorem callSleeper_ext (w0 : World) (cfg : Cfg) (s : Nat) :
    ⦃fun w => ⌜Ext loopK w0 w⌝⦄ callSleeper cfg s ⦃extPost loopK w0⦄ := by
  mvcgen [callSleeper]
  ext_close
attribute [local spec] callSleeper_ext

theorem callSleepHandler_ext (w0 : World) (lvl : Lvl) (ctx : BackoffCtx) (s : Nat) :
    ⦃fun w => ⌜Ext loopK w0 w⌝⦄ callSleepHandler lvl ctx s ⦃extPost loopK w0⦄ := by
  mvcgen [callSleepHandler]
  ext_close
attribute [local spec] callSleepHandler_ext

theorem sleepAction_ext (w0 : World) (cfg : Cfg) (tl : Bool) (a s : Nat) (ctx : BackoffCtx) :
    ⦃fun w => ⌜Ext loopK w0 w⌝⦄ sleepAction cfg tl a s ctx ⦃extPost loopK w0⦄ := by
  mvcgen [sleepAction]
  ext_close
attribute [local spec] sleepAction_ext

theorem failureOutcome_ext (w0 : World) (cfg : Cfg) (tl : Bool) (a : Nat) (d : Decision) (cls : Option Classification) (e : Option Exn) (r : Option Nat) (c : Option Cause) :
    ⦃fun w => ⌜Ext loopK w0 w⌝⦄ failureOutcome cfg tl a d cls e r c ⦃extPost loopK w0⦄ := by
  mvcgen [failureOutcome]
  ext_close
attribute [local spec] failureOutcome_ext

theorem shouldClassifyResult_ext (w0 : World) (cfg : Cfg) (x : Nat) :
    ⦃fun w => ⌜Ext loopK w0 w⌝⦄ shouldClassifyResult cfg x ⦃extPost loopK w0⦄ := by
  mvcgen [shouldClassifyResult]
  ext_close
attribute [local spec] shouldClassifyResult_ext

theorem handleSuccessAttemptEnd_ext (w0 : World) (cfg : Cfg) (tl : Bool) (a x : Nat) :
    ⦃fun w => ⌜Ext loopK w0 w⌝⦄ handleSuccessAttemptEnd cfg tl a x ⦃extPost loopK w0⦄ := by
  mvcgen [handleSuccessAttemptEnd]
  ext_close
attribute [local spec] handleSuccessAttemptEnd_ext

theorem handleAbortAttemptEnd_ext (w0 : World) (cfg : Cfg) (a : Nat) (e : Exn) :
    ⦃fun w => ⌜Ext loopK w0 w⌝⦄ handleAbortAttemptEnd cfg a e ⦃extPost loopK w0⦄ := by
  mvcgen [handleAbortAttemptEnd, getAS, modifyAS]
  ext_close
attribute [local spec] handleAbortAttemptEnd_ext

theorem emitMaxAttemptsExceeded_ext (w0 : World) (cfg : Cfg) (tl : Bool) :
    ⦃fun w => ⌜Ext loopK w0 w⌝⦄ emitMaxAttemptsExceeded cfg tl ⦃extPost loopK w0⦄ := by
  mvcgen [emitMaxAttemptsExceeded, getRS]
  ext_close
attribute [local spec] emitMaxAttemptsExceeded_ext

theorem raiseExhaustedCall_ext (w0 : World) (cfg : Cfg) :
    ⦃fun w => ⌜Ext loopK w0 w⌝⦄ raiseExhaustedCall cfg ⦃extPost loopK w0⦄ := by
  mvcgen [raiseExhaustedCall, getRS]
  ext_close
attribute [local spec] raiseExhaustedCall_ext

theorem invokeOp_ext (w0 : World) (a : Nat) :
    ⦃fun w => ⌜Ext loopK w0 w⌝⦄ invokeOp a ⦃extPost loopK w0⦄ := by
  mvcgen [invokeOp]
  ext_close
attribute [local spec] invokeOp_ext

theorem deliverCall_ext (w0 : World) (act : Action) (orig : Option Exn) (fb : ExhaustedFields) :
    ⦃fun w => ⌜Ext loopK w0 w⌝⦄ deliverCall act orig fb ⦃extPost loopK w0⦄ := by
  mvcgen [deliverCall]
  ext_close
attribute [local spec] deliverCall_ext

theorem callExceptionPath_ext (w0 : World) (cfg : Cfg) (a : Nat) (e : Exn) :
    ⦃fun w => ⌜Ext loopK w0 w⌝⦄ callExceptionPath cfg a e ⦃extPost loopK w0⦄ := by
  mvcgen [callExceptionPath, getRS, modifyAS]
  ext_close
attribute [local spec] callExceptionPath_ext

theorem callOpHandler_ext (w0 : World) (cfg : Cfg) (a : Nat) (e : Exn) :
    ⦃fun w => ⌜Ext loopK w0 w⌝⦄ callOpHandler cfg a e ⦃extPost loopK w0⦄ := by
  mvcgen [callOpHandler]
  ext_close
attribute [local spec] callOpHandler_ext

theorem callResultFailure_ext (w0 : World) (cfg : Cfg) (a x : Nat) (c : Classification) :
    ⦃fun w => ⌜Ext loopK w0 w⌝⦄ callResultFailure cfg a x c ⦃extPost loopK w0⦄ := by
  mvcgen [callResultFailure, getRS, modifyAS]
  ext_close
attribute [local spec] callResultFailure_ext

theorem callResultPath_ext (w0 : World) (cfg : Cfg) (a x : Nat) :
    ⦃fun w => ⌜Ext loopK w0 w⌝⦄ callResultPath cfg a x ⦃extPost loopK w0⦄ := by
  mvcgen [callResultPath]
  ext_close
attribute [local spec] callResultPath_ext

theorem callAttempt_ext (w0 : World) (cfg : Cfg) (a : Nat) :
    ⦃fun w => ⌜Ext loopK w0 w⌝⦄ callAttempt cfg a ⦃extPost loopK w0⦄ := by
  mvcgen [callAttempt, modifyAS]
  ext_close
attribute [local spec] callAttempt_ext

theorem callLoop_ext (w0 : World) (cfg : Cfg) : ∀ (fuel a : Nat),
    ⦃fun w => ⌜Ext loopK w0 w⌝⦄ callLoop cfg fuel a ⦃extPost loopK w0⦄ := by
  intro fuel
  induction fuel with
  | zero => intro a; mvcgen [callLoop]; ext_close
  | succ f ih =>
    intro a
    have h := ih (a + 1)
    mvcgen [callLoop, h]
    ext_close
attribute [local spec] callLoop_ext

theorem initState_ext (w0 : World)  :
    ⦃fun w => ⌜Ext loopK w0 w⌝⦄ initState ⦃extPost loopK w0⦄ := by
  mvcgen [initState]
  ext_close
attribute [local spec] initState_ext

theorem runCall_ext (w0 : World) (cfg : Cfg) :
    ⦃fun w => ⌜Ext loopK w0 w⌝⦄ runCall cfg ⦃extPost loopK w0⦄ := by
  mvcgen [runCall]
  ext_close
attribute [local spec] runCall_ext

theorem deliverExecute_ext (w0 : World) (cfg : Cfg) (tl : Bool) (act : Action) (o : AOutcome) :
    ⦃fun w => ⌜Ext loopK w0 w⌝⦄ deliverExecute cfg tl act o ⦃extPost loopK w0⦄ := by
  mvcgen [deliverExecute]
  ext_close
attribute [local spec] deliverExecute_ext

theorem execResultFailure_ext (w0 : World) (cfg : Cfg) (tl : Bool) (a x : Nat) (c : Classification) :
    ⦃fun w => ⌜Ext loopK w0 w⌝⦄ execResultFailure cfg tl a x c ⦃extPost loopK w0⦄ := by
  mvcgen [execResultFailure, getRS, modifyAS]
  ext_close
attribute [local spec] execResultFailure_ext

theorem execPre_ext (w0 : World) (cfg : Cfg) (tl : Bool) (a : Nat) :
    ⦃fun w => ⌜Ext loopK w0 w⌝⦄ execPre cfg tl a ⦃extPost loopK w0⦄ := by
  mvcgen [execPre, modifyAS]
  ext_close
attribute [local spec] execPre_ext

theorem execResultPath_ext (w0 : World) (cfg : Cfg) (tl : Bool) (a x : Nat) :
    ⦃fun w => ⌜Ext loopK w0 w⌝⦄ execResultPath cfg tl a x ⦃extPost loopK w0⦄ := by
  mvcgen [execResultPath]
  ext_close
attribute [local spec] execResultPath_ext

theorem execAbortExit_ext (w0 : World) (cfg : Cfg) (tl : Bool) (a : Nat) (e : Exn) :
    ⦃fun w => ⌜Ext loopK w0 w⌝⦄ execAbortExit cfg tl a e ⦃extPost loopK w0⦄ := by
  mvcgen [execAbortExit]
  ext_close
attribute [local spec] execAbortExit_ext

theorem checkAbortCaught_ext (w0 : World) (cfg : Cfg) (tl : Bool) (a : Nat) :
    ⦃fun w => ⌜Ext loopK w0 w⌝⦄ checkAbortCaught cfg tl a ⦃extPost loopK w0⦄ := by
  mvcgen [checkAbortCaught, abortToTrue]
  ext_close
attribute [local spec] checkAbortCaught_ext

theorem execExceptionPath3_ext (w0 : World) (cfg : Cfg) (tl : Bool) (a : Nat) (e : Exn) (d : Decision) :
    ⦃fun w => ⌜Ext loopK w0 w⌝⦄ execExceptionPath3 cfg tl a e d ⦃extPost loopK w0⦄ := by
  mvcgen [execExceptionPath3, getRS, modifyAS]
  ext_close
attribute [local spec] execExceptionPath3_ext

theorem execExceptionPath2_ext (w0 : World) (cfg : Cfg) (tl : Bool) (a : Nat) (e : Exn) :
    ⦃fun w => ⌜Ext loopK w0 w⌝⦄ execExceptionPath2 cfg tl a e ⦃extPost loopK w0⦄ := by
  mvcgen [execExceptionPath2, getRS, modifyAS]
  ext_close
attribute [local spec] execExceptionPath2_ext

theorem execExceptionPath_ext (w0 : World) (cfg : Cfg) (tl : Bool) (a : Nat) (e : Exn) :
    ⦃fun w => ⌜Ext loopK w0 w⌝⦄ execExceptionPath cfg tl a e ⦃extPost loopK w0⦄ := by
  mvcgen [execExceptionPath, modifyAS]
  ext_close
attribute [local spec] execExceptionPath_ext

theorem execHandler_ext (w0 : World) (cfg : Cfg) (tl : Bool) (a : Nat) (e : Exn) :
    ⦃fun w => ⌜Ext loopK w0 w⌝⦄ execHandler cfg tl a e ⦃extPost loopK w0⦄ := by
  mvcgen [execHandler]
  ext_close
attribute [local spec] execHandler_ext

theorem execReturnedHandler_ext (w0 : World) (cfg : Cfg) (tl : Bool) (a : Nat) (e : Exn) :
    ⦃fun w => ⌜Ext loopK w0 w⌝⦄ execReturnedHandler cfg tl a e ⦃extPost loopK w0⦄ := by
  mvcgen [execReturnedHandler]
  ext_close
attribute [local spec] execReturnedHandler_ext

theorem execAttempt_ext (w0 : World) (cfg : Cfg) (tl : Bool) (a : Nat) :
    ⦃fun w => ⌜Ext loopK w0 w⌝⦄ execAttempt cfg tl a ⦃extPost loopK w0⦄ := by
  mvcgen [execAttempt]
  ext_close
attribute [local spec] execAttempt_ext

theorem buildExhaustedOutcome_ext (w0 : World) (cfg : Cfg) (tl : Bool) :
    ⦃fun w => ⌜Ext loopK w0 w⌝⦄ buildExhaustedOutcome cfg tl ⦃extPost loopK w0⦄ := by
  mvcgen [buildExhaustedOutcome]
  ext_close
attribute [local spec] buildExhaustedOutcome_ext

theorem execLoop_ext (w0 : World) (cfg : Cfg) (tl : Bool) : ∀ (fuel a : Nat),
    ⦃fun w => ⌜Ext loopK w0 w⌝⦄ execLoop cfg tl fuel a ⦃extPost loopK w0⦄ := by
  intro fuel
  induction fuel with
  | zero => intro a; mvcgen [execLoop]; ext_close
  | succ f ih =>
    intro a
    have h := ih (a + 1)
    mvcgen [execLoop, h]
    ext_close
attribute [local spec] execLoop_ext

theorem runExecute_ext (w0 : World) (cfg : Cfg) :
    ⦃fun w => ⌜Ext loopK w0 w⌝⦄ runExecute cfg ⦃extPost loopK w0⦄ := by
  mvcgen [runExecute]
  ext_close
attribute [local spec] runExecute_ext


end Redress

/-! ## A third relation: quiet exchanges, exact time, and how a leaf fails  (used by C03, C10-policy)

`FootQ R w w'`: `w'` arises from `w` by appending exchanges whose REQUESTS satisfy `R` and whose
answers are *quiet* (not a `raise`, or a `raise` of an `Exception` by an observability hook, which the
library swallows); the clock advanced by exactly the durations of those answers; `rs` is unchanged
(procedures that set `last_stop_reason` are not leaves in this sense).  `FootE R e w w'`: the same, except that the procedure failed with `e` because
the newest exchange is the `raise e` (all earlier ones quiet). -/

namespace Redress
open Retry

/-- total duration of a list of exchanges -/
def dsum : List (Req × Ans) → Nat
  | [] => 0
  | x :: t => x.2.dur + dsum t

theorem dsum_append (a b : List (Req × Ans)) : dsum (a ++ b) = dsum a + dsum b := by
  induction a with
  | nil => simp [dsum]
  | cons x a ih => simp [dsum, ih]; omega

/-- hooks whose `Exception`s the library swallows -/
def swallowedReq : Req → Bool
  | .metric .. | .log .. | .beforeSleep .. => true
  | _ => false

/-- an exchange after which the procedure that made it goes on -/
def quietX (x : Req × Ans) : Bool :=
  match x.2 with
  | .raise e _ => swallowedReq x.1 && e.isException
  | _ => true

def QuietAll (R : Req → Bool) (δ : List (Req × Ans)) : Prop := ∀ x ∈ δ, R x.1 = true ∧ quietX x = true

structure FootQ (R : Req → Bool) (w w' : World) : Prop where
  trace : ∃ δ, w'.trace = δ ++ w.trace ∧ QuietAll R δ ∧ w'.now = w.now + dsum δ
  rs : w'.rs = w.rs
  attempts : w'.attempts = w.attempts
  opCalls : w'.opCalls = w.opCalls
  returned : w'.as.returned = w.as.returned

structure FootE (R : Req → Bool) (e : Exn) (w w' : World) : Prop where
  trace : ∃ δ, w'.trace = δ ++ w.trace ∧ w'.now = w.now + dsum δ ∧
    ∃ r d δ', δ = (r, Ans.raise e d) :: δ' ∧ R r = true ∧ QuietAll R δ'
  rs : w'.rs = w.rs
  attempts : w'.attempts = w.attempts
  opCalls : w'.opCalls = w.opCalls
  returned : w'.as.returned = w.as.returned

theorem QuietAll.nil (R : Req → Bool) : QuietAll R [] := by intro x hx; cases hx

theorem QuietAll.append {R : Req → Bool} {a b : List (Req × Ans)} (ha : QuietAll R a) (hb : QuietAll R b) :
    QuietAll R (a ++ b) := by
  intro x hx
  rcases List.mem_append.mp hx with h | h
  · exact ha x h
  · exact hb x h

theorem FootQ.refl (R : Req → Bool) (w : World) : FootQ R w w :=
  ⟨⟨[], by simp, QuietAll.nil R, by simp [dsum]⟩, rfl, rfl, rfl, rfl⟩

theorem FootQ.trans {R : Req → Bool} {w₁ w₂ w₃ : World} (h₁ : FootQ R w₁ w₂) (h₂ : FootQ R w₂ w₃) :
    FootQ R w₁ w₃ := by
  obtain ⟨δ₁, e₁, q₁, t₁⟩ := h₁.trace
  obtain ⟨δ₂, e₂, q₂, t₂⟩ := h₂.trace
  refine ⟨⟨δ₂ ++ δ₁, by simp [e₂, e₁], q₂.append q₁, by rw [t₂, t₁, dsum_append]; omega⟩, ?_, ?_, ?_, ?_⟩
  · rw [h₂.rs, h₁.rs]
  · rw [h₂.attempts, h₁.attempts]
  · rw [h₂.opCalls, h₁.opCalls]
  · rw [h₂.returned, h₁.returned]

theorem FootE.trans_left {R : Req → Bool} {e : Exn} {w₁ w₂ w₃ : World} (h₁ : FootQ R w₁ w₂)
    (h₂ : FootE R e w₂ w₃) : FootE R e w₁ w₃ := by
  obtain ⟨δ₁, e₁, q₁, t₁⟩ := h₁.trace
  obtain ⟨δ₂, e₂, t₂, c⟩ := h₂.trace
  refine ⟨⟨δ₂ ++ δ₁, by simp [e₂, e₁], by rw [t₂, t₁, dsum_append]; omega, ?_⟩, ?_, ?_, ?_, ?_⟩
  · obtain ⟨r, d, δ', hd, hr, q'⟩ := c
    exact ⟨r, d, δ' ++ δ₁, by simp [hd], hr, q'.append q₁⟩
  · rw [h₂.rs, h₁.rs]
  · rw [h₂.attempts, h₁.attempts]
  · rw [h₂.opCalls, h₁.opCalls]
  · rw [h₂.returned, h₁.returned]

theorem FootQ.mono {R R' : Req → Bool} {w w' : World} (h : FootQ R w w')
    (hr : ∀ r, R r = true → R' r = true) : FootQ R' w w' := by
  obtain ⟨δ, e, q, t⟩ := h.trace
  exact ⟨⟨δ, e, fun x hx => ⟨hr _ (q x hx).1, (q x hx).2⟩, t⟩, h.rs, h.attempts, h.opCalls, h.returned⟩

theorem FootE.mono {R R' : Req → Bool} {e : Exn} {w w' : World} (h : FootE R e w w')
    (hr : ∀ r, R r = true → R' r = true) : FootE R' e w w' := by
  obtain ⟨δ, e₁, t, c⟩ := h.trace
  refine ⟨⟨δ, e₁, t, ?_⟩, h.rs, h.attempts, h.opCalls, h.returned⟩
  obtain ⟨r, d, δ', hd, hr', q'⟩ := c
  exact ⟨r, d, δ', hd, hr _ hr', fun x hx => ⟨hr _ (q' x hx).1, (q' x hx).2⟩⟩

/-- an `Exception` raised by a hook whose exceptions are swallowed: the procedure goes on -/
theorem FootE.swallow {R : Req → Bool} {e : Exn} {w w' : World} (h : FootE R e w w')
    (hs : ∀ r, R r = true → swallowedReq r = true) (he : e.isException = true) : FootQ R w w' := by
  obtain ⟨δ, e₁, t, c⟩ := h.trace
  refine ⟨⟨δ, e₁, ?_, t⟩, h.rs, h.attempts, h.opCalls, h.returned⟩
  obtain ⟨r, d, δ', hd, hr', q'⟩ := c
  subst hd
  intro x hx
  rcases List.mem_cons.mp hx with rfl | hx
  · exact ⟨hr', by simp [quietX, hs r hr', he]⟩
  · exact q' x hx

/-- one quiet exchange -/
theorem FootQ.exchange {R : Req → Bool} (w : World) (r : Req) (a : Ans) (rest : List Ans)
    (hr : R r = true) (hq : quietX (r, a) = true) :
    FootQ R w { w with answers := rest, now := w.now + a.dur, trace := (r, a) :: w.trace } :=
  ⟨⟨[(r, a)], rfl, by intro x hx; simp at hx; subst hx; exact ⟨hr, hq⟩, by simp [dsum]⟩, rfl, rfl, rfl, rfl⟩

/-- one exchange answered by a raise -/
theorem FootE.exchange {R : Req → Bool} (w : World) (r : Req) (e : Exn) (d : Nat) (rest : List Ans)
    (hr : R r = true) :
    FootE R e w { w with answers := rest, now := w.now + (Ans.raise e d).dur, trace := (r, Ans.raise e d) :: w.trace } :=
  ⟨⟨[(r, Ans.raise e d)], rfl, by simp [dsum], ⟨r, d, [], rfl, hr, QuietAll.nil R⟩⟩, rfl, rfl, rfl, rfl⟩

/-- the oracle is exhausted: logged as a raise of `stuck` that takes no time -/
theorem FootE.stuck {R : Req → Bool} (w : World) (r : Req) (hr : R r = true) :
    FootE R .stuck w { w with trace := (r, Ans.raise .stuck 0) :: w.trace } :=
  ⟨⟨[(r, Ans.raise .stuck 0)], rfl, by simp [dsum, Ans.dur], ⟨r, 0, [], rfl, hr, QuietAll.nil R⟩⟩,
   rfl, rfl, rfl, rfl⟩

/-- changes outside the footprint's concern -/
theorem FootQ.frame {R : Req → Bool} (w : World) (as : AState)
    (tl : List TimelineEv) (tls : Nat) (bud : Budget.St) (br : Breaker.St) (xc : XCtx)
    (has : as.returned = w.as.returned) :
    FootQ R w { w with as := as, timeline := tl, tlStart := tls, budget := bud, breaker := br, xc := xc } :=
  ⟨⟨[], rfl, QuietAll.nil R, by simp [dsum]⟩, rfl, rfl, rfl, has⟩

/-- an interaction with an embedded component, logged without consuming an oracle answer -/
theorem FootQ.internal {R : Req → Bool} (w : World) (r : Req) (a : Ans) (bud : Budget.St)
    (br : Breaker.St) (xc : XCtx) (hr : R r = true) (hq : quietX (r, a) = true) (hd : a.dur = 0) :
    FootQ R w { w with trace := (r, a) :: w.trace, budget := bud, breaker := br, xc := xc } :=
  ⟨⟨[(r, a)], rfl, by intro x hx; simp at hx; subst hx; exact ⟨hr, hq⟩, by simp [dsum, hd]⟩, rfl, rfl, rfl, rfl⟩

end Redress

namespace Redress
open Retry

abbrev fqPost (R : Req → Bool) (w0 : World) : PostCond α (.except Exn (.arg World .pure)) :=
  post⟨fun _ w => ⌜FootQ R w0 w⌝, fun e w => ⌜FootE R e w0 w⌝⟩

theorem quietX_of_not_raise (r : Req) (a : Ans) (h : ∀ e d, a = Ans.raise e d → False) :
    quietX (r, a) = true := by
  cases a <;> simp_all [quietX]

syntax "fq_chain" : tactic
macro_rules
  | `(tactic| fq_chain) => `(tactic| first
      | assumption
      | exact FootQ.refl _ _
      | exact FootQ.frame _ _ _ _ _ _ _ rfl
      | exact FootQ.internal _ _ _ _ _ _ (by first | assumption | (simp_all; done)) rfl rfl
      | exact FootQ.exchange _ _ _ _ (by first | assumption | (simp_all; done)) (quietX_of_not_raise _ _ (by assumption))
      | exact FootE.exchange _ _ _ _ _ (by first | assumption | (simp_all; done))
      | exact FootE.stuck _ _ (by first | assumption | (simp_all; done))
      | (refine FootQ.trans (by assumption) ?_; fq_chain)
      | (refine FootE.trans_left (by assumption) ?_; fq_chain)
      | (refine FootQ.trans ?_ (by assumption); fq_chain)
      | (refine FootE.trans_left ?_ (by assumption); fq_chain))

macro "fq_close" : tactic => `(tactic| all_goals (
  (try subst_vars) <;> (try intros) <;> (try simp only [restore_dummy] at *) <;>
  (try simp only [true_and, and_true, ne_eq, reduceCtorEq, not_false_eq_true, false_implies, implies_true, forall_const]) <;>
  first
    | assumption
    | rfl
    | fq_chain
    | (simp_all; done)
    | (and_intros <;> first | assumption | rfl | fq_chain | (simp_all +zetaDelta; done))
    | skip))

/-- from a spec for a smaller request set (started anywhere) to one for a larger set -/
theorem fq_lift {α : Type} {x : M α} {R2 R : Req → Bool} (hr : ∀ r, R2 r = true → R r = true)
    (h : ∀ w0, ⦃fun w => ⌜FootQ R2 w0 w⌝⦄ x ⦃fqPost R2 w0⦄) (w0 : World) :
    ⦃fun w => ⌜FootQ R w0 w⌝⦄ x ⦃fqPost R w0⦄ := by
  apply triple_of_run
  intro w hw
  have := adequacy (h w) w (FootQ.refl R2 w)
  split <;> simp_all
  · exact hw.trans (this.mono hr)
  · exact FootE.trans_left hw (this.mono hr)

section
variable (R : Req → Bool) (w0 : World)

/-- `ask r`: one exchange for `r`; it fails exactly when the answer is a `raise` -/
theorem ask_fq (r : Req) (hr : R r = true) :
    ⦃fun w => ⌜FootQ R w0 w⌝⦄ ask r ⦃fqPost R w0⦄ := by
  mvcgen [ask]
  fq_close

theorem askHook_fq (r : Req) (hr : R r = true) :
    ⦃fun w => ⌜FootQ R w0 w⌝⦄ askHook r ⦃fqPost R w0⦄ :=
  askHook_triple r (ask_fq R w0 r hr)
    (fun w h => presil_cases (FootQ R w0) w (fun _ => ⟨h.1, h.2, h.3, h.4, h.5⟩))

attribute [local spec] ask_fq askHook_fq

theorem askMetric_fq (ev : Event) (a s : Nat) (t : Tags) (hm : R (.metric ev a s t) = true) :
    ⦃fun w => ⌜FootQ R w0 w⌝⦄ askMetric ev a s t ⦃fqPost R w0⦄ := by
  mvcgen [askMetric]
  fq_close

theorem askLog_fq (ev : Event) (a s : Nat) (t : Tags) (ra : Option Int) (hl : R (.log ev a s t ra) = true) :
    ⦃fun w => ⌜FootQ R w0 w⌝⦄ askLog ev a s t ra ⦃fqPost R w0⦄ := by
  mvcgen [askLog]
  fq_close

theorem recordTimeline_fq (ev : Event) (a s : Nat) (t : Tags) :
    ⦃fun w => ⌜FootQ R w0 w⌝⦄ recordTimeline ev a s t ⦃fqPost R w0⦄ := by
  mvcgen [recordTimeline]
  fq_close

end
end Redress

namespace Redress
open Retry

/-- inside `try: … except Exception: pass`: a swallowed failure is a quiet step -/
macro_rules
  | `(tactic| fq_chain) => `(tactic| first
      | exact FootE.swallow (by assumption) (by assumption) (by assumption)
      | (refine FootQ.trans (FootE.swallow (by assumption) (by assumption) (by assumption)) ?_; fq_chain)
      | (refine FootE.trans_left (FootE.swallow (by assumption) (by assumption) (by assumption)) ?_; fq_chain))

section
variable (R : Req → Bool) (w0 : World)

attribute [local spec] ask_fq askMetric_fq askLog_fq recordTimeline_fq

theorem metricHook_fq (cfg : Cfg) (tl : Bool) (ev : Event) (a s : Nat) (t : Tags)
    (hm : R (.metric ev a s t) = true) :
    ⦃fun w => ⌜FootQ R w0 w⌝⦄ metricHook cfg tl ev a s t ⦃fqPost R w0⦄ := by
  mvcgen [metricHook]
  fq_close

attribute [local spec] metricHook_fq

/-- `emit`, when every request it can make is one whose `Exception`s are swallowed -/
theorem emit_fq_aux (hs : ∀ r, R r = true → swallowedReq r = true) (cfg : Cfg) (tl : Bool) (ev : Event)
    (attempt sleep : Nat) (klass : Option EClass) (exc : Option Exn) (stop : Option StopReason)
    (cause : Option Cause) (cls : Option Classification)
    (hm : ∀ t, R (.metric ev attempt sleep t) = true) (hl : ∀ t ra, R (.log ev attempt sleep t ra) = true) :
    ⦃fun w => ⌜FootQ R w0 w⌝⦄ emit cfg tl ev attempt sleep klass exc stop cause cls ⦃fqPost R w0⦄ := by
  mvcgen [emit, swallowException]
  fq_close

end

/-- `emit`: requests only the metric / log hook for this event, and fails only when one of them
    raises something that is not an `Exception` -/
theorem emit_fq (R : Req → Bool) (w0 : World) (cfg : Cfg) (tl : Bool) (ev : Event)
    (attempt sleep : Nat) (klass : Option EClass) (exc : Option Exn) (stop : Option StopReason)
    (cause : Option Cause) (cls : Option Classification)
    (hm : ∀ t, R (.metric ev attempt sleep t) = true) (hl : ∀ t ra, R (.log ev attempt sleep t ra) = true) :
    ⦃fun w => ⌜FootQ R w0 w⌝⦄ emit cfg tl ev attempt sleep klass exc stop cause cls ⦃fqPost R w0⦄ :=
  fq_lift (R2 := fun r => R r && swallowedReq r) (by simp_all)
    (fun w0 => emit_fq_aux _ w0 (by simp_all) cfg tl ev attempt sleep klass exc stop cause cls
      (by simp [hm, swallowedReq]) (by simp [hl, swallowedReq])) w0

end Redress

namespace Redress
open Retry

section
variable (R : Req → Bool) (w0 : World)

attribute [local spec] ask_fq askHook_fq

theorem recordStrategySuccess_fq (cfg : Cfg) (hs : ∀ k, R (.stratRecordSuccess k) = true) :
    ⦃fun w => ⌜FootQ R w0 w⌝⦄ recordStrategySuccess cfg ⦃fqPost R w0⦄ := by
  mvcgen [recordStrategySuccess, getRS]
  fq_close

theorem stratRecordFailure_fq (cfg : Cfg) (key : SKey) (k : EClass) (hs : R (.stratRecordFailure key k) = true) :
    ⦃fun w => ⌜FootQ R w0 w⌝⦄ stratRecordFailure cfg key k ⦃fqPost R w0⦄ := by
  mvcgen [stratRecordFailure]
  fq_close

theorem callAttemptStart_fq (cfg : Cfg) (attempt : Nat) (hs : ∀ c, R (.attemptStart c) = true) :
    ⦃fun w => ⌜FootQ R w0 w⌝⦄ callAttemptStart cfg attempt ⦃fqPost R w0⦄ := by
  mvcgen [callAttemptStart, elapsed]
  fq_close

theorem callAttemptEnd_fq (cfg : Cfg) (attempt : Nat) (cls : Option Classification) (exc : Option Exn)
    (result : Option Nat) (d : AttemptDecision) (stop : Option StopReason) (cause : Option Cause)
    (sleep : Option Nat) (he : ∀ c, R (.attemptEnd c) = true) :
    ⦃fun w => ⌜FootQ R w0 w⌝⦄ callAttemptEnd cfg attempt cls exc result d stop cause sleep
    ⦃fqPost R w0⦄ := by
  mvcgen [callAttemptEnd, elapsed]
  fq_close

attribute [local spec] callAttemptEnd_fq recordStrategySuccess_fq

theorem callAttemptEndFromOutcome_fq (cfg : Cfg) (attempt : Nat) (o : AOutcome)
    (he : ∀ c, R (.attemptEnd c) = true) :
    ⦃fun w => ⌜FootQ R w0 w⌝⦄ callAttemptEndFromOutcome cfg attempt o ⦃fqPost R w0⦄ := by
  mvcgen [callAttemptEndFromOutcome]
  fq_close

theorem callBeforeSleep_fq_aux (hs : ∀ r, R r = true → swallowedReq r = true) (cfg : Cfg)
    (ctx : BackoffCtx) (sleep : Nat) (hb : ∀ lvl, R (.beforeSleep lvl ctx sleep) = true) :
    ⦃fun w => ⌜FootQ R w0 w⌝⦄ callBeforeSleep cfg ctx sleep ⦃fqPost R w0⦄ := by
  mvcgen [callBeforeSleep, swallowException]
  fq_close

theorem buildOutcome_fq (ok : Bool) (value : Option Nat) (attempts : Nat) (ns : Option Nat) :
    ⦃fun w => ⌜FootQ R w0 w⌝⦄ buildOutcome ok value attempts ns ⦃fqPost R w0⦄ := by
  mvcgen [buildOutcome, getRS, elapsed]
  fq_close

theorem handleAbortAttemptEnd_fq (cfg : Cfg) (attempt : Nat) (e : Exn) (he : ∀ c, R (.attemptEnd c) = true) :
    ⦃fun w => ⌜FootQ R w0 w⌝⦄ handleAbortAttemptEnd cfg attempt e ⦃fqPost R w0⦄ := by
  mvcgen [handleAbortAttemptEnd, getAS, modifyAS]
  fq_close

end

theorem callBeforeSleep_fq (R : Req → Bool) (w0 : World) (cfg : Cfg) (ctx : BackoffCtx) (sleep : Nat)
    (hb : ∀ lvl, R (.beforeSleep lvl ctx sleep) = true) :
    ⦃fun w => ⌜FootQ R w0 w⌝⦄ callBeforeSleep cfg ctx sleep ⦃fqPost R w0⦄ :=
  fq_lift (R2 := fun r => R r && swallowedReq r) (by simp_all)
    (fun w0 => callBeforeSleep_fq_aux _ w0 (by simp_all) cfg ctx sleep (by simp [hb, swallowedReq])) w0

theorem handleSuccessAttemptEnd_fq (R : Req → Bool) (w0 : World) (cfg : Cfg) (tl : Bool) (attempt v : Nat)
    (hm : ∀ t, R (.metric .success attempt 0 t) = true) (hl : ∀ t ra, R (.log .success attempt 0 t ra) = true)
    (hs : ∀ k, R (.stratRecordSuccess k) = true) (he : ∀ c, R (.attemptEnd c) = true) :
    ⦃fun w => ⌜FootQ R w0 w⌝⦄ handleSuccessAttemptEnd cfg tl attempt v ⦃fqPost R w0⦄ := by
  have h1 := fun w1 => recordStrategySuccess_fq R w1 cfg hs
  have h2 := fun w1 => emit_fq R w1 cfg tl .success attempt 0 none none none none none hm hl
  have h3 := fun w1 a b c d e f g => callAttemptEnd_fq R w1 cfg attempt a b c d e f g he
  mvcgen [handleSuccessAttemptEnd, h1, h2, h3]
  fq_close

end Redress

namespace Redress
open Retry Policy

/-- the events a breaker announces -/
def Event.isCircuit : Event → Bool
  | .circuitOpened | .circuitHalfOpen | .circuitClosed | .circuitRejected => true
  | _ => false

theorem Breaker.allow_ev (c : Breaker.Cfg) (s : Breaker.St) (now : Nat) (ev : Event)
    (h : (Breaker.allow c s now).1.2.2 = some ev) : ev.isCircuit = true := by
  unfold Breaker.allow at h
  split at h <;> (try simp +zeta only [] at h) <;> (try split at h) <;> simp at h <;> subst h <;> rfl

theorem Breaker.recordSuccess_ev (s : Breaker.St) (ev : Event)
    (h : (Breaker.recordSuccess s).1 = some ev) : ev.isCircuit = true := by
  unfold Breaker.recordSuccess at h
  split at h <;> simp at h; subst h; rfl

theorem Breaker.recordFailure_ev (c : Breaker.Cfg) (s : Breaker.St) (k : EClass) (now : Nat) (ev : Event)
    (h : (Breaker.recordFailure c s k now).1 = some ev) : ev.isCircuit = true := by
  unfold Breaker.recordFailure at h
  split at h <;> (try simp +zeta only [] at h) <;> (try split at h) <;> (try split at h) <;>
    (try split at h) <;> simp at h <;> subst h <;> rfl

section
variable (R : Req → Bool) (w0 : World)

attribute [local spec] ask_fq askMetric_fq askLog_fq

theorem emitBreakerEvent_fq_aux (hs : ∀ r, R r = true → swallowedReq r = true) (cfg : Cfg)
    (ev : Option Event) (st : CState) (k : Option EClass)
    (hm : ∀ ev', ev = some ev' → ∀ t, R (.metric ev' 0 0 t) = true)
    (hl : ∀ ev', ev = some ev' → ∀ t, R (.log ev' 0 0 t none) = true) :
    ⦃fun w => ⌜FootQ R w0 w⌝⦄ emitBreakerEvent cfg ev st k ⦃fqPost R w0⦄ := by
  mvcgen [emitBreakerEvent, swallowException]
  fq_close

end

/-- `_emit_breaker_event`: the metric / log hook for that event only -/
theorem emitBreakerEvent_fq (R : Req → Bool) (w0 : World) (cfg : Cfg) (ev : Option Event) (st : CState)
    (k : Option EClass)
    (hm : ∀ ev', ev = some ev' → ∀ t, R (.metric ev' 0 0 t) = true)
    (hl : ∀ ev', ev = some ev' → ∀ t, R (.log ev' 0 0 t none) = true) :
    ⦃fun w => ⌜FootQ R w0 w⌝⦄ emitBreakerEvent cfg ev st k ⦃fqPost R w0⦄ :=
  fq_lift (R2 := fun r => R r && swallowedReq r) (by simp_all)
    (fun w0 => emitBreakerEvent_fq_aux _ w0 (by simp_all) cfg ev st k
      (by intro ev' h t; simp [hm ev' h, swallowedReq]) (by intro ev' h t; simp [hl ev' h, swallowedReq])) w0

end Redress

namespace Redress
open Retry Policy

section
variable (R : Req → Bool) (w0 : World)
  (hbm : ∀ ev, ev.isCircuit = true → ∀ t, R (.metric ev 0 0 t) = true)
  (hbl : ∀ ev, ev.isCircuit = true → ∀ t, R (.log ev 0 0 t none) = true)

attribute [local spec] ask_fq

theorem breakerAllow_fq (bc : Breaker.Cfg) (ha : R .breakerAllow = true) :
    ⦃fun w => ⌜FootQ R w0 w⌝⦄ breakerAllow bc ⦃fqPost R w0⦄ := by
  mvcgen [breakerAllow]
  fq_close

theorem initCtx_fq : ⦃fun w => ⌜FootQ R w0 w⌝⦄ initCtx ⦃fqPost R w0⦄ := by
  mvcgen [initCtx]
  fq_close

theorem policyOutcome_fq (ok : Bool) (value : Option Nat) (stop : Option StopReason) (attempts : Nat)
    (lc : Option EClass) (le : Option String) (cause : Option Cause) :
    ⦃fun w => ⌜FootQ R w0 w⌝⦄ policyOutcome ok value stop attempts lc le cause ⦃fqPost R w0⦄ := by
  mvcgen [policyOutcome, xElapsed]
  fq_close

theorem recordCancel_fq (cfg : Cfg) (hc : R .breakerCancel = true) :
    ⦃fun w => ⌜FootQ R w0 w⌝⦄ Policy.recordCancel cfg ⦃fqPost R w0⦄ := by
  mvcgen [Policy.recordCancel]
  fq_close

theorem noRetryEndHook_fq (cfg : Cfg) (exc : Option Exn) (result : Option Nat) (d : AttemptDecision)
    (stop : Option StopReason) (cause : Option Cause) (he : ∀ c, R (.attemptEnd c) = true) :
    ⦃fun w => ⌜FootQ R w0 w⌝⦄ noRetryEndHook cfg exc result d stop cause ⦃fqPost R w0⦄ := by
  mvcgen [noRetryEndHook, xElapsed]
  fq_close

include hbm hbl

theorem checkBreaker_fq (cfg : Cfg) (ha : R .breakerAllow = true) :
    ⦃fun w => ⌜FootQ R w0 w⌝⦄ checkBreaker cfg
    ⦃post⟨fun _ w => ⌜FootQ R w0 w⌝, fun e w => ⌜FootE R e w0 w ∨ FootQ R w0 w⌝⟩⦄ := by
  have h2 := fun w1 ev st k hm hl => emitBreakerEvent_fq R w1 cfg ev st k hm hl
  mvcgen [checkBreaker, breakerAllow, h2]
  fq_close
  all_goals (first
    | exact hbm _ (Breaker.allow_ev _ _ _ _ (by assumption)) _
    | exact hbl _ (Breaker.allow_ev _ _ _ _ (by assumption)) _
    | exact Or.inl (by fq_chain)
    | exact Or.inr (by fq_chain)
    | skip)

theorem recordSuccess_fq (cfg : Cfg) (hs : R .breakerSuccess = true) :
    ⦃fun w => ⌜FootQ R w0 w⌝⦄ Policy.recordSuccess cfg ⦃fqPost R w0⦄ := by
  have h2 := fun w1 ev st k hm hl => emitBreakerEvent_fq R w1 cfg ev st k hm hl
  mvcgen [Policy.recordSuccess, h2]
  fq_close
  all_goals (first
    | exact hbm _ (Breaker.recordSuccess_ev _ _ (by assumption)) _
    | exact hbl _ (Breaker.recordSuccess_ev _ _ (by assumption)) _
    | skip)

theorem recordFailure_fq (cfg : Cfg) (k : EClass) (hf : ∀ k, R (.breakerFailure k) = true) :
    ⦃fun w => ⌜FootQ R w0 w⌝⦄ Policy.recordFailure cfg k ⦃fqPost R w0⦄ := by
  have h2 := fun w1 ev st k hm hl => emitBreakerEvent_fq R w1 cfg ev st k hm hl
  mvcgen [Policy.recordFailure, h2]
  fq_close
  all_goals (first
    | exact hbm _ (Breaker.recordFailure_ev _ _ _ _ _ (by assumption)) _
    | exact hbl _ (Breaker.recordFailure_ev _ _ _ _ _ (by assumption)) _
    | skip)

omit hbm hbl in
theorem ensureSettled_fq (cfg : Cfg) (hc : R .breakerCancel = true) :
    ⦃fun w => ⌜FootQ R w0 w⌝⦄ ensureSettled cfg ⦃fqPost R w0⦄ := by
  have h1 := fun w1 => recordCancel_fq R w1 cfg hc
  mvcgen [ensureSettled, h1]
  fq_close

omit hbm hbl in
theorem handleAbortCall_fq (cfg : Cfg) (e : Exn) (he : ∀ c, R (.attemptEnd c) = true)
    (hc : R .breakerCancel = true) :
    ⦃fun w => ⌜FootQ R w0 w⌝⦄ handleAbortCall cfg e ⦃fqPost R w0⦄ := by
  have h1 := fun w1 => recordCancel_fq R w1 cfg hc
  have h2 := fun w1 a b c d f => noRetryEndHook_fq R w1 cfg a b c d f he
  mvcgen [handleAbortCall, h1, h2]
  fq_close

theorem handleExhaustedCall_fq (cfg : Cfg) (e : Exn) (hf : ∀ k, R (.breakerFailure k) = true) :
    ⦃fun w => ⌜FootQ R w0 w⌝⦄ handleExhaustedCall cfg e ⦃fqPost R w0⦄ := by
  have h1 := fun w1 k => recordFailure_fq R w1 hbm hbl cfg k hf
  mvcgen [handleExhaustedCall, h1]
  fq_close

end
end Redress

namespace Redress

/-- From a `FootQ`/`FootE` lemma to "this view of the world is unchanged on success; on failure
    whatever `FootE` implies about it". -/
theorem view_of_fq {α V : Type} {x : M α} {R : Req → Bool} (view : World → V)
    (Ex : V → Exn → World → Prop)
    (hx : ∀ w0, ⦃fun w => ⌜FootQ R w0 w⌝⦄ x ⦃fqPost R w0⦄)
    (hv : ∀ w w', FootQ R w w' → view w' = view w)
    (he : ∀ e w w', FootE R e w w' → Ex (view w) e w') (v : V) :
    ⦃fun w => ⌜view w = v⌝⦄ x ⦃post⟨fun _ w => ⌜view w = v⌝, fun e w => ⌜Ex v e w⌝⟩⦄ := by
  apply triple_of_run
  intro w hw
  have := adequacy (hx w) w (FootQ.refl R w)
  split <;> simp_all
  · rw [← hw]; exact hv _ _ this
  · rw [← hw]; exact he _ _ _ this

/-- From a `FootQ`/`FootE` lemma to "this predicate on worlds is preserved". -/
theorem inv_of_fq {α : Type} {x : M α} {R : Req → Bool} (I : World → Prop) (J : Exn → World → Prop)
    (hx : ∀ w0, ⦃fun w => ⌜FootQ R w0 w⌝⦄ x ⦃fqPost R w0⦄)
    (hI : ∀ w w', FootQ R w w' → I w → I w')
    (hJ : ∀ e w w', FootE R e w w' → I w → J e w') :
    ⦃fun w => ⌜I w⌝⦄ x ⦃post⟨fun _ w => ⌜I w⌝, fun e w => ⌜J e w⌝⟩⦄ := by
  apply triple_of_run
  intro w hw
  have := adequacy (hx w) w (FootQ.refl R w)
  split <;> simp_all
  · exact hI _ _ this hw
  · exact hJ _ _ _ this hw

/-- `Ext`: the log only grows -/
theorem Ext.grows {K : Kind → Bool} {w w' : World} (h : Ext K w w') : ∃ δ, w'.trace = δ ++ w.trace := by
  obtain ⟨δ, e, _⟩ := h.trace
  exact ⟨δ, e⟩

/-- From an `Ext` lemma to "a predicate that survives growth of the log is preserved" (both exits). -/
theorem inv_of_ext {α : Type} {x : M α} {K : Kind → Bool} (I : World → Prop)
    (hx : ∀ w0, ⦃fun w => ⌜Ext K w0 w⌝⦄ x ⦃extPost K w0⦄)
    (hI : ∀ w w', Ext K w w' → I w → I w') :
    ⦃fun w => ⌜I w⌝⦄ x ⦃post⟨fun _ w => ⌜I w⌝, fun _ w => ⌜I w⌝⟩⦄ := by
  apply triple_of_run
  intro w hw
  have := adequacy (hx w) w (Ext.refl K w)
  split <;> simp_all <;> exact hI _ _ this hw

end Redress

/-! ### `Ext` for the policy-level leaves (any kind set `K` containing their requests; used by C07–C09) -/

namespace Redress
open Retry Policy

section
variable (K : Kind → Bool) (w0 : World)

attribute [local spec] ask_ext askHook_ext

theorem askMetric_extK (hm : K .metric = true) (ev : Event) (a s : Nat) (t : Tags) :
    ⦃fun w => ⌜Ext K w0 w⌝⦄ askMetric ev a s t ⦃extPost K w0⦄ := by
  mvcgen [askMetric]
  ext_close

theorem askLog_extK (hl : K .log = true) (ev : Event) (a s : Nat) (t : Tags) (ra : Option Int) :
    ⦃fun w => ⌜Ext K w0 w⌝⦄ askLog ev a s t ra ⦃extPost K w0⦄ := by
  mvcgen [askLog]
  ext_close


attribute [local spec] askMetric_extK askLog_extK

theorem emitBreakerEvent_ext (hm : K .metric = true) (hl : K .log = true) (cfg : Cfg)
    (ev : Option Event) (st : CState) (k : Option EClass) :
    ⦃fun w => ⌜Ext K w0 w⌝⦄ emitBreakerEvent cfg ev st k ⦃extPost K w0⦄ := by
  mvcgen [emitBreakerEvent, swallowException]
  ext_close

theorem noRetryStartHook_ext (hs : K .attemptStart = true) (cfg : Cfg) :
    ⦃fun w => ⌜Ext K w0 w⌝⦄ noRetryStartHook cfg ⦃extPost K w0⦄ := by
  mvcgen [noRetryStartHook, xElapsed]
  ext_close

theorem noRetryEndHook_ext (he : K .attemptEnd = true) (cfg : Cfg) (exc : Option Exn)
    (result : Option Nat) (d : AttemptDecision) (stop : Option StopReason) (cause : Option Cause) :
    ⦃fun w => ⌜Ext K w0 w⌝⦄ noRetryEndHook cfg exc result d stop cause ⦃extPost K w0⦄ := by
  mvcgen [noRetryEndHook, xElapsed]
  ext_close

theorem policyOutcome_ext (ok : Bool) (value : Option Nat) (stop : Option StopReason) (attempts : Nat)
    (lc : Option EClass) (le : Option String) (cause : Option Cause) :
    ⦃fun w => ⌜Ext K w0 w⌝⦄ policyOutcome ok value stop attempts lc le cause ⦃extPost K w0⦄ := by
  mvcgen [policyOutcome, xElapsed]
  ext_close

theorem classifyForBreaker_ext (hc : K .classify = true) (cfg : Cfg) (e : Exn) :
    ⦃fun w => ⌜Ext K w0 w⌝⦄ classifyForBreaker cfg e ⦃extPost K w0⦄ := by
  mvcgen [classifyForBreaker, callClassifier]
  ext_close

theorem abortIf_ext (ha : K .abortIf = true) :
    ⦃fun w => ⌜Ext K w0 w⌝⦄ ask .abortIf ⦃extPost K w0⦄ := ask_ext K w0 _ ha

end

end Redress


/-! ## A fourth relation: request-level footprints with exact time, `last_stop_reason` tracking and
    exception provenance  (used by C05 and C16)

`FootX Q w0 w`: `w` arises from `w0` by appending exchanges whose REQUESTS satisfy `Q`, the clock
advancing by exactly the durations of their answers; `rs` unchanged.  `FootXS`: the same, except that
`rs.lastStop` may have changed (procedures that set `last_stop_reason`).  On the exceptional exit every
lemma also says where the exception comes from (`ExcX` / `ExcS`): one of the procedure's own `raise`
statements (`Own`), or a callback that raised it since `w0` and whose error the library does not
swallow (`Prov`; `stuck` is the model's "ill-shaped or missing oracle answer").  Some lemmas also say
what the procedure returns (`_build_outcome`, `_handle_sleep_decision`, …). -/

namespace Redress.FX
open Redress Redress.Retry

/-! ### request-level footprints with exact time and exception provenance -/

/-- total duration of a list of exchanges -/
def durSum : List (Req × Ans) → Nat
  | [] => 0
  | x :: xs => x.2.dur + durSum xs

theorem durSum_append (a b : List (Req × Ans)) : durSum (a ++ b) = durSum a + durSum b := by
  induction a with
  | nil => simp [durSum]
  | cons x xs ih => simp [durSum, ih, Nat.add_assoc]

/-- requests whose `Exception`s the library swallows (`emit`, `_emit_breaker_event`, `_call_before_sleep`) -/
def swallowed : Req → Bool
  | .metric .. | .log .. | .beforeSleep .. => true
  | _ => false

/-- the breaker's own events -/
def circuitEv : Event → Bool
  | .circuitOpened | .circuitHalfOpen | .circuitClosed | .circuitRejected => true
  | _ => false

/-- `e` was raised by a callback in `δ`, and not where it would have been swallowed -/
def raisedIn (e : Exn) (δ : List (Req × Ans)) : Prop :=
  ∃ r d, (r, Ans.raise e d) ∈ δ ∧ (swallowed r = true → e.isException = false)

/-- A *request-level footprint*: `w` arises from `w0` by appending exchanges whose requests all satisfy
    `Q`, the clock advancing by exactly their durations; `rs` is unchanged. -/
structure FootX (Q : Req → Bool) (w0 w : World) : Prop where
  trace : ∃ δ, w.trace = δ ++ w0.trace ∧ (∀ x ∈ δ, Q x.1 = true) ∧ w.now = w0.now + durSum δ
  rs : w.rs = w0.rs

/-- …`rs` unchanged except for `lastStop` -/
structure FootXS (Q : Req → Bool) (w0 w : World) : Prop where
  trace : ∃ δ, w.trace = δ ++ w0.trace ∧ (∀ x ∈ δ, Q x.1 = true) ∧ w.now = w0.now + durSum δ
  rs : w.rs = { w0.rs with lastStop := w.rs.lastStop }

/-- where an exception leaving a procedure comes from: an ill-shaped / missing oracle answer (model
    only), or a callback that raised it since `w0` -/
def Prov (e : Exn) (w0 w : World) : Prop :=
  e = .stuck ∨ ∃ δ, w.trace = δ ++ w0.trace ∧ raisedIn e δ

section
variable {Q : Req → Bool}

theorem FootX.toS {w w' : World} (h : FootX Q w w') : FootXS Q w w' :=
  ⟨h.trace, by rw [h.rs]⟩

theorem FootX.lastStop {w w' : World} (h : FootX Q w w') : w'.rs.lastStop = w.rs.lastStop := by rw [h.rs]

theorem FootX.refl (w : World) : FootX Q w w :=
  ⟨⟨[], by simp, by simp, by simp [durSum]⟩, rfl⟩

theorem FootXS.refl (w : World) : FootXS Q w w := (FootX.refl w).toS

theorem FootX.trans {w₁ w₂ w₃ : World} (h₁ : FootX Q w₁ w₂) (h₂ : FootX Q w₂ w₃) : FootX Q w₁ w₃ := by
  obtain ⟨δ₁, e₁, k₁, t₁⟩ := h₁.trace
  obtain ⟨δ₂, e₂, k₂, t₂⟩ := h₂.trace
  refine ⟨⟨δ₂ ++ δ₁, by simp [e₂, e₁], ?_, by rw [t₂, t₁, durSum_append]; omega⟩, by rw [h₂.rs, h₁.rs]⟩
  intro x hx
  rcases List.mem_append.mp hx with h | h
  · exact k₂ x h
  · exact k₁ x h

theorem FootXS.trans {w₁ w₂ w₃ : World} (h₁ : FootXS Q w₁ w₂) (h₂ : FootXS Q w₂ w₃) : FootXS Q w₁ w₃ := by
  obtain ⟨δ₁, e₁, k₁, t₁⟩ := h₁.trace
  obtain ⟨δ₂, e₂, k₂, t₂⟩ := h₂.trace
  refine ⟨⟨δ₂ ++ δ₁, by simp [e₂, e₁], ?_, by rw [t₂, t₁, durSum_append]; omega⟩, by rw [h₂.rs, h₁.rs]⟩
  intro x hx
  rcases List.mem_append.mp hx with h | h
  · exact k₂ x h
  · exact k₁ x h

theorem FootX.mono {Q' : Req → Bool} {w w' : World} (h : FootX Q w w')
    (hq : ∀ r, Q r = true → Q' r = true) : FootX Q' w w' := by
  obtain ⟨δ, e, k, t⟩ := h.trace
  exact ⟨⟨δ, e, fun x hx => hq _ (k x hx), t⟩, h.rs⟩

theorem FootXS.mono {Q' : Req → Bool} {w w' : World} (h : FootXS Q w w')
    (hq : ∀ r, Q r = true → Q' r = true) : FootXS Q' w w' := by
  obtain ⟨δ, e, k, t⟩ := h.trace
  exact ⟨⟨δ, e, fun x hx => hq _ (k x hx), t⟩, h.rs⟩

/-- one exchange -/
theorem FootX.exchange (w : World) (r : Req) (a : Ans) (rest : List Ans) (hk : Q r = true) :
    FootX Q w { w with answers := rest, now := w.now + a.dur, trace := (r, a) :: w.trace } :=
  ⟨⟨[(r, a)], rfl, by simp [hk], by simp [durSum]⟩, rfl⟩

/-- the oracle is exhausted -/
theorem FootX.exhausted (w : World) (r : Req) (hk : Q r = true) :
    FootX Q w { w with trace := (r, Ans.raise .stuck 0) :: w.trace } :=
  ⟨⟨[(r, Ans.raise .stuck 0)], rfl, by simp [hk], by simp [durSum, Ans.dur]⟩, rfl⟩

/-- changes outside the footprint's concern -/
theorem FootX.frame (w : World) (as : AState) (att oc : Nat) (tl : List TimelineEv) (tls : Nat)
    (bud : Budget.St) (br : Breaker.St) (xc : XCtx) :
    FootX Q w { w with as := as, attempts := att, opCalls := oc, timeline := tl, tlStart := tls,
                       budget := bud, breaker := br, xc := xc } :=
  ⟨⟨[], rfl, by simp, by simp [durSum]⟩, rfl⟩

/-- `lastStop` may change -/
theorem FootXS.stop (w : World) (stop : Option StopReason) :
    FootXS Q w { w with rs := { w.rs with lastStop := stop } } :=
  ⟨⟨[], rfl, by simp, by simp [durSum]⟩, rfl⟩

/-- an interaction with an embedded component, logged without consuming an oracle answer -/
theorem FootX.internal (w : World) (r : Req) (a : Ans) (bud : Budget.St) (br : Breaker.St) (xc : XCtx)
    (hk : Q r = true) (hd : a.dur = 0) :
    FootX Q w { w with trace := (r, a) :: w.trace, budget := bud, breaker := br, xc := xc } :=
  ⟨⟨[(r, a)], rfl, by simp [hk], by simp [durSum, hd]⟩, rfl⟩

theorem Prov.of_exchange (w : World) (r : Req) (e : Exn) (d : Nat) (rest : List Ans)
    (hs : swallowed r = true → e.isException = false) :
    Prov e w { w with answers := rest, now := w.now + d, trace := (r, Ans.raise e d) :: w.trace } :=
  Or.inr ⟨[(r, Ans.raise e d)], rfl, r, d, by simp, hs⟩

theorem Prov.of_exchange_sw (w : World) (r : Req) (e : Exn) (d : Nat) (rest : List Ans) :
    e.isException = true ∨
      Prov e w { w with answers := rest, now := w.now + d, trace := (r, Ans.raise e d) :: w.trace } := by
  cases he : e.isException
  · exact Or.inr (Prov.of_exchange _ _ _ _ _ (fun _ => he))
  · exact Or.inl rfl

theorem Prov.lift {e : Exn} {w0 w w' : World} (h : FootXS Q w0 w) (hp : Prov e w w') : Prov e w0 w' := by
  rcases hp with hp | ⟨δ, e₁, hr⟩
  · exact Or.inl hp
  · obtain ⟨δ₀, e₀, _, _⟩ := h.trace
    exact Or.inr ⟨δ ++ δ₀, by simp [e₁, e₀], by
      obtain ⟨r, d, hm, hs⟩ := hr
      exact ⟨r, d, List.mem_append_left _ hm, hs⟩⟩

end

/-- what is known when a procedure is left by an exception `e`: the footprint, and where `e` comes
    from — the procedure's own errors (`Own`) or a callback (`Prov`) -/
structure ExcX (Q : Req → Bool) (Own : Exn → Prop) (w0 w : World) (e : Exn) : Prop where
  foot : FootX Q w0 w
  src : Own e ∨ Prov e w0 w

structure ExcS (Q : Req → Bool) (Own : Exn → Prop) (w0 w : World) (e : Exn) : Prop where
  foot : FootXS Q w0 w
  src : Own e ∨ Prov e w0 w

/-- no errors of its own -/
abbrev noOwn : Exn → Prop := fun _ => False
/-- `Exception`s (they will be swallowed by the caller) -/
abbrev swOwn : Exn → Prop := fun e => e.isException = true

section
variable {Q : Req → Bool} {Own Own' : Exn → Prop} {e : Exn} {w0 w w' : World}

theorem ExcX.toS (h : ExcX Q Own w w' e) : ExcS Q Own w w' e := ⟨h.1.toS, h.2⟩

theorem ExcX.weaken (h : ExcX Q Own w w' e) (ho : Own e → Own' e) : ExcX Q Own' w w' e :=
  ⟨h.1, h.2.imp ho id⟩

theorem ExcS.weaken (h : ExcS Q Own w w' e) (ho : Own e → Own' e) : ExcS Q Own' w w' e :=
  ⟨h.1, h.2.imp ho id⟩

theorem ExcX.lift (h₀ : FootX Q w0 w) (h : ExcX Q Own w w' e) : ExcX Q Own w0 w' e :=
  ⟨h₀.trans h.1, h.2.imp id (Prov.lift h₀.toS)⟩

theorem ExcS.lift (h₀ : FootXS Q w0 w) (h : ExcS Q Own w w' e) : ExcS Q Own w0 w' e :=
  ⟨h₀.trans h.1, h.2.imp id (Prov.lift h₀)⟩

/-- an error of the procedure's own -/
theorem ExcX.own (h : FootX Q w0 w) (ho : Own e) : ExcX Q Own w0 w e := ⟨h, Or.inl ho⟩
theorem ExcS.own (h : FootXS Q w0 w) (ho : Own e) : ExcS Q Own w0 w e := ⟨h, Or.inl ho⟩

/-- what `swallowException` lets through -/
theorem ExcX.unswallow (h : ExcX Q swOwn w w' e) (he : ¬ e.isException = true) : ExcX Q Own w w' e :=
  ⟨h.1, h.2.elim (fun h' => absurd h' he) Or.inr⟩

theorem ExcX.unswallow' (h : ExcX Q swOwn w w' e) (he : e.isException = false) : ExcX Q Own w w' e :=
  h.unswallow (by simp [he])

end

/-- postcondition: footprint on both exits, provenance on the exceptional one -/
abbrev fxPost (Q : Req → Bool) (w0 : World) (Own : Exn → Prop := noOwn) :
    PostCond α (.except Exn (.arg World .pure)) :=
  post⟨fun _ w => ⌜FootX Q w0 w⌝, fun e w => ⌜ExcX Q Own w0 w e⌝⟩

/-- …for procedures that may set `lastStop` -/
abbrev fxsPost (Q : Req → Bool) (w0 : World) (Own : Exn → Prop := noOwn) :
    PostCond α (.except Exn (.arg World .pure)) :=
  post⟨fun _ w => ⌜FootXS Q w0 w⌝, fun e w => ⌜ExcS Q Own w0 w e⌝⟩

section
variable (Q : Req → Bool) (w0 : World)

theorem ask_fx (r : Req) (hk : Q r = true) (hs : swallowed r = false) :
    ⦃fun w => ⌜FootX Q w0 w⌝⦄ ask r ⦃fxPost Q w0⦄ := by
  mvcgen [ask]
  all_goals first
    | exact FootX.trans (by assumption) (FootX.exchange _ _ _ _ hk)
    | exact ⟨FootX.trans (by assumption) (FootX.exhausted _ _ hk), Or.inr (Or.inl rfl)⟩
    | exact ⟨FootX.trans (by assumption) (FootX.exchange _ _ _ _ hk),
        Or.inr (Prov.lift (FootX.toS (by assumption)) (Prov.of_exchange _ _ _ _ _ (by simp [hs])))⟩

/-- a request whose `Exception`s the caller will swallow -/
theorem ask_fxW (r : Req) (hk : Q r = true) :
    ⦃fun w => ⌜FootX Q w0 w⌝⦄ ask r ⦃fxPost Q w0 swOwn⦄ := by
  mvcgen [ask]
  all_goals first
    | exact FootX.trans (by assumption) (FootX.exchange _ _ _ _ hk)
    | exact ⟨FootX.trans (by assumption) (FootX.exhausted _ _ hk), Or.inr (Or.inl rfl)⟩
    | exact ⟨FootX.trans (by assumption) (FootX.exchange _ _ _ _ hk),
        (Prov.of_exchange_sw _ _ _ _ _).imp id (Prov.lift (FootX.toS (by assumption)))⟩

theorem askHook_fx (r : Req) (hk : Q r = true) (hs : swallowed r = false) :
    ⦃fun w => ⌜FootX Q w0 w⌝⦄ askHook r ⦃fxPost Q w0⦄ :=
  askHook_triple r (ask_fx Q w0 r hk hs) (fun w h => presil_cases (FootX Q w0) w (fun _ => ⟨h.1, h.2⟩))

theorem askHook_fxW (r : Req) (hk : Q r = true) :
    ⦃fun w => ⌜FootX Q w0 w⌝⦄ askHook r ⦃fxPost Q w0 swOwn⦄ :=
  askHook_triple r (ask_fxW Q w0 r hk) (fun w h => presil_cases (FootX Q w0) w (fun _ => ⟨h.1, h.2⟩))

/-- split every hypothesis that is a conjunction (mvcgen hands over a spec's postcondition as one fact) -/
macro "split_ands" : tactic => `(tactic| repeat (revert ‹_ ∧ _›; rintro ⟨_, _⟩))

theorem ExcX.stuck {Q : Req → Bool} {Own : Exn → Prop} {w0 w : World} (h : FootX Q w0 w) :
    ExcX Q Own w0 w .stuck := ⟨h, Or.inr (Or.inl rfl)⟩
theorem ExcS.stuck {Q : Req → Bool} {Own : Exn → Prop} {w0 w : World} (h : FootXS Q w0 w) :
    ExcS Q Own w0 w .stuck := ⟨h, Or.inr (Or.inl rfl)⟩

/-- chain footprint hypotheses -/
syntax "fx_chain" : tactic
macro_rules
  | `(tactic| fx_chain) => `(tactic| first
      | assumption
      | exact FootX.refl _
      | exact FootXS.refl _
      | exact FootX.frame _ _ _ _ _ _ _ _ _
      | exact FootXS.stop _ _
      | exact FootX.toS (by assumption)
      | exact ExcX.foot (by assumption)
      | exact ExcS.foot (by assumption)
      | exact FootX.toS (ExcX.foot (by assumption))
      | exact FootX.toS (FootX.frame _ _ _ _ _ _ _ _ _)
      | exact FootX.internal _ _ _ _ _ _ (by assumption) rfl
      | exact FootX.toS (FootX.internal _ _ _ _ _ _ (by assumption) rfl)
      | (refine FootX.trans (by assumption) ?_; fx_chain)
      | (refine FootX.trans (ExcX.foot (by assumption)) ?_; fx_chain)
      | (refine FootXS.trans (by assumption) ?_; fx_chain)
      | (refine FootXS.trans (FootX.toS (by assumption)) ?_; fx_chain)
      | (refine FootXS.trans (ExcS.foot (by assumption)) ?_; fx_chain)
      | (refine FootXS.trans (FootX.toS (ExcX.foot (by assumption))) ?_; fx_chain))

/-- side goal `Own e → Own' e` -/
syntax "own_side" : tactic
macro_rules
  | `(tactic| own_side) => `(tactic| (intro h; first | exact h | exact h.elim | exact Or.inl h | exact Or.inr h | (simp_all; done)))

/-- exceptional exits -/
syntax "exc_chain" : tactic
macro_rules
  | `(tactic| exc_chain) => `(tactic| first
      | assumption
      | exact ExcX.toS (by assumption)
      | exact ExcX.unswallow (by assumption) (by assumption)
      | exact ExcX.unswallow' (by assumption) (by assumption)
      | exact ExcX.toS (ExcX.unswallow (by assumption) (by assumption))
      | exact ExcX.toS (ExcX.unswallow' (by assumption) (by assumption))
      | (refine ExcX.weaken (by assumption) ?_; own_side)
      | (refine ExcS.weaken (by assumption) ?_; own_side)
      | (refine ExcS.weaken (ExcX.toS (by assumption)) ?_; own_side)
      | exact ExcX.stuck (by fx_chain)
      | exact ExcS.stuck (by fx_chain)
      | (refine ExcX.own ?_ ?_ <;> first | fx_chain | rfl | trivial | (simp_all; done))
      | (refine ExcS.own ?_ ?_ <;> first | fx_chain | rfl | trivial | (simp_all; done))
      | (refine ExcX.lift (by assumption) ?_; exc_chain)
      | (refine ExcX.lift (ExcX.foot (by assumption)) ?_; exc_chain)
      | (refine ExcS.lift (by assumption) ?_; exc_chain)
      | (refine ExcS.lift (FootX.toS (by assumption)) ?_; exc_chain)
      | (refine ExcS.lift (ExcS.foot (by assumption)) ?_; exc_chain)
      | (refine ExcS.lift (FootX.toS (ExcX.foot (by assumption))) ?_; exc_chain))

macro "fx_close" : tactic => `(tactic| all_goals (
  (try subst_vars) <;> (try intros) <;> (try simp only [restore_dummy] at *) <;> (try split_ands) <;>
  first
    | assumption
    | rfl
    | fx_chain
    | exc_chain
    | (refine ⟨?_, ?_⟩ <;> (first | rfl | trivial | assumption | fx_chain | (have hls := FootX.lastStop (by assumption); simp_all; done) | (simp_all; done)))
    | (simp_all; done)
    | skip))

theorem askMetric_fx (ev : Event) (a s : Nat) (t : Tags) (hm : Q (.metric ev a s t) = true) :
    ⦃fun w => ⌜FootX Q w0 w⌝⦄ askMetric ev a s t ⦃fxPost Q w0 swOwn⦄ := by
  have h_ask_fxW := askHook_fxW Q
  mvcgen [askMetric, h_ask_fxW]
  fx_close

theorem askLog_fx (ev : Event) (a s : Nat) (t : Tags) (ra : Option Int) (hl : Q (.log ev a s t ra) = true) :
    ⦃fun w => ⌜FootX Q w0 w⌝⦄ askLog ev a s t ra ⦃fxPost Q w0 swOwn⦄ := by
  have h_ask_fxW := askHook_fxW Q
  mvcgen [askLog, h_ask_fxW]
  fx_close

theorem setStop_fx (s : StopReason) :
    ⦃fun w => ⌜FootXS Q w0 w⌝⦄ setStop s
    ⦃post⟨fun _ w => ⌜w.rs.lastStop = some s ∧ FootXS Q w0 w⌝, fun e w => ⌜ExcS Q noOwn w0 w e⌝⟩⦄ := by
  mvcgen [setStop, modifyRS]
  fx_close

theorem recordTimeline_fx (ev : Event) (a s : Nat) (t : Tags) :
    ⦃fun w => ⌜FootX Q w0 w⌝⦄ recordTimeline ev a s t ⦃fxPost Q w0⦄ := by
  mvcgen [recordTimeline]
  fx_close


theorem metricHook_fx (cfg : Cfg) (tl : Bool) (ev : Event) (a s : Nat) (t : Tags)
    (hm : Q (.metric ev a s t) = true) :
    ⦃fun w => ⌜FootX Q w0 w⌝⦄ metricHook cfg tl ev a s t ⦃fxPost Q w0 swOwn⦄ := by
  have h_askMetric_fx := askMetric_fx Q
  have h_recordTimeline_fx := recordTimeline_fx Q
  mvcgen [metricHook, h_askMetric_fx, h_recordTimeline_fx]
  fx_close


/-- `emit`: only `BaseException`s of the hooks get out -/
theorem emit_fx (cfg : Cfg) (tl : Bool) (ev : Event) (attempt sleep : Nat) (klass : Option EClass)
    (exc : Option Exn) (stop : Option StopReason) (cause : Option Cause) (cls : Option Classification)
    (hm : ∀ t, Q (.metric ev attempt sleep t) = true) (hl : ∀ t ra, Q (.log ev attempt sleep t ra) = true) :
    ⦃fun w => ⌜FootX Q w0 w⌝⦄ emit cfg tl ev attempt sleep klass exc stop cause cls ⦃fxPost Q w0⦄ := by
  have h_metricHook_fx := metricHook_fx Q
  have h_askLog_fx := askLog_fx Q
  mvcgen [emit, swallowException, h_metricHook_fx, h_askLog_fx]
  fx_close


theorem checkAbort_fx (cfg : Cfg) (tl : Bool) (attempt : Nat) (ha : Q .abortIf = true)
    (hm : ∀ t, Q (.metric .aborted attempt 0 t) = true) (hl : ∀ t ra, Q (.log .aborted attempt 0 t ra) = true) :
    ⦃fun w => ⌜FootXS Q w0 w⌝⦄ checkAbort cfg tl attempt ⦃fxsPost Q w0 (· = .libAbort)⦄ := by
  have h_emit_fx := emit_fx Q
  have h_setStop_fx := setStop_fx Q
  have h_ask_fx := ask_fx Q
  mvcgen [checkAbort, h_emit_fx, h_setStop_fx, h_ask_fx]
  fx_close

theorem stopWith_fx (cfg : Cfg) (tl : Bool) (s : StopReason) (ev : Event) (attempt : Nat) (k : EClass)
    (exc : Option Exn) (cause : Cause)
    (hm : ∀ t, Q (.metric ev attempt 0 t) = true) (hl : ∀ t ra, Q (.log ev attempt 0 t ra) = true) :
    ⦃fun w => ⌜FootXS Q w0 w⌝⦄ stopWith cfg tl s ev attempt k exc cause
    ⦃post⟨fun d w => ⌜d = .raise ∧ FootXS Q w0 w⌝, fun e w => ⌜ExcS Q noOwn w0 w e⌝⟩⦄ := by
  have h_emit_fx := emit_fx Q
  have h_setStop_fx := setStop_fx Q
  mvcgen [stopWith, h_emit_fx, h_setStop_fx]
  fx_close

theorem recordStrategySuccess_fx (cfg : Cfg) (hs : ∀ k, Q (.stratRecordSuccess k) = true) :
    ⦃fun w => ⌜FootX Q w0 w⌝⦄ recordStrategySuccess cfg ⦃fxPost Q w0⦄ := by
  have h_ask_fx := ask_fx Q
  mvcgen [recordStrategySuccess, getRS, h_ask_fx]
  fx_close

theorem stratRecordFailure_fx (cfg : Cfg) (key : SKey) (k : EClass) (hs : Q (.stratRecordFailure key k) = true) :
    ⦃fun w => ⌜FootX Q w0 w⌝⦄ stratRecordFailure cfg key k ⦃fxPost Q w0⦄ := by
  have h_ask_fx := ask_fx Q
  mvcgen [stratRecordFailure, h_ask_fx]
  fx_close

theorem callStrategy_fx (key : SKey) (kind : SKind) (ctx : BackoffCtx) (hs : Q (.strategy key kind ctx) = true) :
    ⦃fun w => ⌜FootX Q w0 w⌝⦄ callStrategy key kind ctx ⦃fxPost Q w0⦄ := by
  have h_ask_fx := ask_fx Q
  mvcgen [callStrategy, h_ask_fx]
  fx_close

theorem callClassifier_fx (e : Exn) (hc : Q (.classify e.ref) = true) :
    ⦃fun w => ⌜FootX Q w0 w⌝⦄ callClassifier e ⦃fxPost Q w0⦄ := by
  have h_ask_fx := ask_fx Q
  mvcgen [callClassifier, h_ask_fx]
  fx_close

theorem shouldClassifyResult_fx (cfg : Cfg) (v : Nat) (hc : Q (.resultClassify v) = true) :
    ⦃fun w => ⌜FootX Q w0 w⌝⦄ shouldClassifyResult cfg v ⦃fxPost Q w0⦄ := by
  have h_ask_fx := ask_fx Q
  mvcgen [shouldClassifyResult, h_ask_fx]
  fx_close

theorem callAttemptStart_fx (cfg : Cfg) (attempt : Nat) (hs : ∀ c, Q (.attemptStart c) = true) :
    ⦃fun w => ⌜FootX Q w0 w⌝⦄ callAttemptStart cfg attempt ⦃fxPost Q w0⦄ := by
  have h_ask_fx := ask_fx Q
  mvcgen [callAttemptStart, elapsed, h_ask_fx]
  fx_close

theorem callAttemptEnd_fx (cfg : Cfg) (attempt : Nat) (cls : Option Classification) (exc : Option Exn)
    (result : Option Nat) (d : AttemptDecision) (stop : Option StopReason) (cause : Option Cause)
    (sleep : Option Nat) (he : ∀ c, Q (.attemptEnd c) = true) :
    ⦃fun w => ⌜FootX Q w0 w⌝⦄ callAttemptEnd cfg attempt cls exc result d stop cause sleep ⦃fxPost Q w0⦄ := by
  have h_ask_fx := ask_fx Q
  mvcgen [callAttemptEnd, elapsed, h_ask_fx]
  fx_close


theorem callAttemptEndFromOutcome_fx (cfg : Cfg) (attempt : Nat) (o : AOutcome)
    (he : ∀ c, Q (.attemptEnd c) = true) :
    ⦃fun w => ⌜FootX Q w0 w⌝⦄ callAttemptEndFromOutcome cfg attempt o ⦃fxPost Q w0⦄ := by
  have h_callAttemptEnd_fx := callAttemptEnd_fx Q
  mvcgen [callAttemptEndFromOutcome, h_callAttemptEnd_fx]
  fx_close

theorem callBeforeSleep_fx (cfg : Cfg) (ctx : BackoffCtx) (sleep : Nat)
    (hb : ∀ lvl, Q (.beforeSleep lvl ctx sleep) = true) :
    ⦃fun w => ⌜FootX Q w0 w⌝⦄ callBeforeSleep cfg ctx sleep ⦃fxPost Q w0⦄ := by
  have h_ask_fxW := askHook_fxW Q
  mvcgen [callBeforeSleep, swallowException, h_ask_fxW]
  fx_close

theorem callSleeper_fx (cfg : Cfg) (sleep : Nat) (hs : ∀ lvl, Q (.sleeper lvl sleep) = true) :
    ⦃fun w => ⌜FootX Q w0 w⌝⦄ callSleeper cfg sleep ⦃fxPost Q w0⦄ := by
  have h_ask_fx := ask_fx Q
  mvcgen [callSleeper, h_ask_fx]
  fx_close

theorem callSleepHandler_fx (lvl : Lvl) (ctx : BackoffCtx) (sleep : Nat)
    (hs : Q (.sleepHandler lvl ctx sleep) = true) :
    ⦃fun w => ⌜FootX Q w0 w⌝⦄ callSleepHandler lvl ctx sleep ⦃fxPost Q w0⦄ := by
  have h_ask_fx := ask_fx Q
  mvcgen [callSleepHandler, h_ask_fx]
  fx_close

/-- `_build_outcome` reads the state; what it reports -/
theorem buildOutcome_fx (ok : Bool) (value : Option Nat) (attempts : Nat) (ns : Option Nat) :
    ⦃fun w => ⌜FootX Q w0 w⌝⦄ buildOutcome ok value attempts ns
    ⦃post⟨fun o w => ⌜(o.ok = ok ∧ o.nextSleep = ns ∧ o.stop = (if ok then none else w.rs.lastStop)) ∧ FootX Q w0 w⌝,
          fun e w => ⌜ExcX Q noOwn w0 w e⌝⟩⦄ := by
  mvcgen [buildOutcome, getRS, elapsed]
  fx_close


theorem emitAbortedOnce_fx (cfg : Cfg) (tl : Bool) (attempt : Nat)
    (hm : ∀ t, Q (.metric .aborted attempt 0 t) = true) (hl : ∀ t ra, Q (.log .aborted attempt 0 t ra) = true) :
    ⦃fun w => ⌜FootXS Q w0 w⌝⦄ emitAbortedOnce cfg tl attempt
    ⦃post⟨fun _ w => ⌜w.rs.lastStop = some .aborted ∧ FootXS Q w0 w⌝, fun e w => ⌜ExcS Q noOwn w0 w e⌝⟩⦄ := by
  have h_emit_fx := emit_fx Q
  have h_setStop_fx := setStop_fx Q
  mvcgen [emitAbortedOnce, getRS, h_emit_fx, h_setStop_fx]
  fx_close


theorem abortOutcome_fx (cfg : Cfg) (tl : Bool) (attempts : Nat)
    (hm : ∀ t, Q (.metric .aborted attempts 0 t) = true) (hl : ∀ t ra, Q (.log .aborted attempts 0 t ra) = true) :
    ⦃fun w => ⌜FootXS Q w0 w⌝⦄ abortOutcome cfg tl attempts
    ⦃post⟨fun o w => ⌜(o.ok = false ∧ o.nextSleep = none ∧ o.stop = some .aborted) ∧ FootXS Q w0 w⌝,
          fun e w => ⌜ExcS Q noOwn w0 w e⌝⟩⦄ := by
  have h_emitAbortedOnce_fx := emitAbortedOnce_fx Q
  have h_buildOutcome_fx := buildOutcome_fx Q
  mvcgen [abortOutcome, h_emitAbortedOnce_fx, h_buildOutcome_fx]
  fx_close

/-- `_handle_sleep_decision`: returns its argument; a non-`SleepDecision` raises `ValueError`; DEFER and
    ABORT leave the corresponding stop reason behind -/
theorem handleSleepDecision_fx (cfg : Cfg) (tl : Bool) (action : SleepDecision) (attempt sleep : Nat)
    (hmS : ∀ t, Q (.metric .scheduled attempt sleep t) = true)
    (hlS : ∀ t ra, Q (.log .scheduled attempt sleep t ra) = true)
    (hmA : ∀ t, Q (.metric .aborted attempt 0 t) = true) (hlA : ∀ t ra, Q (.log .aborted attempt 0 t ra) = true) :
    ⦃fun w => ⌜FootXS Q w0 w⌝⦄ handleSleepDecision cfg tl action attempt sleep
    ⦃post⟨fun r w => ⌜(r = action ∧ action ≠ .other ∧ (action = .defer → w.rs.lastStop = some .scheduled) ∧
                        (action = .abort → w.rs.lastStop = some .aborted)) ∧ FootXS Q w0 w⌝,
          fun e w => ⌜ExcS Q (fun e => e = .libValueError ∧ action = .other) w0 w e⌝⟩⦄ := by
  have h_emit_fx := emit_fx Q
  have h_setStop_fx := setStop_fx Q
  have h_emitAbortedOnce_fx := emitAbortedOnce_fx Q
  mvcgen [handleSleepDecision, getRS, h_emit_fx, h_setStop_fx, h_emitAbortedOnce_fx]
  fx_close


theorem handleSuccessAttemptEnd_fx (cfg : Cfg) (tl : Bool) (attempt v : Nat)
    (hm : ∀ t, Q (.metric .success attempt 0 t) = true) (hl : ∀ t ra, Q (.log .success attempt 0 t ra) = true)
    (hs : ∀ k, Q (.stratRecordSuccess k) = true) (he : ∀ c, Q (.attemptEnd c) = true) :
    ⦃fun w => ⌜FootX Q w0 w⌝⦄ handleSuccessAttemptEnd cfg tl attempt v ⦃fxPost Q w0⦄ := by
  have h_recordStrategySuccess_fx := recordStrategySuccess_fx Q
  have h_emit_fx := emit_fx Q
  have h_callAttemptEnd_fx := callAttemptEnd_fx Q
  mvcgen [handleSuccessAttemptEnd, h_recordStrategySuccess_fx, h_emit_fx, h_callAttemptEnd_fx]
  fx_close

theorem handleAbortAttemptEnd_fx (cfg : Cfg) (attempt : Nat) (e : Exn) (he : ∀ c, Q (.attemptEnd c) = true) :
    ⦃fun w => ⌜FootX Q w0 w⌝⦄ handleAbortAttemptEnd cfg attempt e ⦃fxPost Q w0⦄ := by
  have h_callAttemptEnd_fx := callAttemptEnd_fx Q
  mvcgen [handleAbortAttemptEnd, getAS, modifyAS, h_callAttemptEnd_fx]
  fx_close

theorem emitMaxAttemptsExceeded_fx (cfg : Cfg) (tl : Bool)
    (hm : ∀ t, Q (.metric .maxAttemptsExceeded cfg.maxAttempts 0 t) = true)
    (hl : ∀ t ra, Q (.log .maxAttemptsExceeded cfg.maxAttempts 0 t ra) = true) :
    ⦃fun w => ⌜FootXS Q w0 w⌝⦄ emitMaxAttemptsExceeded cfg tl ⦃fxsPost Q w0⦄ := by
  have h_emit_fx := emit_fx Q
  have h_setStop_fx := setStop_fx Q
  mvcgen [emitMaxAttemptsExceeded, getRS, h_emit_fx, h_setStop_fx]
  fx_close


/-- `raise_exhausted_call`: a `RetryExhaustedError` without `next_sleep_s`, the last exception, or the
    `RuntimeError` -/
theorem raiseExhaustedCall_fx (cfg : Cfg)
    (hm : ∀ t, Q (.metric .maxAttemptsExceeded cfg.maxAttempts 0 t) = true)
    (hl : ∀ t ra, Q (.log .maxAttemptsExceeded cfg.maxAttempts 0 t ra) = true) :
    ⦃fun w => ⌜FootXS Q w0 w⌝⦄ raiseExhaustedCall cfg
    ⦃post⟨fun _ w => ⌜FootXS Q w0 w⌝,
          fun e w => ⌜ExcS Q (fun e => (∃ f, e = .libExhausted f ∧ f.nextSleep = none) ∨ w.rs.lastExc = some e
                                        ∨ e = .libRuntimeError) w0 w e⌝⟩⦄ := by
  have h_emitMaxAttemptsExceeded_fx := emitMaxAttemptsExceeded_fx Q
  mvcgen [raiseExhaustedCall, getRS, h_emitMaxAttemptsExceeded_fx]
  fx_close

theorem buildExhaustedOutcome_fx (cfg : Cfg) (tl : Bool)
    (hm : ∀ t, Q (.metric .maxAttemptsExceeded cfg.maxAttempts 0 t) = true)
    (hl : ∀ t ra, Q (.log .maxAttemptsExceeded cfg.maxAttempts 0 t ra) = true) :
    ⦃fun w => ⌜FootXS Q w0 w⌝⦄ buildExhaustedOutcome cfg tl
    ⦃post⟨fun o w => ⌜o.nextSleep = none ∧ FootXS Q w0 w⌝, fun e w => ⌜ExcS Q noOwn w0 w e⌝⟩⦄ := by
  have h_emitMaxAttemptsExceeded_fx := emitMaxAttemptsExceeded_fx Q
  have h_buildOutcome_fx := buildOutcome_fx Q
  mvcgen [buildExhaustedOutcome, h_emitMaxAttemptsExceeded_fx, h_buildOutcome_fx]
  fx_close

/-! #### policy level -/
open Redress.Policy

theorem allow_circuit (c : Breaker.Cfg) (s : Breaker.St) (now : Nat) (ev : Event)
    (h : (Breaker.allow c s now).1.2.2 = some ev) : circuitEv ev = true := by
  unfold Breaker.allow at h
  cases hs : s.state <;> simp only [hs] at h
  · simp at h
  · split at h <;> simp at h <;> subst h <;> rfl
  · split at h <;> simp at h <;> subst h <;> rfl

theorem recordSuccess_circuit (s : Breaker.St) (ev : Event)
    (h : (Breaker.recordSuccess s).1 = some ev) : circuitEv ev = true := by
  unfold Breaker.recordSuccess at h
  cases hs : s.state <;> simp only [hs] at h <;> simp at h
  subst h; rfl

theorem recordFailure_circuit (c : Breaker.Cfg) (s : Breaker.St) (k : EClass) (now : Nat) (ev : Event)
    (h : (Breaker.recordFailure c s k now).1 = some ev) : circuitEv ev = true := by
  unfold Breaker.recordFailure at h
  cases hs : s.state <;> simp only [hs] at h
  · split at h
    · split at h <;> simp at h
      subst h; rfl
    · simp at h
  · simp at h
  · simp at h; subst h; rfl

theorem emitBreakerEvent_fx (cfg : Cfg) (ev : Option Event) (st : CState) (k : Option EClass)
    (hm : ∀ ev' t, ev = some ev' → Q (.metric ev' 0 0 t) = true)
    (hl : ∀ ev' t ra, ev = some ev' → Q (.log ev' 0 0 t ra) = true) :
    ⦃fun w => ⌜FootX Q w0 w⌝⦄ emitBreakerEvent cfg ev st k ⦃fxPost Q w0⦄ := by
  have h_askMetric_fx := askMetric_fx Q
  have h_askLog_fx := askLog_fx Q
  mvcgen [emitBreakerEvent, swallowException, h_askMetric_fx, h_askLog_fx]
  fx_close

theorem breakerAllow_fx (bc : Breaker.Cfg) (ha : Q .breakerAllow = true) :
    ⦃fun w => ⌜FootX Q w0 w⌝⦄ breakerAllow bc
    ⦃post⟨fun d w => ⌜(∀ ev, d.2.2 = some ev → circuitEv ev = true) ∧ FootX Q w0 w⌝,
          fun e w => ⌜ExcX Q noOwn w0 w e⌝⟩⦄ := by
  mvcgen [breakerAllow]
  all_goals (refine ⟨fun ev hev => allow_circuit _ _ _ ev hev, ?_⟩; fx_chain)

/-- `check_breaker`: raises `CircuitOpenError` itself -/
theorem checkBreaker_fx (cfg : Cfg) (ha : Q .breakerAllow = true)
    (hm : ∀ ev t, circuitEv ev = true → Q (.metric ev 0 0 t) = true)
    (hl : ∀ ev t ra, circuitEv ev = true → Q (.log ev 0 0 t ra) = true) :
    ⦃fun w => ⌜FootX Q w0 w⌝⦄ checkBreaker cfg ⦃fxPost Q w0 (fun e => ∃ st, e = .libCircuitOpen st)⦄ := by
  have h_breakerAllow_fx := breakerAllow_fx Q
  have h_emit := emitBreakerEvent_fx Q
  mvcgen [checkBreaker, h_breakerAllow_fx, h_emit]
  fx_close
  all_goals first
    | exact hm _ _ (by simp_all)
    | exact hl _ _ _ (by simp_all)
    | skip

theorem recordSuccess_fx (cfg : Cfg) (hs : Q .breakerSuccess = true)
    (hm : ∀ ev t, circuitEv ev = true → Q (.metric ev 0 0 t) = true)
    (hl : ∀ ev t ra, circuitEv ev = true → Q (.log ev 0 0 t ra) = true) :
    ⦃fun w => ⌜FootX Q w0 w⌝⦄ Policy.recordSuccess cfg ⦃fxPost Q w0⦄ := by
  have h_emit := emitBreakerEvent_fx Q
  mvcgen [Policy.recordSuccess, h_emit]
  fx_close
  all_goals first
    | exact hm _ _ (recordSuccess_circuit _ _ (by assumption))
    | exact hl _ _ _ (recordSuccess_circuit _ _ (by assumption))
    | skip

theorem recordCancel_fx (cfg : Cfg) (hc : Q .breakerCancel = true) :
    ⦃fun w => ⌜FootX Q w0 w⌝⦄ Policy.recordCancel cfg ⦃fxPost Q w0⦄ := by
  mvcgen [Policy.recordCancel]
  fx_close

theorem recordFailure_fx (cfg : Cfg) (k : EClass) (hf : Q (.breakerFailure k) = true)
    (hm : ∀ ev t, circuitEv ev = true → Q (.metric ev 0 0 t) = true)
    (hl : ∀ ev t ra, circuitEv ev = true → Q (.log ev 0 0 t ra) = true) :
    ⦃fun w => ⌜FootX Q w0 w⌝⦄ Policy.recordFailure cfg k ⦃fxPost Q w0⦄ := by
  have h_emit := emitBreakerEvent_fx Q
  mvcgen [Policy.recordFailure, h_emit]
  fx_close
  all_goals first
    | exact hm _ _ (recordFailure_circuit _ _ _ _ _ (by assumption))
    | exact hl _ _ _ (recordFailure_circuit _ _ _ _ _ (by assumption))
    | skip

theorem ensureSettled_fx (cfg : Cfg) (hc : Q .breakerCancel = true) :
    ⦃fun w => ⌜FootX Q w0 w⌝⦄ ensureSettled cfg ⦃fxPost Q w0⦄ := by
  have h := recordCancel_fx Q
  mvcgen [ensureSettled, h]
  fx_close

theorem noRetryEndHook_fx (cfg : Cfg) (exc : Option Exn) (result : Option Nat) (d : AttemptDecision)
    (stop : Option StopReason) (cause : Option Cause) (he : ∀ c, Q (.attemptEnd c) = true) :
    ⦃fun w => ⌜FootX Q w0 w⌝⦄ noRetryEndHook cfg exc result d stop cause ⦃fxPost Q w0⦄ := by
  have h_ask_fx := ask_fx Q
  mvcgen [noRetryEndHook, xElapsed, h_ask_fx]
  fx_close

theorem policyOutcome_fx (ok : Bool) (value : Option Nat) (stop : Option StopReason) (attempts : Nat)
    (lc : Option EClass) (le : Option String) (cause : Option Cause) :
    ⦃fun w => ⌜FootX Q w0 w⌝⦄ policyOutcome ok value stop attempts lc le cause
    ⦃post⟨fun o w => ⌜(o.nextSleep = none ∧ o.stop = stop) ∧ FootX Q w0 w⌝, fun e w => ⌜ExcX Q noOwn w0 w e⌝⟩⦄ := by
  mvcgen [policyOutcome, xElapsed]
  fx_close

theorem initCtx_fx : ⦃fun w => ⌜FootX Q w0 w⌝⦄ initCtx ⦃fxPost Q w0⦄ := by
  mvcgen [initCtx]
  fx_close

theorem classifyForBreaker_fx (cfg : Cfg) (e : Exn) (hc : Q (.classify e.ref) = true) :
    ⦃fun w => ⌜FootX Q w0 w⌝⦄ classifyForBreaker cfg e ⦃fxPost Q w0⦄ := by
  have h := callClassifier_fx Q
  mvcgen [classifyForBreaker, h]
  fx_close

theorem handleAbortCall_fx (cfg : Cfg) (e : Exn) (he : ∀ c, Q (.attemptEnd c) = true)
    (hc : Q .breakerCancel = true) :
    ⦃fun w => ⌜FootX Q w0 w⌝⦄ handleAbortCall cfg e ⦃fxPost Q w0⦄ := by
  have h1 := noRetryEndHook_fx Q
  have h2 := recordCancel_fx Q
  mvcgen [handleAbortCall, h1, h2]
  fx_close

theorem handleExhaustedCall_fx (cfg : Cfg) (e : Exn) (hf : ∀ k, Q (.breakerFailure k) = true)
    (hm : ∀ ev t, circuitEv ev = true → Q (.metric ev 0 0 t) = true)
    (hl : ∀ ev t ra, circuitEv ev = true → Q (.log ev 0 0 t ra) = true) :
    ⦃fun w => ⌜FootX Q w0 w⌝⦄ handleExhaustedCall cfg e ⦃fxPost Q w0⦄ := by
  have h := recordFailure_fx Q
  mvcgen [handleExhaustedCall, h]
  fx_close

theorem handleExceptionCall_fx (cfg : Cfg) (e : Exn) (onEnd : Bool) (hf : ∀ k, Q (.breakerFailure k) = true)
    (hm : ∀ ev t, circuitEv ev = true → Q (.metric ev 0 0 t) = true)
    (hl : ∀ ev t ra, circuitEv ev = true → Q (.log ev 0 0 t ra) = true)
    (he : ∀ c, Q (.attemptEnd c) = true) (hc : Q (.classify e.ref) = true) :
    ⦃fun w => ⌜FootX Q w0 w⌝⦄ handleExceptionCall cfg e onEnd ⦃fxPost Q w0⦄ := by
  have h1 := noRetryEndHook_fx Q
  have h2 := classifyForBreaker_fx Q
  have h3 := recordFailure_fx Q
  mvcgen [handleExceptionCall, h1, h2, h3]
  fx_close

end
end Redress.FX

