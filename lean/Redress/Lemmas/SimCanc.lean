/-
  Redress.Lemmas.SimCanc — an `asyncio.CancelledError` that leaves the retry loop was raised by a callback
  (it is in the log): the library never raises it itself and `_RetryState.last_exc` never holds it
  (C12, T4 for the policy entries).  Mechanical adaptation of `EqvProcs.lean`.
-/
import Redress.Lemmas.SimPolicy

namespace Redress
open Twin Retry

/-- some callback raised CancelledError -/
def HasC (t : List (Req × Ans)) : Prop := ∃ r d, (r, Ans.raise Exn.cancelled d) ∈ t

theorem HasC.mono {t t' : List (Req × Ans)} (h : HasC t) (hs : ∀ y ∈ t, y ∈ t') : HasC t' := by
  obtain ⟨r, d, hm⟩ := h
  exact ⟨r, d, hs _ hm⟩

/-- the recorded last exception is not a CancelledError -/
def JC (r : RState) : Prop := r.lastExc ≠ some .cancelled

/-- `x` keeps the invariant `J` of `_RetryState`, only adds to the log, and raises CancelledError only if
    a callback did (or the exception `amb` it was handed is one) -/
structure NC (J : RState → Prop) (amb : Option Exn) (x : M α) : Prop where
  run : ∀ w, J w.rs → (∀ y ∈ w.trace, y ∈ (finalWorld (x w)).trace) ∧ J (finalWorld (x w)).rs ∧
    (∀ w', x w = .error .cancelled w' → HasC w'.trace ∨ amb = some .cancelled)

section
variable {J : RState → Prop} {amb : Option Exn}

theorem NC.pure (a : α) : NC J amb (pure a : M α) := ⟨fun _ hw => ⟨fun _ h => h, hw, fun _ h => by cases h⟩⟩

theorem NC.throw (e : Exn) (he : e ≠ .cancelled) : NC J amb (throw e : M α) :=
  ⟨fun _ hw => ⟨fun _ h => h, hw, fun _ h => by injection h with h1 _; exact absurd h1 he⟩⟩

theorem NC.rethrow (e : Exn) : NC J (some e) (MonadExcept.throw e : M α) :=
  ⟨fun _ hw => ⟨fun _ h => h, hw, fun _ h => by injection h with h1 _; exact Or.inr (by rw [h1])⟩⟩

theorem NC.bind {x : M α} {f : α → M β} (hx : NC J amb x) (hf : ∀ a, NC J amb (f a)) : NC J amb (x >>= f) := by
  refine ⟨fun w hw => ?_⟩
  obtain ⟨g1, j1, c1⟩ := hx.run w hw
  rw [bind_run]
  cases hxw : x w with
  | ok a w1 =>
    rw [hxw] at g1 j1
    obtain ⟨g2, j2, c2⟩ := (hf a).run w1 j1
    exact ⟨fun y hy => g2 y (g1 y hy), j2, c2⟩
  | error e w1 =>
    rw [hxw] at g1 j1
    refine ⟨g1, j1, fun w' h => ?_⟩
    simp only at h
    injection h with h1 h2
    subst h1 h2
    exact c1 w1 hxw

theorem NC.tryC {x : M α} {h : Exn → M α} (hx : NC J amb x) (hh : ∀ e, NC J (some e) (h e)) :
    NC J amb (tryCatch x h : M α) := by
  refine ⟨fun w hw => ?_⟩
  obtain ⟨g1, j1, c1⟩ := hx.run w hw
  rw [tryCatch_run]
  cases hxw : x w with
  | ok a w1 =>
    rw [hxw] at g1 j1
    exact ⟨g1, j1, fun w' h => by cases h⟩
  | error e w1 =>
    rw [hxw] at g1 j1
    obtain ⟨g2, j2, c2⟩ := (hh e).run w1 j1
    refine ⟨fun y hy => g2 y (g1 y hy), j2, fun w' hw' => ?_⟩
    simp only at hw'
    rcases c2 w' hw' with hc | hc
    · exact Or.inl hc
    · injection hc with hc
      subst hc
      rcases c1 w1 hxw with h1 | h1
      · left
        have : finalWorld (h Exn.cancelled w1) = w' := by rw [hw']; rfl
        rw [← this]
        exact h1.mono g2
      · exact Or.inr h1

theorem NC.ite {p : Prop} [Decidable p] {x y : M α} (hx : NC J amb x) (hy : NC J amb y) :
    NC J amb (if p then x else y) := by
  split <;> assumption

theorem NC.ask (r : Req) : NC J amb (ask r) := by
  refine ⟨fun w hw => ?_⟩
  cases hwa : w.answers with
  | nil =>
    rw [ask_nil r w hwa]
    exact ⟨fun _ h => List.mem_cons_of_mem _ h, hw, fun _ h => by cases h⟩
  | cons a rest =>
    rw [ask_cons r w a rest hwa]
    cases a with
    | raise e d =>
      refine ⟨fun _ h => List.mem_cons_of_mem _ h, hw, fun w' h => ?_⟩
      simp only [askStep] at h
      injection h with h1 h2
      subst h1 h2
      exact Or.inl ⟨r, d, List.mem_cons_self⟩
    | _ => exact ⟨fun _ h => List.mem_cons_of_mem _ h, hw, fun _ h => by cases h⟩

theorem NC.askHook (r : Req) : NC J amb (askHook r) := by
  refine ⟨fun w hw => ?_⟩
  cases hwa : w.answers with
  | nil =>
    rw [askHook_nil r w hwa]
    exact ⟨fun _ h => List.mem_cons_of_mem _ h, hw, fun _ h => by cases h⟩
  | cons a rest =>
    rw [askHook_cons r w a rest hwa]
    unfold askHookStep
    generalize (if w.silent = true then a.silenced else a) = a'
    cases a' with
    | raise e d =>
      refine ⟨fun _ h => List.mem_cons_of_mem _ h, hw, fun w' h => ?_⟩
      injection h with h1 h2
      subst h1 h2
      exact Or.inl ⟨r, d, List.mem_cons_self⟩
    | _ => exact ⟨fun _ h => List.mem_cons_of_mem _ h, hw, fun _ h => by cases h⟩

theorem NC.modify (f : World → World)
    (hf : ∀ w, (∀ y ∈ w.trace, y ∈ (f w).trace) ∧ (J w.rs → J (f w).rs)) :
    NC J amb (_root_.modify f : M PUnit) :=
  ⟨fun w hw => ⟨(hf w).1, (hf w).2 hw, fun _ h => by cases h⟩⟩

theorem NC.getThen (k : World → M α) (hk : ∀ w, NC J amb (k w)) : NC J amb (get >>= k) := by
  refine ⟨fun w hw => ?_⟩
  rw [bind_run, get_run]
  exact (hk w).run w hw

/-- a procedure that only reads -/
theorem NC.reader {x : M α} (hx : ∀ w, ∃ a, x w = .ok a w) : NC J amb x := by
  refine ⟨fun w hw => ?_⟩
  obtain ⟨a, h⟩ := hx w
  rw [h]
  exact ⟨fun _ h => h, hw, fun _ h => by cases h⟩

theorem swallow_nc (e : Exn) : NC J (some e) (swallowException e) := by
  unfold swallowException
  split
  · exact NC.pure _
  · exact NC.rethrow _

end

syntax "nc" "[" ident,* "]" : tactic
macro_rules
  | `(tactic| nc [$ls,*]) => do
    let alts ← ls.getElems.mapM fun l => `(tacticSeq| with_reducible apply $l)
    `(tactic| repeat (first
        | with_reducible exact NC.pure _
        | (with_reducible apply NC.throw) <;> (intro h; exact Exn.noConfusion h)
        | with_reducible exact NC.rethrow _
        | with_reducible exact NC.ask _
        | with_reducible exact NC.askHook _
        | (with_reducible apply NC.modify) <;> (intro _; exact ⟨fun _ h => h, fun h => h⟩)
        | assumption
        $[| $alts]*
        | with_reducible apply NC.bind
        | with_reducible apply NC.tryC
        | with_reducible apply NC.ite
        | with_reducible apply NC.getThen
        | (intro _)
        | split))

theorem getRS_run' (w : World) : getRS w = .ok w.rs w := rfl

section
variable {amb : Option Exn}

theorem getRS_nc : NC JC amb getRS := NC.reader (fun w => ⟨_, rfl⟩)

theorem getAS_nc : NC JC amb getAS := NC.reader (fun w => ⟨_, rfl⟩)

theorem getNow_nc : NC JC amb getNow := NC.reader (fun w => ⟨_, rfl⟩)

theorem elapsed_nc : NC JC amb elapsed := NC.reader (fun w => ⟨_, rfl⟩)


theorem modifyAS_nc (f : AState → AState) : NC JC amb (modifyAS f) :=
  NC.modify _ (fun _ => ⟨fun _ h => h, fun h => h⟩)

theorem setStop_nc (s : StopReason) : NC JC amb (setStop s) :=
  NC.modify _ (fun _ => ⟨fun _ h => h, fun h => h⟩)

theorem recordTimeline_nc (ev : Event) (a s : Nat) (t : Tags) : NC JC amb (recordTimeline ev a s t) :=
  NC.modify _ (fun _ => ⟨fun _ h => h, fun h => h⟩)


/-! ### state.py -/

theorem askMetric_nc (ev : Event) (a s : Nat) (t : Tags) : NC JC amb (askMetric ev a s t) := by
  unfold askMetric
  nc []

theorem askLog_nc (ev : Event) (a s : Nat) (t : Tags) (ra : Option Int) : NC JC amb (askLog ev a s t ra) := by
  unfold askLog
  nc []

theorem metricHook_nc (cfg : Cfg) (tl : Bool) (ev : Event) (a s : Nat) (t : Tags) :
    NC JC amb (metricHook cfg tl ev a s t) := by
  unfold metricHook
  nc [recordTimeline_nc, askMetric_nc]

theorem emit_nc (cfg : Cfg) (tl : Bool) (ev : Event) (a s : Nat) (k : Option EClass) (e : Option Exn)
    (st : Option StopReason) (c : Option Cause) (cl : Option Classification) :
    NC JC amb (emit cfg tl ev a s k e st c cl) := by
  unfold emit
  nc [metricHook_nc, swallow_nc, askLog_nc]


theorem checkAbort_nc (cfg : Cfg) (tl : Bool) (a : Nat) : NC JC amb (checkAbort cfg tl a) := by
  unfold checkAbort
  nc [askAbortIf_nc, setStop_nc, emit_nc]

theorem recordFailure_nc (c : Classification) (cause : Cause) (e : Option Exn) (r : Option Nat)
    (he : e ≠ some .cancelled) : NC JC amb (Retry.recordFailure c cause e r) := by
  refine NC.modify _ (fun w => ⟨fun _ h => h, fun _ => ?_⟩)
  show (if cause = .exception then e else none) ≠ some .cancelled
  split
  · exact he
  · intro h; cases h

theorem recordStrategySuccess_nc (cfg : Cfg) : NC JC amb (recordStrategySuccess cfg) := by
  unfold recordStrategySuccess
  nc [getRS_nc]

theorem callStrategy_nc (key : SKey) (kind : SKind) (ctx : BackoffCtx) : NC JC amb (callStrategy key kind ctx) := by
  unfold callStrategy
  nc []

theorem stratRecordFailure_nc (cfg : Cfg) (key : SKey) (k : EClass) : NC JC amb (stratRecordFailure cfg key k) := by
  unfold stratRecordFailure
  nc []

theorem budgetConsume_nc (cfg : Cfg) : NC JC amb (budgetConsume cfg) := by
  unfold budgetConsume
  split
  · exact NC.pure _
  · refine ⟨fun w hw => ?_⟩
    simp only [bind_run, get_run, set_run, pure_run]
    exact ⟨fun _ h => List.mem_cons_of_mem _ h, hw, fun _ h => by cases h⟩

theorem stopWith_nc (cfg : Cfg) (tl : Bool) (s : StopReason) (ev : Event) (a : Nat) (k : EClass)
    (e : Option Exn) (c : Cause) : NC JC amb (stopWith cfg tl s ev a k e c) := by
  unfold stopWith
  nc [setStop_nc, emit_nc]

theorem grantRetry_nc (cfg : Cfg) (tl : Bool) (c : Classification) (a : Nat) (cause : Cause)
    (e : Option Exn) (key : SKey) (kind : SKind) (rem : Nat) :
    NC JC amb (grantRetry cfg tl c a cause e key kind rem) := by
  unfold grantRetry
  have h1 : ∀ s : Nat, NC JC amb (modifyRS fun r => { r with prevSleep := some s }) :=
    fun s => NC.modify _ (fun _ => ⟨fun _ h => h, fun h => h⟩)
  nc [getRS_nc, callStrategy_nc, budgetConsume_nc, h1, emit_nc, stopWith_nc]

theorem handleFailure2_nc (cfg : Cfg) (tl : Bool) (c : Classification) (a : Nat) (cause : Cause)
    (e : Option Exn) : NC JC amb (handleFailure2 cfg tl c a cause e) := by
  unfold handleFailure2
  have h1 : ∀ key : SKey, NC JC amb (modifyRS fun r => { r with lastStrategy := some key }) :=
    fun key => NC.modify _ (fun _ => ⟨fun _ h => h, fun h => h⟩)
  nc [elapsed_nc, stopWith_nc, h1, stratRecordFailure_nc, grantRetry_nc]

theorem handleUnknown_nc (cfg : Cfg) (tl : Bool) (c : Classification) (a : Nat) (cause : Cause)
    (e : Option Exn) : NC JC amb (handleUnknown cfg tl c a cause e) := by
  unfold handleUnknown
  have h1 : NC JC amb (modifyRS fun r => { r with unknownAttempts := r.unknownAttempts + 1 }) :=
    NC.modify _ (fun _ => ⟨fun _ h => h, fun h => h⟩)
  nc [getRS_nc, h1, stopWith_nc, handleFailure2_nc]

theorem handleFailure1_nc (cfg : Cfg) (tl : Bool) (c : Classification) (a : Nat) (cause : Cause)
    (e : Option Exn) : NC JC amb (handleFailure1 cfg tl c a cause e) := by
  unfold handleFailure1
  nc [getRS_nc, stopWith_nc, handleUnknown_nc, handleFailure2_nc]

theorem handleFailure_nc (cfg : Cfg) (tl : Bool) (c : Classification) (a : Nat) (cause : Cause)
    (e : Option Exn) (r : Option Nat) (he : e ≠ some .cancelled) :
    NC JC amb (handleFailure cfg tl c a cause e r) := by
  unfold handleFailure
  have h1 : NC JC amb (modifyRS fun r => { r with perClassCounts := bumpCount r.perClassCounts c.klass }) :=
    NC.modify _ (fun _ => ⟨fun _ h => h, fun h => h⟩)
  have h2 := recordFailure_nc (amb := amb) c cause e r he
  nc [h2, h1, handleFailure1_nc]

theorem callClassifier_nc (e : Exn) : NC JC amb (callClassifier e) := by
  unfold callClassifier
  nc []

theorem handleException_nc (cfg : Cfg) (tl : Bool) (e : Exn) (a : Nat) (he : e ≠ .cancelled) :
    NC JC amb (handleException cfg tl e a) := by
  unfold handleException
  have h2 : ∀ c, NC JC amb (handleFailure cfg tl c a .exception (some e) none) :=
    fun c => handleFailure_nc cfg tl c a .exception (some e) none (fun h => he (by injection h))
  nc [callClassifier_nc, h2]

/-! ### retry_helpers.py -/

theorem buildOutcome_nc (ok : Bool) (value : Option Nat) (n : Nat) (ns : Option Nat) :
    NC JC amb (buildOutcome ok value n ns) := by
  unfold buildOutcome
  nc [getRS_nc, elapsed_nc]

theorem emitAbortedOnce_nc (cfg : Cfg) (tl : Bool) (a : Nat) : NC JC amb (emitAbortedOnce cfg tl a) := by
  unfold emitAbortedOnce
  nc [getRS_nc, setStop_nc, emit_nc]

theorem abortOutcome_nc (cfg : Cfg) (tl : Bool) (a : Nat) : NC JC amb (abortOutcome cfg tl a) := by
  unfold abortOutcome
  nc [emitAbortedOnce_nc, buildOutcome_nc]

theorem callAttemptStart_nc (cfg : Cfg) (a : Nat) : NC JC amb (callAttemptStart cfg a) := by
  unfold callAttemptStart
  nc [elapsed_nc]

theorem callAttemptEnd_nc (cfg : Cfg) (a : Nat) (cls : Option Classification) (e : Option Exn)
    (r : Option Nat) (d : AttemptDecision) (st : Option StopReason) (c : Option Cause) (sl : Option Nat) :
    NC JC amb (callAttemptEnd cfg a cls e r d st c sl) := by
  unfold callAttemptEnd
  nc [elapsed_nc]

theorem callAttemptEndFromOutcome_nc (cfg : Cfg) (a : Nat) (o : AOutcome) :
    NC JC amb (callAttemptEndFromOutcome cfg a o) := by
  unfold callAttemptEndFromOutcome
  exact callAttemptEnd_nc _ _ _ _ _ _ _ _ _

theorem finalizeAttempt_nc (cfg : Cfg) (tl : Bool) (a : Nat) (d : Decision) (act : Option SleepDecision)
    (cls : Option Classification) (e : Option Exn) (r : Option Nat) (c : Option Cause) :
    NC JC amb (finalizeAttempt cfg tl a d act cls e r c) := by
  unfold finalizeAttempt
  nc [getRS_nc, elapsed_nc, setStop_nc, emit_nc]

theorem handleSleepDecision_nc (cfg : Cfg) (tl : Bool) (act : SleepDecision) (a s : Nat) :
    NC JC amb (handleSleepDecision cfg tl act a s) := by
  unfold handleSleepDecision
  nc [getRS_nc, setStop_nc, emit_nc, emitAbortedOnce_nc]

theorem callBeforeSleep_nc (cfg : Cfg) (ctx : BackoffCtx) (s : Nat) : NC JC amb (callBeforeSleep cfg ctx s) := by
  unfold callBeforeSleep
  nc [swallow_nc]

theorem callSleeper_nc (cfg : Cfg) (s : Nat) : NC JC amb (callSleeper cfg s) := by
  unfold callSleeper
  nc []

theorem callSleepHandler_nc (lvl : Lvl) (ctx : BackoffCtx) (s : Nat) : NC JC amb (callSleepHandler lvl ctx s) := by
  unfold callSleepHandler
  nc []

theorem sleepAction_nc (cfg : Cfg) (tl : Bool) (a s : Nat) (ctx : BackoffCtx) :
    NC JC amb (sleepAction cfg tl a s ctx) := by
  unfold sleepAction
  nc [callBeforeSleep_nc, callSleeper_nc, callSleepHandler_nc, handleSleepDecision_nc]

theorem failureOutcome_nc (cfg : Cfg) (tl : Bool) (a : Nat) (d : Decision) (cls : Option Classification)
    (e : Option Exn) (r : Option Nat) (c : Option Cause) : NC JC amb (failureOutcome cfg tl a d cls e r c) := by
  unfold failureOutcome
  nc [finalizeAttempt_nc, sleepAction_nc]

/-! ### runner/logic.py, sync_core.py -/

theorem shouldClassifyResult_nc (cfg : Cfg) (v : Nat) : NC JC amb (shouldClassifyResult cfg v) := by
  unfold shouldClassifyResult
  nc []

theorem handleSuccessAttemptEnd_nc (cfg : Cfg) (tl : Bool) (a v : Nat) :
    NC JC amb (handleSuccessAttemptEnd cfg tl a v) := by
  unfold handleSuccessAttemptEnd
  nc [recordStrategySuccess_nc, emit_nc, callAttemptEnd_nc]

theorem handleAbortAttemptEnd_nc (cfg : Cfg) (a : Nat) (e : Exn) : NC JC amb (handleAbortAttemptEnd cfg a e) := by
  unfold handleAbortAttemptEnd
  nc [getAS_nc, callAttemptEnd_nc, modifyAS_nc]

theorem emitMaxAttemptsExceeded_nc (cfg : Cfg) (tl : Bool) : NC JC amb (emitMaxAttemptsExceeded cfg tl) := by
  unfold emitMaxAttemptsExceeded
  nc [getRS_nc, emit_nc, setStop_nc]

theorem raiseExhaustedCall_nc (cfg : Cfg) : NC JC amb (raiseExhaustedCall cfg) := by
  unfold raiseExhaustedCall
  refine NC.bind (emitMaxAttemptsExceeded_nc cfg false) (fun _ => ?_)
  refine ⟨fun w hw => ?_⟩
  rw [bind_run, getRS_run']
  simp only
  split
  · exact ⟨fun _ h => h, hw, fun w' h => by cases h⟩
  · cases hle : w.rs.lastExc with
    | none => exact ⟨fun _ h => h, hw, fun w' h => by cases h⟩
    | some e =>
      refine ⟨fun _ h => h, hw, fun w' h => ?_⟩
      injection h with h1 _
      subst h1
      exact absurd hle hw

theorem invokeOp_nc (a : Nat) : NC JC amb (invokeOp a) := by
  unfold invokeOp
  refine NC.bind (NC.modify _ (fun _ => ⟨fun _ h => h, fun h => h⟩)) (fun _ => ?_)
  apply NC.getThen
  intro w
  nc []

theorem deliverCall_nc (act : Action) (orig : Option Exn) (fb : ExhaustedFields) (ho : orig ≠ some .cancelled) :
    NC JC amb (deliverCall act orig fb) := by
  unfold deliverCall
  cases act with
  | continue_ => exact NC.pure _
  | abort => exact NC.throw _ (fun h => by cases h)
  | scheduled f => exact NC.throw _ (fun h => by cases h)
  | raise =>
    cases orig with
    | none => exact NC.throw _ (fun h => by cases h)
    | some e => exact NC.throw _ (fun h => ho (by rw [h]))

theorem callExceptionPath_nc (cfg : Cfg) (a : Nat) (e : Exn) (he : e ≠ .cancelled) :
    NC JC amb (callExceptionPath cfg a e) := by
  unfold callExceptionPath
  have h1 := handleException_nc (amb := amb) cfg false e a he
  have h2 : ∀ act fb, NC JC amb (deliverCall act (some e) fb) :=
    fun act fb => deliverCall_nc act (some e) fb (fun h => he (by injection h))
  nc [modifyAS_nc, checkAbort_nc, h1, getRS_nc, failureOutcome_nc,
    callAttemptEndFromOutcome_nc, h2]

theorem callOpHandler_nc (cfg : Cfg) (a : Nat) (e : Exn) : NC JC (some e) (callOpHandler cfg a e) := by
  unfold callOpHandler
  by_cases he : e = .cancelled
  · subst he
    simp only [Exn.isAbort, Bool.false_eq_true, if_false, if_true]
    exact NC.rethrow _
  · have h1 := callExceptionPath_nc (amb := some e) cfg a e he
    nc [handleAbortAttemptEnd_nc, emitAbortedOnce_nc, h1]

theorem callResultFailure_nc (cfg : Cfg) (a v : Nat) (c : Classification) :
    NC JC amb (callResultFailure cfg a v c) := by
  unfold callResultFailure
  have h1 := handleFailure_nc (amb := amb) cfg false c a .result none (some v) (fun h => by cases h)
  have h2 : ∀ act fb, NC JC amb (deliverCall act none fb) :=
    fun act fb => deliverCall_nc act none fb (fun h => by cases h)
  nc [modifyAS_nc, checkAbort_nc, h1, getRS_nc, failureOutcome_nc,
    callAttemptEndFromOutcome_nc, h2]

theorem callResultPath_nc (cfg : Cfg) (a v : Nat) : NC JC amb (callResultPath cfg a v) := by
  unfold callResultPath
  nc [shouldClassifyResult_nc, handleSuccessAttemptEnd_nc, callResultFailure_nc]

theorem callAttempt_nc (cfg : Cfg) (a : Nat) : NC JC amb (callAttempt cfg a) := by
  unfold callAttempt
  nc [checkAbort_nc, callAttemptStart_nc, modifyAS_nc, invokeOp_nc, callOpHandler_nc, callResultPath_nc]

theorem callLoop_nc (cfg : Cfg) : ∀ (fuel a : Nat), NC JC amb (callLoop cfg fuel a)
  | 0, a => by unfold callLoop; exact raiseExhaustedCall_nc cfg
  | fuel + 1, a => by
    unfold callLoop
    have ih := callLoop_nc cfg fuel
    nc [callAttempt_nc, ih]



/-! #### execute -/

theorem deliverExecute_nc (cfg : Cfg) (tl : Bool) (act : Action) (o : AOutcome) :
    NC JC amb (deliverExecute cfg tl act o) := by
  unfold deliverExecute
  apply NC.getThen
  · intro w
    nc [abortOutcome_nc, buildOutcome_nc]

theorem execResultFailure_nc (cfg : Cfg) (tl : Bool) (a v : Nat) (c : Classification) :
    NC JC amb (execResultFailure cfg tl a v c) := by
  unfold execResultFailure
  have h1 := handleFailure_nc (amb := amb) cfg tl c a .result none (some v) (fun h => by cases h)
  nc [modifyAS_nc, checkAbort_nc, h1, getRS_nc, failureOutcome_nc,
    callAttemptEndFromOutcome_nc, deliverExecute_nc]

theorem execPre_nc (cfg : Cfg) (tl : Bool) (a : Nat) : NC JC amb (execPre cfg tl a) := by
  unfold execPre
  nc [checkAbort_nc, callAttemptStart_nc, modifyAS_nc, invokeOp_nc]

theorem execResultPath_nc (cfg : Cfg) (tl : Bool) (a v : Nat) : NC JC amb (execResultPath cfg tl a v) := by
  unfold execResultPath
  nc [shouldClassifyResult_nc, handleSuccessAttemptEnd_nc, buildOutcome_nc, execResultFailure_nc]

theorem execAbortExit_nc (cfg : Cfg) (tl : Bool) (a : Nat) (e : Exn) : NC JC amb (execAbortExit cfg tl a e) := by
  unfold execAbortExit
  refine NC.bind (handleAbortAttemptEnd_nc _ _ _) (fun _ => ?_)
  apply NC.getThen
  · intro w
    nc [abortOutcome_nc]

theorem abortToTrue_nc (e : Exn) : NC JC (some e) (abortToTrue e) := by
  unfold abortToTrue
  nc []

theorem checkAbortCaught_nc (cfg : Cfg) (tl : Bool) (a : Nat) : NC JC amb (checkAbortCaught cfg tl a) := by
  unfold checkAbortCaught
  nc [checkAbort_nc, abortToTrue_nc]

theorem execExceptionPath3_nc (cfg : Cfg) (tl : Bool) (a : Nat) (e : Exn) (d : Decision) :
    NC JC amb (execExceptionPath3 cfg tl a e d) := by
  unfold execExceptionPath3
  nc [getRS_nc, failureOutcome_nc, callAttemptEndFromOutcome_nc, modifyAS_nc, deliverExecute_nc]

theorem execExceptionPath2_nc (cfg : Cfg) (tl : Bool) (a : Nat) (e : Exn) (he : e ≠ .cancelled) :
    NC JC amb (execExceptionPath2 cfg tl a e) := by
  unfold execExceptionPath2
  have h1 := handleException_nc (amb := amb) cfg tl e a he
  nc [h1, getRS_nc, modifyAS_nc, execExceptionPath3_nc, checkAbortCaught_nc,
    execAbortExit_nc]

theorem execExceptionPath_nc (cfg : Cfg) (tl : Bool) (a : Nat) (e : Exn) (he : e ≠ .cancelled) :
    NC JC amb (execExceptionPath cfg tl a e) := by
  unfold execExceptionPath
  have h1 := execExceptionPath2_nc (amb := amb) cfg tl a e he
  nc [modifyAS_nc, checkAbortCaught_nc, execAbortExit_nc, h1]

theorem execHandler_nc (cfg : Cfg) (tl : Bool) (a : Nat) (e : Exn) : NC JC (some e) (execHandler cfg tl a e) := by
  unfold execHandler
  by_cases he : e = .cancelled
  · subst he
    simp only [Exn.isAbort, Bool.false_eq_true, if_false, if_true]
    exact NC.rethrow _
  · have h1 := execExceptionPath_nc (amb := some e) cfg tl a e he
    nc [execAbortExit_nc, h1]

theorem execReturnedHandler_nc (cfg : Cfg) (tl : Bool) (a : Nat) (e : Exn) :
    NC JC (some e) (execReturnedHandler cfg tl a e) := by
  unfold execReturnedHandler
  nc [execAbortExit_nc]

theorem execAttempt_nc (cfg : Cfg) (tl : Bool) (a : Nat) : NC JC amb (execAttempt cfg tl a) := by
  unfold execAttempt
  nc [execPre_nc, execHandler_nc, execResultPath_nc, execReturnedHandler_nc]

theorem buildExhaustedOutcome_nc (cfg : Cfg) (tl : Bool) : NC JC amb (buildExhaustedOutcome cfg tl) := by
  unfold buildExhaustedOutcome
  refine NC.bind (emitMaxAttemptsExceeded_nc _ _) (fun _ => ?_)
  apply NC.getThen
  · intro w
    exact buildOutcome_nc _ _ _ _

theorem execLoop_nc (cfg : Cfg) (tl : Bool) : ∀ (fuel a : Nat), NC JC amb (execLoop cfg tl fuel a)
  | 0, a => by unfold execLoop; exact buildExhaustedOutcome_nc cfg tl
  | fuel + 1, a => by
    unfold execLoop
    have ih := execLoop_nc cfg tl fuel
    nc [execAttempt_nc, ih]


/-! ### `runCall` / `runExecute`: no assumption on the `_RetryState` the world starts with -/

/-- no invariant -/
def JT (_ : RState) : Prop := True


theorem runCall_nct (cfg : Cfg) : NC JT amb (runCall cfg) := by
  refine ⟨fun w _ => ?_⟩
  unfold runCall initState
  rw [bind_run, modify_run]
  simp only
  obtain ⟨g, _, c⟩ := (callLoop_nc (amb := amb) cfg cfg.maxAttempts 1).run
    { w with rs := { start := w.now }, as := {}, attempts := 0 } (fun h => by cases h)
  exact ⟨g, trivial, c⟩

theorem runExecute_nct (cfg : Cfg) : NC JT amb (runExecute cfg) := by
  refine ⟨fun w _ => ?_⟩
  unfold runExecute initState
  rw [bind_run, modify_run]
  simp only
  rw [bind_run, modify_run]
  simp only
  obtain ⟨g, _, c⟩ := (execLoop_nc (amb := amb) cfg cfg.timeline cfg.maxAttempts 1).run
    { w with tlStart := w.now, timeline := [], rs := { start := w.now }, as := {}, attempts := 0 }
    (fun h => by cases h)
  exact ⟨g, trivial, c⟩

theorem callClassifier_nct (e : Exn) : NC JT amb (callClassifier e) := by
  unfold callClassifier
  nc []

theorem invokeOp_nct (a : Nat) : NC JT amb (invokeOp a) := by
  unfold invokeOp
  refine NC.bind (NC.modify _ (fun _ => ⟨fun _ h => h, fun h => h⟩)) (fun _ => ?_)
  apply NC.getThen
  intro w
  nc []

/-! ### policy.py -/
open Policy

theorem emitBreakerEvent_ncp (cfg : Cfg) (ev : Option Event) (st : CState) (k : Option EClass) :
    NC JT amb (emitBreakerEvent cfg ev st k) := by
  unfold emitBreakerEvent
  split
  · exact NC.pure _
  · dsimp only
    unfold askMetric askLog
    nc [swallow_nc]

theorem breakerAllow_ncp (bc : Breaker.Cfg) : NC JT amb (breakerAllow bc) :=
  ⟨fun w hw => ⟨fun _ h => List.mem_cons_of_mem _ h, hw, fun _ h => by cases h⟩⟩

theorem checkBreaker_ncp (cfg : Cfg) : NC JT amb (checkBreaker cfg) := by
  unfold checkBreaker
  nc [breakerAllow_ncp, emitBreakerEvent_ncp]

/-- `do let w ← get; set (g w); k w` where `g` commutes with σ and `k` only reads σ-invariant data -/

theorem recordSuccess_ncp (cfg : Cfg) : NC JT amb (Policy.recordSuccess cfg) := by
  unfold Policy.recordSuccess
  split
  · exact NC.pure _
  · refine ⟨fun w hw => ?_⟩
    simp only [bind_run, get_run, set_run]
    obtain ⟨g, j, c⟩ := (emitBreakerEvent_ncp (amb := amb) cfg (Breaker.recordSuccess w.breaker).1
      (Breaker.recordSuccess w.breaker).2.state none).run
      { w with breaker := (Breaker.recordSuccess w.breaker).2, xc := { w.xc with settled := true },
               trace := (Req.breakerSuccess, Ans.recorded (Breaker.recordSuccess w.breaker).1
                 (Breaker.recordSuccess w.breaker).2.state) :: w.trace } hw
    exact ⟨fun y hy => g y (List.mem_cons_of_mem _ hy), j, c⟩

theorem recordCancel_ncp (cfg : Cfg) : NC JT amb (Policy.recordCancel cfg) := by
  unfold Policy.recordCancel
  split
  · exact NC.pure _
  · exact NC.modify _ (fun _ => ⟨fun _ h => List.mem_cons_of_mem _ h, fun h => h⟩)

theorem recordFailureP_ncp (cfg : Cfg) (k : EClass) : NC JT amb (Policy.recordFailure cfg k) := by
  unfold Policy.recordFailure
  split
  · exact NC.pure _
  · rename_i bc _
    refine ⟨fun w hw => ?_⟩
    simp only [bind_run, get_run, set_run]
    obtain ⟨g, j, c⟩ := (emitBreakerEvent_ncp (amb := amb) cfg (Breaker.recordFailure bc w.breaker k w.now).1
      (Breaker.recordFailure bc w.breaker k w.now).2.state (some k)).run
      { w with breaker := (Breaker.recordFailure bc w.breaker k w.now).2, xc := { w.xc with settled := true },
               trace := (Req.breakerFailure k, Ans.recorded (Breaker.recordFailure bc w.breaker k w.now).1
                 (Breaker.recordFailure bc w.breaker k w.now).2.state) :: w.trace } hw
    exact ⟨fun y hy => g y (List.mem_cons_of_mem _ hy), j, c⟩

theorem ensureSettled_ncp (cfg : Cfg) : NC JT amb (ensureSettled cfg) := by
  unfold ensureSettled
  apply NC.getThen
  intro w
  nc [recordCancel_ncp]

theorem classifyForBreaker_ncp (cfg : Cfg) (e : Exn) : NC JT amb (classifyForBreaker cfg e) := by
  unfold classifyForBreaker
  nc [callClassifier_nct]

theorem checkAbortNoRetry_ncp (cfg : Cfg) : NC JT amb (checkAbortNoRetry cfg) := by
  unfold checkAbortNoRetry
  nc [recordCancel_ncp]

theorem xElapsed_ncp : NC JT amb xElapsed := NC.reader (fun w => ⟨_, rfl⟩)

theorem noRetryStartHook_ncp (cfg : Cfg) : NC JT amb (noRetryStartHook cfg) := by
  unfold noRetryStartHook
  nc [xElapsed_ncp]

theorem noRetryEndHook_ncp (cfg : Cfg) (e : Option Exn) (r : Option Nat) (d : AttemptDecision)
    (st : Option StopReason) (c : Option Cause) : NC JT amb (noRetryEndHook cfg e r d st c) := by
  unfold noRetryEndHook
  nc [xElapsed_ncp]

theorem callWithoutRetry_ncp (cfg : Cfg) : NC JT amb (callWithoutRetry cfg) := by
  unfold callWithoutRetry
  nc [noRetryStartHook_ncp, invokeOp_nct, noRetryEndHook_ncp]

theorem handleAbortCall_ncp (cfg : Cfg) (e : Exn) : NC JT amb (handleAbortCall cfg e) := by
  unfold handleAbortCall
  nc [noRetryEndHook_ncp, recordCancel_ncp]

theorem handleExhaustedCall_ncp (cfg : Cfg) (e : Exn) : NC JT amb (handleExhaustedCall cfg e) := by
  unfold handleExhaustedCall
  exact recordFailureP_ncp _ _

theorem handleExceptionCall_ncp (cfg : Cfg) (e : Exn) (b : Bool) : NC JT amb (handleExceptionCall cfg e b) := by
  unfold handleExceptionCall
  nc [noRetryEndHook_ncp, classifyForBreaker_ncp, recordFailureP_ncp]

theorem callLadder_ncp (cfg : Cfg) (e : Exn) : NC JT (some e) (callLadder cfg e) := by
  unfold callLadder
  nc [recordCancel_ncp, handleAbortCall_ncp, handleExhaustedCall_ncp, handleExceptionCall_ncp]

theorem callAdmitted_ncp (cfg : Cfg) : NC JT amb (callAdmitted cfg) := by
  unfold callAdmitted
  nc [checkBreaker_ncp, checkAbortNoRetry_ncp, runCall_nct, callWithoutRetry_ncp, recordSuccess_ncp,
    callLadder_ncp]

theorem initCtx_ncp : NC JT amb initCtx := NC.modify _ (fun _ => ⟨fun _ h => h, fun h => h⟩)

theorem withFinally_ncp {x : M α} {fin : M Unit} (hx : NC JT amb x) (hf : ∀ amb', NC JT amb' fin) :
    NC JT amb (withFinally x fin) := by
  unfold withFinally
  have h1 := hf amb
  have h2 : ∀ e, NC JT (some e) (do fin; throw e : M α) := fun e => NC.bind (hf (some e)) (fun _ => NC.rethrow e)
  nc [hx, h1, h2]

theorem call_ncp (cfg : Cfg) : NC JT amb (Policy.call cfg) := by
  unfold Policy.call
  exact NC.bind initCtx_ncp (fun _ => withFinally_ncp (callAdmitted_ncp cfg) (fun _ => ensureSettled_ncp cfg))

theorem policyOutcome_ncp (ok : Bool) (value : Option Nat) (stop : Option StopReason) (n : Nat)
    (lc : Option EClass) (le : Option String) (c : Option Cause) :
    NC JT amb (policyOutcome ok value stop n lc le c) := by
  unfold policyOutcome
  nc [xElapsed_ncp]

theorem executeLadder_ncp (cfg : Cfg) (e : Exn) : NC JT (some e) (executeLadder cfg e) := by
  unfold executeLadder
  nc [handleExhaustedCall_ncp, recordCancel_ncp, handleExceptionCall_ncp]

theorem executeWithRetry_ncp (cfg : Cfg) : NC JT amb (executeWithRetry cfg) := by
  unfold executeWithRetry
  nc [runExecute_nct, executeLadder_ncp, recordSuccess_ncp, recordCancel_ncp, recordFailureP_ncp]

theorem noRetryLadder_ncp (cfg : Cfg) (b : Bool) (e : Exn) : NC JT (some e) (noRetryLadder cfg b e) := by
  unfold noRetryLadder
  nc [recordCancel_ncp, noRetryEndHook_ncp, policyOutcome_ncp, recordFailureP_ncp]

theorem executeWithoutRetry_ncp (cfg : Cfg) : NC JT amb (executeWithoutRetry cfg) := by
  unfold executeWithoutRetry
  nc [noRetryStartHook_ncp, invokeOp_nct, noRetryLadder_ncp, recordSuccess_ncp, noRetryEndHook_ncp,
    policyOutcome_ncp]

theorem executeAdmitted2_ncp (cfg : Cfg) : NC JT amb (executeAdmitted2 cfg) := by
  unfold executeAdmitted2
  nc [checkAbortNoRetry_ncp, policyOutcome_ncp, executeWithRetry_ncp, executeWithoutRetry_ncp]

theorem executeAdmitted_ncp (cfg : Cfg) : NC JT amb (executeAdmitted cfg) := by
  unfold executeAdmitted
  nc [executeAdmitted2_ncp, breakerAllow_ncp, emitBreakerEvent_ncp, policyOutcome_ncp]

theorem execute_ncp (cfg : Cfg) : NC JT amb (Policy.execute cfg) := by
  unfold Policy.execute
  exact NC.bind initCtx_ncp (fun _ => withFinally_ncp (executeAdmitted_ncp cfg) (fun _ => ensureSettled_ncp cfg))

end

end Redress
