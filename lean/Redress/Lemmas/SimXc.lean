/-
  Redress.Lemmas.SimXc — the retry loop never looks at (or touches) the policy's `ExecutionContext`:
  every procedure up to `runCall` / `runExecute` commutes with replacing `World.xc` (C12, T2).
  (Mechanical adaptation of `EqvProcs.lean`.)
-/
import Redress.Lemmas.Eqv

namespace Redress
open Twin Retry

/-- replace the `ExecutionContext` -/
def θ (c : XCtx) (w : World) : World := { w with xc := c }

/-- `x` commutes with replacing the `ExecutionContext` -/
structure Xq (c : XCtx) (x : M α) : Prop where
  eq : ∀ w, x (θ c w) = mapRes (θ c) (x w)

section
variable {xc0 : XCtx}

theorem Xq.pure (a : α) : Xq xc0 (pure a : M α) := ⟨fun _ => rfl⟩
theorem Xq.throw (e : Exn) : Xq xc0 (throw e : M α) := ⟨fun _ => rfl⟩

theorem Xq.bind {x : M α} {f : α → M β} (hx : Xq xc0 x) (hf : ∀ a, Xq xc0 (f a)) : Xq xc0 (x >>= f) := by
  refine ⟨fun w => ?_⟩
  rw [bind_run, bind_run, hx.eq w]
  cases x w with
  | ok a w1 => exact (hf a).eq w1
  | error e w1 => rfl

theorem Xq.tryC {x : M α} {h : Exn → M α} (hx : Xq xc0 x) (hh : ∀ e, Xq xc0 (h e)) :
    Xq xc0 (tryCatch x h : M α) := by
  refine ⟨fun w => ?_⟩
  rw [tryCatch_run, tryCatch_run, hx.eq w]
  cases x w with
  | ok a w1 => rfl
  | error e w1 => exact (hh e).eq w1

theorem Xq.ite {p : Prop} [Decidable p] {x y : M α} (hx : Xq xc0 x) (hy : Xq xc0 y) :
    Xq xc0 (if p then x else y) := by
  split <;> assumption

theorem Xq.ask (r : Req) : Xq xc0 (ask r) := by
  refine ⟨fun w => ?_⟩
  cases hw : w.answers with
  | nil => rw [ask_nil r w hw, ask_nil r (θ xc0 w) hw]; rfl
  | cons a rest =>
    rw [ask_cons r w a rest hw, ask_cons r (θ xc0 w) a rest hw]
    cases a <;> rfl

theorem Xq.askHook (r : Req) : Xq xc0 (askHook r) := by
  refine ⟨fun w => ?_⟩
  cases hw : w.answers with
  | nil => rw [askHook_nil r w hw, askHook_nil r (θ xc0 w) hw]; rfl
  | cons a rest =>
    rw [askHook_cons r w a rest hw, askHook_cons r (θ xc0 w) a rest hw]
    unfold askHookStep
    simp only [show (θ xc0 w).silent = w.silent from rfl]
    generalize (if w.silent = true then a.silenced else a) = a'
    cases a' <;> rfl

theorem Xq.modify (f : World → World) (hf : ∀ w, f (θ xc0 w) = θ xc0 (f w)) :
    Xq xc0 (_root_.modify f : M PUnit) := by
  refine ⟨fun w => ?_⟩
  rw [modify_run, modify_run, hf]
  rfl

theorem Xq.getThen (k : World → M α) (hk : ∀ w, k (θ xc0 w) (θ xc0 w) = mapRes (θ xc0) (k w w)) :
    Xq xc0 (get >>= k) := by
  refine ⟨fun w => ?_⟩
  rw [bind_run, bind_run, get_run, get_run]
  exact hk w

theorem Xq.getThen' (k : World → M α) (hk : ∀ w, k (θ xc0 w) = k w) (he : ∀ w, Xq xc0 (k w)) :
    Xq xc0 (get >>= k) :=
  Xq.getThen k (fun w => by rw [hk]; exact (he w).eq w)

theorem Xq.read (g : World → α) (hg : ∀ w, g (θ xc0 w) = g w) :
    Xq xc0 (get >>= fun w => (Pure.pure (g w) : M α)) :=
  Xq.getThen _ (fun w => by show EStateM.Result.ok (g (θ xc0 w)) (θ xc0 w) = _; rw [hg]; rfl)

end

syntax "xq" "[" ident,* "]" : tactic
macro_rules
  | `(tactic| xq [$ls,*]) => do
    let alts ← ls.getElems.mapM fun l => `(tacticSeq| with_reducible apply $l)
    `(tactic| repeat (first
        | with_reducible exact Xq.pure _
        | with_reducible exact Xq.throw _
        | with_reducible exact Xq.ask _
        | with_reducible exact Xq.askHook _
        | (with_reducible apply Xq.modify) <;> (intro _; rfl)
        | assumption
        $[| $alts]*
        | with_reducible apply Xq.bind
        | with_reducible apply Xq.tryC
        | with_reducible apply Xq.ite
        | (intro _)
        | split))

section
variable {xc0 : XCtx}

theorem getRS_xq : Xq xc0 getRS := Xq.read (fun w => w.rs) (fun _ => rfl)
theorem getAS_xq : Xq xc0 getAS := Xq.read (fun w => w.as) (fun _ => rfl)
theorem getNow_xq : Xq xc0 getNow := Xq.read (fun w => w.now) (fun _ => rfl)
theorem elapsed_xq : Xq xc0 elapsed := Xq.read (fun w => w.now - w.rs.start) (fun _ => rfl)
theorem modifyRS_xq (f : RState → RState) : Xq xc0 (modifyRS f) := Xq.modify _ (fun _ => rfl)
theorem modifyAS_xq (f : AState → AState) : Xq xc0 (modifyAS f) := Xq.modify _ (fun _ => rfl)

theorem setStop_xq (s : StopReason) : Xq xc0 (setStop s) := modifyRS_xq _

theorem recordTimeline_xq (ev : Event) (a s : Nat) (t : Tags) : Xq xc0 (recordTimeline ev a s t) :=
  Xq.modify _ (fun _ => rfl)

theorem swallowException_xq (e : Exn) : Xq xc0 (swallowException e) := by
  unfold swallowException
  xq []

/-! ### state.py -/

theorem askMetric_xq (ev : Event) (a s : Nat) (t : Tags) : Xq xc0 (askMetric ev a s t) := by
  unfold askMetric
  xq []

theorem askLog_xq (ev : Event) (a s : Nat) (t : Tags) (ra : Option Int) : Xq xc0 (askLog ev a s t ra) := by
  unfold askLog
  xq []

theorem metricHook_xq (cfg : Cfg) (tl : Bool) (ev : Event) (a s : Nat) (t : Tags) :
    Xq xc0 (metricHook cfg tl ev a s t) := by
  unfold metricHook
  xq [recordTimeline_xq, askMetric_xq]

theorem emit_xq (cfg : Cfg) (tl : Bool) (ev : Event) (a s : Nat) (k : Option EClass) (e : Option Exn)
    (st : Option StopReason) (c' : Option Cause) (cl : Option Classification) :
    Xq xc0 (emit cfg tl ev a s k e st c' cl) := by
  unfold emit
  xq [metricHook_xq, swallowException_xq, askLog_xq]

theorem askAbortIf_xq : Xq xc0 (ask .abortIf) := Xq.ask _

theorem checkAbort_xq (cfg : Cfg) (tl : Bool) (a : Nat) : Xq xc0 (checkAbort cfg tl a) := by
  unfold checkAbort
  xq [askAbortIf_xq, setStop_xq, emit_xq]

theorem recordFailure_xq (c : Classification) (cause : Cause) (e : Option Exn) (r : Option Nat) :
    Xq xc0 (Retry.recordFailure c cause e r) := modifyRS_xq _


theorem recordStrategySuccess_xq (cfg : Cfg) : Xq xc0 (recordStrategySuccess cfg) := by
  unfold recordStrategySuccess
  xq [getRS_xq]

theorem callStrategy_xq (key : SKey) (kind : SKind) (ctx : BackoffCtx) : Xq xc0 (callStrategy key kind ctx) := by
  unfold callStrategy
  xq []

theorem stratRecordFailure_xq (cfg : Cfg) (key : SKey) (k : EClass) : Xq xc0 (stratRecordFailure cfg key k) := by
  unfold stratRecordFailure
  xq []

theorem budgetConsume_xq (cfg : Cfg) : Xq xc0 (budgetConsume cfg) := by
  unfold budgetConsume
  split
  · exact Xq.pure _
  · exact ⟨fun w => rfl⟩

theorem stopWith_xq (cfg : Cfg) (tl : Bool) (s : StopReason) (ev : Event) (a : Nat) (k : EClass)
    (e : Option Exn) (c : Cause) : Xq xc0 (stopWith cfg tl s ev a k e c) := by
  unfold stopWith
  xq [setStop_xq, emit_xq]

theorem grantRetry_xq (cfg : Cfg) (tl : Bool) (c : Classification) (a : Nat) (cause : Cause)
    (e : Option Exn) (key : SKey) (kind : SKind) (rem : Nat) :
    Xq xc0 (grantRetry cfg tl c a cause e key kind rem) := by
  unfold grantRetry
  xq [getRS_xq, callStrategy_xq, budgetConsume_xq, modifyRS_xq, emit_xq, stopWith_xq]

theorem handleFailure2_xq (cfg : Cfg) (tl : Bool) (c : Classification) (a : Nat) (cause : Cause)
    (e : Option Exn) : Xq xc0 (handleFailure2 cfg tl c a cause e) := by
  unfold handleFailure2
  xq [elapsed_xq, stopWith_xq, modifyRS_xq, stratRecordFailure_xq, grantRetry_xq]

theorem handleUnknown_xq (cfg : Cfg) (tl : Bool) (c : Classification) (a : Nat) (cause : Cause)
    (e : Option Exn) : Xq xc0 (handleUnknown cfg tl c a cause e) := by
  unfold handleUnknown
  xq [getRS_xq, modifyRS_xq, stopWith_xq, handleFailure2_xq]

theorem handleFailure1_xq (cfg : Cfg) (tl : Bool) (c : Classification) (a : Nat) (cause : Cause)
    (e : Option Exn) : Xq xc0 (handleFailure1 cfg tl c a cause e) := by
  unfold handleFailure1
  xq [getRS_xq, stopWith_xq, handleUnknown_xq, handleFailure2_xq]

theorem handleFailure_xq (cfg : Cfg) (tl : Bool) (c : Classification) (a : Nat) (cause : Cause)
    (e : Option Exn) (r : Option Nat) : Xq xc0 (handleFailure cfg tl c a cause e r) := by
  unfold handleFailure
  xq [recordFailure_xq, modifyRS_xq, handleFailure1_xq]

theorem callClassifier_xq (e : Exn) : Xq xc0 (callClassifier e) := by
  unfold callClassifier
  xq []

theorem handleException_xq (cfg : Cfg) (tl : Bool) (e : Exn) (a : Nat) : Xq xc0 (handleException cfg tl e a) := by
  unfold handleException
  xq [callClassifier_xq, handleFailure_xq]

/-! ### retry_helpers.py -/

theorem buildOutcome_xq (ok : Bool) (value : Option Nat) (n : Nat) (ns : Option Nat) :
    Xq xc0 (buildOutcome ok value n ns) := by
  unfold buildOutcome
  xq [getRS_xq, elapsed_xq]

theorem emitAbortedOnce_xq (cfg : Cfg) (tl : Bool) (a : Nat) : Xq xc0 (emitAbortedOnce cfg tl a) := by
  unfold emitAbortedOnce
  xq [getRS_xq, setStop_xq, emit_xq]

theorem abortOutcome_xq (cfg : Cfg) (tl : Bool) (a : Nat) : Xq xc0 (abortOutcome cfg tl a) := by
  unfold abortOutcome
  xq [emitAbortedOnce_xq, buildOutcome_xq]

theorem callAttemptStart_xq (cfg : Cfg) (a : Nat) : Xq xc0 (callAttemptStart cfg a) := by
  unfold callAttemptStart
  xq [elapsed_xq]

theorem callAttemptEnd_xq (cfg : Cfg) (a : Nat) (cls : Option Classification) (e : Option Exn)
    (r : Option Nat) (d : AttemptDecision) (st : Option StopReason) (c : Option Cause) (sl : Option Nat) :
    Xq xc0 (callAttemptEnd cfg a cls e r d st c sl) := by
  unfold callAttemptEnd
  xq [elapsed_xq]

theorem callAttemptEndFromOutcome_xq (cfg : Cfg) (a : Nat) (o : AOutcome) :
    Xq xc0 (callAttemptEndFromOutcome cfg a o) := by
  unfold callAttemptEndFromOutcome
  exact callAttemptEnd_xq _ _ _ _ _ _ _ _ _

theorem finalizeAttempt_xq (cfg : Cfg) (tl : Bool) (a : Nat) (d : Decision) (act : Option SleepDecision)
    (cls : Option Classification) (e : Option Exn) (r : Option Nat) (c : Option Cause) :
    Xq xc0 (finalizeAttempt cfg tl a d act cls e r c) := by
  unfold finalizeAttempt
  xq [getRS_xq, elapsed_xq, setStop_xq, emit_xq]

theorem handleSleepDecision_xq (cfg : Cfg) (tl : Bool) (act : SleepDecision) (a s : Nat) :
    Xq xc0 (handleSleepDecision cfg tl act a s) := by
  unfold handleSleepDecision
  xq [getRS_xq, setStop_xq, emit_xq, emitAbortedOnce_xq]

theorem callBeforeSleep_xq (cfg : Cfg) (ctx : BackoffCtx) (s : Nat) : Xq xc0 (callBeforeSleep cfg ctx s) := by
  unfold callBeforeSleep
  xq [swallowException_xq]

theorem callSleeper_xq (cfg : Cfg) (s : Nat) : Xq xc0 (callSleeper cfg s) := by
  unfold callSleeper
  xq []

theorem callSleepHandler_xq (lvl : Lvl) (ctx : BackoffCtx) (s : Nat) : Xq xc0 (callSleepHandler lvl ctx s) := by
  unfold callSleepHandler
  xq []

theorem sleepAction_xq (cfg : Cfg) (tl : Bool) (a s : Nat) (ctx : BackoffCtx) :
    Xq xc0 (sleepAction cfg tl a s ctx) := by
  unfold sleepAction
  xq [callBeforeSleep_xq, callSleeper_xq, callSleepHandler_xq, handleSleepDecision_xq]

theorem failureOutcome_xq (cfg : Cfg) (tl : Bool) (a : Nat) (d : Decision) (cls : Option Classification)
    (e : Option Exn) (r : Option Nat) (c : Option Cause) : Xq xc0 (failureOutcome cfg tl a d cls e r c) := by
  unfold failureOutcome
  xq [finalizeAttempt_xq, sleepAction_xq]

/-! ### runner/logic.py, sync_core.py -/

theorem shouldClassifyResult_xq (cfg : Cfg) (v : Nat) : Xq xc0 (shouldClassifyResult cfg v) := by
  unfold shouldClassifyResult
  xq []

theorem handleSuccessAttemptEnd_xq (cfg : Cfg) (tl : Bool) (a v : Nat) :
    Xq xc0 (handleSuccessAttemptEnd cfg tl a v) := by
  unfold handleSuccessAttemptEnd
  xq [recordStrategySuccess_xq, emit_xq, callAttemptEnd_xq]

theorem handleAbortAttemptEnd_xq (cfg : Cfg) (a : Nat) (e : Exn) : Xq xc0 (handleAbortAttemptEnd cfg a e) := by
  unfold handleAbortAttemptEnd
  xq [getAS_xq, callAttemptEnd_xq, modifyAS_xq]

theorem emitMaxAttemptsExceeded_xq (cfg : Cfg) (tl : Bool) : Xq xc0 (emitMaxAttemptsExceeded cfg tl) := by
  unfold emitMaxAttemptsExceeded
  xq [getRS_xq, emit_xq, setStop_xq]

theorem raiseExhaustedCall_xq (cfg : Cfg) : Xq xc0 (raiseExhaustedCall cfg) := by
  unfold raiseExhaustedCall
  xq [emitMaxAttemptsExceeded_xq, getRS_xq]

theorem invokeOp_xq (a : Nat) : Xq xc0 (invokeOp a) := by
  unfold invokeOp
  refine Xq.bind (Xq.modify _ (fun w => rfl)) (fun _ => ?_)
  apply Xq.getThen'
  · intro w; rfl
  · intro w
    xq []

theorem deliverCall_xq (act : Action) (orig : Option Exn) (fb : ExhaustedFields) :
    Xq xc0 (deliverCall act orig fb) := by
  unfold deliverCall
  xq []

theorem callExceptionPath_xq (cfg : Cfg) (a : Nat) (e : Exn) : Xq xc0 (callExceptionPath cfg a e) := by
  unfold callExceptionPath
  xq [modifyAS_xq, checkAbort_xq, handleException_xq, getRS_xq, failureOutcome_xq,
    callAttemptEndFromOutcome_xq, deliverCall_xq]

theorem callOpHandler_xq (cfg : Cfg) (a : Nat) (e : Exn) : Xq xc0 (callOpHandler cfg a e) := by
  unfold callOpHandler
  xq [handleAbortAttemptEnd_xq, emitAbortedOnce_xq, callExceptionPath_xq]

theorem callResultFailure_xq (cfg : Cfg) (a v : Nat) (c : Classification) :
    Xq xc0 (callResultFailure cfg a v c) := by
  unfold callResultFailure
  xq [modifyAS_xq, checkAbort_xq, handleFailure_xq, getRS_xq, failureOutcome_xq,
    callAttemptEndFromOutcome_xq, deliverCall_xq]

theorem callResultPath_xq (cfg : Cfg) (a v : Nat) : Xq xc0 (callResultPath cfg a v) := by
  unfold callResultPath
  xq [shouldClassifyResult_xq, handleSuccessAttemptEnd_xq, callResultFailure_xq]

theorem callAttempt_xq (cfg : Cfg) (a : Nat) : Xq xc0 (callAttempt cfg a) := by
  unfold callAttempt
  xq [checkAbort_xq, callAttemptStart_xq, modifyAS_xq, invokeOp_xq, callOpHandler_xq, callResultPath_xq]

theorem callLoop_xq (cfg : Cfg) : ∀ (fuel a : Nat), Xq xc0 (callLoop cfg fuel a)
  | 0, a => by unfold callLoop; exact raiseExhaustedCall_xq cfg
  | fuel + 1, a => by
    unfold callLoop
    have ih := callLoop_xq cfg fuel
    xq [callAttempt_xq, ih]

theorem initState_xq : Xq xc0 initState := Xq.modify _ (fun _ => rfl)

theorem runCall_xq (cfg : Cfg) : Xq xc0 (runCall cfg) := by
  unfold runCall
  xq [initState_xq, callLoop_xq]

/-! #### execute -/

theorem deliverExecute_xq (cfg : Cfg) (tl : Bool) (act : Action) (o : AOutcome) :
    Xq xc0 (deliverExecute cfg tl act o) := by
  unfold deliverExecute
  apply Xq.getThen'
  · intro w; rfl
  · intro w
    xq [abortOutcome_xq, buildOutcome_xq]

theorem execResultFailure_xq (cfg : Cfg) (tl : Bool) (a v : Nat) (c : Classification) :
    Xq xc0 (execResultFailure cfg tl a v c) := by
  unfold execResultFailure
  xq [modifyAS_xq, checkAbort_xq, handleFailure_xq, getRS_xq, failureOutcome_xq,
    callAttemptEndFromOutcome_xq, deliverExecute_xq]

theorem execPre_xq (cfg : Cfg) (tl : Bool) (a : Nat) : Xq xc0 (execPre cfg tl a) := by
  unfold execPre
  xq [checkAbort_xq, callAttemptStart_xq, modifyAS_xq, invokeOp_xq]

theorem execResultPath_xq (cfg : Cfg) (tl : Bool) (a v : Nat) : Xq xc0 (execResultPath cfg tl a v) := by
  unfold execResultPath
  xq [shouldClassifyResult_xq, handleSuccessAttemptEnd_xq, buildOutcome_xq, execResultFailure_xq]

theorem execAbortExit_xq (cfg : Cfg) (tl : Bool) (a : Nat) (e : Exn) : Xq xc0 (execAbortExit cfg tl a e) := by
  unfold execAbortExit
  refine Xq.bind (handleAbortAttemptEnd_xq _ _ _) (fun _ => ?_)
  apply Xq.getThen'
  · intro w; rfl
  · intro w
    xq [abortOutcome_xq]

theorem abortToTrue_xq (e : Exn) : Xq xc0 (abortToTrue e) := by
  unfold abortToTrue
  xq []

theorem checkAbortCaught_xq (cfg : Cfg) (tl : Bool) (a : Nat) : Xq xc0 (checkAbortCaught cfg tl a) := by
  unfold checkAbortCaught
  xq [checkAbort_xq, abortToTrue_xq]

theorem execExceptionPath3_xq (cfg : Cfg) (tl : Bool) (a : Nat) (e : Exn) (d : Decision) :
    Xq xc0 (execExceptionPath3 cfg tl a e d) := by
  unfold execExceptionPath3
  xq [getRS_xq, failureOutcome_xq, callAttemptEndFromOutcome_xq, modifyAS_xq, deliverExecute_xq]

theorem execExceptionPath2_xq (cfg : Cfg) (tl : Bool) (a : Nat) (e : Exn) :
    Xq xc0 (execExceptionPath2 cfg tl a e) := by
  unfold execExceptionPath2
  xq [handleException_xq, getRS_xq, modifyAS_xq, execExceptionPath3_xq, checkAbortCaught_xq,
    execAbortExit_xq]

theorem execExceptionPath_xq (cfg : Cfg) (tl : Bool) (a : Nat) (e : Exn) :
    Xq xc0 (execExceptionPath cfg tl a e) := by
  unfold execExceptionPath
  xq [modifyAS_xq, checkAbortCaught_xq, execAbortExit_xq, execExceptionPath2_xq]

theorem execHandler_xq (cfg : Cfg) (tl : Bool) (a : Nat) (e : Exn) : Xq xc0 (execHandler cfg tl a e) := by
  unfold execHandler
  xq [execAbortExit_xq, execExceptionPath_xq]

theorem execReturnedHandler_xq (cfg : Cfg) (tl : Bool) (a : Nat) (e : Exn) :
    Xq xc0 (execReturnedHandler cfg tl a e) := by
  unfold execReturnedHandler
  xq [execAbortExit_xq]

theorem execAttempt_xq (cfg : Cfg) (tl : Bool) (a : Nat) : Xq xc0 (execAttempt cfg tl a) := by
  unfold execAttempt
  xq [execPre_xq, execHandler_xq, execResultPath_xq, execReturnedHandler_xq]

theorem buildExhaustedOutcome_xq (cfg : Cfg) (tl : Bool) : Xq xc0 (buildExhaustedOutcome cfg tl) := by
  unfold buildExhaustedOutcome
  refine Xq.bind (emitMaxAttemptsExceeded_xq _ _) (fun _ => ?_)
  apply Xq.getThen'
  · intro w; rfl
  · intro w
    exact buildOutcome_xq _ _ _ _

theorem execLoop_xq (cfg : Cfg) (tl : Bool) : ∀ (fuel a : Nat), Xq xc0 (execLoop cfg tl fuel a)
  | 0, a => by unfold execLoop; exact buildExhaustedOutcome_xq cfg tl
  | fuel + 1, a => by
    unfold execLoop
    have ih := execLoop_xq cfg tl fuel
    xq [execAttempt_xq, ih]

theorem runExecute_xq (cfg : Cfg) : Xq xc0 (runExecute cfg) := by
  unfold runExecute
  xq [initState_xq, execLoop_xq]


end

end Redress
