/-
  Redress.Lemmas.SimAsync — `cfg.isAsync` matters only when a CancelledError reaches one of the policy's
  `except` ladders, and then the call ends by raising it (C12, T4 for the policy entries).
-/
import Redress.Lemmas.SimPolicyNR

namespace Redress
open Twin Retry Policy

/-- `x'` does what `x` does, unless `x` ends by raising `CancelledError` -/
def AE (x' x : M α) : Prop := ∀ w, x' w = x w ∨ ∃ w', x w = .error .cancelled w'

theorem AE.refl (x : M α) : AE x x := fun _ => Or.inl rfl

theorem AE.of_eq {x' x : M α} (h : x' = x) : AE x' x := h ▸ AE.refl x

theorem AE.bind {p : M α} {f' f : α → M β} (hf : ∀ a, AE (f' a) (f a)) : AE (p >>= f') (p >>= f) := by
  intro w
  rw [bind_run, bind_run]
  cases p w with
  | ok a w1 => exact hf a w1
  | error e w1 => exact Or.inl rfl

theorem AE.bind2 {p' p : M α} {f' f : α → M β} (hp : AE p' p) (hf : ∀ a, AE (f' a) (f a)) :
    AE (p' >>= f') (p >>= f) := by
  intro w
  rw [bind_run, bind_run]
  rcases hp w with h | ⟨w', h⟩
  · rw [h]
    cases p w with
    | ok a w1 => exact hf a w1
    | error e w1 => exact Or.inl rfl
  · right
    rw [h]
    exact ⟨w', rfl⟩

theorem AE.ite {c : Prop} [Decidable c] {x' x y' y : M α} (hx : AE x' x) (hy : AE y' y) :
    AE (if c then x' else y') (if c then x else y) := by
  split <;> assumption

theorem AE.tryC {x' x : M α} {h' h : Exn → M α} (hx : AE x' x)
    (hh : ∀ e, e ≠ .cancelled → AE (h' e) (h e))
    (hc : ∀ w1, ∃ w2, h .cancelled w1 = .error .cancelled w2) :
    AE (tryCatch x' h' : M α) (tryCatch x h : M α) := by
  intro w
  rw [tryCatch_run, tryCatch_run]
  rcases hx w with hw | ⟨w', hw⟩
  · rw [hw]
    cases x w with
    | ok a w1 => exact Or.inl rfl
    | error e w1 =>
      by_cases he : e = .cancelled
      · subst he
        right
        exact hc w1
      · exact hh e he w1
  · right
    rw [hw]
    exact hc w'

/-! ### the two ladders that read the flag -/

theorem callLadder_async_ne (cfg : Cfg) (b : Bool) {e : Exn} (he : e ≠ .cancelled) :
    callLadder { cfg with isAsync := b } e = callLadder cfg e := by
  unfold callLadder
  simp only [he, decide_false, Bool.and_false, Bool.false_eq_true, if_false]
  rfl

theorem callLadder_cancelled (cfg : Cfg) (w : World) :
    ∃ w2, callLadder cfg .cancelled w = .error .cancelled w2 := by
  obtain ⟨w', h, _⟩ := callLadder_base (cfg := cfg) (e := .cancelled) rfl w
  exact ⟨w', h⟩

theorem noRetryLadder_async_ne (cfg : Cfg) (b inv : Bool) {e : Exn} (he : e ≠ .cancelled) :
    noRetryLadder { cfg with isAsync := b } inv e = noRetryLadder cfg inv e := by
  unfold noRetryLadder
  simp only [he, decide_false, Bool.and_false, Bool.false_eq_true, if_false]
  rfl

theorem noRetryLadder_cancelled (cfg : Cfg) (inv : Bool) (w : World) :
    ∃ w2, noRetryLadder cfg inv .cancelled w = .error .cancelled w2 := by
  unfold noRetryLadder
  cases ha : cfg.isAsync with
  | true =>
    refine ⟨cancelW cfg w, ?_⟩
    simp [Exn.isAbort, bind_run, recordCancel_run, throw_run]
  | false =>
    refine ⟨w, ?_⟩
    simp [Exn.isAbort, Exn.isKiSe, Exn.isException, throw_run]

/-! ### the wrappers -/

theorem runCall_async' (cfg : Cfg) (b : Bool) : runCall { cfg with isAsync := b } = runCall cfg := by
  unfold runCall
  have : ∀ fuel a, callLoop { cfg with isAsync := b } fuel a = callLoop cfg fuel a := by
    intro fuel
    induction fuel with
    | zero => intro a; rfl
    | succ n ih =>
      intro a
      rw [callLoop_succ, callLoop_succ]
      have h1 : callAttempt { cfg with isAsync := b } a = callAttempt cfg a := rfl
      rw [h1]
      congr 1
      funext r
      cases r with
      | none => exact ih (a + 1)
      | some v => rfl
  rw [this]

theorem runExecute_async' (cfg : Cfg) (b : Bool) : runExecute { cfg with isAsync := b } = runExecute cfg := by
  unfold runExecute
  have : ∀ tl fuel a, execLoop { cfg with isAsync := b } tl fuel a = execLoop cfg tl fuel a := by
    intro tl fuel
    induction fuel with
    | zero => intro a; rfl
    | succ n ih =>
      intro a
      rw [execLoop_succ, execLoop_succ]
      have h1 : execAttempt { cfg with isAsync := b } tl a = execAttempt cfg tl a := rfl
      rw [h1]
      congr 1
      funext r
      cases r with
      | none => exact ih (a + 1)
      | some o => rfl
  rw [this]

theorem callMid_async (cfg : Cfg) (b : Bool) : AE (callMid { cfg with isAsync := b }) (callMid cfg) := by
  unfold callMid
  rw [runCall_async']
  exact AE.tryC (AE.refl _) (fun e he => AE.of_eq (callLadder_async_ne cfg b he)) (callLadder_cancelled cfg)

theorem callMidNR_async (cfg : Cfg) (b : Bool) : AE (callMidNR { cfg with isAsync := b }) (callMidNR cfg) := by
  unfold callMidNR
  exact AE.tryC (AE.refl _) (fun e he => AE.of_eq (callLadder_async_ne cfg b he)) (callLadder_cancelled cfg)

theorem callAdmitted_async (cfg : Cfg) (b : Bool) :
    AE (callAdmitted { cfg with isAsync := b }) (callAdmitted cfg) := by
  by_cases hret : cfg.hasRetry = true
  · rw [callAdmitted_hret (cfg := { cfg with isAsync := b }) hret, callAdmitted_hret hret]
    exact AE.bind (fun _ => callMid_async cfg b)
  · have hret' : cfg.hasRetry = false := by simpa using hret
    rw [callAdmitted_nr (cfg := { cfg with isAsync := b }) hret', callAdmitted_nr hret']
    unfold callTailNR
    exact AE.bind (fun _ => AE.bind (fun ab => AE.ite (AE.refl _) (callMidNR_async cfg b)))

theorem executeWithoutRetry_async (cfg : Cfg) (b : Bool) :
    AE (executeWithoutRetry { cfg with isAsync := b }) (executeWithoutRetry cfg) := by
  unfold executeWithoutRetry
  refine AE.bind2 ?_ (fun r0 => ?_)
  · refine AE.tryC (AE.refl _) (fun e he => ?_) (fun w1 => ?_)
    · rw [noRetryLadder_async_ne cfg b false he]
      exact AE.refl _
    · obtain ⟨w2, h⟩ := noRetryLadder_cancelled cfg false w1
      exact ⟨w2, by rw [bind_run, h]⟩
  · cases r0 with
    | some o => exact AE.refl _
    | none =>
      refine AE.bind2 ?_ (fun r => AE.refl _)
      refine AE.tryC (AE.refl _) (fun e he => ?_) (fun w1 => ?_)
      · rw [noRetryLadder_async_ne cfg b true he]
        exact AE.refl _
      · obtain ⟨w2, h⟩ := noRetryLadder_cancelled cfg true w1
        exact ⟨w2, by rw [bind_run, h]⟩

theorem execMid_async (cfg : Cfg) (b : Bool) : execMid { cfg with isAsync := b } = execMid cfg := by
  unfold execMid
  rw [runExecute_async']
  rfl

theorem executeAdmitted_async (cfg : Cfg) (b : Bool) :
    AE (executeAdmitted { cfg with isAsync := b }) (executeAdmitted cfg) := by
  have h2 : AE (executeAdmitted2 { cfg with isAsync := b }) (executeAdmitted2 cfg) := by
    by_cases hret : cfg.hasRetry = true
    · rw [executeAdmitted2_hret (cfg := { cfg with isAsync := b }) hret, executeAdmitted2_hret hret,
        execMid_async]
      exact AE.refl _
    · have hret' : cfg.hasRetry = false := by simpa using hret
      rw [executeAdmitted2_nr (cfg := { cfg with isAsync := b }) hret', executeAdmitted2_nr hret']
      unfold execTailNR
      exact AE.bind (fun ab => AE.ite (AE.refl _) (executeWithoutRetry_async cfg b))
  obtain ⟨cfg', hcfg'⟩ : ∃ c : Cfg, c = { cfg with isAsync := b } := ⟨_, rfl⟩
  rw [← hcfg'] at h2 ⊢
  have hbr : cfg'.breaker = cfg.breaker := by rw [hcfg']
  have hem : ∀ ev st, emitBreakerEvent cfg' ev st none = emitBreakerEvent cfg ev st none := by
    intro ev st; rw [hcfg']; rfl
  clear hcfg'
  unfold executeAdmitted
  rw [hbr]
  simp only [hem]
  cases cfg.breaker with
  | none => exact h2
  | some bc =>
    exact AE.bind (fun d => AE.bind (fun _ => AE.ite h2 (AE.refl _)))

end Redress
