/-
  Redress.Lemmas.SimProcs — every procedure shared by call() and execute() is a simulation
  (`Sim (p cfg tl …) (p cfg false …)`): the execute flavour (timeline collector `tl`) and the call flavour
  (no collector) do the same thing up to π.
-/
import Redress.Lemmas.Sim

namespace Redress
open Twin Retry

/-- a step that only touches what π forgets (and not `attempts`) can be skipped on the execute side -/
theorem Sim.skipL {p : M PUnit} {x x' : M α}
    (hp : ∀ w, ∃ w', p w = .ok ⟨⟩ w' ∧ π w' = π w ∧ w'.attempts = w.attempts) (hx : Sim x x') :
    Sim (p >>= fun _ => x) x' := by
  refine ⟨fun we wc h => ?_⟩
  obtain ⟨w', h1, h2, h3⟩ := hp we
  rw [bind_run, h1]
  have := hx.run w' wc (h2.trans h)
  rw [h3] at this
  exact this

theorem getRS_sim : Sim getRS getRS := Sim.read (fun w => w.rs) (fun _ => rfl)
theorem getNow_sim : Sim getNow getNow := Sim.read (fun w => w.now) (fun _ => rfl)
theorem elapsed_sim : Sim elapsed elapsed := Sim.read (fun w => w.now - w.rs.start) (fun _ => rfl)
theorem modifyRS_sim (f : RState → RState) : Sim (modifyRS f) (modifyRS f) :=
  Sim.modify _ (fun _ => rfl) (fun _ => rfl)
theorem modifyAS_sim (f : AState → AState) : Sim (modifyAS f) (modifyAS f) :=
  Sim.modify _ (fun _ => rfl) (fun _ => rfl)

theorem setStop_sim (s : StopReason) : Sim (setStop s) (setStop s) := modifyRS_sim _

/-! ### state.py -/

theorem askMetric_sim (ev : Event) (a s : Nat) (t : Tags) : Sim (askMetric ev a s t) (askMetric ev a s t) := by
  unfold askMetric
  sim []

theorem askLog_sim (ev : Event) (a s : Nat) (t : Tags) (ra : Option Int) :
    Sim (askLog ev a s t ra) (askLog ev a s t ra) := by
  unfold askLog
  sim []

/-- the one place where the flavours differ: the timeline collector -/
theorem metricHook_sim (cfg : Cfg) (tl : Bool) (ev : Event) (a s : Nat) (t : Tags) :
    Sim (metricHook cfg tl ev a s t) (metricHook cfg false ev a s t) := by
  cases tl
  · unfold metricHook
    simp only [Bool.false_eq_true, if_false]
    sim [askMetric_sim]
  · unfold metricHook
    simp only [if_true, Bool.false_eq_true, if_false]
    apply Sim.skipL
    · intro w
      exact ⟨_, rfl, rfl, rfl⟩
    · sim [askMetric_sim]

theorem emit_sim (cfg : Cfg) (tl : Bool) (ev : Event) (a s : Nat) (k : Option EClass) (e : Option Exn)
    (st : Option StopReason) (c : Option Cause) (cl : Option Classification) :
    Sim (emit cfg tl ev a s k e st c cl) (emit cfg false ev a s k e st c cl) := by
  unfold emit
  sim [metricHook_sim, swallow_sim, askLog_sim]

theorem recordFailure_sim (c : Classification) (cause : Cause) (e : Option Exn) (r : Option Nat) :
    Sim (Retry.recordFailure c cause e r) (Retry.recordFailure c cause e r) := modifyRS_sim _

theorem recordStrategySuccess_sim (cfg : Cfg) : Sim (recordStrategySuccess cfg) (recordStrategySuccess cfg) := by
  unfold recordStrategySuccess
  sim [getRS_sim]

theorem callStrategy_sim (key : SKey) (kind : SKind) (ctx : BackoffCtx) :
    Sim (callStrategy key kind ctx) (callStrategy key kind ctx) := by
  unfold callStrategy
  sim []

theorem stratRecordFailure_sim (cfg : Cfg) (key : SKey) (k : EClass) :
    Sim (stratRecordFailure cfg key k) (stratRecordFailure cfg key k) := by
  unfold stratRecordFailure
  sim []

theorem budgetConsume_sim (cfg : Cfg) : Sim (budgetConsume cfg) (budgetConsume cfg) := by
  unfold budgetConsume
  split
  · exact Sim.pure _
  · refine ⟨fun we wc h => ?_⟩
    simp only [bind_run, get_run, set_run, pure_run]
    obtain ⟨h1, h2, h3, h4, h5, h6, h7, h8, h9⟩ := (π_iff _ _).mp h
    refine ⟨by rw [h2, h6], ?_, rfl⟩
    exact (π_iff _ _).mpr ⟨h1, h2, by rw [h2, h6, h3], h4, h5, by rw [h2, h6], h7, h8, h9⟩

theorem stopWith_sim (cfg : Cfg) (tl : Bool) (s : StopReason) (ev : Event) (a : Nat) (k : EClass)
    (e : Option Exn) (c : Cause) : Sim (stopWith cfg tl s ev a k e c) (stopWith cfg false s ev a k e c) := by
  unfold stopWith
  sim [setStop_sim, emit_sim]

theorem grantRetry_sim (cfg : Cfg) (tl : Bool) (c : Classification) (a : Nat) (cause : Cause)
    (e : Option Exn) (key : SKey) (kind : SKind) (rem : Nat) :
    Sim (grantRetry cfg tl c a cause e key kind rem) (grantRetry cfg false c a cause e key kind rem) := by
  unfold grantRetry
  sim [getRS_sim, callStrategy_sim, budgetConsume_sim, modifyRS_sim, emit_sim, stopWith_sim]

theorem handleFailure2_sim (cfg : Cfg) (tl : Bool) (c : Classification) (a : Nat) (cause : Cause)
    (e : Option Exn) : Sim (handleFailure2 cfg tl c a cause e) (handleFailure2 cfg false c a cause e) := by
  unfold handleFailure2
  sim [elapsed_sim, stopWith_sim, modifyRS_sim, stratRecordFailure_sim, grantRetry_sim]

theorem handleUnknown_sim (cfg : Cfg) (tl : Bool) (c : Classification) (a : Nat) (cause : Cause)
    (e : Option Exn) : Sim (handleUnknown cfg tl c a cause e) (handleUnknown cfg false c a cause e) := by
  unfold handleUnknown
  sim [getRS_sim, modifyRS_sim, stopWith_sim, handleFailure2_sim]

theorem handleFailure1_sim (cfg : Cfg) (tl : Bool) (c : Classification) (a : Nat) (cause : Cause)
    (e : Option Exn) : Sim (handleFailure1 cfg tl c a cause e) (handleFailure1 cfg false c a cause e) := by
  unfold handleFailure1
  sim [getRS_sim, stopWith_sim, handleUnknown_sim, handleFailure2_sim]

theorem handleFailure_sim (cfg : Cfg) (tl : Bool) (c : Classification) (a : Nat) (cause : Cause)
    (e : Option Exn) (r : Option Nat) :
    Sim (handleFailure cfg tl c a cause e r) (handleFailure cfg false c a cause e r) := by
  unfold handleFailure
  sim [recordFailure_sim, modifyRS_sim, handleFailure1_sim]

theorem callClassifier_sim (e : Exn) : Sim (callClassifier e) (callClassifier e) := by
  unfold callClassifier
  sim []

theorem handleException_sim (cfg : Cfg) (tl : Bool) (e : Exn) (a : Nat) :
    Sim (handleException cfg tl e a) (handleException cfg false e a) := by
  unfold handleException
  sim [callClassifier_sim, handleFailure_sim]

/-! ### retry_helpers.py -/

theorem buildOutcome_sim (ok : Bool) (value : Option Nat) (n : Nat) (ns : Option Nat) :
    Sim (buildOutcome ok value n ns) (buildOutcome ok value n ns) := by
  unfold buildOutcome
  sim [getRS_sim, elapsed_sim]

theorem emitAbortedOnce_sim (cfg : Cfg) (tl : Bool) (a : Nat) :
    Sim (emitAbortedOnce cfg tl a) (emitAbortedOnce cfg false a) := by
  unfold emitAbortedOnce
  sim [getRS_sim, setStop_sim, emit_sim]

theorem callAttemptStart_sim (cfg : Cfg) (a : Nat) : Sim (callAttemptStart cfg a) (callAttemptStart cfg a) := by
  unfold callAttemptStart
  sim [elapsed_sim]

theorem callAttemptEnd_sim (cfg : Cfg) (a : Nat) (cls : Option Classification) (e : Option Exn)
    (r : Option Nat) (d : AttemptDecision) (st : Option StopReason) (c : Option Cause) (sl : Option Nat) :
    Sim (callAttemptEnd cfg a cls e r d st c sl) (callAttemptEnd cfg a cls e r d st c sl) := by
  unfold callAttemptEnd
  sim [elapsed_sim]

theorem callAttemptEndFromOutcome_sim (cfg : Cfg) (a : Nat) (o : AOutcome) :
    Sim (callAttemptEndFromOutcome cfg a o) (callAttemptEndFromOutcome cfg a o) := by
  unfold callAttemptEndFromOutcome
  exact callAttemptEnd_sim _ _ _ _ _ _ _ _ _

theorem finalizeAttempt_sim (cfg : Cfg) (tl : Bool) (a : Nat) (d : Decision) (act : Option SleepDecision)
    (cls : Option Classification) (e : Option Exn) (r : Option Nat) (c : Option Cause) :
    Sim (finalizeAttempt cfg tl a d act cls e r c) (finalizeAttempt cfg false a d act cls e r c) := by
  unfold finalizeAttempt
  sim [getRS_sim, elapsed_sim, setStop_sim, emit_sim]

theorem handleSleepDecision_sim (cfg : Cfg) (tl : Bool) (act : SleepDecision) (a s : Nat) :
    Sim (handleSleepDecision cfg tl act a s) (handleSleepDecision cfg false act a s) := by
  unfold handleSleepDecision
  sim [getRS_sim, setStop_sim, emit_sim, emitAbortedOnce_sim]

theorem callBeforeSleep_sim (cfg : Cfg) (ctx : BackoffCtx) (s : Nat) :
    Sim (callBeforeSleep cfg ctx s) (callBeforeSleep cfg ctx s) := by
  unfold callBeforeSleep
  sim [swallow_sim]

theorem callSleeper_sim (cfg : Cfg) (s : Nat) : Sim (callSleeper cfg s) (callSleeper cfg s) := by
  unfold callSleeper
  sim []

theorem callSleepHandler_sim (lvl : Lvl) (ctx : BackoffCtx) (s : Nat) :
    Sim (callSleepHandler lvl ctx s) (callSleepHandler lvl ctx s) := by
  unfold callSleepHandler
  sim []

theorem sleepAction_sim (cfg : Cfg) (tl : Bool) (a s : Nat) (ctx : BackoffCtx) :
    Sim (sleepAction cfg tl a s ctx) (sleepAction cfg false a s ctx) := by
  unfold sleepAction
  sim [callBeforeSleep_sim, callSleeper_sim, callSleepHandler_sim, handleSleepDecision_sim]

theorem failureOutcome_sim (cfg : Cfg) (tl : Bool) (a : Nat) (d : Decision) (cls : Option Classification)
    (e : Option Exn) (r : Option Nat) (c : Option Cause) :
    Sim (failureOutcome cfg tl a d cls e r c) (failureOutcome cfg false a d cls e r c) := by
  unfold failureOutcome
  sim [finalizeAttempt_sim, sleepAction_sim]

/-! ### runner/logic.py -/

theorem shouldClassifyResult_sim (cfg : Cfg) (v : Nat) :
    Sim (shouldClassifyResult cfg v) (shouldClassifyResult cfg v) := by
  unfold shouldClassifyResult
  sim []

theorem handleSuccessAttemptEnd_sim (cfg : Cfg) (tl : Bool) (a v : Nat) :
    Sim (handleSuccessAttemptEnd cfg tl a v) (handleSuccessAttemptEnd cfg false a v) := by
  unfold handleSuccessAttemptEnd
  sim [recordStrategySuccess_sim, emit_sim, callAttemptEnd_sim]

theorem emitMaxAttemptsExceeded_sim (cfg : Cfg) (tl : Bool) :
    Sim (emitMaxAttemptsExceeded cfg tl) (emitMaxAttemptsExceeded cfg false) := by
  unfold emitMaxAttemptsExceeded
  sim [getRS_sim, emit_sim, setStop_sim]

end Redress
