/-
  Redress.Lemmas.Hoare — glue between the monadic model and `Std.Do` Hoare triples.
-/
import Std.Do
import Std.Tactic.Do
import Redress.Model.Run

open Std.Do

namespace Redress

@[simp] theorem restore_dummy (s : World) (d : PUnit) : EStateM.Backtrackable.restore s d = s := rfl

/-- From a Hoare triple to a statement about `run`. -/
theorem adequacy {x : M α} {P : World → Prop} {Qok : α → World → Prop} {Qerr : Exn → World → Prop}
    (h : ⦃fun w => ⌜P w⌝⦄ x ⦃post⟨fun a w => ⌜Qok a w⌝, fun e w => ⌜Qerr e w⌝⟩⦄)
    (w : World) (hp : P w) :
    match x.run w with
    | .ok a w' => Qok a w'
    | .error e w' => Qerr e w' := by
  apply EStateM.of_wp_run_eq (prog := x) (s := w) rfl
    (fun r => match r with | .ok a w' => Qok a w' | .error e w' => Qerr e w')
  simpa using h w hp

/-- …and back. -/
theorem triple_of_run {x : M α} {P : World → Prop} {Qok : α → World → Prop} {Qerr : Exn → World → Prop}
    (h : ∀ w, P w → match x.run w with
      | .ok a w' => Qok a w'
      | .error e w' => Qerr e w') :
    ⦃fun w => ⌜P w⌝⦄ x ⦃post⟨fun a w => ⌜Qok a w⌝, fun e w => ⌜Qerr e w⌝⟩⦄ := by
  intro w hp
  have := h w hp
  simp only [wp, PredTrans.apply]
  split <;> simp_all

/-! ### `askHook` in terms of `ask`

`askHook r` (the `ask` of the observability call sites) is `ask r` in a world whose next answer has been
replaced by its silenced form when the C15 twin flag is set.  So every Hoare triple proved for `ask r`
whose precondition does not depend on the pending answers holds for `askHook r` too. -/

/-- the world as an observability hook's call site sees it -/
def presil (w : World) : World :=
  if w.silent then
    { w with answers := match w.answers with | [] => [] | a :: rest => a.silenced :: rest }
  else w

@[simp] theorem Ans.silenced_dur (a : Ans) : a.silenced.dur = a.dur := by
  cases a with
  | raise e d => by_cases h : e.isException <;> simp [Ans.silenced, Ans.dur, h]
  | _ => rfl

@[simp] theorem Ans.ite_silenced_dur (b : Bool) (a : Ans) :
    (if b = true then a.silenced else a).dur = a.dur := by
  cases b <;> simp

/-- when the (possibly silenced) answer of a hook is a raise, the original answer was that raise -/
theorem sil_eq_raise (b : Bool) (a : Ans) (e : Exn) (d : Nat) :
    (if b = true then a.silenced else a) = Ans.raise e d ↔
      (a = Ans.raise e d ∧ (b = true → e.isException = false)) := by
  cases b
  · simp
  · cases a with
    | raise e' d' =>
      by_cases h : e'.isException = true
      · simp only [Ans.silenced, h, if_true]
        constructor
        · intro hh; cases hh
        · rintro ⟨h1, h2⟩
          cases h1
          simp [h] at h2
      · simp only [Ans.silenced, h, if_true]
        constructor
        · intro hh
          cases hh
          exact ⟨rfl, fun _ => by simpa using h⟩
        · rintro ⟨h1, _⟩; exact h1
    | _ => simp [Ans.silenced]

theorem sil_dur (b : Bool) (a : Ans) (e : Exn) (d : Nat)
    (h : (if b = true then a.silenced else a) = Ans.raise e d) : a.dur = d := by
  have := congrArg Ans.dur h
  rw [Ans.ite_silenced_dur] at this
  exact this

/-- turn every hypothesis "the (possibly silenced) hook answer is `raise e d`" into "its duration is `d`" -/
macro "sil_durs" : tactic => `(tactic| repeat (
  have hsd := sil_dur _ _ _ _ (by assumption)
  revert hsd
  clear ‹(if _ = true then Ans.silenced _ else _) = Ans.raise _ _›
  intro hsd))

theorem askHook_eq (r : Req) (w : World) : askHook r w = ask r (presil w) := by
  unfold presil
  by_cases hs : w.silent = true
  · simp only [hs, if_true]
    cases ha : w.answers with
    | nil => simp [askHook, ask, ha, hs, bind, EStateM.bind, get, getThe, MonadStateOf.get, EStateM.get,
        set, MonadStateOf.set, EStateM.set, throw, throwThe, MonadExceptOf.throw, EStateM.throw]
    | cons a rest =>
      simp [askHook, ask, ha, hs, bind, EStateM.bind, get, getThe, MonadStateOf.get, EStateM.get, set,
        MonadStateOf.set, EStateM.set, throw, throwThe, MonadExceptOf.throw]
  · have hs' : w.silent = false := by simpa using hs
    simp only [hs', Bool.false_eq_true, if_false]
    cases ha : w.answers with
    | nil => simp [askHook, ask, ha, bind, EStateM.bind, get, getThe, MonadStateOf.get, EStateM.get, set,
        MonadStateOf.set, EStateM.set, throw, throwThe, MonadExceptOf.throw, EStateM.throw]
    | cons a rest =>
      simp [askHook, ask, ha, hs', bind, EStateM.bind, get, getThe, MonadStateOf.get, EStateM.get, set,
        MonadStateOf.set, EStateM.set, throw, throwThe, MonadExceptOf.throw]

/-- a predicate that holds however the pending answers are replaced holds of `presil w` -/
theorem presil_cases (C : World → Prop) (w : World) (h : ∀ as, C { w with answers := as }) :
    C (presil w) := by
  unfold presil
  split
  · exact h _
  · exact h w.answers

/-- transfer of a triple from `ask r` to `askHook r` -/
theorem askHook_triple {P : Assertion (.except Exn (.arg World .pure))}
    {Q : PostCond Ans (.except Exn (.arg World .pure))} (r : Req)
    (h : ⦃P⦄ ask r ⦃Q⦄) (hp : ∀ w, (P w).down → (P (presil w)).down) : ⦃P⦄ askHook r ⦃Q⦄ := by
  intro w hw
  have := h (presil w) (hp w hw)
  simp only [wp, PredTrans.apply] at this ⊢
  have e : EStateM.run (askHook r) w = EStateM.run (ask r) (presil w) := askHook_eq r w
  rw [e]
  exact this

/-- the world in which a run ends, however it ends -/
def finalWorld : EStateM.Result Exn World α → World
  | .ok _ w => w
  | .error _ w => w

/-- The kind of a request (its constructor). -/
inductive Kind
  | abortIf | attemptStart | attemptEnd | op | classify | resultClassify | strategy
  | stratRecordFailure | stratRecordSuccess | sleepHandler | beforeSleep | sleeper | metric | log
  | budgetConsume | breakerAllow | breakerSuccess | breakerFailure | breakerCancel
deriving DecidableEq, Repr

def Req.kind : Req → Kind
  | .abortIf => .abortIf | .attemptStart _ => .attemptStart | .attemptEnd _ => .attemptEnd
  | .op _ => .op | .classify _ => .classify | .resultClassify _ => .resultClassify
  | .strategy .. => .strategy | .stratRecordFailure .. => .stratRecordFailure
  | .stratRecordSuccess _ => .stratRecordSuccess | .sleepHandler .. => .sleepHandler
  | .beforeSleep .. => .beforeSleep | .sleeper .. => .sleeper | .metric .. => .metric
  | .log .. => .log | .budgetConsume => .budgetConsume | .breakerAllow => .breakerAllow
  | .breakerSuccess => .breakerSuccess | .breakerFailure _ => .breakerFailure
  | .breakerCancel => .breakerCancel

/-- A *footprint*: `w'` arises from `w` by consuming answers, letting time pass and appending
    exchanges whose request kinds all satisfy `K`; `rs` may change only in `lastStop`.  The
    attempt-local state, the timeline and the embedded components are not constrained. -/
structure Foot (K : Kind → Bool) (w w' : World) : Prop where
  trace : ∃ δ, w'.trace = δ ++ w.trace ∧ ∀ x ∈ δ, K x.1.kind = true
  rs : w'.rs = { w.rs with lastStop := w'.rs.lastStop }
  attempts : w'.attempts = w.attempts
  opCalls : w'.opCalls = w.opCalls
  returned : w'.as.returned = w.as.returned
  now : w.now ≤ w'.now

theorem Foot.refl (K : Kind → Bool) (w : World) : Foot K w w :=
  ⟨⟨[], by simp, by simp⟩, rfl, rfl, rfl, rfl, Nat.le_refl _⟩

theorem Foot.trans {K : Kind → Bool} {w₁ w₂ w₃ : World} (h₁ : Foot K w₁ w₂) (h₂ : Foot K w₂ w₃) :
    Foot K w₁ w₃ := by
  obtain ⟨δ₁, e₁, k₁⟩ := h₁.trace
  obtain ⟨δ₂, e₂, k₂⟩ := h₂.trace
  refine ⟨⟨δ₂ ++ δ₁, by simp [e₂, e₁], ?_⟩, ?_, ?_, ?_, ?_, ?_⟩
  · intro x hx
    rcases List.mem_append.mp hx with h | h
    · exact k₂ x h
    · exact k₁ x h
  · rw [h₂.rs, h₁.rs]
  · rw [h₂.attempts, h₁.attempts]
  · rw [h₂.opCalls, h₁.opCalls]
  · rw [h₂.returned, h₁.returned]
  · exact Nat.le_trans h₁.now h₂.now

theorem Foot.mono {K K' : Kind → Bool} {w w' : World} (h : Foot K w w')
    (hk : ∀ k, K k = true → K' k = true) : Foot K' w w' := by
  obtain ⟨δ, e, k⟩ := h.trace
  exact ⟨⟨δ, e, fun x hx => hk _ (k x hx)⟩, h.rs, h.attempts, h.opCalls, h.returned, h.now⟩

/-- one exchange -/
theorem Foot.exchange {K : Kind → Bool} (w : World) (r : Req) (a : Ans) (rest : List Ans) (d : Nat)
    (hk : K r.kind = true) :
    Foot K w { w with answers := rest, now := w.now + d, trace := (r, a) :: w.trace } :=
  ⟨⟨[(r, a)], rfl, by simp [hk]⟩, rfl, rfl, rfl, rfl, Nat.le_add_right _ _⟩

/-- changes outside the footprint's concern -/
theorem Foot.frame {K : Kind → Bool} (w : World) (stop : Option StopReason) (as : AState)
    (tl : List TimelineEv) (tls : Nat) (bud : Budget.St) (br : Breaker.St) (xc : XCtx)
    (has : as.returned = w.as.returned) :
    Foot K w { w with rs := { w.rs with lastStop := stop }, as := as, timeline := tl, tlStart := tls,
                      budget := bud, breaker := br, xc := xc } :=
  ⟨⟨[], rfl, by simp⟩, rfl, rfl, rfl, has, Nat.le_refl _⟩

/-- an interaction with an embedded component, logged without consuming an oracle answer -/
theorem Foot.internal {K : Kind → Bool} (w : World) (r : Req) (a : Ans) (bud : Budget.St)
    (br : Breaker.St) (xc : XCtx) (hk : K r.kind = true) :
    Foot K w { w with trace := (r, a) :: w.trace, budget := bud, breaker := br, xc := xc } :=
  ⟨⟨[(r, a)], rfl, by simp [hk]⟩, rfl, rfl, rfl, rfl, Nat.le_refl _⟩

/-- From a footprint lemma to "this view of the world is unchanged" (both exits). -/
theorem view_of_foot {α V : Type} {x : M α} {K : Kind → Bool} (view : World → V)
    (hx : ∀ w0, ⦃fun w => ⌜Foot K w0 w⌝⦄ x ⦃post⟨fun _ w => ⌜Foot K w0 w⌝, fun _ w => ⌜Foot K w0 w⌝⟩⦄)
    (hv : ∀ w w', Foot K w w' → view w' = view w) (v : V) :
    ⦃fun w => ⌜view w = v⌝⦄ x ⦃post⟨fun _ w => ⌜view w = v⌝, fun _ w => ⌜view w = v⌝⟩⦄ := by
  apply triple_of_run
  intro w hw
  have := adequacy (hx w) w (Foot.refl K w)
  split <;> simp_all <;> (rw [← hw]; exact hv _ _ this)

/-- From a footprint lemma to "this predicate on worlds is preserved" (both exits). -/
theorem inv_of_foot {α : Type} {x : M α} {K : Kind → Bool} (I : World → Prop)
    (hx : ∀ w0, ⦃fun w => ⌜Foot K w0 w⌝⦄ x ⦃post⟨fun _ w => ⌜Foot K w0 w⌝, fun _ w => ⌜Foot K w0 w⌝⟩⦄)
    (hI : ∀ w w', Foot K w w' → I w → I w') :
    ⦃fun w => ⌜I w⌝⦄ x ⦃post⟨fun _ w => ⌜I w⌝, fun _ w => ⌜I w⌝⟩⦄ := by
  apply triple_of_run
  intro w hw
  have := adequacy (hx w) w (Foot.refl K w)
  split <;> simp_all <;> exact hI _ _ this hw

/-- same, keeping what the footprint lemma says about the returned value -/
theorem view_of_foot' {α V : Type} {x : M α} {K : Kind → Bool} {R : α → Prop} (view : World → V)
    (hx : ∀ w0, ⦃fun w => ⌜Foot K w0 w⌝⦄ x
      ⦃post⟨fun a w => ⌜R a ∧ Foot K w0 w⌝, fun _ w => ⌜Foot K w0 w⌝⟩⦄)
    (hv : ∀ w w', Foot K w w' → view w' = view w) (v : V) :
    ⦃fun w => ⌜view w = v⌝⦄ x ⦃post⟨fun a w => ⌜R a ∧ view w = v⌝, fun _ w => ⌜view w = v⌝⟩⦄ := by
  apply triple_of_run
  intro w hw
  have := adequacy (hx w) w (Foot.refl K w)
  split <;> simp_all <;> (rw [← hw]; first | exact hv _ _ this | exact hv _ _ this.2)

end Redress
