/-
  Redress.Lemmas.BreakerLemmas — helper lemmas for C06 / C07 (breaker level).

  * `prune` (the pop-left loop of `_prune`) on a sorted list is a filter; composition of prunes
    under a non-decreasing clock; `kept`.
  * the refinement invariant `Inv` between a model state and the history-determined state,
    its preservation by every operation (`step_refines`) and along histories (`run_refines`);
  * the monitor `historyOk` accepts the model's own records (`checkFrom_model`).
-/
import Redress.Spec.Breaker
namespace Redress.Breaker
open List
theorem prune_eq_filter (w now : Nat) (l : List Nat) (h : l.Pairwise (· ≤ ·)) :
    prune w now l = l.filter (fun x => decide (now < x + w)) := by
  induction l with
  | nil => simp [prune]
  | cons e es ih =>
    have hes := (List.pairwise_cons.mp h).2
    have he := (List.pairwise_cons.mp h).1
    simp only [prune]
    split
    · rename_i hle
      rw [ih hes]
      have : ¬ now < e + w := by omega
      simp [this]
    · rename_i hgt
      have h1 : now < e + w := by omega
      have hall : ∀ x ∈ es, now < x + w := fun x hx => by have := he x hx; omega
      simp only [List.filter_cons, h1, decide_true, if_true]
      congr 1
      exact (List.filter_eq_self.mpr (by simpa using hall)).symm

theorem getLastD_le (T : List Nat) (clk : Nat) (h : ∀ x ∈ T, x ≤ clk) : T.getLastD 0 ≤ clk := by
  rcases List.eq_nil_or_concat T with rfl | ⟨L, b, rfl⟩
  · simp
  · simp only [List.concat_eq_append] at *
    rw [List.getLastD_concat]; exact h b (by simp)

theorem kept_sublist (w : Nat) (T : List Nat) : kept w T <+ T := List.filter_sublist

theorem kept_pairwise (w : Nat) (T : List Nat) (hs : T.Pairwise (· ≤ ·)) :
    (kept w T).Pairwise (· ≤ ·) := hs.filter _

theorem prune_kept (w now : Nat) (T : List Nat) (hs : T.Pairwise (· ≤ ·))
    (hle : ∀ x ∈ T, x ≤ now) :
    prune w now (kept w T) = T.filter (fun x => decide (now < x + w)) := by
  rw [prune_eq_filter w now _ (kept_pairwise w T hs), kept, List.filter_filter]
  apply List.filter_congr
  intro x _
  have := getLastD_le T now hle
  by_cases h : now < x + w
  · have h2 : T.getLastD 0 < x + w := by omega
    rw [decide_eq_true h, decide_eq_true h2]; rfl
  · rw [decide_eq_false h]; rfl

theorem kept_concat (w now : Nat) (T : List Nat) (hw : 0 < w) :
    kept w (T ++ [now]) = T.filter (fun x => decide (now < x + w)) ++ [now] := by
  simp [kept, List.filter_append, hw]

theorem length_filter_window (w now : Nat) (T : List Nat) :
    (T.filter (fun x => decide (now < x + w))).length = inWindow w now T := by
  simp [inWindow, List.countP_eq_length_filter]

theorem kept_nil (w : Nat) : kept w [] = [] := rfl

theorem kept_suffix (w : Nat) (T : List Nat) (hs : T.Pairwise (· ≤ ·)) : kept w T <:+ T := by
  unfold kept
  generalize T.getLastD 0 = lp
  induction T with
  | nil => simp
  | cons e es ih =>
    have hes := (List.pairwise_cons.mp hs).2
    have he := (List.pairwise_cons.mp hs).1
    by_cases h : lp < e + w
    · have hall : ∀ x ∈ (e :: es), decide (lp < x + w) = true := by
        intro x hx
        rcases List.mem_cons.mp hx with rfl | hx
        · simpa using h
        · have := he x hx; simp; omega
      rw [List.filter_eq_self.mpr hall]
      exact List.suffix_refl _
    · simp only [List.filter_cons, h, decide_false]
      exact (ih hes).trans (List.suffix_cons e es)


/-! ### `times` / `timesOf` -/

@[simp] theorem times_nil : times [] = [] := rfl
@[simp] theorem timesOf_nil (k : EClass) : timesOf k [] = [] := rfl

@[simp] theorem times_concat (log : List (EClass × Nat)) (k : EClass) (now : Nat) :
    times (log ++ [(k, now)]) = times log ++ [now] := by simp [times]

@[simp] theorem timesOf_concat_self (log : List (EClass × Nat)) (k : EClass) (now : Nat) :
    timesOf k (log ++ [(k, now)]) = timesOf k log ++ [now] := by simp [timesOf, List.filter_append]

theorem timesOf_concat_ne (log : List (EClass × Nat)) (k k' : EClass) (now : Nat) (h : k' ≠ k) :
    timesOf k' (log ++ [(k, now)]) = timesOf k' log := by
  have : ¬ k = k' := fun e => h e.symm
  simp [timesOf, List.filter_append, this]

theorem timesOf_sublist (k : EClass) (log : List (EClass × Nat)) : timesOf k log <+ times log :=
  List.Sublist.map _ List.filter_sublist

theorem timesOf_pairwise (k : EClass) (log : List (EClass × Nat))
    (h : (times log).Pairwise (· ≤ ·)) : (timesOf k log).Pairwise (· ≤ ·) :=
  h.sublist (timesOf_sublist k log)

theorem timesOf_le (k : EClass) (log : List (EClass × Nat)) (clk : Nat)
    (h : ∀ x ∈ times log, x ≤ clk) : ∀ x ∈ timesOf k log, x ≤ clk :=
  fun x hx => h x ((timesOf_sublist k log).subset hx)

/-! ### The refinement invariant -/

/-- `Inv c clk s a`: model state `s` and history-determined state `a` describe the same breaker,
all clock values read so far being `≤ clk`. -/
def Inv (c : Cfg) (clk : Nat) (s : St) : Abs → Prop
  | .closed log =>
    s.state = .closed ∧ s.openedAt = none ∧ s.probe = false ∧
    (times log).Pairwise (· ≤ ·) ∧ (∀ x ∈ times log, x ≤ clk) ∧
    s.failures = kept c.window (times log) ∧
    ∀ k, s.classFailures k =
      if (c.classThreshold k).isSome then kept c.window (timesOf k log) else []
  | .opened t0 =>
    s.state = .opened ∧ s.openedAt = some t0 ∧ s.probe = false ∧
    s.failures = [] ∧ (∀ k, s.classFailures k = []) ∧ t0 ≤ clk
  | .halfOpen p =>
    s.state = .halfOpen ∧ s.probe = p ∧ s.failures = [] ∧ (∀ k, s.classFailures k = []) ∧
    ∃ t0, s.openedAt = some t0 ∧ t0 ≤ clk

theorem Inv.mono {c : Cfg} {clk clk' : Nat} {s : St} {a : Abs} (h : Inv c clk s a)
    (hle : clk ≤ clk') : Inv c clk' s a := by
  cases a with
  | closed log =>
    obtain ⟨h1, h2, h3, h4, h5, h6, h7⟩ := h
    exact ⟨h1, h2, h3, h4, fun x hx => Nat.le_trans (h5 x hx) hle, h6, h7⟩
  | opened t0 =>
    obtain ⟨h1, h2, h3, h4, h5, h6⟩ := h
    exact ⟨h1, h2, h3, h4, h5, Nat.le_trans h6 hle⟩
  | halfOpen p =>
    obtain ⟨h1, h2, h3, h4, t0, h5, h6⟩ := h
    exact ⟨h1, h2, h3, h4, t0, h5, Nat.le_trans h6 hle⟩

theorem Inv.state {c : Cfg} {clk : Nat} {s : St} {a : Abs} (h : Inv c clk s a) :
    s.state = a.mode := by
  cases a <;> exact h.1

theorem inv_init (c : Cfg) : Inv c 0 St.init Abs.init := by
  simp [Inv, St.init, Abs.init, kept]

/-- the opening rule on an un-pruned list, as a plain Bool -/
def ruleB (c : Cfg) (log : List (EClass × Nat)) (k : EClass) (now : Nat) : Bool :=
  decide (c.failureThreshold ≤ inWindow c.window now (times log) + 1) ||
    match c.classThreshold k with
    | some th => decide (th ≤ inWindow c.window now (timesOf k log) + 1)
    | none => false

theorem opensLog_eq (c : Cfg) (log : List (EClass × Nat)) (k : EClass) (now : Nat) :
    opensLog c log k now = (c.tripOn k && ruleB c log k now) := rfl

/-- `_note_failure` on a state that refines `closed log`: its verdict is the filter-based rule
and the new state refines the extended log. -/
theorem noteFailure_refines (c : Cfg) (hw : 0 < c.window) (s : St) (log : List (EClass × Nat))
    (clk now : Nat) (k : EClass) (hinv : Inv c clk s (.closed log)) (hnow : clk ≤ now) :
    (noteFailure c s k now).1 = ruleB c log k now ∧
    Inv c now (noteFailure c s k now).2 (.closed (log ++ [(k, now)])) := by
  obtain ⟨hst, hoa, hp, hsorted, hbound, hf, hcf⟩ := hinv
  have hbound' : ∀ x ∈ times log, x ≤ now := fun x hx => Nat.le_trans (hbound x hx) hnow
  have hfs : prune c.window now s.failures ++ [now] = kept c.window (times log ++ [now]) := by
    rw [hf, prune_kept _ _ _ hsorted hbound', kept_concat _ _ _ hw]
  have hfl : (prune c.window now s.failures ++ [now]).length
      = inWindow c.window now (times log) + 1 := by
    rw [hf, prune_kept _ _ _ hsorted hbound', List.length_append, length_filter_window]; rfl
  have hsorted' : (times (log ++ [(k, now)])).Pairwise (· ≤ ·) := by
    rw [times_concat, List.pairwise_append]
    refine ⟨hsorted, by simp, ?_⟩
    intro a ha b hb
    simp at hb; subst hb; exact hbound' a ha
  have hb2 : ∀ x ∈ times (log ++ [(k, now)]), x ≤ now := by
    intro x hx
    rw [times_concat, List.mem_append] at hx
    rcases hx with hx | hx
    · exact hbound' x hx
    · simp at hx; omega
  unfold noteFailure
  cases hth : c.classThreshold k with
  | none =>
    simp only [ruleB, hth, Bool.or_false]
    refine ⟨by simp only [ge_iff_le, hfl], hst, hoa, hp, hsorted', hb2, ?_, ?_⟩
    · simpa using hfs
    · intro k'
      by_cases hk : k' = k
      · subst hk; simp [hcf, hth]
      · simp [hcf, timesOf_concat_ne _ _ _ _ hk]
  | some th =>
    have hks := timesOf_pairwise k log hsorted
    have hkb := timesOf_le k log now hbound'
    have hck : s.classFailures k = kept c.window (timesOf k log) := by simp [hcf, hth]
    have hbs : prune c.window now (s.classFailures k) ++ [now]
        = kept c.window (timesOf k log ++ [now]) := by
      rw [hck, prune_kept _ _ _ hks hkb, kept_concat _ _ _ hw]
    have hbl : (prune c.window now (s.classFailures k) ++ [now]).length
        = inWindow c.window now (timesOf k log) + 1 := by
      rw [hck, prune_kept _ _ _ hks hkb, List.length_append, length_filter_window]; rfl
    have hinv' : Inv c now
        { s with failures := prune c.window now s.failures ++ [now],
                 classFailures := fun k' => if k' = k then
                    prune c.window now (s.classFailures k) ++ [now] else s.classFailures k' }
        (.closed (log ++ [(k, now)])) := by
      refine ⟨hst, hoa, hp, hsorted', hb2, ?_, ?_⟩
      · simpa using hfs
      · intro k'
        by_cases hk : k' = k
        · subst hk; simp [hth, hbs]
        · simp [hk, hcf, timesOf_concat_ne _ _ _ _ hk]
    simp only [ruleB, hth, ge_iff_le, hbl, hfl]
    split
    · rename_i h
      exact ⟨by simp [h], hinv'⟩
    · rename_i h
      exact ⟨by simp [h], hinv'⟩


/-- **One-step refinement.** -/
theorem step_refines (c : Cfg) (hw : 0 < c.window) (s : St) (a : Abs) (clk : Nat) (op : Op)
    (hinv : Inv c clk s a) (ht : ∀ t, op.time = some t → clk ≤ t) :
    (mstep c s op).1 = (step c a op).1 ∧
    Inv c (op.time.getD clk) (mstep c s op).2 (step c a op).2 := by
  cases a with
  | closed log =>
    have hinv0 := hinv
    obtain ⟨hst, hoa, hp, hsorted, hbound, hf, hcf⟩ := hinv
    cases op with
    | allow now =>
      have hnow : clk ≤ now := ht now rfl
      simp only [mstep, allow, hst, step, Op.time, Option.getD_some]
      exact ⟨trivial, hinv0.mono hnow⟩
    | success => simpa [mstep, recordSuccess, hst, step, Op.time] using hinv0
    | cancel => simpa [mstep, recordCancel, hst, step, Op.time] using hinv0
    | failure k now =>
      have hnow : clk ≤ now := ht now rfl
      obtain ⟨h1, h2⟩ := noteFailure_refines c hw s log clk now k hinv0 hnow
      simp only [mstep, recordFailure, hst, step, Op.time, Option.getD_some, opensLog_eq]
      by_cases htr : c.tripOn k = true
      · simp only [htr, Bool.true_and, if_true]
        rw [← h1]
        by_cases hn : (noteFailure c s k now).1 = true
        · simp only [hn, if_true]
          obtain ⟨g1, g2, g3, -⟩ := h2
          exact ⟨trivial, rfl, rfl, g3, rfl, fun _ => rfl, Nat.le_refl _⟩
        · have hn' : (noteFailure c s k now).1 = false := by simpa using hn
          simp only [hn', Bool.false_eq_true, if_false]
          exact ⟨trivial, h2⟩
      · simp only [htr, Bool.false_and, if_false, Bool.false_eq_true]
        exact ⟨trivial, hinv0.mono hnow⟩
  | opened t0 =>
    have hinv0 := hinv
    obtain ⟨hst, hoa, hp, hf, hcf, ht0⟩ := hinv
    cases op with
    | allow now =>
      have hnow : clk ≤ now := ht now rfl
      simp only [mstep, allow, hst, hoa, Option.getD_some, step, Op.time]
      by_cases h : t0 + c.recovery ≤ now
      · have h' : ¬ now < t0 + c.recovery := by omega
        simp only [h, h', if_true, if_false]
        exact ⟨trivial, rfl, rfl, hf, hcf, t0, rfl, by omega⟩
      · have h' : now < t0 + c.recovery := by omega
        simp only [h, h', if_true, if_false]
        exact ⟨trivial, rfl, rfl, hp, hf, hcf, by omega⟩
    | success => simpa [mstep, recordSuccess, hst, step, Op.time] using hinv0
    | cancel => simpa [mstep, recordCancel, hst, step, Op.time] using hinv0
    | failure k now =>
      have hnow : clk ≤ now := ht now rfl
      simpa [mstep, recordFailure, hst, step, Op.time] using hinv0.mono hnow
  | halfOpen p =>
    have hinv0 := hinv
    obtain ⟨hst, hp, hf, hcf, t0, hoa, ht0⟩ := hinv
    cases op with
    | allow now =>
      have hnow : clk ≤ now := ht now rfl
      cases p with
      | true =>
        simp only [mstep, allow, hst, hp, if_true, step, Op.time, Option.getD_some]
        exact ⟨trivial, hinv0.mono hnow⟩
      | false =>
        simp only [mstep, allow, hst, hp, Bool.false_eq_true, if_false, step, Op.time,
          Option.getD_some]
        exact ⟨trivial, rfl, rfl, hf, hcf, t0, hoa, by omega⟩
    | success =>
      cases p <;> simp [mstep, recordSuccess, hst, step, Op.time, Inv, clear, kept]
    | cancel =>
      cases p <;>
        simp only [mstep, recordCancel, hst, step, Op.time, Option.getD_none] <;>
        exact ⟨trivial, rfl, rfl, hf, hcf, t0, hoa, ht0⟩
    | failure k now =>
      cases p <;> simp [mstep, recordFailure, hst, step, Op.time, Inv, clear]


/-! ### Runs -/

theorem mrun_append (c : Cfg) (s : St) (H1 H2 : List Op) :
    mrun c s (H1 ++ H2) =
      ((mrun c s H1).1 ++ (mrun c (mrun c s H1).2 H2).1, (mrun c (mrun c s H1).2 H2).2) := by
  induction H1 generalizing s with
  | nil => simp [mrun]
  | cons op r ih => simp [mrun, ih]

theorem srun_append (c : Cfg) (a : Abs) (H1 H2 : List Op) :
    srun c a (H1 ++ H2) =
      ((srun c a H1).1 ++ (srun c (srun c a H1).2 H2).1, (srun c (srun c a H1).2 H2).2) := by
  induction H1 generalizing a with
  | nil => simp [srun]
  | cons op r ih => simp [srun, ih]

theorem mrun_length (c : Cfg) (s : St) (H : List Op) : (mrun c s H).1.length = H.length := by
  induction H generalizing s with
  | nil => simp [mrun]
  | cons op r ih => simp [mrun, ih]

theorem monoFromB_iff (clk : Nat) (H : List Op) : monoFromB clk H = true ↔ MonoFrom clk H := by
  induction H generalizing clk with
  | nil => simp [monoFromB, MonoFrom]
  | cons op r ih =>
    unfold monoFromB MonoFrom
    cases op.time with
    | none => exact ih clk
    | some t => simp [ih t]

instance (clk : Nat) (H : List Op) : Decidable (MonoFrom clk H) :=
  decidable_of_iff _ (monoFromB_iff clk H)

instance (H : List Op) : Decidable (Mono H) := inferInstanceAs (Decidable (MonoFrom 0 H))

theorem monoFrom_append (clk : Nat) (H1 H2 : List Op) :
    MonoFrom clk (H1 ++ H2) ↔ MonoFrom clk H1 ∧ MonoFrom (lastTime clk H1) H2 := by
  induction H1 generalizing clk with
  | nil => simp [MonoFrom, lastTime]
  | cons op r ih =>
    simp only [List.cons_append, MonoFrom, lastTime]
    cases op.time with
    | none => simpa using ih clk
    | some t => simp [ih t, and_assoc]

theorem le_lastTime (clk : Nat) (H : List Op) (h : MonoFrom clk H) : clk ≤ lastTime clk H := by
  induction H generalizing clk with
  | nil => simp [lastTime]
  | cons op r ih =>
    unfold MonoFrom at h
    unfold lastTime
    cases hop : op.time with
    | none => rw [hop] at h; simpa using ih clk h
    | some t => rw [hop] at h; simpa using Nat.le_trans h.1 (ih t h.2)

theorem lastTime_append (clk : Nat) (H1 H2 : List Op) :
    lastTime clk (H1 ++ H2) = lastTime (lastTime clk H1) H2 := by
  induction H1 generalizing clk with
  | nil => simp [lastTime]
  | cons op r ih => simp [lastTime, ih]

/-- **Refinement over a whole history** (from any pair of related states). -/
theorem run_refines (c : Cfg) (hw : 0 < c.window) (H : List Op) :
    ∀ (s : St) (a : Abs) (clk : Nat), Inv c clk s a → MonoFrom clk H →
      (mrun c s H).1 = (srun c a H).1 ∧
      Inv c (lastTime clk H) (mrun c s H).2 (srun c a H).2 := by
  induction H with
  | nil => intro s a clk h _; exact ⟨rfl, h⟩
  | cons op r ih =>
    intro s a clk hinv hm
    unfold MonoFrom at hm
    have hstep : ∀ t, op.time = some t → clk ≤ t := by
      intro t ht; rw [ht] at hm; exact hm.1
    obtain ⟨h1, h2⟩ := step_refines c hw s a clk op hinv hstep
    have hm' : MonoFrom (op.time.getD clk) r := by
      cases hop : op.time with
      | none => rw [hop] at hm; simpa using hm
      | some t => rw [hop] at hm; simpa using hm.2
    obtain ⟨g1, g2⟩ := ih _ _ _ h2 hm'
    simp only [mrun, srun, lastTime]
    exact ⟨by rw [h1, g1], g2⟩

/-! ### The observation of a model state satisfies the monitor's state predicate -/

theorem find_bucket (f : EClass → List Nat) (p : EClass → Bool) (k : EClass) (l : List EClass) :
    ((l.filter p).map (fun k => (k, f k))).find? (fun e => decide (e.1 = k)) =
      if k ∈ l ∧ p k = true then some (k, f k) else none := by
  induction l with
  | nil => simp
  | cons x xs ih =>
    by_cases hp : p x = true
    · by_cases hx : x = k
      · subst hx; simp [hp]
      · have hx' : ¬ k = x := fun e => hx e.symm
        simp [hp, hx, hx', ih]
    · by_cases hx : x = k
      · subst hx; simp [hp, ih]
      · have hx' : ¬ k = x := fun e => hx e.symm
        simp [hp, hx', ih]

theorem EClass.mem_all (k : EClass) : k ∈ EClass.all := by cases k <;> simp [EClass.all]

theorem St.obs_bucket (s : St) (k : EClass) : s.obs.bucket k = s.classFailures k := by
  unfold Obs.bucket St.obs
  simp only [find_bucket, EClass.mem_all, true_and]
  cases h : s.classFailures k <;> simp

theorem retainedOk_kept (w : Nat) (T : List Nat) (hs : T.Pairwise (· ≤ ·)) :
    retainedOk w T (kept w T) = true := by
  simp [retainedOk, List.isSuffixOf_iff_suffix, kept_suffix w T hs]

theorem obsBad_of_inv (c : Cfg) (clk : Nat) (s : St) (a : Abs) (h : Inv c clk s a) :
    obsBad c a s.obs = none := by
  have hstate : s.obs.state = a.mode := h.state
  cases a with
  | closed log =>
    obtain ⟨hst, hoa, hp, hsorted, hbound, hf, hcf⟩ := h
    have hfind : EClass.all.find? (fun k =>
        if (c.classThreshold k).isSome then
          !retainedOk c.window (timesOf k log) (s.obs.bucket k)
        else !(s.obs.bucket k).isEmpty) = none := by
      rw [List.find?_eq_none]
      intro k _
      rw [St.obs_bucket, hcf k]
      cases hth : c.classThreshold k with
      | none => simp
      | some th => simp [retainedOk_kept _ _ (timesOf_pairwise k log hsorted)]
    unfold obsBad
    rw [if_neg (by simp [hstate])]
    simp only []
    have hp' : s.obs.probe = false := hp
    have hf' : s.obs.failures = kept c.window (times log) := hf
    rw [hp', hf', retainedOk_kept _ _ hsorted, hfind]
    simp
  | opened t0 =>
    obtain ⟨hst, hoa, hp, hf, hcf, -⟩ := h
    unfold obsBad
    rw [if_neg (by simp [hstate])]
    simp [St.obs, hoa, hp, hf, hcf]
  | halfOpen p =>
    obtain ⟨hst, hp, hf, hcf, -⟩ := h
    unfold obsBad
    rw [if_neg (by simp [hstate])]
    simp [St.obs, hp, hf, hcf]

/-- The monitor accepts the model's own records (from any pair of related states). -/
theorem checkFrom_model (c : Cfg) (hw : 0 < c.window) (H : List Op) :
    ∀ (s : St) (a : Abs) (clk i : Nat), Inv c clk s a → MonoFrom clk H →
      checkFrom c a i (mrecs c s H) = .ok := by
  induction H with
  | nil => intros; rfl
  | cons op r ih =>
    intro s a clk i hinv hm
    unfold MonoFrom at hm
    have hstep : ∀ t, op.time = some t → clk ≤ t := by
      intro t ht; rw [ht] at hm; exact hm.1
    obtain ⟨h1, h2⟩ := step_refines c hw s a clk op hinv hstep
    have hm' : MonoFrom (op.time.getD clk) r := by
      cases hop : op.time with
      | none => rw [hop] at hm; simpa using hm
      | some t => rw [hop] at hm; simpa using hm.2
    simp only [mrecs, checkFrom]
    rw [if_neg (by simp [h1]), obsBad_of_inv c _ _ _ h2]
    exact ih _ _ _ _ h2 hm'

end Redress.Breaker
