/-
  Redress.Lemmas.Eqv — equivariance of the model under "silence the observability hooks" (C15).

  `σ w` is the world `w` in the twin semantics: `silent := true`, and the log rewritten as if every
  `Exception` raised by a metric / log / before_sleep hook had been a normal return of the same
  duration.  A program `x` is *equivariant* (`Eqv x`) when running it from `σ w` gives exactly the
  σ-image of running it from `w`: same value or exception, same final state up to σ.
-/
import Redress.Model.Run
import Redress.Model.Twin

namespace Redress

open Twin

/-- the log entry as the silent twin records it -/
def silenceX (x : Req × Ans) : Req × Ans := if isHook x.1 then (x.1, x.2.silenced) else x

/-- the world in the silent-hook twin semantics -/
def σ (w : World) : World := { w with silent := true, trace := w.trace.map silenceX }

def mapRes (f : World → World) : EStateM.Result Exn World α → EStateM.Result Exn World α
  | .ok a w => .ok a (f w)
  | .error e w => .error e (f w)

/-- equivariance under σ -/
structure Eqv (x : M α) : Prop where
  eq : ∀ w, x (σ w) = mapRes σ (x w)

@[simp] theorem silenced_idem (a : Ans) : a.silenced.silenced = a.silenced := by
  cases a with
  | raise e d => by_cases h : e.isException <;> simp [Ans.silenced, h]
  | _ => rfl

theorem Eqv.pure (a : α) : Eqv (pure a : M α) := ⟨fun _ => rfl⟩

theorem Eqv.throw (e : Exn) : Eqv (throw e : M α) := ⟨fun _ => rfl⟩

theorem Eqv.bind {x : M α} {f : α → M β} (hx : Eqv x) (hf : ∀ a, Eqv (f a)) : Eqv (x >>= f) := by
  refine ⟨fun w => ?_⟩
  show EStateM.bind x f (σ w) = mapRes σ (EStateM.bind x f w)
  unfold EStateM.bind
  rw [hx.eq w]
  cases x w with
  | ok a w1 => exact (hf a).eq w1
  | error e w1 => rfl

theorem Eqv.tryC {x : M α} {h : Exn → M α} (hx : Eqv x) (hh : ∀ e, Eqv (h e)) :
    Eqv (tryCatch x h : M α) := by
  refine ⟨fun w => ?_⟩
  show EStateM.tryCatch x h (σ w) = mapRes σ (EStateM.tryCatch x h w)
  unfold EStateM.tryCatch
  simp only [EStateM.Backtrackable.save, EStateM.Backtrackable.restore]
  rw [hx.eq w]
  cases x w with
  | ok a w1 => rfl
  | error e w1 => exact (hh e).eq w1

theorem Eqv.ite {c : Prop} [Decidable c] {x y : M α} (hx : Eqv x) (hy : Eqv y) :
    Eqv (if c then x else y) := by
  split <;> assumption

theorem Eqv.dite {c : Prop} [Decidable c] {x : c → M α} {y : ¬c → M α} (hx : ∀ h, Eqv (x h))
    (hy : ∀ h, Eqv (y h)) : Eqv (if h : c then x h else y h) := by
  split
  · exact hx _
  · exact hy _

/-! ### primitives -/

theorem σ_trace_cons (w : World) (x : Req × Ans) (h : isHook x.1 = false) :
    (σ { w with trace := x :: w.trace }) = { σ w with trace := x :: (σ w).trace } := by
  simp [σ, silenceX, h]

theorem ask_nil (r : Req) (w : World) (h : w.answers = []) :
    ask r w = .error .stuck { w with trace := (r, Ans.raise .stuck 0) :: w.trace } := by
  obtain ⟨answers, now, trace, rs, as, att, oc, tl, tls, bud, br, xc, sil⟩ := w
  subst h
  rfl

/-- what `ask r` does when the next answer is `a` -/
def askStep (r : Req) (w : World) (a : Ans) (rest : List Ans) : EStateM.Result Exn World Ans :=
  match a with
  | .raise e _ => .error e { w with answers := rest, now := w.now + a.dur, trace := (r, a) :: w.trace }
  | _ => .ok a { w with answers := rest, now := w.now + a.dur, trace := (r, a) :: w.trace }

theorem ask_cons (r : Req) (w : World) (a : Ans) (rest : List Ans) (h : w.answers = a :: rest) :
    ask r w = askStep r w a rest := by
  obtain ⟨answers, now, trace, rs, as, att, oc, tl, tls, bud, br, xc, sil⟩ := w
  simp only at h
  subst h
  cases a <;> rfl

/-- `ask` for a request that is not an observability hook -/
theorem Eqv.ask (r : Req) (h : isHook r = false) : Eqv (ask r) := by
  refine ⟨fun w => ?_⟩
  cases hw : w.answers with
  | nil =>
    rw [ask_nil r w hw, ask_nil r (σ w) (by simpa [σ] using hw)]
    simp [σ, mapRes, silenceX, h]
  | cons a rest =>
    rw [ask_cons r w a rest hw, ask_cons r (σ w) a rest (by simpa [σ] using hw)]
    cases a <;> simp [askStep, σ, mapRes, silenceX, h]

theorem modify_run (f : World → World) (w : World) : (modify f : M PUnit) w = .ok ⟨⟩ (f w) := rfl

theorem get_run (w : World) : (get : M World) w = .ok w w := rfl

/-- a state update that commutes with σ -/
theorem Eqv.modify (f : World → World) (hf : ∀ w, f (σ w) = σ (f w)) : Eqv (modify f : M PUnit) := by
  refine ⟨fun w => ?_⟩
  rw [modify_run, modify_run, hf]
  rfl

/-- anything of the form `get >>= k` where `k` is given the world: equivariant if `k (σ w)` run from
    `σ w` is the σ-image of `k w` run from `w` -/
theorem Eqv.getThen (k : World → M α) (hk : ∀ w, k (σ w) (σ w) = mapRes σ (k w w)) :
    Eqv (get >>= k) := by
  refine ⟨fun w => ?_⟩
  show EStateM.bind get k (σ w) = mapRes σ (EStateM.bind get k w)
  unfold EStateM.bind
  rw [get_run, get_run]
  exact hk w

theorem bind_run (x : M α) (f : α → M β) (w : World) :
    (x >>= f) w = (match x w with
      | .ok a w1 => f a w1
      | .error e w1 => .error e w1) := by
  show EStateM.bind x f w = _
  unfold EStateM.bind
  cases x w <;> rfl

theorem tryCatch_run (x : M α) (h : Exn → M α) (w : World) :
    (tryCatch x h : M α) w = (match x w with
      | .ok a w1 => .ok a w1
      | .error e w1 => h e w1) := by
  show EStateM.tryCatch x h w = _
  unfold EStateM.tryCatch
  simp only [EStateM.Backtrackable.save, EStateM.Backtrackable.restore]
  cases x w <;> rfl

/-- what `askHook r` does when the next answer is `a` -/
def askHookStep (r : Req) (w : World) (a : Ans) (rest : List Ans) : EStateM.Result Exn World Ans :=
  match (if w.silent then a.silenced else a) with
  | .raise e _ => .error e { w with answers := rest, now := w.now + a.dur,
                                    trace := (r, if w.silent then a.silenced else a) :: w.trace }
  | a' => .ok a' { w with answers := rest, now := w.now + a.dur,
                          trace := (r, if w.silent then a.silenced else a) :: w.trace }

theorem askHook_nil (r : Req) (w : World) (h : w.answers = []) :
    askHook r w = .error .stuck { w with trace := (r, Ans.raise .stuck 0) :: w.trace } := by
  obtain ⟨answers, now, trace, rs, as, att, oc, tl, tls, bud, br, xc, sil⟩ := w
  simp only at h
  subst h
  rfl

theorem askHook_cons (r : Req) (w : World) (a : Ans) (rest : List Ans) (h : w.answers = a :: rest) :
    askHook r w = askHookStep r w a rest := by
  obtain ⟨answers, now, trace, rs, as, att, oc, tl, tls, bud, br, xc, sil⟩ := w
  simp only at h
  subst h
  show askHook r _ = askHookStep r _ a rest
  unfold askHookStep askHook
  simp only [bind_run, get_run]
  generalize (if sil = true then a.silenced else a) = a'
  cases a' <;> rfl

/-! ### hook call sites: equivariant once wrapped in `except Exception: pass` -/

theorem swallow_eqv (e : Exn) : Eqv (swallowException e) := by
  unfold swallowException
  split
  · exact Eqv.pure _
  · exact Eqv.throw _

/-- `x` inside `try: x except Exception: pass` is equivariant -/
def EqvS (x : M Unit) : Prop := Eqv (tryCatch x swallowException : M Unit)

theorem EqvS.of_eqv {x : M Unit} (h : Eqv x) : EqvS x := Eqv.tryC h swallow_eqv

/-- the hook call itself: an `Exception` raised by the hook is swallowed, so it makes no difference
    whether the hook raised it or returned normally -/
theorem throw_run (e : Exn) (w : World) : (throw e : M α) w = .error e w := rfl
theorem pure_run (a : α) (w : World) : (Pure.pure a : M α) w = .ok a w := rfl

theorem EqvS.askHook (r : Req) (hr : isHook r = true) :
    EqvS (do let _ ← askHook r; Pure.pure ()) := by
  refine ⟨fun w => ?_⟩
  simp only [tryCatch_run, bind_run]
  cases hw : w.answers with
  | nil =>
    rw [askHook_nil r w hw, askHook_nil r (σ w) (by simpa [σ] using hw)]
    simp [swallowException, Exn.isException, σ, mapRes, silenceX, hr, Ans.silenced, throw_run]
  | cons a rest =>
    rw [askHook_cons r w a rest hw, askHook_cons r (σ w) a rest (by simpa [σ] using hw)]
    cases a with
    | raise e d =>
      by_cases he : e.isException = true
      · cases hs : w.silent <;>
          simp [askHookStep, σ, hs, mapRes, silenceX, hr, Ans.silenced, swallowException, he, pure_run, throw_run]
      · cases hs : w.silent <;>
          simp [askHookStep, σ, hs, mapRes, silenceX, hr, Ans.silenced, swallowException, he, pure_run, throw_run]
    | _ =>
      cases hs : w.silent <;>
        simp [askHookStep, σ, hs, mapRes, silenceX, hr, Ans.silenced, swallowException, pure_run, throw_run]

/-- an equivariant prefix in front of a hook call site -/
theorem EqvS.seq {p : M Unit} {x : M Unit} (hp : Eqv p) (hx : EqvS x) : EqvS (p >>= fun _ => x) := by
  refine ⟨fun w => ?_⟩
  have h1 := hp.eq w
  have h2 : ∀ w1, (tryCatch x swallowException : M Unit) (σ w1)
      = mapRes σ ((tryCatch x swallowException : M Unit) w1) := hx.eq
  simp only [tryCatch_run] at h2
  simp only [tryCatch_run, bind_run]
  rw [h1]
  cases hpw : p w with
  | ok a w1 =>
    simp only [mapRes]
    exact h2 w1
  | error e w1 =>
    simp only [mapRes]
    exact (swallow_eqv e).eq w1

theorem EqvS.ite {c : Prop} [Decidable c] {x y : M Unit} (hx : EqvS x) (hy : EqvS y) :
    EqvS (if c then x else y) := by
  split <;> assumption

theorem set_run (w' w : World) : (set w' : M PUnit) w = .ok ⟨⟩ w' := rfl

/-- `get >>= k` where `k` reads only what σ leaves alone and is equivariant for every argument -/
theorem Eqv.getThen' (k : World → M α) (hk : ∀ w, k (σ w) = k w) (he : ∀ w, Eqv (k w)) :
    Eqv (get >>= k) :=
  Eqv.getThen k (fun w => by rw [hk]; exact (he w).eq w)

/-- reading a projection that σ does not change -/
theorem Eqv.read (g : World → α) (hg : ∀ w, g (σ w) = g w) :
    Eqv (get >>= fun w => (Pure.pure (g w) : M α)) :=
  Eqv.getThen _ (fun w => by show EStateM.Result.ok (g (σ w)) (σ w) = _; rw [hg]; rfl)

end Redress
