/-
  Redress.Lemmas.ClassifyLemmas — helper lemmas about the classifier model (property C19):
  substring test, status tables, the two SQLSTATE regex matchers, the SQLSTATE table, and the
  agreement of the specification (`Classify.Spec`) with the model.
-/
import Redress.Model.Classify

namespace Redress.Classify

open Redress

/-! ## substring test -/

/-- `pat in s` is the infix relation. -/
theorem hasInfix_iff (pat s : List Char) : hasInfix pat s = true ↔ pat <:+: s := by
  induction s with
  | nil => simp [hasInfix]
  | cons c cs ih =>
    simp only [hasInfix, Bool.or_eq_true, ih, List.isPrefixOf_iff_prefix, List.infix_cons_iff]

theorem hasInfix_eq_false (pat s : List Char) : hasInfix pat s = false ↔ ¬ pat <:+: s := by
  rw [← hasInfix_iff]; simp

/-! ## status tables -/

/-- membership in the documented table of `_classify` -/
def InCodeTable (z : Int) : Prop :=
  z = 401 ∨ z = 403 ∨ z = 400 ∨ z = 404 ∨ z = 422 ∨ z = 409 ∨ z = 408 ∨ z = 429 ∨
    (500 ≤ z ∧ z < 600)

/-- membership in the table of `http_classifier` (no 422) -/
def InHttpTable (z : Int) : Prop :=
  z = 401 ∨ z = 403 ∨ z = 400 ∨ z = 404 ∨ z = 409 ∨ z = 408 ∨ z = 429 ∨ (500 ≤ z ∧ z < 600)

theorem codeTable_401 : codeTable 401 = some .auth := by decide
theorem codeTable_403 : codeTable 403 = some .permission := by decide
theorem codeTable_400 : codeTable 400 = some .permanent := by decide
theorem codeTable_404 : codeTable 404 = some .permanent := by decide
theorem codeTable_422 : codeTable 422 = some .permanent := by decide
theorem codeTable_409 : codeTable 409 = some .concurrency := by decide
theorem codeTable_408 : codeTable 408 = some .transient := by decide
theorem codeTable_429 : codeTable 429 = some .rateLimit := by decide

theorem codeTable_5xx (z : Int) (h : 500 ≤ z ∧ z < 600) : codeTable z = some .serverError := by
  unfold codeTable; grind

theorem codeTable_eq_none (z : Int) : codeTable z = none ↔ ¬ InCodeTable z := by
  unfold codeTable InCodeTable; grind

theorem codeTable_isSome (z : Int) : (codeTable z).isSome = true ↔ InCodeTable z := by
  unfold codeTable InCodeTable; grind

theorem httpTable_5xx (z : Int) (h : 500 ≤ z ∧ z < 600) : httpTable z = .serverError := by
  unfold httpTable; grind

theorem httpTable_outside (z : Int) (h : ¬ InHttpTable z) : httpTable z = .unknown := by
  unfold httpTable; unfold InHttpTable at h; grind

/-- On the rows both document, `http_classifier`'s table and `_classify`'s table agree. -/
theorem httpTable_eq_codeTable (z : Int) (h : InHttpTable z) : some (httpTable z) = codeTable z := by
  unfold httpTable codeTable; unfold InHttpTable at h; grind

/-! ## `_coerce_status` -/

theorem firstStatusArg_eq_some {args : List PyVal} {z : Int} :
    firstStatusArg args = some z ↔
      ∃ pre a post, args = pre ++ a :: post ∧ a.asInt = some z ∧ (100 ≤ z ∧ z ≤ 599) ∧
        ∀ b ∈ pre, ∀ w, b.asInt = some w → ¬ (100 ≤ w ∧ w ≤ 599) := by
  induction args with
  | nil => simp [firstStatusArg]
  | cons a rest ih =>
    unfold firstStatusArg
    constructor
    · intro h
      split at h
      · rename_i w hw
        split at h
        · rename_i hr
          cases h
          exact ⟨[], a, rest, rfl, hw, hr, by simp⟩
        · rename_i hr
          obtain ⟨pre, a', post, hs, ha, hz, hp⟩ := ih.mp h
          refine ⟨a :: pre, a', post, by simp [hs], ha, hz, ?_⟩
          intro b hb w' hw'
          rcases List.mem_cons.mp hb with rfl | hb
          · rw [hw] at hw'; cases hw'; exact hr
          · exact hp b hb w' hw'
      · rename_i hw
        obtain ⟨pre, a', post, hs, ha, hz, hp⟩ := ih.mp h
        refine ⟨a :: pre, a', post, by simp [hs], ha, hz, ?_⟩
        intro b hb w' hw'
        rcases List.mem_cons.mp hb with rfl | hb
        · rw [hw] at hw'; cases hw'
        · exact hp b hb w' hw'
    · rintro ⟨pre, a', post, hs, ha, hz, hp⟩
      cases pre with
      | nil =>
        simp only [List.nil_append, List.cons.injEq] at hs
        obtain ⟨rfl, rfl⟩ := hs
        simp [ha, hz]
      | cons b pre' =>
        simp only [List.cons_append, List.cons.injEq] at hs
        obtain ⟨rfl, rfl⟩ := hs
        have hrest : firstStatusArg (pre' ++ a' :: post) = some z :=
          ih.mpr ⟨pre', a', post, rfl, ha, hz, fun b hb => hp b (List.mem_cons_of_mem _ hb)⟩
        split
        · rename_i w hw
          have := hp a (List.mem_cons_self ..) w hw
          simp [this, hrest]
        · exact hrest

theorem firstStatusArg_eq_none {args : List PyVal} :
    firstStatusArg args = none ↔
      ∀ a ∈ args, ∀ w, a.asInt = some w → ¬ (100 ≤ w ∧ w ≤ 599) := by
  induction args with
  | nil => simp [firstStatusArg]
  | cons a rest ih =>
    unfold firstStatusArg
    constructor
    · intro h b hb w hw
      split at h
      · rename_i w' hw'
        split at h
        · cases h
        · rename_i hr
          rcases List.mem_cons.mp hb with rfl | hb
          · rw [hw'] at hw; cases hw; exact hr
          · exact ih.mp h b hb w hw
      · rename_i hn
        rcases List.mem_cons.mp hb with rfl | hb
        · rw [hn] at hw; cases hw
        · exact ih.mp h b hb w hw
    · intro h
      have hrest : firstStatusArg rest = none :=
        ih.mpr fun b hb => h b (List.mem_cons_of_mem _ hb)
      split
      · rename_i w hw
        have := h a (List.mem_cons_self ..) w hw
        simp [this, hrest]
      · exact hrest

/-! ## the regex matchers -/

/-- left context of a `\b…` match: at the very start (and the caller says no word character
precedes), or right after a non-word character -/
def LeftB (prevWord : Bool) (pre : List Char) : Prop :=
  (pre = [] ∧ prevWord = false) ∨ ∃ pre' x, pre = pre' ++ [x] ∧ isWord x = false

/-- right context of a `…\b` match: end of string, or a non-word character follows -/
def RightB (post : List Char) : Prop := post.head?.all (fun x => !isWord x) = true

theorem wordMatchHere_eq_some {s m : List Char} :
    wordMatchHere s = some m ↔
      ∃ post, s = m ++ post ∧ m.length = 5 ∧ m.all isCode = true ∧ RightB post := by
  unfold wordMatchHere RightB
  constructor
  · intro h
    simp only at h
    split at h
    · rename_i hc
      cases h
      exact ⟨s.drop 5, (List.take_append_drop 5 s).symm, hc.1, hc.2.1, hc.2.2⟩
    · cases h
  · rintro ⟨post, rfl, hl, hc, hr⟩
    have h1 : (m ++ post).take 5 = m := by rw [← hl]; simp
    have h2 : (m ++ post).drop 5 = post := by rw [← hl]; simp
    simp [h1, h2, hl, hc, hr]

theorem LeftB_cons {p : Bool} {c : Char} {pre : List Char} (h : LeftB (isWord c) pre) :
    LeftB p (c :: pre) := by
  rcases h with ⟨rfl, hc⟩ | ⟨pre', x, rfl, hx⟩
  · exact Or.inr ⟨[], c, rfl, hc⟩
  · exact Or.inr ⟨c :: pre', x, rfl, hx⟩

theorem LeftB_of_cons {p : Bool} {c : Char} {pre : List Char} (h : LeftB p (c :: pre)) :
    LeftB (isWord c) pre := by
  rcases h with ⟨h, -⟩ | ⟨pre'', y, h, hy⟩
  · cases h
  · cases pre'' with
    | nil =>
      simp only [List.nil_append, List.cons.injEq] at h
      obtain ⟨rfl, rfl⟩ := h
      exact Or.inl ⟨rfl, hy⟩
    | cons z zs =>
      simp only [List.cons_append, List.cons.injEq] at h
      exact Or.inr ⟨zs, y, h.2, hy⟩

/-- Soundness of the `\b([0-9A-Z]{5})\b` search: what it returns is a 5-character code that
stands in the string between word boundaries. -/
theorem searchWord_sound {s m : List Char} {p : Bool} (h : searchWord p s = some m) :
    ∃ pre post, s = pre ++ m ++ post ∧ m.length = 5 ∧ m.all isCode = true ∧ LeftB p pre ∧
      RightB post := by
  induction s generalizing p with
  | nil => simp [searchWord] at h
  | cons c cs ih =>
    unfold searchWord at h
    split at h
    · rename_i m' hm'
      cases h
      cases p with
      | true => simp at hm'
      | false =>
        simp only [Bool.false_eq_true, if_false] at hm'
        obtain ⟨post, hs, hl, hc, hr⟩ := wordMatchHere_eq_some.mp hm'
        exact ⟨[], post, by simpa using hs, hl, hc, Or.inl ⟨rfl, rfl⟩, hr⟩
    · obtain ⟨pre, post, hs, hl, hc, hL, hr⟩ := ih h
      exact ⟨c :: pre, post, by simp [hs], hl, hc, LeftB_cons hL, hr⟩

/-- Completeness: if a 5-character code stands anywhere between word boundaries, the search
finds a match (the leftmost one, which need not be this one). -/
theorem searchWord_complete {pre m post : List Char} {p : Bool} (hl : m.length = 5)
    (hc : m.all isCode = true) (hL : LeftB p pre) (hr : RightB post) :
    (searchWord p (pre ++ m ++ post)).isSome = true := by
  induction pre generalizing p with
  | nil =>
    rcases hL with ⟨-, rfl⟩ | ⟨pre', x, h, -⟩
    · have hm : wordMatchHere (m ++ post) = some m :=
        wordMatchHere_eq_some.mpr ⟨post, rfl, hl, hc, hr⟩
      match m, hl with
      | a :: t, _ =>
        simp only [List.nil_append, List.cons_append] at hm ⊢
        unfold searchWord
        simp [hm]
    · simp at h
  | cons x pre' ih =>
    simp only [List.cons_append]
    unfold searchWord
    split
    · simp
    · exact ih (LeftB_of_cons hL)

/-- …and when the code stands at the very start, it is the one returned. -/
theorem searchWord_at_start {m post : List Char} (hl : m.length = 5) (hc : m.all isCode = true)
    (hr : RightB post) : searchWord false (m ++ post) = some m := by
  have hm : wordMatchHere (m ++ post) = some m :=
    wordMatchHere_eq_some.mpr ⟨post, rfl, hl, hc, hr⟩
  match m, hl with
  | a :: t, _ =>
    simp only [List.cons_append] at hm ⊢
    unfold searchWord
    simp [hm]

theorem bracketMatchHere_eq_some {s m : List Char} :
    bracketMatchHere s = some m ↔
      ∃ post, s = '[' :: m ++ ']' :: post ∧ m.length = 5 ∧ m.all isCode = true := by
  unfold bracketMatchHere
  constructor
  · intro h
    simp only at h
    split at h
    · rename_i hc
      cases h
      obtain ⟨h0, hl, hcode, h6⟩ := hc
      cases s with
      | nil => simp at h0
      | cons c cs =>
        simp only [List.head?_cons, Option.some.injEq] at h0
        subst h0
        simp only [List.drop_succ_cons, List.drop_zero] at hl hcode h6 ⊢
        have hd : ∃ post, cs.drop 5 = ']' :: post := by
          cases hcs : cs.drop 5 with
          | nil => simp [hcs] at h6
          | cons y ys => simp [hcs] at h6; exact ⟨ys, by rw [h6]⟩
        obtain ⟨post, hpost⟩ := hd
        refine ⟨post, ?_, hl, hcode⟩
        rw [← hpost, List.cons_append, List.take_append_drop]
    · cases h
  · rintro ⟨post, rfl, hl, hc⟩
    have h1 : (m ++ ']' :: post).take 5 = m := by rw [← hl]; simp
    have h2 : (m ++ ']' :: post).drop 5 = ']' :: post := by rw [← hl]; simp
    simp [h1, h2, hl, hc]

/-- Soundness of the `\[([0-9A-Z]{5})\]` search. -/
theorem searchBracket_sound {s m : List Char} (h : searchBracket s = some m) :
    ∃ pre post, s = pre ++ '[' :: m ++ ']' :: post ∧ m.length = 5 ∧ m.all isCode = true := by
  induction s with
  | nil => simp [searchBracket] at h
  | cons c cs ih =>
    unfold searchBracket at h
    split at h
    · rename_i m' hm'
      cases h
      obtain ⟨post, hs, hl, hc⟩ := bracketMatchHere_eq_some.mp hm'
      exact ⟨[], post, by simpa using hs, hl, hc⟩
    · obtain ⟨pre, post, hs, hl, hc⟩ := ih h
      exact ⟨c :: pre, post, by simp [hs], hl, hc⟩

/-- Completeness of the `\[([0-9A-Z]{5})\]` search (some match is returned). -/
theorem searchBracket_complete {pre m post : List Char} (hl : m.length = 5)
    (hc : m.all isCode = true) :
    (searchBracket (pre ++ '[' :: m ++ ']' :: post)).isSome = true := by
  induction pre with
  | nil =>
    have hm : bracketMatchHere ('[' :: m ++ ']' :: post) = some m :=
      bracketMatchHere_eq_some.mpr ⟨post, rfl, hl, hc⟩
    simp only [List.nil_append, List.cons_append] at hm ⊢
    unfold searchBracket
    simp [hm]
  | cons x pre' ih =>
    simp only [List.cons_append] at ih ⊢
    unfold searchBracket
    split
    · simp
    · exact ih

theorem searchBracket_at_start {m post : List Char} (hl : m.length = 5)
    (hc : m.all isCode = true) : searchBracket ('[' :: m ++ ']' :: post) = some m := by
  have hm : bracketMatchHere ('[' :: m ++ ']' :: post) = some m :=
    bracketMatchHere_eq_some.mpr ⟨post, rfl, hl, hc⟩
  simp only [List.cons_append] at hm ⊢
  unfold searchBracket
  simp [hm]

/-! ## the SQLSTATE table -/

theorem sqlTable_40001 : sqlTable c40001 = .concurrency := by decide
theorem sqlTable_40P01 : sqlTable c40P01 = .concurrency := by decide
theorem sqlTable_HYT00 : sqlTable cHYT00 = .transient := by decide
theorem sqlTable_HYT01 : sqlTable cHYT01 = .transient := by decide
theorem sqlTable_08S01 : sqlTable c08S01 = .transient := by decide
theorem sqlTable_42000 : sqlTable c42000 = .permanent := by decide
theorem sqlTable_42P01 : sqlTable c42P01 = .permanent := by decide

theorem sqlTable_08 (rest : List Char) : sqlTable ('0' :: '8' :: rest) = .transient := by
  simp [sqlTable, c40001, c40P01]

theorem sqlTable_28 (rest : List Char) : sqlTable ('2' :: '8' :: rest) = .auth := by
  simp [sqlTable, c40001, c40P01, cHYT00, cHYT01, c08S01]

/-- every code outside the documented rows is UNKNOWN -/
theorem sqlTable_other (code : List Char)
    (h : code ≠ c40001 ∧ code ≠ c40P01 ∧ code ≠ cHYT00 ∧ code ≠ cHYT01 ∧ code ≠ c08S01 ∧
      code ≠ c42000 ∧ code ≠ c42P01)
    (h08 : ¬ ['0', '8'] <+: code) (h28 : ¬ ['2', '8'] <+: code) : sqlTable code = .unknown := by
  obtain ⟨h1, h2, h3, h4, h5, h6, h7⟩ := h
  simp [sqlTable, h1, h2, h3, h4, h5, h6, h7, h08, h28]

/-- Justification of `opaqueStr`: the table looks at the first character first; any string that
does not start with `0`, `2`, `4` or `H` is UNKNOWN — in particular `str()` of bytes, lists,
tuples, dicts, sets, frozensets and plain objects (`b'…'`, `[…`, `(…`, `{…`, `frozenset(…`, `<…`),
as well as `"None"`, `"True"`, `"nan"`, `"inf"`, `"-inf"` and every negative number. -/
theorem sqlTable_of_head (c : Char) (rest : List Char)
    (h : c ≠ '0' ∧ c ≠ '2' ∧ c ≠ '4' ∧ c ≠ 'H') : sqlTable (c :: rest) = .unknown := by
  obtain ⟨h0, h2, h4, hH⟩ := h
  simp [sqlTable, c40001, c40P01, cHYT00, cHYT01, c08S01, c42000, c42P01, h0, h4, hH,
    Ne.symm h0, Ne.symm h2]

theorem sqlTable_opaque : sqlTable opaqueStr = .unknown := by decide

/-! ## the specification agrees with the model -/

theorem Spec.defaultRow_eq (z : Int) : Spec.defaultRow z = codeTable z := by
  unfold Spec.defaultRow Spec.statusRow codeTable; grind

theorem Spec.statusRow_http (z : Int) (k : EClass) (h : Spec.statusRow z = some k) :
    httpTable z = k := by
  unfold Spec.statusRow at h; unfold httpTable; grind

theorem Spec.marker_eq (e : PyExc) : Spec.marker e = markerClass e := rfl

theorem Spec.numericCode_eq (e : PyExc) : Spec.numericCode e = (codeOf e).asInt := by
  unfold Spec.numericCode codeOf PyVal.or; split <;> rfl

theorem Spec.nameRow_eq (t : String) : Spec.nameRow t = nameClass t := rfl

theorem Spec.dflt_eq (e : PyExc) : Spec.dflt e = default e := by
  unfold Spec.dflt default classify
  rw [Spec.marker_eq, Spec.numericCode_eq, Spec.nameRow_eq]
  have hrow : Spec.defaultRow = codeTable := funext Spec.defaultRow_eq
  rw [hrow]
  cases markerClass e <;> cases ((codeOf e).asInt.bind codeTable) <;>
    cases nameClass e.tname <;> simp [Option.orElse]

theorem Spec.strict_eq (e : PyExc) : Spec.strict e = Redress.Classify.strict e := by
  unfold Spec.strict Redress.Classify.strict classify
  rw [Spec.marker_eq, Spec.numericCode_eq]
  have hrow : Spec.defaultRow = codeTable := funext Spec.defaultRow_eq
  rw [hrow]
  cases markerClass e <;> cases ((codeOf e).asInt.bind codeTable) <;> simp [Option.orElse]

theorem isPrefixOf_two_iff (a b : Char) (code : List Char) :
    [a, b].isPrefixOf code = true ↔ code.take 2 = [a, b] := by
  match code with
  | [] => simp
  | [x] => simp
  | x :: y :: rest =>
    simp only [List.isPrefixOf_cons_cons, Bool.and_eq_true, beq_iff_eq, List.isPrefixOf_nil_left,
      and_true, List.take_succ_cons, List.take_zero, List.cons.injEq]
    constructor <;> rintro ⟨rfl, rfl⟩ <;> exact ⟨rfl, rfl⟩

theorem Spec.sqlRow_sound (c : List Char) (k : EClass) (h : Spec.sqlRow c = some k) :
    sqlTable c = k := by
  unfold Spec.sqlRow at h
  unfold sqlTable
  have e1 : "40001".toList = c40001 := by decide
  have e2 : "40P01".toList = c40P01 := by decide
  have e3 : "HYT00".toList = cHYT00 := by decide
  have e4 : "HYT01".toList = cHYT01 := by decide
  have e5 : "08S01".toList = c08S01 := by decide
  have e6 : "42000".toList = c42000 := by decide
  have e7 : "42P01".toList = c42P01 := by decide
  have e8 : "08".toList = ['0', '8'] := by decide
  have e9 : "28".toList = ['2', '8'] := by decide
  rw [e1, e2, e3, e4, e5, e6, e7, e8, e9] at h
  simp only [isPrefixOf_two_iff]
  grind

theorem Spec.sqlCode_found (find : List Char → Option (List Char)) (e : PyExc) (c : List Char)
    (h : Spec.sqlCode find e = some c) : findSqlstate find e = .code c := by
  unfold Spec.sqlCode at h
  unfold findSqlstate
  cases hsq : e.sqlstate with
  | str s =>
    rw [hsq] at h
    simp only at h
    split at h
    · rename_i hs
      cases h
      simp [PyVal.truthy, hs, pyStr]
    · rename_i hs
      simp [PyVal.truthy, hs, h]
  | none => rw [hsq] at h; simp_all [PyVal.truthy]
  | bool b => rw [hsq] at h; cases b <;> simp_all [PyVal.truthy]
  | int z => rw [hsq] at h; by_cases hz : z = 0 <;> simp_all [PyVal.truthy]
  | float f => rw [hsq] at h; cases hf : f.truthy <;> simp_all [PyVal.truthy]
  | bytes n => rw [hsq] at h; by_cases hz : n = 0 <;> simp_all [PyVal.truthy]
  | container n ok => rw [hsq] at h; by_cases hz : n = 0 <;> simp_all [PyVal.truthy]
  | obj t => rw [hsq] at h; cases t <;> simp_all [PyVal.truthy]

end Redress.Classify
