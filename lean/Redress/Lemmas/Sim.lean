/-
  Redress.Lemmas.Sim — "the shared procedures of the retry loop do the same thing in call() mode and in
  execute() mode" (C12).

  `π w` forgets what only execute() writes (`timeline`, `tlStart`, `attempts`) and the per-attempt scratch
  state `as` (nothing but the attempt hooks reads it, and C12 is about runs without attempt hooks).
  `Sim x x'` (x = execute flavour, x' = call flavour): from π-equal worlds the two programs return the same
  value / raise the same exception and end in π-equal worlds; moreover `x` does not change `attempts`, and
  an `AbortRetryError` leaving `x'` was raised by a callback other than the operation (and is in the log)
  or is the library's own abort after a poll (`last_stop_reason = ABORTED`).
-/
import Redress.Lemmas.Eqv

namespace Redress

open Twin Retry

/-- forget what only execute() writes, and the attempt-local scratch state -/
def π (w : World) : World :=
  { w with timeline := [], tlStart := 0, attempts := 0, as := {} }

theorem π_iff (we wc : World) : π we = π wc ↔
    (we.answers = wc.answers ∧ we.now = wc.now ∧ we.trace = wc.trace ∧ we.rs = wc.rs ∧
     we.opCalls = wc.opCalls ∧ we.budget = wc.budget ∧ we.breaker = wc.breaker ∧ we.xc = wc.xc ∧
     we.silent = wc.silent) := by
  cases we; cases wc; simp [π]

theorem π_answers {we wc : World} (h : π we = π wc) : we.answers = wc.answers := ((π_iff _ _).mp h).1
theorem π_now {we wc : World} (h : π we = π wc) : we.now = wc.now := ((π_iff _ _).mp h).2.1
theorem π_trace {we wc : World} (h : π we = π wc) : we.trace = wc.trace := ((π_iff _ _).mp h).2.2.1
theorem π_rs {we wc : World} (h : π we = π wc) : we.rs = wc.rs := ((π_iff _ _).mp h).2.2.2.1
theorem π_opCalls {we wc : World} (h : π we = π wc) : we.opCalls = wc.opCalls := ((π_iff _ _).mp h).2.2.2.2.1
theorem π_budget {we wc : World} (h : π we = π wc) : we.budget = wc.budget := ((π_iff _ _).mp h).2.2.2.2.2.1
theorem π_silent {we wc : World} (h : π we = π wc) : we.silent = wc.silent := ((π_iff _ _).mp h).2.2.2.2.2.2.2.2

/-- one logged exchange on both sides -/
theorem π_exchange {we wc : World} (h : π we = π wc) (rest : List Ans) (d : Nat) (x : Req × Ans) :
    π { we with answers := rest, now := we.now + d, trace := x :: we.trace }
      = π { wc with answers := rest, now := wc.now + d, trace := x :: wc.trace } := by
  obtain ⟨h1, h2, h3, h4, h5, h6, h7, h8, h9⟩ := (π_iff _ _).mp h
  exact (π_iff _ _).mpr ⟨rfl, by rw [h2], by rw [h3], h4, h5, h6, h7, h8, h9⟩

theorem π_logged {we wc : World} (h : π we = π wc) (x : Req × Ans) :
    π { we with trace := x :: we.trace } = π { wc with trace := x :: wc.trace } := by
  obtain ⟨h1, h2, h3, h4, h5, h6, h7, h8, h9⟩ := (π_iff _ _).mp h
  exact (π_iff _ _).mpr ⟨h1, h2, by rw [h3], h4, h5, h6, h7, h8, h9⟩

def isOp : Req → Bool
  | .op _ => true
  | _ => false

/-- where an abort-kind exception leaving a shared procedure comes from -/
def AbSrc (e : Exn) (w : World) : Prop :=
  (∃ r d, (r, Ans.raise e d) ∈ w.trace ∧ isOp r = false) ∨ (e = .libAbort ∧ w.rs.lastStop = some .aborted)

def AbOK (e : Exn) (w : World) : Prop := e.isAbort = true → AbSrc e w

theorem AbOK.of_not_abort {e : Exn} (w : World) (h : e.isAbort = false) : AbOK e w := by
  intro h'; rw [h] at h'; cases h'

theorem AbOK.of_not_exception {e : Exn} (w : World) (h : e.isException = false) : AbOK e w := by
  apply AbOK.of_not_abort
  cases e <;> simp_all [Exn.isException, Exn.isAbort]

theorem AbSrc.congr {e : Exn} {w w' : World} (ht : w'.trace = w.trace) (hr : w'.rs = w.rs)
    (h : AbSrc e w) : AbSrc e w' := by
  unfold AbSrc at *
  rw [ht, hr]; exact h

theorem AbOK.of_pi {e : Exn} {w w' : World} (h : π w = π w') (ha : AbOK e w) : AbOK e w' := by
  intro he
  have ht : w'.trace = w.trace := (π_trace h).symm
  have hr : w'.rs = w.rs := (π_rs h).symm
  exact AbSrc.congr ht hr (ha he)

/-- how the results of the two flavours correspond; `n` = the execute side's `attempts` before -/
def SimRes (n : Nat) (re rc : EStateM.Result Exn World α) : Prop :=
  match re, rc with
  | .ok a we', .ok a' wc' => a = a' ∧ π we' = π wc' ∧ we'.attempts = n
  | .error e we', .error e' wc' => e = e' ∧ π we' = π wc' ∧ we'.attempts = n ∧ AbOK e wc'
  | _, _ => False

/-- `x` (execute flavour) and `x'` (call flavour) do the same thing up to π -/
structure Sim (x x' : M α) : Prop where
  run : ∀ we wc, π we = π wc → SimRes we.attempts (x we) (x' wc)

/-- the case analysis a lock-step proof needs -/
theorem Sim.step {x x' : M α} (h : Sim x x') {we wc : World} (hπ : π we = π wc) :
    (∃ a we1 wc1, x we = .ok a we1 ∧ x' wc = .ok a wc1 ∧ π we1 = π wc1 ∧ we1.attempts = we.attempts) ∨
    (∃ e we1 wc1, x we = .error e we1 ∧ x' wc = .error e wc1 ∧ π we1 = π wc1 ∧
      we1.attempts = we.attempts ∧ AbOK e wc1) := by
  have := h.run we wc hπ
  cases hxe : x we with
  | ok a we1 =>
    cases hxc : x' wc with
    | ok a' wc1 =>
      rw [hxe, hxc] at this
      obtain ⟨rfl, h2, h3⟩ := this
      exact Or.inl ⟨a, we1, wc1, rfl, rfl, h2, h3⟩
    | error e wc1 => rw [hxe, hxc] at this; exact this.elim
  | error e we1 =>
    cases hxc : x' wc with
    | ok a' wc1 => rw [hxe, hxc] at this; exact this.elim
    | error e' wc1 =>
      rw [hxe, hxc] at this
      obtain ⟨rfl, h2, h3, h4⟩ := this
      exact Or.inr ⟨e, we1, wc1, rfl, rfl, h2, h3, h4⟩

theorem Sim.pure (a : α) : Sim (pure a : M α) (pure a) := ⟨fun _ _ h => ⟨rfl, h, rfl⟩⟩

theorem Sim.throw (e : Exn) (he : e.isAbort = false) : Sim (throw e : M α) (throw e) :=
  ⟨fun _ wc h => ⟨rfl, h, rfl, AbOK.of_not_abort wc he⟩⟩

theorem Sim.bind {x x' : M α} {f f' : α → M β} (hx : Sim x x') (hf : ∀ a, Sim (f a) (f' a)) :
    Sim (x >>= f) (x' >>= f') := by
  refine ⟨fun we wc h => ?_⟩
  rw [bind_run, bind_run]
  rcases hx.step h with ⟨a, we1, wc1, h1, h2, h3, h4⟩ | ⟨e, we1, wc1, h1, h2, h3, h4, h5⟩
  · rw [h1, h2]
    have := (hf a).run we1 wc1 h3
    rw [h4] at this
    exact this
  · rw [h1, h2]
    exact ⟨rfl, h3, h4, h5⟩

theorem Sim.tryC {x x' : M α} {h h' : Exn → M α} (hx : Sim x x') (hh : ∀ e, Sim (h e) (h' e)) :
    Sim (tryCatch x h : M α) (tryCatch x' h' : M α) := by
  refine ⟨fun we wc hπ => ?_⟩
  rw [tryCatch_run, tryCatch_run]
  rcases hx.step hπ with ⟨a, we1, wc1, h1, h2, h3, h4⟩ | ⟨e, we1, wc1, h1, h2, h3, h4, h5⟩
  · rw [h1, h2]
    exact ⟨rfl, h3, h4⟩
  · rw [h1, h2]
    have := (hh e).run we1 wc1 h3
    rw [h4] at this
    exact this

theorem Sim.ite {c : Prop} [Decidable c] {x x' y y' : M α} (hx : Sim x x') (hy : Sim y y') :
    Sim (if c then x else y) (if c then x' else y') := by
  split <;> assumption

/-! ### primitives -/

theorem Sim.ask (r : Req) (hr : isOp r = false) : Sim (ask r) (ask r) := by
  refine ⟨fun we wc h => ?_⟩
  have ha : we.answers = wc.answers := π_answers h
  cases hw : wc.answers with
  | nil =>
    rw [ask_nil r wc hw, ask_nil r we (ha.trans hw)]
    exact ⟨rfl, π_logged h _, rfl, AbOK.of_not_abort _ rfl⟩
  | cons a rest =>
    rw [ask_cons r wc a rest hw, ask_cons r we a rest (ha.trans hw)]
    have hw' := π_exchange h rest a.dur (r, a)
    cases a with
    | raise e d =>
      refine ⟨rfl, hw', rfl, ?_⟩
      intro _
      exact Or.inl ⟨r, d, List.mem_cons_self, hr⟩
    | _ => exact ⟨rfl, hw', rfl⟩

theorem isHook_not_op (r : Req) (h : isHook r = true) : isOp r = false := by
  cases r <;> simp_all [isHook, isOp]

theorem Sim.askHook (r : Req) (hr : isOp r = false) : Sim (askHook r) (askHook r) := by
  refine ⟨fun we wc h => ?_⟩
  have ha : we.answers = wc.answers := π_answers h
  have hs : we.silent = wc.silent := π_silent h
  cases hw : wc.answers with
  | nil =>
    rw [askHook_nil r wc hw, askHook_nil r we (ha.trans hw)]
    exact ⟨rfl, π_logged h _, rfl, AbOK.of_not_abort _ rfl⟩
  | cons a rest =>
    rw [askHook_cons r wc a rest hw, askHook_cons r we a rest (ha.trans hw)]
    unfold askHookStep
    have hsil : (if we.silent = true then a.silenced else a) = (if wc.silent = true then a.silenced else a) := by
      rw [hs]
    simp only [hsil]
    generalize (if wc.silent = true then a.silenced else a) = a'
    have hw' := π_exchange h rest a.dur (r, a')
    cases a' with
    | raise e d =>
      refine ⟨rfl, hw', rfl, ?_⟩
      intro _
      exact Or.inl ⟨r, d, List.mem_cons_self, hr⟩
    | _ => exact ⟨rfl, hw', rfl⟩

/-- a state update that commutes with π and leaves `attempts` alone -/
theorem Sim.modify (f : World → World) (hf : ∀ w, π (f w) = π (f (π w)))
    (ha : ∀ w, (f w).attempts = w.attempts) : Sim (_root_.modify f : M PUnit) (_root_.modify f) := by
  refine ⟨fun we wc h => ?_⟩
  rw [modify_run, modify_run]
  refine ⟨rfl, ?_, ha we⟩
  rw [hf we, hf wc, h]

/-- two different state updates with the same effect up to π -/
theorem Sim.modify2 (f f' : World → World) (hf : ∀ w, π (f w) = π (f' (π w)))
    (hf' : ∀ w, π (f' w) = π (f' (π w)))
    (ha : ∀ w, (f w).attempts = w.attempts) : Sim (_root_.modify f : M PUnit) (_root_.modify f') := by
  refine ⟨fun we wc h => ?_⟩
  rw [modify_run, modify_run]
  refine ⟨rfl, ?_, ha we⟩
  rw [hf we, hf' wc, h]

/-- `get >>= k` where the continuations read only what π keeps -/
theorem Sim.getThen (k k' : World → M α) (hk : ∀ w, k w = k (π w)) (hk' : ∀ w, k' w = k' (π w))
    (he : ∀ w, Sim (k w) (k' w)) : Sim (get >>= k) (get >>= k') := by
  refine ⟨fun we wc h => ?_⟩
  rw [bind_run, bind_run, get_run, get_run]
  show SimRes we.attempts (k we we) (k' wc wc)
  rw [hk we, hk' wc, h]
  exact (he (π wc)).run we wc h

/-- reading a projection that π keeps -/
theorem Sim.read (g : World → α) (hg : ∀ w, g w = g (π w)) :
    Sim (get >>= fun w => (Pure.pure (g w) : M α)) (get >>= fun w => (Pure.pure (g w) : M α)) :=
  Sim.getThen _ _ (fun w => by rw [hg]) (fun w => by rw [hg]) (fun _ => Sim.pure _)

theorem swallow_sim (e : Exn) : Sim (swallowException e) (swallowException e) := by
  unfold swallowException
  by_cases h : e.isException = true
  · simp only [h, if_true]; exact Sim.pure _
  · simp only [h]
    have h' : e.isException = false := by simpa using h
    refine ⟨fun we wc hπ => ?_⟩
    exact ⟨rfl, hπ, rfl, AbOK.of_not_exception wc h'⟩

/-- structural steps of a simulation proof; `ls` are the lemmas for the procedures called -/
syntax "sim" "[" ident,* "]" : tactic
macro_rules
  | `(tactic| sim [$ls,*]) => do
    let alts ← ls.getElems.mapM fun l => `(tacticSeq| with_reducible apply $l)
    `(tactic| repeat (first
        | with_reducible exact Sim.pure _
        | (with_reducible apply Sim.throw) <;> rfl
        | (with_reducible apply Sim.ask) <;> rfl
        | (with_reducible apply Sim.askHook) <;> rfl
        | (with_reducible apply Sim.modify) <;> (intro _; rfl)
        | assumption
        $[| $alts]*
        | with_reducible apply Sim.bind
        | with_reducible apply Sim.tryC
        | with_reducible apply Sim.ite
        | (intro _)
        | split))

end Redress
