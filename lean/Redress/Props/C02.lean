/-
  C02 — Deadline envelope: no attempt starts and no sleep extends past `deadline_s`.

  Theorems are about `Mon.C02.ok`, the monitor the driver also evaluates on implementation traces:
  for EVERY configuration, EVERY answer stream and every entry point the monitor accepts the model's
  run.  The property's own hypotheses — time passes only in attempts and sleeps (`quiet`), each sleep
  lasts at least as long as requested (`honestSleeper`, for the total-sleep bound) — are guards of
  the monitor; in the proof they are ghost assumptions about the log *so far* ("if the log so far is
  quiet then …"), so the final theorem needs no side condition.
-/
import Redress.Lemmas.Footprint
import Redress.Monitors

open Std.Do

set_option linter.unusedSimpArgs false

namespace Redress.Props.C02
open Redress Redress.Retry Redress.Mon Redress.Mon.C02

/-- the monitor state as a function of the world's (newest-first) log -/
def cur (cfg : Cfg) (tr : List (Req × Ans)) : St := tr.foldr (fun x s => step cfg s x) {}

@[simp] theorem cur_cons (cfg : Cfg) (x : Req × Ans) (t : List (Req × Ans)) :
    cur cfg (x :: t) = step cfg (cur cfg t) x := rfl

theorem run_reverse (cfg : Cfg) (t : List (Req × Ans)) : run cfg t.reverse = cur cfg t := by
  simp [run, cur, List.foldl_reverse]

/-- `quiet`, as a proposition on the newest-first log -/
def QuietTr (tr : List (Req × Ans)) : Prop :=
  ∀ x ∈ tr, isOp x.1 = true ∨ isSleeper x.1 = true ∨ x.2.dur = 0

/-- one honest exchange -/
def HonestX (x : Req × Ans) : Prop :=
  match x.1, x.2 with
  | .sleeper _ _, .raise _ _ => True
  | .sleeper _ d, a => d ≤ a.dur
  | _, _ => True

/-- `honestSleeper`, as a proposition on the newest-first log -/
def HonestTr (tr : List (Req × Ans)) : Prop := ∀ x ∈ tr, HonestX x

theorem quiet_iff (t : Trace) : quiet t = true ↔ QuietTr t.reverse := by
  simp [quiet, QuietTr, or_assoc]

theorem honest_iff (t : Trace) : honestSleeper t = true ↔ HonestTr t.reverse := by
  unfold honestSleeper HonestTr HonestX
  simp only [List.all_eq_true, List.mem_reverse]
  constructor <;> intro h x hx <;> have := h x hx <;> (split at this <;> simp_all)

/-- requests that move nothing but the C02 monitor's clock -/
def inertK : Kind → Bool
  | .op | .resultClassify | .sleeper => false
  | _ => true

theorem step_inert (cfg : Cfg) (s : St) (x : Req × Ans) (h : inertK x.1.kind = true)
    (hd : x.2.dur = 0) : step cfg s x = s := by
  obtain ⟨r, a⟩ := x
  cases r <;> simp_all [inertK, Req.kind, step]

theorem cur_append_inert (cfg : Cfg) (δ t : List (Req × Ans)) (h : ∀ x ∈ δ, inertK x.1.kind = true)
    (hq : QuietTr (δ ++ t)) : cur cfg (δ ++ t) = cur cfg t := by
  induction δ with
  | nil => rfl
  | cons x δ ih =>
    have hx := h x (by simp)
    have hq' : QuietTr (δ ++ t) := fun y hy => hq y (by simp at hy ⊢; exact Or.inr hy)
    have := ih (fun y hy => h y (by simp [hy])) hq'
    have hd : x.2.dur = 0 := by
      have := hq x (by simp)
      obtain ⟨r, a⟩ := x
      cases r <;> simp_all [inertK, Req.kind, isOp, isSleeper]
    simp only [List.cons_append, cur_cons, this]
    exact step_inert _ _ _ hx hd

/-- what the C02 argument looks at -/
structure Snap where
  quiet : Prop
  honest : Prop
  mon : St
  start : Nat
  now : Nat

def snap (cfg : Cfg) (w : World) : Snap :=
  ⟨QuietTr w.trace, HonestTr w.trace, cur cfg w.trace, w.rs.start, w.now⟩

/-- what an inert step keeps: *if* the log is still quiet afterwards, it was quiet before, the
    monitor has not moved, the run's start instant is the same and the clock has not gone back;
    honesty of the longer log implies honesty of the shorter -/
structure Keep (g g' : Snap) : Prop where
  honest : g'.honest → g.honest
  quiet : g'.quiet → g.quiet ∧ g'.mon = g.mon ∧ g'.start = g.start ∧ g.now ≤ g'.now

theorem keep_of_foot (cfg : Cfg) (w w' : World) (h : Foot inertK w w') : Keep (snap cfg w) (snap cfg w') := by
  obtain ⟨δ, e, k⟩ := h.trace
  refine ⟨fun hh x hx => hh x (by simp [snap, e, hx]), fun hq => ?_⟩
  have hq' : QuietTr (δ ++ w.trace) := by simpa [snap, e] using hq
  refine ⟨fun x hx => hq' x (by simp [hx]), ?_, ?_, h.now⟩
  · simp only [snap, e]
    exact cur_append_inert cfg δ _ k hq'
  · have := congrArg RState.start h.rs
    simpa [snap] using this

/-- From a footprint lemma to "the snapshot is kept" (both exits). -/
theorem keep_of_foot_spec {α : Type} {x : M α} (cfg : Cfg)
    (hx : ∀ w0, ⦃fun w => ⌜Foot inertK w0 w⌝⦄ x ⦃footPost inertK w0⦄) (g : Snap) :
    ⦃fun w => ⌜snap cfg w = g⌝⦄ x
    ⦃post⟨fun _ w => ⌜Keep g (snap cfg w)⌝, fun _ w => ⌜Keep g (snap cfg w)⌝⟩⦄ := by
  apply triple_of_run
  intro w hw
  have := adequacy (hx w) w (Foot.refl _ w)
  split <;> simp_all <;> (rw [← hw]; exact keep_of_foot cfg _ _ this)

/-- same, keeping what the footprint lemma says about the returned value -/
theorem keep_of_foot_spec' {α : Type} {x : M α} {R : α → Prop} (cfg : Cfg)
    (hx : ∀ w0, ⦃fun w => ⌜Foot inertK w0 w⌝⦄ x
      ⦃post⟨fun a w => ⌜R a ∧ Foot inertK w0 w⌝, fun _ w => ⌜Foot inertK w0 w⌝⟩⦄) (g : Snap) :
    ⦃fun w => ⌜snap cfg w = g⌝⦄ x
    ⦃post⟨fun a w => ⌜R a ∧ Keep g (snap cfg w)⌝, fun _ w => ⌜Keep g (snap cfg w)⌝⟩⦄ := by
  apply triple_of_run
  intro w hw
  have := adequacy (hx w) w (Foot.refl _ w)
  split <;> simp_all <;> (rw [← hw]; first | exact keep_of_foot cfg _ _ this | exact keep_of_foot cfg _ _ this.2)

/-- "the snapshot `g` is kept" on both exits -/
abbrev kept (cfg : Cfg) (g : Snap) : PostCond α (.except Exn (.arg World .pure)) :=
  post⟨fun _ w => ⌜Keep g (snap cfg w)⌝, fun _ w => ⌜Keep g (snap cfg w)⌝⟩

/-! ### leaf procedures keep the snapshot -/
section leaves
variable (g : Snap) (cfg : Cfg) (tl : Bool)

theorem emit_k (ev : Event) (a s : Nat) (k : Option EClass) (e : Option Exn) (st : Option StopReason)
    (c : Option Cause) (cl : Option Classification) :
    ⦃fun w => ⌜snap cfg w = g⌝⦄ emit cfg tl ev a s k e st c cl ⦃kept cfg g⦄ :=
  keep_of_foot_spec cfg (fun w0 => emit_foot inertK w0 rfl rfl cfg tl ev a s k e st c cl) g

theorem setStop_k (s : StopReason) : ⦃fun w => ⌜snap cfg w = g⌝⦄ setStop s ⦃kept cfg g⦄ :=
  keep_of_foot_spec cfg (fun w0 => setStop_foot inertK w0 s) g

theorem checkAbort_k (a : Nat) : ⦃fun w => ⌜snap cfg w = g⌝⦄ checkAbort cfg tl a ⦃kept cfg g⦄ :=
  keep_of_foot_spec cfg (fun w0 => checkAbort_foot inertK w0 rfl rfl rfl cfg tl a) g

theorem stopWith_k (s : StopReason) (ev : Event) (a : Nat) (k : EClass) (e : Option Exn) (c : Cause) :
    ⦃fun w => ⌜snap cfg w = g⌝⦄ stopWith cfg tl s ev a k e c
    ⦃post⟨fun d w => ⌜d = .raise ∧ Keep g (snap cfg w)⌝, fun _ w => ⌜Keep g (snap cfg w)⌝⟩⦄ :=
  keep_of_foot_spec' cfg (fun w0 => stopWith_foot inertK w0 rfl rfl cfg tl s ev a k e c) g

theorem recordStrategySuccess_k : ⦃fun w => ⌜snap cfg w = g⌝⦄ recordStrategySuccess cfg ⦃kept cfg g⦄ :=
  keep_of_foot_spec cfg (fun w0 => recordStrategySuccess_foot inertK w0 rfl cfg) g

theorem stratRecordFailure_k (key : SKey) (k : EClass) :
    ⦃fun w => ⌜snap cfg w = g⌝⦄ stratRecordFailure cfg key k ⦃kept cfg g⦄ :=
  keep_of_foot_spec cfg (fun w0 => stratRecordFailure_foot inertK w0 rfl cfg key k) g

theorem callStrategy_k (key : SKey) (kind : SKind) (ctx : BackoffCtx) :
    ⦃fun w => ⌜snap cfg w = g⌝⦄ callStrategy key kind ctx ⦃kept cfg g⦄ :=
  keep_of_foot_spec cfg (fun w0 => callStrategy_foot inertK w0 rfl key kind ctx) g

theorem callClassifier_k (e : Exn) : ⦃fun w => ⌜snap cfg w = g⌝⦄ callClassifier e ⦃kept cfg g⦄ :=
  keep_of_foot_spec cfg (fun w0 => callClassifier_foot inertK w0 rfl e) g

theorem callAttemptStart_k (a : Nat) : ⦃fun w => ⌜snap cfg w = g⌝⦄ callAttemptStart cfg a ⦃kept cfg g⦄ :=
  keep_of_foot_spec cfg (fun w0 => callAttemptStart_foot inertK w0 rfl cfg a) g

theorem callAttemptEndFromOutcome_k (a : Nat) (o : AOutcome) :
    ⦃fun w => ⌜snap cfg w = g⌝⦄ callAttemptEndFromOutcome cfg a o ⦃kept cfg g⦄ :=
  keep_of_foot_spec cfg (fun w0 => callAttemptEndFromOutcome_foot inertK w0 rfl cfg a o) g

theorem callBeforeSleep_k (ctx : BackoffCtx) (s : Nat) :
    ⦃fun w => ⌜snap cfg w = g⌝⦄ callBeforeSleep cfg ctx s ⦃kept cfg g⦄ :=
  keep_of_foot_spec cfg (fun w0 => callBeforeSleep_foot inertK w0 rfl cfg ctx s) g

theorem callSleepHandler_k (lvl : Lvl) (ctx : BackoffCtx) (s : Nat) :
    ⦃fun w => ⌜snap cfg w = g⌝⦄ callSleepHandler lvl ctx s ⦃kept cfg g⦄ :=
  keep_of_foot_spec cfg (fun w0 => callSleepHandler_foot inertK w0 rfl lvl ctx s) g

theorem buildOutcome_k (ok : Bool) (value : Option Nat) (n : Nat) (ns : Option Nat) :
    ⦃fun w => ⌜snap cfg w = g⌝⦄ buildOutcome ok value n ns ⦃kept cfg g⦄ :=
  keep_of_foot_spec cfg (fun w0 => buildOutcome_foot inertK w0 ok value n ns) g

theorem emitAbortedOnce_k (a : Nat) : ⦃fun w => ⌜snap cfg w = g⌝⦄ emitAbortedOnce cfg tl a ⦃kept cfg g⦄ :=
  keep_of_foot_spec cfg (fun w0 => emitAbortedOnce_foot inertK w0 rfl rfl cfg tl a) g

theorem abortOutcome_k (a : Nat) : ⦃fun w => ⌜snap cfg w = g⌝⦄ abortOutcome cfg tl a ⦃kept cfg g⦄ :=
  keep_of_foot_spec cfg (fun w0 => abortOutcome_foot inertK w0 rfl rfl cfg tl a) g

theorem handleSleepDecision_k (act : SleepDecision) (a s : Nat) :
    ⦃fun w => ⌜snap cfg w = g⌝⦄ handleSleepDecision cfg tl act a s
    ⦃post⟨fun r w => ⌜(r = act ∧ act ≠ .other) ∧ Keep g (snap cfg w)⌝, fun _ w => ⌜Keep g (snap cfg w)⌝⟩⦄ :=
  keep_of_foot_spec' cfg (fun w0 => handleSleepDecision_foot inertK w0 rfl rfl cfg tl act a s) g

theorem handleSuccessAttemptEnd_k (a x : Nat) :
    ⦃fun w => ⌜snap cfg w = g⌝⦄ handleSuccessAttemptEnd cfg tl a x ⦃kept cfg g⦄ :=
  keep_of_foot_spec cfg (fun w0 => handleSuccessAttemptEnd_foot inertK w0 rfl rfl rfl rfl cfg tl a x) g

theorem handleAbortAttemptEnd_k (a : Nat) (e : Exn) :
    ⦃fun w => ⌜snap cfg w = g⌝⦄ handleAbortAttemptEnd cfg a e ⦃kept cfg g⦄ :=
  keep_of_foot_spec cfg (fun w0 => handleAbortAttemptEnd_foot inertK w0 rfl cfg a e) g

theorem raiseExhaustedCall_k : ⦃fun w => ⌜snap cfg w = g⌝⦄ raiseExhaustedCall cfg ⦃kept cfg g⦄ :=
  keep_of_foot_spec cfg (fun w0 => raiseExhaustedCall_foot inertK w0 rfl rfl cfg) g

theorem buildExhaustedOutcome_k : ⦃fun w => ⌜snap cfg w = g⌝⦄ buildExhaustedOutcome cfg tl ⦃kept cfg g⦄ :=
  keep_of_foot_spec cfg (fun w0 => buildExhaustedOutcome_foot inertK w0 rfl rfl cfg tl) g

theorem deliverCall_k (act : Action) (orig : Option Exn) (fb : ExhaustedFields) :
    ⦃fun w => ⌜snap cfg w = g⌝⦄ deliverCall act orig fb
    ⦃post⟨fun r w => ⌜(r = none ∧ act = .continue_) ∧ Keep g (snap cfg w)⌝, fun _ w => ⌜Keep g (snap cfg w)⌝⟩⦄ :=
  keep_of_foot_spec' cfg (fun w0 => deliverCall_foot inertK w0 act orig fb) g

theorem deliverExecute_k (act : Action) (o : AOutcome) :
    ⦃fun w => ⌜snap cfg w = g⌝⦄ deliverExecute cfg tl act o
    ⦃post⟨fun r w => ⌜(r = none → act = .continue_) ∧ Keep g (snap cfg w)⌝, fun _ w => ⌜Keep g (snap cfg w)⌝⟩⦄ :=
  keep_of_foot_spec' cfg (fun w0 => deliverExecute_foot inertK w0 rfl rfl cfg tl act o) g

theorem budgetConsume_k : ⦃fun w => ⌜snap cfg w = g⌝⦄ budgetConsume cfg ⦃kept cfg g⦄ := by
  have hf : ∀ w0, ⦃fun w => ⌜Foot inertK w0 w⌝⦄ budgetConsume cfg ⦃footPost inertK w0⦄ := by
    intro w0
    mvcgen [budgetConsume]
    all_goals (try assumption)
    all_goals (rename_i h; exact Foot.trans h (Foot.internal _ _ _ _ _ _ rfl))
  exact keep_of_foot_spec cfg hf g

theorem checkAbortCaught_k (a : Nat) :
    ⦃fun w => ⌜snap cfg w = g⌝⦄ checkAbortCaught cfg tl a ⦃kept cfg g⦄ := by
  have hf : ∀ w0, ⦃fun w => ⌜Foot inertK w0 w⌝⦄ checkAbortCaught cfg tl a ⦃footPost inertK w0⦄ := by
    intro w0
    have h := checkAbort_foot inertK w0 rfl rfl rfl cfg tl a
    mvcgen [checkAbortCaught, abortToTrue, h]
    all_goals (try simp only [restore_dummy])
    all_goals (try intros)
    all_goals (try assumption)
  exact keep_of_foot_spec cfg hf g

end leaves

attribute [local spec] emit_k setStop_k checkAbort_k stopWith_k recordStrategySuccess_k
  stratRecordFailure_k callStrategy_k callClassifier_k callAttemptStart_k callAttemptEndFromOutcome_k
  callBeforeSleep_k callSleepHandler_k buildOutcome_k emitAbortedOnce_k abortOutcome_k handleSleepDecision_k
  handleSuccessAttemptEnd_k handleAbortAttemptEnd_k raiseExhaustedCall_k buildExhaustedOutcome_k
  deliverCall_k deliverExecute_k budgetConsume_k checkAbortCaught_k

/-! ### the invariants (each guarded by "the log so far is quiet") -/

/-- the monitor's clock is not ahead of the run's own (`elapsed()`); nothing is wrong yet; with an
    honest sleeper the requested sleep so far is covered by elapsed time and by the deadline -/
structure CoreS (cfg : Cfg) (g : Snap) : Prop where
  clock : g.start + g.mon.now ≤ g.now
  bad : g.mon.bad = false
  slept : g.honest → g.mon.slept ≤ g.mon.now
  total : g.honest → g.mon.slept ≤ cfg.deadline

/-- at the top of the loop: no late failure pending; a further attempt starts within the deadline -/
def TopS (cfg : Cfg) (g : Snap) : Prop :=
  g.quiet → CoreS cfg g ∧ g.mon.late = false ∧ (1 ≤ g.mon.ops → g.mon.now ≤ cfg.deadline)

/-- inside an attempt: a failure seen late really was late -/
def MidS (cfg : Cfg) (g : Snap) : Prop :=
  g.quiet → CoreS cfg g ∧ (g.mon.late = true → cfg.deadline ≤ g.mon.now)

/-- after a retry was granted with backoff `s` -/
def GrantS (cfg : Cfg) (s : Nat) (g : Snap) : Prop :=
  g.quiet → CoreS cfg g ∧ g.mon.late = false ∧ g.mon.now + s ≤ cfg.deadline

/-- after the sleep -/
def SleptS (cfg : Cfg) (g : Snap) : Prop :=
  g.quiet → CoreS cfg g ∧ g.mon.late = false

/-- what the verdict asks -/
def FinS (cfg : Cfg) (g : Snap) : Prop :=
  g.quiet → g.mon.bad = false ∧ (g.honest → g.mon.slept ≤ cfg.deadline)

abbrev TopW (cfg : Cfg) (w : World) : Prop := TopS cfg (snap cfg w)
abbrev MidW (cfg : Cfg) (w : World) : Prop := MidS cfg (snap cfg w)
abbrev GrantW (cfg : Cfg) (s : Nat) (w : World) : Prop := GrantS cfg s (snap cfg w)
abbrev SleptW (cfg : Cfg) (w : World) : Prop := SleptS cfg (snap cfg w)
abbrev FinW (cfg : Cfg) (w : World) : Prop := FinS cfg (snap cfg w)

theorem coreS_iff {cfg : Cfg} {g : Snap} : CoreS cfg g ↔
    g.start + g.mon.now ≤ g.now ∧ g.mon.bad = false ∧
    (g.honest → g.mon.slept ≤ g.mon.now) ∧ (g.honest → g.mon.slept ≤ cfg.deadline) :=
  ⟨fun h => ⟨h.clock, h.bad, h.slept, h.total⟩, fun h => ⟨h.1, h.2.1, h.2.2.1, h.2.2.2⟩⟩

theorem CoreS.keep {cfg : Cfg} {g g' : Snap} (k : Keep g g') (hq : g'.quiet) (h : CoreS cfg g) : CoreS cfg g' := by
  obtain ⟨q, hm, hs, hn⟩ := k.quiet hq
  refine ⟨by rw [hm, hs]; exact Nat.le_trans h.clock hn, hm ▸ h.bad, fun hh => ?_, fun hh => ?_⟩
  · rw [hm]; exact h.slept (k.honest hh)
  · rw [hm]; exact h.total (k.honest hh)

/-! #### stability under inert steps, and the implications between the invariants -/

theorem Keep.top {cfg : Cfg} {g g' : Snap} (k : Keep g g') (h : TopS cfg g) : TopS cfg g' := by
  intro hq
  obtain ⟨q, hm, hs, hn⟩ := k.quiet hq
  obtain ⟨h1, h2, h3⟩ := h q
  exact ⟨h1.keep k hq, hm ▸ h2, hm ▸ h3⟩

theorem Keep.mid {cfg : Cfg} {g g' : Snap} (k : Keep g g') (h : MidS cfg g) : MidS cfg g' := by
  intro hq
  obtain ⟨q, hm, hs, hn⟩ := k.quiet hq
  obtain ⟨h1, h2⟩ := h q
  exact ⟨h1.keep k hq, hm ▸ h2⟩

theorem Keep.grant {cfg : Cfg} {s : Nat} {g g' : Snap} (k : Keep g g') (h : GrantS cfg s g) :
    GrantS cfg s g' := by
  intro hq
  obtain ⟨q, hm, hs, hn⟩ := k.quiet hq
  obtain ⟨h1, h2, h3⟩ := h q
  exact ⟨h1.keep k hq, hm ▸ h2, hm ▸ h3⟩

theorem Keep.slept {cfg : Cfg} {g g' : Snap} (k : Keep g g') (h : SleptS cfg g) : SleptS cfg g' := by
  intro hq
  obtain ⟨q, hm, hs, hn⟩ := k.quiet hq
  obtain ⟨h1, h2⟩ := h q
  exact ⟨h1.keep k hq, hm ▸ h2⟩

theorem Keep.fin {cfg : Cfg} {g g' : Snap} (k : Keep g g') (h : FinS cfg g) : FinS cfg g' := by
  intro hq
  obtain ⟨q, hm, hs, hn⟩ := k.quiet hq
  obtain ⟨h1, h2⟩ := h q
  exact ⟨hm ▸ h1, fun hh => hm ▸ h2 (k.honest hh)⟩

theorem TopS.mid {cfg : Cfg} {g : Snap} (h : TopS cfg g) : MidS cfg g :=
  fun hq => ⟨(h hq).1, fun hl => by simp [(h hq).2.1] at hl⟩

theorem GrantS.mid {cfg : Cfg} {s : Nat} {g : Snap} (h : GrantS cfg s g) : MidS cfg g :=
  fun hq => ⟨(h hq).1, fun hl => by simp [(h hq).2.1] at hl⟩

theorem SleptS.mid {cfg : Cfg} {g : Snap} (h : SleptS cfg g) : MidS cfg g :=
  fun hq => ⟨(h hq).1, fun hl => by simp [(h hq).2] at hl⟩

theorem MidS.fin {cfg : Cfg} {g : Snap} (h : MidS cfg g) : FinS cfg g :=
  fun hq => ⟨(h hq).1.bad, (h hq).1.total⟩

theorem TopS.fin {cfg : Cfg} {g : Snap} (h : TopS cfg g) : FinS cfg g := h.mid.fin
theorem GrantS.fin {cfg : Cfg} {s : Nat} {g : Snap} (h : GrantS cfg s g) : FinS cfg g := h.mid.fin
theorem SleptS.fin {cfg : Cfg} {g : Snap} (h : SleptS cfg g) : FinS cfg g := h.mid.fin

/-! #### the three places where the deadline is consulted -/

/-- `remaining = deadline − elapsed` with `elapsed < deadline`: a backoff of up to `remaining` fits,
    and the failure being handled was not late -/
theorem MidS.grant {cfg : Cfg} {q hh : Prop} {m : St} {st n : Nat} (h : MidS cfg ⟨q, hh, m, st, n⟩)
    (hd : ¬ cfg.deadline ≤ n - st) : GrantS cfg (cfg.deadline - (n - st)) ⟨q, hh, m, st, n⟩ := by
  intro hq
  obtain ⟨h1, h2⟩ := h hq
  have hc : st + m.now ≤ n := h1.clock
  refine ⟨h1, ?_, by show m.now + _ ≤ _; omega⟩
  show m.late = false
  cases hl : m.late with
  | false => rfl
  | true => have : cfg.deadline ≤ m.now := h2 hl; omega

/-- `min(sleep, remaining)` -/
theorem GrantS.le {cfg : Cfg} {s s' : Nat} {g : Snap} (h : GrantS cfg s g) (hs : s' ≤ s) : GrantS cfg s' g := by
  intro hq
  obtain ⟨h1, h2, h3⟩ := h hq
  exact ⟨h1, h2, by omega⟩

/-- the post-sleep check `elapsed ≤ deadline` lets the next attempt start within the deadline -/
theorem SleptS.top {cfg : Cfg} {q hh : Prop} {m : St} {st n : Nat} (h : SleptS cfg ⟨q, hh, m, st, n⟩)
    (hd : ¬ n - st > cfg.deadline) : TopS cfg ⟨q, hh, m, st, n⟩ := by
  intro hq
  obtain ⟨h1, h2⟩ := h hq
  have hc : st + m.now ≤ n := h1.clock
  exact ⟨h1, h2, fun _ => by show m.now ≤ _; omega⟩

@[simp] theorem quietTr_cons (x : Req × Ans) (t : List (Req × Ans)) :
    QuietTr (x :: t) ↔ (isOp x.1 = true ∨ isSleeper x.1 = true ∨ x.2.dur = 0) ∧ QuietTr t := by
  simp [QuietTr]

@[simp] theorem honestTr_cons (x : Req × Ans) (t : List (Req × Ans)) :
    HonestTr (x :: t) ↔ HonestX x ∧ HonestTr t := by
  simp [HonestTr]

/-! ### the three requests that move the monitor -/

theorem invokeOp_spec (cfg : Cfg) (a : Nat) :
    ⦃fun w => ⌜TopW cfg w⌝⦄ invokeOp a
    ⦃post⟨fun _ w => ⌜MidW cfg w⌝, fun _ w => ⌜MidW cfg w⌝⟩⦄ := by
  mvcgen [invokeOp, ask]
  all_goals ((try subst_vars) <;> (try intros) <;> (try simp only [TopS, MidS, coreS_iff, snap] at *))
  all_goals simp_all +zetaDelta [step, isOp, isSleeper, HonestX, Ans.dur]
  all_goals grind

theorem shouldClassifyResult_spec (cfg : Cfg) (x : Nat) :
    ⦃fun w => ⌜MidW cfg w⌝⦄ shouldClassifyResult cfg x
    ⦃post⟨fun _ w => ⌜MidW cfg w⌝, fun _ w => ⌜MidW cfg w⌝⟩⦄ := by
  mvcgen [shouldClassifyResult, ask]
  all_goals ((try subst_vars) <;> (try intros) <;> (try simp only [TopS, MidS, coreS_iff, snap] at *))
  all_goals simp_all +zetaDelta [step, isOp, isSleeper, HonestX, Ans.dur]
  all_goals grind

theorem callSleeper_spec (cfg : Cfg) (s : Nat) :
    ⦃fun w => ⌜GrantW cfg s w⌝⦄ callSleeper cfg s
    ⦃post⟨fun _ w => ⌜SleptW cfg w⌝, fun _ w => ⌜FinW cfg w⌝⟩⦄ := by
  mvcgen [callSleeper, ask]
  all_goals ((try subst_vars) <;> (try intros) <;> (try simp only [GrantS, SleptS, FinS, coreS_iff, snap] at *))
  all_goals simp_all +zetaDelta [step, isOp, isSleeper, HonestX, Ans.dur]
  all_goals grind

attribute [local spec] invokeOp_spec shouldClassifyResult_spec callSleeper_spec

theorem sanitize_le (out : SOut) (rem : Nat) : sanitize out rem ≤ rem := by
  unfold sanitize
  split
  · split
    · exact Nat.zero_le _
    · exact Nat.min_le_right _ _
  · exact Nat.zero_le _

/-- unfold snapshots to tuples (so that worlds that differ in irrelevant fields coincide), keep the
    invariants opaque, and chain the stability lemmas -/
macro "c02" : tactic => `(tactic| all_goals (
  (try subst_vars) <;> (try intros) <;>
  (try simp +zetaDelta only [TopW, MidW, GrantW, SleptW, FinW, snap] at *) <;>
  first
    | (simp_all +zetaDelta; done)
    | grind [Keep.top, Keep.mid, Keep.grant, Keep.slept, Keep.fin, TopS.mid, GrantS.mid, SleptS.mid, MidS.fin,
        TopS.fin, GrantS.fin, SleptS.fin, MidS.grant, GrantS.le, SleptS.top, sanitize_le]
    | skip))

/-- what a failure decision promises: a granted retry comes with a backoff that fits -/
abbrev decPost (cfg : Cfg) : PostCond Decision (.except Exn (.arg World .pure)) :=
  post⟨fun d w => ⌜MidW cfg w ∧ ∀ s ctx, d = .retry s ctx → GrantW cfg s w⌝, fun _ w => ⌜MidW cfg w⌝⟩

theorem grantRetry_spec (cfg : Cfg) (tl : Bool) (c : Classification) (a : Nat) (cause : Cause)
    (e : Option Exn) (key : SKey) (kind : SKind) (rem : Nat) :
    ⦃fun w => ⌜GrantW cfg rem w⌝⦄ grantRetry cfg tl c a cause e key kind rem ⦃decPost cfg⦄ := by
  mvcgen [grantRetry, getRS, modifyRS]
  c02

attribute [local spec] grantRetry_spec

theorem handleFailure2_spec (cfg : Cfg) (tl : Bool) (c : Classification) (a : Nat) (cause : Cause)
    (e : Option Exn) :
    ⦃fun w => ⌜MidW cfg w⌝⦄ handleFailure2 cfg tl c a cause e ⦃decPost cfg⦄ := by
  mvcgen [handleFailure2, elapsed, modifyRS]
  c02

attribute [local spec] handleFailure2_spec

theorem handleUnknown_spec (cfg : Cfg) (tl : Bool) (c : Classification) (a : Nat) (cause : Cause)
    (e : Option Exn) :
    ⦃fun w => ⌜MidW cfg w⌝⦄ handleUnknown cfg tl c a cause e ⦃decPost cfg⦄ := by
  mvcgen [handleUnknown, getRS, modifyRS]
  c02

attribute [local spec] handleUnknown_spec

theorem handleFailure1_spec (cfg : Cfg) (tl : Bool) (c : Classification) (a : Nat) (cause : Cause)
    (e : Option Exn) :
    ⦃fun w => ⌜MidW cfg w⌝⦄ handleFailure1 cfg tl c a cause e ⦃decPost cfg⦄ := by
  mvcgen [handleFailure1, getRS]
  c02

attribute [local spec] handleFailure1_spec

theorem handleFailure_spec (cfg : Cfg) (tl : Bool) (c : Classification) (a : Nat) (cause : Cause)
    (e : Option Exn) (r : Option Nat) :
    ⦃fun w => ⌜MidW cfg w⌝⦄ handleFailure cfg tl c a cause e r ⦃decPost cfg⦄ := by
  mvcgen [handleFailure, Retry.recordFailure, modifyRS]
  c02

attribute [local spec] handleFailure_spec

theorem handleException_spec (cfg : Cfg) (tl : Bool) (e : Exn) (a : Nat) :
    ⦃fun w => ⌜MidW cfg w⌝⦄ handleException cfg tl e a ⦃decPost cfg⦄ := by
  mvcgen [handleException]
  c02

attribute [local spec] handleException_spec


attribute [local spec] invokeOp_spec shouldClassifyResult_spec callSleeper_spec grantRetry_spec
  handleFailure2_spec handleUnknown_spec handleFailure1_spec handleFailure_spec handleException_spec

/-! ### sleeping, and the check after the sleep -/

theorem sd_cases (r : SleepDecision) : r = .sleep ∨ r = .defer ∨ r = .abort ∨ r = .other := by
  cases r <;> simp

macro "c02s" : tactic => `(tactic| all_goals (
  (try subst_vars) <;> (try intros) <;>
  (try simp +zetaDelta only [TopW, MidW, GrantW, SleptW, FinW, snap] at *) <;>
  first
    | (simp_all +zetaDelta; done)
    | grind [Keep.top, Keep.mid, Keep.grant, Keep.slept, Keep.fin, TopS.mid, GrantS.mid, SleptS.mid, MidS.fin,
        TopS.fin, GrantS.fin, SleptS.fin, MidS.grant, GrantS.le, SleptS.top, sanitize_le, cases SleepDecision]
    | skip))


theorem sleepAction_spec (cfg : Cfg) (tl : Bool) (a s : Nat) (ctx : BackoffCtx) :
    ⦃fun w => ⌜GrantW cfg s w⌝⦄ sleepAction cfg tl a s ctx
    ⦃post⟨fun r w => ⌜MidW cfg w ∧ (r ≠ .defer → r ≠ .abort → SleptW cfg w)⌝, fun _ w => ⌜FinW cfg w⌝⟩⦄ := by
  mvcgen [sleepAction]
  c02s

/-- what an attempt's failure handling leaves: the loop goes on only from a good loop-top state -/
abbrev outPostA (cfg : Cfg) : PostCond AOutcome (.except Exn (.arg World .pure)) :=
  post⟨fun o w => ⌜MidW cfg w ∧ (o.decision = .retry → TopW cfg w)⌝, fun _ w => ⌜FinW cfg w⌝⟩

theorem finalizeAttempt_spec (cfg : Cfg) (tl : Bool) (a : Nat) (d : Decision) (act : Option SleepDecision)
    (cls : Option Classification) (e : Option Exn) (r : Option Nat) (c : Option Cause) :
    ⦃fun w => ⌜MidW cfg w ∧ (d ≠ .raise → act ≠ some .defer → act ≠ some .abort → SleptW cfg w)⌝⦄
    finalizeAttempt cfg tl a d act cls e r c ⦃outPostA cfg⦄ := by
  mvcgen [finalizeAttempt, getRS, elapsed]
  c02

attribute [local spec] sleepAction_spec finalizeAttempt_spec

theorem failureOutcome_spec (cfg : Cfg) (tl : Bool) (a : Nat) (d : Decision)
    (cls : Option Classification) (e : Option Exn) (r : Option Nat) (c : Option Cause) :
    ⦃fun w => ⌜MidW cfg w ∧ ∀ s ctx, d = .retry s ctx → GrantW cfg s w⌝⦄
    failureOutcome cfg tl a d cls e r c ⦃outPostA cfg⦄ := by
  mvcgen [failureOutcome]
  c02

attribute [local spec] failureOutcome_spec

theorem determineAction_continue_iff (o : AOutcome) (r : RState) (a : Nat) (fr : Bool) :
    determineAction o r a fr = .continue_ ↔ o.decision = .retry := by
  unfold determineAction
  cases o.decision <;> cases fr <;> simp

@[simp] theorem isRaise_iff (d : Decision) : d.isRaise = true ↔ d = .raise := by
  cases d <;> simp [Decision.isRaise]

/-! ### the retry loop, `call` flavour -/

/-- one attempt: the verdict holds; and if the loop goes on, it does so from a good loop-top state -/
abbrev attemptPost (cfg : Cfg) : PostCond (Option α) (.except Exn (.arg World .pure)) :=
  post⟨fun r w => ⌜FinW cfg w ∧ (r = none → TopW cfg w)⌝, fun _ w => ⌜FinW cfg w⌝⟩

macro "c02a" : tactic => `(tactic| all_goals (
  (try subst_vars) <;> (try intros) <;>
  (try simp +zetaDelta only [TopW, MidW, GrantW, SleptW, FinW, snap, determineAction_continue_iff] at *) <;>
  first
    | (simp_all +zetaDelta; done)
    | grind [Keep.top, Keep.mid, Keep.grant, Keep.slept, Keep.fin, TopS.mid, GrantS.mid, SleptS.mid, MidS.fin,
        TopS.fin, GrantS.fin, SleptS.fin, MidS.grant, GrantS.le, SleptS.top, sanitize_le, cases SleepDecision]
    | skip))

theorem callExceptionPath_spec (cfg : Cfg) (a : Nat) (e : Exn) :
    ⦃fun w => ⌜MidW cfg w⌝⦄ callExceptionPath cfg a e ⦃attemptPost cfg⦄ := by
  mvcgen [callExceptionPath, getRS, modifyAS]
  c02a

attribute [local spec] callExceptionPath_spec

theorem callOpHandler_spec (cfg : Cfg) (a : Nat) (e : Exn) :
    ⦃fun w => ⌜MidW cfg w⌝⦄ callOpHandler cfg a e ⦃attemptPost cfg⦄ := by
  mvcgen [callOpHandler]
  c02a

theorem callResultFailure_spec (cfg : Cfg) (a x : Nat) (c : Classification) :
    ⦃fun w => ⌜MidW cfg w⌝⦄ callResultFailure cfg a x c ⦃attemptPost cfg⦄ := by
  mvcgen [callResultFailure, getRS, modifyAS]
  c02a

attribute [local spec] callOpHandler_spec callResultFailure_spec

theorem callResultPath_spec (cfg : Cfg) (a x : Nat) :
    ⦃fun w => ⌜MidW cfg w⌝⦄ callResultPath cfg a x ⦃attemptPost cfg⦄ := by
  mvcgen [callResultPath]
  c02a

attribute [local spec] callResultPath_spec

/-- one iteration of the loop of `call` -/
theorem callAttempt_spec (cfg : Cfg) (a : Nat) :
    ⦃fun w => ⌜TopW cfg w⌝⦄ callAttempt cfg a ⦃attemptPost cfg⦄ := by
  mvcgen [callAttempt, modifyAS]
  c02a

abbrev finPost (cfg : Cfg) : PostCond α (.except Exn (.arg World .pure)) :=
  post⟨fun _ w => ⌜FinW cfg w⌝, fun _ w => ⌜FinW cfg w⌝⟩

theorem callLoop_spec (cfg : Cfg) : ∀ (fuel a : Nat),
    ⦃fun w => ⌜TopW cfg w⌝⦄ callLoop cfg fuel a ⦃finPost cfg⦄ := by
  intro fuel
  induction fuel with
  | zero =>
    intro a
    mvcgen [callLoop]
    c02a
  | succ f ih =>
    intro a
    mvcgen [callLoop, callAttempt_spec, ih]
    c02a

/-- at the start of a call: if the log so far (the breaker's admission) is quiet, the monitor is
    still in its initial state -/
def StartW (cfg : Cfg) (w : World) : Prop := QuietTr w.trace → cur cfg w.trace = {}

theorem top_of_start {cfg : Cfg} {q hh : Prop} {m : St} {n : Nat} (h : q → m = {}) :
    TopS cfg ⟨q, hh, m, n, n⟩ := by
  intro hq
  have hm : m = {} := h hq
  subst hm
  exact ⟨⟨Nat.le_refl _, rfl, fun _ => Nat.le_refl _, fun _ => Nat.zero_le _⟩, rfl, fun h => by cases h⟩

theorem runCall_spec (cfg : Cfg) :
    ⦃fun w => ⌜StartW cfg w⌝⦄ runCall cfg ⦃finPost cfg⦄ := by
  have hl := callLoop_spec cfg cfg.maxAttempts 1
  mvcgen [runCall, initState, hl]
  c02a
  all_goals (rename_i h _; exact top_of_start h)


attribute [local spec] sleepAction_spec finalizeAttempt_spec failureOutcome_spec

/-! ### the retry loop, `execute` flavour -/

macro "c02x" : tactic => `(tactic| all_goals (
  (try subst_vars) <;> (try intros) <;>
  (try simp +zetaDelta only [TopW, MidW, GrantW, SleptW, FinW, snap, determineAction_continue_iff,
    restore_dummy] at *) <;>
  first
    | (simp_all +zetaDelta; done)
    | grind [Keep.top, Keep.mid, Keep.grant, Keep.slept, Keep.fin, TopS.mid, GrantS.mid, SleptS.mid, MidS.fin,
        TopS.fin, GrantS.fin, SleptS.fin, MidS.grant, GrantS.le, SleptS.top, sanitize_le, cases SleepDecision]
    | skip))

theorem execResultFailure_spec (cfg : Cfg) (tl : Bool) (a x : Nat) (c : Classification) :
    ⦃fun w => ⌜MidW cfg w⌝⦄ execResultFailure cfg tl a x c ⦃attemptPost cfg⦄ := by
  mvcgen [execResultFailure, getRS, modifyAS]
  c02x

attribute [local spec] execResultFailure_spec

theorem execResultPath_spec (cfg : Cfg) (tl : Bool) (a x : Nat) :
    ⦃fun w => ⌜MidW cfg w⌝⦄ execResultPath cfg tl a x ⦃attemptPost cfg⦄ := by
  mvcgen [execResultPath]
  c02x

theorem execPre_spec (cfg : Cfg) (tl : Bool) (a : Nat) :
    ⦃fun w => ⌜TopW cfg w⌝⦄ execPre cfg tl a
    ⦃post⟨fun _ w => ⌜MidW cfg w⌝, fun _ w => ⌜MidW cfg w⌝⟩⦄ := by
  mvcgen [execPre, modifyAS]
  c02x

theorem execAbortExit_spec (cfg : Cfg) (tl : Bool) (a : Nat) (e : Exn) :
    ⦃fun w => ⌜FinW cfg w⌝⦄ execAbortExit cfg tl a e
    ⦃post⟨fun r w => ⌜r ≠ none ∧ FinW cfg w⌝, fun _ w => ⌜FinW cfg w⌝⟩⦄ := by
  mvcgen [execAbortExit]
  c02x

attribute [local spec] execAbortExit_spec checkAbortCaught_k

theorem execExceptionPath3_spec (cfg : Cfg) (tl : Bool) (a : Nat) (e : Exn) (d : Decision) :
    ⦃fun w => ⌜MidW cfg w ∧ ∀ s ctx, d = .retry s ctx → GrantW cfg s w⌝⦄
    execExceptionPath3 cfg tl a e d ⦃attemptPost cfg⦄ := by
  mvcgen [execExceptionPath3, getRS, modifyAS]
  c02x

attribute [local spec] execExceptionPath3_spec

theorem execExceptionPath2_spec (cfg : Cfg) (tl : Bool) (a : Nat) (e : Exn) :
    ⦃fun w => ⌜MidW cfg w⌝⦄ execExceptionPath2 cfg tl a e ⦃attemptPost cfg⦄ := by
  mvcgen [execExceptionPath2, getRS, modifyAS]
  c02x

attribute [local spec] execExceptionPath2_spec

theorem execExceptionPath_spec (cfg : Cfg) (tl : Bool) (a : Nat) (e : Exn) :
    ⦃fun w => ⌜MidW cfg w⌝⦄ execExceptionPath cfg tl a e ⦃attemptPost cfg⦄ := by
  mvcgen [execExceptionPath, modifyAS]
  c02x

attribute [local spec] execExceptionPath_spec

theorem execHandler_spec (cfg : Cfg) (tl : Bool) (a : Nat) (e : Exn) :
    ⦃fun w => ⌜MidW cfg w⌝⦄ execHandler cfg tl a e ⦃attemptPost cfg⦄ := by
  mvcgen [execHandler]
  c02x

theorem execReturnedHandler_spec (cfg : Cfg) (tl : Bool) (a : Nat) (e : Exn) :
    ⦃fun w => ⌜FinW cfg w⌝⦄ execReturnedHandler cfg tl a e ⦃attemptPost cfg⦄ := by
  mvcgen [execReturnedHandler]
  c02x

theorem execAttempt_spec (cfg : Cfg) (tl : Bool) (a : Nat) :
    ⦃fun w => ⌜TopW cfg w⌝⦄ execAttempt cfg tl a ⦃attemptPost cfg⦄ := by
  mvcgen [execAttempt, execPre_spec, execHandler_spec, execResultPath_spec, execReturnedHandler_spec]
  c02x

theorem execLoop_spec (cfg : Cfg) (tl : Bool) : ∀ (fuel a : Nat),
    ⦃fun w => ⌜TopW cfg w⌝⦄ execLoop cfg tl fuel a ⦃finPost cfg⦄ := by
  intro fuel
  induction fuel with
  | zero =>
    intro a
    mvcgen [execLoop]
    c02x
  | succ f ih =>
    intro a
    mvcgen [execLoop, execAttempt_spec, ih]
    c02x

theorem runExecute_spec (cfg : Cfg) :
    ⦃fun w => ⌜StartW cfg w⌝⦄ runExecute cfg ⦃finPost cfg⦄ := by
  have hl := execLoop_spec cfg cfg.timeline cfg.maxAttempts 1
  mvcgen [runExecute, initState, hl]
  c02x
  all_goals (rename_i h _ _; exact top_of_start h)


/-! ### policy level: nothing outside the retry loop invokes the operation or sleeps -/
open Policy

/-- every request kind but `op` and `sleeper` -/
def polK : Kind → Bool
  | .op | .sleeper => false
  | _ => true

theorem step_pol (cfg : Cfg) (s : St) (x : Req × Ans) (h : polK x.1.kind = true) :
    (step cfg s x).bad = s.bad ∧ (step cfg s x).slept = s.slept := by
  obtain ⟨r, a⟩ := x
  cases r <;> simp_all [polK, Req.kind, step]

theorem cur_append_pol (cfg : Cfg) (δ t : List (Req × Ans)) (h : ∀ x ∈ δ, polK x.1.kind = true) :
    (cur cfg (δ ++ t)).bad = (cur cfg t).bad ∧ (cur cfg (δ ++ t)).slept = (cur cfg t).slept := by
  induction δ with
  | nil => simp
  | cons x δ ih =>
    have hx := step_pol cfg (cur cfg (δ ++ t)) x (h x (by simp))
    have := ih (fun y hy => h y (by simp [hy]))
    simp only [List.cons_append, cur_cons]
    exact ⟨hx.1.trans this.1, hx.2.trans this.2⟩

/-- the verdict survives anything that neither invokes the operation nor sleeps -/
theorem fin_foot (cfg : Cfg) (w w' : World) (h : Foot polK w w') (hf : FinW cfg w) : FinW cfg w' := by
  obtain ⟨δ, e, k⟩ := h.trace
  have hp := cur_append_pol cfg δ w.trace k
  intro hq
  have hq' : QuietTr w.trace := fun x hx => hq x (by simp [snap, e, hx])
  obtain ⟨h1, h2⟩ := hf hq'
  simp only [snap, e] at h1 h2 ⊢
  refine ⟨hp.1.trans h1, fun hh => ?_⟩
  rw [hp.2]
  exact h2 (fun x hx => hh x (by simp [hx]))

theorem inert_sub_pol : ∀ k, inertK k = true → polK k = true := by
  intro k; cases k <;> simp [inertK, polK]

theorem start_foot (cfg : Cfg) (w w' : World) (h : Foot inertK w w') (hs : StartW cfg w) : StartW cfg w' := by
  have k := keep_of_foot cfg w w' h
  intro hq
  obtain ⟨q, hm, _, _⟩ := k.quiet hq
  have : cur cfg w'.trace = cur cfg w.trace := hm
  rw [this]
  exact hs q

theorem StartW.fin {cfg : Cfg} {w : World} (h : StartW cfg w) : FinW cfg w := by
  intro hq
  have : cur cfg w.trace = {} := h hq
  simp [snap, this]

section policyLeaves
variable (cfg : Cfg)
variable (I : World → Prop) (hI : ∀ w w', Foot polK w w' → I w → I w')
include hI

theorem recordSuccess_i : ⦃fun w => ⌜I w⌝⦄ Policy.recordSuccess cfg
    ⦃post⟨fun _ w => ⌜I w⌝, fun _ w => ⌜I w⌝⟩⦄ :=
  inv_of_foot I (fun w0 => recordSuccess_foot polK w0 rfl rfl rfl cfg) hI

theorem recordCancel_i : ⦃fun w => ⌜I w⌝⦄ Policy.recordCancel cfg
    ⦃post⟨fun _ w => ⌜I w⌝, fun _ w => ⌜I w⌝⟩⦄ :=
  inv_of_foot I (fun w0 => recordCancel_foot polK w0 rfl cfg) hI

theorem recordFailure_i (k : EClass) : ⦃fun w => ⌜I w⌝⦄ Policy.recordFailure cfg k
    ⦃post⟨fun _ w => ⌜I w⌝, fun _ w => ⌜I w⌝⟩⦄ :=
  inv_of_foot I (fun w0 => recordFailure_foot polK w0 rfl rfl rfl cfg k) hI

theorem ensureSettled_i : ⦃fun w => ⌜I w⌝⦄ ensureSettled cfg
    ⦃post⟨fun _ w => ⌜I w⌝, fun _ w => ⌜I w⌝⟩⦄ :=
  inv_of_foot I (fun w0 => ensureSettled_foot polK w0 rfl cfg) hI

theorem handleAbortCall_i (e : Exn) : ⦃fun w => ⌜I w⌝⦄ handleAbortCall cfg e
    ⦃post⟨fun _ w => ⌜I w⌝, fun _ w => ⌜I w⌝⟩⦄ :=
  inv_of_foot I (fun w0 => handleAbortCall_foot polK w0 rfl rfl cfg e) hI

theorem handleExhaustedCall_i (e : Exn) : ⦃fun w => ⌜I w⌝⦄ handleExhaustedCall cfg e
    ⦃post⟨fun _ w => ⌜I w⌝, fun _ w => ⌜I w⌝⟩⦄ :=
  inv_of_foot I (fun w0 => handleExhaustedCall_foot polK w0 rfl rfl rfl cfg e) hI

theorem handleExceptionCall_i (e : Exn) (b : Bool) : ⦃fun w => ⌜I w⌝⦄ handleExceptionCall cfg e b
    ⦃post⟨fun _ w => ⌜I w⌝, fun _ w => ⌜I w⌝⟩⦄ :=
  inv_of_foot I (fun w0 => handleExceptionCall_foot polK w0 rfl rfl rfl rfl rfl cfg e b) hI

theorem policyOutcome_i (ok : Bool) (value : Option Nat) (stop : Option StopReason) (attempts : Nat)
    (lc : Option EClass) (le : Option String) (cause : Option Cause) :
    ⦃fun w => ⌜I w⌝⦄ policyOutcome ok value stop attempts lc le cause
    ⦃post⟨fun _ w => ⌜I w⌝, fun _ w => ⌜I w⌝⟩⦄ :=
  inv_of_foot I (fun w0 => policyOutcome_foot polK w0 ok value stop attempts lc le cause) hI

end policyLeaves

/-- `Policy.call` with a retry component (also `RetryPolicy.call`, `@retry`, contexts, async twins) -/
theorem call_retry_spec (cfg : Cfg) (hret : cfg.hasRetry = true) :
    ⦃fun w => ⌜StartW cfg w⌝⦄ Policy.call cfg ⦃finPost cfg⦄ := by
  have hs := fin_foot cfg
  have h1 := recordSuccess_i cfg _ hs
  have h2 := recordCancel_i cfg _ hs
  have h3 := ensureSettled_i cfg _ hs
  have h4 := handleAbortCall_i cfg _ hs
  have h5 := handleExhaustedCall_i cfg _ hs
  have h6 := handleExceptionCall_i cfg _ hs
  have hrun := runCall_spec cfg
  have hic := inv_of_foot (StartW cfg) (fun w0 => initCtx_foot inertK w0) (start_foot cfg)
  have hcb := inv_of_foot (StartW cfg) (fun w0 => checkBreaker_foot inertK w0 rfl rfl rfl cfg) (start_foot cfg)
  mvcgen [Policy.call, withFinally, callAdmitted, callLadder, hic, hcb, hrun, h1, h2, h3, h4, h5, h6]
  all_goals (try intros)
  all_goals (try simp only [restore_dummy])
  all_goals (first | assumption | exact StartW.fin (by assumption) | skip)

/-- `Policy.execute` with a retry component -/
theorem execute_retry_spec (cfg : Cfg) (hret : cfg.hasRetry = true) :
    ⦃fun w => ⌜StartW cfg w⌝⦄ Policy.execute cfg ⦃finPost cfg⦄ := by
  have hs := fin_foot cfg
  have h1 := recordSuccess_i cfg _ hs
  have h2 := recordCancel_i cfg _ hs
  have h3 := ensureSettled_i cfg _ hs
  have h5 := handleExhaustedCall_i cfg _ hs
  have h6 := handleExceptionCall_i cfg _ hs
  have h7 := recordFailure_i cfg _ hs
  have hrun := runExecute_spec cfg
  have hic := inv_of_foot (StartW cfg) (fun w0 => initCtx_foot inertK w0) (start_foot cfg)
  have hba := fun bc => inv_of_foot (StartW cfg) (fun w0 => breakerAllow_foot inertK w0 rfl bc) (start_foot cfg)
  have hev := fun ev st k => inv_of_foot (StartW cfg)
    (fun w0 => emitBreakerEvent_foot inertK w0 rfl rfl cfg ev st k) (start_foot cfg)
  have hpo := fun a b c d e f g => inv_of_foot (StartW cfg)
    (fun w0 => policyOutcome_foot inertK w0 a b c d e f g) (start_foot cfg)
  mvcgen [Policy.execute, withFinally, executeAdmitted, executeAdmitted2, executeWithRetry, executeLadder,
    hic, hba, hev, hpo, hrun, h1, h2, h3, h5, h6, h7]
  all_goals (try intros)
  all_goals (try simp only [restore_dummy])
  all_goals (first | assumption | exact StartW.fin (by assumption) | (simp_all; done) | skip)

/-! ### the theorems -/

theorem run_retryTrace (cfg : Cfg) (t : Trace) (hq : quiet t = true) : run cfg (retryTrace t) = run cfg t := by
  unfold retryTrace run
  induction t with
  | nil => rfl
  | cons x t ih =>
    have hqt : quiet t = true := by simp_all [quiet]
    simp only [List.dropWhile_cons]
    split
    · rename_i hp
      have hd : x.2.dur = 0 := by
        obtain ⟨r, a⟩ := x
        cases r <;> simp_all [quiet, isPrelude, isOp, isSleeper]
      have hs : step cfg {} x = {} := by
        obtain ⟨r, a⟩ := x
        cases r <;> simp_all [isPrelude, step]
      rw [List.foldl_cons, hs]
      exact ih hqt
    · rfl

theorem verdict_of_fin {cfg : Cfg} {e : Entry} {w : World} {r : Res} (h : FinW cfg w) :
    Mon.C02.ok cfg e w.trace.reverse r = true := by
  unfold Mon.C02.ok
  split
  · rename_i hc
    have hq : quiet w.trace.reverse = true := by simp_all
    have hq' : QuietTr w.trace := by simpa using (quiet_iff _).mp hq
    obtain ⟨h1, h2⟩ := h hq'
    simp only [snap] at h1 h2
    rw [run_retryTrace cfg _ hq, run_reverse]
    simp only [h1, Bool.not_false, Bool.true_and, Bool.or_eq_true, Bool.not_eq_true', decide_eq_true_eq]
    cases hh : honestSleeper w.trace.reverse with
    | false => exact Or.inl rfl
    | true => exact Or.inr (h2 (by simpa using (honest_iff _).mp hh))
  · rfl

/-- the world `runEntry` starts a call from -/
def startWorld (w : World) : World := { w with trace := [], timeline := [], opCalls := 0 }

theorem start_start (cfg : Cfg) (w : World) : StartW cfg (startWorld w) := fun _ => rfl

/--
**C02.**  For every configuration, every entry point (`Retry`/`Policy` × `call`/`execute`; the async
twins, `RetryPolicy`, contexts and `@retry` are these by argument forwarding) and every world — every
answer stream (all attempt durations, all sleeper over- and undershoots, all strategy outputs, any
callback raising anything), every clock value, every state of a shared budget or breaker — the run
satisfies the deadline monitor.  Measured on the monotonic clock from the start of the call, whenever
time passes only in attempts and sleeps (`quiet`):

* the operation is never invoked again once more than `deadline` has elapsed;
* every backoff sleep requested fits the time then remaining (`elapsed + d ≤ deadline`);
* after a failure observed at `elapsed ≥ deadline` the operation is not invoked and no sleep is requested;
* if moreover every sleep lasts at least as long as requested (`honestSleeper`), the total sleep
  requested is at most `deadline`.

(Entry points without a retry loop have no deadline; the wall clock is no input of the model.)
-/
theorem deadline_envelope (cfg : Cfg) (e : Entry) (w : World) :
    Mon.C02.ok cfg e (runEntry cfg e w).2.trace.reverse (runEntry cfg e w).1 = true := by
  cases e with
  | call =>
    have := adequacy (runCall_spec cfg) (startWorld w) (start_start cfg w)
    simp only [runEntry, startWorld] at this ⊢
    split at this <;> rename_i heq <;> simp only [heq, toRes] <;> exact verdict_of_fin this
  | execute =>
    have := adequacy (runExecute_spec cfg) (startWorld w) (start_start cfg w)
    simp only [runEntry, startWorld] at this ⊢
    split at this <;> rename_i heq <;> simp only [heq, toResO] <;> exact verdict_of_fin this
  | pcall =>
    cases hret : cfg.hasRetry with
    | false => simp [Mon.C02.ok, hasLoop, hret, Entry.isPolicy]
    | true =>
      have := adequacy (call_retry_spec cfg hret) (startWorld w) (start_start cfg w)
      simp only [runEntry, startWorld] at this ⊢
      split at this <;> rename_i heq <;> simp only [heq, toRes] <;> exact verdict_of_fin this
  | pexecute =>
    cases hret : cfg.hasRetry with
    | false => simp [Mon.C02.ok, hasLoop, hret, Entry.isPolicy]
    | true =>
      have := adequacy (execute_retry_spec cfg hret) (startWorld w) (start_start cfg w)
      simp only [runEntry, startWorld] at this ⊢
      split at this <;> rename_i heq <;> simp only [heq, toResO] <;> exact verdict_of_fin this


/-- …and therefore of every call in every script of calls and clock advances on ONE policy object. -/
theorem deadline_envelope_script (cfg : Cfg) : ∀ (steps : List Step) (w : World),
    ∀ l ∈ (runScript cfg steps w).1, Mon.C02.ok cfg l.entry l.trace l.res = true := by
  intro steps
  induction steps with
  | nil => intro w l hl; simp [runScript] at hl
  | cons st rest ih =>
    intro w l hl
    cases st with
    | advance d => exact ih _ l (by simpa [runScript] using hl)
    | run e =>
      simp only [runScript, List.mem_cons] at hl
      rcases hl with rfl | hl
      · exact deadline_envelope cfg e w
      · exact ih _ l hl

/-! ### the conjuncts, read off the accepted log -/

/-- time elapsed over a log: the durations of its answers -/
def total (t : Trace) : Nat := (t.map (·.2.dur)).sum

/-- the backoff a request asks for -/
def sleepOf : Req → Nat
  | .sleeper _ d => d
  | _ => 0

/-- total requested sleep -/
def sleepSum (t : Trace) : Nat := (t.map (fun x => sleepOf x.1)).sum

theorem fold_now (cfg : Cfg) (t : Trace) : ∀ s, (t.foldl (step cfg) s).now = s.now + total t := by
  induction t with
  | nil => intro s; simp [total]
  | cons x t ih =>
    intro s
    rw [List.foldl_cons, ih]
    have : (step cfg s x).now = s.now + x.2.dur := by
      obtain ⟨r, a⟩ := x
      cases r <;> simp [step]
    simp [this, total, Nat.add_assoc]

theorem fold_ops (cfg : Cfg) (t : Trace) : ∀ s, (t.foldl (step cfg) s).ops = s.ops + opCount t := by
  induction t with
  | nil => intro s; simp [opCount]
  | cons x t ih =>
    intro s
    rw [List.foldl_cons, ih]
    obtain ⟨r, a⟩ := x
    cases r <;> simp [step, opCount, isOp, List.filter_cons] <;> omega

theorem fold_slept (cfg : Cfg) (t : Trace) : ∀ s, (t.foldl (step cfg) s).slept = s.slept + sleepSum t := by
  induction t with
  | nil => intro s; simp [sleepSum]
  | cons x t ih =>
    intro s
    rw [List.foldl_cons, ih]
    obtain ⟨r, a⟩ := x
    cases r <;> simp [step, sleepSum, sleepOf, Nat.add_assoc]

theorem run_now (cfg : Cfg) (t : Trace) : (run cfg t).now = total t := by
  simpa [run] using fold_now cfg t {}

theorem run_ops (cfg : Cfg) (t : Trace) : (run cfg t).ops = opCount t := by
  simpa [run] using fold_ops cfg t {}

theorem run_slept (cfg : Cfg) (t : Trace) : (run cfg t).slept = sleepSum t := by
  simpa [run] using fold_slept cfg t {}

theorem run_append (cfg : Cfg) (p q : Trace) : run cfg (p ++ q) = q.foldl (step cfg) (run cfg p) := by
  simp [run, List.foldl_append]

theorem bad_step (cfg : Cfg) (s : St) (x : Req × Ans) (h : (step cfg s x).bad = false) : s.bad = false := by
  obtain ⟨r, a⟩ := x
  cases r <;> simp_all [step]

theorem bad_fold (cfg : Cfg) (q : Trace) : ∀ s, (q.foldl (step cfg) s).bad = false → s.bad = false := by
  induction q with
  | nil => exact fun _ h => h
  | cons x q ih => exact fun s h => bad_step cfg s x (ih _ h)

theorem bad_at (cfg : Cfg) (p q : Trace) (x : Req × Ans) (h : (run cfg (p ++ x :: q)).bad = false) :
    (step cfg (run cfg p) x).bad = false := by
  rw [run_append] at h
  exact bad_fold cfg q _ h

/-- the operation failed (for the retry loop: an `Exception` other than the library's own control-flow
    exceptions) -/
def opFailed : Ans → Bool
  | .raise e _ => e.isException && !e.isAbort && !e.isExhausted
  | _ => false

/-- a failure observed at or after the deadline: the operation raised and it was then `≥ deadline`,
    or its result was classified as a failure at `≥ deadline` -/
def LateFailure (cfg : Cfg) (before : Nat) (y : Req × Ans) : Prop :=
  (isOp y.1 = true ∧ opFailed y.2 = true ∧ cfg.deadline ≤ before + y.2.dur) ∨
  ((∃ v, y.1 = .resultClassify v) ∧ (∃ c d, y.2 = .klass c d) ∧ cfg.deadline ≤ before)

theorem late_step (cfg : Cfg) (s : St) (x : Req × Ans) :
    (step cfg s x).late = true ↔ s.late = true ∨ LateFailure cfg s.now x := by
  obtain ⟨r, a⟩ := x
  unfold LateFailure
  cases r <;> simp [step, isOp, opFailed]
  · cases a <;> simp [opFailed]
  · cases a <;> simp

/-- `late` of the monitor = some late failure somewhere in the log -/
theorem late_iff (cfg : Cfg) (t : Trace) :
    (run cfg t).late = true ↔ ∃ p y q, t = p ++ y :: q ∧ LateFailure cfg (total p) y := by
  induction hn : t.length generalizing t with
  | zero =>
    have : t = [] := List.length_eq_zero_iff.mp hn
    subst this
    simp [run]
  | succ n ih =>
    rcases List.eq_nil_or_concat t with rfl | ⟨t, x, rfl⟩
    · simp at hn
    have ih := ih t (by simpa using hn)
    rw [List.concat_eq_append] at *
    rw [run_append]
    simp only [List.foldl_cons, List.foldl_nil, late_step, ih, run_now]
    constructor
    · rintro (⟨p, y, q, rfl, hl⟩ | hl)
      · exact ⟨p, y, q ++ [x], by simp, hl⟩
      · exact ⟨t, x, [], rfl, hl⟩
    · rintro ⟨p, y, q, he, hl⟩
      rcases List.eq_nil_or_concat q with rfl | ⟨q', z, rfl⟩
      · have := List.append_inj' he (by simp)
        simp at this
        obtain ⟨rfl, rfl⟩ := this
        exact Or.inr hl
      · have : t ++ [x] = (p ++ y :: q') ++ [z] := by simp [he]
        have := List.append_inj' this rfl
        obtain ⟨rfl, _⟩ := this
        exact Or.inl ⟨p, y, q', rfl, hl⟩

/-- what acceptance by the monitor means for a log of an entry point with a retry loop -/
structure Envelope (cfg : Cfg) (t : Trace) : Prop where
  bad : (run cfg t).bad = false
  slept : honestSleeper t = true → sleepSum t ≤ cfg.deadline

theorem envelope_of_ok {cfg : Cfg} {e : Entry} {t : Trace} {r : Res} (h : Mon.C02.ok cfg e t r = true)
    (hl : hasLoop cfg e = true) (hq : quiet t = true) : Envelope cfg t := by
  unfold Mon.C02.ok at h
  simp only [hl, hq, Bool.and_self, if_true, run_retryTrace cfg t hq, Bool.and_eq_true, Bool.not_eq_true',
    Bool.or_eq_true, decide_eq_true_eq] at h
  refine ⟨h.1, fun hh => ?_⟩
  rw [← run_slept cfg]
  rcases h.2 with h2 | h2
  · simp [hh] at h2
  · exact h2

/-- **No attempt after the deadline**: in a quiet accepted log, when the operation is invoked again
    (not for the first time), at most `deadline` has elapsed since the start of the call. -/
theorem no_attempt_after_deadline {cfg : Cfg} {t : Trace} (h : Envelope cfg t)
    (p q : Trace) (x : Req × Ans) (ht : t = p ++ x :: q) (hx : isOp x.1 = true) (hp : 1 ≤ opCount p) :
    total p ≤ cfg.deadline := by
  have hb := bad_at cfg p q x (ht ▸ h.bad)
  obtain ⟨r, a⟩ := x
  cases r <;> simp_all [isOp, step, run_now, run_ops]

/-- **No sleep beyond the time remaining**: every backoff `d` requested after `elapsed` fits:
    `elapsed + d ≤ deadline`. -/
theorem sleep_le_remaining {cfg : Cfg} {t : Trace} (h : Envelope cfg t)
    (p q : Trace) (l : Lvl) (d : Nat) (a : Ans) (ht : t = p ++ (.sleeper l d, a) :: q) :
    total p + d ≤ cfg.deadline := by
  have hb := bad_at cfg p q _ (ht ▸ h.bad)
  simp_all [step, run_now]

/-- **…so the total sleep requested never exceeds the deadline** (honest sleeper) -/
theorem total_sleep_le_deadline {cfg : Cfg} {t : Trace} (h : Envelope cfg t)
    (hh : honestSleeper t = true) : sleepSum t ≤ cfg.deadline := h.slept hh

/-- **A failure observed at or after the deadline is never retried**: after it the operation is not
    invoked again and no sleep is requested. -/
theorem late_failure_not_retried {cfg : Cfg} {t : Trace} (h : Envelope cfg t)
    (p q : Trace) (x : Req × Ans) (ht : t = p ++ x :: q) (hx : isOp x.1 = true ∨ isSleeper x.1 = true) :
    ¬ ∃ p1 y p2, p = p1 ++ y :: p2 ∧ LateFailure cfg (total p1) y := by
  have hb := bad_at cfg p q x (ht ▸ h.bad)
  rw [← late_iff]
  obtain ⟨r, a⟩ := x
  cases r <;> simp_all [isOp, isSleeper, step]

/-! ### the hypotheses are necessary

`quiet`: a slow hook between the post-sleep deadline check and the next attempt.
`call`, `max_attempts=3 deadline=10`, a call-level `on_attempt_start` hook; answers (driver input)
`unit 0 · raise ordinary:1:TRANSIENT 1 · klass TRANSIENT - 0 · delay 2 0 · unit 2 · unit 20 · value 42 1`:
the model (and the real library, same timings on a virtual monotonic clock) logs exactly `slowHookLog`
below and returns 42 — the second attempt begins at elapsed 23 > 10.

`honestSleeper`: a sleeper that returns at once.  `call`, `max_attempts=3 deadline=10`, answers
`raise ordinary:1:TRANSIENT 0 · klass TRANSIENT - 0 · delay 10 0 · unit 0 · raise ordinary:2:TRANSIENT 0 ·
klass TRANSIENT - 0 · delay 10 0 · unit 0 · value 42 0`: the log is `earlySleeperLog`, every single
sleep fits the time then remaining, and 20 > 10 is requested in total.
(Reproduce: `printf 'case x\ncfg max_attempts=3 deadline=10 max_unknown=2 flags=c_attempt_start\ndo call\na unit 0\n…\nend\n' | lean/.lake/build/bin/driver loop`.) -/

def ceCfg : Cfg := { maxAttempts := 3, deadline := 10 }

def ceCtx (attempt : Nat) (prev : Option Nat) (remaining : Nat) : BackoffCtx :=
  { attempt, klass := .transient, retryAfter := none, prev, remaining, cause := .exception }

def slowHookLog : Trace :=
  [(.attemptStart { attempt := 1, elapsed := 0 }, .unit 0),
   (.op 1, .raise (.ordinary 1 .transient) 1),
   (.classify "o1", .klass ⟨.transient, none⟩ 0),
   (.strategy .default .ctx (ceCtx 1 none 9), .delay (.fin 2) 0),
   (.sleeper .dflt 2, .unit 2),
   (.attemptStart { attempt := 2, elapsed := 3 }, .unit 20),
   (.op 2, .value 42 1)]

/-- without `quiet` the envelope fails: the second attempt starts at elapsed 23 > deadline 10 -/
example : quiet slowHookLog = false ∧ (run ceCfg slowHookLog).bad = true ∧
    total (slowHookLog.take 6) = 23 := by decide

def earlySleeperLog : Trace :=
  [(.op 1, .raise (.ordinary 1 .transient) 0),
   (.classify "o1", .klass ⟨.transient, none⟩ 0),
   (.strategy .default .ctx (ceCtx 1 none 10), .delay (.fin 10) 0),
   (.sleeper .dflt 10, .unit 0),
   (.op 2, .raise (.ordinary 2 .transient) 0),
   (.classify "o2", .klass ⟨.transient, none⟩ 0),
   (.strategy .default .ctx (ceCtx 2 (some 10) 10), .delay (.fin 10) 0),
   (.sleeper .dflt 10, .unit 0),
   (.op 3, .value 42 0)]

/-- without `honestSleeper` the total-sleep bound fails although the log is quiet and every single
    request is within the envelope: 20 > 10 -/
example : quiet earlySleeperLog = true ∧ honestSleeper earlySleeperLog = false ∧
    (run ceCfg earlySleeperLog).bad = false ∧ sleepSum earlySleeperLog = 20 := by decide

/-- non-vacuity: a quiet, honest log with a retry, accepted; the hypotheses of the conjuncts hold of it -/
def goodLog : Trace :=
  [(.op 1, .raise (.ordinary 1 .transient) 3),
   (.classify "o1", .klass ⟨.transient, none⟩ 0),
   (.strategy .default .ctx (ceCtx 1 none 7), .delay (.fin 7) 0),
   (.sleeper .dflt 7, .unit 7),
   (.op 2, .value 42 1)]

example : quiet goodLog = true ∧ honestSleeper goodLog = true ∧ (run ceCfg goodLog).bad = false ∧
    sleepSum goodLog = 7 ∧ total (goodLog.take 4) = 10 ∧ opCount (goodLog.take 4) = 1 ∧
    Mon.C02.ok ceCfg .call goodLog (.ret 42) = true := by decide

/-- the monitor has teeth: an attempt begun after the deadline, a sleep longer than the remaining
    time, and a retry of a late failure are rejected -/
example :
    Mon.C02.ok ceCfg .call [(.op 1, .raise (.ordinary 1 .transient) 3), (.sleeper .dflt 7, .unit 8),
      (.op 2, .value 1 0)] (.ret 1) = false ∧
    Mon.C02.ok ceCfg .call [(.op 1, .raise (.ordinary 1 .transient) 3), (.sleeper .dflt 8, .unit 8)]
      (.raised (.ordinary 1 .transient)) = false ∧
    Mon.C02.ok ceCfg .call [(.op 1, .raise (.ordinary 1 .transient) 10), (.sleeper .dflt 0, .unit 0)]
      (.raised (.ordinary 1 .transient)) = false := by decide


/-- every quiet run of the model through an entry point with a retry loop is within the envelope:
    the conjuncts above apply to it -/
theorem run_envelope (cfg : Cfg) (e : Entry) (w : World) (hl : hasLoop cfg e = true)
    (hq : quiet (runEntry cfg e w).2.trace.reverse = true) :
    Envelope cfg (runEntry cfg e w).2.trace.reverse :=
  envelope_of_ok (deadline_envelope cfg e w) hl hq

end Redress.Props.C02
