/-
  C02 — Deadline envelope: no attempt starts and no sleep extends past `deadline_s`.

  Theorems are about `Mon.C02.ok`, the monitor the driver also evaluates on implementation traces:
  for EVERY configuration, EVERY answer stream and every entry point the monitor accepts the model's
  run.  The property's own hypotheses — time passes only in attempts and sleeps (`quiet`), each sleep
  lasts at least as long as requested (`honestSleeper`, for the total-sleep bound) — are guards of
  the monitor; in the proof they are ghost assumptions about the log *so far* ("if the log so far is
  quiet then …"), so the final theorem needs no side condition.
-/
import Redress.Lemmas.Footprint
import Redress.Monitors

open Std.Do

set_option linter.unusedSimpArgs false

namespace Redress.Props.C02
open Redress Redress.Retry Redress.Mon Redress.Mon.C02

/-- the monitor state as a function of the world's (newest-first) log -/
def cur (cfg : Cfg) (tr : List (Req × Ans)) : St := tr.foldr (fun x s => step cfg s x) {}

@[simp] theorem cur_cons (cfg : Cfg) (x : Req × Ans) (t : List (Req × Ans)) :
    cur cfg (x :: t) = step cfg (cur cfg t) x := rfl

theorem run_reverse (cfg : Cfg) (t : List (Req × Ans)) : run cfg t.reverse = cur cfg t := by
  simp [run, cur, List.foldl_reverse]

/-- `quiet`, as a proposition on the newest-first log -/
def QuietTr (tr : List (Req × Ans)) : Prop :=
  ∀ x ∈ tr, isOp x.1 = true ∨ isSleeper x.1 = true ∨ x.2.dur = 0

/-- one honest exchange -/
def HonestX (x : Req × Ans) : Prop :=
  match x.1, x.2 with
  | .sleeper _ _, .raise _ _ => True
  | .sleeper _ d, a => d ≤ a.dur
  | _, _ => True

/-- `honestSleeper`, as a proposition on the newest-first log -/
def HonestTr (tr : List (Req × Ans)) : Prop := ∀ x ∈ tr, HonestX x

theorem quiet_iff (t : Trace) : quiet t = true ↔ QuietTr t.reverse := by
  simp [quiet, QuietTr, or_assoc]

theorem honest_iff (t : Trace) : honestSleeper t = true ↔ HonestTr t.reverse := by
  unfold honestSleeper HonestTr HonestX
  simp only [List.all_eq_true, List.mem_reverse]
  constructor <;> intro h x hx <;> have := h x hx <;> (split at this <;> simp_all)

/-- requests that move nothing but the C02 monitor's clock -/
def inertK : Kind → Bool
  | .op | .resultClassify | .sleeper => false
  | _ => true

theorem step_inert (cfg : Cfg) (s : St) (x : Req × Ans) (h : inertK x.1.kind = true)
    (hd : x.2.dur = 0) : step cfg s x = s := by
  obtain ⟨r, a⟩ := x
  cases r <;> simp_all [inertK, Req.kind, step]

theorem cur_append_inert (cfg : Cfg) (δ t : List (Req × Ans)) (h : ∀ x ∈ δ, inertK x.1.kind = true)
    (hq : QuietTr (δ ++ t)) : cur cfg (δ ++ t) = cur cfg t := by
  induction δ with
  | nil => rfl
  | cons x δ ih =>
    have hx := h x (by simp)
    have hq' : QuietTr (δ ++ t) := fun y hy => hq y (by simp at hy ⊢; exact Or.inr hy)
    have := ih (fun y hy => h y (by simp [hy])) hq'
    have hd : x.2.dur = 0 := by
      have := hq x (by simp)
      obtain ⟨r, a⟩ := x
      cases r <;> simp_all [inertK, Req.kind, isOp, isSleeper]
    simp only [List.cons_append, cur_cons, this]
    exact step_inert _ _ _ hx hd

/-- what the C02 argument looks at -/
structure Snap where
  quiet : Prop
  honest : Prop
  mon : St
  start : Nat
  now : Nat

def snap (cfg : Cfg) (w : World) : Snap :=
  ⟨QuietTr w.trace, HonestTr w.trace, cur cfg w.trace, w.rs.start, w.now⟩

/-- what an inert step keeps: *if* the log is still quiet afterwards, it was quiet before, the
    monitor has not moved, the run's start instant is the same and the clock has not gone back;
    honesty of the longer log implies honesty of the shorter -/
structure Keep (g g' : Snap) : Prop where
  honest : g'.honest → g.honest
  quiet : g'.quiet → g.quiet ∧ g'.mon = g.mon ∧ g'.start = g.start ∧ g.now ≤ g'.now

theorem keep_of_foot (cfg : Cfg) (w w' : World) (h : Foot inertK w w') : Keep (snap cfg w) (snap cfg w') := by
  obtain ⟨δ, e, k⟩ := h.trace
  refine ⟨fun hh x hx => hh x (by simp [snap, e, hx]), fun hq => ?_⟩
  have hq' : QuietTr (δ ++ w.trace) := by simpa [snap, e] using hq
  refine ⟨fun x hx => hq' x (by simp [hx]), ?_, ?_, h.now⟩
  · simp only [snap, e]
    exact cur_append_inert cfg δ _ k hq'
  · have := congrArg RState.start h.rs
    simpa [snap] using this

/-- From a footprint lemma to "the snapshot is kept" (both exits). -/
theorem keep_of_foot_spec {α : Type} {x : M α} (cfg : Cfg)
    (hx : ∀ w0, ⦃fun w => ⌜Foot inertK w0 w⌝⦄ x ⦃footPost inertK w0⦄) (g : Snap) :
    ⦃fun w => ⌜snap cfg w = g⌝⦄ x
    ⦃post⟨fun _ w => ⌜Keep g (snap cfg w)⌝, fun _ w => ⌜Keep g (snap cfg w)⌝⟩⦄ := by
  apply triple_of_run
  intro w hw
  have := adequacy (hx w) w (Foot.refl _ w)
  split <;> simp_all <;> (rw [← hw]; exact keep_of_foot cfg _ _ this)

/-- same, keeping what the footprint lemma says about the returned value -/
theorem keep_of_foot_spec' {α : Type} {x : M α} {R : α → Prop} (cfg : Cfg)
    (hx : ∀ w0, ⦃fun w => ⌜Foot inertK w0 w⌝⦄ x
      ⦃post⟨fun a w => ⌜R a ∧ Foot inertK w0 w⌝, fun _ w => ⌜Foot inertK w0 w⌝⟩⦄) (g : Snap) :
    ⦃fun w => ⌜snap cfg w = g⌝⦄ x
    ⦃post⟨fun a w => ⌜R a ∧ Keep g (snap cfg w)⌝, fun _ w => ⌜Keep g (snap cfg w)⌝⟩⦄ := by
  apply triple_of_run
  intro w hw
  have := adequacy (hx w) w (Foot.refl _ w)
  split <;> simp_all <;> (rw [← hw]; first | exact keep_of_foot cfg _ _ this | exact keep_of_foot cfg _ _ this.2)

/-- "the snapshot `g` is kept" on both exits -/
abbrev kept (cfg : Cfg) (g : Snap) : PostCond α (.except Exn (.arg World .pure)) :=
  post⟨fun _ w => ⌜Keep g (snap cfg w)⌝, fun _ w => ⌜Keep g (snap cfg w)⌝⟩

/-! ### leaf procedures keep the snapshot -/
section leaves
variable (g : Snap) (cfg : Cfg) (tl : Bool)

theorem emit_k (ev : Event) (a s : Nat) (k : Option EClass) (e : Option Exn) (st : Option StopReason)
    (c : Option Cause) (cl : Option Classification) :
    ⦃fun w => ⌜snap cfg w = g⌝⦄ emit cfg tl ev a s k e st c cl ⦃kept cfg g⦄ :=
  keep_of_foot_spec cfg (fun w0 => emit_foot inertK w0 rfl rfl cfg tl ev a s k e st c cl) g

theorem setStop_k (s : StopReason) : ⦃fun w => ⌜snap cfg w = g⌝⦄ setStop s ⦃kept cfg g⦄ :=
  keep_of_foot_spec cfg (fun w0 => setStop_foot inertK w0 s) g

theorem checkAbort_k (a : Nat) : ⦃fun w => ⌜snap cfg w = g⌝⦄ checkAbort cfg tl a ⦃kept cfg g⦄ :=
  keep_of_foot_spec cfg (fun w0 => checkAbort_foot inertK w0 rfl rfl rfl cfg tl a) g

theorem stopWith_k (s : StopReason) (ev : Event) (a : Nat) (k : EClass) (e : Option Exn) (c : Cause) :
    ⦃fun w => ⌜snap cfg w = g⌝⦄ stopWith cfg tl s ev a k e c
    ⦃post⟨fun d w => ⌜d = .raise ∧ Keep g (snap cfg w)⌝, fun _ w => ⌜Keep g (snap cfg w)⌝⟩⦄ :=
  keep_of_foot_spec' cfg (fun w0 => stopWith_foot inertK w0 rfl rfl cfg tl s ev a k e c) g

theorem recordStrategySuccess_k : ⦃fun w => ⌜snap cfg w = g⌝⦄ recordStrategySuccess cfg ⦃kept cfg g⦄ :=
  keep_of_foot_spec cfg (fun w0 => recordStrategySuccess_foot inertK w0 rfl cfg) g

theorem stratRecordFailure_k (key : SKey) (k : EClass) :
    ⦃fun w => ⌜snap cfg w = g⌝⦄ stratRecordFailure cfg key k ⦃kept cfg g⦄ :=
  keep_of_foot_spec cfg (fun w0 => stratRecordFailure_foot inertK w0 rfl cfg key k) g

theorem callStrategy_k (key : SKey) (kind : SKind) (ctx : BackoffCtx) :
    ⦃fun w => ⌜snap cfg w = g⌝⦄ callStrategy key kind ctx ⦃kept cfg g⦄ :=
  keep_of_foot_spec cfg (fun w0 => callStrategy_foot inertK w0 rfl key kind ctx) g

theorem callClassifier_k (e : Exn) : ⦃fun w => ⌜snap cfg w = g⌝⦄ callClassifier e ⦃kept cfg g⦄ :=
  keep_of_foot_spec cfg (fun w0 => callClassifier_foot inertK w0 rfl e) g

theorem callAttemptStart_k (a : Nat) : ⦃fun w => ⌜snap cfg w = g⌝⦄ callAttemptStart cfg a ⦃kept cfg g⦄ :=
  keep_of_foot_spec cfg (fun w0 => callAttemptStart_foot inertK w0 rfl cfg a) g

theorem callAttemptEndFromOutcome_k (a : Nat) (o : AOutcome) :
    ⦃fun w => ⌜snap cfg w = g⌝⦄ callAttemptEndFromOutcome cfg a o ⦃kept cfg g⦄ :=
  keep_of_foot_spec cfg (fun w0 => callAttemptEndFromOutcome_foot inertK w0 rfl cfg a o) g

theorem callBeforeSleep_k (ctx : BackoffCtx) (s : Nat) :
    ⦃fun w => ⌜snap cfg w = g⌝⦄ callBeforeSleep cfg ctx s ⦃kept cfg g⦄ :=
  keep_of_foot_spec cfg (fun w0 => callBeforeSleep_foot inertK w0 rfl cfg ctx s) g

theorem callSleepHandler_k (lvl : Lvl) (ctx : BackoffCtx) (s : Nat) :
    ⦃fun w => ⌜snap cfg w = g⌝⦄ callSleepHandler lvl ctx s ⦃kept cfg g⦄ :=
  keep_of_foot_spec cfg (fun w0 => callSleepHandler_foot inertK w0 rfl lvl ctx s) g

theorem buildOutcome_k (ok : Bool) (value : Option Nat) (n : Nat) (ns : Option Nat) :
    ⦃fun w => ⌜snap cfg w = g⌝⦄ buildOutcome ok value n ns ⦃kept cfg g⦄ :=
  keep_of_foot_spec cfg (fun w0 => buildOutcome_foot inertK w0 ok value n ns) g

theorem emitAbortedOnce_k (a : Nat) : ⦃fun w => ⌜snap cfg w = g⌝⦄ emitAbortedOnce cfg tl a ⦃kept cfg g⦄ :=
  keep_of_foot_spec cfg (fun w0 => emitAbortedOnce_foot inertK w0 rfl rfl cfg tl a) g

theorem abortOutcome_k (a : Nat) : ⦃fun w => ⌜snap cfg w = g⌝⦄ abortOutcome cfg tl a ⦃kept cfg g⦄ :=
  keep_of_foot_spec cfg (fun w0 => abortOutcome_foot inertK w0 rfl rfl cfg tl a) g

theorem handleSleepDecision_k (act : SleepDecision) (a s : Nat) :
    ⦃fun w => ⌜snap cfg w = g⌝⦄ handleSleepDecision cfg tl act a s
    ⦃post⟨fun r w => ⌜(r = act ∧ act ≠ .other) ∧ Keep g (snap cfg w)⌝, fun _ w => ⌜Keep g (snap cfg w)⌝⟩⦄ :=
  keep_of_foot_spec' cfg (fun w0 => handleSleepDecision_foot inertK w0 rfl rfl cfg tl act a s) g

theorem handleSuccessAttemptEnd_k (a x : Nat) :
    ⦃fun w => ⌜snap cfg w = g⌝⦄ handleSuccessAttemptEnd cfg tl a x ⦃kept cfg g⦄ :=
  keep_of_foot_spec cfg (fun w0 => handleSuccessAttemptEnd_foot inertK w0 rfl rfl rfl rfl cfg tl a x) g

theorem handleAbortAttemptEnd_k (a : Nat) (e : Exn) :
    ⦃fun w => ⌜snap cfg w = g⌝⦄ handleAbortAttemptEnd cfg a e ⦃kept cfg g⦄ :=
  keep_of_foot_spec cfg (fun w0 => handleAbortAttemptEnd_foot inertK w0 rfl cfg a e) g

theorem raiseExhaustedCall_k : ⦃fun w => ⌜snap cfg w = g⌝⦄ raiseExhaustedCall cfg ⦃kept cfg g⦄ :=
  keep_of_foot_spec cfg (fun w0 => raiseExhaustedCall_foot inertK w0 rfl rfl cfg) g

theorem buildExhaustedOutcome_k : ⦃fun w => ⌜snap cfg w = g⌝⦄ buildExhaustedOutcome cfg tl ⦃kept cfg g⦄ :=
  keep_of_foot_spec cfg (fun w0 => buildExhaustedOutcome_foot inertK w0 rfl rfl cfg tl) g

theorem deliverCall_k (act : Action) (orig : Option Exn) (fb : ExhaustedFields) :
    ⦃fun w => ⌜snap cfg w = g⌝⦄ deliverCall act orig fb
    ⦃post⟨fun r w => ⌜(r = none ∧ act = .continue_) ∧ Keep g (snap cfg w)⌝, fun _ w => ⌜Keep g (snap cfg w)⌝⟩⦄ :=
  keep_of_foot_spec' cfg (fun w0 => deliverCall_foot inertK w0 act orig fb) g

theorem deliverExecute_k (act : Action) (o : AOutcome) :
    ⦃fun w => ⌜snap cfg w = g⌝⦄ deliverExecute cfg tl act o
    ⦃post⟨fun r w => ⌜(r = none → act = .continue_) ∧ Keep g (snap cfg w)⌝, fun _ w => ⌜Keep g (snap cfg w)⌝⟩⦄ :=
  keep_of_foot_spec' cfg (fun w0 => deliverExecute_foot inertK w0 rfl rfl cfg tl act o) g

theorem budgetConsume_k : ⦃fun w => ⌜snap cfg w = g⌝⦄ budgetConsume cfg ⦃kept cfg g⦄ := by
  have hf : ∀ w0, ⦃fun w => ⌜Foot inertK w0 w⌝⦄ budgetConsume cfg ⦃footPost inertK w0⦄ := by
    intro w0
    mvcgen [budgetConsume]
    all_goals (try assumption)
    all_goals (rename_i h; exact Foot.trans h (Foot.internal _ _ _ _ _ _ rfl))
  exact keep_of_foot_spec cfg hf g

end leaves

attribute [local spec] emit_k setStop_k checkAbort_k stopWith_k recordStrategySuccess_k
  stratRecordFailure_k callStrategy_k callClassifier_k callAttemptStart_k callAttemptEndFromOutcome_k
  callBeforeSleep_k callSleepHandler_k buildOutcome_k emitAbortedOnce_k abortOutcome_k handleSleepDecision_k
  handleSuccessAttemptEnd_k handleAbortAttemptEnd_k raiseExhaustedCall_k buildExhaustedOutcome_k
  deliverCall_k deliverExecute_k budgetConsume_k

/-! ### the invariants (each guarded by "the log so far is quiet") -/

/-- the monitor's clock is not ahead of the run's own (`elapsed()`); nothing is wrong yet; with an
    honest sleeper the requested sleep so far is covered by elapsed time and by the deadline -/
structure CoreS (cfg : Cfg) (g : Snap) : Prop where
  clock : g.start + g.mon.now ≤ g.now
  bad : g.mon.bad = false
  slept : g.honest → g.mon.slept ≤ g.mon.now
  total : g.honest → g.mon.slept ≤ cfg.deadline

/-- at the top of the loop: no late failure pending; a further attempt starts within the deadline -/
def TopS (cfg : Cfg) (g : Snap) : Prop :=
  g.quiet → CoreS cfg g ∧ g.mon.late = false ∧ (1 ≤ g.mon.ops → g.mon.now ≤ cfg.deadline)

/-- inside an attempt: a failure seen late really was late -/
def MidS (cfg : Cfg) (g : Snap) : Prop :=
  g.quiet → CoreS cfg g ∧ (g.mon.late = true → cfg.deadline ≤ g.mon.now)

/-- after a retry was granted with backoff `s` -/
def GrantS (cfg : Cfg) (s : Nat) (g : Snap) : Prop :=
  g.quiet → CoreS cfg g ∧ g.mon.late = false ∧ g.mon.now + s ≤ cfg.deadline

/-- after the sleep -/
def SleptS (cfg : Cfg) (g : Snap) : Prop :=
  g.quiet → CoreS cfg g ∧ g.mon.late = false

/-- what the verdict asks -/
def FinS (cfg : Cfg) (g : Snap) : Prop :=
  g.quiet → g.mon.bad = false ∧ (g.honest → g.mon.slept ≤ cfg.deadline)

abbrev TopW (cfg : Cfg) (w : World) : Prop := TopS cfg (snap cfg w)
abbrev MidW (cfg : Cfg) (w : World) : Prop := MidS cfg (snap cfg w)
abbrev GrantW (cfg : Cfg) (s : Nat) (w : World) : Prop := GrantS cfg s (snap cfg w)
abbrev SleptW (cfg : Cfg) (w : World) : Prop := SleptS cfg (snap cfg w)
abbrev FinW (cfg : Cfg) (w : World) : Prop := FinS cfg (snap cfg w)

theorem coreS_iff {cfg : Cfg} {g : Snap} : CoreS cfg g ↔
    g.start + g.mon.now ≤ g.now ∧ g.mon.bad = false ∧
    (g.honest → g.mon.slept ≤ g.mon.now) ∧ (g.honest → g.mon.slept ≤ cfg.deadline) :=
  ⟨fun h => ⟨h.clock, h.bad, h.slept, h.total⟩, fun h => ⟨h.1, h.2.1, h.2.2.1, h.2.2.2⟩⟩

theorem CoreS.keep {cfg : Cfg} {g g' : Snap} (k : Keep g g') (hq : g'.quiet) (h : CoreS cfg g) : CoreS cfg g' := by
  obtain ⟨q, hm, hs, hn⟩ := k.quiet hq
  refine ⟨by rw [hm, hs]; exact Nat.le_trans h.clock hn, hm ▸ h.bad, fun hh => ?_, fun hh => ?_⟩
  · rw [hm]; exact h.slept (k.honest hh)
  · rw [hm]; exact h.total (k.honest hh)

/-! #### stability under inert steps, and the implications between the invariants -/

theorem Keep.top {cfg : Cfg} {g g' : Snap} (k : Keep g g') (h : TopS cfg g) : TopS cfg g' := by
  intro hq
  obtain ⟨q, hm, hs, hn⟩ := k.quiet hq
  obtain ⟨h1, h2, h3⟩ := h q
  exact ⟨h1.keep k hq, hm ▸ h2, hm ▸ h3⟩

theorem Keep.mid {cfg : Cfg} {g g' : Snap} (k : Keep g g') (h : MidS cfg g) : MidS cfg g' := by
  intro hq
  obtain ⟨q, hm, hs, hn⟩ := k.quiet hq
  obtain ⟨h1, h2⟩ := h q
  exact ⟨h1.keep k hq, hm ▸ h2⟩

theorem Keep.grant {cfg : Cfg} {s : Nat} {g g' : Snap} (k : Keep g g') (h : GrantS cfg s g) :
    GrantS cfg s g' := by
  intro hq
  obtain ⟨q, hm, hs, hn⟩ := k.quiet hq
  obtain ⟨h1, h2, h3⟩ := h q
  exact ⟨h1.keep k hq, hm ▸ h2, hm ▸ h3⟩

theorem Keep.slept {cfg : Cfg} {g g' : Snap} (k : Keep g g') (h : SleptS cfg g) : SleptS cfg g' := by
  intro hq
  obtain ⟨q, hm, hs, hn⟩ := k.quiet hq
  obtain ⟨h1, h2⟩ := h q
  exact ⟨h1.keep k hq, hm ▸ h2⟩

theorem Keep.fin {cfg : Cfg} {g g' : Snap} (k : Keep g g') (h : FinS cfg g) : FinS cfg g' := by
  intro hq
  obtain ⟨q, hm, hs, hn⟩ := k.quiet hq
  obtain ⟨h1, h2⟩ := h q
  exact ⟨hm ▸ h1, fun hh => hm ▸ h2 (k.honest hh)⟩

theorem TopS.mid {cfg : Cfg} {g : Snap} (h : TopS cfg g) : MidS cfg g :=
  fun hq => ⟨(h hq).1, fun hl => by simp [(h hq).2.1] at hl⟩

theorem GrantS.mid {cfg : Cfg} {s : Nat} {g : Snap} (h : GrantS cfg s g) : MidS cfg g :=
  fun hq => ⟨(h hq).1, fun hl => by simp [(h hq).2.1] at hl⟩

theorem SleptS.mid {cfg : Cfg} {g : Snap} (h : SleptS cfg g) : MidS cfg g :=
  fun hq => ⟨(h hq).1, fun hl => by simp [(h hq).2] at hl⟩

theorem MidS.fin {cfg : Cfg} {g : Snap} (h : MidS cfg g) : FinS cfg g :=
  fun hq => ⟨(h hq).1.bad, (h hq).1.total⟩

theorem TopS.fin {cfg : Cfg} {g : Snap} (h : TopS cfg g) : FinS cfg g := h.mid.fin
theorem GrantS.fin {cfg : Cfg} {s : Nat} {g : Snap} (h : GrantS cfg s g) : FinS cfg g := h.mid.fin
theorem SleptS.fin {cfg : Cfg} {g : Snap} (h : SleptS cfg g) : FinS cfg g := h.mid.fin

/-! #### the three places where the deadline is consulted -/

/-- `remaining = deadline − elapsed` with `elapsed < deadline`: a backoff of up to `remaining` fits,
    and the failure being handled was not late -/
theorem MidS.grant {cfg : Cfg} {q hh : Prop} {m : St} {st n : Nat} (h : MidS cfg ⟨q, hh, m, st, n⟩)
    (hd : ¬ cfg.deadline ≤ n - st) : GrantS cfg (cfg.deadline - (n - st)) ⟨q, hh, m, st, n⟩ := by
  intro hq
  obtain ⟨h1, h2⟩ := h hq
  have hc : st + m.now ≤ n := h1.clock
  refine ⟨h1, ?_, by show m.now + _ ≤ _; omega⟩
  show m.late = false
  cases hl : m.late with
  | false => rfl
  | true => have : cfg.deadline ≤ m.now := h2 hl; omega

/-- `min(sleep, remaining)` -/
theorem GrantS.le {cfg : Cfg} {s s' : Nat} {g : Snap} (h : GrantS cfg s g) (hs : s' ≤ s) : GrantS cfg s' g := by
  intro hq
  obtain ⟨h1, h2, h3⟩ := h hq
  exact ⟨h1, h2, by omega⟩

/-- the post-sleep check `elapsed ≤ deadline` lets the next attempt start within the deadline -/
theorem SleptS.top {cfg : Cfg} {q hh : Prop} {m : St} {st n : Nat} (h : SleptS cfg ⟨q, hh, m, st, n⟩)
    (hd : ¬ n - st > cfg.deadline) : TopS cfg ⟨q, hh, m, st, n⟩ := by
  intro hq
  obtain ⟨h1, h2⟩ := h hq
  have hc : st + m.now ≤ n := h1.clock
  exact ⟨h1, h2, fun _ => by show m.now ≤ _; omega⟩

@[simp] theorem quietTr_cons (x : Req × Ans) (t : List (Req × Ans)) :
    QuietTr (x :: t) ↔ (isOp x.1 = true ∨ isSleeper x.1 = true ∨ x.2.dur = 0) ∧ QuietTr t := by
  simp [QuietTr]

@[simp] theorem honestTr_cons (x : Req × Ans) (t : List (Req × Ans)) :
    HonestTr (x :: t) ↔ HonestX x ∧ HonestTr t := by
  simp [HonestTr]

/-! ### the three requests that move the monitor -/

theorem invokeOp_spec (cfg : Cfg) (a : Nat) :
    ⦃fun w => ⌜TopW cfg w⌝⦄ invokeOp a
    ⦃post⟨fun _ w => ⌜MidW cfg w⌝, fun _ w => ⌜MidW cfg w⌝⟩⦄ := by
  mvcgen [invokeOp, ask]
  all_goals ((try subst_vars) <;> (try intros) <;> (try simp only [TopS, MidS, coreS_iff, snap] at *))
  all_goals simp_all +zetaDelta [step, isOp, isSleeper, HonestX, Ans.dur]
  all_goals grind

theorem shouldClassifyResult_spec (cfg : Cfg) (x : Nat) :
    ⦃fun w => ⌜MidW cfg w⌝⦄ shouldClassifyResult cfg x
    ⦃post⟨fun _ w => ⌜MidW cfg w⌝, fun _ w => ⌜MidW cfg w⌝⟩⦄ := by
  mvcgen [shouldClassifyResult, ask]
  all_goals ((try subst_vars) <;> (try intros) <;> (try simp only [TopS, MidS, coreS_iff, snap] at *))
  all_goals simp_all +zetaDelta [step, isOp, isSleeper, HonestX, Ans.dur]
  all_goals grind

theorem callSleeper_spec (cfg : Cfg) (s : Nat) :
    ⦃fun w => ⌜GrantW cfg s w⌝⦄ callSleeper cfg s
    ⦃post⟨fun _ w => ⌜SleptW cfg w⌝, fun _ w => ⌜FinW cfg w⌝⟩⦄ := by
  mvcgen [callSleeper, ask]
  all_goals ((try subst_vars) <;> (try intros) <;> (try simp only [GrantS, SleptS, FinS, coreS_iff, snap] at *))
  all_goals simp_all +zetaDelta [step, isOp, isSleeper, HonestX, Ans.dur]
  all_goals grind

attribute [local spec] invokeOp_spec shouldClassifyResult_spec callSleeper_spec

theorem sanitize_le (out : SOut) (rem : Nat) : sanitize out rem ≤ rem := by
  unfold sanitize
  split
  · split
    · exact Nat.zero_le _
    · exact Nat.min_le_right _ _
  · exact Nat.zero_le _

/-- unfold snapshots to tuples (so that worlds that differ in irrelevant fields coincide), keep the
    invariants opaque, and chain the stability lemmas -/
macro "c02" : tactic => `(tactic| all_goals (
  (try subst_vars) <;> (try intros) <;>
  (try simp +zetaDelta only [TopW, MidW, GrantW, SleptW, FinW, snap] at *) <;>
  first
    | (simp_all +zetaDelta; done)
    | grind [Keep.top, Keep.mid, Keep.grant, Keep.slept, Keep.fin, TopS.mid, GrantS.mid, SleptS.mid, MidS.fin,
        TopS.fin, GrantS.fin, SleptS.fin, MidS.grant, GrantS.le, SleptS.top, sanitize_le]
    | skip))

/-- what a failure decision promises: a granted retry comes with a backoff that fits -/
abbrev decPost (cfg : Cfg) : PostCond Decision (.except Exn (.arg World .pure)) :=
  post⟨fun d w => ⌜MidW cfg w ∧ ∀ s ctx, d = .retry s ctx → GrantW cfg s w⌝, fun _ w => ⌜MidW cfg w⌝⟩

theorem grantRetry_spec (cfg : Cfg) (tl : Bool) (c : Classification) (a : Nat) (cause : Cause)
    (e : Option Exn) (key : SKey) (kind : SKind) (rem : Nat) :
    ⦃fun w => ⌜GrantW cfg rem w⌝⦄ grantRetry cfg tl c a cause e key kind rem ⦃decPost cfg⦄ := by
  mvcgen [grantRetry, getRS, modifyRS]
  c02

attribute [local spec] grantRetry_spec

theorem handleFailure2_spec (cfg : Cfg) (tl : Bool) (c : Classification) (a : Nat) (cause : Cause)
    (e : Option Exn) :
    ⦃fun w => ⌜MidW cfg w⌝⦄ handleFailure2 cfg tl c a cause e ⦃decPost cfg⦄ := by
  mvcgen [handleFailure2, elapsed, modifyRS]
  c02

attribute [local spec] handleFailure2_spec

theorem handleUnknown_spec (cfg : Cfg) (tl : Bool) (c : Classification) (a : Nat) (cause : Cause)
    (e : Option Exn) :
    ⦃fun w => ⌜MidW cfg w⌝⦄ handleUnknown cfg tl c a cause e ⦃decPost cfg⦄ := by
  mvcgen [handleUnknown, getRS, modifyRS]
  c02

attribute [local spec] handleUnknown_spec

theorem handleFailure1_spec (cfg : Cfg) (tl : Bool) (c : Classification) (a : Nat) (cause : Cause)
    (e : Option Exn) :
    ⦃fun w => ⌜MidW cfg w⌝⦄ handleFailure1 cfg tl c a cause e ⦃decPost cfg⦄ := by
  mvcgen [handleFailure1, getRS]
  c02

attribute [local spec] handleFailure1_spec

theorem handleFailure_spec (cfg : Cfg) (tl : Bool) (c : Classification) (a : Nat) (cause : Cause)
    (e : Option Exn) (r : Option Nat) :
    ⦃fun w => ⌜MidW cfg w⌝⦄ handleFailure cfg tl c a cause e r ⦃decPost cfg⦄ := by
  mvcgen [handleFailure, Retry.recordFailure, modifyRS]
  c02

attribute [local spec] handleFailure_spec

theorem handleException_spec (cfg : Cfg) (tl : Bool) (e : Exn) (a : Nat) :
    ⦃fun w => ⌜MidW cfg w⌝⦄ handleException cfg tl e a ⦃decPost cfg⦄ := by
  mvcgen [handleException]
  c02

attribute [local spec] handleException_spec


end Redress.Props.C02
