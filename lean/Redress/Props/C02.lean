/-
  C02 — Deadline envelope: no attempt starts and no sleep extends past `deadline_s`.

  Theorems are about `Mon.C02.ok`, the monitor the driver also evaluates on implementation traces:
  for EVERY configuration, EVERY answer stream and every entry point the monitor accepts the model's
  run.  The property's own hypotheses — time passes only in attempts and sleeps (`quiet`), each sleep
  lasts at least as long as requested (`honestSleeper`, for the total-sleep bound) — are guards of
  the monitor; in the proof they are ghost assumptions about the log *so far* ("if the log so far is
  quiet then …"), so the final theorem needs no side condition.
-/
import Redress.Lemmas.Footprint
import Redress.Monitors

open Std.Do

set_option linter.unusedSimpArgs false

namespace Redress.Props.C02
open Redress Redress.Retry Redress.Mon Redress.Mon.C02

/-- the monitor state as a function of the world's (newest-first) log -/
def cur (cfg : Cfg) (tr : List (Req × Ans)) : St := tr.foldr (fun x s => step cfg s x) {}

@[simp] theorem cur_cons (cfg : Cfg) (x : Req × Ans) (t : List (Req × Ans)) :
    cur cfg (x :: t) = step cfg (cur cfg t) x := rfl

theorem run_reverse (cfg : Cfg) (t : List (Req × Ans)) : run cfg t.reverse = cur cfg t := by
  simp [run, cur, List.foldl_reverse]

/-- `quiet`, as a proposition on the newest-first log -/
def QuietTr (tr : List (Req × Ans)) : Prop :=
  ∀ x ∈ tr, isOp x.1 = true ∨ isSleeper x.1 = true ∨ x.2.dur = 0

/-- one honest exchange -/
def HonestX (x : Req × Ans) : Prop :=
  match x.1, x.2 with
  | .sleeper _ _, .raise _ _ => True
  | .sleeper _ d, a => d ≤ a.dur
  | _, _ => True

/-- `honestSleeper`, as a proposition on the newest-first log -/
def HonestTr (tr : List (Req × Ans)) : Prop := ∀ x ∈ tr, HonestX x

theorem quiet_iff (t : Trace) : quiet t = true ↔ QuietTr t.reverse := by
  simp [quiet, QuietTr, or_assoc]

theorem honest_iff (t : Trace) : honestSleeper t = true ↔ HonestTr t.reverse := by
  unfold honestSleeper HonestTr HonestX
  simp only [List.all_eq_true, List.mem_reverse]
  constructor <;> intro h x hx <;> have := h x hx <;> (split at this <;> simp_all)

/-- requests that move nothing but the C02 monitor's clock -/
def inertK : Kind → Bool
  | .op | .resultClassify | .sleeper => false
  | _ => true

theorem step_inert (cfg : Cfg) (s : St) (x : Req × Ans) (h : inertK x.1.kind = true)
    (hd : x.2.dur = 0) : step cfg s x = s := by
  obtain ⟨r, a⟩ := x
  cases r <;> simp_all [inertK, Req.kind, step]

theorem cur_append_inert (cfg : Cfg) (δ t : List (Req × Ans)) (h : ∀ x ∈ δ, inertK x.1.kind = true)
    (hq : QuietTr (δ ++ t)) : cur cfg (δ ++ t) = cur cfg t := by
  induction δ with
  | nil => rfl
  | cons x δ ih =>
    have hx := h x (by simp)
    have hq' : QuietTr (δ ++ t) := fun y hy => hq y (by simp at hy ⊢; exact Or.inr hy)
    have := ih (fun y hy => h y (by simp [hy])) hq'
    have hd : x.2.dur = 0 := by
      have := hq x (by simp)
      obtain ⟨r, a⟩ := x
      cases r <;> simp_all [inertK, Req.kind, isOp, isSleeper]
    simp only [List.cons_append, cur_cons, this]
    exact step_inert _ _ _ hx hd

/-- what the C02 argument looks at -/
structure Snap where
  quiet : Prop
  honest : Prop
  mon : St
  start : Nat
  now : Nat

def snap (cfg : Cfg) (w : World) : Snap :=
  ⟨QuietTr w.trace, HonestTr w.trace, cur cfg w.trace, w.rs.start, w.now⟩

/-- what an inert step keeps: *if* the log is still quiet afterwards, it was quiet before, the
    monitor has not moved, the run's start instant is the same and the clock has not gone back;
    honesty of the longer log implies honesty of the shorter -/
structure Keep (g g' : Snap) : Prop where
  honest : g'.honest → g.honest
  quiet : g'.quiet → g.quiet ∧ g'.mon = g.mon ∧ g'.start = g.start ∧ g.now ≤ g'.now

theorem keep_of_foot (cfg : Cfg) (w w' : World) (h : Foot inertK w w') : Keep (snap cfg w) (snap cfg w') := by
  obtain ⟨δ, e, k⟩ := h.trace
  refine ⟨fun hh x hx => hh x (by simp [snap, e, hx]), fun hq => ?_⟩
  have hq' : QuietTr (δ ++ w.trace) := by simpa [snap, e] using hq
  refine ⟨fun x hx => hq' x (by simp [hx]), ?_, ?_, h.now⟩
  · simp only [snap, e]
    exact cur_append_inert cfg δ _ k hq'
  · have := congrArg RState.start h.rs
    simpa [snap] using this

/-- From a footprint lemma to "the snapshot is kept" (both exits). -/
theorem keep_of_foot_spec {α : Type} {x : M α} (cfg : Cfg)
    (hx : ∀ w0, ⦃fun w => ⌜Foot inertK w0 w⌝⦄ x ⦃footPost inertK w0⦄) (g : Snap) :
    ⦃fun w => ⌜snap cfg w = g⌝⦄ x
    ⦃post⟨fun _ w => ⌜Keep g (snap cfg w)⌝, fun _ w => ⌜Keep g (snap cfg w)⌝⟩⦄ := by
  apply triple_of_run
  intro w hw
  have := adequacy (hx w) w (Foot.refl _ w)
  split <;> simp_all <;> (rw [← hw]; exact keep_of_foot cfg _ _ this)

/-- same, keeping what the footprint lemma says about the returned value -/
theorem keep_of_foot_spec' {α : Type} {x : M α} {R : α → Prop} (cfg : Cfg)
    (hx : ∀ w0, ⦃fun w => ⌜Foot inertK w0 w⌝⦄ x
      ⦃post⟨fun a w => ⌜R a ∧ Foot inertK w0 w⌝, fun _ w => ⌜Foot inertK w0 w⌝⟩⦄) (g : Snap) :
    ⦃fun w => ⌜snap cfg w = g⌝⦄ x
    ⦃post⟨fun a w => ⌜R a ∧ Keep g (snap cfg w)⌝, fun _ w => ⌜Keep g (snap cfg w)⌝⟩⦄ := by
  apply triple_of_run
  intro w hw
  have := adequacy (hx w) w (Foot.refl _ w)
  split <;> simp_all <;> (rw [← hw]; first | exact keep_of_foot cfg _ _ this | exact keep_of_foot cfg _ _ this.2)

end Redress.Props.C02
