/-
  C04 (stop_reason / last_class of the RetryExhaustedError) — `Mon.C04S.ok` is true of every run of the model.

  A corollary of C14's `terminal_tags`: the terminal event every configured hook is told carries the stop
  reason and class that the delivered `RetryExhaustedError` carries.  Read from C04's side: the error's
  `stop_reason` names the rule that actually stopped the final attempt (the rule that emitted the terminal
  event), not a default.
-/
import Redress.Props.C14
import Redress.MonitorsNR

namespace Redress.Props.C04Stop
open Redress Redress.Mon

/-- `Mon.C04S.ok` follows from `Mon.C14.terminalTags` on any log. -/
theorem ok_of_terminalTags (cfg : Cfg) (e : Entry) (t : Trace) (r : Res)
    (h : C14.guard cfg e t r = true → Mon.rejected t = false →
      C14.terminalTags cfg e (C14.run cfg t) r = true) :
    C04S.ok cfg e t r = true := by
  unfold C04S.ok
  split
  · split
    · rename_i hg
      simp only [Bool.and_eq_true, Bool.not_eq_true'] at hg
      have := h hg.1 hg.2
      simp only [C14.terminalTags, Bool.and_eq_true] at this
      simp only [Bool.and_eq_true]
      exact ⟨this.1.1.2, this.1.2⟩
    · rfl
  · rfl

/--
**C04, stop reason.**  For every configuration, entry point and world: when `call()` ends with a
library-made `RetryExhaustedError` (normal end, not rejected), each configured hook's last retry-level event
carries `stop_reason = error.stop_reason`, `class = error.last_class` and an `err` tag exactly when the error
has a `last_exception`.
-/
theorem exhausted_stop_reason (cfg : Cfg) (e : Entry) (w : World) :
    C04S.ok cfg e (runEntry cfg e w).2.trace.reverse (runEntry cfg e w).1 = true :=
  ok_of_terminalTags cfg e _ _ (fun hg hr => C14.terminal_tags cfg e w hg hr)

theorem exhausted_stop_reason_script (cfg : Cfg) : ∀ (steps : List Step) (w : World),
    ∀ l ∈ (runScript cfg steps w).1, C04S.ok cfg l.entry l.trace l.res = true := by
  intro steps
  induction steps with
  | nil => intro w l hl; simp [runScript] at hl
  | cons st rest ih =>
    intro w l hl
    cases st with
    | advance d => exact ih _ l (by simpa [runScript] using hl)
    | run e =>
      simp only [runScript, List.mem_cons] at hl
      rcases hl with rfl | hl
      · exact exhausted_stop_reason cfg e w
      · exact ih _ l hl

/-- the monitor is not vacuous: a result-caused stop at the per-class cap reported as MAX_ATTEMPTS_GLOBAL -/
example :
    let t : Trace :=
      [(.op 1, .value 7 0), (.resultClassify 7, .klass ⟨.permanent, none⟩ 0),
       (.metric .permanentFail 1 0 { klass := some .permanent, stop := some .nonRetryableClass, cause := some .result }, .unit 0)]
    let f : ExhaustedFields := { stop := .maxAttemptsGlobal, attempts := 1, lastClass := some .permanent,
                                 lastExc := none, lastResult := some 7, nextSleep := none }
    C04S.ok { metric := true, resultClassifier := true } .call t (.raised (.libExhausted f)) = false := by
  decide

end Redress.Props.C04Stop
