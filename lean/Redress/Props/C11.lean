/-
  C11 — execute() returns a faithful RetryOutcome and does not raise for failures.

  Theorems are about `Mon.C11.ok`, the monitor the driver also evaluates on implementation traces.
  The monitor fold, the view and the specifications of the procedures shared with call() are those of
  `Redress.Props.C04`.
-/
import Redress.Props.C04

open Std.Do

namespace Redress.Props.C11
open Redress Redress.Retry Redress.Mon Redress.Mon.C04 Redress.Props.C04

attribute [local spec] emit_i checkAbort_spec callBeforeSleep_i budgetConsume_i callAttemptStart_h callAttemptEnd_h
  callAttemptEndFromOutcome_h handleAbortAttemptEnd_h callStrategy_f stratRecordFailure_f callSleeper_f
  recordStrategySuccess_s callSleepHandler_f setStop_spec
  stopWith_spec emitAbortedOnce_spec invokeOp_spec buildOutcome_spec abortOutcome_spec
  handleSleepDecision_spec modifyAS_v getRS_v
  grantRetry_spec handleFailure2_spec handleUnknown_spec handleFailure1_spec
  finalizeAttempt_spec sleepAction_spec failureOutcome_spec

/-! ### the verdict and the invariants, as propositions -/

/-- an attempt hook or the abort predicate raised: the monitor does not judge the run -/
def HF (v : View) : Prop := v.mon.hookFault = true

/-- the recorded failure has exactly one of exception / result (none if nothing is recorded) -/
def Shape (m : St) : Prop :=
  (m.recCause = some .exception → m.recExc.isSome = true ∧ m.recVal = none ∧ m.recCls.isSome = true) ∧
  (m.recCause = some .result → m.recVal.isSome = true ∧ m.recExc = none ∧ m.recCls.isSome = true) ∧
  (m.recCause = none → m.recExc = none ∧ m.recVal = none ∧ m.recCls = none)

/-- no callback of the caller has raised (other than aborts) -/
def Flags (m : St) : Prop := m.fault = false ∧ m.opAfterFault = false ∧ m.abortedSuccess = false

/-- what holds at every point of execute() where it runs normally -/
def Base (v : View) : Prop := Sync v ∧ Shape v.mon ∧ Flags v.mon ∧ v.attempts = v.mon.ops

/-- enough to make a correct ABORTED outcome from this state -/
def AbortReady (v : View) : Prop :=
  Sync v ∧ Shape v.mon ∧ v.mon.fault = false ∧ v.mon.opAfterFault = false ∧ v.attempts = v.mon.ops ∧
    v.mon.deferred = false ∧
    (v.mon.succeeded = true → v.mon.earlierSuccess = false → v.mon.abortedSuccess = true)

/-- `Mon.C11.mayPropagate`, as a proposition over the newest-first log -/
def MayP (m : St) (t : List (Req × Ans)) (e : Exn) : Prop :=
  (opRaised m e = true ∧ (e.isException = false ∨ e.isExhausted = true)) ∨ Thrown t e ∨
    (e = .libValueError ∧ m.badDecision = true)

/-- how execute() may end with an exception -/
def RaiseOK (v : View) (t : List (Req × Ans)) (e : Exn) : Prop :=
  HF v ∨ (v.mon.opAfterFault = false ∧ MayP v.mon t e)

/-- the monitor's verdict on an outcome -/
def outcomeOk (cfg : Cfg) (s : St) (o : Outcome) : Bool :=
  o.attempts == s.ops
  && (o.ok == (s.succeeded && !s.earlierSuccess && !s.abortedSuccess))
  && (if o.ok then C11.successOk s o else C11.failureOk cfg s o)

/-- how execute() may end with an outcome -/
def OutOK (cfg : Cfg) (v : View) (o : Outcome) : Prop :=
  HF v ∨ (v.mon.fault = false ∧ outcomeOk cfg v.mon o = true)

/-- an exception inside an attempt, where only an abort would be caught -/
def XErr (v : View) (t : List (Req × Ans)) (e : Exn) : Prop :=
  HF v ∨ (v.mon.opAfterFault = false ∧ (e.isAbort = false → MayP v.mon t e) ∧
    (e.isAbort = true → AbortReady v))

theorem isAbort_isException (e : Exn) (h : e.isAbort = true) : e.isException = true := by
  cases e <;> simp_all [Exn.isAbort, Exn.isException]

theorem MayP.thrown {m : St} {t : List (Req × Ans)} {e : Exn} (h : Thrown t e) : MayP m t e :=
  Or.inr (Or.inl h)

/-- an ABORTED outcome built where `AbortReady` holds is what the monitor wants -/
theorem abort_outcomeOk {cfg : Cfg} {v : View} {o : Outcome} (h : AbortReady v)
    (ho : IsOutcome { v with lastStop := some .aborted } false none v.attempts none o) :
    v.mon.fault = false ∧ outcomeOk cfg v.mon o = true := by
  obtain ⟨⟨s1, s2, s3, s4⟩, ⟨sh1, sh2, sh3⟩, hf, _, hat, hd, hs⟩ := h
  obtain ⟨el, rfl⟩ := ho
  refine ⟨hf, ?_⟩
  have hok : (v.mon.succeeded && !v.mon.earlierSuccess && !v.mon.abortedSuccess) = false := by
    cases h1 : v.mon.succeeded <;> cases h2 : v.mon.earlierSuccess <;> simp_all
  cases hc : v.mon.recCause with
  | none =>
    obtain ⟨a1, a2, a3⟩ := sh3 hc
    simp [outcomeOk, outcomeOf, C11.failureOk, hok, hat, hd, s1, s2, s3, s4, hc, a1, a2, a3]
  | some c =>
    cases c with
    | exception =>
      obtain ⟨a1, a2, a3⟩ := sh1 hc
      simp [outcomeOk, outcomeOf, C11.failureOk, hok, hat, hd, s1, s2, s3, s4, hc, a1, a2, a3]
    | result =>
      obtain ⟨a1, a2, a3⟩ := sh2 hc
      simp [outcomeOk, outcomeOf, C11.failureOk, hok, hat, hd, s1, s2, s3, s4, hc, a1, a2, a3]

theorem view_attempts (cfg : Cfg) (w : World) : w.attempts = (view cfg w).attempts := rfl

theorem AbortReady.stop {v : View} (h : AbortReady v) (ls : Option StopReason) :
    AbortReady { v with lastStop := ls } := h

theorem abort_OutOK {cfg : Cfg} {u v : View} {o : Outcome} (h : AbortReady u)
    (hv : v = { u with lastStop := some .aborted })
    (ho : IsOutcome { u with lastStop := some .aborted } false none u.attempts none o) : OutOK cfg v o := by
  subst hv
  exact Or.inr (abort_outcomeOk h ho)

theorem RaiseOK.thrown {v : View} {t : List (Req × Ans)} {e : Exn} (h : Thrown t e)
    (ho : v.mon.opAfterFault = false) : RaiseOK v t e := Or.inr ⟨ho, MayP.thrown h⟩

/-- outcome of one attempt of execute(): an outcome the monitor accepts, or go on -/
abbrev outPost (cfg : Cfg) (I : View → Prop) : PostCond (Option Outcome) (.except Exn (.arg World .pure)) :=
  post⟨fun r w => ⌜match r with
                   | some o => OutOK cfg (view cfg w) o
                   | none => I (view cfg w)⌝,
       fun e w => ⌜RaiseOK (view cfg w) w.trace e⌝⟩

/-- `_handle_abort_attempt_end` + `_abort_outcome` -/
theorem execAbortExit_spec (cfg : Cfg) (tl : Bool) (a : Nat) (e : Exn) (u : View) (h : HF u ∨ AbortReady u) :
    ⦃fun w => ⌜view cfg w = u⌝⦄ execAbortExit cfg tl a e ⦃outPost cfg fun _ => False⦄ := by
  rcases h with h | h
  · mvcgen [execAbortExit]
    all_goals ((try subst_vars) <;> (try intros))
    all_goals (try (simp_all +zetaDelta [HF, OutOK, RaiseOK]; done))
  · mvcgen [execAbortExit]
    all_goals ((try subst_vars) <;> (try intros))
    all_goals (try (simp_all +zetaDelta [HF, RaiseOK]; done))
    · rename_i s2 _ s1 h1 o s h0
      rw [← h1] at h
      exact abort_OutOK h h0.2 h0.1
    · rename_i s2 _ s1 h1 e' s ht hv _
      rw [← h1] at h
      exact RaiseOK.thrown ht (by rw [hv]; exact h.2.2.2.1)

/-- `try: check_abort() except AbortRetryError: …` -/
theorem checkAbortCaught_spec (cfg : Cfg) (tl : Bool) (a : Nat) (u : View) :
    ⦃fun w => ⌜view cfg w = u⌝⦄ checkAbortCaught cfg tl a
    ⦃post⟨fun b w => ⌜(b = false → view cfg w = { u with mon := pollStep cfg u.mon }) ∧
            (b = true → (view cfg w).mon.hookFault = false → sameBut u (view cfg w))⌝,
          fun e w => ⌜e.isAbort = false ∧ Thrown w.trace e ∧
            ((view cfg w).mon.hookFault = false → sameBut u (view cfg w))⌝⟩⦄ := by
  mvcgen [checkAbortCaught, abortToTrue]
  all_goals ((try subst_vars) <;> (try intros))
  all_goals (try (simp_all +zetaDelta; done))

/-- what follows `determine_action_from_outcome` in execute(), by the attempt's decision -/
def DelivOK (u : View) (o : AOutcome) (res : Option Outcome) (v : View) : Prop :=
  match res with
  | none => o.decision = .retry ∧ v = u
  | some out => o.decision ≠ .retry ∧
      (o.decision = .aborted →
        IsOutcome { u with lastStop := some .aborted } false none u.attempts none out ∧
          v = { u with lastStop := some .aborted }) ∧
      (o.decision ≠ .aborted →
        IsOutcome u false none u.attempts (if o.decision = .scheduled then o.sleep else none) out ∧ v = u)

theorem deliverExecute_spec (cfg : Cfg) (tl : Bool) (u : View) (o : AOutcome) (r : RState) (a : Nat)
    (fr : Bool) :
    ⦃fun w => ⌜view cfg w = u⌝⦄ deliverExecute cfg tl (determineAction o r a fr) o
    ⦃post⟨fun res w => ⌜DelivOK u o res (view cfg w)⌝,
          fun e w => ⌜Thrown w.trace e ∧ o.decision = .aborted ∧
            view cfg w = { u with lastStop := some .aborted } ∧ e.isException = false⌝⟩⦄ := by
  cases hdec : o.decision <;> simp only [determineAction, hdec] <;> (try cases fr) <;>
    mvcgen [deliverExecute] <;>
    ((try subst_vars) <;> (try intros) <;> simp_all +zetaDelta [DelivOK, view_attempts cfg])

/-! ### phases of an attempt of execute() -/

def HdX (n : Nat) (v : View) : Prop := Hd n v ∧ Base v
def ExcX (n : Nat) (e : Exn) (v : View) : Prop := ExcP n e v ∧ Base v
def ValX (cfg : Cfg) (n x : Nat) (v : View) : Prop := ValP cfg n x v ∧ Base v
def RecX (n : Nat) (v : View) : Prop := RecP n v ∧ Base v

theorem RecX.abortReady {n : Nat} {v : View} (h : RecX n v) (hd : v.mon.deferred = false) : AbortReady v := by
  obtain ⟨⟨_, _, _, hs, _, _⟩, hsy, hsh, ⟨f1, f2, f3⟩, hat⟩ := h
  exact ⟨hsy, hsh, f1, f2, hat, hd, fun h => by simp [hs] at h⟩

/-- a failure outcome built once the final attempt's failure is recorded -/
theorem fail_outcomeOk {cfg : Cfg} {n : Nat} {v : View} {o' : AOutcome} {out : Outcome} (h : RecX n v)
    (hf : FailOK' o' v) (h1 : o'.decision ≠ .retry) (h2 : o'.decision ≠ .aborted)
    (ho : IsOutcome v false none v.attempts (if o'.decision = .scheduled then o'.sleep else none) out) :
    v.mon.fault = false ∧ outcomeOk cfg v.mon out = true := by
  obtain ⟨⟨hops, _, ⟨hat, hcls, hcs, hce, hcr⟩, hs, he, hp⟩, ⟨s1, s2, s3, s4⟩, ⟨sh1, sh2, sh3⟩, ⟨f1, f2, f3⟩, hatt⟩ := h
  obtain ⟨hns, hsch, hnsch, hraise⟩ := hf
  obtain ⟨el, rfl⟩ := ho
  refine ⟨f1, ?_⟩
  have hdec : o'.decision = .scheduled ∨ o'.decision = .raise := by
    cases hd : o'.decision <;> simp_all
  rcases hdec with hd | hd
  · obtain ⟨d1, d2, d3, d4⟩ := hsch hd
    cases hc : v.mon.recCause with
    | none => simp [hc] at hcs
    | some c =>
      cases c with
      | exception =>
        obtain ⟨a1, a2, a3⟩ := sh1 hc
        simp [outcomeOk, outcomeOf, C11.failureOk, hatt, hops, hs, f3, d1, d2, d4, hd, s1, s2, s3, s4, hc, a1, a2, a3,
          hat]
      | result =>
        obtain ⟨a1, a2, a3⟩ := sh2 hc
        simp [outcomeOk, outcomeOf, C11.failureOk, hatt, hops, hs, f3, d1, d2, d4, hd, s1, s2, s3, s4, hc, a1, a2, a3,
          hat]
  · obtain ⟨d1, d2, d3⟩ := hraise hd
    have d0 := hnsch (by simp [hd])
    have hst : ∃ st, v.lastStop = some st ∧ st ≠ .scheduled := by
      rw [d3]
      cases hos : o'.stop with
      | none => simp [hos, hard] at d1
      | some st => exact ⟨st, rfl, fun h => by subst h; simp [hos, hard] at d1⟩
    obtain ⟨st, hst1, hst2⟩ := hst
    cases hc : v.mon.recCause with
    | none => simp [hc] at hcs
    | some c =>
      cases c with
      | exception =>
        obtain ⟨a1, a2, a3⟩ := sh1 hc
        simp [outcomeOk, outcomeOf, C11.failureOk, hatt, hops, hs, f3, d0, hd, hst1, hst2, s1, s2, s3, s4, hc, a1, a2,
          a3, hat]
      | result =>
        obtain ⟨a1, a2, a3⟩ := sh2 hc
        simp [outcomeOk, outcomeOf, C11.failureOk, hatt, hops, hs, f3, d0, hd, hst1, hst2, s1, s2, s3, s4, hc, a1, a2,
          a3, hat]

theorem RecX.next {n : Nat} {v : View} {o : AOutcome} (h : RecX n v) (hf : FailOK' o v)
    (hr : o.decision = .retry) : HdX (n + 1) v := ⟨h.1.next hf hr, h.2⟩

theorem HF.sameBut {u v : View} (h : HF u) (hs : sameBut u v) : HF v := by
  unfold HF at *; rw [hs.1]; exact h

/-- the end of a failed attempt of execute() -/
theorem deliverExecute_rec (cfg : Cfg) (tl : Bool) (n a : Nat) (fr : Bool) (u : View) (o : AOutcome)
    (r : RState) (h : HF u ∨ (RecX n u ∧ FailOK' o u)) :
    ⦃fun w => ⌜view cfg w = u⌝⦄ deliverExecute cfg tl (determineAction o r a fr) o
    ⦃post⟨fun r w => ⌜match r with
                      | some o => OutOK cfg (view cfg w) o
                      | none => HF (view cfg w) ∨ HdX (n + 1) (view cfg w)⌝,
          fun e w => ⌜RaiseOK (view cfg w) w.trace e ∧ e.isException = false⌝⟩⦄ := by
  have hd := deliverExecute_spec cfg tl u o r a fr
  mvcgen [hd]
  · intro hres
    rcases h with h | ⟨hrec, hf⟩
    · -- hook fault: nothing to show
      unfold DelivOK at hres
      split at hres
      · exact Or.inl (by rw [hres.2]; exact h)
      · rename_i out
        by_cases hab : o.decision = .aborted
        · exact Or.inl (by rw [(hres.2.1 hab).2]; exact h)
        · exact Or.inl (by rw [(hres.2.2 hab).2]; exact h)
    · unfold DelivOK at hres
      split at hres
      · rw [hres.2]; exact Or.inr (hrec.next hf hres.1)
      · rename_i out
        by_cases hab : o.decision = .aborted
        · obtain ⟨ho, hv⟩ := hres.2.1 hab
          exact abort_OutOK (hrec.abortReady (hf.2.2.1 (by simp [hab]))) hv ho
        · obtain ⟨ho, hv⟩ := hres.2.2 hab
          rw [hv]
          exact Or.inr (fail_outcomeOk hrec hf hres.1 hab ho)
  · intro ht hab hv hx
    refine ⟨?_, hx⟩
    rcases h with h | ⟨hrec, hf⟩
    · exact Or.inl (by rw [hv]; exact h)
    · exact RaiseOK.thrown ht (by rw [hv]; exact hrec.2.2.2.1.2.1)

theorem RecX.hsame {n : Nat} {u v : View} (h : RecX n u) (hs : sameButH u v) : RecX n v := by
  obtain ⟨⟨r1, ⟨y1, y2, y3, y4⟩, ⟨c1, c2, c3, c4, c5⟩, r4, r5, r6⟩, _, ⟨sh1, sh2, sh3⟩, ⟨f1, f2, f3⟩, hat⟩ := h
  obtain ⟨hm, e1, e2, e3, e4, e5⟩ := hs
  unfold C04.hsame at hm
  simp_all [RecX, RecP, RecCur, Base, Sync, Shape, Flags]

theorem HF.hsame {u v : View} (h : HF u) (hs : sameButH u v) : HF v := by
  unfold HF at *
  have := hs.1
  unfold C04.hsame at this
  simp_all

theorem Src.mayP {cfg : Cfg} {w : World} {e : Exn} (h : Src cfg w e) : MayP (view cfg w).mon w.trace e := by
  rcases h with h | h
  · exact MayP.thrown h
  · exact Or.inr (Or.inr h)

/-- after the sleep phase of a recorded failure -/
theorem rec_after_fail {n : Nat} {u v : View} {d : Decision} {o : AOutcome}
    (h : HF u ∨ (RecX n u ∧ u.mon.deferred = false ∧ (d = .raise → hard u.lastStop)))
    (hs : sameButH u v) (hf : FailOK u d o v) : HF v ∨ (RecX n v ∧ FailOK' o v) := by
  rcases h with h | ⟨h1, h2, h3⟩
  · exact Or.inl (h.hsame hs)
  · exact Or.inr ⟨h1.hsame hs, hf.strip h2 h3⟩

theorem raiseOK_of_herr {cfg : Cfg} {n : Nat} {u : View} {w : World} {e : Exn} {P : Prop}
    (h : HF u ∨ (RecX n u ∧ P)) (hs : Src cfg w e) (he : HErr u (view cfg w) e) :
    RaiseOK (view cfg w) w.trace e := by
  obtain ⟨h1, h2, _⟩ := he
  rcases h with h | ⟨hr, _⟩
  · left; unfold HF at *; rw [h2]; exact h
  · right; exact ⟨by rw [h1]; exact hr.2.2.2.1.2.1, Src.mayP hs⟩

macro "close_x" : tactic => `(tactic| (
  (all_goals ((try subst_vars) <;> (try intros)));
  (all_goals (try (simp_all +zetaDelta [HF, sameBut, sameButH, hsame, CErr, HErr, FErr, SErr]; done)))))

/-- the sleep phase, the attempt's verdict and its delivery, for an exception-caused failure -/
theorem execExceptionPath3_spec (cfg : Cfg) (tl : Bool) (a n : Nat) (e : Exn) (d : Decision) (u : View)
    (h : HF u ∨ (RecX n u ∧ u.mon.deferred = false ∧ (d = .raise → hard u.lastStop))) :
    ⦃fun w => ⌜view cfg w = u⌝⦄ execExceptionPath3 cfg tl a e d
    ⦃outPost cfg fun v => HF v ∨ HdX (n + 1) v⦄ := by
  have hde := deliverExecute_rec cfg tl n a false
  mvcgen [execExceptionPath3, hde]
  all_goals ((try subst_vars) <;> (try intros))
  all_goals (try clear hde)
  all_goals first
    | assumption
    | exact Or.inl (by unfold HF; assumption)
    | skip
  · rename_i s5 _ s4 h4 o s3 h3 _ s2 h2 _ s1 h1 _ s a5 _ _ _ _ _
    rw [a5, h1, h2]
    rw [← h4.1] at h
    exact rec_after_fail h h3.1 h3.2
  · rename_i s2 _ s1 h1 e' s hs he
    rw [← h1.1] at h
    exact raiseOK_of_herr h hs he

theorem ExcX.rec' {cfg : Cfg} {n : Nat} {e : Exn} {u v : View} {c : Classification} (h : ExcX n e u)
    (hs : sameBut (recView { u with mon := clsStep cfg u.mon c } c .exception (some e) none) v) :
    RecX n v ∧ v.mon.deferred = false := by
  have hr := h.1.rec' hs
  refine ⟨⟨hr.1, ?_⟩, hr.2.2.2⟩
  obtain ⟨⟨h1, h2, h3, h4, h5, h6, h7, h8, h9⟩, ⟨_, _, ⟨f1, f2, f3⟩, hat⟩⟩ := h
  obtain ⟨s1, s2, s3, s4, s5, s6⟩ := hs
  have := hr.1.2.1
  simp_all [Base, Sync, Shape, Flags, recView, clsStep, step, record]

theorem clsStep_flags (cfg : Cfg) (m : St) (c : Classification) :
    (clsStep cfg m c).hookFault = m.hookFault ∧ (clsStep cfg m c).opAfterFault = m.opAfterFault := by
  unfold clsStep step
  simp only
  split <;> simp [record]

theorem raiseOK_flags {u v : View} {t : List (Req × Ans)} {e : Exn} (h : HF u ∨ u.mon.opAfterFault = false)
    (h1 : v.mon.opAfterFault = u.mon.opAfterFault) (h2 : v.mon.hookFault = u.mon.hookFault)
    (hm : MayP v.mon t e) : RaiseOK v t e := by
  rcases h with h | h
  · left; unfold HF at *; rw [h2]; exact h
  · right; exact ⟨by rw [h1]; exact h, hm⟩

theorem ExcX.oaf {n : Nat} {e : Exn} {u : View} (h : HF u ∨ ExcX n e u) : HF u ∨ u.mon.opAfterFault = false := by
  rcases h with h | h
  · exact Or.inl h
  · exact Or.inr h.2.2.2.1.2.1

/-- classification and recording of an exception-caused failure in execute() -/
theorem handleException_x (cfg : Cfg) (tl : Bool) (n : Nat) (e : Exn) (a : Nat) (u : View)
    (h : HF u ∨ ExcX n e u) :
    ⦃fun w => ⌜view cfg w = u⌝⦄ handleException cfg tl e a
    ⦃post⟨fun d w => ⌜HF (view cfg w) ∨
            (RecX n (view cfg w) ∧ (view cfg w).mon.deferred = false ∧ (d = .raise → hard (view cfg w).lastStop))⌝,
          fun e' w => ⌜RaiseOK (view cfg w) w.trace e'⌝⟩⦄ := by
  mvcgen [handleException, handleFailure_spec, callClassifier_f]
  all_goals ((try subst_vars) <;> (try intros))
  · rename_i s2 c s1 h1 d s h3 h4
    rw [h1] at h3
    rcases h with h | h
    · left
      unfold HF at *
      rw [h3.1]
      simpa [recView, (clsStep_flags cfg _ c).1] using h
    · have := h.rec' h3
      exact Or.inr ⟨this.1, this.2, h4⟩
  · rename_i s2 c s1 h1 e' s hs hc
    rw [h1] at hc
    obtain ⟨c1, c2, _⟩ := hc
    refine raiseOK_flags (ExcX.oaf h) ?_ ?_ (Src.mayP hs)
    · simpa [recView, (clsStep_flags cfg _ c).2] using c1
    · simpa [recView, (clsStep_flags cfg _ c).1] using c2
  · rename_i s1 e' s ht hf
    exact raiseOK_flags (ExcX.oaf h) hf.1 hf.2.1 (MayP.thrown ht)

theorem raiseOK_of_poll {u v : View} {t : List (Req × Ans)} {e : Exn} (h : HF u ∨ u.mon.opAfterFault = false)
    (ht : Thrown t e) (hs : v.mon.hookFault = false → sameBut u v) : RaiseOK v t e := by
  cases hv : v.mon.hookFault with
  | true => exact Or.inl hv
  | false =>
    have hsb := hs hv
    rcases h with h | h
    · unfold HF at h; rw [← hsb.1, hv] at h; cases h
    · exact Or.inr ⟨by rw [hsb.1]; exact h, MayP.thrown ht⟩

theorem AbortReady.sameBut {u v : View} (h : AbortReady u) (hs : sameBut u v) : AbortReady v := by
  obtain ⟨⟨y1, y2, y3, y4⟩, h2, h3, h4, h5, h6, h7⟩ := h
  obtain ⟨s1, s2, s3, s4, s5, s6⟩ := hs
  simp_all [AbortReady, Sync]

theorem abort_after_poll {u v : View} (h : HF u ∨ AbortReady u) (hs : v.mon.hookFault = false → sameBut u v) :
    HF v ∨ AbortReady v := by
  cases hv : v.mon.hookFault with
  | true => exact Or.inl hv
  | false =>
    have hsb := hs hv
    rcases h with h | h
    · unfold HF at h; rw [← hsb.1, hv] at h; cases h
    · exact Or.inr (h.sameBut hsb)

theorem pollStep_hookFault (cfg : Cfg) (m : St) : (pollStep cfg m).hookFault = m.hookFault := by
  unfold pollStep step
  simp only
  split
  · split
    · split <;> simp [record]
    · rfl
  · rfl

theorem recD_after_poll {cfg : Cfg} {n : Nat} {u v : View} {Q : Prop}
    (h : HF u ∨ (RecX n u ∧ Q)) (hv : v = { u with mon := pollStep cfg u.mon }) : HF v ∨ v = u := by
  rcases h with h | ⟨h1, _⟩
  · left; subst hv; unfold HF at *; simpa [pollStep_hookFault] using h
  · right
    rw [hv, pollStep_idle cfg u.mon h1.1.2.2.2.2.2]

theorem RecD.abortReady {n : Nat} {u : View} {P : Prop} (h : HF u ∨ (RecX n u ∧ u.mon.deferred = false ∧ P)) :
    HF u ∨ AbortReady u := by
  rcases h with h | ⟨h1, h2, _⟩
  · exact Or.inl h
  · exact Or.inr (h1.abortReady h2)

theorem RecD.oaf {n : Nat} {u : View} {P : Prop} (h : HF u ∨ (RecX n u ∧ P)) :
    HF u ∨ u.mon.opAfterFault = false := by
  rcases h with h | ⟨h1, _⟩
  · exact Or.inl h
  · exact Or.inr h1.2.2.2.1.2.1

theorem execExceptionPath2_spec (cfg : Cfg) (tl : Bool) (a n : Nat) (e : Exn) (u : View)
    (h : HF u ∨ ExcX n e u) :
    ⦃fun w => ⌜view cfg w = u⌝⦄ execExceptionPath2 cfg tl a e
    ⦃outPost cfg fun v => HF v ∨ HdX (n + 1) v⦄ := by
  have hex := handleException_x cfg tl n e a
  have h3 := execExceptionPath3_spec cfg tl a n e
  have hcc := checkAbortCaught_spec cfg tl a
  have hae := execAbortExit_spec cfg tl a e
  mvcgen [execExceptionPath2, hex, h3, hcc, hae]
  all_goals ((try subst_vars) <;> (try intros))
  all_goals (try clear hex h3 hcc hae)
  all_goals (try (simp_all +zetaDelta; done))
  · rename_i r _ _ hpost
    cases r with
    | none => exact absurd hpost id
    | some o => exact hpost
  · rename_i s4 d s3 h3 _ s2 h2 _ _ s1 h1 s _ hs
    have hs' := hs rfl
    rw [h1, h2.1] at hs'
    exact abort_after_poll (RecD.abortReady h3) hs'
  · rename_i s4 d s3 h3 _ s2 h2 _ _ s1 h1 b hb s hv _
    have hb' : b = false := by cases b <;> simp_all
    have := hv hb'
    rw [h1, h2.1] at this
    rcases recD_after_poll h3 this with hh | hh
    · exact Or.inl hh
    · rw [hh]; exact h3
  · rename_i s4 d s3 h3 _ s2 h2 _ _ s1 h1 e' s _ ht hs
    rw [h1, h2.1] at hs
    exact raiseOK_of_poll (RecD.oaf h3) ht hs

theorem ExcX.abortReady' {n : Nat} {e : Exn} {u : View} (h : ExcX n e u) : AbortReady u := by
  obtain ⟨⟨_, _, _, _, _, hs, _, hd, _⟩, hsy, hsh, ⟨f1, f2, _⟩, hat⟩ := h
  exact ⟨hsy, hsh, f1, f2, hat, hd, fun h => by simp [hs] at h⟩

theorem ExcX.abortReady {n : Nat} {e : Exn} {u : View} (h : HF u ∨ ExcX n e u) : HF u ∨ AbortReady u := by
  rcases h with h | h
  · exact Or.inl h
  · exact Or.inr h.abortReady'

theorem excX_after_poll {cfg : Cfg} {n : Nat} {e : Exn} {u v : View}
    (h : HF u ∨ ExcX n e u) (hv : v = { u with mon := pollStep cfg u.mon }) : HF v ∨ v = u := by
  rcases h with h | h1
  · left; subst hv; unfold HF at *; simpa [pollStep_hookFault] using h
  · right
    rw [hv, pollStep_idle cfg u.mon h1.1.2.2.2.2.2.2.2.2]

/-- the `except Exception` arm of execute() when the operation itself raised `e` -/
theorem execExceptionPath_spec (cfg : Cfg) (tl : Bool) (a n : Nat) (e : Exn) (u : View)
    (h : HF u ∨ ExcX n e u) :
    ⦃fun w => ⌜view cfg w = u⌝⦄ execExceptionPath cfg tl a e
    ⦃outPost cfg fun v => HF v ∨ HdX (n + 1) v⦄ := by
  have h2 := execExceptionPath2_spec cfg tl a n e
  have hcc := checkAbortCaught_spec cfg tl a
  have hae := execAbortExit_spec cfg tl a e
  mvcgen [execExceptionPath, h2, hcc, hae]
  all_goals ((try subst_vars) <;> (try intros))
  all_goals (try clear h2 hcc hae)
  all_goals (try (simp_all +zetaDelta; done))
  · rename_i r _ _ hpost
    cases r with
    | none => exact absurd hpost id
    | some o => exact hpost
  · rename_i s2 _ s1 h1 s _ hs
    have hs' := hs rfl
    rw [h1] at hs'
    exact abort_after_poll (ExcX.abortReady h) hs'
  · rename_i s2 _ s1 h1 b hb s hv _
    have hb' : b = false := by cases b <;> simp_all
    have := hv hb'
    rw [h1] at this
    rcases excX_after_poll h this with hh | hh
    · exact Or.inl hh
    · rw [hh]; exact h
  · rename_i s2 _ s1 h1 e' s _ ht hs
    rw [h1] at hs
    exact raiseOK_of_poll (ExcX.oaf h) ht hs

/-! #### the part of an attempt before the operation returns -/

/-- an exception out of `check_abort` / `on_attempt_start` / the operation -/
def PreErr (n : Nat) (e : Exn) (v : View) (t : List (Req × Ans)) : Prop :=
  HF v ∨ (v.mon.opAfterFault = false ∧ (e.isAbort = true → AbortReady v) ∧
    (e.isAbort = false → e.isException = true → e.isExhausted = false → ExcX n e v) ∧
    (e.isException = false ∨ e.isExhausted = true → MayP v.mon t e))

theorem HdX.abortReady {n : Nat} {u : View} (h : HdX n u) : AbortReady u := by
  obtain ⟨⟨_, _, _, _, hs, _, hd, _⟩, hsy, hsh, ⟨f1, f2, _⟩, hat⟩ := h
  exact ⟨hsy, hsh, f1, f2, hat, hd, fun h => by simp [hs] at h⟩

theorem HdX.opExc {cfg : Cfg} {n : Nat} {u : View} (h : HdX n u) (e : Exn) :
    ExcX n e { u with mon := opStep cfg u.mon (.raise e 0), attempts := n + 1 } := by
  obtain ⟨h1, hsy, hsh, ⟨f1, f2, f3⟩, hat⟩ := h
  refine ⟨?_, ?_⟩
  · have := h1.opExc (cfg := cfg) e 0
    simpa [ExcP, Sync] using this
  · obtain ⟨h11, _⟩ := h1
    simp_all [Base, Sync, Shape, Flags, opStep, step]

theorem HdX.opVal {cfg : Cfg} {n : Nat} {u : View} (h : HdX n u) (x : Nat) :
    ValX cfg n x { u with mon := opStep cfg u.mon (.value x 0), attempts := n + 1 } := by
  obtain ⟨h1, hsy, hsh, ⟨f1, f2, f3⟩, hat⟩ := h
  refine ⟨?_, ?_⟩
  · have := h1.opVal (cfg := cfg) x 0
    simpa [ValP, Sync] using this
  · obtain ⟨h11, _⟩ := h1
    simp_all [Base, Sync, Shape, Flags, opStep, step]

theorem view_setAttempts (cfg : Cfg) (w : World) (a : Nat) :
    view cfg { w with attempts := a } = { view cfg w with attempts := a } := rfl

theorem hdX_after_poll {cfg : Cfg} {n : Nat} {u v : View}
    (h : HF u ∨ HdX n u) (hv : v = { u with mon := pollStep cfg u.mon }) : HF v ∨ v = u := by
  rcases h with h | h1
  · left; subst hv; unfold HF at *; simpa [pollStep_hookFault] using h
  · right
    rw [hv, pollStep_idle cfg u.mon h1.1.2.2.2.2.2.2.2]

theorem opStep_flags (cfg : Cfg) (m : St) (a : Ans) :
    (opStep cfg m a).hookFault = m.hookFault := by
  simp [opStep, step]

theorem pre_ok {cfg : Cfg} {n x : Nat} {u v1 v2 v : View} (h : HF u ∨ HdX n u)
    (h1 : v1 = { u with mon := pollStep cfg u.mon }) (h2 : v2 = { v1 with attempts := n + 1 })
    (hv : v = { v2 with mon := opStep cfg v2.mon (.value x 0) }) : HF v ∨ ValX cfg n x v := by
  rcases hdX_after_poll h h1 with hh | hh
  · left; subst hv h2; unfold HF at *; simpa [opStep_flags] using hh
  · rw [hh] at h2
    rcases h with h | h
    · left; subst hv h2; unfold HF at *; simpa [opStep_flags] using h
    · right; subst hv h2; exact h.opVal x

theorem pre_err_op {cfg : Cfg} {n : Nat} {e : Exn} {u v1 v2 v : View} {t : List (Req × Ans)} (h : HF u ∨ HdX n u)
    (h1 : v1 = { u with mon := pollStep cfg u.mon }) (h2 : v2 = { v1 with attempts := n + 1 })
    (hv : e ≠ .stuck → v = { v2 with mon := opStep cfg v2.mon (.raise e 0) })
    (ho : v.mon.opAfterFault = (v2.mon.opAfterFault || v2.mon.fault))
    (hh : v.mon.hookFault = v2.mon.hookFault) : PreErr n e v t := by
  rcases hdX_after_poll h h1 with hp | hp
  · left; unfold HF at *; rw [hh, h2]; exact hp
  · rw [hp] at h2
    rcases h with h | h
    · left; unfold HF at *; rw [hh, h2]; exact h
    · right
      have hfl := h.2.2.2.1
      have hoaf : v.mon.opAfterFault = false := by
        rw [ho, h2]; simp [hfl.1, hfl.2.1]
      by_cases hs : e = .stuck
      · subst hs
        exact ⟨hoaf, by simp [Exn.isAbort], by simp [Exn.isException], fun _ => MayP.thrown (Thrown.stuck t)⟩
      · have hx : ExcX n e v := by rw [hv hs, h2]; exact h.opExc e
        refine ⟨hoaf, fun _ => hx.abortReady', fun _ _ _ => hx, fun hm => ?_⟩
        left
        exact ⟨by simp [opRaised, hx.1.2.2.1], hm⟩

theorem setAttempts_spec (cfg : Cfg) (v : View) (a : Nat) :
    ⦃fun w => ⌜view cfg w = v⌝⦄ (modify fun w => { w with attempts := a } : M Unit)
    ⦃post⟨fun _ w => ⌜view cfg w = { v with attempts := a }⌝, fun _ _ => ⌜False⌝⟩⦄ := by
  mvcgen
  all_goals (subst_vars; simp_all +zetaDelta [view])

theorem execPre_spec (cfg : Cfg) (tl : Bool) (a n : Nat) (u : View) (h : HF u ∨ HdX n u) (ha : a = n + 1) :
    ⦃fun w => ⌜view cfg w = u⌝⦄ execPre cfg tl a
    ⦃post⟨fun x w => ⌜HF (view cfg w) ∨ ValX cfg n x (view cfg w)⌝,
          fun e w => ⌜PreErr n e (view cfg w) w.trace⌝⟩⦄ := by
  have hsa := setAttempts_spec cfg
  mvcgen [execPre, hsa]
  all_goals ((try subst_vars) <;> (try intros))
  all_goals (try clear hsa)
  · rename_i s5 _ s4 h4 _ s3 h3 _ s2 h2 x s1 _ s h1 t h0
    rw [h1]
    refine pre_ok (v1 := view cfg s4) (v2 := view cfg t.snd) h h4 ?_ h0
    show view cfg t.snd = { view cfg s4 with attempts := n + 1 }
    rw [← h3, ← h2]; rfl
  · rename_i s4 _ s3 h3 _ s2 h2 _ s1 h1 e' s t a2 a1 a0
    refine pre_err_op (v1 := view cfg s3) (v2 := view cfg t.snd) h h3 ?_ a2 a1 a0
    show view cfg t.snd = { view cfg s3 with attempts := n + 1 }
    rw [← h2, ← h1]; rfl
  · rename_i hh
    exact Or.inl hh
  · rename_i s1 e' s a3 a2 a1 a0 _
    cases hv : (view cfg s).mon.hookFault with
    | true => exact Or.inl hv
    | false =>
      have hsb := a1 hv
      rcases h with h | h
      · unfold HF at h; rw [← hsb.1, hv] at h; cases h
      · right
        have hab : AbortReady (view cfg s) := h.abortReady.sameBut hsb
        refine ⟨by rw [hsb.1]; exact h.2.2.2.1.2.1, fun _ => hab, fun hna hex _ => ?_, fun _ => ?_⟩
        · have hne : e' ≠ .libAbort := fun hc => by subst hc; simp [Exn.isAbort] at hna
          have := a0 hex hne
          rw [hv] at this; cases this
        · by_cases hne : e' = .libAbort
          · subst hne; rename_i hm; simp [Exn.isException, Exn.isExhausted] at hm
          · exact MayP.thrown (a3 hne)

theorem PreErr.abort {n : Nat} {e : Exn} {v : View} {t : List (Req × Ans)} (h : PreErr n e v t)
    (ha : e.isAbort = true) : HF v ∨ AbortReady v := by
  rcases h with h | h
  · exact Or.inl h
  · exact Or.inr (h.2.1 ha)

theorem PreErr.exc {n : Nat} {e : Exn} {v : View} {t : List (Req × Ans)} (h : PreErr n e v t)
    (ha : ¬ e.isAbort = true) (hx : e.isException = true) (he : ¬ e.isExhausted = true) : HF v ∨ ExcX n e v := by
  rcases h with h | h
  · exact Or.inl h
  · exact Or.inr (h.2.2.1 (by simpa using ha) hx (by simpa using he))

theorem PreErr.raise {n : Nat} {e : Exn} {v : View} {t : List (Req × Ans)} (h : PreErr n e v t)
    (hm : e.isException = false ∨ e.isExhausted = true) : RaiseOK v t e := by
  rcases h with h | h
  · exact Or.inl h
  · exact Or.inr ⟨h.1, h.2.2.2 hm⟩

theorem isKiSe_not_exception (e : Exn) (h : e.isKiSe = true) : e.isException = false := by
  cases e <;> simp_all [Exn.isKiSe, Exn.isException]

/-- the `except` ladder of execute() for an exception raised before the operation returned -/
theorem execHandler_spec (cfg : Cfg) (tl : Bool) (a n : Nat) (e : Exn) :
    ⦃fun w => ⌜PreErr n e (view cfg w) w.trace⌝⦄ execHandler cfg tl a e
    ⦃outPost cfg fun v => HF v ∨ HdX (n + 1) v⦄ := by
  have hx := execExceptionPath_spec cfg tl a n e
  have hae := execAbortExit_spec cfg tl a e
  mvcgen [execHandler, hx, hae]
  all_goals ((try subst_vars) <;> (try intros))
  all_goals (try clear hx hae)
  · rename_i r _ hpost
    cases r with
    | none => exact absurd hpost id
    | some o => exact hpost
  · rename_i ha _ h; exact h.abort ha
  · rename_i h; exact h.raise (Or.inl rfl)
  · rename_i hk _ h; exact h.raise (Or.inl (isKiSe_not_exception _ hk))
  · rename_i hx _ h; exact h.raise (Or.inr hx)
  · rename_i ha _ _ he hx _ h; exact h.exc ha hx he
  · rename_i hx _ h; exact h.raise (Or.inl (by simpa using hx))

/-! #### the part of an attempt after the operation returned -/

/-- the result classifier; it can only raise if there is one -/
theorem shouldClassifyResult_x (cfg : Cfg) (v : View) (x : Nat) :
    ⦃fun w => ⌜view cfg w = v⌝⦄ shouldClassifyResult cfg x
    ⦃post⟨fun r w => ⌜view cfg w = { v with mon := resStep cfg v.mon r } ∧ (r.isSome → cfg.resultClassifier = true)⌝,
          fun e w => ⌜Thrown w.trace e ∧ FErr v (view cfg w) e ∧ cfg.resultClassifier = true⌝⟩⦄ := by
  have hop : isOp (Req.resultClassify x) = false := rfl
  mvcgen [shouldClassifyResult, ask]
  all_goals ((try subst_vars) <;> (try intros) <;>
    first
      | (simp_all +zetaDelta [view, step, FErr, faultBy, resStep, Thrown.head, Thrown.stuck]; done)
      | skip)

theorem XErr.of {v : View} {t : List (Req × Ans)} {e : Exn} (ho : v.mon.opAfterFault = false)
    (hm : e.isAbort = false → MayP v.mon t e) (ha : e.isAbort = true → AbortReady v) : XErr v t e :=
  Or.inr ⟨ho, hm, ha⟩

theorem ValX.rec' {cfg : Cfg} {n x : Nat} {u v : View} {c : Classification} (h : ValX cfg n x u)
    (hrc : cfg.resultClassifier = true)
    (hs : sameBut (recView { u with mon := pollStep cfg (resStep cfg u.mon (some c)) } c .result none (some x)) v) :
    RecX n v ∧ v.mon.deferred = false := by
  have hr := h.1.rec' hrc hs
  refine ⟨⟨hr.1, ?_⟩, hr.2.2⟩
  obtain ⟨⟨h1, h2, h3, h4, h5, h6, h7, h8, h9⟩, ⟨_, _, ⟨f1, f2, f3⟩, hat⟩⟩ := h
  obtain ⟨s1, s2, s3, s4, s5, s6⟩ := hs
  have := hr.1.2.1
  cases hab : cfg.abortIf <;>
    simp_all [Base, Sync, Shape, Flags, recView, pollStep, resStep, step, record]

theorem resStep_flags (cfg : Cfg) (m : St) (c : Classification) :
    (pollStep cfg (resStep cfg m (some c))).hookFault = m.hookFault ∧
    (pollStep cfg (resStep cfg m (some c))).opAfterFault = m.opAfterFault := by
  cases hab : cfg.abortIf <;> simp [pollStep, resStep, step, record, hab]

theorem ValX.oaf {cfg : Cfg} {n x : Nat} {u : View} (h : HF u ∨ ValX cfg n x u) :
    HF u ∨ u.mon.opAfterFault = false := by
  rcases h with h | h
  · exact Or.inl h
  · exact Or.inr h.2.2.2.1.2.1

/-- recording of a result-caused failure in execute(), after the abort poll -/
theorem handleFailure_resx (cfg : Cfg) (tl : Bool) (n x : Nat) (c : Classification) (a : Nat) (u : View)
    (h : HF u ∨ ValX cfg n x u) (hrc : cfg.resultClassifier = true) :
    ⦃fun w => ⌜view cfg w = { u with mon := pollStep cfg (resStep cfg u.mon (some c)) }⌝⦄
    handleFailure cfg tl c a .result none (some x)
    ⦃post⟨fun d w => ⌜HF (view cfg w) ∨
            (RecX n (view cfg w) ∧ (view cfg w).mon.deferred = false ∧ (d = .raise → hard (view cfg w).lastStop))⌝,
          fun e w => ⌜XErr (view cfg w) w.trace e⌝⟩⦄ := by
  have hf := handleFailure_spec cfg tl { u with mon := pollStep cfg (resStep cfg u.mon (some c)) } c a
    .result none (some x)
  mvcgen [hf]
  all_goals ((try subst_vars) <;> (try intros))
  · rename_i h3 h4
    rcases h with h | h
    · left
      unfold HF at *
      rw [h3.1]
      simpa [recView, (resStep_flags cfg _ c).1] using h
    · have := h.rec' hrc h3
      exact Or.inr ⟨this.1, this.2, h4⟩
  · rename_i hs hc
    obtain ⟨c1, c2, c3⟩ := hc
    rcases h with h | h
    · left
      unfold HF at *
      rw [c2]
      simpa [recView, (resStep_flags cfg _ c).1] using h
    · refine XErr.of ?_ (fun _ => Src.mayP hs) (fun ha => ?_)
      · rw [c1]
        simpa [recView, (resStep_flags cfg _ c).2] using h.2.2.2.1.2.1
      · have := h.rec' hrc (c3 ha)
        exact this.1.abortReady this.2

theorem xerr_of_raise {v : View} {t : List (Req × Ans)} {e : Exn} (h : RaiseOK v t e)
    (hx : e.isException = false) : XErr v t e := by
  have hna := not_isAbort_of_not_isException e hx
  rcases h with h | h
  · exact Or.inl h
  · exact Or.inr ⟨h.1, fun _ => h.2, fun ha => by rw [hna] at ha; cases ha⟩

theorem xerr_of_herr {cfg : Cfg} {n : Nat} {u : View} {w : World} {e : Exn} {P : Prop}
    (h : HF u ∨ (RecX n u ∧ u.mon.deferred = false ∧ P)) (hs : Src cfg w e)
    (he : HErr u (view cfg w) e) : XErr (view cfg w) w.trace e := by
  obtain ⟨h1, h2, h3⟩ := he
  rcases h with h | ⟨hr, hd, _⟩
  · left; unfold HF at *; rw [h2]; exact h
  · refine XErr.of (by rw [h1]; exact hr.2.2.2.1.2.1) (fun _ => Src.mayP hs) (fun ha => ?_)
    obtain ⟨hsb, hdd⟩ := h3 ha
    exact (hr.hsame hsb).abortReady (hdd hd)

theorem xerr_of_poll {u v : View} {t : List (Req × Ans)} {e : Exn} (h : HF u ∨ AbortReady u)
    (ht : e.isAbort = false → Thrown t e) (hs : v.mon.hookFault = false → sameBut u v) : XErr v t e := by
  cases hv : v.mon.hookFault with
  | true => exact Or.inl hv
  | false =>
    have hsb := hs hv
    rcases h with h | h
    · unfold HF at h; rw [← hsb.1, hv] at h; cases h
    · have hab := h.sameBut hsb
      exact XErr.of hab.2.2.2.1 (fun hna => MayP.thrown (ht hna)) (fun _ => hab)

theorem xerr_of_ferr {u v : View} {t : List (Req × Ans)} {e : Exn} (h : HF u ∨ AbortReady u)
    (ht : Thrown t e) (hf : FErr u v e) : XErr v t e := by
  obtain ⟨h1, h2, h3⟩ := hf
  rcases h with h | h
  · left; unfold HF at *; rw [h2]; exact h
  · exact XErr.of (by rw [h1]; exact h.2.2.2.1) (fun _ => MayP.thrown ht) (fun ha => by rw [h3 ha]; exact h)

theorem ValX.abortReady {cfg : Cfg} {n x : Nat} {u : View} (h : HF u ∨ ValX cfg n x u)
    (hrc : cfg.resultClassifier = true) : HF u ∨ AbortReady u := by
  rcases h with h | ⟨⟨_, _, _, _, _, hs, _, hd, _⟩, hsy, hsh, ⟨f1, f2, _⟩, hat⟩
  · exact Or.inl h
  · exact Or.inr ⟨hsy, hsh, f1, f2, hat, hd, fun h => by simp [hs, hrc] at h⟩

/-- the state between the result classifier's answer and the abort poll -/
theorem pend_abortReady {cfg : Cfg} {n x : Nat} {u : View} (c : Classification) (h : HF u ∨ ValX cfg n x u)
    (hrc : cfg.resultClassifier = true) (hab : cfg.abortIf = true) :
    HF { u with mon := resStep cfg u.mon (some c) } ∨ AbortReady { u with mon := resStep cfg u.mon (some c) } := by
  rcases h with h | ⟨⟨h1, _, h3, h4, h5, hs, h7, hd, h9⟩, ⟨y1, y2, y3, y4⟩, ⟨sh1, sh2, sh3⟩, ⟨f1, f2, f3⟩, hat⟩
  · left; unfold HF at *; simpa [resStep, step, hab] using h
  · right
    simp_all [AbortReady, Sync, Shape, resStep, step]

theorem resStep_none_hookFault (cfg : Cfg) (m : St) : (resStep cfg m none).hookFault = m.hookFault := by
  show (if cfg.resultClassifier then { m with succeeded := true } else m).hookFault = _
  split <;> rfl

theorem succ_view {cfg : Cfg} {n x : Nat} {u v : View} (h : ValX cfg n x u)
    (hv : v = { u with mon := resStep cfg u.mon none }) :
    v.mon.succeeded = true ∧ v.mon.earlierSuccess = false ∧ v.mon.opVal = some x ∧ Base v ∧ v.mon.deferred = false ∧
      v.mon.ops = n + 1 := by
  obtain ⟨⟨h1, _, h3, h4, h5, hs, h7, hd, h9⟩, ⟨y1, y2, y3, y4⟩, ⟨sh1, sh2, sh3⟩, ⟨f1, f2, f3⟩, hat⟩ := h
  subst hv
  cases hrc : cfg.resultClassifier <;> simp_all [Base, Sync, Shape, Flags, resStep]

/-- a success outcome is what the monitor wants -/
theorem succ_OutOK {cfg : Cfg} {n x : Nat} {u v : View} {o : Outcome} (h : HF u ∨ ValX cfg n x u)
    (hv : v = { u with mon := resStep cfg u.mon none })
    (ho : IsOutcome v true (some x) (n + 1) none o) : OutOK cfg v o := by
  rcases h with h | h
  · left; subst hv; unfold HF at *; simpa [resStep_none_hookFault] using h
  · right
    obtain ⟨a1, a2, a3, ⟨_, _, ⟨f1, f2, f3⟩, _⟩, a5, a6⟩ := succ_view h hv
    obtain ⟨el, rfl⟩ := ho
    refine ⟨f1, ?_⟩
    simp [outcomeOk, outcomeOf, C11.successOk, a1, a2, a3, a6, f3]

theorem succ_emit_err {cfg : Cfg} {n x : Nat} {u v : View} {t : List (Req × Ans)} {e : Exn}
    (h : HF u ∨ ValX cfg n x u) (hv : v = { u with mon := resStep cfg u.mon none })
    (ht : Thrown t e) (hx : e.isException = false) : XErr v t e := by
  rcases h with h | h
  · left; subst hv; unfold HF at *; simpa [resStep_none_hookFault] using h
  · obtain ⟨a1, a2, a3, ⟨_, _, ⟨f1, f2, f3⟩, _⟩, a5, a6⟩ := succ_view h hv
    exact xerr_of_raise (RaiseOK.thrown ht f2) hx

theorem succ_srs_err {cfg : Cfg} {n x : Nat} {u v1 v : View} {t : List (Req × Ans)} {e : Exn}
    (h : HF u ∨ ValX cfg n x u) (hv : v1 = { u with mon := resStep cfg u.mon none }) (ht : Thrown t e)
    (hs : SErr v1 v e) : XErr v t e := by
  obtain ⟨h1, h2, h3⟩ := hs
  rcases h with h | h
  · left; subst hv; unfold HF at *; rw [h2]; simpa [resStep_none_hookFault] using h
  · obtain ⟨a1, a2, a3, ⟨hsy, hsh, ⟨f1, f2, f3⟩, hat⟩, a5, a6⟩ := succ_view h hv
    refine XErr.of (by rw [h1]; exact f2) (fun _ => MayP.thrown ht) (fun ha => ?_)
    rw [h3 ha]
    exact ⟨hsy, hsh, f1, f2, hat, a5, fun _ _ => rfl⟩

/-- after the operation returned `x` -/
theorem execResultPath_spec (cfg : Cfg) (tl : Bool) (a n x : Nat) (u : View) (h : HF u ∨ ValX cfg n x u)
    (ha : a = n + 1) :
    ⦃fun w => ⌜view cfg w = u⌝⦄ execResultPath cfg tl a x
    ⦃post⟨fun r w => ⌜match r with
                      | some o => OutOK cfg (view cfg w) o
                      | none => HF (view cfg w) ∨ HdX (n + 1) (view cfg w)⌝,
          fun e w => ⌜XErr (view cfg w) w.trace e⌝⟩⦄ := by
  have hsc := shouldClassifyResult_x cfg
  have hf := fun c => handleFailure_resx cfg tl n x c a u h
  have hde := deliverExecute_rec cfg tl n a true
  mvcgen [execResultPath, execResultFailure, handleSuccessAttemptEnd, hsc, hf, hde]
  all_goals ((try subst_vars) <;> (try intros))
  all_goals (try clear hsc hf hde)
  all_goals first
    | assumption
    | exact Or.inl (by unfold HF; assumption)
    | skip
  -- success: the outcome
  · rename_i s5 s4 h4 _ s3 h3 _ s2 h2 _ s1 h1 o s h0
    rw [h0.2]
    have e4 : view cfg s1 = view cfg s4 := by rw [h1, h2, h3]
    have ho := h0.1
    rw [e4] at ho ⊢
    exact succ_OutOK h h4.1 ho
  -- success: `emit` raised
  · rename_i s3 s2 h2 _ s1 h1 e' s ht hv hx
    rw [hv, h1]
    exact succ_emit_err h h2.1 ht hx
  -- success: `strategy.record_success()` raised
  · rename_i s2 s1 h1 e' s ht hs
    exact succ_srs_err h h1.1 ht hs
  -- there is a result classifier
  · rename_i s3 c s2 h2 _ s1 h1 _ s h0
    exact h2.2 rfl
  -- the state `handleFailure` starts from
  · rename_i s3 c s2 h2 _ s1 h1 _ s h0
    rw [h0, h1, h2.1]
  -- decision "raise": delivery raised
  · rename_i hr hx
    exact xerr_of_raise hr hx
  -- decision "raise": delivery's precondition
  · rename_i d hd s4 h4 o s3 h3 _ s2 h2 _ s1 h1 _ _ s a5 _ _ _ _ _
    rw [a5, h1, h2]
    exact rec_after_fail h4 h3.1 h3.2
  -- decision "raise": the sleep phase raised
  · rename_i s1 h1 e' s _ hs he
    exact xerr_of_herr h1 hs he
  -- decision "retry": delivery raised
  · rename_i hr hx
    exact xerr_of_raise hr hx
  -- decision "retry": delivery's precondition
  · rename_i s5 h5 _ s4 h4 o s3 h3 _ s2 h2 _ s1 h1 _ _ s a5 _ _ _ _ _
    rw [a5, h1, h2]
    rcases recD_after_poll h5 h4 with hh | hh
    · exact Or.inl (hh.hsame h3.1)
    · rw [hh] at h3
      exact rec_after_fail h5 h3.1 h3.2
  -- decision "retry": the sleep phase raised
  · rename_i s5 h5 _ s4 h4 e' s _ hs he
    rcases recD_after_poll h5 h4 with hh | hh
    · obtain ⟨_, he2, _⟩ := he
      left; unfold HF at *; rw [he2]; exact hh
    · rw [hh] at he
      exact xerr_of_herr h5 hs he
  -- the second abort poll raised
  · rename_i s1 h1 e' s _ a4 a3 a2 a1 a0
    exact xerr_of_poll (RecD.abortReady h1) a3 a2
  -- the first abort poll raised
  · rename_i s2 c s1 h1 e' s a4 a3 a2 a1 a0
    rw [h1.1] at a2
    exact xerr_of_poll (pend_abortReady c h (h1.2 rfl) a0) a3 a2
  -- the result classifier raised
  · rename_i s1 e' s ht hf hrc
    exact xerr_of_ferr (ValX.abortReady h hrc) ht hf

/-- the `except` ladder once the operation has returned: only an abort is caught -/
theorem execReturnedHandler_spec (cfg : Cfg) (tl : Bool) (a : Nat) (e : Exn) :
    ⦃fun w => ⌜XErr (view cfg w) w.trace e⌝⦄ execReturnedHandler cfg tl a e
    ⦃outPost cfg fun _ => False⦄ := by
  have hae := execAbortExit_spec cfg tl a e
  mvcgen [execReturnedHandler, hae]
  all_goals ((try subst_vars) <;> (try intros))
  all_goals (try clear hae)
  all_goals first
    | assumption
    | skip
  · rename_i ha _ h
    rcases h with h | h
    · exact Or.inl h
    · exact Or.inr (h.2.2 ha)
  · rename_i ha _ h
    rcases h with h | h
    · exact Or.inl h
    · exact Or.inr ⟨h.1, h.2.1 (by simpa using ha)⟩

/-- one iteration of the loop of execute() -/
theorem execAttempt_spec (cfg : Cfg) (tl : Bool) (a n : Nat) (u : View) (h : HF u ∨ HdX n u) (ha : a = n + 1) :
    ⦃fun w => ⌜view cfg w = u⌝⦄ execAttempt cfg tl a
    ⦃outPost cfg fun v => HF v ∨ HdX (n + 1) v⦄ := by
  have hpre := execPre_spec cfg tl a n u h ha
  have hh := fun e => execHandler_spec cfg tl a n e
  have hrp := fun x v hv => execResultPath_spec cfg tl a n x v hv ha
  have hrh := fun e => execReturnedHandler_spec cfg tl a e
  mvcgen [execAttempt, hpre, hh, hrp, hrh]
  all_goals ((try subst_vars) <;> (try intros))
  all_goals (try clear hpre hh hrp hrh)
  all_goals first
    | assumption
    | skip
  · rename_i r _ hpost
    cases r with
    | none => exact absurd hpost id
    | some o => exact hpost

theorem HdX.exhausted {cfg : Cfg} {n : Nat} {v : View} {o : Outcome} (h : HdX n v) (hn : n = cfg.maxAttempts)
    (ho : IsOutcome { v with lastStop := some .maxAttemptsGlobal } false none v.attempts none o) :
    v.mon.fault = false ∧ outcomeOk cfg v.mon o = true := by
  obtain ⟨⟨hops, ⟨s1, s2, s3, s4⟩, hfresh, hrec, hs, he, hd, hp⟩, _, ⟨sh1, sh2, sh3⟩, ⟨f1, f2, f3⟩, hat⟩ := h
  obtain ⟨el, rfl⟩ := ho
  refine ⟨f1, ?_⟩
  rcases Nat.eq_zero_or_pos n with h0 | hpos
  · obtain ⟨c1, c2, c3, c4, c5⟩ := hfresh h0
    simp [outcomeOk, outcomeOf, C11.failureOk, hat, hops, hs, hd, f3, s1, s2, s3, s4, c1, c2, c3, c4, c5, h0, ← hn]
  · obtain ⟨hra, hcls, hcs, hce, hcr⟩ := hrec hpos
    cases hc : v.mon.recCause with
    | none => simp [hc] at hcs
    | some c =>
      cases c with
      | exception =>
        obtain ⟨a1, a2, a3⟩ := sh1 hc
        simp [outcomeOk, outcomeOf, C11.failureOk, hat, hops, hs, hd, f3, s1, s2, s3, s4, hc, a1, a2, a3, hra]
        omega
      | result =>
        obtain ⟨a1, a2, a3⟩ := sh2 hc
        simp [outcomeOk, outcomeOf, C11.failureOk, hat, hops, hs, hd, f3, s1, s2, s3, s4, hc, a1, a2, a3, hra]
        omega

/-- `build_exhausted_outcome` -/
theorem buildExhaustedOutcome_spec (cfg : Cfg) (tl : Bool) (n : Nat) (u : View) (h : HF u ∨ HdX n u)
    (hn : n = cfg.maxAttempts) :
    ⦃fun w => ⌜view cfg w = u⌝⦄ buildExhaustedOutcome cfg tl
    ⦃post⟨fun o w => ⌜OutOK cfg (view cfg w) o⌝, fun e w => ⌜RaiseOK (view cfg w) w.trace e⌝⟩⦄ := by
  mvcgen [buildExhaustedOutcome, emitMaxAttemptsExceeded]
  all_goals (try (intros; exact cfg))
  all_goals ((try subst_vars) <;> (try intros))
  · rename_i s4 _ s3 h3 _ s2 h2 _ s1 h1 o s ho hv
    have e2 : view cfg s2 = view cfg s4 := by rw [h2, h3.1]
    have hatt : s1.attempts = (view cfg s4).attempts := by
      have := congrArg View.attempts h1
      rw [e2] at this
      exact this
    rw [hv, h1, e2]
    rw [h1, e2, hatt] at ho
    rcases h with h | h
    · exact Or.inl h
    · exact Or.inr (h.exhausted rfl ho)
  · rename_i s2 _ s1 h1 e' s ht hv _
    rw [hv, h1.1]
    rcases h with h | h
    · exact Or.inl h
    · exact RaiseOK.thrown ht h.2.2.2.1.2.1

theorem execLoop_spec (cfg : Cfg) (tl : Bool) : ∀ (fuel a n : Nat) (u : View), HF u ∨ HdX n u → a = n + 1 →
    n + fuel = cfg.maxAttempts →
    ⦃fun w => ⌜view cfg w = u⌝⦄ execLoop cfg tl fuel a
    ⦃post⟨fun o w => ⌜OutOK cfg (view cfg w) o⌝, fun e w => ⌜RaiseOK (view cfg w) w.trace e⌝⟩⦄ := by
  intro fuel
  induction fuel with
  | zero =>
    intro a n u h ha hn
    have hx := buildExhaustedOutcome_spec cfg tl n u h (by omega)
    mvcgen [execLoop, hx]
  | succ f ih =>
    intro a n u h ha hn
    have hat := execAttempt_spec cfg tl a n u h ha
    mvcgen [execLoop, hat]
    all_goals ((try subst_vars) <;> (try intros))
    all_goals (try (simp_all +zetaDelta; done))
    rename_i s hs
    exact ih (n + 1 + 1) (n + 1) (view cfg s) (by simpa using hs) rfl (by omega) s rfl

theorem HdX.init : HdX 0 view0 := by
  refine ⟨Hd.init, ?_⟩
  simp [Base, view0, Sync, Shape, Flags]

/-- `Retry.execute` (and its async twin) -/
theorem runExecute_spec (cfg : Cfg) :
    ⦃fun w => ⌜cur cfg w.trace = {}⌝⦄ runExecute cfg
    ⦃post⟨fun o w => ⌜OutOK cfg (view cfg w) o⌝, fun e w => ⌜RaiseOK (view cfg w) w.trace e⌝⟩⦄ := by
  have hloop := execLoop_spec cfg cfg.timeline cfg.maxAttempts 1 0 view0 (Or.inr HdX.init) rfl (by omega)
  have hi := initState_spec cfg
  mvcgen [runExecute, hloop, hi]

/-! ### policy level -/
open Policy

/-- more of the monitor that the policy wrapper's own exchanges cannot move -/
def keep2 (m : St) : Bool × Bool := (m.opAfterFault, m.hookFault)

theorem step_polCK2 (cfg : Cfg) (s : St) (x : Req × Ans) (h : polCK x.1.kind = true) :
    keep2 (step cfg s x) = keep2 s := by
  obtain ⟨r, a⟩ := x
  cases r <;> simp_all [polCK, polK, Req.kind, step, keep2]
  cases a <;> simp [faultBy]
  split <;> simp [record]

theorem keep2_pext (cfg : Cfg) {w w' : World} (h : PExt polCK w w') :
    keep2 (cur cfg w'.trace) = keep2 (cur cfg w.trace) := by
  obtain ⟨⟨δ, e, k⟩, _, _⟩ := h
  rw [e]
  clear e
  induction δ with
  | nil => rfl
  | cons x δ ih =>
    have := ih (fun y hy => k y (by simp [hy]))
    simp only [List.cons_append, cur_cons]
    rw [step_polCK2 cfg _ x (k x (by simp)), this]

theorem polK_polCK (k : Kind) (h : polK k = true) : polCK k = true := by
  cases k <;> simp_all [polK, polCK]

theorem PExt.mono {K K' : Kind → Bool} {w w' : World} (h : PExt K w w') (hk : ∀ k, K k = true → K' k = true) :
    PExt K' w w' := by
  obtain ⟨⟨δ, e, k⟩, hr, ha⟩ := h
  exact ⟨⟨δ, e, fun x hx => hk _ (k x hx)⟩, hr, ha⟩

/-- how execute() may end with an exception, in the form the monitor states it -/
def RaiseOK' (v : View) (t : List (Req × Ans)) (e : Exn) : Prop :=
  HF v ∨ ((v.mon.fault = false ∨ v.mon.opAfterFault = false) ∧ MayP v.mon t e)

theorem RaiseOK.weaken {v : View} {t : List (Req × Ans)} {e : Exn} (h : RaiseOK v t e) : RaiseOK' v t e := by
  rcases h with h | h
  · exact Or.inl h
  · exact Or.inr ⟨Or.inr h.1, h.2⟩

/-- how `Policy.execute` may end -/
def FinX (cfg : Cfg) : Except Exn Outcome → World → Prop
  | .ok o, w => Rej w.trace ∨ OutOK cfg (view cfg w) o
  | .error e, w => Rej w.trace ∨ RaiseOK' (view cfg w) w.trace e

/-- an exception out of `Retry.execute`, while `Policy.execute`'s ladder handles it -/
def ErrS (cfg : Cfg) (e : Exn) (w : World) : Prop := Rej w.trace ∨ RaiseOK (view cfg w) w.trace e

theorem ErrS.pextC {cfg : Cfg} {e : Exn} {w w' : World} (h : PExt polCK w w')
    (hf : ErrS cfg e w) : ErrS cfg e w' := by
  have hk := keep_pext cfg h
  have hk2 := keep2_pext cfg h
  obtain ⟨⟨δ, he, k⟩, _, _⟩ := h
  simp only [keep, keep2, Prod.mk.injEq] at hk hk2
  obtain ⟨k1, k2, k3, k4, k5, k6, k7⟩ := hk
  obtain ⟨k8, k9⟩ := hk2
  simp only [ErrS, RaiseOK, HF, MayP, view] at hf ⊢
  rcases hf with hf | hf | ⟨ho, hm⟩
  · left; rw [he]; exact Rej.append δ hf
  · right; left; rw [k9]; exact hf
  · right; right
    refine ⟨by rw [k8]; exact ho, ?_⟩
    rcases hm with h1 | h1 | h1
    · left; simpa [opRaised, k2] using h1
    · exact Or.inr (Or.inl (by rw [he]; exact Thrown.append δ h1))
    · exact Or.inr (Or.inr ⟨h1.1, by rw [k7]; exact h1.2⟩)

theorem ErrS.fin {cfg : Cfg} {e : Exn} {w : World} (h : ErrS cfg e w) : FinX cfg (.error e) w := by
  rcases h with h | h
  · exact Or.inl h
  · exact Or.inr h.weaken

theorem ErrS.thrown {cfg : Cfg} {e e' : Exn} {w : World} (h : ErrS cfg e w) (ht : Thrown w.trace e') :
    ErrS cfg e' w := by
  rcases h with h | h | h
  · exact Or.inl h
  · exact Or.inr (Or.inl h)
  · exact Or.inr (Or.inr ⟨h.1, MayP.thrown ht⟩)

theorem FinX.pext {cfg : Cfg} {r : Except Exn Outcome} {w w' : World} (h : PExt polK w w')
    (hf : FinX cfg r w) : FinX cfg r w' := by
  have hv := view_pext cfg h
  obtain ⟨⟨δ, e, k⟩, _, _⟩ := h
  cases r with
  | ok o =>
    simp only [FinX, hv] at hf ⊢
    rcases hf with hf | hf
    · left; rw [e]; exact Rej.append δ hf
    · exact Or.inr hf
  | error ex =>
    simp only [FinX, RaiseOK', hv] at hf ⊢
    rcases hf with hf | hf | hf
    · left; rw [e]; exact Rej.append δ hf
    · exact Or.inr (Or.inl hf)
    · exact Or.inr (Or.inr ⟨hf.1, by
        rcases hf.2 with h1 | h1 | h1
        · exact Or.inl h1
        · exact Or.inr (Or.inl (by rw [e]; exact Thrown.append δ h1))
        · exact Or.inr (Or.inr h1)⟩)

/-- an exception raised by the policy wrapper's own exchanges after `r` was settled -/
theorem FinX.thrown {cfg : Cfg} {r : Except Exn Outcome} {e : Exn} {w : World} (hi : FinX cfg r w)
    (h : Thrown w.trace e) : FinX cfg (.error e) w := by
  cases r with
  | ok o =>
    rcases hi with hi | hi | hi
    · exact Or.inl hi
    · exact Or.inr (Or.inl hi)
    · exact Or.inr (Or.inr ⟨Or.inl hi.1, MayP.thrown h⟩)
  | error ex =>
    rcases hi with hi | hi | hi
    · exact Or.inl hi
    · exact Or.inr (Or.inl hi)
    · exact Or.inr (Or.inr ⟨hi.1, MayP.thrown h⟩)

theorem FinX.ofOut {cfg : Cfg} {o : Outcome} {w : World} (h : OutOK cfg (view cfg w) o) : FinX cfg (.ok o) w :=
  Or.inr h

/-- where `Policy.execute` is: handling an exception out of `Retry.execute`, or done with result `r` -/
inductive Stage
  | ladder (e : Exn)
  | done (r : Except Exn Outcome)

def FinY (cfg : Cfg) : Stage → World → Prop
  | .ladder e, w => ErrS cfg e w
  | .done r, w => FinX cfg r w

theorem FinY.pext {cfg : Cfg} {st : Stage} {w w' : World} (h : PExt polK w w') (hf : FinY cfg st w) :
    FinY cfg st w' := by
  cases st with
  | ladder e => exact ErrS.pextC (PExt.mono h polK_polCK) hf
  | done r => exact FinX.pext h hf

/-- `_execute_with_retry` -/
theorem executeWithRetry_spec (cfg : Cfg) (hret : cfg.hasRetry = true) :
    ⦃fun w => ⌜cur cfg w.trace = {}⌝⦄ executeWithRetry cfg
    ⦃post⟨fun o w => ⌜FinX cfg (.ok o) w⌝, fun e w => ⌜FinX cfg (.error e) w⌝⟩⦄ := by
  have hrun := runExecute_spec cfg
  have hex := fun st e' => inv_of_pext polK (FinY cfg st)
    (fun w0 => handleExhaustedCall_pext polK w0 cfg rfl rfl rfl e') (fun w w' h hf => hf.pext h)
  have hrc := fun st => inv_of_pext polK (FinY cfg st) (fun w0 => recordCancel_pext polK w0 cfg rfl)
    (fun w w' h hf => hf.pext h)
  have hec := fun e e' b => inv_of_pext polCK (ErrS cfg e)
    (fun w0 => handleExceptionCall_pext polCK w0 cfg hret rfl rfl rfl rfl e' b) (fun w w' h hf => hf.pextC h)
  have hrs := fun st => inv_of_pext polK (FinY cfg st) (fun w0 => recordSuccess_pext polK w0 cfg rfl rfl rfl)
    (fun w w' h hf => hf.pext h)
  have hrf := fun st k => inv_of_pext polK (FinY cfg st) (fun w0 => recordFailure_pext polK w0 cfg rfl rfl rfl k)
    (fun w w' h hf => hf.pext h)
  mvcgen [executeWithRetry, executeLadder, hrun, hex, hrc, hec, hrs, hrf]
  all_goals ((try subst_vars) <;> (try intros))
  all_goals (try clear hrun hex hrc hec hrs hrf)
  all_goals (try (first | exact Stage.done (.ok (by assumption)) | exact Stage.ladder (by assumption)))
  all_goals (try simp only [restore_dummy])
  all_goals first
    | exact FinX.ofOut (by assumption)
    | exact (show FinY cfg (.done _) _ from Or.inr (by assumption))
    | exact (show FinY cfg (.ladder _) _ from Or.inr (by assumption))
    | exact (show ErrS cfg _ _ from Or.inr (by assumption))
    | exact (by assumption : FinY cfg (.done _) _)
    | exact FinX.thrown (by assumption : FinY cfg (.done _) _) (by assumption)
    | exact ErrS.fin (by assumption : FinY cfg (.ladder _) _)
    | exact ErrS.fin (ErrS.thrown (by assumption : FinY cfg (.ladder _) _) (by assumption))
    | exact ErrS.fin (by assumption : ErrS cfg _ _)
    | exact ErrS.fin (ErrS.thrown (by assumption : ErrS cfg _ _) (by assumption))
    | exact ErrS.fin (Or.inr (by assumption))
    | skip

theorem policyOutcome_pext (K : Kind → Bool) (w0 : World) (ok : Bool) (value : Option Nat)
    (stop : Option StopReason) (attempts : Nat) (lc : Option EClass) (le : Option String) (cause : Option Cause) :
    ⦃fun w => ⌜PExt K w0 w⌝⦄ policyOutcome ok value stop attempts lc le cause ⦃pextPost K w0⦄ := by
  mvcgen [policyOutcome, xElapsed]

theorem breakerAllow_inv (cfg : Cfg) (bc : Breaker.Cfg) :
    ⦃fun w => ⌜cur cfg w.trace = {}⌝⦄ breakerAllow bc
    ⦃post⟨fun d w => ⌜cur cfg w.trace = {} ∧ (d.1 = false → Rej w.trace)⌝, fun _ _ => ⌜False⌝⟩⦄ := by
  apply triple_of_run
  intro w hw
  have := adequacy (breakerAllow_pext polK w rfl bc) w (PExt.refl _ _)
  split <;> simp_all
  exact cur_pext cfg this.1 hw

theorem rej_pext {w w' : World} (h : PExt polK w w') (hr : Rej w.trace) : Rej w'.trace := by
  obtain ⟨⟨δ, e, _⟩, _, _⟩ := h
  rw [e]; exact Rej.append δ hr

theorem prelude_thrown {cfg : Cfg} {w : World} {e : Exn} (h0 : cur cfg w.trace = {}) (ht : Thrown w.trace e) :
    FinX cfg (.error e) w := by
  right; right
  refine ⟨Or.inl ?_, MayP.thrown ht⟩
  show (cur cfg w.trace).fault = false
  rw [h0]

/-- the admitted part of `Policy.execute` with a retry component -/
theorem executeAdmitted_spec (cfg : Cfg) (hret : cfg.hasRetry = true) :
    ⦃fun w => ⌜cur cfg w.trace = {}⌝⦄ executeAdmitted cfg
    ⦃post⟨fun o w => ⌜FinX cfg (.ok o) w⌝, fun e w => ⌜FinX cfg (.error e) w⌝⟩⦄ := by
  have hwr := executeWithRetry_spec cfg hret
  have hba := breakerAllow_inv cfg
  have hev := fun (d : Bool) ev st k => inv_of_pext polK (fun w => cur cfg w.trace = {} ∧ (d = false → Rej w.trace))
    (fun w0 => emitBreakerEvent_pext polK w0 cfg rfl rfl ev st k)
    (fun w w' h hw => ⟨cur_pext cfg h hw.1, fun hd => rej_pext h (hw.2 hd)⟩)
  have hpo := fun a b c d e f g => inv_of_pext polK (fun w => Rej w.trace)
    (fun w0 => policyOutcome_pext polK w0 a b c d e f g) (fun w w' h hw => rej_pext h hw)
  unfold executeAdmitted executeAdmitted2
  simp only [hret, if_true, Bool.false_eq_true, if_false]
  mvcgen [hwr, hba, hev, hpo]
  all_goals ((try subst_vars) <;> (try intros))
  all_goals (try clear hwr hba hev hpo)
  all_goals first
    | assumption
    | exact (by assumption : _ ∧ _).1
    | exact Or.inl (by assumption)
    | exact prelude_thrown (by assumption) (by assumption)
    | skip
  · rename_i d _ hd _ h
    exact h.2 (by simpa using hd)

/-- `Policy.execute` with a retry component (also `RetryPolicy.execute`, contexts, async twins) -/
theorem execute_retry_spec (cfg : Cfg) (hret : cfg.hasRetry = true) :
    ⦃fun w => ⌜cur cfg w.trace = {}⌝⦄ Policy.execute cfg
    ⦃post⟨fun o w => ⌜FinX cfg (.ok o) w⌝, fun e w => ⌜FinX cfg (.error e) w⌝⟩⦄ := by
  have hic := inv_of_pext polK (fun w => cur cfg w.trace = {}) (fun w0 => initCtx_pext polK w0)
    (fun w w' h h0 => cur_pext cfg h h0)
  have hadm := executeAdmitted_spec cfg hret
  have hes := fun r => inv_of_pext polK (FinX cfg r) (fun w0 => ensureSettled_pext polK w0 cfg rfl)
    (fun w w' h hf => hf.pext h)
  mvcgen [Policy.execute, withFinally, hic, hadm, hes]
  all_goals ((try subst_vars) <;> (try intros))
  all_goals (try clear hic hadm hes)
  all_goals (try simp only [restore_dummy])
  all_goals first
    | assumption
    | exact FinX.thrown (by assumption) (by assumption)
    | exact prelude_thrown (by assumption) (by assumption)
    | skip

/-! ### the theorems -/

theorem step_hookFault (cfg : Cfg) (s : St) (r : Req) (a : Ans) :
    (step cfg s (r, a)).hookFault = (s.hookFault || (isAttemptHook r && (match a with
      | .raise .. => true
      | _ => false))) := by
  cases r <;> cases a <;> simp [step, isAttemptHook, faultBy] <;> (repeat' split) <;> simp_all [record]

theorem hookFault_fold (cfg : Cfg) (t : List (Req × Ans)) :
    (cur cfg t).hookFault = attemptHookFault t := by
  induction t with
  | nil => rfl
  | cons x t ih =>
    obtain ⟨r, a⟩ := x
    simp only [cur_cons, attemptHookFault, List.any_cons] at ih ⊢
    rw [step_hookFault, ih, Bool.or_comm]
    cases a <;> rfl

theorem attemptHookFault_reverse (t : List (Req × Ans)) : attemptHookFault t.reverse = attemptHookFault t := by
  simp [attemptHookFault]

theorem mayPropagate_of {cfg : Cfg} {t : List (Req × Ans)} {e : Exn} (h : MayP (cur cfg t) t e) :
    C11.mayPropagate (run cfg t.reverse) t.reverse e = true := by
  rw [run_reverse]
  unfold C11.mayPropagate raisedByCallback
  rw [raisedBy_reverse]
  rcases h with ⟨h1, h2⟩ | h | ⟨h1, h2⟩
  · rcases h2 with h2 | h2 <;> simp [h1, h2]
  · rcases h with h | h
    · subst h; simp
    · simp [h]
  · subst h1; simp [h2]

/-- the monitor's verdict, in the shape the proofs produce it -/
theorem ok_unfold (cfg : Cfg) (e : Entry) (t : Trace) (r : Res) :
    Mon.C11.ok cfg e t r =
      (if hasLoop cfg e && e.isExecute && !Mon.rejected t && !Mon.attemptHookFault t then
        (!(run cfg t).fault || ((r matches .raised _) && !(run cfg t).opAfterFault))
        && (match r with
            | .ret _ => false
            | .raised ex => C11.mayPropagate (run cfg t) t ex
            | .outcome o _ => outcomeOk cfg (run cfg t) o)
      else true) := by
  unfold Mon.C11.ok outcomeOk
  rfl

theorem verdict_outcome {cfg : Cfg} {e : Entry} {t : List (Req × Ans)} {o : Outcome} {tl : List TimelineEv}
    (h : Rej t ∨ ((cur cfg t).hookFault = true ∨ ((cur cfg t).fault = false ∧ outcomeOk cfg (cur cfg t) o = true))) :
    Mon.C11.ok cfg e t.reverse (.outcome o tl) = true := by
  rw [ok_unfold, run_reverse, rejected_reverse, attemptHookFault_reverse, ← hookFault_fold cfg]
  split
  · rename_i hg
    simp only [Bool.and_eq_true, Bool.not_eq_true'] at hg
    rcases h with h | h | h
    · simp [Rej, hg.1.2] at h
    · simp [hg.2] at h
    · simp [h.1, h.2]
  · rfl

theorem verdict_raised {cfg : Cfg} {e : Entry} {t : List (Req × Ans)} {ex : Exn}
    (h : Rej t ∨ ((cur cfg t).hookFault = true ∨
      (((cur cfg t).fault = false ∨ (cur cfg t).opAfterFault = false) ∧ MayP (cur cfg t) t ex))) :
    Mon.C11.ok cfg e t.reverse (.raised ex) = true := by
  rw [ok_unfold]
  split
  · rename_i hg
    rw [rejected_reverse, attemptHookFault_reverse, ← hookFault_fold cfg] at hg
    simp only [Bool.and_eq_true, Bool.not_eq_true'] at hg
    rcases h with h | h | h
    · simp [Rej, hg.1.2] at h
    · simp [hg.2] at h
    · have hm := mayPropagate_of h.2
      rw [run_reverse] at hm
      simp only [run_reverse]
      rcases h.1 with h1 | h1 <;> simp [h1, hm]
  · rfl

/--
**C11.**  For every configuration, every entry point and every world, the run satisfies the monitor
`Mon.C11.ok` (see `Monitors.lean` for its text; the conjuncts are restated one by one below).
-/
theorem execute_faithful (cfg : Cfg) (e : Entry) (w : World) :
    Mon.C11.ok cfg e (runEntry cfg e w).2.trace.reverse (runEntry cfg e w).1 = true := by
  cases e with
  | call => simp [Mon.C11.ok, Entry.isExecute]
  | pcall => simp [Mon.C11.ok, Entry.isExecute]
  | execute =>
    have := adequacy (runExecute_spec cfg) (C04.startWorld w) (C04.cur_start cfg w)
    simp only [runEntry, C04.startWorld] at this ⊢
    split at this <;> rename_i heq <;> simp only [heq, toResO]
    · exact verdict_outcome (Or.inr (by simpa [OutOK, HF, view] using this))
    · refine verdict_raised (Or.inr ?_)
      rcases this with h | h
      · exact Or.inl h
      · exact Or.inr ⟨Or.inr h.1, h.2⟩
  | pexecute =>
    cases hret : cfg.hasRetry with
    | false => simp [Mon.C11.ok, hasLoop, hret, Entry.isPolicy]
    | true =>
      have := adequacy (execute_retry_spec cfg hret) (C04.startWorld w) (C04.cur_start cfg w)
      simp only [runEntry, C04.startWorld] at this ⊢
      split at this <;> rename_i heq <;> simp only [heq, toResO]
      · exact verdict_outcome (by simpa [FinX, OutOK, HF, view] using this)
      · exact verdict_raised (by simpa [FinX, RaiseOK', HF, view] using this)

theorem execute_faithful_script (cfg : Cfg) : ∀ (steps : List Step) (w : World),
    ∀ l ∈ (runScript cfg steps w).1, Mon.C11.ok cfg l.entry l.trace l.res = true := by
  intro steps
  induction steps with
  | nil => intro w l hl; simp [runScript] at hl
  | cons st rest ih =>
    intro w l hl
    cases st with
    | advance d => exact ih _ l (by simpa [runScript] using hl)
    | run e =>
      simp only [runScript, List.mem_cons] at hl
      rcases hl with rfl | hl
      · exact execute_faithful cfg e w
      · exact ih _ l hl

/-! ### the conjuncts of the property, one by one (corollaries of `execute_faithful`) -/

/-- the monitor speaks about this run: an execute() entry with a retry loop, not rejected by the
    breaker, in which no attempt hook and no abort predicate raised -/
def applies (cfg : Cfg) (e : Entry) (t : Trace) : Bool :=
  hasLoop cfg e && e.isExecute && !Mon.rejected t && !Mon.attemptHookFault t

theorem step_deferred_delay (cfg : Cfg) (s : St) (x : Req × Ans)
    (h : s.deferred = true → s.delay.isSome = true) :
    (step cfg s x).deferred = true → (step cfg s x).delay.isSome = true := by
  obtain ⟨r, a⟩ := x
  cases r <;> cases a <;> simp [step, faultBy] <;> (repeat' split) <;> simp_all [record]

theorem deferred_delay (cfg : Cfg) (t : List (Req × Ans)) :
    (cur cfg t).deferred = true → (cur cfg t).delay.isSome = true := by
  induction t with
  | nil => intro h; cases h
  | cons x t ih => exact step_deferred_delay cfg _ x ih

section conjuncts
variable (cfg : Cfg) (e : Entry) (w : World)

/-- the monitor's three parts for an outcome -/
theorem outcome_verdict (o : Outcome) (tl : List TimelineEv)
    (happ : applies cfg e (runEntry cfg e w).2.trace.reverse = true)
    (hr : (runEntry cfg e w).1 = .outcome o tl) :
    let s := run cfg (runEntry cfg e w).2.trace.reverse
    s.fault = false ∧ outcomeOk cfg s o = true := by
  have h := execute_faithful cfg e w
  rw [ok_unfold, hr] at h
  unfold applies at happ
  simp only [happ, if_true, Bool.and_eq_true, Bool.or_eq_true, Bool.not_eq_true'] at h
  obtain ⟨h1, h2⟩ := h
  refine ⟨?_, h2⟩
  rcases h1 with h1 | h1
  · exact h1
  · simp at h1

/-- **attempts_eq_invocations.**  `attempts` of the outcome is the number of times the operation
    was invoked. -/
theorem attempts_eq_invocations (o : Outcome) (tl : List TimelineEv)
    (happ : applies cfg e (runEntry cfg e w).2.trace.reverse = true)
    (hr : (runEntry cfg e w).1 = .outcome o tl) :
    o.attempts = (run cfg (runEntry cfg e w).2.trace.reverse).ops := by
  have h := (outcome_verdict cfg e w o tl happ hr).2
  simp only [outcomeOk, Bool.and_eq_true, beq_iff_eq] at h
  exact h.1.1

/-- **ok_iff_final_success.**  `ok` is true exactly when the LAST invocation returned a value that
    was classified as success, no earlier invocation's was, and no `record_success` hook of a
    strategy aborted the run; `value` is then the object that invocation returned, and the failure
    fields are all None. -/
theorem ok_iff_final_success (o : Outcome) (tl : List TimelineEv)
    (happ : applies cfg e (runEntry cfg e w).2.trace.reverse = true)
    (hr : (runEntry cfg e w).1 = .outcome o tl) :
    let s := run cfg (runEntry cfg e w).2.trace.reverse
    (o.ok = (s.succeeded && !s.earlierSuccess && !s.abortedSuccess)) ∧
    (o.ok = true → o.value = s.opVal ∧ s.opVal.isSome = true ∧ o.stop = none ∧ o.lastClass = none ∧
      o.lastExc = none ∧ o.lastResult = none ∧ o.cause = none ∧ o.nextSleep = none) := by
  have h := (outcome_verdict cfg e w o tl happ hr).2
  simp only [outcomeOk, Bool.and_eq_true, beq_iff_eq] at h
  refine ⟨h.1.2, fun hok => ?_⟩
  have h3 := h.2
  rw [hok] at h3
  simpa [C11.successOk, and_assoc] using h3

/-- **failure_fields_describe_final_failure.**  When `ok` is false: a stop reason is set; `cause`,
    `last_class`, `last_exception` / `last_result` are those of the last RECORDED failure (the
    first classification after the invocation that failed, its exception object or returned
    value), exactly one of `last_exception` / `last_result` is set (none of the failure fields if
    nothing was recorded), and unless the run was ABORTED that failure is the final attempt's; an
    outcome without any invocation is either ABORTED or the `max_attempts = 0` case. -/
theorem failure_fields_describe_final_failure (o : Outcome) (tl : List TimelineEv)
    (happ : applies cfg e (runEntry cfg e w).2.trace.reverse = true)
    (hr : (runEntry cfg e w).1 = .outcome o tl) (hok : o.ok = false) :
    let s := run cfg (runEntry cfg e w).2.trace.reverse
    o.value = none ∧ o.stop.isSome = true ∧ o.cause = s.recCause ∧ o.lastClass = s.recCls.map (·.klass) ∧
    o.lastExc = s.recExc.map Exn.ref ∧ o.lastResult = s.recVal ∧
    (s.recCause = some .exception → s.recExc.isSome = true ∧ s.recVal = none) ∧
    (s.recCause = some .result → s.recVal.isSome = true ∧ s.recExc = none) ∧
    (s.recCause = none → s.recExc = none ∧ s.recVal = none ∧ s.recCls = none) ∧
    (o.stop = some .aborted ∨ s.recAt = s.ops) ∧
    (o.stop = some .aborted ∨ s.ops ≠ 0 ∨ (cfg.maxAttempts = 0 ∧ o.stop = some .maxAttemptsGlobal)) := by
  have h := (outcome_verdict cfg e w o tl happ hr).2
  simp only [outcomeOk, Bool.and_eq_true, beq_iff_eq] at h
  have h3 := h.2
  rw [hok] at h3
  simp only [Bool.false_eq_true, if_false, C11.failureOk, Bool.and_eq_true, beq_iff_eq, Bool.or_eq_true,
    Option.isNone_iff_eq_none, bne_iff_ne, ne_eq] at h3
  obtain ⟨⟨⟨⟨⟨⟨⟨⟨⟨⟨⟨a1, a2⟩, a3⟩, a4⟩, a5⟩, a6⟩, a7⟩, a8⟩, a9⟩, a10⟩, a11⟩, a12⟩ := h3
  refine ⟨a1, a2, a6, a7, a8, a9, ?_, ?_, ?_, a11, ?_⟩
  · intro hc; rw [hc] at a10; simpa using a10
  · intro hc; rw [hc] at a10; simpa using a10
  · intro hc; rw [hc] at a10; simpa [and_assoc] using a10
  · rcases a12 with (a | a) | a
    · exact Or.inl a
    · exact Or.inr (Or.inl a)
    · exact Or.inr (Or.inr a)

/-- **next_sleep_iff_scheduled.**  When `ok` is false: the stop reason is SCHEDULED exactly when the
    sleep handler of the final attempt answered DEFER, and `next_sleep_s` is then the delay that
    handler was offered and otherwise None — so `next_sleep_s` is set exactly for deferred runs. -/
theorem next_sleep_iff_scheduled (o : Outcome) (tl : List TimelineEv)
    (happ : applies cfg e (runEntry cfg e w).2.trace.reverse = true)
    (hr : (runEntry cfg e w).1 = .outcome o tl) (hok : o.ok = false) :
    let s := run cfg (runEntry cfg e w).2.trace.reverse
    (o.stop = some .scheduled ↔ s.deferred = true) ∧
    o.nextSleep = (if s.deferred then s.delay else none) ∧
    (o.nextSleep.isSome = true ↔ o.stop = some .scheduled) := by
  have h := (outcome_verdict cfg e w o tl happ hr).2
  simp only [outcomeOk, Bool.and_eq_true, beq_iff_eq] at h
  have h3 := h.2
  rw [hok] at h3
  simp only [Bool.false_eq_true, if_false, C11.failureOk, Bool.and_eq_true, beq_iff_eq] at h3
  obtain ⟨⟨⟨⟨⟨⟨⟨⟨⟨⟨⟨a1, a2⟩, a3⟩, a4⟩, a5⟩, a6⟩, a7⟩, a8⟩, a9⟩, a10⟩, a11⟩, a12⟩ := h3
  have hd := deferred_delay cfg (runEntry cfg e w).2.trace
  rw [← run_reverse] at hd
  have h1 : (o.stop = some .scheduled ↔ (run cfg (runEntry cfg e w).2.trace.reverse).deferred = true) := by
    cases hdf : (run cfg (runEntry cfg e w).2.trace.reverse).deferred <;> simp_all
  refine ⟨h1, a4, ?_⟩
  rw [a4, h1]
  cases hdf : (run cfg (runEntry cfg e w).2.trace.reverse).deferred
  · simp
  · simpa using hd hdf

/-- **propagation (⊆).**  What comes out of execute() as an exception is: something the LAST
    invocation of the operation raised that is not an `Exception` (cancellation kinds) or is a
    RetryExhaustedError (nested policy); or an error raised by one of the caller's callbacks; or
    the ValueError for a sleep handler that did not return a SleepDecision (`stuck`: model only). -/
theorem propagation (ex : Exn)
    (happ : applies cfg e (runEntry cfg e w).2.trace.reverse = true)
    (hr : (runEntry cfg e w).1 = .raised ex) :
    C11.mayPropagate (run cfg (runEntry cfg e w).2.trace.reverse) (runEntry cfg e w).2.trace.reverse ex = true := by
  have h := execute_faithful cfg e w
  rw [ok_unfold, hr] at h
  unfold applies at happ
  simp only [happ, if_true, Bool.and_eq_true] at h
  exact h.2

/-- execute() never returns like call() -/
theorem never_ret (v : Nat)
    (happ : applies cfg e (runEntry cfg e w).2.trace.reverse = true) : (runEntry cfg e w).1 ≠ .ret v := by
  intro hr
  have h := execute_faithful cfg e w
  rw [ok_unfold, hr] at h
  unfold applies at happ
  simp [happ] at h

/-- **propagation (⊇) — the F5 regression theorem.**  If a strategy, a strategy's
    `record_failure` / `record_success`, the classifier, the result classifier, the sleep handler
    or the sleeper raised anything but an abort (`fault`), then execute() ends with an exception
    — it does not return an outcome, so the error was not swallowed — and the operation was not
    invoked again afterwards — so the error was not handled as a failed attempt and retried.  In
    particular this holds after the operation has RETURNED (the `attempt_state.returned` repair). -/
theorem callback_errors_propagate
    (happ : applies cfg e (runEntry cfg e w).2.trace.reverse = true)
    (hf : (run cfg (runEntry cfg e w).2.trace.reverse).fault = true) :
    (∃ ex, (runEntry cfg e w).1 = .raised ex) ∧
      (run cfg (runEntry cfg e w).2.trace.reverse).opAfterFault = false := by
  have h := execute_faithful cfg e w
  rw [ok_unfold] at h
  unfold applies at happ
  simp only [happ, if_true, Bool.and_eq_true, Bool.or_eq_true, Bool.not_eq_true', hf] at h
  obtain ⟨h1, _⟩ := h
  rcases h1 with h1 | ⟨h1, h2⟩
  · cases h1
  · refine ⟨?_, h2⟩
    cases hr : (runEntry cfg e w).1 with
    | raised ex => exact ⟨ex, rfl⟩
    | ret v => rw [hr] at h1; simp at h1
    | outcome o tl => rw [hr] at h1; simp at h1

/-- …equivalently: an outcome is returned only if no such callback raised. -/
theorem outcome_means_no_callback_error (o : Outcome) (tl : List TimelineEv)
    (happ : applies cfg e (runEntry cfg e w).2.trace.reverse = true)
    (hr : (runEntry cfg e w).1 = .outcome o tl) :
    (run cfg (runEntry cfg e w).2.trace.reverse).fault = false :=
  (outcome_verdict cfg e w o tl happ hr).1

end conjuncts

/-! Non-vacuity: as for C04 the hypotheses are about `runEntry`; the instances are exhibited through
    the compiled driver by `harness/families/loop.py` (every stop reason × cause × abort point is
    counted in its `distribution`).  At the level of the monitor alone: -/

/-- an ABORTED outcome carrying the failure recorded for an EARLIER attempt is accepted … -/
example : Mon.C11.ok { abortIf := true } .execute
    [(.abortIf, .bool false 0), (.op 1, .raise (.ordinary 1 .transient) 0), (.abortIf, .bool false 0),
     (.classify "o1", .klass ⟨.transient, none⟩ 0), (.abortIf, .bool false 0),
     (.strategy .default .ctx ⟨1, .transient, none, none, 60, .exception⟩, .delay (.fin 1) 0),
     (.sleeper .dflt 1, .unit 0), (.abortIf, .bool false 0), (.op 2, .raise (.ordinary 2 .unknown) 0),
     (.abortIf, .bool true 0)]
    (.outcome { ok := false, value := none, stop := some .aborted, attempts := 2, lastClass := some .transient,
                lastExc := some "o1", lastResult := none, cause := some .exception, elapsed := 0,
                nextSleep := none } []) = true := by decide

/-- … but not one that claims the LAST attempt's exception, which was never recorded -/
example : Mon.C11.ok { abortIf := true } .execute
    [(.abortIf, .bool false 0), (.op 1, .raise (.ordinary 1 .transient) 0), (.abortIf, .bool false 0),
     (.classify "o1", .klass ⟨.transient, none⟩ 0), (.abortIf, .bool false 0),
     (.strategy .default .ctx ⟨1, .transient, none, none, 60, .exception⟩, .delay (.fin 1) 0),
     (.sleeper .dflt 1, .unit 0), (.abortIf, .bool false 0), (.op 2, .raise (.ordinary 2 .unknown) 0),
     (.abortIf, .bool true 0)]
    (.outcome { ok := false, value := none, stop := some .aborted, attempts := 2, lastClass := some .unknown,
                lastExc := some "o2", lastResult := none, cause := some .exception, elapsed := 0,
                nextSleep := none } []) = false := by decide

end Redress.Props.C11
