/-
  C16 — Sleep-handler protocol: SLEEP sleeps, DEFER schedules, ABORT aborts.

  Theorems are about `Mon.C16.ok` and its seven conjuncts (`handlerOk`, `sleepOk`, `deferOk`, `abortOk`,
  `otherOk`, `levelOk`, `skipOk`), the monitors the driver also evaluates on implementation traces: for
  EVERY configuration (handler / before_sleep / sleeper at policy level, call level, both, neither),
  EVERY answer stream (decision sequences, non-`SleepDecision` answers, durations, callback faults —
  attempt hooks included) and every entry point, the monitor accepts the model's run.  No hypotheses.

  Structure (as in C01): the monitor as a fold over the world's log (`cur`), a view (`view`: the
  monitor minus its `late` list, and — after a stop decision — `last_stop_reason`), leaf specs from the
  request-level footprints of `Lemmas/Footprint.lean` (`FX.*`, which also say where an exception comes
  from), the invariants `Idle` / `Pend` / `Prot` / `Stopd` / `FO`, one Hoare spec per procedure,
  induction on fuel for the loops, the policy wrappers, adequacy.
-/
import Redress.Lemmas.Footprint
import Redress.Monitors

open Std.Do

namespace Redress.Props.C16
open Redress Redress.Retry Redress.Mon Redress.Mon.C16 Redress.FX

/-- split every hypothesis that is a conjunction -/
macro "split_ands" : tactic => `(tactic| repeat (revert ‹_ ∧ _›; rintro ⟨_, _⟩))

/-! ### the monitor as a function of the world's (newest-first) log -/

def cur (cfg : Cfg) (tr : List (Req × Ans)) : St := tr.foldr (fun x s => step cfg s x) {}

@[simp] theorem cur_cons (cfg : Cfg) (x : Req × Ans) (t : List (Req × Ans)) :
    cur cfg (x :: t) = step cfg (cur cfg t) x := rfl

theorem run_reverse (cfg : Cfg) (t : List (Req × Ans)) : run cfg t.reverse = cur cfg t := by
  simp [run, cur, List.foldl_reverse]

/-- forget the errors collected after a stop decision: they are only ever used as an excuse -/
def mask (m : St) : St := { m with late := [] }

/-- requests that can only add to `late` -/
def inertQ : Req → Bool
  | .op _ | .strategy .. | .budgetConsume | .sleepHandler .. | .beforeSleep .. | .sleeper .. => false
  | _ => true

theorem step_inert (cfg : Cfg) (s : St) (x : Req × Ans) (h : inertQ x.1 = true) :
    mask (step cfg s x) = mask s := by
  obtain ⟨r, a⟩ := x
  cases r <;> simp_all [inertQ, step, mask]

theorem step_inert_late (cfg : Cfg) (s : St) (x : Req × Ans) (h : inertQ x.1 = true) :
    (step cfg s x).late = if s.stopped.isSome then
        (match raisedOf x with
         | some e => e :: s.late
         | none => s.late)
      else s.late := by
  obtain ⟨r, a⟩ := x
  cases r <;> first | rfl | (simp [inertQ] at h)

theorem cur_append_inert (cfg : Cfg) (δ t : List (Req × Ans)) (h : ∀ x ∈ δ, inertQ x.1 = true) :
    mask (cur cfg (δ ++ t)) = mask (cur cfg t) := by
  induction δ with
  | nil => rfl
  | cons x δ ih =>
    have hx := h x (by simp)
    have := ih (fun y hy => h y (by simp [hy]))
    simp only [List.cons_append, cur_cons]
    rw [step_inert _ _ _ hx, this]

theorem mask_stopped {m m' : St} (h : mask m' = mask m) : m'.stopped = m.stopped := by
  have := congrArg St.stopped h
  simpa [mask] using this

/-- `late` only grows under inert exchanges -/
theorem late_mono (cfg : Cfg) (δ t : List (Req × Ans)) (h : ∀ x ∈ δ, inertQ x.1 = true) (e : Exn)
    (he : e ∈ (cur cfg t).late) : e ∈ (cur cfg (δ ++ t)).late := by
  induction δ with
  | nil => exact he
  | cons x δ ih =>
    have hx := h x (by simp)
    have := ih (fun y hy => h y (by simp [hy]))
    simp only [List.cons_append, cur_cons]
    rw [step_inert_late _ _ _ hx]
    split
    · split <;> simp [this]
    · exact this

theorem swallows_eq (r : Req) : Mon.C16.swallows r = FX.swallowed r := by
  cases r <;> rfl

/-- after a stop decision, an error a callback raises (and the library does not swallow) is recorded -/
theorem late_of_raised (cfg : Cfg) (δ t : List (Req × Ans)) (h : ∀ x ∈ δ, inertQ x.1 = true) (e : Exn)
    (hs : (cur cfg t).stopped.isSome = true) (hr : raisedIn e δ) : e ∈ (cur cfg (δ ++ t)).late := by
  obtain ⟨r, d, hm, hsw⟩ := hr
  induction δ with
  | nil => cases hm
  | cons x δ ih =>
    have hx := h x (by simp)
    have hδ : ∀ y ∈ δ, inertQ y.1 = true := fun y hy => h y (by simp [hy])
    simp only [List.cons_append, cur_cons]
    rw [step_inert_late _ _ _ hx]
    have hst : (cur cfg (δ ++ t)).stopped.isSome = true := by
      rw [mask_stopped (cur_append_inert cfg δ t hδ)]; exact hs
    rw [if_pos hst]
    rcases List.mem_cons.mp hm with rfl | hm
    · have : raisedOf (r, Ans.raise e d) = some e := by
        simp only [raisedOf, swallows_eq]
        cases hsr : FX.swallowed r
        · simp
        · simp [hsw hsr]
      rw [this]
      simp
    · have := ih hδ hm
      split <;> simp [this]

/-! ### the view -/

/-- what the C16 argument looks at: the monitor without its `late` list, and — once a stop decision
    has been taken — `state.last_stop_reason` -/
structure View where
  mon : St
  stop : Option StopReason

def view (cfg : Cfg) (w : World) : View :=
  ⟨mask (cur cfg w.trace), if (cur cfg w.trace).stopped.isSome then w.rs.lastStop else none⟩

theorem view_fx (cfg : Cfg) (w w' : World) (h : FootX inertQ w w') : view cfg w' = view cfg w := by
  obtain ⟨δ, e, k, _⟩ := h.trace
  have hm := cur_append_inert cfg δ w.trace k
  simp only [view, e, hm, mask_stopped hm, h.rs]

theorem view_fxs (cfg : Cfg) (w w' : World) (h : FootXS inertQ w w') (hs : (view cfg w).mon.stopped = none) :
    view cfg w' = view cfg w := by
  obtain ⟨δ, e, k, _⟩ := h.trace
  have hm := cur_append_inert cfg δ w.trace k
  have hs' : (cur cfg w.trace).stopped = none := by simpa [view, mask] using hs
  simp only [view, e, hm, mask_stopped hm, hs']
  rfl

theorem view_fxs_mon (cfg : Cfg) (w w' : World) (h : FootXS inertQ w w') : (view cfg w').mon = (view cfg w).mon := by
  obtain ⟨δ, e, k, _⟩ := h.trace
  simp only [view, e, cur_append_inert cfg δ w.trace k]

/-- where an exception comes from, as far as this property cares: before any stop decision anything
    goes; afterwards it is an error a callback raised since -/
def SrcL (cfg : Cfg) (e : Exn) (w : World) : Prop :=
  (cur cfg w.trace).stopped = none ∨ e = .stuck ∨ e ∈ (cur cfg w.trace).late

theorem srcL_of_prov {cfg : Cfg} {e : Exn} {w w' : World} (hf : FootXS inertQ w w') (h : Prov e w w') :
    SrcL cfg e w' := by
  obtain ⟨δ, e₁, k, _⟩ := hf.trace
  cases hs : (cur cfg w.trace).stopped with
  | none =>
    left
    rw [e₁, mask_stopped (cur_append_inert cfg δ w.trace k)]
    exact hs
  | some dec =>
    rcases h with rfl | ⟨δ', e₂, hr⟩
    · exact Or.inr (Or.inl rfl)
    · right; right
      have : δ' = δ := List.append_cancel_right (e₂.symm.trans e₁)
      subst this
      rw [e₁]
      exact late_of_raised cfg δ' w.trace k e (by simp [hs]) hr

/-- "the view is `v`" on both exits; the exception has a source -/
abbrev same (cfg : Cfg) (v : View) : PostCond α (.except Exn (.arg World .pure)) :=
  post⟨fun _ w => ⌜view cfg w = v⌝, fun e w => ⌜view cfg w = v ∧ SrcL cfg e w⌝⟩

theorem srcL_of_none {cfg : Cfg} {e : Exn} {w : World} (h : (view cfg w).mon.stopped = none) : SrcL cfg e w :=
  Or.inl (by simpa [view, mask] using h)

theorem same_of_fx {x : M α} (cfg : Cfg) (v : View)
    (hx : ∀ w0, ⦃fun w => ⌜FootX inertQ w0 w⌝⦄ x ⦃fxPost inertQ w0⦄) :
    ⦃fun w => ⌜view cfg w = v⌝⦄ x ⦃same cfg v⦄ := by
  apply triple_of_run
  intro w hw
  have := adequacy (hx w) w (FootX.refl w)
  split <;> simp_all
  · rw [← hw]; exact view_fx cfg _ _ this
  · refine ⟨by rw [← hw]; exact view_fx cfg _ _ this.foot, ?_⟩
    exact this.src.elim (fun h => h.elim) (srcL_of_prov this.foot.toS)

theorem same_of_fx' {x : M α} (cfg : Cfg) (v : View) {R : α → World → Prop}
    (hx : ∀ w0, ⦃fun w => ⌜FootX inertQ w0 w⌝⦄ x
      ⦃post⟨fun a w => ⌜R a w ∧ FootX inertQ w0 w⌝, fun e w => ⌜ExcX inertQ noOwn w0 w e⌝⟩⦄) :
    ⦃fun w => ⌜view cfg w = v⌝⦄ x
    ⦃post⟨fun a w => ⌜R a w ∧ view cfg w = v⌝, fun e w => ⌜view cfg w = v ∧ SrcL cfg e w⌝⟩⦄ := by
  apply triple_of_run
  intro w hw
  have := adequacy (hx w) w (FootX.refl w)
  split <;> simp_all
  · rw [← hw]; exact view_fx cfg _ _ this.2
  · refine ⟨by rw [← hw]; exact view_fx cfg _ _ this.foot, ?_⟩
    exact this.src.elim (fun h => h.elim) (srcL_of_prov this.foot.toS)

/-- leaves that may set `last_stop_reason`, used before any stop decision -/
theorem same_of_fxs {x : M α} (cfg : Cfg) (v : View) {Own : Exn → Prop} (hs : v.mon.stopped = none)
    (hx : ∀ w0, ⦃fun w => ⌜FootXS inertQ w0 w⌝⦄ x ⦃fxsPost inertQ w0 Own⦄) :
    ⦃fun w => ⌜view cfg w = v⌝⦄ x ⦃same cfg v⦄ := by
  apply triple_of_run
  intro w hw
  subst hw
  have := adequacy (hx w) w (FootXS.refl w)
  split <;> simp only [*] at this ⊢
  · exact view_fxs cfg _ _ this hs
  · have hv := view_fxs cfg _ _ this.foot hs
    exact ⟨hv, srcL_of_none (by rw [hv]; exact hs)⟩

theorem same_of_fxs' {x : M α} (cfg : Cfg) (v : View) {Own : Exn → Prop} {R : α → World → Prop}
    (hs : v.mon.stopped = none)
    (hx : ∀ w0, ⦃fun w => ⌜FootXS inertQ w0 w⌝⦄ x
      ⦃post⟨fun a w => ⌜R a w ∧ FootXS inertQ w0 w⌝, fun e w => ⌜ExcS inertQ Own w0 w e⌝⟩⦄) :
    ⦃fun w => ⌜view cfg w = v⌝⦄ x
    ⦃post⟨fun a w => ⌜R a w ∧ view cfg w = v⌝, fun e w => ⌜view cfg w = v ∧ SrcL cfg e w⌝⟩⦄ := by
  apply triple_of_run
  intro w hw
  subst hw
  have := adequacy (hx w) w (FootXS.refl w)
  split <;> simp only [*] at this ⊢
  · exact ⟨this.1, view_fxs cfg _ _ this.2 hs⟩
  · have hv := view_fxs cfg _ _ this.foot hs
    exact ⟨hv, srcL_of_none (by rw [hv]; exact hs)⟩

/-! ### leaf procedures -/
section leaves
variable (cfg : Cfg) (v : View) (tl : Bool)

theorem emit_v (ev : Event) (a s : Nat) (k : Option EClass) (e : Option Exn) (st : Option StopReason)
    (c : Option Cause) (cl : Option Classification) :
    ⦃fun w => ⌜view cfg w = v⌝⦄ emit cfg tl ev a s k e st c cl ⦃same cfg v⦄ :=
  same_of_fx cfg v (fun w0 => emit_fx _ w0 cfg tl ev a s k e st c cl (fun _ => rfl) (fun _ _ => rfl))

theorem recordStrategySuccess_v : ⦃fun w => ⌜view cfg w = v⌝⦄ recordStrategySuccess cfg ⦃same cfg v⦄ :=
  same_of_fx cfg v (fun w0 => recordStrategySuccess_fx _ w0 cfg (fun _ => rfl))

theorem stratRecordFailure_v (key : SKey) (k : EClass) :
    ⦃fun w => ⌜view cfg w = v⌝⦄ stratRecordFailure cfg key k ⦃same cfg v⦄ :=
  same_of_fx cfg v (fun w0 => stratRecordFailure_fx _ w0 cfg key k rfl)

theorem callClassifier_v (e : Exn) : ⦃fun w => ⌜view cfg w = v⌝⦄ callClassifier e ⦃same cfg v⦄ :=
  same_of_fx cfg v (fun w0 => callClassifier_fx _ w0 e rfl)

theorem shouldClassifyResult_v (x : Nat) : ⦃fun w => ⌜view cfg w = v⌝⦄ shouldClassifyResult cfg x ⦃same cfg v⦄ :=
  same_of_fx cfg v (fun w0 => shouldClassifyResult_fx _ w0 cfg x rfl)

theorem callAttemptStart_v (a : Nat) : ⦃fun w => ⌜view cfg w = v⌝⦄ callAttemptStart cfg a ⦃same cfg v⦄ :=
  same_of_fx cfg v (fun w0 => callAttemptStart_fx _ w0 cfg a (fun _ => rfl))

theorem callAttemptEndFromOutcome_v (a : Nat) (o : AOutcome) :
    ⦃fun w => ⌜view cfg w = v⌝⦄ callAttemptEndFromOutcome cfg a o ⦃same cfg v⦄ :=
  same_of_fx cfg v (fun w0 => callAttemptEndFromOutcome_fx _ w0 cfg a o (fun _ => rfl))

theorem handleSuccessAttemptEnd_v (a x : Nat) :
    ⦃fun w => ⌜view cfg w = v⌝⦄ handleSuccessAttemptEnd cfg tl a x ⦃same cfg v⦄ :=
  same_of_fx cfg v (fun w0 => handleSuccessAttemptEnd_fx _ w0 cfg tl a x (fun _ => rfl) (fun _ _ => rfl)
    (fun _ => rfl) (fun _ => rfl))

theorem handleAbortAttemptEnd_v (a : Nat) (e : Exn) :
    ⦃fun w => ⌜view cfg w = v⌝⦄ handleAbortAttemptEnd cfg a e ⦃same cfg v⦄ :=
  same_of_fx cfg v (fun w0 => handleAbortAttemptEnd_fx _ w0 cfg a e (fun _ => rfl))

/-- `_build_outcome`: after a stop decision the reported stop reason is the view's -/
theorem buildOutcome_v (ok : Bool) (value : Option Nat) (n : Nat) (ns : Option Nat) :
    ⦃fun w => ⌜view cfg w = v⌝⦄ buildOutcome ok value n ns
    ⦃post⟨fun o w => ⌜(o.ok = ok ∧ o.nextSleep = ns ∧ (ok = false → v.mon.stopped.isSome = true → o.stop = v.stop))
                      ∧ view cfg w = v⌝,
          fun e w => ⌜view cfg w = v ∧ SrcL cfg e w⌝⟩⦄ := by
  have h := same_of_fx' cfg v (fun w0 => buildOutcome_fx inertQ w0 ok value n ns)
  apply triple_of_run
  intro w hw
  have := adequacy h w hw
  split <;> simp_all
  obtain ⟨⟨h1, h2, h3⟩, hv⟩ := this
  intro hok hst
  subst hv
  simp only [view, mask] at hst ⊢
  simp [h3, hok, hst]

/-! leaves that may set `last_stop_reason`; used before a stop decision -/
variable (hs : v.mon.stopped = none)
include hs

theorem checkAbort_v (a : Nat) : ⦃fun w => ⌜view cfg w = v⌝⦄ checkAbort cfg tl a ⦃same cfg v⦄ :=
  same_of_fxs cfg v hs (fun w0 => checkAbort_fx _ w0 cfg tl a rfl (fun _ => rfl) (fun _ _ => rfl))

theorem stopWith_v (sr : StopReason) (ev : Event) (a : Nat) (k : EClass) (e : Option Exn) (c : Cause) :
    ⦃fun w => ⌜view cfg w = v⌝⦄ stopWith cfg tl sr ev a k e c
    ⦃post⟨fun d w => ⌜d = .raise ∧ view cfg w = v⌝, fun e w => ⌜view cfg w = v ∧ SrcL cfg e w⌝⟩⦄ :=
  same_of_fxs' cfg v hs (fun w0 => stopWith_fx _ w0 cfg tl sr ev a k e c (fun _ => rfl) (fun _ _ => rfl))

theorem setStop_v (sr : StopReason) : ⦃fun w => ⌜view cfg w = v⌝⦄ setStop sr ⦃same cfg v⦄ := by
  have := same_of_fxs' cfg v hs (fun w0 => setStop_fx inertQ w0 sr)
  exact Triple.entails_wp_of_post this (by simp_all)

theorem emitAbortedOnce_v (a : Nat) : ⦃fun w => ⌜view cfg w = v⌝⦄ emitAbortedOnce cfg tl a ⦃same cfg v⦄ := by
  have := same_of_fxs' cfg v hs (fun w0 => emitAbortedOnce_fx inertQ w0 cfg tl a (fun _ => rfl) (fun _ _ => rfl))
  exact Triple.entails_wp_of_post this (by simp_all)

theorem abortOutcome_v (a : Nat) : ⦃fun w => ⌜view cfg w = v⌝⦄ abortOutcome cfg tl a ⦃same cfg v⦄ := by
  have := same_of_fxs' cfg v hs (fun w0 => abortOutcome_fx inertQ w0 cfg tl a (fun _ => rfl) (fun _ _ => rfl))
  exact Triple.entails_wp_of_post this (by simp_all)

theorem raiseExhaustedCall_v : ⦃fun w => ⌜view cfg w = v⌝⦄ raiseExhaustedCall cfg ⦃same cfg v⦄ := by
  apply triple_of_run
  intro w hw
  subst hw
  have := adequacy (raiseExhaustedCall_fx inertQ w cfg (fun _ => rfl) (fun _ _ => rfl)) w (FootXS.refl w)
  split <;> simp only [*] at this ⊢
  · exact view_fxs cfg _ _ this hs
  · have hv := view_fxs cfg _ _ this.foot hs
    exact ⟨hv, srcL_of_none (by rw [hv]; exact hs)⟩

theorem buildExhaustedOutcome_v : ⦃fun w => ⌜view cfg w = v⌝⦄ buildExhaustedOutcome cfg tl ⦃same cfg v⦄ := by
  have := same_of_fxs' cfg v hs (fun w0 => buildExhaustedOutcome_fx inertQ w0 cfg tl (fun _ => rfl) (fun _ _ => rfl))
  exact Triple.entails_wp_of_post this (by simp_all)

end leaves

/-! ### the requests that move the monitor -/

theorem mask_step (cfg : Cfg) (m : St) (x : Req × Ans) : mask (step cfg m x) = mask (step cfg (mask m) x) := by
  obtain ⟨r, a⟩ := x
  cases r <;> simp [step, mask, grant] <;> (repeat' split) <;> simp_all [grant]

theorem stopped_step (cfg : Cfg) (m : St) (x : Req × Ans) :
    (step cfg m x).stopped = (step cfg (mask m) x).stopped := by
  have := congrArg St.stopped (mask_step cfg m x)
  simpa [mask] using this

/-- the view as a function of the two things it depends on -/
def viewOf (cfg : Cfg) (tr : List (Req × Ans)) (ls : Option StopReason) : View :=
  ⟨mask (cur cfg tr), if (cur cfg tr).stopped.isSome then ls else none⟩

theorem view_eq_viewOf (cfg : Cfg) (w : World) : view cfg w = viewOf cfg w.trace w.rs.lastStop := rfl

/-- the view after one exchange -/
theorem viewOf_step (cfg : Cfg) (r : Req) (a : Ans) (tr : List (Req × Ans)) (ls : Option StopReason) :
    viewOf cfg ((r, a) :: tr) ls =
      ⟨mask (step cfg (viewOf cfg tr ls).mon (r, a)),
       if (step cfg (viewOf cfg tr ls).mon (r, a)).stopped.isSome then ls else none⟩ := by
  simp only [viewOf, cur_cons, mask_step cfg (cur cfg tr), stopped_step cfg (cur cfg tr)]
  rfl

/-! ### the invariants -/

/-- no violation so far -/
structure Clean (m : St) : Prop where
  handler : m.badHandler = false
  sleep : m.badSleep = false
  stop : m.badStop = false
  level : m.badLevel = false
  skip : m.badSkip = false

/-- no retry is waiting for its sleep and no stop decision has been taken -/
structure Idle (m : St) : Prop where
  clean : Clean m
  pending : m.pending = false
  stopped : m.stopped = none
  late : m.late = []

/-- a retry was granted; the sleep handler has not been consulted yet -/
structure Pend (m : St) : Prop where
  clean : Clean m
  pending : m.pending = true
  handler : m.handler = none
  calls : m.handlerCalls = 0
  before : m.before = none
  stopped : m.stopped = none
  late : m.late = []

theorem Idle.grant {m : St} (h : Idle m) : Pend (grant m) := by
  obtain ⟨⟨h1, h2, h3, h4, h5⟩, hp, hs, hl⟩ := h
  refine ⟨⟨h1, h2, ?_, h4, ?_⟩, rfl, rfl, rfl, rfl, hs, hl⟩
  · show (m.badStop || m.stopped.isSome) = false
    simp [h3, hs]
  · show (m.badSkip || m.pending) = false
    simp [h5, hp]

theorem step_op_idle (cfg : Cfg) (m : St) (n : Nat) (a : Ans) (h : Idle m) : step cfg m (.op n, a) = m := by
  obtain ⟨⟨h1, h2, h3, h4, h5⟩, hp, hs, hl⟩ := h
  cases m
  simp_all [step]

theorem step_strategy_idle (cfg : Cfg) (m : St) (k : SKey) (kd : SKind) (c : BackoffCtx) (a : Ans) (h : Idle m) :
    step cfg m (.strategy k kd c, a) =
      (match a with
       | .delay .. => if cfg.budget.isNone then grant m else m
       | _ => m) := by
  obtain ⟨⟨h1, h2, h3, h4, h5⟩, hp, hs, hl⟩ := h
  cases m
  cases a <;> simp_all [step]

theorem step_budget_idle (cfg : Cfg) (m : St) (g : Bool) (h : Idle m) :
    step cfg m (.budgetConsume, .granted g) = if g then grant m else m := by
  obtain ⟨⟨h1, h2, h3, h4, h5⟩, hp, hs, hl⟩ := h
  cases m
  cases g <;> simp_all [step]

/-- inside the sleep protocol of a granted retry with delay `d`: the handler (if any) said SLEEP;
    `b` tells whether `before_sleep` has run -/
structure Prot (cfg : Cfg) (d : Nat) (b : Bool) (m : St) : Prop where
  clean : Clean m
  pending : m.pending = true
  stopped : m.stopped = none
  late : m.late = []
  handler : cfg.handler.isSome = true → m.handler = some (.sleep, d)
  before : m.before = if b then some d else none

/-- a stop decision `dec` was taken for the delay `d` -/
structure Stopd (dec : SleepDecision) (d : Nat) (m : St) : Prop where
  clean : Clean m
  stopped : m.stopped = some dec
  ne : dec ≠ .sleep
  defer : dec = .defer → m.deferD = some d

theorem Pend.prot {cfg : Cfg} {m : St} (h : Pend m) (d : Nat) (hh : cfg.handler = none) : Prot cfg d false m :=
  ⟨h.clean, h.pending, h.stopped, h.late, by simp [hh], by simp [h.before]⟩

/-- the handler's answer, seen by the monitor (masked) -/
theorem step_handler_pend (cfg : Cfg) (m : St) (lvl : Lvl) (c : BackoffCtx) (d : Nat) (a : Ans) (h : Pend m)
    (hl : cfg.handler = some lvl) :
    (∀ dur, a = .decision .sleep dur → Prot cfg d false (mask (step cfg m (.sleepHandler lvl c d, a)))) ∧
    (∀ dec dur, a = .decision dec dur → dec ≠ .sleep → Stopd dec d (mask (step cfg m (.sleepHandler lvl c d, a)))) ∧
    ((∀ dec dur, a ≠ .decision dec dur) → Clean (mask (step cfg m (.sleepHandler lvl c d, a))) ∧
        (mask (step cfg m (.sleepHandler lvl c d, a))).stopped = none) := by
  obtain ⟨⟨h1, h2, h3, h4, h5⟩, hp, hh, hc, hb, hs, hla⟩ := h
  cases m
  refine ⟨?_, ?_, ?_⟩
  · intro dur ha; subst ha
    refine ⟨⟨?_, ?_, ?_, ?_, ?_⟩, ?_, ?_, ?_, ?_, ?_⟩ <;> simp_all [step, mask]
  · intro dec dur ha hne; subst ha
    refine ⟨⟨?_, ?_, ?_, ?_, ?_⟩, ?_, hne, ?_⟩ <;> cases dec <;> simp_all [step, mask]
  · intro hna
    refine ⟨⟨?_, ?_, ?_, ?_, ?_⟩, ?_⟩ <;> cases a <;> simp_all [step, mask]

theorem step_before_prot (cfg : Cfg) (m : St) (lvl : Lvl) (c : BackoffCtx) (d : Nat) (a : Ans)
    (h : Prot cfg d false m) (hl : cfg.beforeSleep = some lvl) :
    Prot cfg d true (mask (step cfg m (.beforeSleep lvl c d, a))) := by
  obtain ⟨⟨h1, h2, h3, h4, h5⟩, hp, hs, hla, hh, hb⟩ := h
  cases m
  refine ⟨⟨?_, ?_, ?_, ?_, ?_⟩, ?_, ?_, ?_, ?_, ?_⟩ <;> simp_all [step, mask]
  all_goals (cases hc : cfg.handler <;> simp_all)

theorem step_sleeper_prot (cfg : Cfg) (m : St) (d : Nat) (a : Ans) (h : Prot cfg d cfg.beforeSleep.isSome m) :
    Idle (mask (step cfg m (.sleeper cfg.sleeper d, a))) := by
  obtain ⟨⟨h1, h2, h3, h4, h5⟩, hp, hs, hla, hh, hb⟩ := h
  cases m
  refine ⟨⟨?_, ?_, ?_, ?_, ?_⟩, ?_, ?_, ?_⟩ <;> simp_all [step, mask]
  all_goals (first | (cases hc : cfg.handler <;> simp_all; done) | (cases hc : cfg.beforeSleep <;> simp_all; done))

theorem mask_idem (m : St) : mask (mask m) = mask m := rfl

theorem Idle.mask {m : St} (h : Idle m) : mask m = m := by
  have hl := h.late
  cases m
  simp only [C16.mask] at *
  simp_all

theorem viewOf_stop_none (cfg : Cfg) (tr : List (Req × Ans)) (ls : Option StopReason)
    (h : (viewOf cfg tr ls).mon.stopped = none) : (viewOf cfg tr ls).stop = none := by
  have : (cur cfg tr).stopped = none := by simpa [viewOf, mask] using h
  simp [viewOf, this]

theorem srcL_of_view {cfg : Cfg} {e : Exn} {w : World} {v : View} (hv : view cfg w = v)
    (h : v.mon.stopped = none) : SrcL cfg e w := srcL_of_none (by rw [hv]; exact h)

theorem viewOf_op_idle (cfg : Cfg) (n : Nat) (a : Ans) (tr : List (Req × Ans)) (ls : Option StopReason)
    (h : Idle (viewOf cfg tr ls).mon) : viewOf cfg ((Req.op n, a) :: tr) ls = viewOf cfg tr ls := by
  rw [viewOf_step, step_op_idle cfg _ n a h, h.mask]
  have h2 := viewOf_stop_none cfg tr ls h.stopped
  have h3 := h.stopped
  cases hv : viewOf cfg tr ls
  simp_all

/-- the operation's invocation does not move an idle monitor -/
theorem invokeOp_spec (cfg : Cfg) (v : View) (a : Nat) (hi : Idle v.mon) :
    ⦃fun w => ⌜view cfg w = v⌝⦄ invokeOp a ⦃same cfg v⦄ := by
  mvcgen [invokeOp, ask]
  all_goals (subst_vars; intros)
  all_goals first
    | exact viewOf_op_idle cfg _ _ _ _ hi
    | exact ⟨viewOf_op_idle cfg _ _ _ _ hi, srcL_of_view (viewOf_op_idle cfg _ _ _ _ hi) hi.stopped⟩

/-- before any stop decision -/
structure PreStop (m : St) : Prop where
  clean : Clean m
  stopped : m.stopped = none

theorem Idle.pre {m : St} (h : Idle m) : PreStop m := ⟨h.clean, h.stopped⟩
theorem Pend.pre {m : St} (h : Pend m) : PreStop m := ⟨h.clean, h.stopped⟩

theorem Pend.mask {m : St} (h : Pend m) : mask m = m := by
  have hl := h.late
  cases m
  simp only [C16.mask] at *
  simp_all

theorem viewOf_strategy_idle (cfg : Cfg) (k : SKey) (kd : SKind) (c : BackoffCtx) (a : Ans)
    (tr : List (Req × Ans)) (ls : Option StopReason) (h : Idle (viewOf cfg tr ls).mon) :
    (∀ out d, a = .delay out d → cfg.budget = none → Pend (viewOf cfg ((.strategy k kd c, a) :: tr) ls).mon) ∧
    (((∀ out d, a ≠ .delay out d) ∨ cfg.budget ≠ none) → Idle (viewOf cfg ((.strategy k kd c, a) :: tr) ls).mon) := by
  rw [viewOf_step, step_strategy_idle cfg _ k kd c a h]
  constructor
  · intro out d ha hb
    subst ha
    simp only [hb, Option.isNone_none, if_true]
    rw [h.grant.mask]
    exact h.grant
  · intro hc
    rcases hc with hc | hc
    · cases a <;> simp_all [h.mask]
    · cases a <;> simp_all [h.mask]

theorem callStrategy_spec (cfg : Cfg) (v : View) (k : SKey) (kd : SKind) (c : BackoffCtx) (hi : Idle v.mon) :
    ⦃fun w => ⌜view cfg w = v⌝⦄ callStrategy k kd c
    ⦃post⟨fun _ w => ⌜(cfg.budget = none → Pend (view cfg w).mon) ∧ (cfg.budget ≠ none → Idle (view cfg w).mon)⌝,
          fun _ w => ⌜Idle (view cfg w).mon⌝⟩⦄ := by
  mvcgen [callStrategy, ask]
  all_goals (subst_vars; intros)
  all_goals (have key := fun a tr ls h => viewOf_strategy_idle cfg k kd c a tr ls h)
  all_goals first
    | exact ⟨fun hb => (key _ _ _ hi).1 _ _ rfl hb, fun hb => (key _ _ _ hi).2 (Or.inr hb)⟩
    | exact (key _ _ _ hi).2 (Or.inl (by intros; simp_all))

theorem viewOf_budget_idle (cfg : Cfg) (g : Bool) (tr : List (Req × Ans)) (ls : Option StopReason)
    (h : Idle (viewOf cfg tr ls).mon) :
    (g = true → Pend (viewOf cfg ((.budgetConsume, .granted g) :: tr) ls).mon) ∧
    (g = false → Idle (viewOf cfg ((.budgetConsume, .granted g) :: tr) ls).mon) := by
  rw [viewOf_step, step_budget_idle cfg _ g h]
  cases g
  · simp [h.mask, h]
  · simp [h.grant.mask, h.grant]

/-- the budget's verdict: with a budget, a granted token grants the retry -/
theorem budgetConsume_spec (cfg : Cfg) (v : View) (hp : cfg.budget = none → Pend v.mon)
    (hi : cfg.budget ≠ none → Idle v.mon) :
    ⦃fun w => ⌜view cfg w = v⌝⦄ budgetConsume cfg
    ⦃post⟨fun g w => ⌜(g = true → Pend (view cfg w).mon) ∧ (g = false → Idle (view cfg w).mon)⌝,
          fun _ _ => ⌜False⌝⟩⦄ := by
  mvcgen [budgetConsume]
  all_goals (subst_vars; intros)
  · simp_all
  · rename_i bc hb s
    exact viewOf_budget_idle cfg _ s.trace s.rs.lastStop (hi (by simp [hb]))

/-! ### the failure handler: inert until the strategy is asked -/

theorem view_setPrev (cfg : Cfg) (w : World) (p : Option Nat) :
    view cfg { w with rs := { w.rs with prevSleep := p } } = view cfg w := rfl
theorem view_setLastStrategy (cfg : Cfg) (w : World) (k : Option SKey) :
    view cfg { w with rs := { w.rs with lastStrategy := k } } = view cfg w := rfl
theorem view_recordFailure (cfg : Cfg) (w : World) (a : Option EClass) (b : Option Classification)
    (c : Option Cause) (d : Option Exn) (e : Option Nat) :
    view cfg { w with rs := { w.rs with lastClass := a, lastClassification := b, lastCause := c, lastExc := d,
                                        lastResult := e } } = view cfg w := rfl
theorem view_setCounts (cfg : Cfg) (w : World) (f : EClass → Nat) :
    view cfg { w with rs := { w.rs with perClassCounts := f } } = view cfg w := rfl
theorem view_setUnknown (cfg : Cfg) (w : World) (n : Nat) :
    view cfg { w with rs := { w.rs with unknownAttempts := n } } = view cfg w := rfl
theorem view_setAs (cfg : Cfg) (w : World) (x : AState) : view cfg { w with as := x } = view cfg w := rfl
theorem view_setAttempts (cfg : Cfg) (w : World) (x : Nat) : view cfg { w with attempts := x } = view cfg w := rfl
theorem view_setAsAttempts (cfg : Cfg) (w : World) (x : AState) (n : Nat) :
    view cfg { w with as := x, attempts := n } = view cfg w := rfl
theorem view_setTl (cfg : Cfg) (w : World) (n : Nat) (tl : List TimelineEv) :
    view cfg { w with tlStart := n, timeline := tl } = view cfg w := rfl

/-- normalise all views and let `simp_all` do the propositional part -/
macro "c16_finish" : tactic => `(tactic| all_goals (
  (try split_ands) <;> (try subst_vars) <;> (try intros) <;>
  first
    | (simp_all +zetaDelta [view_setPrev, view_setLastStrategy, view_recordFailure, view_setCounts,
        view_setUnknown, view_setAs, view_setAttempts, view_setAsAttempts, view_setTl, restore_dummy, Pend.pre, Idle.pre, Idle.stopped, Pend.stopped, PreStop.stopped];
       done)
    | skip))

/-- what a failed attempt leaves behind: no stop decision yet; a granted retry waits for its sleep -/
abbrev failPost (cfg : Cfg) : PostCond Decision (.except Exn (.arg World .pure)) :=
  post⟨fun d w => ⌜PreStop (view cfg w).mon ∧ (∀ s ctx, d = .retry s ctx → Pend (view cfg w).mon) ∧
                    (d = .raise → Idle (view cfg w).mon)⌝,
       fun _ w => ⌜PreStop (view cfg w).mon⌝⟩

theorem grantRetry_spec (cfg : Cfg) (tl : Bool) (c : Classification) (a : Nat) (cause : Cause) (e : Option Exn)
    (key : SKey) (kind : SKind) (rem : Nat) (v : View) (hi : Idle v.mon) :
    ⦃fun w => ⌜view cfg w = v⌝⦄ grantRetry cfg tl c a cause e key kind rem ⦃failPost cfg⦄ := by
  have hpre := hi.pre
  have hcs := fun ctx => callStrategy_spec cfg v key kind ctx hi
  have hbc := fun v hp hi => budgetConsume_spec cfg v hp hi
  have hemit := fun v sl k ex cs cl => emit_v cfg v tl .retry a sl k ex none cs cl
  have hstop := fun v hs => stopWith_v cfg v tl hs .budgetExhausted .budgetExhausted a c.klass e cause
  mvcgen [grantRetry, getRS, modifyRS, hcs, hbc, hemit, hstop]
  all_goals (try clear hcs hbc hemit hstop)
  c16_finish

theorem handleFailure2_spec (cfg : Cfg) (tl : Bool) (c : Classification) (a : Nat) (cause : Cause)
    (e : Option Exn) (v : View) (hi : Idle v.mon) :
    ⦃fun w => ⌜view cfg w = v⌝⦄ handleFailure2 cfg tl c a cause e ⦃failPost cfg⦄ := by
  have hpre := hi.pre
  have hgr := fun key kind rem => grantRetry_spec cfg tl c a cause e key kind rem v hi
  have hstop := fun sr ev => stopWith_v cfg v tl hi.stopped sr ev a c.klass e cause
  have hsrf := stratRecordFailure_v cfg v
  mvcgen [handleFailure2, elapsed, modifyRS, hgr, hstop, hsrf]
  all_goals (try clear hgr hstop hsrf)
  c16_finish

theorem handleUnknown_spec (cfg : Cfg) (tl : Bool) (c : Classification) (a : Nat) (cause : Cause)
    (e : Option Exn) (v : View) (hi : Idle v.mon) :
    ⦃fun w => ⌜view cfg w = v⌝⦄ handleUnknown cfg tl c a cause e ⦃failPost cfg⦄ := by
  have hpre := hi.pre
  have h2 := handleFailure2_spec cfg tl c a cause e v hi
  have hstop := fun sr ev => stopWith_v cfg v tl hi.stopped sr ev a c.klass e cause
  mvcgen [handleUnknown, getRS, modifyRS, h2, hstop]
  all_goals (try clear h2 hstop)
  c16_finish

theorem handleFailure1_spec (cfg : Cfg) (tl : Bool) (c : Classification) (a : Nat) (cause : Cause)
    (e : Option Exn) (v : View) (hi : Idle v.mon) :
    ⦃fun w => ⌜view cfg w = v⌝⦄ handleFailure1 cfg tl c a cause e ⦃failPost cfg⦄ := by
  have hpre := hi.pre
  have h2 := handleFailure2_spec cfg tl c a cause e v hi
  have hu := handleUnknown_spec cfg tl c a cause e v hi
  have hstop := fun sr ev => stopWith_v cfg v tl hi.stopped sr ev a c.klass e cause
  mvcgen [handleFailure1, getRS, h2, hu, hstop]
  all_goals (try clear h2 hu hstop)
  c16_finish

theorem handleFailure_spec (cfg : Cfg) (tl : Bool) (c : Classification) (a : Nat) (cause : Cause)
    (e : Option Exn) (r : Option Nat) (v : View) (hi : Idle v.mon) :
    ⦃fun w => ⌜view cfg w = v⌝⦄ handleFailure cfg tl c a cause e r ⦃failPost cfg⦄ := by
  have h1 := handleFailure1_spec cfg tl c a cause e v hi
  mvcgen [handleFailure, Retry.recordFailure, modifyRS, h1]
  all_goals (try clear h1)
  c16_finish

theorem handleException_spec (cfg : Cfg) (tl : Bool) (e : Exn) (a : Nat) (v : View) (hi : Idle v.mon) :
    ⦃fun w => ⌜view cfg w = v⌝⦄ handleException cfg tl e a ⦃failPost cfg⦄ := by
  have hpre := hi.pre
  have hcl := callClassifier_v cfg v e
  have hf := fun c => handleFailure_spec cfg tl c a .exception (some e) none v hi
  mvcgen [handleException, hcl, hf]
  all_goals (try clear hcl hf)
  c16_finish

/-! ### the sleep protocol -/

theorem Prot.pre {cfg : Cfg} {d : Nat} {b : Bool} {m : St} (h : Prot cfg d b m) : PreStop m := ⟨h.clean, h.stopped⟩

theorem viewOf_mon_step (cfg : Cfg) (r : Req) (a : Ans) (tr : List (Req × Ans)) (ls : Option StopReason) :
    (viewOf cfg ((r, a) :: tr) ls).mon = mask (step cfg (viewOf cfg tr ls).mon (r, a)) := by
  rw [viewOf_step]

theorem callSleepHandler_spec (cfg : Cfg) (v : View) (lvl : Lvl) (ctx : BackoffCtx) (s : Nat)
    (hl : cfg.handler = some lvl) (hp : Pend v.mon) :
    ⦃fun w => ⌜view cfg w = v⌝⦄ callSleepHandler lvl ctx s
    ⦃post⟨fun dec w => ⌜(dec = .sleep → Prot cfg s false (view cfg w).mon) ∧
                          (dec ≠ .sleep → Stopd dec s (view cfg w).mon)⌝,
          fun _ w => ⌜PreStop (view cfg w).mon⌝⟩⦄ := by
  mvcgen [callSleepHandler, ask]
  all_goals (subst_vars; intros)
  all_goals (
    have key := fun a tr ls h => step_handler_pend cfg (viewOf cfg tr ls).mon lvl ctx s a h hl
    simp only [view_eq_viewOf, viewOf_mon_step] at *)
  all_goals first
    | (have h3 := fun a ha => (key a _ _ hp).2.2 ha
       exact ⟨(h3 _ (by
          intro dec dur h
          first | exact (by assumption : ∀ (d : SleepDecision) (dur : Nat), _ = Ans.decision d dur → False) dec dur h | cases h)).1,
         (h3 _ (by
          intro dec dur h
          first | exact (by assumption : ∀ (d : SleepDecision) (dur : Nat), _ = Ans.decision d dur → False) dec dur h | cases h)).2⟩)
    | (refine ⟨fun hd => ?_, fun hd => ?_⟩
       · subst hd; exact (key _ _ _ hp).1 _ rfl
       · exact (key _ _ _ hp).2.1 _ _ rfl hd)

theorem callBeforeSleep_spec (cfg : Cfg) (v : View) (ctx : BackoffCtx) (s : Nat) (hpr : Prot cfg s false v.mon) :
    ⦃fun w => ⌜view cfg w = v⌝⦄ callBeforeSleep cfg ctx s
    ⦃post⟨fun _ w => ⌜Prot cfg s cfg.beforeSleep.isSome (view cfg w).mon⌝,
          fun _ w => ⌜PreStop (view cfg w).mon⌝⟩⦄ := by
  mvcgen [callBeforeSleep, swallowException, askHook]
  all_goals (subst_vars; intros)
  all_goals (
    have key := fun lvl a tr ls h hl => step_before_prot cfg (viewOf cfg tr ls).mon lvl ctx s a h hl
    simp only [view_eq_viewOf, viewOf_mon_step, restore_dummy] at *)
  all_goals first
    | (simp_all; done)
    | exact (key _ _ _ _ hpr (by assumption)).pre
    | (have h3 := key _ _ _ _ hpr (by assumption); simp_all; done)

theorem callSleeper_spec (cfg : Cfg) (v : View) (s : Nat) (hpr : Prot cfg s cfg.beforeSleep.isSome v.mon) :
    ⦃fun w => ⌜view cfg w = v⌝⦄ callSleeper cfg s
    ⦃post⟨fun _ w => ⌜Idle (view cfg w).mon⌝, fun _ w => ⌜Idle (view cfg w).mon⌝⟩⦄ := by
  mvcgen [callSleeper, ask]
  all_goals (subst_vars; intros)
  all_goals (
    have key := fun a tr ls h => step_sleeper_prot cfg (viewOf cfg tr ls).mon s a h
    simp only [view_eq_viewOf, viewOf_mon_step] at *)
  all_goals exact key _ _ _ hpr

/-- `_handle_sleep_decision`, seen through the view: the monitor does not move; after a stop decision
    the stop reason is SCHEDULED / ABORTED; a non-`SleepDecision` raises `ValueError` -/
theorem handleSleepDecision_spec (cfg : Cfg) (tl : Bool) (act : SleepDecision) (a s : Nat) (v : View) :
    ⦃fun w => ⌜view cfg w = v⌝⦄ handleSleepDecision cfg tl act a s
    ⦃post⟨fun r w => ⌜(r = act ∧ act ≠ .other) ∧ (view cfg w).mon = v.mon ∧
                        (v.mon.stopped.isSome = true → (act = .defer → (view cfg w).stop = some .scheduled) ∧
                                                        (act = .abort → (view cfg w).stop = some .aborted))⌝,
          fun e w => ⌜(view cfg w).mon = v.mon ∧ ((e = .libValueError ∧ act = .other) ∨ SrcL cfg e w)⌝⟩⦄ := by
  apply triple_of_run
  intro w hw
  subst hw
  have := adequacy (handleSleepDecision_fx inertQ w cfg tl act a s (fun _ => rfl) (fun _ _ => rfl) (fun _ => rfl)
    (fun _ _ => rfl)) w (FootXS.refl w)
  split <;> simp only [*] at this ⊢
  · rename_i w' _
    obtain ⟨⟨h1, h2, h3, h4⟩, hf⟩ := this
    have hm := view_fxs_mon cfg _ _ hf
    refine ⟨⟨h1, h2⟩, hm, fun hst => ?_⟩
    have hst' : (view cfg w').mon.stopped.isSome = true := by rw [hm]; exact hst
    have hstop : ∀ w' : World, (view cfg w').mon.stopped.isSome = true → (view cfg w').stop = w'.rs.lastStop := by
      intro w' h
      simp only [view, mask] at h ⊢
      simp [h]
    exact ⟨fun hd => by rw [hstop _ hst', h3 hd], fun ha => by rw [hstop _ hst', h4 ha]⟩
  · obtain ⟨hf, hsrc⟩ := this
    refine ⟨view_fxs_mon cfg _ _ hf, ?_⟩
    rcases hsrc with ho | hp
    · exact Or.inl ho
    · exact Or.inr (srcL_of_prov hf hp)

/-! ### verdicts -/

/-- an exception is an acceptable ending: before any stop decision always; after `dec` it is the
    expected one, or it replaced it (raised by a callback since) -/
def excGood (m : St) (e : Exn) : Prop :=
  ∀ dec, m.stopped = some dec → expected m dec (.raised e) = true ∨ e = .stuck ∨ e ∈ m.late

/-- the monitor's verdict on an exceptional ending, at world `w` -/
def ExcP (cfg : Cfg) (e : Exn) (w : World) : Prop :=
  Clean (view cfg w).mon ∧ excGood (cur cfg w.trace) e

theorem excP_of_pre {cfg : Cfg} {e : Exn} {w : World} (h : PreStop (view cfg w).mon) : ExcP cfg e w := by
  refine ⟨h.clean, fun dec hd => ?_⟩
  have : (cur cfg w.trace).stopped = none := by simpa [view, mask] using h.stopped
  rw [this] at hd
  cases hd

theorem excP_of_src {cfg : Cfg} {e : Exn} {w : World} (hc : Clean (view cfg w).mon) (h : SrcL cfg e w) :
    ExcP cfg e w := by
  refine ⟨hc, fun dec hd => ?_⟩
  rcases h with h | h | h
  · rw [h] at hd; cases hd
  · exact Or.inr (Or.inl h)
  · exact Or.inr (Or.inr h)

theorem Stopd.clean' {dec : SleepDecision} {d : Nat} {m : St} (h : Stopd dec d m) : Clean m := h.clean

/-- `_sync_sleep_action` / `_async_sleep_action`: the sleep-handler protocol -/
theorem sleepAction_spec (cfg : Cfg) (tl : Bool) (a s : Nat) (ctx : BackoffCtx) (v : View) (hp : Pend v.mon) :
    ⦃fun w => ⌜view cfg w = v⌝⦄ sleepAction cfg tl a s ctx
    ⦃post⟨fun r w => ⌜(r = .sleep → Idle (view cfg w).mon) ∧
                        (r = .defer → Stopd .defer s (view cfg w).mon ∧ (view cfg w).stop = some .scheduled) ∧
                        (r = .abort → Stopd .abort s (view cfg w).mon ∧ (view cfg w).stop = some .aborted) ∧
                        r ≠ .other⌝,
          fun e w => ⌜ExcP cfg e w⌝⟩⦄ := by
  have hpre := hp.pre
  have h1 := fun v hpr => callBeforeSleep_spec cfg v ctx s hpr
  have h2 := fun v hpr => callSleeper_spec cfg v s hpr
  have h3 := fun lvl hl => callSleepHandler_spec cfg v lvl ctx s hl hp
  have h4 := fun act v => handleSleepDecision_spec cfg tl act a s v
  mvcgen [sleepAction, h1, h2, h3, h4]
  all_goals (try clear h1 h2 h3 h4)
  c16_finish
  all_goals first
    | exact hp.prot s (by assumption)
    | exact excP_of_pre (by first | assumption | exact Idle.pre (by assumption))
    | skip
  · -- a decision other than SLEEP: DEFER / ABORT
    rename_i r hne w hm hstop hno hpr hst
    have hsd := hst hne
    have hsd' : Stopd r s (view cfg w).mon := by rw [hm]; exact hsd
    have hs2 := hstop (by rw [hsd.stopped]; rfl)
    refine ⟨fun h => absurd h hne, fun h => ?_, fun h => ?_, hno⟩
    · subst h; exact ⟨hsd', hs2.1 rfl⟩
    · subst h; exact ⟨hsd', hs2.2 rfl⟩
  · -- the handler's answer was not a `SleepDecision`, or an event hook raised a `BaseException`
    rename_i r _ e w hpr hst hm hsrc
    have hc : Clean (view cfg w).mon := by
      rw [hm]
      by_cases hr : r = .sleep
      · exact (hpr hr).clean
      · exact (hst hr).clean
    rcases hsrc with ⟨he, hr⟩ | hsrc
    · subst he hr
      refine ⟨hc, fun dec hd => Or.inl ?_⟩
      have h1 := (hst (by simp)).stopped
      have h2 : (cur cfg w.trace).stopped = some .other := by
        have : (view cfg w).mon.stopped = some .other := by rw [hm]; exact h1
        simpa [view, mask] using this
      rw [h2] at hd
      cases hd
      rfl
    · exact excP_of_src hc hsrc

/-! ### how an attempt ends -/

/-- what `_finalize_attempt` makes of a decision and the handler's action -/
def OutOk (d : Decision) (act : Option SleepDecision) (o : AOutcome) : Prop :=
  match d, act with
  | .raise, _ => o.decision = .raise
  | .retry s _, some .defer => o.decision = .scheduled ∧ o.sleep = some s ∧ o.stop = some .scheduled
  | .retry _ _, some .abort => o.decision = .aborted
  | .retry _ _, _ => o.decision = .raise ∨ o.decision = .retry

theorem finalizeAttempt_spec (cfg : Cfg) (tl : Bool) (a : Nat) (d : Decision) (act : Option SleepDecision)
    (cls : Option Classification) (e : Option Exn) (r : Option Nat) (c : Option Cause) (v : View)
    (hs : act ≠ some .defer → act ≠ some .abort → v.mon.stopped = none) :
    ⦃fun w => ⌜view cfg w = v⌝⦄ finalizeAttempt cfg tl a d act cls e r c
    ⦃post⟨fun o w => ⌜OutOk d act o ∧ view cfg w = v⌝, fun e' w => ⌜view cfg w = v ∧ SrcL cfg e' w⌝⟩⦄ := by
  have h1 := fun hs sr => setStop_v cfg v hs sr
  have h2 := fun ev k ex st cs => emit_v cfg v tl ev a 0 k ex st cs none
  mvcgen [finalizeAttempt, getRS, elapsed, h1, h2]
  all_goals (try clear h1 h2)
  c16_finish
  all_goals (simp_all +zetaDelta [OutOk])

/-- what a failed attempt's outcome says about where the protocol stands -/
structure FO (o : AOutcome) (v : View) : Prop where
  clean : Clean v.mon
  retry : o.decision = .retry → Idle v.mon
  raise : o.decision = .raise → Idle v.mon
  sched : o.decision = .scheduled → v.mon.stopped = some .defer ∧ v.mon.deferD = o.sleep ∧ o.sleep.isSome = true ∧
            o.stop = some .scheduled ∧ v.stop = some .scheduled
  abort : o.decision = .aborted → v.mon.stopped = some .abort ∧ v.stop = some .aborted
  nosucc : o.decision ≠ .success

theorem FO.of_raise {o : AOutcome} {v : View} (hp : Idle v.mon) (h : o.decision = .raise) : FO o v :=
  ⟨hp.clean, fun h' => absurd (h.symm.trans h') (by decide), fun _ => hp, fun h' => absurd (h.symm.trans h') (by decide),
   fun h' => absurd (h.symm.trans h') (by decide), by rw [h]; decide⟩

theorem FO.of_action {o : AOutcome} {v : View} {r : SleepDecision} {s : Nat} {ctx : BackoffCtx}
    (h1 : r = .sleep → Idle v.mon)
    (h2 : r = .defer → Stopd .defer s v.mon ∧ v.stop = some .scheduled)
    (h3 : r = .abort → Stopd .abort s v.mon ∧ v.stop = some .aborted) (h4 : r ≠ .other)
    (ho : OutOk (.retry s ctx) (some r) o) : FO o v := by
  cases r with
  | other => exact absurd rfl h4
  | sleep =>
    have hi := h1 rfl
    simp only [OutOk] at ho
    rcases ho with ho | ho
    · exact FO.of_raise hi ho
    · exact ⟨hi.clean, fun _ => hi, fun _ => hi, fun h' => absurd (ho.symm.trans h') (by decide),
        fun h' => absurd (ho.symm.trans h') (by decide), by rw [ho]; decide⟩
  | defer =>
    obtain ⟨hst, hstop⟩ := h2 rfl
    simp only [OutOk] at ho
    obtain ⟨hd, hsl, hos⟩ := ho
    exact ⟨hst.clean, fun h' => absurd (hd.symm.trans h') (by decide), fun h' => absurd (hd.symm.trans h') (by decide),
      fun _ => ⟨hst.stopped, by rw [hst.defer rfl, hsl], by rw [hsl]; rfl, hos, hstop⟩,
      fun h' => absurd (hd.symm.trans h') (by decide), by rw [hd]; decide⟩
  | abort =>
    obtain ⟨hst, hstop⟩ := h3 rfl
    simp only [OutOk] at ho
    exact ⟨hst.clean, fun h' => absurd (ho.symm.trans h') (by decide), fun h' => absurd (ho.symm.trans h') (by decide),
      fun h' => absurd (ho.symm.trans h') (by decide), fun _ => ⟨hst.stopped, hstop⟩, by rw [ho]; decide⟩

theorem failureOutcome_spec (cfg : Cfg) (tl : Bool) (a : Nat) (d : Decision) (cls : Option Classification)
    (e : Option Exn) (r : Option Nat) (c : Option Cause) (v : View) (hpre : PreStop v.mon)
    (hp : ∀ s ctx, d = .retry s ctx → Pend v.mon) (hr : d = .raise → Idle v.mon) :
    ⦃fun w => ⌜view cfg w = v⌝⦄ failureOutcome cfg tl a d cls e r c
    ⦃post⟨fun o w => ⌜(FO o (view cfg w) ∧ Clean (view cfg w).mon ∧ (o.decision = .retry → Idle (view cfg w).mon) ∧
                        (o.decision = .raise → Idle (view cfg w).mon)) ∧ (d = .raise → o.decision = .raise)⌝,
          fun e' w => ⌜ExcP cfg e' w⌝⟩⦄ := by
  have h1 := fun d act v hs => finalizeAttempt_spec cfg tl a d act cls e r c v hs
  have h2 := fun s ctx hp => sleepAction_spec cfg tl a s ctx v hp
  mvcgen [failureOutcome, h1, h2]
  all_goals (try clear h1 h2)
  c16_finish
  · rename_i ho hv
    rw [hv]
    have hfo := FO.of_raise (hr rfl) (by simpa [OutOk] using ho)
    exact ⟨⟨hfo, hfo.clean, hfo.retry, hfo.raise⟩, by simpa [OutOk] using ho⟩
  · rename_i hv hsrc
    exact excP_of_src (by rw [hv]; exact hpre.clean) hsrc
  · rename_i h1 h2 h3 h4 ho hv
    rw [hv]
    have hfo := FO.of_action h1 h2 h3 h4 ho
    exact ⟨⟨hfo, hfo.clean, hfo.retry, hfo.raise⟩, by simp⟩
  · rename_i r _ _ _ h1 h2 h3 h4 hv hsrc
    refine excP_of_src ?_ hsrc
    rw [hv]
    cases r with
    | sleep => exact (h1 rfl).clean
    | defer => exact (h2 rfl).1.clean
    | abort => exact (h3 rfl).1.clean
    | other => exact absurd rfl h4
  · rename_i r _ h1 _ _ h4 hnd hna
    cases r with
    | sleep => exact (h1 rfl).stopped
    | defer => exact absurd rfl hnd
    | abort => exact absurd rfl hna
    | other => exact absurd rfl h4

theorem determineAction_continue_iff (o : AOutcome) (r : RState) (a : Nat) (fr : Bool) :
    determineAction o r a fr = .continue_ ↔ o.decision = .retry := by
  unfold determineAction
  cases o.decision <;> cases fr <;> simp

theorem determineAction_abort (o : AOutcome) (r : RState) (a : Nat) (fr : Bool)
    (h : determineAction o r a fr = .abort) : o.decision = .aborted := by
  unfold determineAction at h
  cases hd : o.decision <;> cases fr <;> simp_all

theorem determineAction_raise (o : AOutcome) (r : RState) (a : Nat) (fr : Bool)
    (h : determineAction o r a fr = .raise) : o.decision = .raise ∨ o.decision = .success := by
  unfold determineAction at h
  cases hd : o.decision <;> cases fr <;> simp_all

theorem determineAction_scheduled (o : AOutcome) (r : RState) (a : Nat) (fr : Bool) (f : ExhaustedFields)
    (h : determineAction o r a fr = .scheduled f) :
    (o.decision = .scheduled ∧ f.nextSleep = o.sleep ∧ f.stop = (o.stop <|> r.lastStop).getD .scheduled) ∨
    o.decision = .raise ∨ o.decision = .success := by
  unfold determineAction at h
  cases hd : o.decision <;> cases fr <;> simp_all <;> (subst h; simp)

theorem expected_mask (m : St) (dec : SleepDecision) (r : Res) : expected (mask m) dec r = expected m dec r := rfl

theorem excP_of_expected {cfg : Cfg} {e : Exn} {w : World} (hc : Clean (view cfg w).mon)
    (h : ∀ dec, (view cfg w).mon.stopped = some dec → expected (view cfg w).mon dec (.raised e) = true) :
    ExcP cfg e w :=
  ⟨hc, fun dec hd => Or.inl (by rw [← expected_mask]; exact h dec hd)⟩

/-- what follows `determine_action_from_outcome` in call mode -/
theorem deliverCall_spec (cfg : Cfg) (o : AOutcome) (rs : RState) (a : Nat) (fr : Bool) (orig : Option Exn)
    (fb : ExhaustedFields) (v : View) (hfo : FO o v) :
    ⦃fun w => ⌜view cfg w = v⌝⦄ deliverCall (determineAction o rs a fr) orig fb
    ⦃post⟨fun r w => ⌜(r = none ∧ o.decision = .retry) ∧ view cfg w = v⌝,
          fun e' w => ⌜view cfg w = v ∧
            (∀ dec, v.mon.stopped = some dec → expected v.mon dec (.raised e') = true)⌝⟩⦄ := by
  mvcgen [deliverCall]
  all_goals (subst_vars)
  case vc1.h_1 h _ => exact ⟨⟨trivial, (determineAction_continue_iff _ _ _ _).mp h⟩, rfl⟩
  case vc2.h_2 h _ =>
    refine ⟨rfl, fun dec hd => ?_⟩
    have h1 := (hfo.abort (determineAction_abort _ _ _ _ h)).1
    rw [h1] at hd
    cases hd
    rfl
  case vc3.h_3 f h _ =>
    refine ⟨rfl, fun dec hd => ?_⟩
    rcases determineAction_scheduled _ _ _ _ _ h with ⟨h1, h2, h3⟩ | h1 | h1
    · obtain ⟨hs, hd', hsome, hstop, _⟩ := hfo.sched h1
      rw [hs] at hd
      cases hd
      simp [expected, h2, h3, hstop, hd', hsome]
    · rw [(hfo.raise h1).stopped] at hd; cases hd
    · exact absurd h1 hfo.nosucc
  all_goals (
    have h : determineAction o rs a fr = Action.raise := by assumption
    refine ⟨rfl, fun dec hd => ?_⟩
    rcases determineAction_raise _ _ _ _ h with h1 | h1
    · rw [(hfo.raise h1).stopped] at hd; cases hd
    · exact absurd h1 hfo.nosucc)

/-- one attempt: no stop decision so far, unless the run is ending; if the loop goes on, nothing is
    pending -/
abbrev attemptPost (cfg : Cfg) : PostCond (Option α) (.except Exn (.arg World .pure)) :=
  post⟨fun _ w => ⌜Idle (view cfg w).mon⌝, fun e w => ⌜ExcP cfg e w⌝⟩

/-- the simp set of the closing tactics -/
macro "c16_simp" : tactic => `(tactic|
  (simp_all +zetaDelta [view_setPrev, view_setLastStrategy, view_recordFailure, view_setCounts,
        view_setUnknown, view_setAs, view_setAttempts, view_setAsAttempts, view_setTl, restore_dummy, Pend.pre,
        Idle.pre, Idle.stopped, Pend.stopped, PreStop.stopped, FO.clean, FO.retry, FO.raise, Idle.clean,
        PreStop.clean]; done))

/-- `c16_finish`, knowing how an attempt ends -/
macro "c16_end" : tactic => `(tactic| all_goals (
  (try split_ands) <;> (try subst_vars) <;> (try intros) <;>
  first
    | c16_simp
    | (refine excP_of_pre ?_
       first
         | assumption
         | c16_simp)
    | (refine excP_of_src ?_ ?_ <;> c16_simp)
    | (refine excP_of_expected ?_ ?_ <;> c16_simp)
    | (refine ⟨?_, ?_⟩ <;> c16_simp)
    | skip))

theorem callExceptionPath_spec (cfg : Cfg) (a : Nat) (e : Exn) (u : View) (hi : Idle u.mon) :
    ⦃fun w => ⌜view cfg w = u⌝⦄ callExceptionPath cfg a e ⦃attemptPost cfg⦄ := by
  have hpre := hi.pre
  have h1 := fun v hs => checkAbort_v cfg v false hs a
  have h2 := handleException_spec cfg false e a u hi
  have h3 := fun d cls v hpre hp hr => failureOutcome_spec cfg false a d cls (some e) none (some .exception) v hpre hp hr
  have h4 := fun v o => callAttemptEndFromOutcome_v cfg v a o
  have h5 := fun o rs v hfo => deliverCall_spec cfg o rs a false (some e) default v hfo
  mvcgen [callExceptionPath, getRS, modifyAS, h1, h2, h3, h4, h5]
  all_goals (try clear h1 h2 h3 h4 h5)
  c16_end

theorem callResultFailure_spec (cfg : Cfg) (a x : Nat) (c : Classification) (u : View) (hi : Idle u.mon) :
    ⦃fun w => ⌜view cfg w = u⌝⦄ callResultFailure cfg a x c ⦃attemptPost cfg⦄ := by
  have hpre := hi.pre
  have h1 := fun v hs => checkAbort_v cfg v false hs a
  have h2 := fun v hi => handleFailure_spec cfg false c a .result none (some x) v hi
  have h3 := fun d cls v hpre hp hr => failureOutcome_spec cfg false a d cls none (some x) (some .result) v hpre hp hr
  have h4 := fun v o => callAttemptEndFromOutcome_v cfg v a o
  have h5 := fun o rs fb v hfo => deliverCall_spec cfg o rs a true none fb v hfo
  mvcgen [callResultFailure, getRS, modifyAS, h1, h2, h3, h4, h5]
  all_goals (try clear h1 h2 h3 h4 h5)
  c16_end

theorem callResultPath_spec (cfg : Cfg) (a x : Nat) (u : View) (hi : Idle u.mon) :
    ⦃fun w => ⌜view cfg w = u⌝⦄ callResultPath cfg a x ⦃attemptPost cfg⦄ := by
  have hpre := hi.pre
  have h1 := shouldClassifyResult_v cfg u x
  have h2 := fun v => handleSuccessAttemptEnd_v cfg v false a x
  have h3 := fun c => callResultFailure_spec cfg a x c u hi
  mvcgen [callResultPath, h1, h2, h3]
  all_goals (try clear h1 h2 h3)
  c16_end

/-- One iteration of the loop of `_run_sync_call` (the `except` ladder around `func()` included). -/
theorem callAttempt_spec (cfg : Cfg) (a : Nat) (u : View) (hi : Idle u.mon) :
    ⦃fun w => ⌜view cfg w = u⌝⦄ callAttempt cfg a ⦃attemptPost cfg⦄ := by
  have hpre := hi.pre
  have h1 := fun v hs n => checkAbort_v cfg v false hs n
  have h2 := fun v => callAttemptStart_v cfg v a
  have h3 := fun v hi => invokeOp_spec cfg v a hi
  have h4 := fun x v hi => callResultPath_spec cfg a x v hi
  have h5 := fun v e => handleAbortAttemptEnd_v cfg v a e
  have h6 := fun v hs => emitAbortedOnce_v cfg v false hs a
  have h7 := fun e v hi => callExceptionPath_spec cfg a e v hi
  mvcgen [callAttempt, callOpHandler, modifyAS, h1, h2, h3, h4, h5, h6, h7]
  all_goals (try clear h1 h2 h3 h4 h5 h6 h7)
  c16_end

/-- the loop of `_run_sync_call` -/
abbrev loopPost (cfg : Cfg) : PostCond α (.except Exn (.arg World .pure)) :=
  post⟨fun _ w => ⌜Idle (view cfg w).mon⌝, fun e w => ⌜ExcP cfg e w⌝⟩

theorem callLoop_spec (cfg : Cfg) : ∀ (fuel a : Nat) (u : View), Idle u.mon →
    ⦃fun w => ⌜view cfg w = u⌝⦄ callLoop cfg fuel a ⦃loopPost cfg⦄ := by
  intro fuel
  induction fuel with
  | zero =>
    intro a u hi
    have hpre := hi.pre
    have h1 := raiseExhaustedCall_v cfg u hi.stopped
    mvcgen [callLoop, h1]
    c16_end
  | succ f ih =>
    intro a u hi
    have hpre := hi.pre
    have h1 := callAttempt_spec cfg a u hi
    mvcgen [callLoop, h1]
    c16_end
    exact ih (a + 1) (view cfg _) (by assumption) _ rfl

/-- a world in which no retry is pending and nothing has been decided (in particular: a fresh call) -/
def Pristine (cfg : Cfg) (w : World) : Prop := Idle (view cfg w).mon

theorem idle_empty : Idle ({} : St) := ⟨⟨rfl, rfl, rfl, rfl, rfl⟩, rfl, rfl, rfl⟩

theorem initState_spec (cfg : Cfg) :
    ⦃fun w => ⌜Pristine cfg w⌝⦄ initState
    ⦃post⟨fun _ w => ⌜Idle (view cfg w).mon⌝, fun _ _ => ⌜False⌝⟩⦄ := by
  mvcgen [initState]
  all_goals (
    rename_i s hp t
    exact hp)

theorem runCall_spec (cfg : Cfg) :
    ⦃fun w => ⌜Pristine cfg w⌝⦄ runCall cfg ⦃loopPost cfg⦄ := by
  have h1 := initState_spec cfg
  have h2 := fun u hi => callLoop_spec cfg cfg.maxAttempts 1 u hi
  mvcgen [runCall, h1, h2]
  c16_end

/-! #### execute mode -/

/-- an outcome is an acceptable ending -/
def outGood (m : St) (o : Outcome) : Prop :=
  ∀ dec, m.stopped = some dec → expected m dec (.outcome o []) = true ∨ replaced m (.outcome o []) = true

/-- a run in which a granted retry's sleep is still due, and nothing was decided, was ABORTED -/
def pendOk (m : St) (o : Outcome) : Prop := m.pending = true → m.stopped = none → o.stop = some .aborted

def OutP (cfg : Cfg) (o : Outcome) (w : World) : Prop :=
  Clean (view cfg w).mon ∧ outGood (cur cfg w.trace) o ∧ pendOk (view cfg w).mon o

theorem outP_of_pre {cfg : Cfg} {o : Outcome} {w : World} (h : Idle (view cfg w).mon) : OutP cfg o w := by
  refine ⟨h.clean, fun dec hd => ?_, fun hp _ => ?_⟩
  · have : (cur cfg w.trace).stopped = none := by simpa [view, mask] using h.stopped
    rw [this] at hd
    cases hd
  · rw [h.pending] at hp; cases hp

theorem outP_of_aborted {cfg : Cfg} {o : Outcome} {w : World} (h : PreStop (view cfg w).mon)
    (ho : o.stop = some .aborted) : OutP cfg o w := by
  refine ⟨h.clean, fun dec hd => ?_, fun _ _ => ho⟩
  have : (cur cfg w.trace).stopped = none := by simpa [view, mask] using h.stopped
  rw [this] at hd
  cases hd

theorem outP_of_expected {cfg : Cfg} {o : Outcome} {w : World} (hc : Clean (view cfg w).mon)
    (h : ∀ dec, (view cfg w).mon.stopped = some dec → expected (view cfg w).mon dec (.outcome o []) = true)
    (hp : pendOk (view cfg w).mon o) : OutP cfg o w :=
  ⟨hc, fun dec hd => Or.inl (by rw [← expected_mask]; exact h dec hd), hp⟩

/-- `_abort_outcome`, whatever has been decided before: the monitor does not move; ABORTED, no delay -/
theorem abortOutcome_any (cfg : Cfg) (tl : Bool) (a : Nat) (v : View) :
    ⦃fun w => ⌜view cfg w = v⌝⦄ abortOutcome cfg tl a
    ⦃post⟨fun o w => ⌜(o.nextSleep = none ∧ o.stop = some .aborted) ∧ (view cfg w).mon = v.mon⌝,
          fun e w => ⌜(view cfg w).mon = v.mon ∧ SrcL cfg e w⌝⟩⦄ := by
  apply triple_of_run
  intro w hw
  subst hw
  have := adequacy (abortOutcome_fx inertQ w cfg tl a (fun _ => rfl) (fun _ _ => rfl)) w (FootXS.refl w)
  split <;> simp only [*] at this ⊢
  · exact ⟨⟨this.1.2.1, this.1.2.2⟩, view_fxs_mon cfg _ _ this.2⟩
  · exact ⟨view_fxs_mon cfg _ _ this.foot, this.src.elim (fun h => h.elim) (srcL_of_prov this.foot)⟩

theorem deliverExecute_spec (cfg : Cfg) (tl : Bool) (o : AOutcome) (rs : RState) (a : Nat) (fr : Bool) (v : View)
    (hfo : FO o v) :
    ⦃fun w => ⌜view cfg w = v⌝⦄ deliverExecute cfg tl (determineAction o rs a fr) o
    ⦃post⟨fun r w => ⌜(r = none → o.decision = .retry) ∧ (view cfg w).mon = v.mon ∧
                        (∀ out, r = some out → ∀ dec, v.mon.stopped = some dec →
                            expected v.mon dec (.outcome out []) = true)⌝,
          fun e' w => ⌜(view cfg w).mon = v.mon ∧ SrcL cfg e' w⌝⟩⦄ := by
  have h1 := fun n => abortOutcome_any cfg tl n v
  have h2 := fun ok val n ns => buildOutcome_v cfg v ok val n ns
  mvcgen [deliverExecute, h1, h2]
  all_goals (try clear h1 h2)
  all_goals (try split_ands)
  all_goals (try subst_vars)
  all_goals (try intros)
  · -- continue
    exact ⟨(determineAction_continue_iff _ _ _ _).mp (by assumption), rfl, by simp⟩
  · -- abort
    rename_i hact out _ hns hstop hm
    refine ⟨by simp, hm, fun out' ho dec hd => ?_⟩
    cases ho
    have h1 := (hfo.abort (determineAction_abort _ _ _ _ hact)).1
    rw [h1] at hd
    cases hd
    simp [expected, hns, hstop]
  · -- every other action: `_build_outcome`
    rename_i out _ hok hns hv hstop hnc hna
    refine ⟨by simp, by rw [hv], fun out' ho dec hd => ?_⟩
    cases ho
    have hst := hstop (by rw [hd]; rfl)
    cases hdec : o.decision with
    | scheduled =>
      obtain ⟨hs, hd', hsm, _, hvs⟩ := hfo.sched hdec
      rw [hs] at hd
      cases hd
      simp [expected, hns, hdec, hst, hvs, hd', hsm]
    | raise => rw [(hfo.raise hdec).stopped] at hd; cases hd
    | retry => exact absurd ((determineAction_continue_iff _ _ _ _).mpr hdec) hnc
    | aborted =>
      exfalso
      apply hna
      unfold determineAction
      rw [hdec]
    | success => exact absurd hdec hfo.nosucc
  · rename_i hv hsrc
    exact ⟨by rw [hv], hsrc⟩

/-- the footprint of `execAbortExit`: an ABORTED outcome without a delay -/
theorem execAbortExit_fx (w0 : World) (cfg : Cfg) (tl : Bool) (a : Nat) (e : Exn) :
    ⦃fun w => ⌜FootXS inertQ w0 w⌝⦄ execAbortExit cfg tl a e
    ⦃post⟨fun r w => ⌜(∃ out, r = some out ∧ out.nextSleep = none ∧ out.stop = some .aborted) ∧ FootXS inertQ w0 w⌝,
          fun e' w => ⌜ExcS inertQ noOwn w0 w e'⌝⟩⦄ := by
  have h1 := fun w0 => handleAbortAttemptEnd_fx inertQ w0 cfg a e (fun _ => rfl)
  have h2 := fun w0 n => abortOutcome_fx inertQ w0 cfg tl n (fun _ => rfl) (fun _ _ => rfl)
  mvcgen [execAbortExit, h1, h2]
  all_goals (try clear h1 h2)
  fx_close

theorem clean_of_mon {cfg : Cfg} {w w' : World} (h : (view cfg w').mon = (view cfg w).mon)
    (hc : Clean (view cfg w).mon) : Clean (view cfg w').mon := by rw [h]; exact hc

theorem cur_stopped_of_foot {cfg : Cfg} {w w' : World} (hf : FootXS inertQ w w') :
    (cur cfg w'.trace).stopped = (cur cfg w.trace).stopped := by
  obtain ⟨δ, e₁, k, _⟩ := hf.trace
  rw [e₁]
  exact mask_stopped (cur_append_inert cfg δ w.trace k)

theorem cur_late_of_foot {cfg : Cfg} {w w' : World} (hf : FootXS inertQ w w') (e : Exn)
    (he : e ∈ (cur cfg w.trace).late) : e ∈ (cur cfg w'.trace).late := by
  obtain ⟨δ, e₁, k, _⟩ := hf.trace
  rw [e₁]
  exact late_mono cfg δ w.trace k e he

/-- `AbortRetryError` ends the run as ABORTED — after a stop decision that is either what was decided
    (ABORT) or the work of a callback that raised it since -/
theorem execAbortExit_spec (cfg : Cfg) (tl : Bool) (a : Nat) (e : Exn) (he : e.isAbort = true) :
    ⦃fun w => ⌜ExcP cfg e w⌝⦄ execAbortExit cfg tl a e
    ⦃post⟨fun r w => ⌜∃ out, r = some out ∧ OutP cfg out w⌝, fun e' w => ⌜ExcP cfg e' w⌝⟩⦄ := by
  apply triple_of_run
  intro w hw
  have := adequacy (execAbortExit_fx w cfg tl a e) w (FootXS.refl w)
  split <;> simp only [*] at this ⊢
  · obtain ⟨⟨out, hr, hns, hst⟩, hf⟩ := this
    refine ⟨out, hr, clean_of_mon (view_fxs_mon cfg _ _ hf) hw.1, fun dec hd => ?_, fun _ _ => hst⟩
    rw [cur_stopped_of_foot hf] at hd
    rcases hw.2 dec hd with hx | hx | hx
    · left
      cases dec <;> cases e <;> simp_all [expected, Exn.isAbort]
    · subst hx; simp [Exn.isAbort] at he
    · right
      have := cur_late_of_foot hf e hx
      simp only [replaced, hst, hns, Option.isNone_none, Bool.and_true, beq_self_eq_true, Bool.true_and,
        List.any_eq_true]
      exact ⟨e, this, he⟩
  · exact excP_of_src (clean_of_mon (view_fxs_mon cfg _ _ this.foot) hw.1)
      (this.src.elim (fun h => h.elim) (srcL_of_prov this.foot))

/-- one attempt in execute mode -/
abbrev attemptPostE (cfg : Cfg) : PostCond (Option Outcome) (.except Exn (.arg World .pure)) :=
  post⟨fun r w => ⌜(r = none → Idle (view cfg w).mon) ∧ (∀ out, r = some out → OutP cfg out w)⌝,
       fun e w => ⌜ExcP cfg e w⌝⟩

theorem checkAbortCaught_spec (cfg : Cfg) (tl : Bool) (a : Nat) (v : View) (hs : v.mon.stopped = none) :
    ⦃fun w => ⌜view cfg w = v⌝⦄ checkAbortCaught cfg tl a ⦃same cfg v⦄ := by
  have h1 := checkAbort_v cfg v tl hs a
  mvcgen [checkAbortCaught, abortToTrue, h1]
  all_goals (try clear h1)
  c16_end

theorem FO.notPending {o : AOutcome} {v : View} (hfo : FO o v) (hs : v.mon.stopped = none) : v.mon.pending = false := by
  cases hd : o.decision with
  | retry => exact (hfo.retry hd).pending
  | raise => exact (hfo.raise hd).pending
  | scheduled => rw [(hfo.sched hd).1] at hs; cases hs
  | aborted => rw [(hfo.abort hd).1] at hs; cases hs
  | success => exact absurd hd hfo.nosucc

theorem outP_of_deliver {cfg : Cfg} {o : AOutcome} {out : Outcome} {w : World} {v : View} (hfo : FO o v)
    (hm : (view cfg w).mon = v.mon)
    (h : ∀ dec, v.mon.stopped = some dec → expected v.mon dec (.outcome out []) = true) : OutP cfg out w :=
  outP_of_expected (by rw [hm]; exact hfo.clean) (by rw [hm]; exact h)
    (fun hp hs => by rw [hm] at hp hs; rw [hfo.notPending hs] at hp; cases hp)

theorem execExceptionPath3_spec (cfg : Cfg) (tl : Bool) (a : Nat) (e : Exn) (d : Decision) (v : View)
    (hpre : PreStop v.mon) (hp : ∀ s ctx, d = .retry s ctx → Pend v.mon) (hr : d = .raise → Idle v.mon) :
    ⦃fun w => ⌜view cfg w = v⌝⦄ execExceptionPath3 cfg tl a e d ⦃attemptPostE cfg⦄ := by
  have h3 := fun cls => failureOutcome_spec cfg tl a d cls (some e) none (some .exception) v hpre hp hr
  have h4 := fun v o => callAttemptEndFromOutcome_v cfg v a o
  have h5 := fun o rs v hfo => deliverExecute_spec cfg tl o rs a false v hfo
  mvcgen [execExceptionPath3, getRS, modifyAS, h3, h4, h5]
  all_goals (try clear h3 h4 h5)
  c16_end
  all_goals (
    refine ⟨fun hn => ?_, fun out ho => ?_⟩
    · c16_simp
    · refine outP_of_deliver (by assumption) ?_ ?_ <;> c16_simp)

/-- finishing tactic for execute mode -/
macro "c16_endE" : tactic => `(tactic| all_goals (
  (try split_ands) <;> (try subst_vars) <;> (try intros) <;>
  first
    | c16_simp
    | (refine excP_of_pre ?_
       first
         | assumption
         | c16_simp)
    | (refine excP_of_src ?_ ?_ <;> c16_simp)
    | (refine ⟨?_, ?_⟩ <;> c16_simp)
    | (refine ⟨fun hn => ?_, fun out ho => ?_⟩
       · c16_simp
       · first
           | (refine outP_of_deliver (by assumption) ?_ ?_ <;> c16_simp)
           | (refine outP_of_pre ?_; c16_simp)
           | (refine outP_of_aborted ?_ ?_ <;> c16_simp))
    | skip))

/-- `execAbortExit` before any stop decision -/
theorem execAbortExit_pre (cfg : Cfg) (tl : Bool) (a : Nat) (e : Exn) (v : View) (hs : v.mon.stopped = none) :
    ⦃fun w => ⌜view cfg w = v⌝⦄ execAbortExit cfg tl a e
    ⦃post⟨fun r w => ⌜(r ≠ none ∧ ∀ out, r = some out → out.stop = some .aborted) ∧ view cfg w = v⌝,
          fun e' w => ⌜view cfg w = v ∧ SrcL cfg e' w⌝⟩⦄ := by
  have := same_of_fxs' cfg v hs (fun w0 => execAbortExit_fx w0 cfg tl a e)
  refine Triple.entails_wp_of_post this ?_
  simp only [PostCond.entails]
  refine ⟨fun r w h => ?_, fun _ _ h => h, trivial⟩
  obtain ⟨⟨out, hr, _, hst⟩, hv⟩ := h
  exact ⟨⟨by rw [hr]; simp, fun o ho => by rw [hr] at ho; cases ho; exact hst⟩, hv⟩

theorem execExceptionPath2_spec (cfg : Cfg) (tl : Bool) (a : Nat) (e : Exn) (u : View) (hi : Idle u.mon) :
    ⦃fun w => ⌜view cfg w = u⌝⦄ execExceptionPath2 cfg tl a e ⦃attemptPostE cfg⦄ := by
  have hpre := hi.pre
  have h2 := handleException_spec cfg tl e a u hi
  have h3 := fun d v hpre hp hr => execExceptionPath3_spec cfg tl a e d v hpre hp hr
  have h4 := fun v hs => checkAbortCaught_spec cfg tl a v hs
  have h5 := fun v hs => execAbortExit_pre cfg tl a e v hs
  mvcgen [execExceptionPath2, getRS, modifyAS, h2, h3, h4, h5]
  all_goals (try clear h2 h3 h4 h5)
  c16_endE

theorem execExceptionPath_spec (cfg : Cfg) (tl : Bool) (a : Nat) (e : Exn) (u : View) (hi : Idle u.mon) :
    ⦃fun w => ⌜view cfg w = u⌝⦄ execExceptionPath cfg tl a e ⦃attemptPostE cfg⦄ := by
  have hpre := hi.pre
  have h3 := fun v hi => execExceptionPath2_spec cfg tl a e v hi
  have h4 := fun v hs => checkAbortCaught_spec cfg tl a v hs
  have h5 := fun v hs => execAbortExit_pre cfg tl a e v hs
  mvcgen [execExceptionPath, modifyAS, h3, h4, h5]
  all_goals (try clear h3 h4 h5)
  c16_endE

theorem execResultFailure_spec (cfg : Cfg) (tl : Bool) (a x : Nat) (c : Classification) (u : View)
    (hi : Idle u.mon) :
    ⦃fun w => ⌜view cfg w = u⌝⦄ execResultFailure cfg tl a x c ⦃attemptPostE cfg⦄ := by
  have hpre := hi.pre
  have h1 := fun v hs => checkAbort_v cfg v tl hs a
  have h2 := fun v hi => handleFailure_spec cfg tl c a .result none (some x) v hi
  have h3 := fun d cls v hpre hp hr => failureOutcome_spec cfg tl a d cls none (some x) (some .result) v hpre hp hr
  have h4 := fun v o => callAttemptEndFromOutcome_v cfg v a o
  have h5 := fun o rs v hfo => deliverExecute_spec cfg tl o rs a true v hfo
  mvcgen [execResultFailure, getRS, modifyAS, h1, h2, h3, h4, h5]
  all_goals (try clear h1 h2 h3 h4 h5)
  c16_endE

theorem execResultPath_spec (cfg : Cfg) (tl : Bool) (a x : Nat) (u : View) (hi : Idle u.mon) :
    ⦃fun w => ⌜view cfg w = u⌝⦄ execResultPath cfg tl a x ⦃attemptPostE cfg⦄ := by
  have hpre := hi.pre
  have h1 := shouldClassifyResult_v cfg u x
  have h2 := fun v => handleSuccessAttemptEnd_v cfg v tl a x
  have h3 := fun c => execResultFailure_spec cfg tl a x c u hi
  have h4 := fun v ok val n ns => buildOutcome_v cfg v ok val n ns
  mvcgen [execResultPath, h1, h2, h3, h4]
  all_goals (try clear h1 h2 h3 h4)
  c16_endE

theorem execPre_spec (cfg : Cfg) (tl : Bool) (a : Nat) (u : View) (hi : Idle u.mon) :
    ⦃fun w => ⌜view cfg w = u⌝⦄ execPre cfg tl a ⦃same cfg u⦄ := by
  have h1 := fun v hs n => checkAbort_v cfg v tl hs n
  have h2 := fun v => callAttemptStart_v cfg v a
  have h3 := fun v hi => invokeOp_spec cfg v a hi
  mvcgen [execPre, modifyAS, h1, h2, h3]
  all_goals (try clear h1 h2 h3)
  c16_endE

theorem execHandler_spec (cfg : Cfg) (tl : Bool) (a : Nat) (e : Exn) (u : View) (hi : Idle u.mon) :
    ⦃fun w => ⌜view cfg w = u⌝⦄ execHandler cfg tl a e ⦃attemptPostE cfg⦄ := by
  have hpre := hi.pre
  have h3 := fun v hs => execAbortExit_pre cfg tl a e v hs
  have h4 := fun v hi => execExceptionPath_spec cfg tl a e v hi
  mvcgen [execHandler, h3, h4]
  all_goals (try clear h3 h4)
  c16_endE

theorem execReturnedHandler_spec (cfg : Cfg) (tl : Bool) (a : Nat) (e : Exn) :
    ⦃fun w => ⌜ExcP cfg e w⌝⦄ execReturnedHandler cfg tl a e
    ⦃post⟨fun r w => ⌜∃ out, r = some out ∧ OutP cfg out w⌝, fun e' w => ⌜ExcP cfg e' w⌝⟩⦄ := by
  have h3 := fun he => execAbortExit_spec cfg tl a e he
  mvcgen [execReturnedHandler, h3]
  all_goals (intros; first | assumption | skip)

theorem execAttempt_spec (cfg : Cfg) (tl : Bool) (a : Nat) (u : View) (hi : Idle u.mon) :
    ⦃fun w => ⌜view cfg w = u⌝⦄ execAttempt cfg tl a ⦃attemptPostE cfg⦄ := by
  have hpre := hi.pre
  have h1 := fun v hi => execPre_spec cfg tl a v hi
  have h2 := fun x v hi => execResultPath_spec cfg tl a x v hi
  have h3 := fun e v hi => execHandler_spec cfg tl a e v hi
  have h4 := fun e => execReturnedHandler_spec cfg tl a e
  mvcgen [execAttempt, h1, h2, h3, h4]
  all_goals (try clear h1 h2 h3 h4)
  c16_endE
  all_goals (
    rename_i hex
    obtain ⟨out, hr, ho⟩ := hex
    subst hr
    exact ⟨by simp, by intro o h; cases h; exact ho⟩)

abbrev loopPostE (cfg : Cfg) : PostCond Outcome (.except Exn (.arg World .pure)) :=
  post⟨fun out w => ⌜OutP cfg out w⌝, fun e w => ⌜ExcP cfg e w⌝⟩

theorem execLoop_spec (cfg : Cfg) (tl : Bool) : ∀ (fuel a : Nat) (u : View), Idle u.mon →
    ⦃fun w => ⌜view cfg w = u⌝⦄ execLoop cfg tl fuel a ⦃loopPostE cfg⦄ := by
  intro fuel
  induction fuel with
  | zero =>
    intro a u hi
    have hpre := hi.pre
    have h1 := buildExhaustedOutcome_v cfg u tl hi.stopped
    mvcgen [execLoop, h1]
    c16_endE
    all_goals (refine outP_of_pre ?_; c16_simp)
  | succ f ih =>
    intro a u hi
    have hpre := hi.pre
    have h1 := execAttempt_spec cfg tl a u hi
    mvcgen [execLoop, h1]
    c16_endE
    rename_i s hidle _
    exact ih (a + 1) (view cfg s) hidle s rfl

theorem runExecute_spec (cfg : Cfg) :
    ⦃fun w => ⌜Pristine cfg w⌝⦄ runExecute cfg ⦃loopPostE cfg⦄ := by
  have h1 := initState_spec cfg
  have h2 := fun u hi => execLoop_spec cfg cfg.timeline cfg.maxAttempts 1 u hi
  mvcgen [runExecute, h1, h2]
  c16_endE

/-! ### policy level: everything around the loop is inert -/
open Policy

theorem withFinally_spec {α : Type} {x : M α} {fin : M Unit} {P : World → Prop} {Qv : α → World → Prop}
    {Qe : Exn → World → Prop}
    (hx : ⦃fun w => ⌜P w⌝⦄ x ⦃post⟨fun a w => ⌜Qv a w⌝, fun e w => ⌜Qe e w⌝⟩⦄)
    (hv : ∀ a, ⦃fun w => ⌜Qv a w⌝⦄ fin ⦃post⟨fun _ w => ⌜Qv a w⌝, fun e w => ⌜Qe e w⌝⟩⦄)
    (he : ∀ e, ⦃fun w => ⌜Qe e w⌝⦄ fin ⦃post⟨fun _ w => ⌜Qe e w⌝, fun e' w => ⌜Qe e' w⌝⟩⦄) :
    ⦃fun w => ⌜P w⌝⦄ withFinally x fin ⦃post⟨fun a w => ⌜Qv a w⌝, fun e w => ⌜Qe e w⌝⟩⦄ := by
  apply triple_of_run
  intro w hp
  have h1 := adequacy hx w hp
  simp only [withFinally, EStateM.run, bind, EStateM.bind, tryCatch, tryCatchThe, MonadExceptOf.tryCatch,
    EStateM.tryCatch, throw, throwThe, MonadExceptOf.throw, EStateM.throw, pure, EStateM.pure, restore_dummy] at h1 ⊢
  cases hxr : x w with
  | ok a w1 =>
    simp only [hxr] at h1 ⊢
    have h2 := adequacy (hv a) w1 h1
    simp only [EStateM.run] at h2
    cases hf : fin w1 with
    | ok u w2 => simp only [hf] at h2 ⊢; exact h2
    | error e' w2 => simp only [hf] at h2 ⊢; exact h2
  | error e w1 =>
    simp only [hxr] at h1 ⊢
    have h2 := adequacy (he e) w1 h1
    simp only [EStateM.run] at h2 ⊢
    cases hf : fin w1 with
    | ok u w2 => simp only [hf] at h2 ⊢; exact h2
    | error e' w2 => simp only [hf] at h2 ⊢; exact h2

theorem inv_of_fx {α : Type} {x : M α} {Own : Exn → Prop} (I : World → Prop) (E : Exn → World → Prop)
    (hx : ∀ w0, ⦃fun w => ⌜FootX inertQ w0 w⌝⦄ x ⦃fxPost inertQ w0 Own⦄)
    (hI : ∀ w w', FootX inertQ w w' → I w → I w') (hE : ∀ w w' e, ExcX inertQ Own w w' e → I w → E e w') :
    ⦃fun w => ⌜I w⌝⦄ x ⦃post⟨fun _ w => ⌜I w⌝, fun e w => ⌜E e w⌝⟩⦄ := by
  apply triple_of_run
  intro w hw
  have := adequacy (hx w) w (FootX.refl w)
  split <;> simp_all
  · exact hI _ _ this hw
  · exact hE _ _ _ this hw

theorem inv_of_fx' {α : Type} {x : M α} {Own : Exn → Prop} {R : α → World → Prop} (I : World → Prop)
    (E : Exn → World → Prop)
    (hx : ∀ w0, ⦃fun w => ⌜FootX inertQ w0 w⌝⦄ x
      ⦃post⟨fun a w => ⌜R a w ∧ FootX inertQ w0 w⌝, fun e w => ⌜ExcX inertQ Own w0 w e⌝⟩⦄)
    (hI : ∀ w w', FootX inertQ w w' → I w → I w') (hE : ∀ w w' e, ExcX inertQ Own w w' e → I w → E e w') :
    ⦃fun w => ⌜I w⌝⦄ x ⦃post⟨fun a w => ⌜R a w ∧ I w⌝, fun e w => ⌜E e w⌝⟩⦄ := by
  apply triple_of_run
  intro w hw
  have := adequacy (hx w) w (FootX.refl w)
  split <;> simp_all
  · exact hI _ _ this.2 hw
  · exact hE _ _ _ this hw

/-- how a call may end -/
def FinV (cfg : Cfg) (w : World) : Prop := Idle (view cfg w).mon

theorem FinV.foot {cfg : Cfg} {w w' : World} (h : FootX inertQ w w') (hv : FinV cfg w) : FinV cfg w' := by
  unfold FinV; rw [view_fx cfg _ _ h]; exact hv

theorem Pristine.foot {cfg : Cfg} {w w' : World} (h : FootX inertQ w w') (hv : Pristine cfg w) : Pristine cfg w' := by
  unfold Pristine; rw [view_fx cfg _ _ h]; exact hv

theorem ExcP.foot {cfg : Cfg} {e : Exn} {w w' : World} (h : FootX inertQ w w') (hv : ExcP cfg e w) : ExcP cfg e w' := by
  refine ⟨by rw [view_fx cfg _ _ h]; exact hv.1, fun dec hd => ?_⟩
  rw [cur_stopped_of_foot h.toS] at hd
  obtain ⟨δ, e₁, k, _⟩ := h.trace
  have hm := cur_append_inert cfg δ w.trace k
  rcases hv.2 dec hd with hx | hx | hx
  · left
    rw [← expected_mask, e₁, hm, expected_mask]
    exact hx
  · exact Or.inr (Or.inl hx)
  · exact Or.inr (Or.inr (cur_late_of_foot h.toS e hx))

theorem OutP.foot {cfg : Cfg} {o : Outcome} {w w' : World} (h : FootX inertQ w w') (hv : OutP cfg o w) :
    OutP cfg o w' := by
  refine ⟨by rw [view_fx cfg _ _ h]; exact hv.1, fun dec hd => ?_, by rw [view_fx cfg _ _ h]; exact hv.2.2⟩
  rw [cur_stopped_of_foot h.toS] at hd
  obtain ⟨δ, e₁, k, _⟩ := h.trace
  have hm := cur_append_inert cfg δ w.trace k
  rcases hv.2.1 dec hd with hx | hx
  · left
    rw [← expected_mask, e₁, hm, expected_mask]
    exact hx
  · right
    simp only [replaced, Bool.and_eq_true, List.any_eq_true] at hx ⊢
    obtain ⟨⟨h1, h2⟩, e, he, ha⟩ := hx
    exact ⟨⟨h1, h2⟩, e, cur_late_of_foot h.toS e he, ha⟩

/-- a new exception raised around the loop -/
theorem ExcP.new {cfg : Cfg} {e : Exn} {w w' : World} (h : ExcX inertQ noOwn w w' e)
    (hc : Clean (view cfg w).mon) : ExcP cfg e w' :=
  excP_of_src (by rw [view_fx cfg _ _ h.foot]; exact hc)
    (h.src.elim (fun h => h.elim) (srcL_of_prov h.foot.toS))

section policyLeaves
variable (cfg : Cfg)

theorem recordCancel_e (e : Exn) :
    ⦃fun w => ⌜ExcP cfg e w⌝⦄ Policy.recordCancel cfg ⦃post⟨fun _ w => ⌜ExcP cfg e w⌝, fun e' w => ⌜ExcP cfg e' w⌝⟩⦄ :=
  inv_of_fx _ _ (fun w0 => recordCancel_fx inertQ w0 cfg rfl) (fun _ _ h => ExcP.foot h)
    (fun _ _ _ h hv => ExcP.new h hv.1)

theorem handleAbortCall_e (e : Exn) :
    ⦃fun w => ⌜ExcP cfg e w⌝⦄ handleAbortCall cfg e ⦃post⟨fun _ w => ⌜ExcP cfg e w⌝, fun e' w => ⌜ExcP cfg e' w⌝⟩⦄ :=
  inv_of_fx _ _ (fun w0 => handleAbortCall_fx inertQ w0 cfg e (fun _ => rfl) rfl) (fun _ _ h => ExcP.foot h)
    (fun _ _ _ h hv => ExcP.new h hv.1)

theorem handleExhaustedCall_e (e : Exn) :
    ⦃fun w => ⌜ExcP cfg e w⌝⦄ handleExhaustedCall cfg e
    ⦃post⟨fun _ w => ⌜ExcP cfg e w⌝, fun e' w => ⌜ExcP cfg e' w⌝⟩⦄ :=
  inv_of_fx _ _ (fun w0 => handleExhaustedCall_fx inertQ w0 cfg e (fun _ => rfl) (fun _ _ _ => rfl)
    (fun _ _ _ _ => rfl)) (fun _ _ h => ExcP.foot h) (fun _ _ _ h hv => ExcP.new h hv.1)

theorem handleExceptionCall_e (e : Exn) (b : Bool) :
    ⦃fun w => ⌜ExcP cfg e w⌝⦄ handleExceptionCall cfg e b
    ⦃post⟨fun _ w => ⌜ExcP cfg e w⌝, fun e' w => ⌜ExcP cfg e' w⌝⟩⦄ :=
  inv_of_fx _ _ (fun w0 => handleExceptionCall_fx inertQ w0 cfg e b (fun _ => rfl) (fun _ _ _ => rfl)
    (fun _ _ _ _ => rfl) (fun _ => rfl) rfl) (fun _ _ h => ExcP.foot h) (fun _ _ _ h hv => ExcP.new h hv.1)

theorem ensureSettled_e (e : Exn) :
    ⦃fun w => ⌜ExcP cfg e w⌝⦄ ensureSettled cfg ⦃post⟨fun _ w => ⌜ExcP cfg e w⌝, fun e' w => ⌜ExcP cfg e' w⌝⟩⦄ :=
  inv_of_fx _ _ (fun w0 => ensureSettled_fx inertQ w0 cfg rfl) (fun _ _ h => ExcP.foot h)
    (fun _ _ _ h hv => ExcP.new h hv.1)

theorem ensureSettled_v :
    ⦃fun w => ⌜FinV cfg w⌝⦄ ensureSettled cfg ⦃post⟨fun _ w => ⌜FinV cfg w⌝, fun e' w => ⌜ExcP cfg e' w⌝⟩⦄ :=
  inv_of_fx _ _ (fun w0 => ensureSettled_fx inertQ w0 cfg rfl) (fun _ _ h => FinV.foot h)
    (fun _ _ _ h hv => ExcP.new h hv.clean)

theorem ensureSettled_o (o : Outcome) :
    ⦃fun w => ⌜OutP cfg o w⌝⦄ ensureSettled cfg ⦃post⟨fun _ w => ⌜OutP cfg o w⌝, fun e' w => ⌜ExcP cfg e' w⌝⟩⦄ :=
  inv_of_fx _ _ (fun w0 => ensureSettled_fx inertQ w0 cfg rfl) (fun _ _ h => OutP.foot h)
    (fun _ _ _ h hv => ExcP.new h hv.1)

theorem recordSuccess_v :
    ⦃fun w => ⌜FinV cfg w⌝⦄ Policy.recordSuccess cfg ⦃post⟨fun _ w => ⌜FinV cfg w⌝, fun e' w => ⌜ExcP cfg e' w⌝⟩⦄ :=
  inv_of_fx _ _ (fun w0 => recordSuccess_fx inertQ w0 cfg rfl (fun _ _ _ => rfl) (fun _ _ _ _ => rfl))
    (fun _ _ h => FinV.foot h) (fun _ _ _ h hv => ExcP.new h hv.clean)

theorem recordSuccess_o (o : Outcome) :
    ⦃fun w => ⌜OutP cfg o w⌝⦄ Policy.recordSuccess cfg ⦃post⟨fun _ w => ⌜OutP cfg o w⌝, fun e' w => ⌜ExcP cfg e' w⌝⟩⦄ :=
  inv_of_fx _ _ (fun w0 => recordSuccess_fx inertQ w0 cfg rfl (fun _ _ _ => rfl) (fun _ _ _ _ => rfl))
    (fun _ _ h => OutP.foot h) (fun _ _ _ h hv => ExcP.new h hv.1)

theorem recordCancel_o (o : Outcome) :
    ⦃fun w => ⌜OutP cfg o w⌝⦄ Policy.recordCancel cfg ⦃post⟨fun _ w => ⌜OutP cfg o w⌝, fun e' w => ⌜ExcP cfg e' w⌝⟩⦄ :=
  inv_of_fx _ _ (fun w0 => recordCancel_fx inertQ w0 cfg rfl) (fun _ _ h => OutP.foot h)
    (fun _ _ _ h hv => ExcP.new h hv.1)

theorem recordFailure_o (o : Outcome) (k : EClass) :
    ⦃fun w => ⌜OutP cfg o w⌝⦄ Policy.recordFailure cfg k
    ⦃post⟨fun _ w => ⌜OutP cfg o w⌝, fun e' w => ⌜ExcP cfg e' w⌝⟩⦄ :=
  inv_of_fx _ _ (fun w0 => recordFailure_fx inertQ w0 cfg k rfl (fun _ _ _ => rfl) (fun _ _ _ _ => rfl))
    (fun _ _ h => OutP.foot h) (fun _ _ _ h hv => ExcP.new h hv.1)

theorem excP_pristine {cfg : Cfg} {e : Exn} {w w' : World} {Own : Exn → Prop} (h : ExcX inertQ Own w w' e)
    (hp : Pristine cfg w) : ExcP cfg e w' :=
  excP_of_pre (by rw [view_fx cfg _ _ h.foot]; exact Idle.pre hp)

theorem initCtx_p :
    ⦃fun w => ⌜Pristine cfg w⌝⦄ initCtx ⦃post⟨fun _ w => ⌜Pristine cfg w⌝, fun e' w => ⌜ExcP cfg e' w⌝⟩⦄ :=
  inv_of_fx _ _ (fun w0 => initCtx_fx inertQ w0) (fun _ _ h => Pristine.foot h) (fun _ _ _ h => excP_pristine h)

theorem checkBreaker_p :
    ⦃fun w => ⌜Pristine cfg w⌝⦄ checkBreaker cfg ⦃post⟨fun _ w => ⌜Pristine cfg w⌝, fun e' w => ⌜ExcP cfg e' w⌝⟩⦄ :=
  inv_of_fx _ _ (fun w0 => checkBreaker_fx inertQ w0 cfg rfl (fun _ _ _ => rfl) (fun _ _ _ _ => rfl))
    (fun _ _ h => Pristine.foot h) (fun _ _ _ h => excP_pristine h)

theorem breakerAllow_p (bc : Breaker.Cfg) :
    ⦃fun w => ⌜Pristine cfg w⌝⦄ breakerAllow bc
    ⦃post⟨fun d w => ⌜(∀ ev, d.2.2 = some ev → circuitEv ev = true) ∧ Pristine cfg w⌝,
          fun e' w => ⌜ExcP cfg e' w⌝⟩⦄ :=
  inv_of_fx' _ _ (fun w0 => breakerAllow_fx inertQ w0 bc rfl) (fun _ _ h => Pristine.foot h)
    (fun _ _ _ h => excP_pristine h)

theorem emitBreakerEvent_p (ev : Option Event) (st : CState) (k : Option EClass) :
    ⦃fun w => ⌜Pristine cfg w⌝⦄ emitBreakerEvent cfg ev st k
    ⦃post⟨fun _ w => ⌜Pristine cfg w⌝, fun e' w => ⌜ExcP cfg e' w⌝⟩⦄ :=
  inv_of_fx _ _ (fun w0 => emitBreakerEvent_fx inertQ w0 cfg ev st k (fun _ _ _ => rfl) (fun _ _ _ _ => rfl))
    (fun _ _ h => Pristine.foot h) (fun _ _ _ h => excP_pristine h)

theorem policyOutcome_p (ok : Bool) (value : Option Nat) (stop : Option StopReason) (attempts : Nat)
    (lc : Option EClass) (le : Option String) (cause : Option Cause) :
    ⦃fun w => ⌜Pristine cfg w⌝⦄ policyOutcome ok value stop attempts lc le cause
    ⦃post⟨fun o w => ⌜(o.nextSleep = none ∧ o.stop = stop) ∧ Pristine cfg w⌝, fun e' w => ⌜ExcP cfg e' w⌝⟩⦄ :=
  inv_of_fx' _ _ (fun w0 => policyOutcome_fx inertQ w0 ok value stop attempts lc le cause)
    (fun _ _ h => Pristine.foot h) (fun _ _ _ h => excP_pristine h)

end policyLeaves

abbrev finPost (cfg : Cfg) : PostCond α (.except Exn (.arg World .pure)) :=
  post⟨fun _ w => ⌜FinV cfg w⌝, fun e w => ⌜ExcP cfg e w⌝⟩

abbrev finPostO (cfg : Cfg) : PostCond Outcome (.except Exn (.arg World .pure)) :=
  post⟨fun o w => ⌜OutP cfg o w⌝, fun e w => ⌜ExcP cfg e w⌝⟩

/-- the `except` ladder of `Policy.call`: always re-raises -/
theorem callLadder_spec (cfg : Cfg) (e : Exn) :
    ⦃fun w => ⌜ExcP cfg e w⌝⦄ callLadder cfg e
    ⦃post⟨fun _ _ => ⌜False⌝, fun e' w => ⌜ExcP cfg e' w⌝⟩⦄ := by
  have h1 := recordCancel_e cfg e
  have h2 := handleAbortCall_e cfg e
  have h3 := handleExhaustedCall_e cfg e
  have h4 := handleExceptionCall_e cfg e true
  mvcgen [callLadder, h1, h2, h3, h4]

theorem executeLadder_spec (cfg : Cfg) (e : Exn) :
    ⦃fun w => ⌜ExcP cfg e w⌝⦄ executeLadder cfg e
    ⦃post⟨fun _ _ => ⌜False⌝, fun e' w => ⌜ExcP cfg e' w⌝⟩⦄ := by
  have h1 := recordCancel_e cfg e
  have h3 := handleExhaustedCall_e cfg e
  have h4 := handleExceptionCall_e cfg e false
  mvcgen [executeLadder, h1, h3, h4]

theorem callAdmitted_spec (cfg : Cfg) (hret : cfg.hasRetry = true) :
    ⦃fun w => ⌜Pristine cfg w⌝⦄ callAdmitted cfg ⦃finPost cfg⦄ := by
  have h1 := checkBreaker_p cfg
  have h2 := runCall_spec cfg
  have h3 := recordSuccess_v cfg
  have h4 := fun e => callLadder_spec cfg e
  mvcgen [callAdmitted, h1, h2, h3, h4]
  all_goals (try clear h1 h2 h3 h4)
  all_goals (try intros)
  all_goals first
    | assumption
    | (simp_all [FinV]; done)
    | skip

/-- `Policy.call` with a retry component (also `RetryPolicy.call`, `@retry`, contexts, async twins) -/
theorem call_retry_spec (cfg : Cfg) (hret : cfg.hasRetry = true) :
    ⦃fun w => ⌜Pristine cfg w⌝⦄ Policy.call cfg ⦃finPost cfg⦄ := by
  have h1 := initCtx_p cfg
  have h2 := withFinally_spec (callAdmitted_spec cfg hret) (fun _ => ensureSettled_v cfg)
    (fun e => ensureSettled_e cfg e)
  mvcgen [Policy.call, h1, h2]

theorem executeWithRetry_spec (cfg : Cfg) :
    ⦃fun w => ⌜Pristine cfg w⌝⦄ executeWithRetry cfg ⦃finPostO cfg⦄ := by
  have h1 := runExecute_spec cfg
  have h2 := fun e => executeLadder_spec cfg e
  have h3 := fun o => recordSuccess_o cfg o
  have h4 := fun o => recordCancel_o cfg o
  have h5 := fun o k => recordFailure_o cfg o k
  mvcgen [executeWithRetry, h1, h2, h3, h4, h5]
  all_goals (try clear h1 h2 h3 h4 h5)
  all_goals (try intros)
  all_goals first
    | assumption
    | (simp_all; done)
    | skip

theorem outP_pristine {cfg : Cfg} {w : World} {o : Outcome} (hp : Pristine cfg w) : OutP cfg o w :=
  outP_of_pre hp

theorem executeAdmitted2_spec (cfg : Cfg) (hret : cfg.hasRetry = true) :
    ⦃fun w => ⌜Pristine cfg w⌝⦄ executeAdmitted2 cfg ⦃finPostO cfg⦄ := by
  have h1 := executeWithRetry_spec cfg
  unfold executeAdmitted2
  simp only [hret, if_true]
  mvcgen [h1]
  all_goals (try intros)
  all_goals first
    | assumption
    | (simp_all; done)
    | skip

theorem executeAdmitted_spec (cfg : Cfg) (hret : cfg.hasRetry = true) :
    ⦃fun w => ⌜Pristine cfg w⌝⦄ executeAdmitted cfg ⦃finPostO cfg⦄ := by
  have h1 := executeAdmitted2_spec cfg hret
  have h2 := fun bc => breakerAllow_p cfg bc
  have h3 := fun ev st k => emitBreakerEvent_p cfg ev st k
  have h4 := fun a b c d e f g => policyOutcome_p cfg a b c d e f g
  mvcgen [executeAdmitted, h1, h2, h3, h4]
  all_goals (try clear h1 h2 h3 h4)
  all_goals (try split_ands)
  all_goals (try intros)
  all_goals first
    | assumption
    | exact outP_pristine (by assumption)
    | (simp_all; done)
    | skip

/-- `Policy.execute` with a retry component -/
theorem execute_retry_spec (cfg : Cfg) (hret : cfg.hasRetry = true) :
    ⦃fun w => ⌜Pristine cfg w⌝⦄ Policy.execute cfg ⦃finPostO cfg⦄ := by
  have h1 := initCtx_p cfg
  have h2 := withFinally_spec (executeAdmitted_spec cfg hret) (fun o => ensureSettled_o cfg o)
    (fun e => ensureSettled_e cfg e)
  mvcgen [Policy.execute, h1, h2]

/-! ### the theorems -/

/-- all seven verdicts of the monitor, for one call -/
def Verdicts (cfg : Cfg) (e : Entry) (t : Trace) (r : Res) : Prop :=
  handlerOk cfg e t r = true ∧ sleepOk cfg e t r = true ∧ deferOk cfg e t r = true ∧ abortOk cfg e t r = true ∧
    otherOk cfg e t r = true ∧ levelOk cfg e t r = true ∧ skipOk cfg e t r = true

theorem verdicts_noLoop {cfg : Cfg} {e : Entry} (hl : hasLoop cfg e = false) (t : Trace) (r : Res) :
    Verdicts cfg e t r := by
  simp [Verdicts, handlerOk, sleepOk, deferOk, abortOk, otherOk, levelOk, skipOk, hl]

theorem clean_cur {cfg : Cfg} {w : World} (h : Clean (view cfg w).mon) : Clean (cur cfg w.trace) :=
  ⟨h.handler, h.sleep, h.stop, h.level, h.skip⟩

theorem verdicts_of {cfg : Cfg} {e : Entry} {w : World} {r : Res} (hc : Clean (view cfg w).mon)
    (hr : ∀ dec, resMatches (cur cfg w.trace) dec r = true)
    (hp : (cur cfg w.trace).pending = true → (cur cfg w.trace).stopped = none → cutShort r = true) :
    Verdicts cfg e w.trace.reverse r := by
  have hc' := clean_cur hc
  simp only [Verdicts, handlerOk, sleepOk, deferOk, abortOk, otherOk, levelOk, skipOk, run_reverse]
  simp only [hc'.handler, hc'.sleep, hc'.stop, hc'.level, hc'.skip, hr, Bool.not_false, Bool.or_true, Bool.and_true,
    Bool.true_and, Bool.false_or, Bool.true_or, Bool.or_false, true_and, and_true]
  cases hpd : (cur cfg w.trace).pending <;> cases hst : (cur cfg w.trace).stopped <;> simp_all

theorem verdicts_ret {cfg : Cfg} {e : Entry} {w : World} (v : Nat) (h : FinV cfg w) :
    Verdicts cfg e w.trace.reverse (.ret v) := by
  have hs : (cur cfg w.trace).stopped = none := by simpa [view, mask] using h.stopped
  have hp : (cur cfg w.trace).pending = false := by simpa [view, mask] using h.pending
  refine verdicts_of h.clean (fun dec => ?_) (fun hp' => by rw [hp] at hp'; cases hp')
  simp [resMatches, hs]

theorem verdicts_raised {cfg : Cfg} {e : Entry} {w : World} {ex : Exn} (h : ExcP cfg ex w) :
    Verdicts cfg e w.trace.reverse (.raised ex) := by
  refine verdicts_of h.1 (fun dec => ?_) (fun _ _ => rfl)
  by_cases hd : (cur cfg w.trace).stopped = some dec
  · rcases h.2 dec hd with hx | hx | hx
    · simp [resMatches, hx]
    · simp [resMatches, replaced, hx]
    · simp [resMatches, replaced, hx]
  · simp [resMatches, hd]

theorem outcome_beq_raised (o : Outcome) (tl : List TimelineEv) (e : Exn) :
    (Res.outcome o tl == Res.raised e) = false := by
  rw [beq_eq_false_iff_ne]
  intro h
  cases h

theorem expected_tl (m : St) (dec : SleepDecision) (o : Outcome) (tl : List TimelineEv) :
    expected m dec (.outcome o tl) = expected m dec (.outcome o []) := by
  cases dec <;> simp [expected, outcome_beq_raised]

theorem replaced_tl (m : St) (o : Outcome) (tl : List TimelineEv) :
    replaced m (.outcome o tl) = replaced m (.outcome o []) := rfl

theorem verdicts_outcome {cfg : Cfg} {e : Entry} {w : World} {o : Outcome} (tl : List TimelineEv)
    (h : OutP cfg o w) : Verdicts cfg e w.trace.reverse (.outcome o tl) := by
  refine verdicts_of h.1 (fun dec => ?_) (fun hp hs => ?_)
  rotate_left
  · have := h.2.2 (by simpa [view, mask] using hp) (by simpa [view, mask] using hs)
    simp [cutShort, this]
  by_cases hd : (cur cfg w.trace).stopped = some dec
  · rcases h.2.1 dec hd with hx | hx
    · simp [resMatches, expected_tl, hx]
    · simp [resMatches, replaced_tl, hx]
  · simp [resMatches, hd]

/-- the world `runEntry` starts a call from -/
def startWorld (w : World) : World := { w with trace := [], timeline := [], opCalls := 0 }

theorem pristine_start (cfg : Cfg) (w : World) : Pristine cfg (startWorld w) := idle_empty

theorem runCall_fin (cfg : Cfg) : ⦃fun w => ⌜Pristine cfg w⌝⦄ runCall cfg ⦃finPost cfg⦄ := runCall_spec cfg

theorem verdicts_hold (cfg : Cfg) (e : Entry) (w : World) :
    Verdicts cfg e (runEntry cfg e w).2.trace.reverse (runEntry cfg e w).1 := by
  cases e with
  | call =>
    have := adequacy (runCall_spec cfg) (startWorld w) (pristine_start cfg w)
    simp only [runEntry, startWorld] at this ⊢
    split at this <;> rename_i heq <;> simp only [heq, toRes]
    · exact verdicts_ret _ this
    · exact verdicts_raised this
  | execute =>
    have := adequacy (runExecute_spec cfg) (startWorld w) (pristine_start cfg w)
    simp only [runEntry, startWorld] at this ⊢
    split at this <;> rename_i heq <;> simp only [heq, toResO]
    · exact verdicts_outcome _ this
    · exact verdicts_raised this
  | pcall =>
    cases hret : cfg.hasRetry with
    | true =>
      have := adequacy (call_retry_spec cfg hret) (startWorld w) (pristine_start cfg w)
      simp only [runEntry, startWorld] at this ⊢
      split at this <;> rename_i heq <;> simp only [heq, toRes]
      · exact verdicts_ret _ this
      · exact verdicts_raised this
    | false => exact verdicts_noLoop (by simp [hasLoop, hret, Entry.isPolicy]) _ _
  | pexecute =>
    cases hret : cfg.hasRetry with
    | true =>
      have := adequacy (execute_retry_spec cfg hret) (startWorld w) (pristine_start cfg w)
      simp only [runEntry, startWorld] at this ⊢
      split at this <;> rename_i heq <;> simp only [heq, toResO]
      · exact verdicts_outcome _ this
      · exact verdicts_raised this
    | false => exact verdicts_noLoop (by simp [hasLoop, hret, Entry.isPolicy]) _ _

/-! ### the named conjuncts -/

/-- **handler_consulted_once.**  The sleep handler is consulted only for a granted retry and at most
    once for it; and when a handler is configured nothing sleeps unless it said SLEEP for that very
    delay — so for every retry that sleeps it was consulted exactly once, with the delay the sleeper
    gets. -/
theorem handler_consulted_once (cfg : Cfg) (e : Entry) (w : World) :
    Mon.C16.handlerOk cfg e (runEntry cfg e w).2.trace.reverse (runEntry cfg e w).1 = true :=
  (verdicts_hold cfg e w).1

/-- **sleep_sleeps_once_after_before_sleep.**  `before_sleep` (if any) runs once, for a granted retry,
    before the sleeper; the sleeper is called exactly once per granted retry that sleeps, with the
    delay `before_sleep` saw. -/
theorem sleep_sleeps_once_after_before_sleep (cfg : Cfg) (e : Entry) (w : World) :
    Mon.C16.sleepOk cfg e (runEntry cfg e w).2.trace.reverse (runEntry cfg e w).1 = true :=
  (verdicts_hold cfg e w).2.1

/-- **defer_schedules.**  After DEFER: no sleep, no hook, no further retry or attempt; the run ends as
    SCHEDULED with `next_sleep_s` = the delay the handler was shown — unless a callback raises afterwards
    (that error propagates; in `execute()` an `AbortRetryError` among them makes the outcome ABORTED). -/
theorem defer_schedules (cfg : Cfg) (e : Entry) (w : World) :
    Mon.C16.deferOk cfg e (runEntry cfg e w).2.trace.reverse (runEntry cfg e w).1 = true :=
  (verdicts_hold cfg e w).2.2.1

/-- **abort_aborts.**  After ABORT: neither sleep nor attempt; the run ends as ABORTED
    (`AbortRetryError` / `stop_reason = ABORTED`, no `next_sleep_s`) — unless a callback raises afterwards. -/
theorem abort_aborts (cfg : Cfg) (e : Entry) (w : World) :
    Mon.C16.abortOk cfg e (runEntry cfg e w).2.trace.reverse (runEntry cfg e w).1 = true :=
  (verdicts_hold cfg e w).2.2.2.1

/-- **bad_decision_raises.**  A handler answer that is not a `SleepDecision` raises `ValueError`
    (nothing sleeps, nothing is retried) — unless a callback raises afterwards. -/
theorem bad_decision_raises (cfg : Cfg) (e : Entry) (w : World) :
    Mon.C16.otherOk cfg e (runEntry cfg e w).2.trace.reverse (runEntry cfg e w).1 = true :=
  (verdicts_hold cfg e w).2.2.2.2.1

/-- **call_level_overrides_policy_level.**  Every handler / `before_sleep` / sleeper invocation is of the
    callback `Cfg.handler / beforeSleep / sleeper` resolves to: the call-level one whenever one was given. -/
theorem call_level_overrides_policy_level (cfg : Cfg) (e : Entry) (w : World) :
    Mon.C16.levelOk cfg e (runEntry cfg e w).2.trace.reverse (runEntry cfg e w).1 = true :=
  (verdicts_hold cfg e w).2.2.2.2.2.1

/-- **no_handler_always_sleeps.**  No attempt and no further retry happens while a granted retry has not
    slept: with no handler (or after SLEEP) every granted retry reaches the sleeper before the next
    attempt.  And a run that ends while a granted retry's sleep is still due (no stop decision taken)
    ended with an error or as ABORTED (`abort_if`, `AbortRetryError`) — never with a value or another
    stop reason. -/
theorem no_handler_always_sleeps (cfg : Cfg) (e : Entry) (w : World) :
    Mon.C16.skipOk cfg e (runEntry cfg e w).2.trace.reverse (runEntry cfg e w).1 = true :=
  (verdicts_hold cfg e w).2.2.2.2.2.2

/--
**C16.**  For every configuration, every entry point and every world — all sequences of handler
decisions (SLEEP / DEFER / ABORT / anything else), all placements of handler, `before_sleep` and sleeper,
any callback raising anything — the run satisfies the sleep-handler protocol monitor.
-/
theorem handler_protocol_holds (cfg : Cfg) (e : Entry) (w : World) :
    Mon.C16.ok cfg e (runEntry cfg e w).2.trace.reverse (runEntry cfg e w).1 = true := by
  have h := verdicts_hold cfg e w
  simp only [Mon.C16.ok, h.1, h.2.1, h.2.2.1, h.2.2.2.1, h.2.2.2.2.1, h.2.2.2.2.2.1, h.2.2.2.2.2.2, Bool.and_self]

/-- …and therefore of every call in every script of calls and clock advances on ONE policy object. -/
theorem handler_protocol_holds_script (cfg : Cfg) : ∀ (steps : List Step) (w : World),
    ∀ l ∈ (runScript cfg steps w).1, Mon.C16.ok cfg l.entry l.trace l.res = true := by
  intro steps
  induction steps with
  | nil => intro w l hl; simp [runScript] at hl
  | cons st rest ih =>
    intro w l hl
    cases st with
    | advance d => exact ih _ l (by simpa [runScript] using hl)
    | run e =>
      simp only [runScript, List.mem_cons] at hl
      rcases hl with rfl | hl
      · exact handler_protocol_holds cfg e w
      · exact ih _ l hl

/-! ### the monitor can say no (tests, not theorems) -/

/-- accepted: a call-level handler says DEFER for the delay 5; `RetryExhaustedError(SCHEDULED, next_sleep_s = 5)` -/
example : Mon.C16.ok { cHandler := true } .call
    [(.op 1, .raise (.ordinary 0 .transient) 0), (.classify "o0", .klass ⟨.transient, none⟩ 0),
     (.strategy .default .ctx ⟨1, .transient, none, none, 60, .exception⟩, .delay (.fin 5) 0),
     (.sleepHandler .call ⟨1, .transient, none, none, 60, .exception⟩ 5, .decision .defer 0)]
    (.raised (.libExhausted ⟨.scheduled, 1, some .transient, some "o0", none, some 5⟩)) = true := by decide

/-- rejected: …but the sleeper was called all the same -/
example : Mon.C16.ok { cHandler := true } .call
    [(.op 1, .raise (.ordinary 0 .transient) 0), (.classify "o0", .klass ⟨.transient, none⟩ 0),
     (.strategy .default .ctx ⟨1, .transient, none, none, 60, .exception⟩, .delay (.fin 5) 0),
     (.sleepHandler .call ⟨1, .transient, none, none, 60, .exception⟩ 5, .decision .defer 0),
     (.sleeper .dflt 5, .unit 5)]
    (.raised (.libExhausted ⟨.scheduled, 1, some .transient, some "o0", none, some 5⟩)) = false := by decide

/-- rejected: the policy-level handler was consulted although a call-level one was given -/
example : Mon.C16.ok { cHandler := true, pHandler := true } .call
    [(.op 1, .raise (.ordinary 0 .transient) 0), (.classify "o0", .klass ⟨.transient, none⟩ 0),
     (.strategy .default .ctx ⟨1, .transient, none, none, 60, .exception⟩, .delay (.fin 5) 0),
     (.sleepHandler .policy ⟨1, .transient, none, none, 60, .exception⟩ 5, .decision .sleep 0),
     (.sleeper .dflt 5, .unit 5), (.op 2, .value 7 0)] (.ret 7) = false := by decide

/-- rejected: the run "succeeds" with a value while the granted retry's sleep is still due -/
example : Mon.C16.ok {} .call
    [(.op 1, .raise (.ordinary 0 .transient) 0), (.classify "o0", .klass ⟨.transient, none⟩ 0),
     (.strategy .default .ctx ⟨1, .transient, none, none, 60, .exception⟩, .delay (.fin 5) 0)] (.ret 7) = false := by
  decide

/-- rejected: the next attempt although the granted retry never slept -/
example : Mon.C16.ok {} .call
    [(.op 1, .raise (.ordinary 0 .transient) 0), (.classify "o0", .klass ⟨.transient, none⟩ 0),
     (.strategy .default .ctx ⟨1, .transient, none, none, 60, .exception⟩, .delay (.fin 5) 0),
     (.op 2, .value 7 0)] (.ret 7) = false := by decide

end Redress.Props.C16
