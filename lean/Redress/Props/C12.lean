/-
  C12 — call() and execute() agree (model level: T1 Retry.call/execute, T3 Policy.call/execute with a
  retry loop, T4 sync = async at the Retry level).

  "For the same configuration and the same behaviour of the operation, clock and callbacks, every entry
  point performs the same operation invocations, strategy calls, sleeps, emitted events and breaker and
  budget interactions.  call() and execute() differ only in how the identical final result is delivered:
  return or raise versus RetryOutcome."

  Sync/async, Retry / Policy / RetryPolicy / decorator / context forms all map to one of the four model
  entries (that they do is checked by the correspondence).  This file proves the model-level statement for
  the pair `Entry.call` / `Entry.execute` (`Retry.runCall` vs `Retry.runExecute`), for ALL configurations
  and ALL worlds (answer streams, clock, component states), as a relational (two-run) theorem:

    the two runs consume the same answers, log exactly the same exchanges in the same order (operation
    invocations, classifier and strategy calls, sleeps, sleep-handler calls, every metric / log event, budget
    interactions), end with the same clock, `_RetryState`, budget and breaker state, and their results
    are related by `Twin.deliverRelated` (the relation the driver checks on every random case).

  Hypotheses (all about the configuration and the call() log; see `okX` in `Lemmas/SimLock.lean`):
    * `hs`, `he`   no attempt hooks (`on_attempt_start` / `on_attempt_end`): execute() calls the end hook on
                   every abort exit and treats a raising hook as a failed attempt; call() does neither;
    * `hclean`     the abort predicate never raises (DESIGN §6.2: a raising `abort_if` before the operation
                   runs is a failed attempt for execute() only);
    * `hab`        no callback other than the operation raises `AbortRetryError` itself — FOUND WHILE
                   PROVING: once the operation has returned, execute() turns such an exception (from the
                   result classifier, a strategy, `record_success`, the sleep handler or the sleeper) into
                   an aborted outcome and emits an `aborted` event / sets `last_stop_reason`; call()
                   re-raises it without either (smallest world: `resultClassifier := true`, answers
                   `[value 7, raise (abort 1)]`);
    * `hop`        the operation does not raise the library's own `RuntimeError` sentinel
                   (`Exn.libRuntimeError`) or a library-made `CircuitOpenError(state)` (`Exn.libCircuitOpen`)
                   — FOUND WHILE PROVING: for those two kinds `Twin.deliverRelated` has dedicated clauses
                   (exhausted-with-nothing-recorded, breaker rejection) that a failed attempt's outcome does
                   not satisfy (smallest world: answers `[raise libRuntimeError, klass permanent]`: the two
                   logs and states agree, `deliverRelated` is false).  Environment-made exceptions of those
                   Python types are `Exn.ordinary` / `Exn.circuitOpen id` and are covered.
  The stronger internal form `call_execute_agree_env` needs only `Env` (`okX` of every exchange), which
  allows the abort predicate to raise BaseException-only kinds and `RetryExhaustedError`.

  Proof: `Lemmas/Sim.lean` (the simulation relation `Sim` up to `π`, closure lemmas, tactic),
  `Lemmas/SimProcs.lean` (one lemma per shared procedure), `Lemmas/SimFacts.lean` (what the shared
  procedures leave alone / guarantee), `Lemmas/SimLock.lean`, `SimAttempt.lean`, `SimLoop.lean` (the two
  modes in lock step: delivery, failed-attempt tail, result path, exception path, handler ladders, one
  attempt, induction on the loop's fuel, `runCall` vs `runExecute`), `Lemmas/SimPolicy{,2,3}.lean` (the
  policy wrappers: breaker admission, what each wrapper does with the loop's result, `ensure_settled`).

  T3 (`pcall_pexecute_agree`), T3-NR (`pcall_pexecute_agree_nr`, retry-less policies; `Lemmas/SimPolicyNR.lean`),
  T2 (`pcall_eq_call`, `pexecute_eq_execute`, `pcall_vs_retry_call`, `pexecute_vs_retry_execute`: a Policy
  without a breaker vs its Retry; `Lemmas/SimPolicyNB.lean`, `SimXc.lean`) and T4 (`async_irrelevant`,
  `async_irrelevant_policy`, `async_irrelevant_policy_log`; `Lemmas/SimAsync.lean`, `SimCanc.lean`) have their
  own headers further down.
  Not proved: the general form of T3 in which execute() runs on the world with the breaker-classification
  answer removed (see the T3 header).
-/
import Redress.Lemmas.SimAsync
import Redress.Lemmas.SimXc
import Redress.Lemmas.SimCanc

namespace Redress.Props.C12

open Redress Twin Retry

theorem toRes_world (r : EStateM.Result Exn World Nat) : (toRes r).2 = finalWorld r := by
  cases r <;> rfl

/-- an exchange whose answer is not a raise is always fine -/
theorem okX_of_not_raise (r : Req) (a : Ans) (h : ∀ e d, a ≠ .raise e d) : okX (r, a) := by
  cases a with
  | raise e d => exact absurd rfl (h e d)
  | _ => cases r <;> trivial

/-- the three log hypotheses of T1 give the internal environment predicate -/
theorem env_of_hyps (t : List (Req × Ans))
    (hclean : ∀ x ∈ t, x.1 = .abortIf → ∀ e d, x.2 ≠ .raise e d)
    (hab : ∀ x ∈ t, (∀ n, x.1 ≠ .op n) → ∀ e d, x.2 = .raise e d → e.isAbort = false)
    (hop : ∀ x ∈ t, ∀ n e d, x = (.op n, .raise e d) → e ≠ .libRuntimeError ∧ ∀ st, e ≠ .libCircuitOpen st) :
    Env t := by
  intro x hx
  obtain ⟨r, a⟩ := x
  cases a with
  | raise e d =>
    cases r with
    | op n => exact hop _ hx n e d rfl
    | abortIf => exact absurd rfl (hclean _ hx rfl e d)
    | _ => exact hab _ hx (fun n h => by cases h) e d rfl
  | _ => exact okX_of_not_raise _ _ (fun e d h => by cases h)

/-- **T1, internal form**: under the environment predicate `Env` on the call() log. -/
theorem call_execute_agree_env (cfg : Cfg) (w : World)
    (hs : cfg.attemptStart = none) (he : cfg.attemptEnd = none)
    (henv : Env (runEntry cfg .call w).2.trace) :
    let rc := runEntry cfg .call w
    let re := runEntry cfg .execute w
    re.2.trace = rc.2.trace ∧ re.2.answers = rc.2.answers ∧ re.2.now = rc.2.now ∧
    re.2.budget = rc.2.budget ∧ re.2.breaker = rc.2.breaker ∧ re.2.rs = rc.2.rs ∧
    re.2.opCalls = rc.2.opCalls ∧ Twin.deliverRelated rc.1 re.1 = true := by
  intro rc re
  have hrc : rc = toRes (runCall cfg { w with trace := [], timeline := [], opCalls := 0 }) := rfl
  have hre : re = toResO cfg.timeline (runExecute cfg { w with trace := [], timeline := [], opCalls := 0 }) := rfl
  have henv' : Env (finalWorld (runCall cfg { w with trace := [], timeline := [], opCalls := 0 })).trace := by
    rw [← toRes_world]; exact henv
  have h := run_rel hs he _ henv'
  rw [hrc, hre]
  generalize runCall cfg { w with trace := [], timeline := [], opCalls := 0 } = r1 at h ⊢
  generalize runExecute cfg { w with trace := [], timeline := [], opCalls := 0 } = r2 at h ⊢
  cases r1 with
  | ok v wc =>
    cases r2 with
    | ok o we =>
      obtain ⟨hπ, hd⟩ := h
      obtain ⟨h1, h2, h3, h4, h5, h6, h7, _, _⟩ := (π_iff _ _).mp hπ
      exact ⟨h3, h1, h2, h6, h7, h4, h5, by simp only [toRes, toResO]; rw [dr_tl]; exact hd⟩
    | error e we => exact h.elim
  | error e wc =>
    cases r2 with
    | ok o we =>
      obtain ⟨hπ, hd, _⟩ := h
      obtain ⟨h1, h2, h3, h4, h5, h6, h7, _, _⟩ := (π_iff _ _).mp hπ
      exact ⟨h3, h1, h2, h6, h7, h4, h5, by simp only [toRes, toResO]; rw [dr_tl]; exact hd⟩
    | error e' we =>
      obtain ⟨hπ, he'⟩ := h
      subst he'
      obtain ⟨h1, h2, h3, h4, h5, h6, h7, _, _⟩ := (π_iff _ _).mp hπ
      exact ⟨h3, h1, h2, h6, h7, h4, h5, by simp [toRes, toResO, dr_raised]⟩

/-- **T1 (C12, call() vs execute())**.  Without attempt hooks, if in the call() run the abort predicate
    never raises, no callback but the operation raises `AbortRetryError`, and the operation does not raise
    the library's own `RuntimeError` / `CircuitOpenError(state)` objects, then execute() on the same world
    logs exactly the same exchanges, consumes the same answers, ends with the same clock, `_RetryState`,
    budget and breaker, and delivers the related result. -/
theorem call_execute_agree (cfg : Cfg) (w : World)
    (hs : cfg.attemptStart = none) (he : cfg.attemptEnd = none)
    (hclean : ∀ x ∈ (runEntry cfg .call w).2.trace, x.1 = .abortIf → ∀ e d, x.2 ≠ .raise e d)
    (hab : ∀ x ∈ (runEntry cfg .call w).2.trace, (∀ n, x.1 ≠ .op n) →
      ∀ e d, x.2 = .raise e d → e.isAbort = false)
    (hop : ∀ x ∈ (runEntry cfg .call w).2.trace, ∀ n e d, x = (.op n, .raise e d) →
      e ≠ .libRuntimeError ∧ ∀ st, e ≠ .libCircuitOpen st) :
    let rc := runEntry cfg .call w
    let re := runEntry cfg .execute w
    re.2.trace = rc.2.trace ∧ re.2.answers = rc.2.answers ∧ re.2.now = rc.2.now ∧
    re.2.budget = rc.2.budget ∧ re.2.breaker = rc.2.breaker ∧ re.2.rs = rc.2.rs ∧
    Twin.deliverRelated rc.1 re.1 = true := by
  intro rc re
  have h := call_execute_agree_env cfg w hs he (env_of_hyps _ hclean hab hop)
  exact ⟨h.1, h.2.1, h.2.2.1, h.2.2.2.1, h.2.2.2.2.1, h.2.2.2.2.2.1, h.2.2.2.2.2.2.2⟩

/-! ### the environment the driver's self-check `Twin.callExecuteAgree` uses -/

/-- `Twin.c12Env` (what the driver requires of both logs before comparing the two modes) implies every
    hypothesis of T1. -/
theorem hyps_of_c12Env (cfg : Cfg) (t : List (Req × Ans)) (h : Twin.c12Env cfg t = true) :
    cfg.attemptStart = none ∧ cfg.attemptEnd = none ∧
    (∀ x ∈ t, x.1 = .abortIf → ∀ e d, x.2 ≠ .raise e d) ∧
    (∀ x ∈ t, (∀ n, x.1 ≠ .op n) → ∀ e d, x.2 = .raise e d → e.isAbort = false) := by
  unfold Twin.c12Env at h
  simp only [Bool.and_eq_true, Option.isNone_iff_eq_none, List.all_eq_true] at h
  obtain ⟨⟨h1, h2⟩, h3⟩ := h
  refine ⟨h1, h2, ?_, ?_⟩
  · intro x hx hr e d hxa
    have := h3 x hx
    rw [hr, hxa] at this
    simp at this
  · intro x hx hr e d hxa
    have := h3 x hx
    obtain ⟨r, a⟩ := x
    simp only at hr hxa
    subst hxa
    cases r with
    | op n => exact absurd rfl (hr n)
    | abortIf => simp at this
    | _ =>
      simp only [Bool.not_eq_true', Bool.or_eq_false_iff] at this
      exact this.1.1

/-- … and `hop` -/
theorem hop_of_c12Env (cfg : Cfg) (t : List (Req × Ans)) (h : Twin.c12Env cfg t = true) :
    ∀ x ∈ t, ∀ n e d, x = (.op n, .raise e d) → e ≠ .libRuntimeError ∧ ∀ st, e ≠ .libCircuitOpen st := by
  unfold Twin.c12Env at h
  simp only [Bool.and_eq_true, List.all_eq_true] at h
  intro x hx n e d hxe
  have := h.2 x hx
  subst hxe
  simp only [Bool.not_eq_true'] at this
  constructor
  · rintro rfl; simp [Twin.isLibMadeTerminal] at this
  · rintro st rfl; simp [Twin.isLibMadeTerminal] at this

/-- T1 under the driver's own environment predicate (on the call() log, oldest first as the driver
    passes it). -/
theorem call_execute_agree_c12Env (cfg : Cfg) (w : World)
    (h : Twin.c12Env cfg (runEntry cfg .call w).2.trace.reverse = true) :
    let rc := runEntry cfg .call w
    let re := runEntry cfg .execute w
    re.2.trace = rc.2.trace ∧ re.2.answers = rc.2.answers ∧ re.2.now = rc.2.now ∧
    re.2.budget = rc.2.budget ∧ re.2.breaker = rc.2.breaker ∧ re.2.rs = rc.2.rs ∧
    Twin.deliverRelated rc.1 re.1 = true := by
  obtain ⟨hs, he, hclean, hab⟩ := hyps_of_c12Env cfg _ h
  have hop := hop_of_c12Env cfg _ h
  exact call_execute_agree cfg w hs he
    (fun x hx => hclean x (List.mem_reverse.mpr hx))
    (fun x hx => hab x (List.mem_reverse.mpr hx))
    (fun x hx => hop x (List.mem_reverse.mpr hx))

/-! ### named corollaries (same hypotheses as T1, bundled) -/

/-- the hypotheses of T1 -/
structure Hyp (cfg : Cfg) (w : World) : Prop where
  noStartHook : cfg.attemptStart = none
  noEndHook : cfg.attemptEnd = none
  abortIfQuiet : ∀ x ∈ (runEntry cfg .call w).2.trace, x.1 = .abortIf → ∀ e d, x.2 ≠ .raise e d
  noForeignAbort : ∀ x ∈ (runEntry cfg .call w).2.trace, (∀ n, x.1 ≠ .op n) →
    ∀ e d, x.2 = .raise e d → e.isAbort = false
  opNotLibMade : ∀ x ∈ (runEntry cfg .call w).2.trace, ∀ n e d, x = (.op n, .raise e d) →
    e ≠ .libRuntimeError ∧ ∀ st, e ≠ .libCircuitOpen st

theorem same_log (cfg : Cfg) (w : World) (h : Hyp cfg w) :
    (runEntry cfg .execute w).2.trace = (runEntry cfg .call w).2.trace :=
  (call_execute_agree cfg w h.1 h.2 h.3 h.4 h.5).1

/-- the same operation invocations, strategy calls, sleeps and sleep-handler calls, in the same order, with
    the same arguments and answers -/
theorem same_invocations_and_sleeps (cfg : Cfg) (w : World) (h : Hyp cfg w) (p : Req → Bool) :
    (runEntry cfg .execute w).2.trace.filter (fun x => p x.1)
      = (runEntry cfg .call w).2.trace.filter (fun x => p x.1) := by
  rw [same_log cfg w h]

/-- the same emitted events (every metric / log hook invocation, with tags, in order) -/
theorem same_events (cfg : Cfg) (w : World) (h : Hyp cfg w) :
    (runEntry cfg .execute w).2.trace.filter (fun x => Twin.isHook x.1)
      = (runEntry cfg .call w).2.trace.filter (fun x => Twin.isHook x.1) :=
  same_invocations_and_sleeps cfg w h Twin.isHook

/-- the same budget and breaker interactions and final component states (and the C12 projection of the
    log that the driver compares is the same) -/
theorem same_budget_and_breaker (cfg : Cfg) (w : World) (h : Hyp cfg w) :
    (runEntry cfg .execute w).2.budget = (runEntry cfg .call w).2.budget ∧
    (runEntry cfg .execute w).2.breaker = (runEntry cfg .call w).2.breaker ∧
    Twin.projC12 (runEntry cfg .execute w).2.trace.reverse
      = Twin.projC12 (runEntry cfg .call w).2.trace.reverse := by
  have := call_execute_agree cfg w h.1 h.2 h.3 h.4 h.5
  exact ⟨this.2.2.2.1, this.2.2.2.2.1, by rw [this.1]⟩

/-- the identical final result, delivered by return / raise or as a RetryOutcome -/
theorem result_delivered_either_way (cfg : Cfg) (w : World) (h : Hyp cfg w) :
    Twin.deliverRelated (runEntry cfg .call w).1 (runEntry cfg .execute w).1 = true :=
  (call_execute_agree cfg w h.1 h.2 h.3 h.4 h.5).2.2.2.2.2.2

/-- call() returns `v` iff execute() returns a successful outcome carrying `v` -/
theorem returns_iff_ok (cfg : Cfg) (w : World) (h : Hyp cfg w) (v : Nat)
    (hv : (runEntry cfg .call w).1 = .ret v) :
    ∃ o t, (runEntry cfg .execute w).1 = .outcome o t ∧ o.ok = true ∧ o.value = some v := by
  have hd := result_delivered_either_way cfg w h
  rw [hv] at hd
  cases hx : (runEntry cfg .execute w).1 with
  | outcome o t =>
    rw [hx] at hd
    simp only [deliverRelated, Bool.and_eq_true, beq_iff_eq] at hd
    exact ⟨o, t, rfl, hd.1, hd.2⟩
  | ret v' => rw [hx] at hd; simp [deliverRelated] at hd
  | raised e => rw [hx] at hd; simp [deliverRelated] at hd

/-! ### T3: `Policy.call` vs `Policy.execute`, with a retry loop (`cfg.hasRetry = true`)

The wrappers differ in more than delivery (all found while proving; the first three are implementation
findings F11–F13 of the project, the fourth is an observation):
  * `max_attempts = 0`: call() classifies the library's own `RuntimeError` for the breaker, execute()
    records `UNKNOWN` (F11) — excluded by `hmax`;
  * the operation's `CircuitOpenError` (nested policy) re-raised by the loop: call() records a *cancel*,
    execute() a *failure* (F12) — excluded by `hco`;
  * (no-retry mode, F13, is outside this theorem: `hret`);
  * call() runs `record_success()` inside its `try`, execute() outside: a hook raising a BaseException-only
    kind on the `circuit_closed` event gives call() an extra `record_cancel` — excluded by `hhook`;
  * when the loop re-raises the operation's last exception, call() classifies it once more for the breaker
    (`classify_for_breaker`), execute() uses `outcome.last_class`.  That extra classifier call consumes an
    oracle answer and lets its duration pass, so on the SAME world the two runs can only agree when it
    returns the recorded class (`hclsOK`), takes no time and is not followed by further callback
    invocations (`hclsLast`: the newest callback exchange of the call() log is that classification).  The
    general statement — execute() on the world with that one answer removed — needs an
    "answers beyond those consumed are irrelevant" lemma for every procedure and is not proved here.
Conclusion: the logs agree after `Twin.projC12` (which drops classifier calls and attempt hooks), the clock,
budget, breaker, `_RetryState` and `ExecutionContext` agree, and the results are `deliverRelated`. -/

theorem toResO_world (tl : Bool) (r : EStateM.Result Exn World Outcome) : (toResO tl r).2 = finalWorld r := by
  cases r <;> rfl

/-- **T3 (C12, Policy.call() vs Policy.execute(), retrying policies).** -/
theorem pcall_pexecute_agree (cfg : Cfg) (w : World)
    (hret : cfg.hasRetry = true) (hs : cfg.attemptStart = none) (he : cfg.attemptEnd = none)
    (hmax : 0 < cfg.maxAttempts)
    (hclean : ∀ x ∈ (runEntry cfg .pcall w).2.trace, x.1 = .abortIf → ∀ e d, x.2 ≠ .raise e d)
    (hab : ∀ x ∈ (runEntry cfg .pcall w).2.trace, (∀ n, x.1 ≠ .op n) →
      ∀ e d, x.2 = .raise e d → e.isAbort = false)
    (hop : ∀ x ∈ (runEntry cfg .pcall w).2.trace, ∀ n e d, x = (.op n, .raise e d) →
      e ≠ .libRuntimeError ∧ ∀ st, e ≠ .libCircuitOpen st)
    (hco : ∀ id, (runEntry cfg .pcall w).1 ≠ .raised (.circuitOpen id))
    (hhook : HookOK (runEntry cfg .pcall w).2.trace)
    (hclsOK : ∀ x ∈ (runEntry cfg .pcall w).2.trace, ∀ e,
      (runEntry cfg .pcall w).2.rs.lastExc = some e → x.1 = .classify e.ref →
      ∃ c d, x.2 = .klass c d ∧ (runEntry cfg .pcall w).2.rs.lastClass = some c.klass)
    (hclsLast : ∀ e, (runEntry cfg .pcall w).1 = .raised e →
      (runEntry cfg .pcall w).2.rs.lastExc = some e → e.isException = true →
      ∃ a rest, (runEntry cfg .pcall w).2.trace.filter (fun x => !Twin.isInternal x.1)
          = (.classify e.ref, a) :: rest ∧ a.dur = 0) :
    let rc := runEntry cfg .pcall w
    let re := runEntry cfg .pexecute w
    Twin.projC12 re.2.trace = Twin.projC12 rc.2.trace ∧ re.2.now = rc.2.now ∧
    re.2.budget = rc.2.budget ∧ re.2.breaker = rc.2.breaker ∧ re.2.rs = rc.2.rs ∧ re.2.xc = rc.2.xc ∧
    re.2.opCalls = rc.2.opCalls ∧ Twin.deliverRelated rc.1 re.1 = true := by
  intro rc re
  have henv := env_of_hyps _ hclean hab hop
  have hA : runEntry cfg .pcall w
      = toRes (Policy.call cfg { w with trace := [], timeline := [], opCalls := 0 }) := rfl
  have hB : re = toResO (cfg.timeline && cfg.hasRetry)
      (Policy.execute cfg { w with trace := [], timeline := [], opCalls := 0 }) := rfl
  have hrc : rc = toRes (Policy.call cfg { w with trace := [], timeline := [], opCalls := 0 }) := rfl
  rw [hA, policy_run_call] at henv hco hhook hclsOK hclsLast
  rw [hrc, hB, policy_run_call, policy_run_execute]
  generalize ({ w with trace := [], timeline := [], opCalls := 0 } : World) = w0 at *
  have hx0 : ({ w0 with xc := { start := w0.now } } : World).xc.settled = false := rfl
  generalize ({ w0 with xc := { start := w0.now } } : World) = w1 at *
  have key : PolHyp cfg (Policy.callAdmitted cfg w1) → PolRel cfg (Policy.callAdmitted cfg w1) (Policy.executeAdmitted cfg w1) :=
    admitted_rel hret hs he hmax w1 hx0
  cases hra : Policy.callAdmitted cfg w1 with
  | ok v wa =>
    rw [hra] at henv hco hhook hclsOK hclsLast key
    have H : PolHyp cfg (.ok v wa) :=
      { env := henv.mono (settle_grows cfg wa)
        hook := hhook.mono (settle_grows cfg wa)
        co := fun _ _ h => by cases h
        clsOK := fun x hx e hle hr => by
          have := hclsOK x (settle_grows cfg wa x hx) e (by show (settle cfg wa).rs.lastExc = _; rw [settle_rs]; exact hle) hr
          obtain ⟨c, d, h1, h2⟩ := this
          exact ⟨c, d, h1, by have h3 : (settle cfg wa).rs.lastClass = _ := h2; rw [settle_rs] at h3; exact h3⟩
        clsLast := fun _ _ h => by cases h }
    have hk := key H
    cases hrb : Policy.executeAdmitted cfg w1 with
    | error e wb => rw [hrb] at hk; exact hk.elim
    | ok o wb =>
      rw [hrb] at hk
      obtain ⟨hp, hd⟩ := hk
      exact ⟨hp.trace, hp.now, hp.budget, hp.breaker, hp.rs, hp.xc, hp.opCalls,
        by simp only [toRes, toResO]; rw [dr_tl]; exact hd⟩
  | error e wa =>
    rw [hra] at henv hco hhook hclsOK hclsLast key
    have H : PolHyp cfg (.error e wa) :=
      { env := henv.mono (settle_grows cfg wa)
        hook := hhook.mono (settle_grows cfg wa)
        co := fun id w' h => by
          injection h with h1 _
          exact hco id (by rw [h1]; rfl)
        clsOK := fun x hx e' hle hr => by
          have := hclsOK x (settle_grows cfg wa x hx) e' (by show (settle cfg wa).rs.lastExc = _; rw [settle_rs]; exact hle) hr
          obtain ⟨c, d, h1, h2⟩ := this
          exact ⟨c, d, h1, by have h3 : (settle cfg wa).rs.lastClass = _ := h2; rw [settle_rs] at h3; exact h3⟩
        clsLast := fun e' w' h hle hex => by
          injection h with h1 h2
          subst h1 h2
          have := hclsLast e rfl (by show (settle cfg wa).rs.lastExc = _; rw [settle_rs]; exact hle) hex
          obtain ⟨a, rest, h3, h4⟩ := this
          have h5 : (settle cfg wa).trace.filter (fun x => !Twin.isInternal x.1) = _ := h3
          rw [settle_filter] at h5
          exact ⟨a, rest, h5, h4⟩ }
    have hk := key H
    cases hrb : Policy.executeAdmitted cfg w1 with
    | ok o wb =>
      rw [hrb] at hk
      obtain ⟨hp, hd⟩ := hk
      exact ⟨hp.trace, hp.now, hp.budget, hp.breaker, hp.rs, hp.xc, hp.opCalls,
        by simp only [toRes, toResO]; rw [dr_tl]; exact hd⟩
    | error e' wb =>
      rw [hrb] at hk
      obtain ⟨hp, he'⟩ := hk
      subst he'
      exact ⟨hp.trace, hp.now, hp.budget, hp.breaker, hp.rs, hp.xc, hp.opCalls,
        by simp [toRes, toResO, dr_raised]⟩

/-! ### T3-NR: `Policy.call` vs `Policy.execute` without a retry loop (`cfg.hasRetry = false`)

Both wrappers run from the same world and — under the hypotheses — do exactly the same things in the same
order, so the conclusion is EQUALITY of the two final worlds (log, clock, answers, breaker, budget, …) and
`deliverRelated` results.  What has to be excluded (model = code; found while proving unless marked):
  * `hend` — the call-level `on_attempt_end` hook.  The two paths call it at different moments:
    call() runs it BEFORE `record_success` / `record_failure` / `record_cancel` and inside its `try`,
    execute() AFTER them and (on success) outside any `try`.  So (a) with a breaker that emits an event, or
    a hook that takes time, the oracle answers / the clock seen by the breaker differ; (b) a hook that
    raises after a successful operation makes call() record a FAILURE (or a cancel) on the breaker via its
    ladder while execute() has already recorded SUCCESS; (c) for `RetryExhaustedError` and circuit-open
    kinds call() does not run the hook at all, execute() does.  The start hook is harmless (both paths run
    it first and treat its exception like the operation's), so `cAttemptStart` is not restricted;
  * `LadderOK` for whatever the operation (or the start hook) raises: not the library's own
    `RuntimeError` / `CircuitOpenError(state)` / `RetryExhaustedError(...)` objects (`deliverRelated` has
    dedicated clauses for them); a circuit-open kind only without a breaker (F12: call() → nothing, then
    cancel; execute() → failure); a `RetryExhaustedError` only without a breaker or with `last_class`
    unset / UNKNOWN (F13: call() records `exc.last_class`, execute() `default_classifier(exc)` = UNKNOWN);
  * `hhook` — as in T3: call() runs `record_success()` inside its `try`, so a hook raising a
    BaseException-only kind on the `circuit_closed` event gives call() an extra `record_cancel`. -/

/-- **T3-NR (C12, Policy.call() vs Policy.execute(), retry-less policies).** -/
theorem pcall_pexecute_agree_nr (cfg : Cfg) (w : World)
    (hret : cfg.hasRetry = false) (hend : cfg.cAttemptEnd = false)
    (hlad : ∀ x ∈ (runEntry cfg .pcall w).2.trace, entersLadder x.1 = true →
      ∀ e d, x.2 = .raise e d → LadderOK cfg e)
    (hhook : HookOK (runEntry cfg .pcall w).2.trace) :
    (runEntry cfg .pexecute w).2 = (runEntry cfg .pcall w).2 ∧
    Twin.deliverRelated (runEntry cfg .pcall w).1 (runEntry cfg .pexecute w).1 = true := by
  have hA : runEntry cfg .pcall w
      = toRes (Policy.call cfg { w with trace := [], timeline := [], opCalls := 0 }) := rfl
  have hB : runEntry cfg .pexecute w = toResO (cfg.timeline && cfg.hasRetry)
      (Policy.execute cfg { w with trace := [], timeline := [], opCalls := 0 }) := rfl
  rw [hA, policy_run_call] at hlad hhook
  rw [hA, hB, policy_run_call, policy_run_execute]
  generalize ({ w with trace := [], timeline := [], opCalls := 0 } : World) = w0 at *
  generalize ({ w0 with xc := { start := w0.now } } : World) = w1 at *
  have key := admitted_nr hret hend w1
  cases hra : Policy.callAdmitted cfg w1 with
  | ok v wa =>
    rw [hra] at hlad hhook key
    have hk := key ⟨fun x hx => hlad x (settle_grows cfg wa x hx), hhook.mono (settle_grows cfg wa)⟩
    cases hrb : Policy.executeAdmitted cfg w1 with
    | error e wb => rw [hrb] at hk; exact hk.elim
    | ok o wb =>
      rw [hrb] at hk
      obtain ⟨hw, hd⟩ := hk
      subst hw
      exact ⟨rfl, by simp only [toRes, toResO]; rw [dr_tl]; exact hd⟩
  | error e wa =>
    rw [hra] at hlad hhook key
    have hk := key ⟨fun x hx => hlad x (settle_grows cfg wa x hx), hhook.mono (settle_grows cfg wa)⟩
    cases hrb : Policy.executeAdmitted cfg w1 with
    | ok o wb =>
      rw [hrb] at hk
      obtain ⟨hw, hd⟩ := hk
      subst hw
      exact ⟨rfl, by simp only [toRes, toResO]; rw [dr_tl]; exact hd⟩
    | error e' wb =>
      rw [hrb] at hk
      obtain ⟨hw, he'⟩ := hk
      subst hw he'
      exact ⟨rfl, by simp [toRes, toResO, dr_raised]⟩

/-- T3-NR in the shape of T3: projected logs, clock, budget, breaker, `ExecutionContext` -/
theorem pcall_pexecute_agree_nr' (cfg : Cfg) (w : World)
    (hret : cfg.hasRetry = false) (hend : cfg.cAttemptEnd = false)
    (hlad : ∀ x ∈ (runEntry cfg .pcall w).2.trace, entersLadder x.1 = true →
      ∀ e d, x.2 = .raise e d → LadderOK cfg e)
    (hhook : HookOK (runEntry cfg .pcall w).2.trace) :
    let rc := runEntry cfg .pcall w
    let re := runEntry cfg .pexecute w
    Twin.projC12 re.2.trace = Twin.projC12 rc.2.trace ∧ re.2.trace = rc.2.trace ∧ re.2.answers = rc.2.answers ∧
    re.2.now = rc.2.now ∧ re.2.budget = rc.2.budget ∧ re.2.breaker = rc.2.breaker ∧ re.2.xc = rc.2.xc ∧
    Twin.deliverRelated rc.1 re.1 = true := by
  intro rc re
  obtain ⟨h1, h2⟩ := pcall_pexecute_agree_nr cfg w hret hend hlad hhook
  have h1' : re.2 = rc.2 := h1
  rw [h1']
  exact ⟨rfl, rfl, rfl, rfl, rfl, rfl, rfl, h2⟩

/-- `LadderOK` is satisfiable by the interesting kinds: an ordinary exception, an abort, a
    `RetryExhaustedError` without `last_class`, KeyboardInterrupt — with any breaker -/
example (cfg : Cfg) : LadderOK cfg (.ordinary 1 .transient) ∧ LadderOK cfg (.abort 2) ∧
    LadderOK cfg (.exhausted 3 none) ∧ LadderOK cfg .keyboardInterrupt := by
  refine ⟨?_, ?_, ?_, ?_⟩ <;>
    exact ⟨(fun h => by cases h), (fun h => by cases h), (fun _ h => by cases h),
      (fun _ => by first | exact Or.inr rfl | contradiction)⟩

/-! ### T2: a Policy without a breaker does what its Retry does (`cfg.breaker = none`, `cfg.hasRetry = true`)

Exact equations, no environment hypotheses.  The only difference: when the retry loop ends by RAISING an
`Exception` that is neither an abort, nor a `RetryExhaustedError`, nor a circuit-open kind
(`needsBreakerClass e`), both `Policy.call` and `Policy.execute` classify it once more
(`_handle_exception_call` → `classify_for_breaker`, although there is no breaker): one more `classify`
exchange at the end of the log, and if that classifier call itself fails, its exception replaces the
original one (`classifyAgain`).  `Retry.call/execute` start from whatever `ExecutionContext` the world
holds (they never look at it); `Policy.*` creates a fresh one, hence `xc := { start := w.now }` on the right. -/

/-- **T2 (call)**. -/
theorem pcall_eq_call (cfg : Cfg) (w : World) (hret : cfg.hasRetry = true) (hb : cfg.breaker = none) :
    runEntry cfg .pcall w =
      (match runEntry cfg .call { w with xc := { start := w.now } } with
       | (Res.raised e, w') =>
         if needsBreakerClass e = true then (Res.raised (classifyAgain e w').1, (classifyAgain e w').2)
         else (Res.raised e, w')
       | r => r) := by
  show toRes (Policy.call cfg { w with trace := [], timeline := [], opCalls := 0 }) = _
  rw [policyCall_nb hret hb]
  show _ = (match toRes (runCall cfg
      { w with trace := [], timeline := [], opCalls := 0, xc := { start := w.now } }) with
    | (Res.raised e, w') =>
      if needsBreakerClass e = true then (Res.raised (classifyAgain e w').1, (classifyAgain e w').2)
      else (Res.raised e, w')
    | r => r)
  cases runCall cfg { w with trace := [], timeline := [], opCalls := 0, xc := { start := w.now } } with
  | ok v wa => rfl
  | error e wa =>
    simp only [toRes]
    rw [callLadder_nb hret hb]
    by_cases hn : needsBreakerClass e = true
    · rw [if_pos hn, if_pos hn]
    · rw [if_neg hn, if_neg hn]

/-- **T2 (execute)**. -/
theorem pexecute_eq_execute (cfg : Cfg) (w : World) (hret : cfg.hasRetry = true) (hb : cfg.breaker = none) :
    runEntry cfg .pexecute w =
      (match runEntry cfg .execute { w with xc := { start := w.now } } with
       | (Res.raised e, w') =>
         if needsBreakerClass e = true then (Res.raised (classifyAgain e w').1, (classifyAgain e w').2)
         else (Res.raised e, w')
       | r => r) := by
  show toResO (cfg.timeline && cfg.hasRetry)
    (Policy.execute cfg { w with trace := [], timeline := [], opCalls := 0 }) = _
  rw [policyExecute_nb hret hb, hret, Bool.and_true]
  show _ = (match toResO cfg.timeline (runExecute cfg
      { w with trace := [], timeline := [], opCalls := 0, xc := { start := w.now } }) with
    | (Res.raised e, w') =>
      if needsBreakerClass e = true then (Res.raised (classifyAgain e w').1, (classifyAgain e w').2)
      else (Res.raised e, w')
    | r => r)
  cases runExecute cfg { w with trace := [], timeline := [], opCalls := 0, xc := { start := w.now } } with
  | ok o wb => rfl
  | error e wb =>
    simp only [toResO]
    rw [executeLadder_nb hret hb]
    by_cases hn : needsBreakerClass e = true
    · rw [if_pos hn, if_pos hn]
    · rw [if_neg hn, if_neg hn]

/-- whenever `Retry.execute` returns an outcome (it raises only what a callback raised in the handler
    region, BaseException-only kinds, …), `Policy.execute` is the same run: identical result, log, state -/
theorem pexecute_same_outcome (cfg : Cfg) (w : World) (hret : cfg.hasRetry = true) (hb : cfg.breaker = none)
    (o : Outcome) (t : List TimelineEv)
    (h : (runEntry cfg .execute { w with xc := { start := w.now } }).1 = .outcome o t) :
    runEntry cfg .pexecute w = runEntry cfg .execute { w with xc := { start := w.now } } := by
  rw [pexecute_eq_execute cfg w hret hb]
  generalize runEntry cfg .execute { w with xc := { start := w.now } } = r at h ⊢
  obtain ⟨r1, r2⟩ := r
  simp only at h
  subst h
  rfl

/-- `Policy.call` returns / raises what `Retry.call` does, with the same log, unless the loop raised an
    exception that gets classified for the breaker -/
theorem pcall_same (cfg : Cfg) (w : World) (hret : cfg.hasRetry = true) (hb : cfg.breaker = none)
    (h : ∀ e, (runEntry cfg .call { w with xc := { start := w.now } }).1 = .raised e →
      needsBreakerClass e = false) :
    runEntry cfg .pcall w = runEntry cfg .call { w with xc := { start := w.now } } := by
  rw [pcall_eq_call cfg w hret hb]
  generalize runEntry cfg .call { w with xc := { start := w.now } } = r at h ⊢
  obtain ⟨r1, r2⟩ := r
  cases r1 with
  | raised e =>
    simp only
    rw [h e rfl]
    simp
  | _ => rfl

/-- in every case: the same `_RetryState`, budget, breaker, operation count and C12-projection of the log;
    the log itself is the Retry's log plus at most one `classify` exchange; the result is the same
    provided that extra classifier call (if any) returns a class -/
theorem pcall_vs_call (cfg : Cfg) (w : World) (hret : cfg.hasRetry = true) (hb : cfg.breaker = none) :
    let rp := runEntry cfg .pcall w
    let rc := runEntry cfg .call { w with xc := { start := w.now } }
    rp.2.rs = rc.2.rs ∧ rp.2.budget = rc.2.budget ∧ rp.2.breaker = rc.2.breaker ∧
    rp.2.opCalls = rc.2.opCalls ∧ rp.2.xc = rc.2.xc ∧
    Twin.projC12 rp.2.trace = Twin.projC12 rc.2.trace ∧
    (rp = rc ∨ ∃ e a, rc.1 = .raised e ∧ needsBreakerClass e = true ∧
      rp.2.trace = (.classify e.ref, a) :: rc.2.trace ∧ rp.2.now = rc.2.now + a.dur ∧
      ((∃ c d, a = .klass c d) → rp.1 = rc.1)) := by
  intro rp rc
  have h := pcall_eq_call cfg w hret hb
  show rp.2.rs = rc.2.rs ∧ _
  have hrp : rp = runEntry cfg .pcall w := rfl
  rw [← hrp] at h
  generalize hrc : rc = r at h ⊢
  have : runEntry cfg .call { w with xc := { start := w.now } } = r := hrc
  rw [this] at h
  obtain ⟨r1, r2⟩ := r
  cases r1 with
  | raised e =>
    simp only at h
    by_cases hn : needsBreakerClass e = true
    · rw [if_pos hn] at h
      obtain ⟨a, h1, h2, h3, h4, h5, h6, h7, h8⟩ := classifyAgain_spec e r2
      rw [h]
      refine ⟨h2, h3, h4, h5, h6, ?_, Or.inr ⟨e, a, rfl, hn, h1, h7, fun hk => by rw [h8 hk]⟩⟩
      show Twin.projC12 (classifyAgain e r2).2.trace = _
      rw [h1, projC12_cons]
      rfl
    · rw [if_neg hn] at h
      rw [h]
      exact ⟨rfl, rfl, rfl, rfl, rfl, rfl, Or.inl rfl⟩
  | ret v => rw [h]; exact ⟨rfl, rfl, rfl, rfl, rfl, rfl, Or.inl rfl⟩
  | outcome o t => rw [h]; exact ⟨rfl, rfl, rfl, rfl, rfl, rfl, Or.inl rfl⟩

/-! #### …and the `ExecutionContext` the world happens to hold is irrelevant to `Retry.call/execute`

(`Lemmas/SimXc.lean`: every procedure of the loop commutes with replacing `World.xc`), so T2 can be stated
against `runEntry cfg .call w` itself. -/

theorem call_xc (cfg : Cfg) (w : World) (c : XCtx) :
    runEntry cfg .call { w with xc := c }
      = ((runEntry cfg .call w).1, { (runEntry cfg .call w).2 with xc := c }) := by
  show toRes (runCall cfg (θ c { w with trace := [], timeline := [], opCalls := 0 })) = _
  rw [(runCall_xq (xc0 := c) cfg).eq]
  show _ = ((toRes (runCall cfg { w with trace := [], timeline := [], opCalls := 0 })).1,
    θ c (toRes (runCall cfg { w with trace := [], timeline := [], opCalls := 0 })).2)
  cases runCall cfg { w with trace := [], timeline := [], opCalls := 0 } <;> rfl

theorem execute_xc (cfg : Cfg) (w : World) (c : XCtx) :
    runEntry cfg .execute { w with xc := c }
      = ((runEntry cfg .execute w).1, { (runEntry cfg .execute w).2 with xc := c }) := by
  show toResO cfg.timeline (runExecute cfg (θ c { w with trace := [], timeline := [], opCalls := 0 })) = _
  rw [(runExecute_xq (xc0 := c) cfg).eq]
  show _ = ((toResO cfg.timeline (runExecute cfg { w with trace := [], timeline := [], opCalls := 0 })).1,
    θ c (toResO cfg.timeline (runExecute cfg { w with trace := [], timeline := [], opCalls := 0 })).2)
  cases runExecute cfg { w with trace := [], timeline := [], opCalls := 0 } <;> rfl

/-- **T2 (call), against `Retry.call` on the same world**: same `_RetryState`, budget, breaker, operation
    count, the same log up to one trailing `classify` exchange (present exactly when `Retry.call` raised
    an exception `e` with `needsBreakerClass e`), and the same result provided that classifier call (if
    any) returns a class. -/
theorem pcall_vs_retry_call (cfg : Cfg) (w : World) (hret : cfg.hasRetry = true) (hb : cfg.breaker = none) :
    let rp := runEntry cfg .pcall w
    let rc := runEntry cfg .call w
    rp.2.rs = rc.2.rs ∧ rp.2.budget = rc.2.budget ∧ rp.2.breaker = rc.2.breaker ∧
    rp.2.opCalls = rc.2.opCalls ∧ Twin.projC12 rp.2.trace = Twin.projC12 rc.2.trace ∧
    ((rp.1 = rc.1 ∧ rp.2.trace = rc.2.trace ∧ rp.2.answers = rc.2.answers ∧ rp.2.now = rc.2.now ∧
        ∀ e, rc.1 = .raised e → needsBreakerClass e = false) ∨
     ∃ e a, rc.1 = .raised e ∧ needsBreakerClass e = true ∧
      rp.2.trace = (.classify e.ref, a) :: rc.2.trace ∧ rp.2.now = rc.2.now + a.dur ∧
      ((∃ c d, a = .klass c d) → rp.1 = rc.1)) := by
  intro rp rc
  have h := pcall_eq_call cfg w hret hb
  rw [call_xc] at h
  have hrp : runEntry cfg .pcall w = rp := rfl
  have hrc : runEntry cfg .call w = rc := rfl
  rw [hrp, hrc] at h
  obtain ⟨r1, r2⟩ := rc
  cases r1 with
  | raised e =>
    simp only at h
    by_cases hn : needsBreakerClass e = true
    · rw [if_pos hn] at h
      obtain ⟨a, h1, h2, h3, h4, h5, h6, h7, h8⟩ :=
        classifyAgain_spec e { r2 with xc := { start := w.now } }
      rw [h]
      refine ⟨h2, h3, h4, h5, ?_, Or.inr ⟨e, a, rfl, hn, h1, h7, fun hk => by rw [h8 hk]⟩⟩
      show Twin.projC12 (classifyAgain e { r2 with xc := { start := w.now } }).2.trace = _
      rw [h1, projC12_cons]
      rfl
    · rw [if_neg hn] at h
      rw [h]
      refine ⟨rfl, rfl, rfl, rfl, rfl, Or.inl ⟨rfl, rfl, rfl, rfl, ?_⟩⟩
      intro e' he'
      injection he' with he'
      subst he'
      simpa using hn
  | ret v =>
    rw [h]
    exact ⟨rfl, rfl, rfl, rfl, rfl, Or.inl ⟨rfl, rfl, rfl, rfl, fun e he => by cases he⟩⟩
  | outcome o t =>
    rw [h]
    exact ⟨rfl, rfl, rfl, rfl, rfl, Or.inl ⟨rfl, rfl, rfl, rfl, fun e he => by cases he⟩⟩

/-- **T2 (execute), against `Retry.execute` on the same world**: whenever `Retry.execute` returns an
    outcome, `Policy.execute` returns the same outcome (and timeline) with the identical log and state
    (but for the `ExecutionContext` it created) -/
theorem pexecute_vs_retry_execute (cfg : Cfg) (w : World) (hret : cfg.hasRetry = true)
    (hb : cfg.breaker = none) (o : Outcome) (t : List TimelineEv)
    (h : (runEntry cfg .execute w).1 = .outcome o t) :
    runEntry cfg .pexecute w
      = (.outcome o t, { (runEntry cfg .execute w).2 with xc := { start := w.now } }) := by
  have h1 := pexecute_same_outcome cfg w hret hb o t (by rw [execute_xc]; exact h)
  rw [h1, execute_xc, h]

/-! ### T4 (Retry level): sync and async entry points are the same model function

The async runner differs from the sync one only by `await` and, at the Policy level, by the extra
`except asyncio.CancelledError` arm (`cfg.isAsync`).  `Retry.call` / `Retry.execute` never read the flag. -/

theorem callLoop_async (cfg : Cfg) (b : Bool) : ∀ (fuel a : Nat),
    callLoop { cfg with isAsync := b } fuel a = callLoop cfg fuel a
  | 0, _ => rfl
  | fuel + 1, a => by
    rw [callLoop_succ, callLoop_succ]
    have h1 : callAttempt { cfg with isAsync := b } a = callAttempt cfg a := rfl
    rw [h1]
    congr 1
    funext r
    cases r with
    | none => exact callLoop_async cfg b fuel (a + 1)
    | some v => rfl

theorem execLoop_async (cfg : Cfg) (b : Bool) (tl : Bool) : ∀ (fuel a : Nat),
    execLoop { cfg with isAsync := b } tl fuel a = execLoop cfg tl fuel a
  | 0, _ => rfl
  | fuel + 1, a => by
    rw [execLoop_succ, execLoop_succ]
    have h1 : execAttempt { cfg with isAsync := b } tl a = execAttempt cfg tl a := rfl
    rw [h1]
    congr 1
    funext r
    cases r with
    | none => exact execLoop_async cfg b tl fuel (a + 1)
    | some v => rfl

theorem runCall_async (cfg : Cfg) (b : Bool) : runCall { cfg with isAsync := b } = runCall cfg := by
  unfold runCall
  rw [callLoop_async]

theorem runExecute_async (cfg : Cfg) (b : Bool) : runExecute { cfg with isAsync := b } = runExecute cfg := by
  unfold runExecute
  rw [execLoop_async]

/-- **T4 (Retry level)**: `cfg.isAsync` is irrelevant for `call` and `execute` — the sync and async
    `Retry` entry points are the same function of configuration and world. -/
theorem async_irrelevant (cfg : Cfg) (b : Bool) (w : World) :
    runEntry { cfg with isAsync := b } .call w = runEntry cfg .call w ∧
    runEntry { cfg with isAsync := b } .execute w = runEntry cfg .execute w := by
  constructor
  · show toRes ((runCall { cfg with isAsync := b }).run _) = toRes ((runCall cfg).run _)
    rw [runCall_async]
  · show toResO cfg.timeline ((runExecute { cfg with isAsync := b }).run _) = toResO cfg.timeline ((runExecute cfg).run _)
    rw [runExecute_async]

/-! ### T4 for the policy entries

`cfg.isAsync` is read only by the `except` ladders of `Policy.call` and `_execute_without_retry`
(`except asyncio.CancelledError: record_cancel(); raise`).  When a `CancelledError` reaches such a ladder
the call ends by raising it — in both flavours; they then differ only in WHEN the cancel is recorded
(at once / by `ensure_settled`), which is observable when the breaker was already settled (e.g. the
`circuit_closed` hook raised the CancelledError after `record_success`).  So: unless the call ends by
raising `CancelledError`, the sync and the async policy are the same function
(`async_irrelevant_policy`).  A run whose log contains no exchange answered `raise cancelled` cannot end
that way (`cancelled_comes_from_log`, from `Lemmas/SimCanc.lean`), which gives the statement about the
log (`async_irrelevant_policy_log`); the result-based hypothesis is the weaker one. -/

theorem settle_async (cfg : Cfg) (b : Bool) (w : World) : settle { cfg with isAsync := b } w = settle cfg w := rfl

/-- **T4 (policy level)**. -/
theorem async_irrelevant_policy (cfg : Cfg) (b : Bool) (w : World) :
    ((runEntry cfg .pcall w).1 ≠ .raised .cancelled →
      runEntry { cfg with isAsync := b } .pcall w = runEntry cfg .pcall w) ∧
    ((runEntry cfg .pexecute w).1 ≠ .raised .cancelled →
      runEntry { cfg with isAsync := b } .pexecute w = runEntry cfg .pexecute w) := by
  constructor
  · intro h
    have hA : runEntry cfg .pcall w
        = toRes (Policy.call cfg { w with trace := [], timeline := [], opCalls := 0 }) := rfl
    have hA' : runEntry { cfg with isAsync := b } .pcall w
        = toRes (Policy.call { cfg with isAsync := b } { w with trace := [], timeline := [], opCalls := 0 }) := rfl
    rw [hA] at h
    rw [hA, hA', policy_run_call, policy_run_call] at *
    rcases callAdmitted_async cfg b _ with heq | ⟨w', hc⟩
    · rw [heq]
      cases Policy.callAdmitted cfg _ <;> rfl
    · rw [hc] at h
      exact absurd rfl h
  · intro h
    have hA : runEntry cfg .pexecute w = toResO (cfg.timeline && cfg.hasRetry)
        (Policy.execute cfg { w with trace := [], timeline := [], opCalls := 0 }) := rfl
    have hA' : runEntry { cfg with isAsync := b } .pexecute w = toResO (cfg.timeline && cfg.hasRetry)
        (Policy.execute { cfg with isAsync := b } { w with trace := [], timeline := [], opCalls := 0 }) := rfl
    rw [hA] at h
    rw [hA, hA', policy_run_execute, policy_run_execute] at *
    rcases executeAdmitted_async cfg b _ with heq | ⟨w', hc⟩
    · rw [heq]
      cases Policy.executeAdmitted cfg _ <;> rfl
    · rw [hc] at h
      exact absurd rfl h

/-- an escaping `CancelledError` comes from the log: a call of any entry point that ends by raising
    `CancelledError` has an exchange answered `raise cancelled` in its log (`Lemmas/SimCanc.lean`: the
    library never raises it itself, `_RetryState.last_exc` never holds it) -/
theorem cancelled_comes_from_log (cfg : Cfg) (e : Entry) (w : World)
    (h : (runEntry cfg e w).1 = .raised .cancelled) : HasC (runEntry cfg e w).2.trace := by
  have key : ∀ {α : Type} (x : M α) (w0 : World), NC JT none x →
      ∀ w', x w0 = .error .cancelled w' → HasC w'.trace := by
    intro α x w0 hx w' hw'
    rcases (hx.run w0 trivial).2.2 w' hw' with h1 | h1
    · exact h1
    · cases h1
  cases e with
  | call =>
    have hA : runEntry cfg .call w = toRes (runCall cfg { w with trace := [], timeline := [], opCalls := 0 }) := rfl
    rw [hA] at h ⊢
    cases hr : runCall cfg { w with trace := [], timeline := [], opCalls := 0 } with
    | ok v w' => rw [hr] at h; cases h
    | error e' w' =>
      rw [hr] at h
      injection h with h1
      subst h1
      exact key _ _ (runCall_nct cfg) w' hr
  | execute =>
    have hA : runEntry cfg .execute w
        = toResO cfg.timeline (runExecute cfg { w with trace := [], timeline := [], opCalls := 0 }) := rfl
    rw [hA] at h ⊢
    cases hr : runExecute cfg { w with trace := [], timeline := [], opCalls := 0 } with
    | ok v w' => rw [hr] at h; cases h
    | error e' w' =>
      rw [hr] at h
      injection h with h1
      subst h1
      exact key _ _ (runExecute_nct cfg) w' hr
  | pcall =>
    have hA : runEntry cfg .pcall w
        = toRes (Policy.call cfg { w with trace := [], timeline := [], opCalls := 0 }) := rfl
    rw [hA] at h ⊢
    cases hr : Policy.call cfg { w with trace := [], timeline := [], opCalls := 0 } with
    | ok v w' => rw [hr] at h; cases h
    | error e' w' =>
      rw [hr] at h
      injection h with h1
      subst h1
      exact key _ _ (call_ncp cfg) w' hr
  | pexecute =>
    have hA : runEntry cfg .pexecute w = toResO (cfg.timeline && cfg.hasRetry)
        (Policy.execute cfg { w with trace := [], timeline := [], opCalls := 0 }) := rfl
    rw [hA] at h ⊢
    cases hr : Policy.execute cfg { w with trace := [], timeline := [], opCalls := 0 } with
    | ok v w' => rw [hr] at h; cases h
    | error e' w' =>
      rw [hr] at h
      injection h with h1
      subst h1
      exact key _ _ (execute_ncp cfg) w' hr

/-- **T4 (policy level), as a statement about the log**: if no exchange of the run is answered
    `raise CancelledError`, the sync and the async policy are the same function. -/
theorem async_irrelevant_policy_log (cfg : Cfg) (b : Bool) (w : World) (e : Entry)
    (he : e = .pcall ∨ e = .pexecute)
    (hlog : ∀ x ∈ (runEntry cfg e w).2.trace, ∀ d, x.2 ≠ .raise .cancelled d) :
    runEntry { cfg with isAsync := b } e w = runEntry cfg e w := by
  have hne : (runEntry cfg e w).1 ≠ .raised .cancelled := by
    intro h
    obtain ⟨r, d, hm⟩ := cancelled_comes_from_log cfg e w h
    exact hlog _ hm d rfl
  rcases he with rfl | rfl
  · exact (async_irrelevant_policy cfg b w).1 hne
  · exact (async_irrelevant_policy cfg b w).2 hne

/-! ### call() does not look at `capture_timeline`

The driver's self-check `Twin.callExecuteAgree` runs the twin with `timeline := false`; for call() that is
the same run, so T1 (any `cfg.timeline` on the execute side) covers what the driver compares. -/

theorem callLoop_timeline (cfg : Cfg) (b : Bool) : ∀ (fuel a : Nat),
    callLoop { cfg with timeline := b } fuel a = callLoop cfg fuel a
  | 0, _ => rfl
  | fuel + 1, a => by
    rw [callLoop_succ, callLoop_succ]
    have h1 : callAttempt { cfg with timeline := b } a = callAttempt cfg a := rfl
    rw [h1]
    congr 1
    funext r
    cases r with
    | none => exact callLoop_timeline cfg b fuel (a + 1)
    | some v => rfl

theorem call_ignores_timeline (cfg : Cfg) (b : Bool) (w : World) :
    runEntry { cfg with timeline := b } .call w = runEntry cfg .call w := by
  show toRes ((runCall { cfg with timeline := b }).run _) = toRes ((runCall cfg).run _)
  unfold runCall
  rw [callLoop_timeline]

/-! ### the hypotheses are satisfiable by non-trivial logs (about the hypotheses only; no run is evaluated) -/

/-- a log with a failing operation, a poll, a metric hook that raises, a strategy call, a sleep, then an
    operation that raises AbortRetryError: every exchange is within the environment -/
example : Env
    [ (.op 2, .raise (.abort 5) 1),
      (.abortIf, .bool false 0),
      (.sleeper .dflt 3, .unit 3),
      (.metric .retry 1 3 {}, .raise (.ordinary 9 .unknown) 0),
      (.strategy .default .ctx { attempt := 1, klass := .transient, retryAfter := none, prev := none,
                                 remaining := 60, cause := .exception }, .delay (.fin 3) 0),
      (.classify "o1", .klass { klass := .transient } 0),
      (.abortIf, .bool false 0),
      (.op 1, .raise (.ordinary 1 .transient) 2) ] := by
  intro x hx
  simp only [List.mem_cons, List.not_mem_nil, or_false] at hx
  rcases hx with rfl | rfl | rfl | rfl | rfl | rfl | rfl | rfl <;> simp [okX, Exn.isAbort]

/-- …and it satisfies the three log hypotheses of `call_execute_agree` as stated -/
example :
    let t : List (Req × Ans) :=
      [ (.op 2, .raise (.abort 5) 1), (.abortIf, .bool true 0),
        (.metric .retry 1 3 {}, .raise (.ordinary 9 .unknown) 0),
        (.op 1, .raise (.ordinary 1 .transient) 2) ]
    (∀ x ∈ t, x.1 = .abortIf → ∀ e d, x.2 ≠ .raise e d) ∧
    (∀ x ∈ t, (∀ n, x.1 ≠ .op n) → ∀ e d, x.2 = .raise e d → e.isAbort = false) ∧
    (∀ x ∈ t, ∀ n e d, x = (.op n, .raise e d) → e ≠ .libRuntimeError ∧ ∀ st, e ≠ .libCircuitOpen st) := by
  intro t
  refine ⟨?_, ?_, ?_⟩
  · intro x hx
    simp only [t, List.mem_cons, List.not_mem_nil, or_false] at hx
    rcases hx with rfl | rfl | rfl | rfl <;> simp
  · intro x hx
    simp only [t, List.mem_cons, List.not_mem_nil, or_false] at hx
    rcases hx with rfl | rfl | rfl | rfl <;> simp [Exn.isAbort]
  · intro x hx
    simp only [t, List.mem_cons, List.not_mem_nil, or_false] at hx
    rcases hx with rfl | rfl | rfl | rfl <;> simp

/-- T3's hook hypothesis: a `circuit_*` hook may raise an `Exception` (it is swallowed), any other hook may
    even raise KeyboardInterrupt -/
example : HookOK
    [ (.metric .circuitOpened 0 0 {}, .raise (.ordinary 1 .unknown) 0),
      (.metric .retry 1 3 {}, .raise .keyboardInterrupt 0),
      (.log .circuitClosed 0 0 {} none, .unit 0) ] := by
  intro x hx
  simp only [List.mem_cons, List.not_mem_nil, or_false] at hx
  rcases hx with rfl | rfl | rfl <;> simp [circuitHook, FX.circuitEv, Exn.isException]

/-- T3's positional hypothesis on a typical log of a call() that re-raises the operation's exception
    `ordinary 1` under a breaker: the newest callback exchange is the breaker classification, answered in
    no time (the loop's own classification of the same exception took 2 ticks) -/
example :
    ([ (Req.breakerFailure .permanent, Ans.recorded (some .circuitOpened) .opened),
       (Req.classify (Exn.ordinary 1 .transient).ref, Ans.klass { klass := .permanent } 0),
       (Req.classify (Exn.ordinary 1 .transient).ref, Ans.klass { klass := .permanent } 2),
       (Req.op 1, Ans.raise (.ordinary 1 .transient) 1),
       (Req.breakerAllow, Ans.admit true .closed none) ] : List (Req × Ans)).filter
        (fun x => !Twin.isInternal x.1)
      = (Req.classify (Exn.ordinary 1 .transient).ref, Ans.klass { klass := .permanent } 0) ::
        [ (Req.classify (Exn.ordinary 1 .transient).ref, Ans.klass { klass := .permanent } 2),
          (Req.op 1, Ans.raise (.ordinary 1 .transient) 1) ] := by
  rfl

/-- a configuration without attempt hooks -/
example : ({} : Cfg).attemptStart = none ∧ ({} : Cfg).attemptEnd = none := ⟨rfl, rfl⟩

end Redress.Props.C12
