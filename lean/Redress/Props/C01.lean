/-
  C01 — Attempt caps (global, per-class, UNKNOWN, non-retryable) are never exceeded.

  Theorems are about `Mon.C01.ok`, the monitor the driver also evaluates on implementation traces:
  for EVERY configuration, EVERY answer stream (outcome sequences, durations, callback faults …)
  and every entry point, the monitor accepts the model's run.
-/
import Redress.Lemmas.Footprint
import Redress.Monitors

open Std.Do

namespace Redress.Props.C01
open Redress Redress.Retry Redress.Mon Redress.Mon.C01

/-- the monitor state as a function of the world's (newest-first) log -/
def cur (tr : List (Req × Ans)) : St := tr.foldr (fun x s => step s x) {}

@[simp] theorem cur_cons (x : Req × Ans) (t : List (Req × Ans)) : cur (x :: t) = step (cur t) x := rfl

theorem run_reverse (t : List (Req × Ans)) : run t.reverse = cur t := by
  simp [run, cur, List.foldl_reverse]

/-- requests that never move the C01 monitor -/
def inertK : Kind → Bool
  | .op | .classify | .resultClassify => false
  | _ => true

theorem step_inert (s : St) (x : Req × Ans) (h : inertK x.1.kind = true) : step s x = s := by
  obtain ⟨r, a⟩ := x
  cases r <;> simp_all [inertK, Req.kind, step, classOf?]

theorem cur_append_inert (δ t : List (Req × Ans)) (h : ∀ x ∈ δ, inertK x.1.kind = true) :
    cur (δ ++ t) = cur t := by
  induction δ with
  | nil => rfl
  | cons x δ ih =>
    have hx := h x (by simp)
    have := ih (fun y hy => h y (by simp [hy]))
    simp [step_inert _ _ hx, this]

/-- what the C01 argument looks at -/
structure View where
  mon : St
  counts : EClass → Nat
  unknown : Nat

def view (w : World) : View := ⟨cur w.trace, w.rs.perClassCounts, w.rs.unknownAttempts⟩

theorem view_foot (w w' : World) (h : Foot inertK w w') : view w' = view w := by
  obtain ⟨δ, e, k⟩ := h.trace
  have h1 := congrArg RState.perClassCounts h.rs
  have h2 := congrArg RState.unknownAttempts h.rs
  simp only [view, e, cur_append_inert δ _ k]
  simp_all

/-- "the view is `v`" on both exits -/
abbrev same (v : View) : PostCond α (.except Exn (.arg World .pure)) :=
  post⟨fun _ w => ⌜view w = v⌝, fun _ w => ⌜view w = v⌝⟩

/-! ### leaf procedures never move the view -/
section leaves
variable (v : View) (cfg : Cfg) (tl : Bool)

theorem emit_v (ev : Event) (a s : Nat) (k : Option EClass) (e : Option Exn) (st : Option StopReason)
    (c : Option Cause) (cl : Option Classification) :
    ⦃fun w => ⌜view w = v⌝⦄ emit cfg tl ev a s k e st c cl ⦃same v⦄ :=
  view_of_foot view (fun w0 => emit_foot inertK w0 rfl rfl cfg tl ev a s k e st c cl) view_foot v

theorem setStop_v (s : StopReason) : ⦃fun w => ⌜view w = v⌝⦄ setStop s ⦃same v⦄ :=
  view_of_foot view (fun w0 => setStop_foot inertK w0 s) view_foot v

theorem checkAbort_v (a : Nat) : ⦃fun w => ⌜view w = v⌝⦄ checkAbort cfg tl a ⦃same v⦄ :=
  view_of_foot view (fun w0 => checkAbort_foot inertK w0 rfl rfl rfl cfg tl a) view_foot v

theorem stopWith_v (s : StopReason) (ev : Event) (a : Nat) (k : EClass) (e : Option Exn) (c : Cause) :
    ⦃fun w => ⌜view w = v⌝⦄ stopWith cfg tl s ev a k e c
    ⦃post⟨fun d w => ⌜d = .raise ∧ view w = v⌝, fun _ w => ⌜view w = v⌝⟩⦄ :=
  view_of_foot' view (fun w0 => stopWith_foot inertK w0 rfl rfl cfg tl s ev a k e c) view_foot v

theorem recordStrategySuccess_v : ⦃fun w => ⌜view w = v⌝⦄ recordStrategySuccess cfg ⦃same v⦄ :=
  view_of_foot view (fun w0 => recordStrategySuccess_foot inertK w0 rfl cfg) view_foot v

theorem stratRecordFailure_v (key : SKey) (k : EClass) :
    ⦃fun w => ⌜view w = v⌝⦄ stratRecordFailure cfg key k ⦃same v⦄ :=
  view_of_foot view (fun w0 => stratRecordFailure_foot inertK w0 rfl cfg key k) view_foot v

theorem callStrategy_v (key : SKey) (kind : SKind) (ctx : BackoffCtx) :
    ⦃fun w => ⌜view w = v⌝⦄ callStrategy key kind ctx ⦃same v⦄ :=
  view_of_foot view (fun w0 => callStrategy_foot inertK w0 rfl key kind ctx) view_foot v

theorem callAttemptStart_v (a : Nat) : ⦃fun w => ⌜view w = v⌝⦄ callAttemptStart cfg a ⦃same v⦄ :=
  view_of_foot view (fun w0 => callAttemptStart_foot inertK w0 rfl cfg a) view_foot v

theorem callAttemptEndFromOutcome_v (a : Nat) (o : AOutcome) :
    ⦃fun w => ⌜view w = v⌝⦄ callAttemptEndFromOutcome cfg a o ⦃same v⦄ :=
  view_of_foot view (fun w0 => callAttemptEndFromOutcome_foot inertK w0 rfl cfg a o) view_foot v

theorem callBeforeSleep_v (ctx : BackoffCtx) (s : Nat) :
    ⦃fun w => ⌜view w = v⌝⦄ callBeforeSleep cfg ctx s ⦃same v⦄ :=
  view_of_foot view (fun w0 => callBeforeSleep_foot inertK w0 rfl cfg ctx s) view_foot v

theorem callSleeper_v (s : Nat) : ⦃fun w => ⌜view w = v⌝⦄ callSleeper cfg s ⦃same v⦄ :=
  view_of_foot view (fun w0 => callSleeper_foot inertK w0 rfl cfg s) view_foot v

theorem callSleepHandler_v (lvl : Lvl) (ctx : BackoffCtx) (s : Nat) :
    ⦃fun w => ⌜view w = v⌝⦄ callSleepHandler lvl ctx s ⦃same v⦄ :=
  view_of_foot view (fun w0 => callSleepHandler_foot inertK w0 rfl lvl ctx s) view_foot v

theorem buildOutcome_v (ok : Bool) (value : Option Nat) (n : Nat) (ns : Option Nat) :
    ⦃fun w => ⌜view w = v⌝⦄ buildOutcome ok value n ns ⦃same v⦄ :=
  view_of_foot view (fun w0 => buildOutcome_foot inertK w0 ok value n ns) view_foot v

theorem emitAbortedOnce_v (a : Nat) : ⦃fun w => ⌜view w = v⌝⦄ emitAbortedOnce cfg tl a ⦃same v⦄ :=
  view_of_foot view (fun w0 => emitAbortedOnce_foot inertK w0 rfl rfl cfg tl a) view_foot v

theorem abortOutcome_v (a : Nat) : ⦃fun w => ⌜view w = v⌝⦄ abortOutcome cfg tl a ⦃same v⦄ :=
  view_of_foot view (fun w0 => abortOutcome_foot inertK w0 rfl rfl cfg tl a) view_foot v

theorem handleSleepDecision_v (act : SleepDecision) (a s : Nat) :
    ⦃fun w => ⌜view w = v⌝⦄ handleSleepDecision cfg tl act a s
    ⦃post⟨fun r w => ⌜(r = act ∧ act ≠ .other) ∧ view w = v⌝, fun _ w => ⌜view w = v⌝⟩⦄ :=
  view_of_foot' view (fun w0 => handleSleepDecision_foot inertK w0 rfl rfl cfg tl act a s) view_foot v

theorem handleSuccessAttemptEnd_v (a x : Nat) :
    ⦃fun w => ⌜view w = v⌝⦄ handleSuccessAttemptEnd cfg tl a x ⦃same v⦄ :=
  view_of_foot view (fun w0 => handleSuccessAttemptEnd_foot inertK w0 rfl rfl rfl rfl cfg tl a x) view_foot v

theorem handleAbortAttemptEnd_v (a : Nat) (e : Exn) :
    ⦃fun w => ⌜view w = v⌝⦄ handleAbortAttemptEnd cfg a e ⦃same v⦄ :=
  view_of_foot view (fun w0 => handleAbortAttemptEnd_foot inertK w0 rfl cfg a e) view_foot v

theorem raiseExhaustedCall_v : ⦃fun w => ⌜view w = v⌝⦄ raiseExhaustedCall cfg ⦃same v⦄ :=
  view_of_foot view (fun w0 => raiseExhaustedCall_foot inertK w0 rfl rfl cfg) view_foot v

theorem buildExhaustedOutcome_v : ⦃fun w => ⌜view w = v⌝⦄ buildExhaustedOutcome cfg tl ⦃same v⦄ :=
  view_of_foot view (fun w0 => buildExhaustedOutcome_foot inertK w0 rfl rfl cfg tl) view_foot v

theorem deliverCall_v (act : Action) (orig : Option Exn) (fb : ExhaustedFields) :
    ⦃fun w => ⌜view w = v⌝⦄ deliverCall act orig fb
    ⦃post⟨fun r w => ⌜(r = none ∧ act = .continue_) ∧ view w = v⌝, fun _ w => ⌜view w = v⌝⟩⦄ :=
  view_of_foot' view (fun w0 => deliverCall_foot inertK w0 act orig fb) view_foot v

theorem deliverExecute_v (act : Action) (o : AOutcome) :
    ⦃fun w => ⌜view w = v⌝⦄ deliverExecute cfg tl act o
    ⦃post⟨fun r w => ⌜(r = none → act = .continue_) ∧ view w = v⌝, fun _ w => ⌜view w = v⌝⟩⦄ :=
  view_of_foot' view (fun w0 => deliverExecute_foot inertK w0 rfl rfl cfg tl act o) view_foot v

end leaves

attribute [local spec] emit_v setStop_v checkAbort_v stopWith_v recordStrategySuccess_v
  stratRecordFailure_v callStrategy_v callAttemptStart_v callAttemptEndFromOutcome_v callBeforeSleep_v
  callSleeper_v callSleepHandler_v buildOutcome_v emitAbortedOnce_v abortOutcome_v handleSleepDecision_v
  handleSuccessAttemptEnd_v handleAbortAttemptEnd_v raiseExhaustedCall_v buildExhaustedOutcome_v
  deliverCall_v deliverExecute_v

macro "close_v" : tactic => `(tactic| all_goals (
  (try subst_vars) <;> (try intros) <;>
  first
    | assumption
    | rfl
    | (simp_all +zetaDelta [view]; done)
    | skip))

/-! ### procedures that do not move the view but are not footprint-leaves -/

section inertProcs
variable (v : View) (cfg : Cfg) (tl : Bool)

theorem budgetConsume_v : ⦃fun w => ⌜view w = v⌝⦄ budgetConsume cfg ⦃same v⦄ := by
  mvcgen [budgetConsume]
  all_goals (subst_vars; simp_all [view, step, classOf?])

attribute [local spec] budgetConsume_v

theorem grantRetry_v (c : Classification) (a : Nat) (cause : Cause) (e : Option Exn) (key : SKey)
    (kind : SKind) (rem : Nat) :
    ⦃fun w => ⌜view w = v⌝⦄ grantRetry cfg tl c a cause e key kind rem ⦃same v⦄ := by
  mvcgen [grantRetry, getRS, modifyRS]
  close_v

attribute [local spec] grantRetry_v

theorem handleFailure2_v (c : Classification) (a : Nat) (cause : Cause) (e : Option Exn) :
    ⦃fun w => ⌜view w = v⌝⦄ handleFailure2 cfg tl c a cause e ⦃same v⦄ := by
  mvcgen [handleFailure2, elapsed, modifyRS]
  close_v

theorem finalizeAttempt_v (a : Nat) (d : Decision) (act : Option SleepDecision)
    (cls : Option Classification) (e : Option Exn) (r : Option Nat) (c : Option Cause) :
    ⦃fun w => ⌜view w = v⌝⦄ finalizeAttempt cfg tl a d act cls e r c
    ⦃post⟨fun o w => ⌜(d = .raise → o.decision = .raise) ∧ view w = v⌝, fun _ w => ⌜view w = v⌝⟩⦄ := by
  mvcgen [finalizeAttempt, getRS, elapsed]
  close_v

theorem sleepAction_v (a s : Nat) (ctx : BackoffCtx) :
    ⦃fun w => ⌜view w = v⌝⦄ sleepAction cfg tl a s ctx ⦃same v⦄ := by
  mvcgen [sleepAction]
  close_v

attribute [local spec] finalizeAttempt_v sleepAction_v

theorem failureOutcome_v (a : Nat) (d : Decision) (cls : Option Classification) (e : Option Exn)
    (r : Option Nat) (c : Option Cause) :
    ⦃fun w => ⌜view w = v⌝⦄ failureOutcome cfg tl a d cls e r c
    ⦃post⟨fun o w => ⌜(d = .raise → o.decision = .raise) ∧ view w = v⌝, fun _ w => ⌜view w = v⌝⟩⦄ := by
  mvcgen [failureOutcome]
  close_v

end inertProcs

attribute [local spec] budgetConsume_v grantRetry_v handleFailure2_v finalizeAttempt_v sleepAction_v
  failureOutcome_v

/-! ### the invariant -/

/-- what the monitor finally checks (as a `Prop`) -/
structure Good (cfg : Cfg) (m : St) : Prop where
  ops : m.ops ≤ cfg.maxAttempts
  bad : m.bad = false
  per : ∀ k l, cfg.perClass k = some l → m.retries k ≤ l
  unk : ∀ l, cfg.maxUnknown = some l → m.retries .unknown ≤ l

/-- the monitor state after an `op` request (whatever the answer) -/
def opStep (m : St) : St := step m (.op 0, .unit 0)

theorem step_op (m : St) (n : Nat) (a : Ans) : step m (.op n, a) = opStep m := rfl

/-- the monitor state after a classifier announced class `k` -/
def clsStep (m : St) (k : EClass) : St :=
  { m with pending := some k, dead := m.dead || k.nonRetryable }

/-- Loop invariant while the loop may still go on, after at most `n` operation invocations:
    the monitor's retry counts are dominated by the runner's own counters, which are within the caps. -/
structure Rel (cfg : Cfg) (n : Nat) (v : View) : Prop where
  ops : v.mon.ops ≤ n
  bad : v.mon.bad = false
  dead : v.mon.dead = false
  per : ∀ k, v.mon.retries k + (if v.mon.pending = some k then 1 else 0) ≤ v.counts k
  cap : ∀ k l, cfg.perClass k = some l → v.counts k ≤ l
  unk : v.mon.retries .unknown + (if v.mon.pending = some .unknown then 1 else 0) ≤ v.unknown
  ucap : ∀ l, cfg.maxUnknown = some l → v.unknown ≤ l

theorem Rel.good {cfg : Cfg} {n : Nat} {v : View} (h : Rel cfg n v) (hn : n ≤ cfg.maxAttempts) :
    Good cfg v.mon := by
  refine ⟨Nat.le_trans h.ops hn, h.bad, fun k l hl => ?_, fun l hl => ?_⟩
  · have h1 := h.per k
    have h2 := h.cap k l hl
    omega
  · have h1 := h.unk
    have h2 := h.ucap l hl
    omega

theorem Rel.mono {cfg : Cfg} {n n' : Nat} {v : View} (h : Rel cfg n v) (hn : n ≤ n') : Rel cfg n' v :=
  ⟨Nat.le_trans h.ops hn, h.bad, h.dead, h.per, h.cap, h.unk, h.ucap⟩

/-- `Good` only looks at `ops`, `bad`, `retries` -/
theorem Good.congr {cfg : Cfg} {m m' : St} (h : Good cfg m) (ho : m'.ops = m.ops) (hb : m'.bad = m.bad)
    (hr : m'.retries = m.retries) : Good cfg m' :=
  ⟨ho ▸ h.ops, hb ▸ h.bad, hr ▸ h.per, hr ▸ h.unk⟩

/-- an `op` request keeps the invariant: the pending class (if any) becomes one more counted retry -/
theorem Rel.opStep {cfg : Cfg} {n : Nat} {v : View} (h : Rel cfg n v) :
    Rel cfg (n + 1) { v with mon := opStep v.mon } := by
  unfold C01.opStep step
  simp only
  cases hp : v.mon.pending with
  | none =>
    refine ⟨by simpa using h.ops, by simp [h.bad, h.dead], by simp [h.dead], fun k => ?_, h.cap, ?_, h.ucap⟩
    · have := h.per k; simp_all
    · have := h.unk; simp_all
  | some k0 =>
    refine ⟨by simpa using h.ops, by simp [h.bad, h.dead], by simp [h.dead], fun k => ?_, h.cap, ?_, h.ucap⟩
    · have := h.per k
      by_cases hk : k = k0
      · subst hk; simp_all
      · have hk' : ¬ k0 = k := fun e => hk e.symm
        simp_all
    · have := h.unk
      by_cases hk : EClass.unknown = k0
      · subst hk; simp_all
      · have hk' : ¬ k0 = EClass.unknown := fun e => hk e.symm
        simp_all

abbrev bump := Retry.bumpCount

/-- a classified failure that passes the cap checks keeps the invariant (whatever was pending) -/
theorem Rel.fail {cfg : Cfg} {n : Nat} {u : View} {k : EClass} (h : Rel cfg n u)
    (hcap : ∀ l, cfg.perClass k = some l → u.counts k + 1 ≤ l)
    (hnr : k.nonRetryable = false)
    (hu : k = .unknown → ∀ l, cfg.maxUnknown = some l → u.unknown + 1 ≤ l) :
    Rel cfg n ⟨clsStep u.mon k, bump u.counts k, if k = .unknown then u.unknown + 1 else u.unknown⟩ := by
  refine ⟨h.ops, h.bad, by simp [clsStep, h.dead, hnr], fun k' => ?_, fun k' l hl => ?_, ?_, fun l hl => ?_⟩
  · have := h.per k'
    by_cases hk : k' = k
    · subst hk; simp [clsStep, bump, bumpCount]; split at this <;> omega
    · have hk' : ¬ k = k' := fun e => hk e.symm
      simp [clsStep, bump, bumpCount, hk, hk']; split at this <;> omega
  · by_cases hk : k' = k
    · subst hk; simpa [bump, bumpCount] using hcap l hl
    · simpa [bump, bumpCount, hk] using h.cap k' l hl
  · have := h.unk
    by_cases hk : k = .unknown
    · subst hk; simp [clsStep]; split at this <;> omega
    · have hk' : ¬ EClass.unknown = k := fun e => hk e.symm
      simp [clsStep, hk, hk']; split at this <;> omega
  · by_cases hk : k = .unknown
    · simpa [hk] using hu hk l hl
    · simpa [hk] using h.ucap l hl

theorem Good.cls {cfg : Cfg} {m : St} (h : Good cfg m) (k : EClass) : Good cfg (clsStep m k) :=
  h.congr rfl rfl rfl

/-! ### structural procedures -/

theorem invokeOp_spec (v : View) (a : Nat) :
    ⦃fun w => ⌜view w = v⌝⦄ invokeOp a
    ⦃post⟨fun _ w => ⌜view w = { v with mon := opStep v.mon }⌝,
          fun _ w => ⌜view w = { v with mon := opStep v.mon }⌝⟩⦄ := by
  mvcgen [invokeOp, ask]
  all_goals (subst_vars; simp_all +zetaDelta [view, step_op])

theorem callClassifier_spec (v : View) (e : Exn) :
    ⦃fun w => ⌜view w = v⌝⦄ callClassifier e
    ⦃post⟨fun c w => ⌜view w = { v with mon := clsStep v.mon c.klass }⌝, fun _ w => ⌜view w = v⌝⟩⦄ := by
  mvcgen [callClassifier, ask]
  all_goals (subst_vars; simp_all +zetaDelta [view, step, classOf?, clsStep])

theorem shouldClassifyResult_spec (v : View) (cfg : Cfg) (x : Nat) :
    ⦃fun w => ⌜view w = v⌝⦄ shouldClassifyResult cfg x
    ⦃post⟨fun r w => ⌜match r with
                      | none => view w = v
                      | some c => view w = { v with mon := clsStep v.mon c.klass }⌝,
          fun _ w => ⌜view w = v⌝⟩⦄ := by
  mvcgen [shouldClassifyResult, ask]
  all_goals (subst_vars; simp_all +zetaDelta [view, step, classOf?, clsStep])

attribute [local spec] invokeOp_spec callClassifier_spec shouldClassifyResult_spec

/-- what a failed attempt leaves behind: the monitor's verdict holds; and unless the decision is
    "raise" the loop invariant holds again -/
abbrev failPost (cfg : Cfg) (n : Nat) : PostCond Decision (.except Exn (.arg World .pure)) :=
  post⟨fun d w => ⌜Good cfg (view w).mon ∧ (d ≠ .raise → Rel cfg n (view w))⌝,
       fun _ w => ⌜Good cfg (view w).mon⌝⟩

theorem recordFailure_v (v : View) (c : Classification) (cause : Cause) (e : Option Exn) (r : Option Nat) :
    ⦃fun w => ⌜view w = v⌝⦄ Retry.recordFailure c cause e r ⦃same v⦄ := by
  mvcgen [Retry.recordFailure, modifyRS]
  all_goals (subst_vars; simp_all +zetaDelta [view])

attribute [local spec] recordFailure_v

theorem overPerClass_false {cfg : Cfg} {f : EClass → Nat} {k : EClass}
    (h : overPerClass cfg (bump f k) k = false) : ∀ l, cfg.perClass k = some l → f k + 1 ≤ l := by
  intro l hl
  simp [overPerClass, hl, bump, bumpCount] at h
  omega

theorem overUnknown_false {cfg : Cfg} {n : Nat} (h : ¬ overUnknown cfg n = true) :
    ∀ l, cfg.maxUnknown = some l → n ≤ l := by
  intro l hl
  simp [overUnknown, hl] at h
  omega

theorem handleUnknown_spec (cfg : Cfg) (tl : Bool) (c : Classification) (a : Nat) (cause : Cause)
    (e : Option Exn) (n : Nat) (u : View) (hr : Rel cfg n u)
    (hn : n ≤ cfg.maxAttempts) (hk : c.klass = .unknown)
    (hcap : overPerClass cfg (bump u.counts c.klass) c.klass = false) :
    ⦃fun w => ⌜view w = ⟨clsStep u.mon c.klass, bump u.counts c.klass, u.unknown⟩⌝⦄
    handleUnknown cfg tl c a cause e ⦃failPost cfg n⦄ := by
  have hg : Good cfg (clsStep u.mon c.klass) := (hr.good hn).cls _
  mvcgen [handleUnknown, getRS, modifyRS]
  all_goals (try intros)
  all_goals (try (simp_all +zetaDelta [view]; done))
  rename_i hov _ s hs
  have hv : view s = ⟨clsStep u.mon c.klass, bump u.counts c.klass,
      if c.klass = .unknown then u.unknown + 1 else u.unknown⟩ := by
    simp_all +zetaDelta [view]
  rw [hv]
  have hrel := hr.fail (overPerClass_false hcap) (by simp [hk, EClass.nonRetryable]) (fun _ => by
    have := overUnknown_false hov
    simp_all +zetaDelta [view])
  exact ⟨hrel.good hn, fun _ => hrel⟩

theorem handleFailure1_spec (cfg : Cfg) (tl : Bool) (c : Classification) (a : Nat) (cause : Cause)
    (e : Option Exn) (n : Nat) (u : View) (hr : Rel cfg n u) (hn : n ≤ cfg.maxAttempts) :
    ⦃fun w => ⌜view w = ⟨clsStep u.mon c.klass, bump u.counts c.klass, u.unknown⟩⌝⦄
    handleFailure1 cfg tl c a cause e ⦃failPost cfg n⦄ := by
  have hg : Good cfg (clsStep u.mon c.klass) := (hr.good hn).cls _
  mvcgen [handleFailure1, getRS, handleUnknown_spec]
  all_goals (try intros)
  all_goals (try (simp_all +zetaDelta [view]; done))
  rename_i s1 hv1 hov hnr hk _ s hs
  have hc : s1.rs.perClassCounts = bump u.counts c.klass := by simp_all [view]
  have hv : view s = ⟨clsStep u.mon c.klass, bump u.counts c.klass,
      if c.klass = .unknown then u.unknown + 1 else u.unknown⟩ := by
    simp_all +zetaDelta [view]
  rw [hv]
  have hrel := hr.fail (overPerClass_false (by rw [← hc]; simpa using hov)) (by simpa using hnr)
    (fun h => absurd h hk)
  exact ⟨hrel.good hn, fun _ => hrel⟩

theorem handleFailure_spec (cfg : Cfg) (tl : Bool) (c : Classification) (a : Nat) (cause : Cause)
    (e : Option Exn) (r : Option Nat) (n : Nat) (u : View) (hr : Rel cfg n u)
    (hn : n ≤ cfg.maxAttempts) :
    ⦃fun w => ⌜view w = { u with mon := clsStep u.mon c.klass }⌝⦄
    handleFailure cfg tl c a cause e r ⦃failPost cfg n⦄ := by
  have hg : Good cfg (clsStep u.mon c.klass) := (hr.good hn).cls _
  mvcgen [handleFailure, modifyRS, handleFailure1_spec]
  all_goals (try intros)
  all_goals (try (simp_all +zetaDelta [view]; done))

theorem determineAction_raise (o : AOutcome) (r : RState) (a : Nat) (fr : Bool)
    (h : o.decision = .raise) : determineAction o r a fr ≠ .continue_ := by
  unfold determineAction
  rw [h]
  cases fr <;> simp

theorem determineAction_continue_iff (o : AOutcome) (r : RState) (a : Nat) (fr : Bool) :
    determineAction o r a fr = .continue_ ↔ o.decision = .retry := by
  unfold determineAction
  cases o.decision <;> cases fr <;> simp

theorem determineAction_raise' (o : AOutcome) (r : RState) (a : Nat) (fr : Bool)
    (h : o.decision = .raise) : (determineAction o r a fr = .continue_) = False := by
  simp [determineAction_raise o r a fr h]

@[simp] theorem isRaise_iff (d : Decision) : d.isRaise = true ↔ d = .raise := by
  cases d <;> simp [Decision.isRaise]

/-- normalise all views and let `simp_all` do the propositional part -/
macro "c01_finish" : tactic => `(tactic| all_goals (
  (try intros) <;> (try subst_vars) <;>
  first
    | (simp_all +zetaDelta [view, determineAction_raise', determineAction_continue_iff]; done)
    | skip))

attribute [local spec] handleFailure_spec

theorem handleException_spec (cfg : Cfg) (tl : Bool) (e : Exn) (a n : Nat) (u : View)
    (hr : Rel cfg n u) (hn : n ≤ cfg.maxAttempts) :
    ⦃fun w => ⌜view w = u⌝⦄ handleException cfg tl e a ⦃failPost cfg n⦄ := by
  have hg := hr.good hn
  mvcgen [handleException]
  c01_finish

attribute [local spec] handleException_spec

/-- one attempt: the verdict holds; and if the loop goes on, so does the invariant -/
abbrev attemptPost (cfg : Cfg) (n : Nat) : PostCond (Option α) (.except Exn (.arg World .pure)) :=
  post⟨fun r w => ⌜Good cfg (view w).mon ∧ (r = none → Rel cfg n (view w))⌝,
       fun _ w => ⌜Good cfg (view w).mon⌝⟩

/-! #### call mode -/

theorem callExceptionPath_spec (cfg : Cfg) (a : Nat) (e : Exn) (n : Nat) (u : View)
    (hr : Rel cfg n u) (hn : n ≤ cfg.maxAttempts) :
    ⦃fun w => ⌜view w = u⌝⦄ callExceptionPath cfg a e ⦃attemptPost cfg n⦄ := by
  have hg := hr.good hn
  mvcgen [callExceptionPath, getRS, modifyAS]
  c01_finish

attribute [local spec] callExceptionPath_spec

theorem callOpHandler_spec (cfg : Cfg) (a : Nat) (e : Exn) (n : Nat) (u : View)
    (hr : Rel cfg n u) (hn : n ≤ cfg.maxAttempts) :
    ⦃fun w => ⌜view w = u⌝⦄ callOpHandler cfg a e ⦃attemptPost cfg n⦄ := by
  have hg := hr.good hn
  mvcgen [callOpHandler]
  c01_finish

theorem callResultFailure_spec (cfg : Cfg) (a x : Nat) (c : Classification) (n : Nat) (u : View)
    (hr : Rel cfg n u) (hn : n ≤ cfg.maxAttempts) :
    ⦃fun w => ⌜view w = { u with mon := clsStep u.mon c.klass }⌝⦄ callResultFailure cfg a x c
    ⦃attemptPost cfg n⦄ := by
  have hg : Good cfg (clsStep u.mon c.klass) := (hr.good hn).cls _
  mvcgen [callResultFailure, getRS, modifyAS]
  c01_finish

attribute [local spec] callOpHandler_spec callResultFailure_spec

theorem callResultPath_spec (cfg : Cfg) (a x : Nat) (n : Nat) (u : View)
    (hr : Rel cfg n u) (hn : n ≤ cfg.maxAttempts) :
    ⦃fun w => ⌜view w = u⌝⦄ callResultPath cfg a x ⦃attemptPost cfg n⦄ := by
  have hg := hr.good hn
  mvcgen [callResultPath]
  c01_finish

attribute [local spec] callResultPath_spec

/-- One iteration of the loop.  Before it at most `n` invocations have been made and the invariant
    holds; afterwards at most `n + 1`, and either the loop goes on with the invariant or the run is over. -/
theorem callAttempt_spec (cfg : Cfg) (a : Nat) (n : Nat) (u : View)
    (hr : Rel cfg n u) (hn : n + 1 ≤ cfg.maxAttempts) :
    ⦃fun w => ⌜view w = u⌝⦄ callAttempt cfg a ⦃attemptPost cfg (n + 1)⦄ := by
  have hg := hr.good (Nat.le_of_succ_le hn)
  mvcgen [callAttempt, modifyAS]
  c01_finish
  all_goals (simp_all +zetaDelta [view]; exact hr.opStep)

/-- The loop: with `fuel` iterations left after at most `n` invocations, `n + fuel = max_attempts`. -/
theorem callLoop_spec (cfg : Cfg) : ∀ (fuel a n : Nat) (u : View), Rel cfg n u → n + fuel = cfg.maxAttempts →
    ⦃fun w => ⌜view w = u⌝⦄ callLoop cfg fuel a
    ⦃post⟨fun _ w => ⌜Good cfg (view w).mon⌝, fun _ w => ⌜Good cfg (view w).mon⌝⟩⦄ := by
  intro fuel
  induction fuel with
  | zero =>
    intro a n u hr hn
    have hg := hr.good (by omega)
    mvcgen [callLoop]
    c01_finish
  | succ f ih =>
    intro a n u hr hn
    have hg := hr.good (by omega)
    mvcgen [callLoop, callAttempt_spec]
    c01_finish
    · omega
    · rename_i s _ hrel
      exact ih (a + 1) (n + 1) (view s) hrel (by omega) s rfl

theorem initState_spec (m : St) :
    ⦃fun w => ⌜cur w.trace = m⌝⦄ initState
    ⦃post⟨fun _ w => ⌜view w = ⟨m, fun _ => 0, 0⟩⌝, fun _ w => ⌜view w = ⟨m, fun _ => 0, 0⟩⌝⟩⦄ := by
  mvcgen [initState]
  all_goals (subst_vars; simp_all +zetaDelta [view])

theorem Rel.init (cfg : Cfg) : Rel cfg 0 ⟨{}, fun _ => 0, 0⟩ :=
  ⟨Nat.le_refl _, rfl, rfl, fun _ => by simp, fun _ _ _ => Nat.zero_le _, by simp, fun _ _ => Nat.zero_le _⟩

attribute [local spec] initState_spec

/-- `Retry.call` (and its async twin): the monitor's verdict holds at the end, however it ends -/
theorem runCall_spec (cfg : Cfg) :
    ⦃fun w => ⌜cur w.trace = {}⌝⦄ runCall cfg
    ⦃post⟨fun _ w => ⌜Good cfg (view w).mon⌝, fun _ w => ⌜Good cfg (view w).mon⌝⟩⦄ := by
  have hloop := callLoop_spec cfg cfg.maxAttempts 1 0 ⟨{}, fun _ => 0, 0⟩ (Rel.init cfg) (by omega)
  mvcgen [runCall, hloop]
  c01_finish
  rename_i h0 _ _ h
  rw [h, h0]
  exact (Rel.init cfg).good (Nat.zero_le _)

/-! #### execute mode -/

theorem execResultFailure_spec (cfg : Cfg) (tl : Bool) (a x : Nat) (c : Classification) (n : Nat)
    (u : View) (hr : Rel cfg n u) (hn : n ≤ cfg.maxAttempts) :
    ⦃fun w => ⌜view w = { u with mon := clsStep u.mon c.klass }⌝⦄ execResultFailure cfg tl a x c
    ⦃attemptPost cfg n⦄ := by
  have hg : Good cfg (clsStep u.mon c.klass) := (hr.good hn).cls _
  mvcgen [execResultFailure, getRS, modifyAS]
  c01_finish

attribute [local spec] execResultFailure_spec

theorem execResultPath_spec (cfg : Cfg) (tl : Bool) (a x : Nat) (n : Nat) (u : View)
    (hr : Rel cfg n u) (hn : n ≤ cfg.maxAttempts) :
    ⦃fun w => ⌜view w = u⌝⦄ execResultPath cfg tl a x ⦃attemptPost cfg n⦄ := by
  have hg := hr.good hn
  mvcgen [execResultPath]
  c01_finish

theorem execPre_spec (cfg : Cfg) (tl : Bool) (a : Nat) (n : Nat) (u : View)
    (hr : Rel cfg n u) (hn : n + 1 ≤ cfg.maxAttempts) :
    ⦃fun w => ⌜view w = u⌝⦄ execPre cfg tl a
    ⦃post⟨fun _ w => ⌜Rel cfg (n + 1) (view w)⌝, fun _ w => ⌜Rel cfg (n + 1) (view w)⌝⟩⦄ := by
  have hr1 := hr.mono (Nat.le_succ n)
  have ho := hr.opStep
  mvcgen [execPre, modifyAS]
  c01_finish

theorem execAbortExit_v (v : View) (cfg : Cfg) (tl : Bool) (a : Nat) (e : Exn) :
    ⦃fun w => ⌜view w = v⌝⦄ execAbortExit cfg tl a e
    ⦃post⟨fun r w => ⌜r ≠ none ∧ view w = v⌝, fun _ w => ⌜view w = v⌝⟩⦄ := by
  mvcgen [execAbortExit]
  c01_finish

theorem checkAbortCaught_v (v : View) (cfg : Cfg) (tl : Bool) (a : Nat) :
    ⦃fun w => ⌜view w = v⌝⦄ checkAbortCaught cfg tl a ⦃same v⦄ := by
  mvcgen [checkAbortCaught, abortToTrue]
  c01_finish

attribute [local spec] execAbortExit_v checkAbortCaught_v

theorem execExceptionPath3_spec (cfg : Cfg) (tl : Bool) (a : Nat) (e : Exn) (d : Decision) (n : Nat)
    (v : View) (hg : Good cfg v.mon) (hr : d ≠ .raise → Rel cfg n v) :
    ⦃fun w => ⌜view w = v⌝⦄ execExceptionPath3 cfg tl a e d ⦃attemptPost cfg n⦄ := by
  mvcgen [execExceptionPath3, getRS, modifyAS]
  c01_finish
  rename_i hdec _ _ hv1 _ _ _ hcont hview
  refine ⟨by simp_all +zetaDelta [view], fun hnone => ?_⟩
  have hc := (determineAction_continue_iff _ _ _ _).mp (hcont hnone)
  have hd : d ≠ .raise := fun h => by
    have := hdec.1 h
    rw [hc] at this
    cases this
  have := hr hd
  simp_all +zetaDelta [view]

attribute [local spec] execExceptionPath3_spec

theorem execExceptionPath2_spec (cfg : Cfg) (tl : Bool) (a : Nat) (e : Exn) (n : Nat) (u : View)
    (hr : Rel cfg n u) (hn : n ≤ cfg.maxAttempts) :
    ⦃fun w => ⌜view w = u⌝⦄ execExceptionPath2 cfg tl a e ⦃attemptPost cfg n⦄ := by
  have hg := hr.good hn
  mvcgen [execExceptionPath2, getRS, modifyAS]
  c01_finish

attribute [local spec] execExceptionPath2_spec

theorem execExceptionPath_spec (cfg : Cfg) (tl : Bool) (a : Nat) (e : Exn) (n : Nat) (u : View)
    (hr : Rel cfg n u) (hn : n ≤ cfg.maxAttempts) :
    ⦃fun w => ⌜view w = u⌝⦄ execExceptionPath cfg tl a e ⦃attemptPost cfg n⦄ := by
  have hg := hr.good hn
  mvcgen [execExceptionPath, modifyAS]
  c01_finish

attribute [local spec] execExceptionPath_spec

theorem execHandler_spec (cfg : Cfg) (tl : Bool) (a : Nat) (e : Exn) (n : Nat) (u : View)
    (hr : Rel cfg n u) (hn : n ≤ cfg.maxAttempts) :
    ⦃fun w => ⌜view w = u⌝⦄ execHandler cfg tl a e ⦃attemptPost cfg n⦄ := by
  have hg := hr.good hn
  mvcgen [execHandler]
  c01_finish

theorem execReturnedHandler_spec (cfg : Cfg) (tl : Bool) (a : Nat) (e : Exn) (v : View)
    (hg : Good cfg v.mon) :
    ⦃fun w => ⌜view w = v⌝⦄ execReturnedHandler cfg tl a e
    ⦃post⟨fun r w => ⌜Good cfg (view w).mon ∧ r ≠ none⌝, fun _ w => ⌜Good cfg (view w).mon⌝⟩⦄ := by
  mvcgen [execReturnedHandler]
  c01_finish

theorem execAttempt_spec (cfg : Cfg) (tl : Bool) (a : Nat) (n : Nat) (u : View)
    (hr : Rel cfg n u) (hn : n + 1 ≤ cfg.maxAttempts) :
    ⦃fun w => ⌜view w = u⌝⦄ execAttempt cfg tl a ⦃attemptPost cfg (n + 1)⦄ := by
  have hg := hr.good (Nat.le_of_succ_le hn)
  have hpre := execPre_spec cfg tl a n u hr hn
  have hh := fun e v hv => execHandler_spec cfg tl a e (n + 1) v hv hn
  have hrp := fun x v hv => execResultPath_spec cfg tl a x (n + 1) v hv hn
  have hrh := fun e v hv => execReturnedHandler_spec cfg tl a e v hv
  mvcgen [execAttempt, hpre, hh, hrp, hrh]
  c01_finish

theorem execLoop_spec (cfg : Cfg) (tl : Bool) : ∀ (fuel a n : Nat) (u : View), Rel cfg n u →
    n + fuel = cfg.maxAttempts →
    ⦃fun w => ⌜view w = u⌝⦄ execLoop cfg tl fuel a
    ⦃post⟨fun _ w => ⌜Good cfg (view w).mon⌝, fun _ w => ⌜Good cfg (view w).mon⌝⟩⦄ := by
  intro fuel
  induction fuel with
  | zero =>
    intro a n u hr hn
    have hg := hr.good (by omega)
    mvcgen [execLoop]
    c01_finish
  | succ f ih =>
    intro a n u hr hn
    have hg := hr.good (by omega)
    mvcgen [execLoop, execAttempt_spec]
    c01_finish
    · omega
    · rename_i s _ hrel
      exact ih (a + 1) (n + 1) (view s) hrel (by omega) s rfl

/-- `Retry.execute` (and its async twin) -/
theorem runExecute_spec (cfg : Cfg) :
    ⦃fun w => ⌜cur w.trace = {}⌝⦄ runExecute cfg
    ⦃post⟨fun _ w => ⌜Good cfg (view w).mon⌝, fun _ w => ⌜Good cfg (view w).mon⌝⟩⦄ := by
  have hloop := execLoop_spec cfg cfg.timeline cfg.maxAttempts 1 0 ⟨{}, fun _ => 0, 0⟩ (Rel.init cfg) (by omega)
  mvcgen [runExecute, hloop]
  c01_finish
  rename_i h0 _ _ _ h
  rw [h]
  have : cur (_ : World).trace = ({} : St) := h0
  simp_all +zetaDelta
  exact (Rel.init cfg).good (Nat.zero_le _)

/-! ### policy level: nothing outside the retry loop invokes the operation -/
open Policy

/-- every request kind but `op` -/
def nonOpK : Kind → Bool
  | .op => false
  | _ => true

theorem step_nonOp (s : St) (x : Req × Ans) (h : nonOpK x.1.kind = true) :
    (step s x).ops = s.ops ∧ (step s x).bad = s.bad ∧ (step s x).retries = s.retries := by
  obtain ⟨r, a⟩ := x
  cases r <;> simp_all [nonOpK, Req.kind, step, classOf?] <;> (split <;> simp_all)

theorem cur_append_nonOp (δ t : List (Req × Ans)) (h : ∀ x ∈ δ, nonOpK x.1.kind = true) :
    (cur (δ ++ t)).ops = (cur t).ops ∧ (cur (δ ++ t)).bad = (cur t).bad ∧
      (cur (δ ++ t)).retries = (cur t).retries := by
  induction δ with
  | nil => simp
  | cons x δ ih =>
    have hx := step_nonOp (cur (δ ++ t)) x (h x (by simp))
    have := ih (fun y hy => h y (by simp [hy]))
    simp only [List.cons_append, cur_cons]
    exact ⟨hx.1.trans this.1, hx.2.1.trans this.2.1, hx.2.2.trans this.2.2⟩

/-- `Good` survives anything that does not invoke the operation -/
theorem good_foot (cfg : Cfg) (w w' : World) (h : Foot nonOpK w w') (hg : Good cfg (cur w.trace)) :
    Good cfg (cur w'.trace) := by
  obtain ⟨δ, e, k⟩ := h.trace
  have := cur_append_nonOp δ w.trace k
  rw [e]
  exact hg.congr this.1 this.2.1 this.2.2

/-- no-retry policies: at most one invocation -/
theorem ops_foot (n : Nat) (w w' : World) (h : Foot nonOpK w w') (hg : (cur w.trace).ops ≤ n) :
    (cur w'.trace).ops ≤ n := by
  obtain ⟨δ, e, k⟩ := h.trace
  have := cur_append_nonOp δ w.trace k
  rw [e, this.1]
  exact hg

theorem opStep_ops (m : St) : (opStep m).ops = m.ops + 1 := by
  unfold opStep step
  cases m.pending <;> rfl

theorem good_empty (cfg : Cfg) : Good cfg ({} : St) := (Rel.init cfg).good (Nat.zero_le _)

abbrev goodPost (cfg : Cfg) : PostCond α (.except Exn (.arg World .pure)) :=
  post⟨fun _ w => ⌜Good cfg (cur w.trace)⌝, fun _ w => ⌜Good cfg (cur w.trace)⌝⟩

section policyLeaves
variable (cfg : Cfg)

theorem initCtx_v (v : View) : ⦃fun w => ⌜view w = v⌝⦄ initCtx ⦃same v⦄ :=
  view_of_foot view (fun w0 => initCtx_foot inertK w0) view_foot v

theorem checkBreaker_v (v : View) : ⦃fun w => ⌜view w = v⌝⦄ checkBreaker cfg ⦃same v⦄ :=
  view_of_foot view (fun w0 => checkBreaker_foot inertK w0 rfl rfl rfl cfg) view_foot v

theorem breakerAllow_v (v : View) (bc : Breaker.Cfg) :
    ⦃fun w => ⌜view w = v⌝⦄ breakerAllow bc ⦃same v⦄ :=
  view_of_foot view (fun w0 => breakerAllow_foot inertK w0 rfl bc) view_foot v

theorem emitBreakerEvent_v (v : View) (ev : Option Event) (st : CState) (k : Option EClass) :
    ⦃fun w => ⌜view w = v⌝⦄ emitBreakerEvent cfg ev st k ⦃same v⦄ :=
  view_of_foot view (fun w0 => emitBreakerEvent_foot inertK w0 rfl rfl cfg ev st k) view_foot v

theorem checkAbortNoRetry_v (v : View) : ⦃fun w => ⌜view w = v⌝⦄ checkAbortNoRetry cfg ⦃same v⦄ :=
  view_of_foot view (fun w0 => checkAbortNoRetry_foot inertK w0 rfl rfl cfg) view_foot v

theorem noRetryStartHook_v (v : View) : ⦃fun w => ⌜view w = v⌝⦄ noRetryStartHook cfg ⦃same v⦄ :=
  view_of_foot view (fun w0 => noRetryStartHook_foot inertK w0 rfl cfg) view_foot v

variable (I : World → Prop) (hI : ∀ w w', Foot nonOpK w w' → I w → I w')
include hI

theorem recordSuccess_i : ⦃fun w => ⌜I w⌝⦄ Policy.recordSuccess cfg
    ⦃post⟨fun _ w => ⌜I w⌝, fun _ w => ⌜I w⌝⟩⦄ :=
  inv_of_foot I (fun w0 => recordSuccess_foot nonOpK w0 rfl rfl rfl cfg) hI

theorem recordCancel_i : ⦃fun w => ⌜I w⌝⦄ Policy.recordCancel cfg
    ⦃post⟨fun _ w => ⌜I w⌝, fun _ w => ⌜I w⌝⟩⦄ :=
  inv_of_foot I (fun w0 => recordCancel_foot nonOpK w0 rfl cfg) hI

theorem recordFailure_i (k : EClass) : ⦃fun w => ⌜I w⌝⦄ Policy.recordFailure cfg k
    ⦃post⟨fun _ w => ⌜I w⌝, fun _ w => ⌜I w⌝⟩⦄ :=
  inv_of_foot I (fun w0 => recordFailure_foot nonOpK w0 rfl rfl rfl cfg k) hI

theorem ensureSettled_i : ⦃fun w => ⌜I w⌝⦄ ensureSettled cfg
    ⦃post⟨fun _ w => ⌜I w⌝, fun _ w => ⌜I w⌝⟩⦄ :=
  inv_of_foot I (fun w0 => ensureSettled_foot nonOpK w0 rfl cfg) hI

theorem handleAbortCall_i (e : Exn) : ⦃fun w => ⌜I w⌝⦄ handleAbortCall cfg e
    ⦃post⟨fun _ w => ⌜I w⌝, fun _ w => ⌜I w⌝⟩⦄ :=
  inv_of_foot I (fun w0 => handleAbortCall_foot nonOpK w0 rfl rfl cfg e) hI

theorem handleExhaustedCall_i (e : Exn) : ⦃fun w => ⌜I w⌝⦄ handleExhaustedCall cfg e
    ⦃post⟨fun _ w => ⌜I w⌝, fun _ w => ⌜I w⌝⟩⦄ :=
  inv_of_foot I (fun w0 => handleExhaustedCall_foot nonOpK w0 rfl rfl rfl cfg e) hI

theorem handleExceptionCall_i (e : Exn) (b : Bool) : ⦃fun w => ⌜I w⌝⦄ handleExceptionCall cfg e b
    ⦃post⟨fun _ w => ⌜I w⌝, fun _ w => ⌜I w⌝⟩⦄ :=
  inv_of_foot I (fun w0 => handleExceptionCall_foot nonOpK w0 rfl rfl rfl rfl rfl cfg e b) hI

theorem noRetryEndHook_i (exc : Option Exn) (r : Option Nat) (d : AttemptDecision)
    (stop : Option StopReason) (cause : Option Cause) :
    ⦃fun w => ⌜I w⌝⦄ noRetryEndHook cfg exc r d stop cause ⦃post⟨fun _ w => ⌜I w⌝, fun _ w => ⌜I w⌝⟩⦄ :=
  inv_of_foot I (fun w0 => noRetryEndHook_foot nonOpK w0 rfl cfg exc r d stop cause) hI

theorem policyOutcome_i (ok : Bool) (value : Option Nat) (stop : Option StopReason) (attempts : Nat)
    (lc : Option EClass) (le : Option String) (cause : Option Cause) :
    ⦃fun w => ⌜I w⌝⦄ policyOutcome ok value stop attempts lc le cause
    ⦃post⟨fun _ w => ⌜I w⌝, fun _ w => ⌜I w⌝⟩⦄ :=
  inv_of_foot I (fun w0 => policyOutcome_foot nonOpK w0 ok value stop attempts lc le cause) hI

end policyLeaves

/-- the operation's invocation, for the no-retry flavour: one more `op` -/
theorem invokeOp_ops (n a : Nat) :
    ⦃fun w => ⌜(cur w.trace).ops = n⌝⦄ invokeOp a
    ⦃post⟨fun _ w => ⌜(cur w.trace).ops = n + 1⌝, fun _ w => ⌜(cur w.trace).ops = n + 1⌝⟩⦄ := by
  mvcgen
  all_goals (intro h; have := congrArg (fun v => v.mon.ops) h; simp_all [view, opStep_ops])

/-- `Policy.call` with a retry component (also `RetryPolicy.call`, `@retry`, contexts, async twins) -/
theorem call_retry_spec (cfg : Cfg) (hret : cfg.hasRetry = true) :
    ⦃fun w => ⌜cur w.trace = {}⌝⦄ Policy.call cfg ⦃goodPost cfg⦄ := by
  have hs := good_foot cfg
  have hge := good_empty cfg
  have h1 := recordSuccess_i cfg _ hs
  have h2 := recordCancel_i cfg _ hs
  have h3 := ensureSettled_i cfg _ hs
  have h4 := handleAbortCall_i cfg _ hs
  have h5 := handleExhaustedCall_i cfg _ hs
  have h6 := handleExceptionCall_i cfg _ hs
  have hrun := runCall_spec cfg
  have hic : ∀ m, ⦃fun w => ⌜cur w.trace = m⌝⦄ initCtx
      ⦃post⟨fun _ w => ⌜cur w.trace = m⌝, fun _ w => ⌜cur w.trace = m⌝⟩⦄ := fun m =>
    inv_of_foot (fun w => cur w.trace = m) (fun w0 => initCtx_foot inertK w0)
      (fun w w' hf h => by have := view_foot w w' hf; simp_all [view])
  have hcb : ∀ m, ⦃fun w => ⌜cur w.trace = m⌝⦄ checkBreaker cfg
      ⦃post⟨fun _ w => ⌜cur w.trace = m⌝, fun _ w => ⌜cur w.trace = m⌝⟩⦄ := fun m =>
    inv_of_foot (fun w => cur w.trace = m) (fun w0 => checkBreaker_foot inertK w0 rfl rfl rfl cfg)
      (fun w w' hf h => by have := view_foot w w' hf; simp_all [view])
  mvcgen [Policy.call, withFinally, callAdmitted, callLadder, hic, hcb, hrun, h1, h2, h3, h4, h5, h6]
  all_goals (try intros)
  all_goals (try (simp_all +zetaDelta [view]; done))

/-- `Policy.execute` with a retry component -/
theorem execute_retry_spec (cfg : Cfg) (hret : cfg.hasRetry = true) :
    ⦃fun w => ⌜cur w.trace = {}⌝⦄ Policy.execute cfg ⦃goodPost cfg⦄ := by
  have hs := good_foot cfg
  have hge := good_empty cfg
  have h1 := recordSuccess_i cfg _ hs
  have h2 := recordCancel_i cfg _ hs
  have h3 := ensureSettled_i cfg _ hs
  have h5 := handleExhaustedCall_i cfg _ hs
  have h6 := handleExceptionCall_i cfg _ hs
  have h7 := recordFailure_i cfg _ hs
  have h8 := policyOutcome_i _ hs
  have hrun := runExecute_spec cfg
  have hic : ∀ m, ⦃fun w => ⌜cur w.trace = m⌝⦄ initCtx
      ⦃post⟨fun _ w => ⌜cur w.trace = m⌝, fun _ w => ⌜cur w.trace = m⌝⟩⦄ := fun m =>
    inv_of_foot (fun w => cur w.trace = m) (fun w0 => initCtx_foot inertK w0)
      (fun w w' hf h => by have := view_foot w w' hf; simp_all [view])
  have hba : ∀ m bc, ⦃fun w => ⌜cur w.trace = m⌝⦄ breakerAllow bc
      ⦃post⟨fun _ w => ⌜cur w.trace = m⌝, fun _ w => ⌜cur w.trace = m⌝⟩⦄ := fun m bc =>
    inv_of_foot (fun w => cur w.trace = m) (fun w0 => breakerAllow_foot inertK w0 rfl bc)
      (fun w w' hf h => by have := view_foot w w' hf; simp_all [view])
  have hev : ∀ m ev st k, ⦃fun w => ⌜cur w.trace = m⌝⦄ emitBreakerEvent cfg ev st k
      ⦃post⟨fun _ w => ⌜cur w.trace = m⌝, fun _ w => ⌜cur w.trace = m⌝⟩⦄ := fun m ev st k =>
    inv_of_foot (fun w => cur w.trace = m) (fun w0 => emitBreakerEvent_foot inertK w0 rfl rfl cfg ev st k)
      (fun w w' hf h => by have := view_foot w w' hf; simp_all [view])
  mvcgen [Policy.execute, withFinally, executeAdmitted, executeAdmitted2, executeWithRetry, executeLadder,
    hic, hba, hev, hrun, h1, h2, h3, h5, h6, h7, h8]
  all_goals (try intros)
  all_goals (try (simp_all +zetaDelta [view]; done))

theorem opsEq_foot (n : Nat) (w w' : World) (h : Foot nonOpK w w') (hg : (cur w.trace).ops = n) :
    (cur w'.trace).ops = n := by
  obtain ⟨δ, e, k⟩ := h.trace
  have := cur_append_nonOp δ w.trace k
  rw [e, this.1]
  exact hg

abbrev opsPost (n : Nat) : PostCond α (.except Exn (.arg World .pure)) :=
  post⟨fun _ w => ⌜(cur w.trace).ops ≤ n⌝, fun _ w => ⌜(cur w.trace).ops ≤ n⌝⟩

/-- `Policy.call` without a retry component: the operation is invoked at most once -/
theorem call_nr_spec (cfg : Cfg) (hret : cfg.hasRetry = false) :
    ⦃fun w => ⌜(cur w.trace).ops = 0⌝⦄ Policy.call cfg ⦃opsPost 1⦄ := by
  have hs0 := opsEq_foot 0
  have hs := ops_foot 1
  have h0a := inv_of_foot (fun w => (cur w.trace).ops = 0) (fun w0 => initCtx_foot nonOpK w0) hs0
  have h0b := inv_of_foot (fun w => (cur w.trace).ops = 0)
    (fun w0 => checkBreaker_foot nonOpK w0 rfl rfl rfl cfg) hs0
  have h0c := inv_of_foot (fun w => (cur w.trace).ops = 0)
    (fun w0 => checkAbortNoRetry_foot nonOpK w0 rfl rfl cfg) hs0
  have h0d := inv_of_foot (fun w => (cur w.trace).ops = 0)
    (fun w0 => noRetryStartHook_foot nonOpK w0 rfl cfg) hs0
  have hop := invokeOp_ops 0
  have h1 := recordSuccess_i cfg _ hs
  have h2 := recordCancel_i cfg _ hs
  have h3 := ensureSettled_i cfg _ hs
  have h4 := handleAbortCall_i cfg _ hs
  have h5 := handleExhaustedCall_i cfg _ hs
  have h6 := handleExceptionCall_i cfg _ hs
  have h7 := noRetryEndHook_i cfg _ hs
  mvcgen [Policy.call, withFinally, callAdmitted, callLadder, callWithoutRetry, h0a, h0b, h0c, h0d, hop,
    h1, h2, h3, h4, h5, h6, h7]
  all_goals (try intros)
  all_goals (try (simp_all +zetaDelta; done))
  all_goals (try omega)
  all_goals ((try simp only [restore_dummy]); simp_all [view, opStep_ops])

theorem executeAdmitted2_nr (cfg : Cfg) (hret : cfg.hasRetry = false) :
    ⦃fun w => ⌜(cur w.trace).ops = 0⌝⦄ executeAdmitted2 cfg ⦃opsPost 1⦄ := by
  have hs0 := opsEq_foot 0
  have hs := ops_foot 1
  have h0c := inv_of_foot (fun w => (cur w.trace).ops = 0)
    (fun w0 => checkAbortNoRetry_foot nonOpK w0 rfl rfl cfg) hs0
  have h0d := inv_of_foot (fun w => (cur w.trace).ops = 0)
    (fun w0 => noRetryStartHook_foot nonOpK w0 rfl cfg) hs0
  have h0f := fun a b c d e f g => inv_of_foot (fun w => (cur w.trace).ops = 0)
    (fun w0 => policyOutcome_foot nonOpK w0 a b c d e f g) hs0
  have h1 := recordSuccess_i cfg _ hs
  have h2 := recordCancel_i cfg _ hs
  have h7 := noRetryEndHook_i cfg _ hs
  have h8 := recordFailure_i cfg _ hs
  have h9 := policyOutcome_i _ hs
  unfold executeAdmitted2
  simp only [hret, Bool.false_eq_true, if_false]
  mvcgen [executeWithoutRetry, noRetryLadder, h0c, h0d, h0f, h1, h2, h7, h8, h9]
  all_goals (try intros)
  all_goals (try (simp_all +zetaDelta; done))
  all_goals (try omega)
  all_goals ((try simp only [restore_dummy]); simp_all [view, opStep_ops])

/-- `Policy.execute` without a retry component -/
theorem execute_nr_spec (cfg : Cfg) (hret : cfg.hasRetry = false) :
    ⦃fun w => ⌜(cur w.trace).ops = 0⌝⦄ Policy.execute cfg ⦃opsPost 1⦄ := by
  have hs0 := opsEq_foot 0
  have hs := ops_foot 1
  have h0a := inv_of_foot (fun w => (cur w.trace).ops = 0) (fun w0 => initCtx_foot nonOpK w0) hs0
  have h0b := fun bc => inv_of_foot (fun w => (cur w.trace).ops = 0)
    (fun w0 => breakerAllow_foot nonOpK w0 rfl bc) hs0
  have h0e := fun ev st k => inv_of_foot (fun w => (cur w.trace).ops = 0)
    (fun w0 => emitBreakerEvent_foot nonOpK w0 rfl rfl cfg ev st k) hs0
  have h0f := fun a b c d e f g => inv_of_foot (fun w => (cur w.trace).ops = 0)
    (fun w0 => policyOutcome_foot nonOpK w0 a b c d e f g) hs0
  have h3 := ensureSettled_i cfg _ hs
  have hadm := executeAdmitted2_nr cfg hret
  mvcgen [Policy.execute, withFinally, executeAdmitted, h0a, h0b, h0e, h0f, h3, hadm]
  all_goals (try intros)
  all_goals (try (simp_all +zetaDelta; done))
  all_goals (try omega)

/-! ### the theorems -/

theorem verdict_of_good {cfg : Cfg} {e : Entry} {m : St} (hl : hasLoop cfg e = true) (h : Good cfg m) :
    verdict cfg e m = true := by
  unfold verdict
  simp only [hl, if_true, Bool.and_eq_true, decide_eq_true_eq, Bool.not_eq_true', List.all_eq_true]
  refine ⟨⟨⟨h.ops, h.bad⟩, fun k _ => ?_⟩, ?_⟩
  · cases hk : cfg.perClass k with
    | none => rfl
    | some l => simpa using h.per k l hk
  · cases hk : cfg.maxUnknown with
    | none => rfl
    | some l => simpa using h.unk l hk

theorem verdict_of_ops {cfg : Cfg} {e : Entry} {m : St} (hl : hasLoop cfg e = false) (h : m.ops ≤ 1) :
    verdict cfg e m = true := by
  unfold verdict
  simp [hl, h]

/-- the world `runEntry` starts a call from -/
def startWorld (w : World) : World := { w with trace := [], timeline := [], opCalls := 0 }

theorem cur_start (w : World) : cur (startWorld w).trace = {} := rfl

/--
**C01.**  For every configuration, every entry point (`Retry`/`Policy` × `call`/`execute`; the async
twins, `RetryPolicy`, contexts and `@retry` are these by argument forwarding), and every world — i.e.
every answer stream (outcomes of every class, exception- or result-classified, any durations, any
callback raising anything at any invocation), every clock value and every state of a shared budget
or breaker — the run satisfies the caps monitor:

* the operation is invoked at most `max_attempts` times (at most once without a retry component);
* it is never invoked after a failure classified PERMANENT, AUTH or PERMISSION;
* the attempts that follow failures of class `K` never exceed `per_class_max_attempts[K]`;
* the attempts that follow UNKNOWN failures never exceed `max_unknown_attempts`.
-/
theorem caps_hold (cfg : Cfg) (e : Entry) (w : World) :
    Mon.C01.ok cfg e (runEntry cfg e w).2.trace.reverse (runEntry cfg e w).1 = true := by
  unfold Mon.C01.ok
  rw [run_reverse]
  cases e with
  | call =>
    have := adequacy (runCall_spec cfg) (startWorld w) (cur_start w)
    simp only [runEntry, startWorld] at this ⊢
    split at this <;> rename_i heq <;> simp only [heq, toRes] <;> exact verdict_of_good rfl this
  | execute =>
    have := adequacy (runExecute_spec cfg) (startWorld w) (cur_start w)
    simp only [runEntry, startWorld] at this ⊢
    split at this <;> rename_i heq <;> simp only [heq, toResO] <;> exact verdict_of_good rfl this
  | pcall =>
    cases hret : cfg.hasRetry with
    | true =>
      have := adequacy (call_retry_spec cfg hret) (startWorld w) (cur_start w)
      simp only [runEntry, startWorld] at this ⊢
      split at this <;> rename_i heq <;> simp only [heq, toRes] <;>
        exact verdict_of_good (by simp [hasLoop, hret]) this
    | false =>
      have := adequacy (call_nr_spec cfg hret) (startWorld w) (by simp [cur_start])
      simp only [runEntry, startWorld] at this ⊢
      split at this <;> rename_i heq <;> simp only [heq, toRes] <;>
        exact verdict_of_ops (by simp [hasLoop, hret, Entry.isPolicy]) this
  | pexecute =>
    cases hret : cfg.hasRetry with
    | true =>
      have := adequacy (execute_retry_spec cfg hret) (startWorld w) (cur_start w)
      simp only [runEntry, startWorld] at this ⊢
      split at this <;> rename_i heq <;> simp only [heq, toResO] <;>
        exact verdict_of_good (by simp [hasLoop, hret]) this
    | false =>
      have := adequacy (execute_nr_spec cfg hret) (startWorld w) (by simp [cur_start])
      simp only [runEntry, startWorld] at this ⊢
      split at this <;> rename_i heq <;> simp only [heq, toResO] <;>
        exact verdict_of_ops (by simp [hasLoop, hret, Entry.isPolicy]) this

/-- …and therefore of every call in every script of calls and clock advances on ONE policy object
    ("no counter carries over between calls"): whatever state earlier calls left behind. -/
theorem caps_hold_script (cfg : Cfg) : ∀ (steps : List Step) (w : World),
    ∀ l ∈ (runScript cfg steps w).1, Mon.C01.ok cfg l.entry l.trace l.res = true := by
  intro steps
  induction steps with
  | nil => intro w l hl; simp [runScript] at hl
  | cons st rest ih =>
    intro w l hl
    cases st with
    | advance d => exact ih _ l (by simpa [runScript] using hl)
    | run e =>
      simp only [runScript, List.mem_cons] at hl
      rcases hl with rfl | hl
      · exact caps_hold cfg e w
      · exact ih _ l hl

end Redress.Props.C01
