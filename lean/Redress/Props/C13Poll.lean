/-
  C13Poll — every backoff sleep is preceded by an abort poll made AFTER the delay of that retry was
  computed.

  `Mon.C13.ok` (Props/C13) asks at a `.sleeper` exchange only that SOME abort poll happened since the
  last `.op` / `.sleeper`.  On the result-classifier path the library polls twice after the operation
  returned (once between the result classifier's verdict and the recording of the failure, once right
  before the sleep — after the strategy computed the delay, the budget was consulted and the `retry`
  event was reported), so a change that drops the SECOND poll is invisible to `Mon.C13.ok`.

  The monitors below look at freshness instead: `fresh` says "`abort_if` has been polled since the last
  reset".  They differ only in what resets `fresh`:

  * `pollFresh`      — a `.strategy` request (the required minimum);
  * `pollFreshLate`  — every request `_handle_failure` makes when it grants a retry: `.strategy`,
                       `.budgetConsume`, `.metric ..`, `.log ..` (the `retry` event comes LAST);
  * `pollFreshTight` — every request other than `.abortIf` itself and the two callbacks the library
                       consults between the poll and the sleep (`.sleepHandler`, `.beforeSleep`); the
                       `.sleeper` resets too.  In words: between a sleep and the last abort poll before
                       it NOTHING happens but the sleep handler and the before-sleep hook.

  `pollFreshTight` is proved of every model run by a Hoare chain over the model's procedures (the fold
  state is two Booleans; everything but the sleeper keeps `bad`, so the invariant is `bad = false`
  everywhere and "the poll is fresh" only on the short stretch from `check_abort` to the sleeper); the
  other two follow because resetting less often only makes the monitor weaker (`pollFreshR_mono`).
  The chain covers the no-retry paths of `Policy.call/execute` too (they never call the sleeper), so the
  fold's `bad` is false for EVERY entry point (`never_bad`); the `hasLoop` guard of the monitors is kept
  only because the property is about the retry loop.
-/
import Redress.Lemmas.Footprint
import Redress.MonitorsNR

open Std.Do

set_option linter.unusedSimpArgs false
set_option linter.unusedVariables false

-- (`Mon.C13.pollFresh` and its parameterised variants `pollFreshR`, `pollFreshLate`, `pollFreshTight` are defined in Redress/MonitorsNR.lean)

namespace Redress.Props.C13Poll
open Redress Redress.Retry Redress.Mon Redress.Mon.C13

/-! ### the (tight) monitor state as a function of the newest-first log -/

def cur (cfg : Cfg) (tr : List (Req × Ans)) : PSt := tr.foldr (fun x s => pstepR tightReq cfg s x) {}

@[simp] theorem cur_cons (cfg : Cfg) (x : Req × Ans) (t : List (Req × Ans)) :
    cur cfg (x :: t) = pstepR tightReq cfg (cur cfg t) x := rfl

theorem run_reverse (cfg : Cfg) (t : List (Req × Ans)) :
    t.reverse.foldl (pstepR tightReq cfg) {} = cur cfg t := by
  simp [cur, List.foldl_reverse]

/-- a sleep has started without a fresh poll -/
def badN (cfg : Cfg) (tr : List (Req × Ans)) : Bool := (cur cfg tr).bad

/-- a sleep may start now -/
def rdyN (cfg : Cfg) (tr : List (Req × Ans)) : Bool := !cfg.abortIf || (cur cfg tr).fresh

/-- anything but the sleeper -/
def nsK : Kind → Bool
  | .sleeper => false
  | _ => true

/-- the callbacks between the poll and the sleep -/
def preK : Kind → Bool
  | .sleepHandler | .beforeSleep => true
  | _ => false

theorem badN_cons_ns (cfg : Cfg) (r : Req) (a : Ans) (tr : List (Req × Ans)) (h : nsK r.kind = true) :
    badN cfg ((r, a) :: tr) = badN cfg tr := by
  cases r <;> simp_all [badN, pstepR, nsK, Req.kind] <;> split <;> rfl

theorem cur_cons_pre (cfg : Cfg) (r : Req) (a : Ans) (tr : List (Req × Ans)) (h : preK r.kind = true) :
    cur cfg ((r, a) :: tr) = cur cfg tr := by
  cases r <;> simp_all [pstepR, preK, Req.kind, tightReq]

theorem badN_append_ns (cfg : Cfg) (δ t : List (Req × Ans)) (h : ∀ x ∈ δ, nsK x.1.kind = true) :
    badN cfg (δ ++ t) = badN cfg t := by
  induction δ with
  | nil => rfl
  | cons x δ ih =>
    obtain ⟨r, a⟩ := x
    rw [List.cons_append, badN_cons_ns cfg r a _ (h (r, a) (by simp))]
    exact ih (fun y hy => h y (by simp [hy]))

theorem cur_append_pre (cfg : Cfg) (δ t : List (Req × Ans)) (h : ∀ x ∈ δ, preK x.1.kind = true) :
    cur cfg (δ ++ t) = cur cfg t := by
  induction δ with
  | nil => rfl
  | cons x δ ih =>
    obtain ⟨r, a⟩ := x
    rw [List.cons_append, cur_cons_pre cfg r a _ (h (r, a) (by simp))]
    exact ih (fun y hy => h y (by simp [hy]))

theorem bad_foot (cfg : Cfg) {w w' : World} (h : Foot nsK w w') : badN cfg w'.trace = badN cfg w.trace := by
  obtain ⟨δ, e, k⟩ := h.trace
  rw [e]
  exact badN_append_ns cfg δ _ k

theorem cur_foot (cfg : Cfg) {w w' : World} (h : Foot preK w w') : cur cfg w'.trace = cur cfg w.trace := by
  obtain ⟨δ, e, k⟩ := h.trace
  rw [e]
  exact cur_append_pre cfg δ _ k

/-- an abort poll: now a sleep may start -/
theorem rdyN_abortIf (cfg : Cfg) (a : Ans) (tr : List (Req × Ans)) : rdyN cfg ((.abortIf, a) :: tr) = true := by
  simp [rdyN, pstepR]

/-- a sleep that starts when it may -/
theorem badN_sleeper (cfg : Cfg) (l : Lvl) (d : Nat) (a : Ans) (tr : List (Req × Ans))
    (hr : rdyN cfg tr = true) : badN cfg ((.sleeper l d, a) :: tr) = badN cfg tr := by
  simp only [rdyN, Bool.or_eq_true, Bool.not_eq_true'] at hr
  simp only [badN, cur_cons, pstepR]
  rcases hr with hr | hr <;> simp [hr]

/-! ### postconditions -/

/-- no sleep has started without a fresh poll — on both exits -/
abbrev keepOk (cfg : Cfg) : PostCond α (.except Exn (.arg World .pure)) :=
  post⟨fun _ w => ⌜badN cfg w.trace = false⌝, fun _ w => ⌜badN cfg w.trace = false⌝⟩

/-- …and a sleep may start now -/
abbrev keepRdy (cfg : Cfg) : PostCond α (.except Exn (.arg World .pure)) :=
  post⟨fun _ w => ⌜badN cfg w.trace = false ∧ rdyN cfg w.trace = true⌝,
       fun _ w => ⌜badN cfg w.trace = false ∧ rdyN cfg w.trace = true⌝⟩

/-- a procedure that never calls the sleeper -/
theorem okK {α : Type} {x : M α} (cfg : Cfg)
    (hx : ∀ w0, ⦃fun w => ⌜Foot nsK w0 w⌝⦄ x ⦃footPost nsK w0⦄) :
    ⦃fun w => ⌜badN cfg w.trace = false⌝⦄ x ⦃keepOk cfg⦄ :=
  view_of_foot (fun w => badN cfg w.trace) hx (fun _ _ h => bad_foot cfg h) false

/-- same, keeping what the footprint lemma says about the returned value -/
theorem okK' {α : Type} {x : M α} {R : α → Prop} (cfg : Cfg)
    (hx : ∀ w0, ⦃fun w => ⌜Foot nsK w0 w⌝⦄ x
      ⦃post⟨fun a w => ⌜R a ∧ Foot nsK w0 w⌝, fun _ w => ⌜Foot nsK w0 w⌝⟩⦄) :
    ⦃fun w => ⌜badN cfg w.trace = false⌝⦄ x
    ⦃post⟨fun a w => ⌜R a ∧ badN cfg w.trace = false⌝, fun _ w => ⌜badN cfg w.trace = false⌝⟩⦄ :=
  view_of_foot' (fun w => badN cfg w.trace) hx (fun _ _ h => bad_foot cfg h) false

/-- a procedure that only consults the sleep handler / the before-sleep hook -/
theorem rdyK {α : Type} {x : M α} (cfg : Cfg)
    (hx : ∀ w0, ⦃fun w => ⌜Foot preK w0 w⌝⦄ x ⦃footPost preK w0⦄) :
    ⦃fun w => ⌜badN cfg w.trace = false ∧ rdyN cfg w.trace = true⌝⦄ x ⦃keepRdy cfg⦄ :=
  inv_of_foot (fun w => badN cfg w.trace = false ∧ rdyN cfg w.trace = true) hx
    (fun w w' h hi => by simpa only [badN, rdyN, cur_foot cfg h] using hi)


/-! ### leaf procedures that never call the sleeper -/
section leaves
variable (cfg : Cfg) (tl : Bool)

theorem emit_k (ev : Event) (a s : Nat) (k : Option EClass) (e : Option Exn) (st : Option StopReason)
    (c : Option Cause) (cl : Option Classification) :
    ⦃fun w => ⌜badN cfg w.trace = false⌝⦄ emit cfg tl ev a s k e st c cl ⦃keepOk cfg⦄ :=
  okK cfg (fun w0 => emit_foot nsK w0 rfl rfl cfg tl ev a s k e st c cl)

theorem setStop_k (sr : StopReason) : ⦃fun w => ⌜badN cfg w.trace = false⌝⦄ setStop sr ⦃keepOk cfg⦄ :=
  okK cfg (fun w0 => setStop_foot nsK w0 sr)

theorem stopWith_k (sr : StopReason) (ev : Event) (a : Nat) (k : EClass) (e : Option Exn) (c : Cause) :
    ⦃fun w => ⌜badN cfg w.trace = false⌝⦄ stopWith cfg tl sr ev a k e c
    ⦃post⟨fun d w => ⌜d = .raise ∧ badN cfg w.trace = false⌝, fun _ w => ⌜badN cfg w.trace = false⌝⟩⦄ :=
  okK' cfg (fun w0 => stopWith_foot nsK w0 rfl rfl cfg tl sr ev a k e c)

theorem stratRecordFailure_k (key : SKey) (k : EClass) :
    ⦃fun w => ⌜badN cfg w.trace = false⌝⦄ stratRecordFailure cfg key k ⦃keepOk cfg⦄ :=
  okK cfg (fun w0 => stratRecordFailure_foot nsK w0 rfl cfg key k)

theorem callStrategy_k (key : SKey) (kind : SKind) (ctx : BackoffCtx) :
    ⦃fun w => ⌜badN cfg w.trace = false⌝⦄ callStrategy key kind ctx ⦃keepOk cfg⦄ :=
  okK cfg (fun w0 => callStrategy_foot nsK w0 rfl key kind ctx)

theorem callClassifier_k (e : Exn) : ⦃fun w => ⌜badN cfg w.trace = false⌝⦄ callClassifier e ⦃keepOk cfg⦄ :=
  okK cfg (fun w0 => callClassifier_foot nsK w0 rfl e)

theorem shouldClassifyResult_k (x : Nat) :
    ⦃fun w => ⌜badN cfg w.trace = false⌝⦄ shouldClassifyResult cfg x ⦃keepOk cfg⦄ :=
  okK cfg (fun w0 => shouldClassifyResult_foot nsK w0 rfl cfg x)

theorem callAttemptStart_k (a : Nat) :
    ⦃fun w => ⌜badN cfg w.trace = false⌝⦄ callAttemptStart cfg a ⦃keepOk cfg⦄ :=
  okK cfg (fun w0 => callAttemptStart_foot nsK w0 rfl cfg a)

theorem callAttemptEndFromOutcome_k (a : Nat) (o : AOutcome) :
    ⦃fun w => ⌜badN cfg w.trace = false⌝⦄ callAttemptEndFromOutcome cfg a o ⦃keepOk cfg⦄ :=
  okK cfg (fun w0 => callAttemptEndFromOutcome_foot nsK w0 rfl cfg a o)

theorem handleSuccessAttemptEnd_k (a x : Nat) :
    ⦃fun w => ⌜badN cfg w.trace = false⌝⦄ handleSuccessAttemptEnd cfg tl a x ⦃keepOk cfg⦄ :=
  okK cfg (fun w0 => handleSuccessAttemptEnd_foot nsK w0 rfl rfl rfl rfl cfg tl a x)

theorem handleAbortAttemptEnd_k (a : Nat) (e : Exn) :
    ⦃fun w => ⌜badN cfg w.trace = false⌝⦄ handleAbortAttemptEnd cfg a e ⦃keepOk cfg⦄ :=
  okK cfg (fun w0 => handleAbortAttemptEnd_foot nsK w0 rfl cfg a e)

theorem buildOutcome_k (ok : Bool) (value : Option Nat) (n : Nat) (ns : Option Nat) :
    ⦃fun w => ⌜badN cfg w.trace = false⌝⦄ buildOutcome ok value n ns ⦃keepOk cfg⦄ :=
  okK cfg (fun w0 => buildOutcome_foot nsK w0 ok value n ns)

theorem emitAbortedOnce_k (a : Nat) :
    ⦃fun w => ⌜badN cfg w.trace = false⌝⦄ emitAbortedOnce cfg tl a ⦃keepOk cfg⦄ :=
  okK cfg (fun w0 => emitAbortedOnce_foot nsK w0 rfl rfl cfg tl a)

theorem abortOutcome_k (a : Nat) :
    ⦃fun w => ⌜badN cfg w.trace = false⌝⦄ abortOutcome cfg tl a ⦃keepOk cfg⦄ :=
  okK cfg (fun w0 => abortOutcome_foot nsK w0 rfl rfl cfg tl a)

theorem buildExhaustedOutcome_k :
    ⦃fun w => ⌜badN cfg w.trace = false⌝⦄ buildExhaustedOutcome cfg tl ⦃keepOk cfg⦄ :=
  okK cfg (fun w0 => buildExhaustedOutcome_foot nsK w0 rfl rfl cfg tl)

theorem raiseExhaustedCall_k :
    ⦃fun w => ⌜badN cfg w.trace = false⌝⦄ raiseExhaustedCall cfg ⦃keepOk cfg⦄ :=
  okK cfg (fun w0 => raiseExhaustedCall_foot nsK w0 rfl rfl cfg)

theorem deliverCall_k (act : Action) (orig : Option Exn) (fb : ExhaustedFields) :
    ⦃fun w => ⌜badN cfg w.trace = false⌝⦄ deliverCall act orig fb
    ⦃post⟨fun r w => ⌜(r = none ∧ act = .continue_) ∧ badN cfg w.trace = false⌝,
          fun _ w => ⌜badN cfg w.trace = false⌝⟩⦄ :=
  okK' cfg (fun w0 => deliverCall_foot nsK w0 act orig fb)

theorem deliverExecute_k (act : Action) (o : AOutcome) :
    ⦃fun w => ⌜badN cfg w.trace = false⌝⦄ deliverExecute cfg tl act o
    ⦃post⟨fun r w => ⌜(r = none → act = .continue_) ∧ badN cfg w.trace = false⌝,
          fun _ w => ⌜badN cfg w.trace = false⌝⟩⦄ :=
  okK' cfg (fun w0 => deliverExecute_foot nsK w0 rfl rfl cfg tl act o)

/-- the operation's invocation -/
theorem invokeOp_k (a : Nat) : ⦃fun w => ⌜badN cfg w.trace = false⌝⦄ invokeOp a ⦃keepOk cfg⦄ := by
  mvcgen [invokeOp, ask]
  all_goals (subst_vars; intros)
  all_goals (rw [badN_cons_ns cfg _ _ _ rfl]; assumption)

/-- the budget's verdict -/
theorem budgetConsume_k : ⦃fun w => ⌜badN cfg w.trace = false⌝⦄ budgetConsume cfg ⦃keepOk cfg⦄ := by
  mvcgen [budgetConsume]
  all_goals (subst_vars; intros)
  all_goals first
    | assumption
    | (rw [badN_cons_ns cfg _ _ _ rfl]; assumption)

/-! ### the poll, the sleep, and what lies between them -/

/-- `abort_if()` itself: whatever it answers, it has been polled -/
theorem askAbort_k :
    ⦃fun w => ⌜badN cfg w.trace = false⌝⦄ ask .abortIf
    ⦃post⟨fun _ w => ⌜badN cfg w.trace = false ∧ rdyN cfg w.trace = true⌝,
          fun _ w => ⌜badN cfg w.trace = false⌝⟩⦄ := by
  mvcgen [ask]
  all_goals (subst_vars; intros)
  all_goals first
    | (rw [badN_cons_ns cfg _ _ _ rfl]; assumption)
    | exact ⟨by rw [badN_cons_ns cfg _ _ _ rfl]; assumption, rdyN_abortIf cfg _ _⟩

/-- the sleeper call: no harm when a sleep may start -/
theorem callSleeper_k (s : Nat) :
    ⦃fun w => ⌜badN cfg w.trace = false ∧ rdyN cfg w.trace = true⌝⦄ callSleeper cfg s ⦃keepOk cfg⦄ := by
  mvcgen [callSleeper, ask]
  all_goals (subst_vars; intros)
  all_goals (have h := ‹badN cfg _ = false ∧ rdyN cfg _ = true›)
  all_goals (rw [badN_sleeper cfg _ _ _ _ h.2]; exact h.1)

theorem callSleepHandler_r (lvl : Lvl) (ctx : BackoffCtx) (s : Nat) :
    ⦃fun w => ⌜badN cfg w.trace = false ∧ rdyN cfg w.trace = true⌝⦄ callSleepHandler lvl ctx s ⦃keepRdy cfg⦄ :=
  rdyK cfg (fun w0 => callSleepHandler_foot preK w0 rfl lvl ctx s)

theorem callBeforeSleep_r (ctx : BackoffCtx) (s : Nat) :
    ⦃fun w => ⌜badN cfg w.trace = false ∧ rdyN cfg w.trace = true⌝⦄ callBeforeSleep cfg ctx s ⦃keepRdy cfg⦄ :=
  rdyK cfg (fun w0 => callBeforeSleep_foot preK w0 rfl cfg ctx s)

end leaves


/-- let `simp_all` do the propositional part -/
macro "k_finish" : tactic => `(tactic| all_goals (
  (try split_ands) <;> (try subst_vars) <;> (try intros) <;>
  first
    | assumption
    | (simp_all +zetaDelta [restore_dummy, Decision.isRaise]; done)
    | skip))

/-- `_RetryState.check_abort`: when it returns, a sleep may start -/
theorem checkAbort_k (cfg : Cfg) (tl : Bool) (a : Nat) :
    ⦃fun w => ⌜badN cfg w.trace = false⌝⦄ checkAbort cfg tl a
    ⦃post⟨fun _ w => ⌜badN cfg w.trace = false ∧ rdyN cfg w.trace = true⌝,
          fun _ w => ⌜badN cfg w.trace = false⌝⟩⦄ := by
  have h1 := askAbort_k cfg
  have h2 := setStop_k cfg .aborted
  have h3 := emit_k cfg tl .aborted a 0 none none (some .aborted) none none
  mvcgen [checkAbort, h1, h2, h3]
  all_goals (try clear h1 h2 h3)
  k_finish
  all_goals (simp_all [rdyN]; done)

/-- `try: state.check_abort(attempt) except AbortRetryError: …` -/
theorem checkAbortCaught_k (cfg : Cfg) (tl : Bool) (a : Nat) :
    ⦃fun w => ⌜badN cfg w.trace = false⌝⦄ checkAbortCaught cfg tl a
    ⦃post⟨fun b w => ⌜badN cfg w.trace = false ∧ (b = false → rdyN cfg w.trace = true)⌝,
          fun _ w => ⌜badN cfg w.trace = false⌝⟩⦄ := by
  have h1 := checkAbort_k cfg tl a
  mvcgen [checkAbortCaught, abortToTrue, h1]
  all_goals (try clear h1)
  k_finish

/-- `_handle_sleep_decision`: SLEEP is decided without another request -/
theorem handleSleepDecision_r (cfg : Cfg) (tl : Bool) (act : SleepDecision) (a s : Nat) :
    ⦃fun w => ⌜badN cfg w.trace = false ∧ rdyN cfg w.trace = true⌝⦄ handleSleepDecision cfg tl act a s
    ⦃post⟨fun r w => ⌜badN cfg w.trace = false ∧ (r = .sleep → rdyN cfg w.trace = true)⌝,
          fun _ w => ⌜badN cfg w.trace = false⌝⟩⦄ := by
  have h1 := setStop_k cfg .scheduled
  have h2 := fun k ex cs => emit_k cfg tl .scheduled a s k ex (some .scheduled) cs none
  have h3 := emitAbortedOnce_k cfg tl a
  mvcgen [handleSleepDecision, getRS, h1, h2, h3]
  all_goals (try clear h1 h2 h3)
  k_finish

/-- `_sync_sleep_action` / `_async_sleep_action`: from the poll to the sleep -/
theorem sleepAction_k (cfg : Cfg) (tl : Bool) (a s : Nat) (ctx : BackoffCtx) :
    ⦃fun w => ⌜badN cfg w.trace = false ∧ rdyN cfg w.trace = true⌝⦄ sleepAction cfg tl a s ctx ⦃keepOk cfg⦄ := by
  have h1 := callBeforeSleep_r cfg ctx s
  have h2 := callSleeper_k cfg s
  have h3 := fun lvl => callSleepHandler_r cfg lvl ctx s
  have h4 := fun act => handleSleepDecision_r cfg tl act a s
  mvcgen [sleepAction, h1, h2, h3, h4]
  all_goals (try clear h1 h2 h3 h4)
  k_finish

/-! ### the failure handler: the strategy, the budget, the `retry` event — no sleeper -/

theorem grantRetry_k (cfg : Cfg) (tl : Bool) (c : Classification) (a : Nat) (cause : Cause) (e : Option Exn)
    (key : SKey) (kind : SKind) (rem : Nat) :
    ⦃fun w => ⌜badN cfg w.trace = false⌝⦄ grantRetry cfg tl c a cause e key kind rem ⦃keepOk cfg⦄ := by
  have h1 := fun ctx => callStrategy_k cfg key kind ctx
  have h2 := budgetConsume_k cfg
  have h3 := fun sl k ex cs cl => emit_k cfg tl .retry a sl k ex none cs cl
  have h4 := stopWith_k cfg tl .budgetExhausted .budgetExhausted a c.klass e cause
  mvcgen [grantRetry, getRS, modifyRS, h1, h2, h3, h4]
  all_goals (try clear h1 h2 h3 h4)
  k_finish

theorem handleFailure2_k (cfg : Cfg) (tl : Bool) (c : Classification) (a : Nat) (cause : Cause) (e : Option Exn) :
    ⦃fun w => ⌜badN cfg w.trace = false⌝⦄ handleFailure2 cfg tl c a cause e ⦃keepOk cfg⦄ := by
  have h1 := fun key kind rem => grantRetry_k cfg tl c a cause e key kind rem
  have h2 := fun sr ev => stopWith_k cfg tl sr ev a c.klass e cause
  have h3 := fun key => stratRecordFailure_k cfg key c.klass
  mvcgen [handleFailure2, elapsed, modifyRS, h1, h2, h3]
  all_goals (try clear h1 h2 h3)
  k_finish

theorem handleUnknown_k (cfg : Cfg) (tl : Bool) (c : Classification) (a : Nat) (cause : Cause) (e : Option Exn) :
    ⦃fun w => ⌜badN cfg w.trace = false⌝⦄ handleUnknown cfg tl c a cause e ⦃keepOk cfg⦄ := by
  have h1 := handleFailure2_k cfg tl c a cause e
  have h2 := fun sr ev => stopWith_k cfg tl sr ev a c.klass e cause
  mvcgen [handleUnknown, getRS, modifyRS, h1, h2]
  all_goals (try clear h1 h2)
  k_finish

theorem handleFailure1_k (cfg : Cfg) (tl : Bool) (c : Classification) (a : Nat) (cause : Cause) (e : Option Exn) :
    ⦃fun w => ⌜badN cfg w.trace = false⌝⦄ handleFailure1 cfg tl c a cause e ⦃keepOk cfg⦄ := by
  have h1 := handleFailure2_k cfg tl c a cause e
  have h2 := handleUnknown_k cfg tl c a cause e
  have h3 := fun sr ev => stopWith_k cfg tl sr ev a c.klass e cause
  mvcgen [handleFailure1, getRS, h1, h2, h3]
  all_goals (try clear h1 h2 h3)
  k_finish

theorem handleFailure_k (cfg : Cfg) (tl : Bool) (c : Classification) (a : Nat) (cause : Cause) (e : Option Exn)
    (r : Option Nat) :
    ⦃fun w => ⌜badN cfg w.trace = false⌝⦄ handleFailure cfg tl c a cause e r ⦃keepOk cfg⦄ := by
  have h1 := handleFailure1_k cfg tl c a cause e
  mvcgen [handleFailure, Retry.recordFailure, modifyRS, h1]
  all_goals (try clear h1)
  k_finish

theorem handleException_k (cfg : Cfg) (tl : Bool) (e : Exn) (a : Nat) :
    ⦃fun w => ⌜badN cfg w.trace = false⌝⦄ handleException cfg tl e a ⦃keepOk cfg⦄ := by
  have h1 := callClassifier_k cfg e
  have h2 := fun c => handleFailure_k cfg tl c a .exception (some e) none
  mvcgen [handleException, h1, h2]
  all_goals (try clear h1 h2)
  k_finish

/-! ### after the decision -/

theorem finalizeAttempt_k (cfg : Cfg) (tl : Bool) (a : Nat) (d : Decision) (act : Option SleepDecision)
    (cls : Option Classification) (e : Option Exn) (r : Option Nat) (c : Option Cause) :
    ⦃fun w => ⌜badN cfg w.trace = false⌝⦄ finalizeAttempt cfg tl a d act cls e r c ⦃keepOk cfg⦄ := by
  have h1 := fun sr => setStop_k cfg sr
  have h2 := fun ev k ex st cs => emit_k cfg tl ev a 0 k ex st cs none
  mvcgen [finalizeAttempt, getRS, elapsed, h1, h2]
  all_goals (try clear h1 h2)
  k_finish

/-- `_sync_failure_outcome`: a granted retry's sleep starts right after the poll -/
theorem failureOutcome_k (cfg : Cfg) (tl : Bool) (a : Nat) (d : Decision) (cls : Option Classification)
    (e : Option Exn) (r : Option Nat) (c : Option Cause) :
    ⦃fun w => ⌜badN cfg w.trace = false ∧ (d.isRaise = false → rdyN cfg w.trace = true)⌝⦄
    failureOutcome cfg tl a d cls e r c ⦃keepOk cfg⦄ := by
  have h1 := fun d act => finalizeAttempt_k cfg tl a d act cls e r c
  have h2 := fun s ctx => sleepAction_k cfg tl a s ctx
  mvcgen [failureOutcome, h1, h2]
  all_goals (try clear h1 h2)
  k_finish


/-! ### call mode -/

theorem callExceptionPath_k (cfg : Cfg) (a : Nat) (e : Exn) :
    ⦃fun w => ⌜badN cfg w.trace = false⌝⦄ callExceptionPath cfg a e ⦃keepOk cfg⦄ := by
  have h1 := checkAbort_k cfg false a
  have h2 := handleException_k cfg false e a
  have h3 := fun d cls => failureOutcome_k cfg false a d cls (some e) none (some .exception)
  have h4 := fun o => callAttemptEndFromOutcome_k cfg a o
  have h5 := fun act => deliverCall_k cfg act (some e) default
  mvcgen [callExceptionPath, getRS, modifyAS, h1, h2, h3, h4, h5]
  all_goals (try clear h1 h2 h3 h4 h5)
  k_finish

theorem callResultFailure_k (cfg : Cfg) (a x : Nat) (c : Classification) :
    ⦃fun w => ⌜badN cfg w.trace = false⌝⦄ callResultFailure cfg a x c ⦃keepOk cfg⦄ := by
  have h1 := checkAbort_k cfg false a
  have h2 := handleFailure_k cfg false c a .result none (some x)
  have h3 := fun d cls => failureOutcome_k cfg false a d cls none (some x) (some .result)
  have h4 := fun o => callAttemptEndFromOutcome_k cfg a o
  have h5 := fun act fb => deliverCall_k cfg act none fb
  mvcgen [callResultFailure, getRS, modifyAS, h1, h2, h3, h4, h5]
  all_goals (try clear h1 h2 h3 h4 h5)
  k_finish

theorem callResultPath_k (cfg : Cfg) (a x : Nat) :
    ⦃fun w => ⌜badN cfg w.trace = false⌝⦄ callResultPath cfg a x ⦃keepOk cfg⦄ := by
  have h1 := shouldClassifyResult_k cfg x
  have h2 := handleSuccessAttemptEnd_k cfg false a x
  have h3 := fun c => callResultFailure_k cfg a x c
  mvcgen [callResultPath, h1, h2, h3]
  all_goals (try clear h1 h2 h3)
  k_finish

/-- One iteration of the loop of `_run_sync_call` (the `except` ladder around `func()` included). -/
theorem callAttempt_k (cfg : Cfg) (a : Nat) :
    ⦃fun w => ⌜badN cfg w.trace = false⌝⦄ callAttempt cfg a ⦃keepOk cfg⦄ := by
  have h1 := fun n => checkAbort_k cfg false n
  have h2 := callAttemptStart_k cfg a
  have h3 := invokeOp_k cfg a
  have h4 := fun x => callResultPath_k cfg a x
  have h5 := fun e => handleAbortAttemptEnd_k cfg a e
  have h6 := emitAbortedOnce_k cfg false a
  have h7 := fun e => callExceptionPath_k cfg a e
  mvcgen [callAttempt, callOpHandler, modifyAS, h1, h2, h3, h4, h5, h6, h7]
  all_goals (try clear h1 h2 h3 h4 h5 h6 h7)
  k_finish

theorem callLoop_k (cfg : Cfg) : ∀ (fuel a : Nat),
    ⦃fun w => ⌜badN cfg w.trace = false⌝⦄ callLoop cfg fuel a ⦃keepOk cfg⦄ := by
  intro fuel
  induction fuel with
  | zero =>
    intro a
    have h1 := raiseExhaustedCall_k cfg
    mvcgen [callLoop, h1]
  | succ f ih =>
    intro a
    have h1 := callAttempt_k cfg a
    have h2 := ih (a + 1)
    mvcgen [callLoop, h1, h2]

theorem runCall_k (cfg : Cfg) :
    ⦃fun w => ⌜badN cfg w.trace = false⌝⦄ runCall cfg ⦃keepOk cfg⦄ := by
  have h2 := callLoop_k cfg cfg.maxAttempts 1
  mvcgen [runCall, initState, h2]

/-! ### execute mode -/

theorem execAbortExit_k (cfg : Cfg) (tl : Bool) (a : Nat) (e : Exn) :
    ⦃fun w => ⌜badN cfg w.trace = false⌝⦄ execAbortExit cfg tl a e ⦃keepOk cfg⦄ := by
  have h1 := handleAbortAttemptEnd_k cfg a e
  have h2 := fun n => abortOutcome_k cfg tl n
  mvcgen [execAbortExit, h1, h2]
  all_goals (try clear h1 h2)
  k_finish

theorem execExceptionPath3_k (cfg : Cfg) (tl : Bool) (a : Nat) (e : Exn) (d : Decision) :
    ⦃fun w => ⌜badN cfg w.trace = false ∧ (d.isRaise = false → rdyN cfg w.trace = true)⌝⦄
    execExceptionPath3 cfg tl a e d ⦃keepOk cfg⦄ := by
  have h3 := fun cls => failureOutcome_k cfg tl a d cls (some e) none (some .exception)
  have h4 := fun o => callAttemptEndFromOutcome_k cfg a o
  have h5 := fun act o => deliverExecute_k cfg tl act o
  mvcgen [execExceptionPath3, getRS, modifyAS, h3, h4, h5]
  all_goals (try clear h3 h4 h5)
  k_finish

theorem execExceptionPath2_k (cfg : Cfg) (tl : Bool) (a : Nat) (e : Exn) :
    ⦃fun w => ⌜badN cfg w.trace = false⌝⦄ execExceptionPath2 cfg tl a e ⦃keepOk cfg⦄ := by
  have h2 := handleException_k cfg tl e a
  have h3 := fun d => execExceptionPath3_k cfg tl a e d
  have h4 := checkAbortCaught_k cfg tl a
  have h5 := execAbortExit_k cfg tl a e
  mvcgen [execExceptionPath2, getRS, modifyAS, h2, h3, h4, h5]
  all_goals (try clear h2 h3 h4 h5)
  k_finish

theorem execExceptionPath_k (cfg : Cfg) (tl : Bool) (a : Nat) (e : Exn) :
    ⦃fun w => ⌜badN cfg w.trace = false⌝⦄ execExceptionPath cfg tl a e ⦃keepOk cfg⦄ := by
  have h3 := execExceptionPath2_k cfg tl a e
  have h4 := checkAbortCaught_k cfg tl a
  have h5 := execAbortExit_k cfg tl a e
  mvcgen [execExceptionPath, modifyAS, h3, h4, h5]
  all_goals (try clear h3 h4 h5)
  k_finish

theorem execResultFailure_k (cfg : Cfg) (tl : Bool) (a x : Nat) (c : Classification) :
    ⦃fun w => ⌜badN cfg w.trace = false⌝⦄ execResultFailure cfg tl a x c ⦃keepOk cfg⦄ := by
  have h1 := checkAbort_k cfg tl a
  have h2 := handleFailure_k cfg tl c a .result none (some x)
  have h3 := fun d cls => failureOutcome_k cfg tl a d cls none (some x) (some .result)
  have h4 := fun o => callAttemptEndFromOutcome_k cfg a o
  have h5 := fun act o => deliverExecute_k cfg tl act o
  mvcgen [execResultFailure, getRS, modifyAS, h1, h2, h3, h4, h5]
  all_goals (try clear h1 h2 h3 h4 h5)
  k_finish

theorem execResultPath_k (cfg : Cfg) (tl : Bool) (a x : Nat) :
    ⦃fun w => ⌜badN cfg w.trace = false⌝⦄ execResultPath cfg tl a x ⦃keepOk cfg⦄ := by
  have h1 := shouldClassifyResult_k cfg x
  have h2 := handleSuccessAttemptEnd_k cfg tl a x
  have h3 := fun c => execResultFailure_k cfg tl a x c
  have h4 := fun ok val n ns => buildOutcome_k cfg ok val n ns
  mvcgen [execResultPath, h1, h2, h3, h4]
  all_goals (try clear h1 h2 h3 h4)
  k_finish

theorem execPre_k (cfg : Cfg) (tl : Bool) (a : Nat) :
    ⦃fun w => ⌜badN cfg w.trace = false⌝⦄ execPre cfg tl a ⦃keepOk cfg⦄ := by
  have h1 := fun n => checkAbort_k cfg tl n
  have h2 := callAttemptStart_k cfg a
  have h3 := invokeOp_k cfg a
  mvcgen [execPre, modifyAS, h1, h2, h3]
  all_goals (try clear h1 h2 h3)
  k_finish

theorem execHandler_k (cfg : Cfg) (tl : Bool) (a : Nat) (e : Exn) :
    ⦃fun w => ⌜badN cfg w.trace = false⌝⦄ execHandler cfg tl a e ⦃keepOk cfg⦄ := by
  have h3 := execAbortExit_k cfg tl a e
  have h4 := execExceptionPath_k cfg tl a e
  mvcgen [execHandler, h3, h4]
  all_goals (try clear h3 h4)
  k_finish

theorem execReturnedHandler_k (cfg : Cfg) (tl : Bool) (a : Nat) (e : Exn) :
    ⦃fun w => ⌜badN cfg w.trace = false⌝⦄ execReturnedHandler cfg tl a e ⦃keepOk cfg⦄ := by
  have h3 := execAbortExit_k cfg tl a e
  mvcgen [execReturnedHandler, h3]
  all_goals (try clear h3)
  k_finish

theorem execAttempt_k (cfg : Cfg) (tl : Bool) (a : Nat) :
    ⦃fun w => ⌜badN cfg w.trace = false⌝⦄ execAttempt cfg tl a ⦃keepOk cfg⦄ := by
  have h1 := execPre_k cfg tl a
  have h2 := fun x => execResultPath_k cfg tl a x
  have h3 := fun e => execHandler_k cfg tl a e
  have h4 := fun e => execReturnedHandler_k cfg tl a e
  mvcgen [execAttempt, h1, h2, h3, h4]
  all_goals (try clear h1 h2 h3 h4)
  k_finish

theorem execLoop_k (cfg : Cfg) (tl : Bool) : ∀ (fuel a : Nat),
    ⦃fun w => ⌜badN cfg w.trace = false⌝⦄ execLoop cfg tl fuel a ⦃keepOk cfg⦄ := by
  intro fuel
  induction fuel with
  | zero =>
    intro a
    have h1 := buildExhaustedOutcome_k cfg tl
    mvcgen [execLoop, h1]
  | succ f ih =>
    intro a
    have h1 := execAttempt_k cfg tl a
    have h2 := ih (a + 1)
    mvcgen [execLoop, h1, h2]

theorem runExecute_k (cfg : Cfg) :
    ⦃fun w => ⌜badN cfg w.trace = false⌝⦄ runExecute cfg ⦃keepOk cfg⦄ := by
  have h2 := execLoop_k cfg cfg.timeline cfg.maxAttempts 1
  mvcgen [runExecute, initState, h2]


/-! ### policy level: nothing around the loop calls the sleeper -/
open Policy

theorem withFinally_spec {α : Type} {x : M α} {fin : M Unit} {P : World → Prop} {Qv : α → World → Prop}
    {Qe : Exn → World → Prop}
    (hx : ⦃fun w => ⌜P w⌝⦄ x ⦃post⟨fun a w => ⌜Qv a w⌝, fun e w => ⌜Qe e w⌝⟩⦄)
    (hv : ∀ a, ⦃fun w => ⌜Qv a w⌝⦄ fin ⦃post⟨fun _ w => ⌜Qv a w⌝, fun e w => ⌜Qe e w⌝⟩⦄)
    (he : ∀ e, ⦃fun w => ⌜Qe e w⌝⦄ fin ⦃post⟨fun _ w => ⌜Qe e w⌝, fun e' w => ⌜Qe e' w⌝⟩⦄) :
    ⦃fun w => ⌜P w⌝⦄ withFinally x fin ⦃post⟨fun a w => ⌜Qv a w⌝, fun e w => ⌜Qe e w⌝⟩⦄ := by
  apply triple_of_run
  intro w hp
  have h1 := adequacy hx w hp
  simp only [withFinally, EStateM.run, bind, EStateM.bind, tryCatch, tryCatchThe, MonadExceptOf.tryCatch,
    EStateM.tryCatch, throw, throwThe, MonadExceptOf.throw, EStateM.throw, pure, EStateM.pure, restore_dummy] at h1 ⊢
  cases hxr : x w with
  | ok a w1 =>
    simp only [hxr] at h1 ⊢
    have h2 := adequacy (hv a) w1 h1
    simp only [EStateM.run] at h2
    cases hf : fin w1 with
    | ok u w2 => simp only [hf] at h2 ⊢; exact h2
    | error e' w2 => simp only [hf] at h2 ⊢; exact h2
  | error e w1 =>
    simp only [hxr] at h1 ⊢
    have h2 := adequacy (he e) w1 h1
    simp only [EStateM.run] at h2 ⊢
    cases hf : fin w1 with
    | ok u w2 => simp only [hf] at h2 ⊢; exact h2
    | error e' w2 => simp only [hf] at h2 ⊢; exact h2

section policyLeaves
variable (cfg : Cfg)

theorem recordCancel_k : ⦃fun w => ⌜badN cfg w.trace = false⌝⦄ Policy.recordCancel cfg ⦃keepOk cfg⦄ :=
  okK cfg (fun w0 => recordCancel_foot nsK w0 rfl cfg)

theorem recordSuccess_k : ⦃fun w => ⌜badN cfg w.trace = false⌝⦄ Policy.recordSuccess cfg ⦃keepOk cfg⦄ :=
  okK cfg (fun w0 => recordSuccess_foot nsK w0 rfl rfl rfl cfg)

theorem recordFailure_k (k : EClass) :
    ⦃fun w => ⌜badN cfg w.trace = false⌝⦄ Policy.recordFailure cfg k ⦃keepOk cfg⦄ :=
  okK cfg (fun w0 => recordFailure_foot nsK w0 rfl rfl rfl cfg k)

theorem handleAbortCall_k (e : Exn) :
    ⦃fun w => ⌜badN cfg w.trace = false⌝⦄ handleAbortCall cfg e ⦃keepOk cfg⦄ :=
  okK cfg (fun w0 => handleAbortCall_foot nsK w0 rfl rfl cfg e)

theorem handleExhaustedCall_k (e : Exn) :
    ⦃fun w => ⌜badN cfg w.trace = false⌝⦄ handleExhaustedCall cfg e ⦃keepOk cfg⦄ :=
  okK cfg (fun w0 => handleExhaustedCall_foot nsK w0 rfl rfl rfl cfg e)

theorem handleExceptionCall_k (e : Exn) (onEnd : Bool) :
    ⦃fun w => ⌜badN cfg w.trace = false⌝⦄ handleExceptionCall cfg e onEnd ⦃keepOk cfg⦄ :=
  okK cfg (fun w0 => handleExceptionCall_foot nsK w0 rfl rfl rfl rfl rfl cfg e onEnd)

theorem ensureSettled_k : ⦃fun w => ⌜badN cfg w.trace = false⌝⦄ ensureSettled cfg ⦃keepOk cfg⦄ :=
  okK cfg (fun w0 => ensureSettled_foot nsK w0 rfl cfg)

theorem initCtx_k : ⦃fun w => ⌜badN cfg w.trace = false⌝⦄ initCtx ⦃keepOk cfg⦄ :=
  okK cfg (fun w0 => initCtx_foot nsK w0)

theorem checkBreaker_k : ⦃fun w => ⌜badN cfg w.trace = false⌝⦄ checkBreaker cfg ⦃keepOk cfg⦄ :=
  okK cfg (fun w0 => checkBreaker_foot nsK w0 rfl rfl rfl cfg)

theorem breakerAllow_k (bc : Breaker.Cfg) :
    ⦃fun w => ⌜badN cfg w.trace = false⌝⦄ breakerAllow bc ⦃keepOk cfg⦄ :=
  okK cfg (fun w0 => breakerAllow_foot nsK w0 rfl bc)

theorem emitBreakerEvent_k (ev : Option Event) (st : CState) (k : Option EClass) :
    ⦃fun w => ⌜badN cfg w.trace = false⌝⦄ emitBreakerEvent cfg ev st k ⦃keepOk cfg⦄ :=
  okK cfg (fun w0 => emitBreakerEvent_foot nsK w0 rfl rfl cfg ev st k)

theorem policyOutcome_k (ok : Bool) (value : Option Nat) (stop : Option StopReason) (attempts : Nat)
    (lc : Option EClass) (le : Option String) (cause : Option Cause) :
    ⦃fun w => ⌜badN cfg w.trace = false⌝⦄ policyOutcome ok value stop attempts lc le cause ⦃keepOk cfg⦄ :=
  okK cfg (fun w0 => policyOutcome_foot nsK w0 ok value stop attempts lc le cause)

theorem checkAbortNoRetry_k : ⦃fun w => ⌜badN cfg w.trace = false⌝⦄ checkAbortNoRetry cfg ⦃keepOk cfg⦄ :=
  okK cfg (fun w0 => checkAbortNoRetry_foot nsK w0 rfl rfl cfg)

theorem noRetryStartHook_k : ⦃fun w => ⌜badN cfg w.trace = false⌝⦄ noRetryStartHook cfg ⦃keepOk cfg⦄ :=
  okK cfg (fun w0 => noRetryStartHook_foot nsK w0 rfl cfg)

theorem noRetryEndHook_k (exc : Option Exn) (r : Option Nat) (d : AttemptDecision) (stop : Option StopReason)
    (cause : Option Cause) :
    ⦃fun w => ⌜badN cfg w.trace = false⌝⦄ noRetryEndHook cfg exc r d stop cause ⦃keepOk cfg⦄ :=
  okK cfg (fun w0 => noRetryEndHook_foot nsK w0 rfl cfg exc r d stop cause)

end policyLeaves

/-- the `except` ladder of `Policy.call` -/
theorem callLadder_k (cfg : Cfg) (e : Exn) :
    ⦃fun w => ⌜badN cfg w.trace = false⌝⦄ callLadder cfg e ⦃keepOk cfg⦄ := by
  have h1 := recordCancel_k cfg
  have h2 := handleAbortCall_k cfg e
  have h3 := handleExhaustedCall_k cfg e
  have h4 := handleExceptionCall_k cfg e true
  mvcgen [callLadder, h1, h2, h3, h4]

theorem executeLadder_k (cfg : Cfg) (e : Exn) :
    ⦃fun w => ⌜badN cfg w.trace = false⌝⦄ executeLadder cfg e ⦃keepOk cfg⦄ := by
  have h1 := recordCancel_k cfg
  have h3 := handleExhaustedCall_k cfg e
  have h4 := handleExceptionCall_k cfg e false
  mvcgen [executeLadder, h1, h3, h4]

theorem callWithoutRetry_k (cfg : Cfg) :
    ⦃fun w => ⌜badN cfg w.trace = false⌝⦄ callWithoutRetry cfg ⦃keepOk cfg⦄ := by
  have h1 := noRetryStartHook_k cfg
  have h2 := invokeOp_k cfg 1
  have h3 := fun x => noRetryEndHook_k cfg none (some x) .success none none
  mvcgen [callWithoutRetry, h1, h2, h3]

theorem callAdmitted_k (cfg : Cfg) :
    ⦃fun w => ⌜badN cfg w.trace = false⌝⦄ callAdmitted cfg ⦃keepOk cfg⦄ := by
  have h1 := checkBreaker_k cfg
  have h2 := runCall_k cfg
  have h3 := recordSuccess_k cfg
  have h4 := fun e => callLadder_k cfg e
  have h5 := checkAbortNoRetry_k cfg
  have h6 := callWithoutRetry_k cfg
  mvcgen [callAdmitted, h1, h2, h3, h4, h5, h6]
  all_goals (try clear h1 h2 h3 h4 h5 h6)
  k_finish

/-- `Policy.call` / `AsyncPolicy.call`, with or without a retry component -/
theorem call_k (cfg : Cfg) : ⦃fun w => ⌜badN cfg w.trace = false⌝⦄ Policy.call cfg ⦃keepOk cfg⦄ := by
  have h1 := initCtx_k cfg
  have h2 := withFinally_spec (callAdmitted_k cfg) (fun _ => ensureSettled_k cfg) (fun _ => ensureSettled_k cfg)
  mvcgen [Policy.call, h1, h2]

theorem executeWithRetry_k (cfg : Cfg) :
    ⦃fun w => ⌜badN cfg w.trace = false⌝⦄ executeWithRetry cfg ⦃keepOk cfg⦄ := by
  have h1 := runExecute_k cfg
  have h2 := fun e => executeLadder_k cfg e
  have h3 := recordSuccess_k cfg
  have h4 := recordCancel_k cfg
  have h5 := fun k => recordFailure_k cfg k
  mvcgen [executeWithRetry, h1, h2, h3, h4, h5]
  all_goals (try clear h1 h2 h3 h4 h5)
  k_finish

theorem noRetryLadder_k (cfg : Cfg) (invoked : Bool) (e : Exn) :
    ⦃fun w => ⌜badN cfg w.trace = false⌝⦄ noRetryLadder cfg invoked e ⦃keepOk cfg⦄ := by
  have h1 := recordCancel_k cfg
  have h2 := fun exc r d st c => noRetryEndHook_k cfg exc r d st c
  have h3 := fun a1 a2 a3 a4 a5 a6 a7 => policyOutcome_k cfg a1 a2 a3 a4 a5 a6 a7
  have h4 := fun k => recordFailure_k cfg k
  mvcgen [noRetryLadder, h1, h2, h3, h4]
  all_goals (try clear h1 h2 h3 h4)
  k_finish

theorem executeWithoutRetry_k (cfg : Cfg) :
    ⦃fun w => ⌜badN cfg w.trace = false⌝⦄ executeWithoutRetry cfg ⦃keepOk cfg⦄ := by
  have h1 := noRetryStartHook_k cfg
  have h2 := fun b e => noRetryLadder_k cfg b e
  have h3 := invokeOp_k cfg 1
  have h4 := recordSuccess_k cfg
  have h5 := fun exc r d st c => noRetryEndHook_k cfg exc r d st c
  have h6 := fun a1 a2 a3 a4 a5 a6 a7 => policyOutcome_k cfg a1 a2 a3 a4 a5 a6 a7
  mvcgen [executeWithoutRetry, h1, h2, h3, h4, h5, h6]
  all_goals (try clear h1 h2 h3 h4 h5 h6)
  k_finish

theorem executeAdmitted2_k (cfg : Cfg) :
    ⦃fun w => ⌜badN cfg w.trace = false⌝⦄ executeAdmitted2 cfg ⦃keepOk cfg⦄ := by
  have h1 := executeWithRetry_k cfg
  have h2 := executeWithoutRetry_k cfg
  have h3 := checkAbortNoRetry_k cfg
  have h4 := fun a1 a2 a3 a4 a5 a6 a7 => policyOutcome_k cfg a1 a2 a3 a4 a5 a6 a7
  mvcgen [executeAdmitted2, h1, h2, h3, h4]
  all_goals (try clear h1 h2 h3 h4)
  k_finish

theorem executeAdmitted_k (cfg : Cfg) :
    ⦃fun w => ⌜badN cfg w.trace = false⌝⦄ executeAdmitted cfg ⦃keepOk cfg⦄ := by
  have h1 := executeAdmitted2_k cfg
  have h2 := fun bc => breakerAllow_k cfg bc
  have h3 := fun ev st k => emitBreakerEvent_k cfg ev st k
  have h4 := fun a1 a2 a3 a4 a5 a6 a7 => policyOutcome_k cfg a1 a2 a3 a4 a5 a6 a7
  mvcgen [executeAdmitted, h1, h2, h3, h4]
  all_goals (try clear h1 h2 h3 h4)
  k_finish

/-- `Policy.execute` / `AsyncPolicy.execute`, with or without a retry component -/
theorem execute_k (cfg : Cfg) : ⦃fun w => ⌜badN cfg w.trace = false⌝⦄ Policy.execute cfg ⦃keepOk cfg⦄ := by
  have h1 := initCtx_k cfg
  have h2 := withFinally_spec (executeAdmitted_k cfg) (fun _ => ensureSettled_k cfg) (fun _ => ensureSettled_k cfg)
  mvcgen [Policy.execute, h1, h2]

/-! ### the theorems -/

def startWorld (w : World) : World := { w with trace := [], timeline := [], opCalls := 0 }

/-- in every run of every entry point (with or without a retry component), no sleep starts without a
    fresh poll -/
theorem never_bad (cfg : Cfg) (e : Entry) (w : World) : badN cfg (runEntry cfg e w).2.trace = false := by
  cases e with
  | call =>
    have := adequacy (runCall_k cfg) (startWorld w) rfl
    simp only [runEntry, startWorld] at this ⊢
    split at this <;> rename_i heq <;> simp only [heq, toRes] <;> exact this
  | execute =>
    have := adequacy (runExecute_k cfg) (startWorld w) rfl
    simp only [runEntry, startWorld] at this ⊢
    split at this <;> rename_i heq <;> simp only [heq, toResO] <;> exact this
  | pcall =>
    have := adequacy (call_k cfg) (startWorld w) rfl
    simp only [runEntry, startWorld] at this ⊢
    split at this <;> rename_i heq <;> simp only [heq, toRes] <;> exact this
  | pexecute =>
    have := adequacy (execute_k cfg) (startWorld w) rfl
    simp only [runEntry, startWorld] at this ⊢
    split at this <;> rename_i heq <;> simp only [heq, toResO] <;> exact this

/--
**C13, fresh poll (tight).**  For every configuration, every entry point and every world: in the run's
log, between a `.sleeper` exchange and the last `abort_if` poll before it there is nothing but the sleep
handler and the before-sleep hook — in particular the poll was made after the strategy computed the
delay, after the budget was consulted and after the `retry` event was reported.
-/
theorem poll_tight_hold (cfg : Cfg) (e : Entry) (w : World) :
    Mon.C13.pollFreshTight cfg e (runEntry cfg e w).2.trace.reverse (runEntry cfg e w).1 = true := by
  have := never_bad cfg e w
  simp only [badN] at this
  simp only [pollFreshTight, pollFreshR, run_reverse, this, Bool.not_false, Bool.or_true]

/-- **C13, fresh poll (late).**  …the poll that precedes a sleep was made after the strategy, the budget
    and the `retry` event's metric / log hooks. -/
theorem poll_late_hold (cfg : Cfg) (e : Entry) (w : World) :
    Mon.C13.pollFreshLate cfg e (runEntry cfg e w).2.trace.reverse (runEntry cfg e w).1 = true :=
  pollFreshR_mono grantReq_tight cfg e _ _ (poll_tight_hold cfg e w)

/-- **C13, fresh poll.**  Every backoff sleep is preceded by an abort poll made AFTER the delay of that
    retry was computed. -/
theorem poll_fresh_hold (cfg : Cfg) (e : Entry) (w : World) :
    Mon.C13.pollFresh cfg e (runEntry cfg e w).2.trace.reverse (runEntry cfg e w).1 = true := by
  rw [pollFresh_eq]
  exact pollFreshR_mono stratReq_grant cfg e _ _ (poll_late_hold cfg e w)

/-- …and therefore of every call in every script of calls and clock advances on ONE policy object. -/
theorem poll_fresh_hold_script (cfg : Cfg) : ∀ (steps : List Step) (w : World),
    ∀ l ∈ (runScript cfg steps w).1, Mon.C13.pollFresh cfg l.entry l.trace l.res = true := by
  intro steps
  induction steps with
  | nil => intro w l hl; simp [runScript] at hl
  | cons st rest ih =>
    intro w l hl
    cases st with
    | advance d => exact ih _ l (by simpa [runScript] using hl)
    | run e =>
      simp only [runScript, List.mem_cons] at hl
      rcases hl with rfl | hl
      · exact poll_fresh_hold cfg e w
      · exact ih _ l hl

theorem poll_tight_hold_script (cfg : Cfg) : ∀ (steps : List Step) (w : World),
    ∀ l ∈ (runScript cfg steps w).1, Mon.C13.pollFreshTight cfg l.entry l.trace l.res = true := by
  intro steps
  induction steps with
  | nil => intro w l hl; simp [runScript] at hl
  | cons st rest ih =>
    intro w l hl
    cases st with
    | advance d => exact ih _ l (by simpa [runScript] using hl)
    | run e =>
      simp only [runScript, List.mem_cons] at hl
      rcases hl with rfl | hl
      · exact poll_tight_hold cfg e w
      · exact ih _ l hl


/-! ### the monitors can say no (tests, not theorems) -/

def ctxE : BackoffCtx := ⟨1, .transient, none, none, 60, .exception⟩
def ctxR : BackoffCtx := ⟨1, .transient, none, none, 60, .result⟩

/-- the dropped-second-poll shape (exception path): the only poll after the attempt precedes the strategy -/
def dropped : Trace :=
  [(.abortIf, .bool false 0), (.op 1, .raise (.ordinary 0 .transient) 0),
   (.classify "o0", .klass ⟨.transient, none⟩ 0), (.abortIf, .bool false 0),
   (.strategy .default .ctx ctxE, .delay (.fin 5) 0), (.sleeper .dflt 5, .unit 5)]

/-- the same log with the poll the library makes right before the sleep -/
def kept : Trace :=
  [(.abortIf, .bool false 0), (.op 1, .raise (.ordinary 0 .transient) 0),
   (.classify "o0", .klass ⟨.transient, none⟩ 0), (.abortIf, .bool false 0),
   (.strategy .default .ctx ctxE, .delay (.fin 5) 0), (.abortIf, .bool false 0), (.sleeper .dflt 5, .unit 5)]

/-- `Mon.C13.ok`'s fold sees nothing wrong with the dropped poll … -/
example : (Mon.C13.run { abortIf := true } dropped).bad = false := by decide

/-- … `pollFresh` does -/
example : Mon.C13.pollFresh { abortIf := true } .call dropped (.raised .keyboardInterrupt) = false := by decide

example : Mon.C13.pollFresh { abortIf := true } .call kept (.raised .keyboardInterrupt) = true := by decide

example : Mon.C13.pollFreshTight { abortIf := true } .call kept (.raised .keyboardInterrupt) = true := by decide

/-- the literal five-exchange shape (no poll before the attempt: `Mon.C13.ok` objects to THAT, so it is
    shown for `pollFresh` only) -/
example : Mon.C13.pollFresh { abortIf := true } .call
    [(.op 1, .raise (.ordinary 0 .transient) 0), (.classify "o0", .klass ⟨.transient, none⟩ 0),
     (.abortIf, .bool false 0), (.strategy .default .ctx ctxE, .delay (.fin 5) 0), (.sleeper .dflt 5, .unit 5)]
    (.raised .keyboardInterrupt) = false := by decide

example : Mon.C13.pollFresh { abortIf := true } .call
    [(.op 1, .raise (.ordinary 0 .transient) 0), (.classify "o0", .klass ⟨.transient, none⟩ 0),
     (.abortIf, .bool false 0), (.strategy .default .ctx ctxE, .delay (.fin 5) 0), (.abortIf, .bool false 0),
     (.sleeper .dflt 5, .unit 5)]
    (.raised .keyboardInterrupt) = true := by decide

/-- the result-classifier path (where the library polls twice after the operation returned), a whole
    run: `Mon.C13.ok` ACCEPTS the log without the second poll, `pollFresh` rejects it -/
def droppedR : Trace :=
  [(.abortIf, .bool false 0), (.op 1, .value 5 0), (.resultClassify 5, .klass ⟨.transient, none⟩ 0),
   (.abortIf, .bool false 0), (.strategy .default .ctx ctxR, .delay (.fin 5) 0), (.sleeper .dflt 5, .unit 5),
   (.abortIf, .bool false 0), (.op 2, .value 7 0), (.resultClassify 7, .noFailure 0)]

def keptR : Trace :=
  [(.abortIf, .bool false 0), (.op 1, .value 5 0), (.resultClassify 5, .klass ⟨.transient, none⟩ 0),
   (.abortIf, .bool false 0), (.strategy .default .ctx ctxR, .delay (.fin 5) 0), (.abortIf, .bool false 0),
   (.sleeper .dflt 5, .unit 5),
   (.abortIf, .bool false 0), (.op 2, .value 7 0), (.resultClassify 7, .noFailure 0)]

example : Mon.C13.ok { abortIf := true, resultClassifier := true } .call droppedR (.ret 7) = true := by decide

example : Mon.C13.pollFresh { abortIf := true, resultClassifier := true } .call droppedR (.ret 7) = false := by
  decide

example : Mon.C13.pollFresh { abortIf := true, resultClassifier := true } .call keptR (.ret 7) = true := by decide

/-- the model makes the second poll: the result-classifier path polls between the verdict and the
    recording of the failure, and again after the strategy (the sleeper is then interrupted) -/
example :
    (runEntry { abortIf := true, resultClassifier := true } .call
      { answers := [.bool false 0, .value 5 0, .klass ⟨.transient, none⟩ 0, .bool false 0, .delay (.fin 5) 0,
                    .bool false 0, .raise .keyboardInterrupt 0] }).2.trace.reverse.map (·.1.kind)
      = [.abortIf, .op, .resultClassify, .abortIf, .strategy, .abortIf, .sleeper] := by decide

/-- …and with everything switched on the order of a granted retry in the model is: strategy, budget, the
    `retry` event's metric and log hooks, THE POLL, the sleep handler, the before-sleep hook, the sleeper -/
example :
    (runEntry { abortIf := true, metric := true, log := true, budget := some { maxRetries := 3, window := 100 },
                cHandler := true, cBeforeSleep := true } .call
      { answers := [.bool false 0, .raise (.ordinary 0 .transient) 0, .bool false 0, .klass ⟨.transient, none⟩ 0,
                    .delay (.fin 5) 0, .unit 0, .unit 0, .bool false 0, .decision .sleep 0, .unit 0,
                    .raise .keyboardInterrupt 0] }).2.trace.reverse.map (·.1.kind)
      = [.abortIf, .op, .abortIf, .classify, .strategy, .budgetConsume, .metric, .log, .abortIf, .sleepHandler,
         .beforeSleep, .sleeper] := by decide

/-- the later resets are strictly stronger: a poll made after the strategy but BEFORE the `retry` event is
    fresh for `pollFresh`, stale for `pollFreshLate` … -/
example :
    let t : Trace :=
      [(.abortIf, .bool false 0), (.op 1, .raise (.ordinary 0 .transient) 0),
       (.classify "o0", .klass ⟨.transient, none⟩ 0), (.strategy .default .ctx ctxE, .delay (.fin 5) 0),
       (.abortIf, .bool false 0), (.metric .retry 1 5 {}, .unit 0), (.sleeper .dflt 5, .unit 5)]
    Mon.C13.pollFresh { abortIf := true, metric := true } .call t (.raised .keyboardInterrupt) = true ∧
    Mon.C13.pollFreshLate { abortIf := true, metric := true } .call t (.raised .keyboardInterrupt) = false := by
  decide

/-- … and one followed by anything but the sleep handler / the before-sleep hook is stale for
    `pollFreshTight` only -/
example :
    let t : Trace :=
      [(.abortIf, .bool false 0), (.op 1, .raise (.ordinary 0 .transient) 0),
       (.classify "o0", .klass ⟨.transient, none⟩ 0), (.strategy .default .ctx ctxE, .delay (.fin 5) 0),
       (.abortIf, .bool false 0), (.attemptEnd { attempt := 1, elapsed := 0 }, .unit 0), (.sleeper .dflt 5, .unit 5)]
    Mon.C13.pollFreshLate { abortIf := true } .call t (.raised .keyboardInterrupt) = true ∧
    Mon.C13.pollFreshTight { abortIf := true } .call t (.raised .keyboardInterrupt) = false := by
  decide

/-- accepted by all three: the handler and the hook between the poll and the sleep -/
example :
    Mon.C13.pollFreshTight { abortIf := true, cHandler := true, cBeforeSleep := true } .call
      [(.abortIf, .bool false 0), (.op 1, .raise (.ordinary 0 .transient) 0),
       (.classify "o0", .klass ⟨.transient, none⟩ 0), (.strategy .default .ctx ctxE, .delay (.fin 5) 0),
       (.abortIf, .bool false 0), (.sleepHandler .call ctxE 5, .decision .sleep 0),
       (.beforeSleep .call ctxE 5, .unit 0), (.sleeper .dflt 5, .unit 5)]
      (.raised .keyboardInterrupt) = true := by decide

/-- without `abort_if` there is nothing to poll -/
example : Mon.C13.pollFreshTight {} .call
    [(.op 1, .raise (.ordinary 0 .transient) 0), (.classify "o0", .klass ⟨.transient, none⟩ 0),
     (.strategy .default .ctx ctxE, .delay (.fin 5) 0), (.sleeper .dflt 5, .unit 5)]
    (.raised .keyboardInterrupt) = true := by decide


end Redress.Props.C13Poll

#print axioms Redress.Props.C13Poll.poll_fresh_hold
#print axioms Redress.Props.C13Poll.poll_fresh_hold_script
#print axioms Redress.Props.C13Poll.poll_late_hold
#print axioms Redress.Props.C13Poll.poll_tight_hold
#print axioms Redress.Props.C13Poll.poll_tight_hold_script
