/-
  C05 — Backoff delay = the failure class's strategy output, sanitised and capped.

  Theorems are about `Mon.C05.ok` and its five conjuncts (`selectedOk`, `argsAreOk`, `countOk`,
  `sleeperOk`, `flowOk`), the monitors the driver also evaluates on implementation traces: for EVERY
  configuration, EVERY answer stream (outcome sequences, strategy outputs incl. nan/±inf/negatives,
  durations, callback faults — attempt hooks included) and every entry point, the monitor accepts the
  model's run.  No hypotheses.

  Structure (as in C01): the monitor as a fold over the world's log (`cur`, with the breaker-admission
  prelude dropped), a view (`view`: monitor minus its clock, clock offset, `start`, `prev_sleep`,
  `last_exc`), leaf specs from the request-level footprints of `Lemmas/Footprint.lean` (`FX.*`), the
  invariants `Top` / `Rel` / `PC` / `Granted`, one Hoare spec per procedure, induction on fuel for the
  loops, the policy wrappers, adequacy.
-/
import Redress.Lemmas.Footprint
import Redress.Monitors

open Std.Do

namespace Redress.Props.C05
open Redress Redress.Retry Redress.Mon Redress.Mon.C05 Redress.FX

/-! ### the monitor as a function of the world's (newest-first) log -/

/-- `step`, preceded by "drop the breaker-admission prelude": the flag says whether the retry clock runs -/
def stepF (cfg : Cfg) (p : Bool × St) (x : Req × Ans) : Bool × St :=
  if !p.1 && isPrelude x.1 then p else (true, step cfg p.2 x)

def cur (cfg : Cfg) (tr : List (Req × Ans)) : Bool × St := tr.foldr (fun x p => stepF cfg p x) (false, {})

@[simp] theorem cur_cons (cfg : Cfg) (x : Req × Ans) (t : List (Req × Ans)) :
    cur cfg (x :: t) = stepF cfg (cur cfg t) x := rfl

theorem foldl_stepF_started (cfg : Cfg) (t : List (Req × Ans)) (s : St) :
    t.foldl (stepF cfg) (true, s) = (true, t.foldl (step cfg) s) := by
  induction t generalizing s with
  | nil => rfl
  | cons x t ih => simp [List.foldl, stepF, ih]

theorem foldl_stepF_retryTrace (cfg : Cfg) (t : List (Req × Ans)) :
    (t.foldl (stepF cfg) (false, {})).2 = run cfg (retryTrace t) := by
  induction t with
  | nil => rfl
  | cons x t ih =>
    by_cases hp : isPrelude x.1 = true
    · simp [List.foldl, stepF, hp, retryTrace, List.dropWhile] at ih ⊢
      exact ih
    · simp [List.foldl, stepF, hp, retryTrace, List.dropWhile, foldl_stepF_started, run]

theorem run_retryTrace (cfg : Cfg) (t : List (Req × Ans)) :
    run cfg (retryTrace t.reverse) = (cur cfg t).2 := by
  rw [← foldl_stepF_retryTrace, List.foldl_reverse]
  rfl

/-- a request that is not part of the prelude always moves the monitor -/
theorem stepF_of_not_prelude (cfg : Cfg) (p : Bool × St) (x : Req × Ans) (h : isPrelude x.1 = false) :
    stepF cfg p x = (true, step cfg p.2 x) := by
  simp [stepF, h]

/-! ### requests that only let time pass -/

/-- Requests that leave the monitor alone but for its clock, while the sanitised delay of the current
    attempt is `d` and `one` says that exactly one strategy call was made in it. -/
def inert (d : Option Nat) (one : Bool) : Req → Bool
  | .op _ | .classify _ | .resultClassify _ | .strategy .. | .budgetConsume | .breakerAllow => false
  | .metric ev _ sl _ => !isBreakerEv ev && (ev != .retry || (d == some sl && one))
  | .log ev _ sl _ _ => !isBreakerEv ev && (ev != .retry || (d == some sl && one))
  | .sleepHandler _ _ x => d == some x && one
  | .beforeSleep _ _ x => d == some x && one
  | .sleeper _ x => d == some x && one
  | _ => true

theorem inert_not_prelude {d : Option Nat} {one : Bool} {r : Req} (h : inert d one r = true) :
    isPrelude r = false := by
  cases r <;> simp_all [inert, isPrelude]

theorem consume_fresh (s : St) (d : Nat) (hd : s.delay = some d) (h1 : s.strats = 1) : consume s d = s := by
  cases s
  simp_all [consume]

theorem step_inert (cfg : Cfg) (s : St) (x : Req × Ans) (h : inert s.delay (s.strats == 1) x.1 = true) :
    step cfg s x = { s with now := s.now + x.2.dur } := by
  obtain ⟨r, a⟩ := x
  cases r <;> simp_all [inert, step, consume]
  all_goals (intro he; rcases h.2 with h2 | h2 <;> simp_all)

/-- the monitor over exchanges that are all inert: only its clock moves -/
theorem cur_append_inert (cfg : Cfg) (δ t : List (Req × Ans)) (d : Option Nat) (one : Bool)
    (hd : (cur cfg t).2.delay = d) (h1 : ((cur cfg t).2.strats == 1) = one)
    (h : ∀ x ∈ δ, inert d one x.1 = true) (hne : δ ≠ [] ∨ (cur cfg t).1 = true) :
    cur cfg (δ ++ t) = (true, { (cur cfg t).2 with now := (cur cfg t).2.now + durSum δ }) := by
  induction δ with
  | nil =>
    rcases hne with hne | hne
    · exact absurd rfl hne
    · simp [durSum, ← hne]
  | cons x δ ih =>
    have hx := h x (by simp)
    have hδ : ∀ y ∈ δ, inert d one y.1 = true := fun y hy => h y (by simp [hy])
    simp only [List.cons_append, cur_cons]
    rw [stepF_of_not_prelude _ _ _ (inert_not_prelude hx)]
    by_cases hnil : δ = []
    · subst hnil
      simp only [List.nil_append]
      rw [step_inert _ _ _ (by rw [hd, h1]; exact hx)]
      simp [durSum]
    · rw [ih hδ (Or.inl hnil)]
      simp only
      rw [step_inert _ _ _ (by simp only; rw [hd, h1]; exact hx)]
      simp [durSum]; omega

/-! ### the view -/

/-- what the C05 argument looks at: the monitor with its clock factored out, the offset between the
    world's clock and the monitor's, and three fields of `_RetryState` -/
structure View where
  mon : St
  off : Int
  start : Nat
  prev : Option Nat
  lastExc : Option Exn

def mon (cfg : Cfg) (w : World) : St := (cur cfg w.trace).2

def view (cfg : Cfg) (w : World) : View :=
  ⟨{ mon cfg w with now := 0 }, (w.now : Int) - (mon cfg w).now, w.rs.start, w.rs.prevSleep, w.rs.lastExc⟩

/-- the kind set that is inert in view `v` -/
abbrev inertV (v : View) : Req → Bool := inert v.mon.delay (v.mon.strats == 1)

theorem view_fx (cfg : Cfg) (w w' : World) (v : View) (hv : view cfg w = v)
    (h : FootXS (inertV v) w w') : view cfg w' = v := by
  obtain ⟨δ, e, k, t⟩ := h.trace
  subst hv
  have h1 : w'.rs.start = w.rs.start := by have := congrArg RState.start h.rs; simpa using this
  have h2 : w'.rs.prevSleep = w.rs.prevSleep := by have := congrArg RState.prevSleep h.rs; simpa using this
  have h3 : w'.rs.lastExc = w.rs.lastExc := by have := congrArg RState.lastExc h.rs; simpa using this
  by_cases hnil : δ = []
  · subst hnil
    simp only [view, mon, e, List.nil_append, h1, h2, h3, t, durSum]
    simp
  · have := cur_append_inert cfg δ w.trace _ _ rfl rfl (by simpa [inertV, view, mon] using k) (Or.inl hnil)
    simp only [view, mon, e, this, h1, h2, h3, t]
    simp
    omega

/-! ### where a `RetryExhaustedError` comes from -/

/-- some callback raised `e` -/
abbrev raisedAny (tr : List (Req × Ans)) (e : Exn) : Bool := Mon.raisedBy (fun _ => true) tr e

/-- a `RetryExhaustedError` object that does not come from the library's own `raise` statements was
    raised by a callback -/
def srcOk (e : Exn) (tr : List (Req × Ans)) : Bool :=
  match e with
  | .libExhausted _ => raisedAny tr e
  | _ => true

theorem raisedAny_append (δ t : List (Req × Ans)) (e : Exn) (h : raisedAny t e = true) :
    raisedAny (δ ++ t) e = true := by
  simp_all [raisedAny, raisedBy]

theorem raisedAny_of_raisedIn {δ : List (Req × Ans)} {e : Exn} (t : List (Req × Ans)) (h : raisedIn e δ) :
    raisedAny (δ ++ t) e = true := by
  obtain ⟨r, d, hm, _⟩ := h
  simp only [raisedAny, raisedBy, List.any_append, Bool.or_eq_true, List.any_eq_true]
  exact Or.inl ⟨(r, Ans.raise e d), hm, by simp⟩

theorem srcOk_append (δ t : List (Req × Ans)) (e : Exn) (h : srcOk e t = true) : srcOk e (δ ++ t) = true := by
  cases e <;> simp_all [srcOk]
  exact raisedAny_append _ _ _ h

theorem srcOk_of_prov {e : Exn} {w w' : World} (h : Prov e w w') : srcOk e w'.trace = true := by
  rcases h with rfl | ⟨δ, e₁, hr⟩
  · rfl
  · cases e <;> simp [srcOk]
    rw [e₁]
    exact raisedAny_of_raisedIn _ hr

/-- errors that are not `RetryExhaustedError`s made by the library -/
def notExh (e : Exn) : Prop := srcOk e [] = true

theorem srcOk_of_notExh {e : Exn} (h : notExh e) (tr : List (Req × Ans)) : srcOk e tr = true := by
  cases e <;> simp_all [notExh, srcOk, raisedAny, raisedBy]

/-! ### leaf procedures: the view is unchanged; an exception has a known source -/

/-- "the view is `v`" on both exits; the exception has a source -/
abbrev same (cfg : Cfg) (v : View) : PostCond α (.except Exn (.arg World .pure)) :=
  post⟨fun _ w => ⌜view cfg w = v⌝, fun e w => ⌜view cfg w = v ∧ srcOk e w.trace = true⌝⟩

theorem srcOk_of_src {Own : Exn → Prop} {e : Exn} {w w' : World} (hown : ∀ e, Own e → notExh e)
    (h : Own e ∨ Prov e w w') : srcOk e w'.trace = true :=
  h.elim (fun ho => srcOk_of_notExh (hown e ho) _) srcOk_of_prov

theorem same_of_fx {x : M α} (cfg : Cfg) (v : View) {Own : Exn → Prop}
    (hx : ∀ w0, ⦃fun w => ⌜FootX (inertV v) w0 w⌝⦄ x ⦃fxPost (inertV v) w0 Own⦄)
    (hown : ∀ e, Own e → notExh e) :
    ⦃fun w => ⌜view cfg w = v⌝⦄ x ⦃same cfg v⦄ := by
  apply triple_of_run
  intro w hw
  have := adequacy (hx w) w (FootX.refl w)
  split <;> simp_all
  · exact view_fx cfg _ _ v hw this.toS
  · exact ⟨view_fx cfg _ _ v hw this.foot.toS, srcOk_of_src hown this.src⟩

theorem same_of_fxs {x : M α} (cfg : Cfg) (v : View) {Own : Exn → Prop}
    (hx : ∀ w0, ⦃fun w => ⌜FootXS (inertV v) w0 w⌝⦄ x ⦃fxsPost (inertV v) w0 Own⦄)
    (hown : ∀ e, Own e → notExh e) :
    ⦃fun w => ⌜view cfg w = v⌝⦄ x ⦃same cfg v⦄ := by
  apply triple_of_run
  intro w hw
  have := adequacy (hx w) w (FootXS.refl w)
  split <;> simp_all
  · exact view_fx cfg _ _ v hw this
  · exact ⟨view_fx cfg _ _ v hw this.foot, srcOk_of_src hown this.src⟩

/-- …keeping what the footprint lemma says about the returned value -/
theorem same_of_fx' {x : M α} (cfg : Cfg) (v : View) {Own : Exn → Prop} {R : α → World → Prop}
    (hx : ∀ w0, ⦃fun w => ⌜FootX (inertV v) w0 w⌝⦄ x
      ⦃post⟨fun a w => ⌜R a w ∧ FootX (inertV v) w0 w⌝, fun e w => ⌜ExcX (inertV v) Own w0 w e⌝⟩⦄)
    (hown : ∀ e, Own e → notExh e) :
    ⦃fun w => ⌜view cfg w = v⌝⦄ x
    ⦃post⟨fun a w => ⌜R a w ∧ view cfg w = v⌝, fun e w => ⌜view cfg w = v ∧ srcOk e w.trace = true⌝⟩⦄ := by
  apply triple_of_run
  intro w hw
  have := adequacy (hx w) w (FootX.refl w)
  split <;> simp_all
  · exact view_fx cfg _ _ v hw this.2.toS
  · exact ⟨view_fx cfg _ _ v hw this.foot.toS, srcOk_of_src hown this.src⟩

theorem same_of_fxs' {x : M α} (cfg : Cfg) (v : View) {Own : Exn → Prop} {R : α → World → Prop}
    (hx : ∀ w0, ⦃fun w => ⌜FootXS (inertV v) w0 w⌝⦄ x
      ⦃post⟨fun a w => ⌜R a w ∧ FootXS (inertV v) w0 w⌝, fun e w => ⌜ExcS (inertV v) Own w0 w e⌝⟩⦄)
    (hown : ∀ e, Own e → notExh e) :
    ⦃fun w => ⌜view cfg w = v⌝⦄ x
    ⦃post⟨fun a w => ⌜R a w ∧ view cfg w = v⌝, fun e w => ⌜view cfg w = v ∧ srcOk e w.trace = true⌝⟩⦄ := by
  apply triple_of_run
  intro w hw
  have := adequacy (hx w) w (FootXS.refl w)
  split <;> simp_all
  · exact view_fx cfg _ _ v hw this.2
  · exact ⟨view_fx cfg _ _ v hw this.foot, srcOk_of_src hown this.src⟩

section leaves
variable (cfg : Cfg) (v : View) (tl : Bool)

theorem inert_metric {d : Option Nat} {one : Bool} (ev : Event) (a s : Nat) (t : Tags)
    (hb : isBreakerEv ev = false) (hr : ev ≠ .retry ∨ (d = some s ∧ one = true)) :
    inert d one (.metric ev a s t) = true := by
  rcases hr with hr | ⟨rfl, rfl⟩ <;> simp_all [inert]

theorem inert_log {d : Option Nat} {one : Bool} (ev : Event) (a s : Nat) (t : Tags) (ra : Option Int)
    (hb : isBreakerEv ev = false) (hr : ev ≠ .retry ∨ (d = some s ∧ one = true)) :
    inert d one (.log ev a s t ra) = true := by
  rcases hr with hr | ⟨rfl, rfl⟩ <;> simp_all [inert]

/-- the delay `s` is the fresh one in view `v` -/
def Fresh (v : View) (s : Nat) : Prop := v.mon.delay = some s ∧ v.mon.strats = 1

theorem emit_v (ev : Event) (a s : Nat) (k : Option EClass) (e : Option Exn) (st : Option StopReason)
    (c : Option Cause) (cl : Option Classification) (hb : isBreakerEv ev = false)
    (hr : ev ≠ .retry ∨ Fresh v s) :
    ⦃fun w => ⌜view cfg w = v⌝⦄ emit cfg tl ev a s k e st c cl ⦃same cfg v⦄ :=
  same_of_fx cfg v (fun w0 => emit_fx _ w0 cfg tl ev a s k e st c cl
    (fun t => inert_metric ev a s t hb (by simpa [Fresh] using hr))
    (fun t ra => inert_log ev a s t ra hb (by simpa [Fresh] using hr))) (fun _ h => h.elim)

theorem checkAbort_v (a : Nat) : ⦃fun w => ⌜view cfg w = v⌝⦄ checkAbort cfg tl a ⦃same cfg v⦄ :=
  same_of_fxs cfg v (fun w0 => checkAbort_fx _ w0 cfg tl a rfl (fun _ => rfl) (fun _ _ => rfl))
    (fun e h => by subst h; rfl)

theorem stopWith_v (sr : StopReason) (ev : Event) (a : Nat) (k : EClass) (e : Option Exn) (c : Cause)
    (hb : isBreakerEv ev = false) (hr : ev ≠ .retry) :
    ⦃fun w => ⌜view cfg w = v⌝⦄ stopWith cfg tl sr ev a k e c
    ⦃post⟨fun d w => ⌜d = .raise ∧ view cfg w = v⌝, fun e w => ⌜view cfg w = v ∧ srcOk e w.trace = true⌝⟩⦄ :=
  same_of_fxs' cfg v (fun w0 => stopWith_fx _ w0 cfg tl sr ev a k e c
    (fun t => inert_metric ev a 0 t hb (Or.inl hr)) (fun t ra => inert_log ev a 0 t ra hb (Or.inl hr)))
    (fun _ h => h.elim)

theorem recordStrategySuccess_v : ⦃fun w => ⌜view cfg w = v⌝⦄ recordStrategySuccess cfg ⦃same cfg v⦄ :=
  same_of_fx cfg v (fun w0 => recordStrategySuccess_fx _ w0 cfg (fun _ => rfl)) (fun _ h => h.elim)

theorem stratRecordFailure_v (key : SKey) (k : EClass) :
    ⦃fun w => ⌜view cfg w = v⌝⦄ stratRecordFailure cfg key k ⦃same cfg v⦄ :=
  same_of_fx cfg v (fun w0 => stratRecordFailure_fx _ w0 cfg key k rfl) (fun _ h => h.elim)

theorem callAttemptStart_v (a : Nat) : ⦃fun w => ⌜view cfg w = v⌝⦄ callAttemptStart cfg a ⦃same cfg v⦄ :=
  same_of_fx cfg v (fun w0 => callAttemptStart_fx _ w0 cfg a (fun _ => rfl)) (fun _ h => h.elim)

theorem callAttemptEndFromOutcome_v (a : Nat) (o : AOutcome) :
    ⦃fun w => ⌜view cfg w = v⌝⦄ callAttemptEndFromOutcome cfg a o ⦃same cfg v⦄ :=
  same_of_fx cfg v (fun w0 => callAttemptEndFromOutcome_fx _ w0 cfg a o (fun _ => rfl)) (fun _ h => h.elim)

theorem callBeforeSleep_v (ctx : BackoffCtx) (s : Nat) (hf : Fresh v s) :
    ⦃fun w => ⌜view cfg w = v⌝⦄ callBeforeSleep cfg ctx s ⦃same cfg v⦄ :=
  same_of_fx cfg v (fun w0 => callBeforeSleep_fx _ w0 cfg ctx s (fun _ => by simp [inert, hf.1, hf.2]))
    (fun _ h => h.elim)

theorem callSleeper_v (s : Nat) (hf : Fresh v s) :
    ⦃fun w => ⌜view cfg w = v⌝⦄ callSleeper cfg s ⦃same cfg v⦄ :=
  same_of_fx cfg v (fun w0 => callSleeper_fx _ w0 cfg s (fun _ => by simp [inert, hf.1, hf.2]))
    (fun _ h => h.elim)

theorem callSleepHandler_v (lvl : Lvl) (ctx : BackoffCtx) (s : Nat) (hf : Fresh v s) :
    ⦃fun w => ⌜view cfg w = v⌝⦄ callSleepHandler lvl ctx s ⦃same cfg v⦄ :=
  same_of_fx cfg v (fun w0 => callSleepHandler_fx _ w0 lvl ctx s (by simp [inert, hf.1, hf.2]))
    (fun _ h => h.elim)

theorem buildOutcome_v (ok : Bool) (value : Option Nat) (n : Nat) (ns : Option Nat) :
    ⦃fun w => ⌜view cfg w = v⌝⦄ buildOutcome ok value n ns
    ⦃post⟨fun o w => ⌜o.nextSleep = ns ∧ view cfg w = v⌝, fun e w => ⌜view cfg w = v ∧ srcOk e w.trace = true⌝⟩⦄ := by
  have := same_of_fx' cfg v (fun w0 => buildOutcome_fx (inertV v) w0 ok value n ns) (fun _ h => h.elim)
  exact Triple.entails_wp_of_post this (by simp_all)

theorem emitAbortedOnce_v (a : Nat) : ⦃fun w => ⌜view cfg w = v⌝⦄ emitAbortedOnce cfg tl a ⦃same cfg v⦄ := by
  have := same_of_fxs' cfg v (fun w0 => emitAbortedOnce_fx (inertV v) w0 cfg tl a (fun _ => rfl) (fun _ _ => rfl))
    (fun _ h => h.elim)
  exact Triple.entails_wp_of_post this (by simp_all)

theorem abortOutcome_v (a : Nat) :
    ⦃fun w => ⌜view cfg w = v⌝⦄ abortOutcome cfg tl a
    ⦃post⟨fun o w => ⌜o.nextSleep = none ∧ view cfg w = v⌝, fun e w => ⌜view cfg w = v ∧ srcOk e w.trace = true⌝⟩⦄ := by
  have := same_of_fxs' cfg v (fun w0 => abortOutcome_fx (inertV v) w0 cfg tl a (fun _ => rfl) (fun _ _ => rfl))
    (fun _ h => h.elim)
  exact Triple.entails_wp_of_post this (by simp_all)

theorem handleSleepDecision_v (act : SleepDecision) (a s : Nat) :
    ⦃fun w => ⌜view cfg w = v⌝⦄ handleSleepDecision cfg tl act a s
    ⦃post⟨fun r w => ⌜(r = act ∧ act ≠ .other) ∧ view cfg w = v⌝,
          fun e w => ⌜view cfg w = v ∧ srcOk e w.trace = true⌝⟩⦄ := by
  have := same_of_fxs' cfg v (fun w0 => handleSleepDecision_fx (inertV v) w0 cfg tl act a s
    (fun _ => rfl) (fun _ _ => rfl) (fun _ => rfl) (fun _ _ => rfl)) (fun e h => by rw [h.1]; rfl)
  exact Triple.entails_wp_of_post this (by simp_all)

theorem handleSuccessAttemptEnd_v (a x : Nat) :
    ⦃fun w => ⌜view cfg w = v⌝⦄ handleSuccessAttemptEnd cfg tl a x ⦃same cfg v⦄ :=
  same_of_fx cfg v (fun w0 => handleSuccessAttemptEnd_fx _ w0 cfg tl a x (fun _ => rfl) (fun _ _ => rfl)
    (fun _ => rfl) (fun _ => rfl)) (fun _ h => h.elim)

theorem handleAbortAttemptEnd_v (a : Nat) (e : Exn) :
    ⦃fun w => ⌜view cfg w = v⌝⦄ handleAbortAttemptEnd cfg a e ⦃same cfg v⦄ :=
  same_of_fx cfg v (fun w0 => handleAbortAttemptEnd_fx _ w0 cfg a e (fun _ => rfl)) (fun _ h => h.elim)

theorem buildExhaustedOutcome_v :
    ⦃fun w => ⌜view cfg w = v⌝⦄ buildExhaustedOutcome cfg tl
    ⦃post⟨fun o w => ⌜o.nextSleep = none ∧ view cfg w = v⌝, fun e w => ⌜view cfg w = v ∧ srcOk e w.trace = true⌝⟩⦄ :=
  same_of_fxs' cfg v (fun w0 => buildExhaustedOutcome_fx _ w0 cfg tl (fun _ => rfl) (fun _ _ => rfl))
    (fun _ h => h.elim)

theorem setStop_v (sr : StopReason) : ⦃fun w => ⌜view cfg w = v⌝⦄ setStop sr ⦃same cfg v⦄ := by
  have := same_of_fxs' cfg v (fun w0 => setStop_fx (inertV v) w0 sr) (fun _ h => h.elim)
  exact Triple.entails_wp_of_post this (by simp_all)

end leaves

/-! ### the requests that move the monitor -/

theorem step_now (cfg : Cfg) (s : St) (x : Req × Ans) : (step cfg s x).now = s.now + x.2.dur := by
  obtain ⟨r, a⟩ := x
  cases r <;> simp [step, consume, stratStep, clsStep] <;> (repeat' split) <;> simp

/-- the monitor after an `op` request (whatever the answer) -/
def opStep (m : St) : St := { m with att := m.att + 1, opSince := true, strats := 0 }

/-- the view as a function of the three things it depends on -/
def viewOf (cfg : Cfg) (tr : List (Req × Ans)) (now : Nat) (rs : RState) : View :=
  ⟨{ (cur cfg tr).2 with now := 0 }, (now : Int) - (cur cfg tr).2.now, rs.start, rs.prevSleep, rs.lastExc⟩

theorem view_eq_viewOf (cfg : Cfg) (w : World) : view cfg w = viewOf cfg w.trace w.now w.rs := rfl

/-- the view after one exchange on a request that is not part of the prelude -/
theorem view_step (cfg : Cfg) (w' : World) (r : Req) (a : Ans) (tr : List (Req × Ans)) (now : Nat) (rs : RState)
    (hnp : isPrelude r = false) (ht : w'.trace = (r, a) :: tr) (hn : w'.now = now + a.dur) (hrs : w'.rs = rs) :
    view cfg w' = { viewOf cfg tr now rs with mon := { step cfg (cur cfg tr).2 (r, a) with now := 0 } } := by
  simp only [view, viewOf, mon, ht, hn, hrs, cur_cons, stepF_of_not_prelude cfg _ (r, a) hnp, step_now]
  simp
  omega

theorem viewOf_step (cfg : Cfg) (r : Req) (a : Ans) (tr : List (Req × Ans)) (now : Nat) (rs : RState)
    (hnp : isPrelude r = false) :
    viewOf cfg ((r, a) :: tr) (now + a.dur) rs
      = { viewOf cfg tr now rs with mon := { step cfg (cur cfg tr).2 (r, a) with now := 0 } } := by
  simp only [viewOf, cur_cons, stepF_of_not_prelude cfg _ (r, a) hnp, step_now]
  simp
  omega

theorem srcOk_cons_raise (r : Req) (e : Exn) (d : Nat) (tr : List (Req × Ans)) :
    srcOk e ((r, Ans.raise e d) :: tr) = true := by
  cases e <;> simp [srcOk, raisedAny, raisedBy]

theorem step_op_z (cfg : Cfg) (m : St) (n : Nat) (a : Ans) :
    { step cfg m (.op n, a) with now := 0 } = opStep { m with now := 0 } := by
  simp [step, opStep]

theorem invokeOp_spec (cfg : Cfg) (v : View) (a : Nat) :
    ⦃fun w => ⌜view cfg w = v⌝⦄ invokeOp a
    ⦃post⟨fun _ w => ⌜view cfg w = { v with mon := opStep v.mon }⌝,
          fun e w => ⌜view cfg w = { v with mon := opStep v.mon } ∧ srcOk e w.trace = true⌝⟩⦄ := by
  mvcgen [invokeOp, ask]
  all_goals (subst_vars; intros)
  all_goals first
    | exact (view_step cfg _ _ _ _ _ _ rfl rfl rfl rfl).trans (by rw [step_op_z]; rfl)
    | exact ⟨(view_step cfg _ _ _ _ _ _ rfl rfl rfl rfl).trans (by rw [step_op_z]; rfl),
        by first | exact srcOk_cons_raise _ _ _ _ | rfl⟩

theorem step_classify_z (cfg : Cfg) (m : St) (x : String) (c : Classification) (d : Nat) :
    { step cfg m (.classify x, .klass c d) with now := 0 } = clsStep { m with now := 0 } c .exception := by
  simp only [step, clsStep]
  split <;> rfl

theorem step_resultClassify_z (cfg : Cfg) (m : St) (x : Nat) (c : Classification) (d : Nat) :
    { step cfg m (.resultClassify x, .klass c d) with now := 0 } = clsStep { m with now := 0 } c .result := by
  simp only [step, clsStep]
  split <;> rfl

theorem step_classify_other (cfg : Cfg) (m : St) (x : String) (a : Ans) (h : ∀ c d, a ≠ .klass c d) :
    { step cfg m (.classify x, a) with now := 0 } = { m with now := 0 } := by
  cases a <;> simp_all [step]

theorem step_resultClassify_other (cfg : Cfg) (m : St) (x : Nat) (a : Ans) (h : ∀ c d, a ≠ .klass c d) :
    { step cfg m (.resultClassify x, a) with now := 0 } = { m with now := 0 } := by
  cases a <;> simp_all [step]

theorem callClassifier_spec (cfg : Cfg) (v : View) (e : Exn) :
    ⦃fun w => ⌜view cfg w = v⌝⦄ callClassifier e
    ⦃post⟨fun c w => ⌜view cfg w = { v with mon := clsStep v.mon c .exception }⌝,
          fun e' w => ⌜view cfg w = v ∧ srcOk e' w.trace = true⌝⟩⦄ := by
  mvcgen [callClassifier, ask]
  all_goals (subst_vars; intros)
  all_goals first
    | exact (view_step cfg _ _ _ _ _ _ rfl rfl rfl rfl).trans (by rw [step_classify_z]; rfl)
    | exact ⟨(view_step cfg _ _ _ _ _ _ rfl rfl rfl rfl).trans
          (by rw [step_classify_other _ _ _ _ (by intros; simp_all)]; rfl),
        by first | exact srcOk_cons_raise _ _ _ _ | rfl⟩

theorem shouldClassifyResult_spec (cfg : Cfg) (v : View) (x : Nat) :
    ⦃fun w => ⌜view cfg w = v⌝⦄ shouldClassifyResult cfg x
    ⦃post⟨fun r w => ⌜match r with
                      | none => view cfg w = v
                      | some c => view cfg w = { v with mon := clsStep v.mon c .result }⌝,
          fun e' w => ⌜view cfg w = v ∧ srcOk e' w.trace = true⌝⟩⦄ := by
  mvcgen [shouldClassifyResult, ask]
  all_goals (subst_vars; intros)
  all_goals first
    | rfl
    | exact (view_step cfg _ _ _ _ _ _ rfl rfl rfl rfl).trans (by rw [step_resultClassify_z]; rfl)
    | exact (view_step cfg _ _ _ _ _ _ rfl rfl rfl rfl).trans
          (by rw [step_resultClassify_other _ _ _ _ (by intros; simp_all)]; rfl)
    | exact ⟨(view_step cfg _ _ _ _ _ _ rfl rfl rfl rfl).trans
          (by rw [step_resultClassify_other _ _ _ _ (by intros; simp_all)]; rfl),
        by first | exact srcOk_cons_raise _ _ _ _ | rfl⟩

/-! ### the invariants -/

/-- no violation so far -/
structure Clean (m : St) : Prop where
  sel : m.badSel = false
  args : m.badArgs = false
  count : m.badCount = false
  sleep : m.badSleep = false
  flow : m.badFlow = false

/-- what holds at every point of the loop: the monitor's clock is the runner's (`state.elapsed()`),
    its "previously applied delay" is `state.prev_sleep`, and the stored last exception is not a
    `RetryExhaustedError` -/
structure Core (v : View) : Prop where
  clean : Clean v.mon
  time : v.off = v.start
  prev : v.mon.prev = v.prev
  exc : ∀ e, v.lastExc = some e → e.isExhausted = false

/-- at the top of iteration `a` -/
structure Top (a : Nat) (v : View) : Prop where
  core : Core v
  att : v.mon.att + 1 = a
  ops : v.mon.opSince = false

/-- the number the current attempt has / will get at its failure classification -/
def attNext (m : St) : Nat := if m.opSince then m.att else m.att + 1

/-- inside iteration `a`, before the failure (if any) is classified -/
structure Rel (a : Nat) (v : View) : Prop where
  core : Core v
  next : attNext v.mon = a
  fresh : v.mon.opSince = true → v.mon.strats = 0

/-- after the failure of attempt `a` was classified as `c` -/
structure PC (a : Nat) (c : Classification) (cause : Cause) (v : View) : Prop where
  core : Core v
  att : v.mon.att = a
  ops : v.mon.opSince = false
  strats : v.mon.strats = 0
  cls : v.mon.lastCls = some c
  cause : v.mon.lastCause = cause

/-- after a retry with delay `s` was granted in attempt `a` -/
structure Granted (a s : Nat) (v : View) : Prop where
  core : Core v
  att : v.mon.att = a
  ops : v.mon.opSince = false
  fresh : Fresh v s

theorem Top.rel {a : Nat} {v : View} (h : Top a v) : Rel a v :=
  ⟨h.core, by simp [attNext, h.ops, h.att], by simp [h.ops]⟩

theorem Rel.op {a : Nat} {v : View} (h : Top a v) : Rel a { v with mon := opStep v.mon } :=
  ⟨⟨⟨h.core.clean.sel, h.core.clean.args, h.core.clean.count, h.core.clean.sleep, h.core.clean.flow⟩,
    h.core.time, h.core.prev, h.core.exc⟩, by simp [attNext, opStep, h.att], by simp [opStep]⟩

theorem Rel.cls {a : Nat} {v : View} (h : Rel a v) (c : Classification) (cause : Cause) :
    PC a c cause { v with mon := clsStep v.mon c cause } := by
  have hn := h.next
  have hf := h.fresh
  have hc := h.core
  have hcore : Core { v with mon := clsStep v.mon c cause } := by
    refine ⟨⟨?_, ?_, ?_, ?_, ?_⟩, hc.time, ?_, hc.exc⟩ <;> unfold clsStep <;> split <;>
      first | exact hc.clean.sel | exact hc.clean.args | exact hc.clean.count | exact hc.clean.sleep
            | exact hc.clean.flow | exact hc.prev
  unfold attNext at hn
  refine ⟨hcore, ?_, ?_, ?_, ?_, ?_⟩ <;> unfold clsStep <;> cases ho : v.mon.opSince <;> simp_all

theorem Granted.top {a s : Nat} {v : View} (h : Granted a s v) : Top (a + 1) v :=
  ⟨h.core, by rw [h.att], h.ops⟩

/-! ### the strategy call -/

/-- what the strategy's answer makes the delay -/
def delayOf (a : Ans) (rem : Nat) : Option Nat :=
  match a with
  | .delay out _ => some (Retry.sanitize out rem)
  | _ => none

/-- the monitor after a strategy call that was asked exactly what the property says and made the delay `d` -/
def stratOut (cfg : Cfg) (m : St) (d : Option Nat) : St :=
  { m with strats := 1, delay := d, prev := if cfg.budget.isNone && d.isSome then d else m.prev }

theorem step_strategy_ok (cfg : Cfg) (m : St) (key : SKey) (kind : SKind) (ans : Ans) (a : Nat)
    (c : Classification) (cause : Cause) (rem : Nat)
    (hatt : m.att = a) (hcls : m.lastCls = some c) (hcause : m.lastCause = cause) (hstr : m.strats = 0)
    (hsel : cfg.selectStrategy c.klass = some (key, kind)) (ht : rem + m.now = cfg.deadline) (hpos : 0 < rem)
    (hsel' : m.badSel = false) (hargs : m.badArgs = false) (hcount : m.badCount = false) :
    { step cfg m (.strategy key kind { attempt := a, klass := c.klass, retryAfter := c.retryAfter, prev := m.prev,
                                         remaining := rem, cause := cause }, ans) with now := 0 }
      = stratOut cfg { m with now := 0 } (delayOf ans rem) := by
  have hrem : cfg.deadline - m.now = rem := by omega
  simp [step, stratStep, stratOut, selOk, argsOk, hatt, hcls, hcause, hstr, hsel, ht, hpos, hrem, delayOf,
    Mon.C05.sanitize, hsel', hargs, hcount]
  cases ans <;> simp

/-- split every hypothesis that is a conjunction -/
macro "split_ands" : tactic => `(tactic| repeat (revert ‹_ ∧ _›; rintro ⟨_, _⟩))

theorem view_strategy (cfg : Cfg) (s : World) (key : SKey) (kind : SKind) (a : Nat) (c : Classification)
    (cause : Cause) (rem : Nat) (ans : Ans) (hp : PC a c cause (view cfg s))
    (hsel : cfg.selectStrategy c.klass = some (key, kind)) (hpos : 0 < rem)
    (ht : s.now - s.rs.start + rem = cfg.deadline) :
    viewOf cfg ((.strategy key kind { attempt := a, klass := c.klass, retryAfter := c.retryAfter,
                                      prev := (view cfg s).prev, remaining := rem, cause := cause }, ans)
                  :: s.trace) (s.now + ans.dur) s.rs
      = { view cfg s with mon := stratOut cfg (view cfg s).mon (delayOf ans rem) } := by
  rw [viewOf_step cfg _ ans s.trace s.now s.rs rfl]
  have hprev : (view cfg s).prev = (mon cfg s).prev := hp.core.prev.symm
  have htime := hp.core.time
  rw [hprev]
  have key := step_strategy_ok cfg (mon cfg s) key kind ans a c cause rem hp.att hp.cls hp.cause hp.strats hsel
    (by simp only [view, mon] at htime ⊢; omega) hpos hp.core.clean.sel hp.core.clean.args hp.core.clean.count
  show ({ viewOf cfg s.trace s.now s.rs with mon := { step cfg (mon cfg s) _ with now := 0 } } : View) = _
  rw [key]
  rfl

theorem callStrategy_spec (cfg : Cfg) (key : SKey) (kind : SKind) (ctx : BackoffCtx) (a : Nat)
    (c : Classification) (cause : Cause) (rem : Nat) (v : View) (hp : PC a c cause v)
    (hsel : cfg.selectStrategy c.klass = some (key, kind)) (hpos : 0 < rem)
    (hctx : ctx = { attempt := a, klass := c.klass, retryAfter := c.retryAfter, prev := v.prev,
                    remaining := rem, cause := cause }) :
    ⦃fun w => ⌜view cfg w = v ∧ w.now - w.rs.start + rem = cfg.deadline⌝⦄
    callStrategy key kind ctx
    ⦃post⟨fun out w => ⌜view cfg w = { v with mon := stratOut cfg v.mon (some (Retry.sanitize out rem)) }⌝,
          fun e' w => ⌜view cfg w = { v with mon := stratOut cfg v.mon none } ∧ srcOk e' w.trace = true⌝⟩⦄ := by
  mvcgen [callStrategy, ask]
  all_goals (split_ands; subst_vars; intros)
  all_goals first
    | exact view_strategy cfg _ key kind a c cause rem _ hp hsel hpos (by assumption)
    | exact ⟨view_strategy cfg _ key kind a c cause rem _ hp hsel hpos (by assumption),
        by first | exact srcOk_cons_raise _ _ _ _ | rfl⟩
    | (refine ⟨(view_strategy cfg _ key kind a c cause rem _ hp hsel hpos (by assumption)).trans ?_,
        by first | exact srcOk_cons_raise _ _ _ _ | rfl⟩
       rename_i x _ _ _ _
       cases x <;> simp_all [delayOf])

/-- the monitor after the budget's verdict -/
def budStep (cfg : Cfg) (m : St) (g : Bool) : St :=
  if cfg.budget.isSome then
    (if g then { m with prev := m.delay, badCount := m.badCount || !(m.strats == 1) }
     else { m with badCount := m.badCount || !(m.strats == 1) })
  else m

theorem step_budget_z (cfg : Cfg) (m : St) (g : Bool) :
    { step cfg m (.budgetConsume, .granted g) with now := 0 } =
      if g then { m with now := 0, prev := m.delay, badCount := m.badCount || !(m.strats == 1) }
      else { m with now := 0, badCount := m.badCount || !(m.strats == 1) } := by
  cases g <;> simp [step, Ans.dur]

theorem budgetConsume_spec (cfg : Cfg) (v : View) :
    ⦃fun w => ⌜view cfg w = v⌝⦄ budgetConsume cfg
    ⦃post⟨fun g w => ⌜(cfg.budget = none → g = true) ∧ view cfg w = { v with mon := budStep cfg v.mon g }⌝,
          fun _ _ => ⌜False⌝⟩⦄ := by
  mvcgen [budgetConsume]
  all_goals (subst_vars; intros)
  · simp_all [budStep]
  · rename_i bc hb s
    refine ⟨by simp [hb], ?_⟩
    refine (viewOf_step cfg .budgetConsume (.granted (Budget.consume bc s.budget s.now).1) s.trace s.now s.rs rfl).trans ?_
    rw [step_budget_z]
    simp only [budStep, hb]
    cases (Budget.consume bc s.budget s.now).1 <;> rfl

theorem PC.stratNone {cfg : Cfg} {a : Nat} {c : Classification} {cause : Cause} {v : View} (h : PC a c cause v) :
    Core { v with mon := stratOut cfg v.mon none } := by
  have hc := h.core
  exact ⟨⟨hc.clean.sel, hc.clean.args, hc.clean.count, hc.clean.sleep, hc.clean.flow⟩, hc.time,
    by simpa [stratOut] using hc.prev, hc.exc⟩

theorem PC.granted {cfg : Cfg} {a : Nat} {c : Classification} {cause : Cause} {v : View} (h : PC a c cause v)
    (sl : Nat) :
    Granted a sl { v with mon := budStep cfg (stratOut cfg v.mon (some sl)) true, prev := some sl } := by
  have hc := h.core
  refine ⟨⟨⟨?_, ?_, ?_, ?_, ?_⟩, hc.time, ?_, hc.exc⟩, ?_, ?_, ?_, ?_⟩ <;>
    cases hb : cfg.budget <;> simp [budStep, stratOut, hb, hc.clean.sel, hc.clean.args, hc.clean.count,
      hc.clean.sleep, hc.clean.flow, h.att, h.ops, Fresh]

theorem PC.denied {cfg : Cfg} {a : Nat} {c : Classification} {cause : Cause} {v : View} (h : PC a c cause v)
    (sl : Nat) (hb : cfg.budget ≠ none) :
    Core { v with mon := budStep cfg (stratOut cfg v.mon (some sl)) false } := by
  have hc := h.core
  refine ⟨⟨?_, ?_, ?_, ?_, ?_⟩, hc.time, ?_, hc.exc⟩ <;>
    cases hb' : cfg.budget <;> simp_all [budStep, stratOut, hc.clean.sel, hc.clean.args, hc.clean.count,
      hc.clean.sleep, hc.clean.flow, hc.prev]

theorem view_setPrev (cfg : Cfg) (w : World) (p : Option Nat) :
    view cfg { w with rs := { w.rs with prevSleep := p } } = { view cfg w with prev := p } := rfl

/-- what a failed attempt leaves behind: the verdict so far; and when a retry was granted, its delay is
    the fresh one -/
abbrev failPost (cfg : Cfg) (a : Nat) : PostCond Decision (.except Exn (.arg World .pure)) :=
  post⟨fun d w => ⌜Core (view cfg w) ∧ (∀ s ctx, d = .retry s ctx → Fresh (view cfg w) s) ∧
                    (d ≠ .raise → Top (a + 1) (view cfg w))⌝,
       fun e' w => ⌜Core (view cfg w) ∧ srcOk e' w.trace = true⌝⟩

theorem grantRetry_spec (cfg : Cfg) (tl : Bool) (c : Classification) (a : Nat) (cause : Cause) (e : Option Exn)
    (key : SKey) (kind : SKind) (rem : Nat) (v : View) (hp : PC a c cause v)
    (hsel : cfg.selectStrategy c.klass = some (key, kind)) (hpos : 0 < rem) :
    ⦃fun w => ⌜view cfg w = v ∧ w.now - w.rs.start + rem = cfg.deadline⌝⦄
    grantRetry cfg tl c a cause e key kind rem ⦃failPost cfg a⦄ := by
  have hcs := fun ctx hctx => callStrategy_spec cfg key kind ctx a c cause rem v hp hsel hpos hctx
  have hbc := budgetConsume_spec cfg
  have hemit := fun v sl k ex cs cl hf => emit_v cfg v tl .retry a sl k ex none cs cl rfl (Or.inr hf)
  have hstop := fun v => stopWith_v cfg v tl .budgetExhausted .budgetExhausted a c.klass e cause rfl (by simp)
  mvcgen [grantRetry, getRS, modifyRS, hcs, hbc, hemit, hstop]
  all_goals (clear hcs hbc hemit hstop; split_ands; subst_vars)
  all_goals (
    have hg := fun sl => hp.granted (cfg := cfg) sl
    have hgf := fun sl => (hp.granted (cfg := cfg) sl).fresh
    have hgc := fun sl => (hp.granted (cfg := cfg) sl).core
    have hgt := fun sl => (hp.granted (cfg := cfg) sl).top
    have hd := fun sl hb => hp.denied (cfg := cfg) sl hb
    have hn := hp.stratNone (cfg := cfg)
    intros)
  case vc1.hctx => rfl
  all_goals (simp_all +zetaDelta [view_setPrev]; done)

theorem view_setLastStrategy (cfg : Cfg) (w : World) (k : Option SKey) :
    view cfg { w with rs := { w.rs with lastStrategy := k } } = view cfg w := rfl

theorem view_recordFailure (cfg : Cfg) (w : World) (a : Option EClass) (b : Option Classification)
    (c : Option Cause) (d : Option Exn) (e : Option Nat) :
    view cfg { w with rs := { w.rs with lastClass := a, lastClassification := b, lastCause := c, lastExc := d,
                                        lastResult := e } } = { view cfg w with lastExc := d } := rfl

theorem view_setCounts (cfg : Cfg) (w : World) (f : EClass → Nat) :
    view cfg { w with rs := { w.rs with perClassCounts := f } } = view cfg w := rfl

theorem view_setUnknown (cfg : Cfg) (w : World) (n : Nat) :
    view cfg { w with rs := { w.rs with unknownAttempts := n } } = view cfg w := rfl

theorem view_setAs (cfg : Cfg) (w : World) (x : AState) : view cfg { w with as := x } = view cfg w := rfl

/-- the view of a world written out field by field -/
theorem view_mk (cfg : Cfg) (ans : List Ans) (now : Nat) (tr : List (Req × Ans)) (rs : RState) (as : AState)
    (att oc : Nat) (tl : List TimelineEv) (tls : Nat) (bud : Budget.St) (br : Breaker.St) (xc : XCtx)
    (sil : Bool) :
    view cfg ⟨ans, now, tr, rs, as, att, oc, tl, tls, bud, br, xc, sil⟩ = viewOf cfg tr now rs := rfl

theorem viewOf_fold (cfg : Cfg) (w : World) : viewOf cfg w.trace w.now w.rs = view cfg w := rfl

theorem viewOf_rs (cfg : Cfg) (w : World) (p : Option Nat) (le : Option Exn) (lr : Option Nat) (lc : Option EClass)
    (lcn : Option Classification) (lca : Option Cause) (ls : Option StopReason) (ua : Nat) (pc : EClass → Nat)
    (lst : Option SKey) :
    viewOf cfg w.trace w.now ⟨w.rs.start, p, le, lr, lc, lcn, lca, ls, ua, pc, lst⟩
      = { view cfg w with prev := p, lastExc := le } := rfl

theorem view_setAttempts (cfg : Cfg) (w : World) (x : Nat) : view cfg { w with attempts := x } = view cfg w := rfl

theorem view_setAsAttempts (cfg : Cfg) (w : World) (x : AState) (n : Nat) :
    view cfg { w with as := x, attempts := n } = view cfg w := rfl

/-- normalise all views and let `simp_all` do the propositional part -/
macro "c05_finish" : tactic => `(tactic| all_goals (
  (try split_ands) <;> (try subst_vars) <;> (try intros) <;>
  first
    | (simp_all +zetaDelta [view_setPrev, view_setLastStrategy, view_recordFailure, view_setCounts,
        view_setUnknown, view_setAs, view_setAttempts, view_setAsAttempts]; done)
    | omega
    | (refine ⟨?_, ?_⟩ <;> first
        | (simp_all +zetaDelta [view_setPrev, view_setLastStrategy, view_recordFailure, view_setCounts,
            view_setUnknown, view_setAs, view_setAttempts, view_setAsAttempts]; done)
        | omega)
    | skip))

theorem handleFailure2_spec (cfg : Cfg) (tl : Bool) (c : Classification) (a : Nat) (cause : Cause)
    (e : Option Exn) (v : View) (hp : PC a c cause v) :
    ⦃fun w => ⌜view cfg w = v⌝⦄ handleFailure2 cfg tl c a cause e ⦃failPost cfg a⦄ := by
  have hc := hp.core
  have hgr := fun key kind rem hsel hpos => grantRetry_spec cfg tl c a cause e key kind rem v hp hsel hpos
  have hstop := fun v sr ev hb hr => stopWith_v cfg v tl sr ev a c.klass e cause hb hr
  have hsrf := stratRecordFailure_v cfg
  mvcgen [handleFailure2, elapsed, modifyRS, hgr, hstop, hsrf]
  all_goals (try clear hgr hstop hsrf)
  c05_finish

theorem PC.setExc {a : Nat} {c : Classification} {cause : Cause} {v : View} (h : PC a c cause v)
    (x : Option Exn) (hx : ∀ e, x = some e → e.isExhausted = false) : PC a c cause { v with lastExc := x } :=
  ⟨⟨h.core.clean, h.core.time, h.core.prev, hx⟩, h.att, h.ops, h.strats, h.cls, h.cause⟩

theorem handleUnknown_spec (cfg : Cfg) (tl : Bool) (c : Classification) (a : Nat) (cause : Cause)
    (e : Option Exn) (v : View) (hp : PC a c cause v) :
    ⦃fun w => ⌜view cfg w = v⌝⦄ handleUnknown cfg tl c a cause e ⦃failPost cfg a⦄ := by
  have hc := hp.core
  have h2 := handleFailure2_spec cfg tl c a cause e v hp
  have hstop := fun v sr ev hb hr => stopWith_v cfg v tl sr ev a c.klass e cause hb hr
  mvcgen [handleUnknown, getRS, modifyRS, h2, hstop]
  all_goals (try clear h2 hstop)
  c05_finish

theorem handleFailure1_spec (cfg : Cfg) (tl : Bool) (c : Classification) (a : Nat) (cause : Cause)
    (e : Option Exn) (v : View) (hp : PC a c cause v) :
    ⦃fun w => ⌜view cfg w = v⌝⦄ handleFailure1 cfg tl c a cause e ⦃failPost cfg a⦄ := by
  have hc := hp.core
  have h2 := handleFailure2_spec cfg tl c a cause e v hp
  have hu := handleUnknown_spec cfg tl c a cause e v hp
  have hstop := fun v sr ev hb hr => stopWith_v cfg v tl sr ev a c.klass e cause hb hr
  mvcgen [handleFailure1, getRS, h2, hu, hstop]
  all_goals (try clear h2 hu hstop)
  c05_finish

theorem handleFailure_spec (cfg : Cfg) (tl : Bool) (c : Classification) (a : Nat) (cause : Cause)
    (e : Option Exn) (r : Option Nat) (v : View) (hp : PC a c cause v)
    (he : ∀ x, e = some x → x.isExhausted = false) :
    ⦃fun w => ⌜view cfg w = v⌝⦄ handleFailure cfg tl c a cause e r ⦃failPost cfg a⦄ := by
  have h1 := fun v hp => handleFailure1_spec cfg tl c a cause e v hp
  have hpe := hp.setExc e he
  have hpn := hp.setExc none (by simp)
  mvcgen [handleFailure, Retry.recordFailure, modifyRS, h1]
  all_goals (try clear h1)
  c05_finish
  all_goals (
    show PC a c cause ({ view cfg _ with lastExc := if cause = Cause.exception then e else none } : View)
    split <;> assumption)

theorem handleException_spec (cfg : Cfg) (tl : Bool) (e : Exn) (a : Nat) (u : View) (hr : Rel a u)
    (he : e.isExhausted = false) :
    ⦃fun w => ⌜view cfg w = u⌝⦄ handleException cfg tl e a ⦃failPost cfg a⦄ := by
  have hc := hr.core
  have hcl := callClassifier_spec cfg u e
  have hf := fun c => handleFailure_spec cfg tl c a .exception (some e) none _ (hr.cls c .exception)
    (by intro x hx; cases hx; exact he)
  mvcgen [handleException, hcl, hf]
  all_goals (try clear hcl hf)
  c05_finish

/-! ### sleeping -/

theorem sleepAction_spec (cfg : Cfg) (tl : Bool) (a s : Nat) (ctx : BackoffCtx) (v : View) (hf : Fresh v s) :
    ⦃fun w => ⌜view cfg w = v⌝⦄ sleepAction cfg tl a s ctx ⦃same cfg v⦄ := by
  have h1 := callBeforeSleep_v cfg v ctx s hf
  have h2 := callSleeper_v cfg v s hf
  have h3 := fun lvl => callSleepHandler_v cfg v lvl ctx s hf
  have h4 := fun act => handleSleepDecision_v cfg v tl act a s
  mvcgen [sleepAction, h1, h2, h3, h4]
  all_goals (try clear h1 h2 h3 h4)
  c05_finish

/-- the only delay an attempt outcome can carry is the one of the retry decision -/
def OSleep (d : Decision) (o : AOutcome) : Prop := ∀ x, o.sleep = some x → ∃ ctx, d = .retry x ctx

theorem finalizeAttempt_spec (cfg : Cfg) (tl : Bool) (a : Nat) (d : Decision) (act : Option SleepDecision)
    (cls : Option Classification) (e : Option Exn) (r : Option Nat) (c : Option Cause) (v : View) :
    ⦃fun w => ⌜view cfg w = v⌝⦄ finalizeAttempt cfg tl a d act cls e r c
    ⦃post⟨fun o w => ⌜((d = .raise → o.decision = .raise) ∧ OSleep d o) ∧ view cfg w = v⌝,
          fun e' w => ⌜view cfg w = v ∧ srcOk e' w.trace = true⌝⟩⦄ := by
  have h1 := fun sr => setStop_v cfg v sr
  have h2 := fun ev k ex st cs hb hr => emit_v cfg v tl ev a 0 k ex st cs none hb hr
  mvcgen [finalizeAttempt, getRS, elapsed, h1, h2]
  all_goals (try clear h1 h2)
  c05_finish
  all_goals (simp_all +zetaDelta [OSleep])

theorem failureOutcome_spec (cfg : Cfg) (tl : Bool) (a : Nat) (d : Decision) (cls : Option Classification)
    (e : Option Exn) (r : Option Nat) (c : Option Cause) (v : View)
    (hg : ∀ s ctx, d = .retry s ctx → Fresh v s) :
    ⦃fun w => ⌜view cfg w = v⌝⦄ failureOutcome cfg tl a d cls e r c
    ⦃post⟨fun o w => ⌜((d = .raise → o.decision = .raise) ∧ OSleep d o) ∧ view cfg w = v⌝,
          fun e' w => ⌜view cfg w = v ∧ srcOk e' w.trace = true⌝⟩⦄ := by
  have h1 := fun d act => finalizeAttempt_spec cfg tl a d act cls e r c v
  have h2 := fun s ctx hf => sleepAction_spec cfg tl a s ctx v hf
  mvcgen [failureOutcome, h1, h2]
  all_goals (try clear h1 h2)
  c05_finish

/-! ### how an attempt ends -/

/-- what a reported `next_sleep_s` must be, for an exception leaving the run -/
def excOk (m : St) (e : Exn) (tr : List (Req × Ans)) : Bool :=
  match e with
  | .libExhausted f => raisedAny tr e || nsOk m f.nextSleep
  | _ => true

theorem excOk_of_srcOk {m : St} {e : Exn} {tr : List (Req × Ans)} (h : srcOk e tr = true) : excOk m e tr = true := by
  cases e <;> simp_all [excOk, srcOk]

theorem excOk_of_notExh {m : St} {e : Exn} (tr : List (Req × Ans)) (h : e.isExhausted = false) :
    excOk m e tr = true := by
  cases e <;> simp_all [excOk, Exn.isExhausted]

theorem nsOk_of_fresh {v : View} {s : Nat} (h : Fresh v s) : nsOk v.mon (some s) = true := by
  simp [nsOk, h.1, h.2]

theorem determineAction_continue_iff (o : AOutcome) (r : RState) (a : Nat) (fr : Bool) :
    determineAction o r a fr = .continue_ ↔ o.decision = .retry := by
  unfold determineAction
  cases o.decision <;> cases fr <;> simp

theorem determineAction_scheduled (o : AOutcome) (r : RState) (a : Nat) (fr : Bool) (f : ExhaustedFields)
    (h : determineAction o r a fr = .scheduled f) : f.nextSleep = none ∨ f.nextSleep = o.sleep := by
  unfold determineAction at h
  cases hd : o.decision <;> cases fr <;> simp_all <;> (subst h; simp)

/-- what follows `determine_action_from_outcome` in call mode: the loop goes on exactly for a `retry`
    decision; otherwise one of the library's errors — with the outcome's delay as `next_sleep_s` — or
    the original exception is raised -/
theorem deliverCall_spec (cfg : Cfg) (o : AOutcome) (rs : RState) (a : Nat) (fr : Bool) (orig : Option Exn)
    (fb : ExhaustedFields) (v : View) (hfb : fb.nextSleep = none)
    (horig : ∀ x, orig = some x → x.isExhausted = false)
    (hs : ∀ x, o.sleep = some x → nsOk v.mon (some x) = true) :
    ⦃fun w => ⌜view cfg w = v⌝⦄ deliverCall (determineAction o rs a fr) orig fb
    ⦃post⟨fun r w => ⌜(r = none ∧ o.decision = .retry) ∧ view cfg w = v⌝,
          fun e' w => ⌜view cfg w = v ∧ excOk v.mon e' w.trace = true⌝⟩⦄ := by
  mvcgen [deliverCall]
  all_goals (subst_vars)
  · rename_i h _
    exact ⟨⟨trivial, (determineAction_continue_iff _ _ _ _).mp h⟩, rfl⟩
  · rename_i f h _
    refine ⟨rfl, ?_⟩
    rcases determineAction_scheduled _ _ _ _ _ h with h' | h'
    · simp [excOk, h', nsOk]
    · cases hx : o.sleep with
      | none => simp [excOk, h', hx, nsOk]
      | some x => simp [excOk, h', hx, hs x hx]
  · exact ⟨rfl, excOk_of_notExh _ (horig _ rfl)⟩
  · exact ⟨rfl, by simp [excOk, hfb, nsOk]⟩

theorem nsOk_of_osleep {d : Decision} {o : AOutcome} {v : View} (ho : OSleep d o)
    (hf : ∀ s ctx, d = .retry s ctx → Fresh v s) : ∀ x, o.sleep = some x → nsOk v.mon (some x) = true := by
  intro x hx
  obtain ⟨ctx, hd⟩ := ho x hx
  exact nsOk_of_fresh (hf x ctx hd)

theorem excOk_of_abort {m : St} {e : Exn} (tr : List (Req × Ans)) (h : e.isAbort = true) :
    excOk m e tr = true := by
  cases e <;> simp_all [excOk, Exn.isAbort]

theorem nsOk_none (m : St) : nsOk m none = true := rfl

theorem top_of_continue {α : Type} {d : Decision} {o : AOutcome} {r : Option α} {n : Nat} {v : View}
    (h1 : r = none → o.decision = .retry) (h2 : d = .raise → o.decision = .raise)
    (h3 : d ≠ .raise → Top n v) : r = none → Top n v := by
  intro hn
  apply h3
  intro hd
  have := h2 hd
  rw [h1 hn] at this
  cases this

/-- `c05_finish`, knowing how an attempt ends -/
macro "c05_end" : tactic => `(tactic| all_goals (
  (try split_ands) <;> (try subst_vars) <;> (try intros) <;>
  first
    | (simp_all +zetaDelta [view_setPrev, view_setLastStrategy, view_recordFailure, view_setCounts,
        view_setUnknown, view_setAs, view_setAttempts, view_setAsAttempts, excOk_of_srcOk, excOk_of_abort, restore_dummy]; done)
    | (have hns := nsOk_of_osleep (by assumption) (by assumption)
       simp_all +zetaDelta [view_setPrev, view_setLastStrategy, view_recordFailure, view_setCounts,
        view_setUnknown, view_setAs, view_setAttempts, view_setAsAttempts, excOk_of_srcOk, excOk_of_abort, restore_dummy]; done)
    | (simp_all +zetaDelta +contextual [view_setPrev, view_setLastStrategy, view_recordFailure, view_setCounts,
        view_setUnknown, view_setAs, view_setAttempts, view_setAsAttempts, excOk_of_srcOk, excOk_of_abort, restore_dummy, nsOk_none];
       done)
    | (refine ⟨?_, top_of_continue (by assumption) (by assumption) ?_, ?_⟩ <;>
        (simp_all +zetaDelta [view_setPrev, view_setLastStrategy, view_recordFailure, view_setCounts,
          view_setUnknown, view_setAs, view_setAttempts, view_setAsAttempts, excOk_of_srcOk, excOk_of_abort, restore_dummy, nsOk_none];
         done))
    | skip))

/-- one attempt in call mode: the verdict so far; and if the loop goes on, the invariant of the next
    iteration -/
abbrev attemptPost (cfg : Cfg) (a : Nat) : PostCond (Option α) (.except Exn (.arg World .pure)) :=
  post⟨fun r w => ⌜Core (view cfg w) ∧ (r = none → Top (a + 1) (view cfg w))⌝,
       fun e w => ⌜Core (view cfg w) ∧ excOk (view cfg w).mon e w.trace = true⌝⟩

theorem callExceptionPath_spec (cfg : Cfg) (a : Nat) (e : Exn) (u : View) (hr : Rel a u)
    (he : e.isExhausted = false) :
    ⦃fun w => ⌜view cfg w = u⌝⦄ callExceptionPath cfg a e ⦃attemptPost cfg a⦄ := by
  have hc := hr.core
  have h1 := fun v => checkAbort_v cfg v false a
  have h2 := handleException_spec cfg false e a u hr he
  have h3 := fun d cls v hg => failureOutcome_spec cfg false a d cls (some e) none (some .exception) v hg
  have h4 := fun v o => callAttemptEndFromOutcome_v cfg v a o
  have h5 := fun o rs v hs => deliverCall_spec cfg o rs a false (some e) default v rfl
    (by intro x hx; cases hx; exact he) hs
  mvcgen [callExceptionPath, getRS, modifyAS, h1, h2, h3, h4, h5]
  all_goals (try clear h1 h2 h3 h4 h5)
  c05_end

theorem callResultFailure_spec (cfg : Cfg) (a x : Nat) (c : Classification) (u : View) (hr : Rel a u) :
    ⦃fun w => ⌜view cfg w = { u with mon := clsStep u.mon c .result }⌝⦄ callResultFailure cfg a x c
    ⦃attemptPost cfg a⦄ := by
  have hp := hr.cls c .result
  have hc := hp.core
  have h1 := fun v => checkAbort_v cfg v false a
  have h2 := handleFailure_spec cfg false c a .result none (some x) _ hp (by simp)
  have h3 := fun d cls v hg => failureOutcome_spec cfg false a d cls none (some x) (some .result) v hg
  have h4 := fun v o => callAttemptEndFromOutcome_v cfg v a o
  have h5 := fun o rs fb v hfb hs => deliverCall_spec cfg o rs a true none fb v hfb (by simp) hs
  mvcgen [callResultFailure, getRS, modifyAS, h1, h2, h3, h4, h5]
  all_goals (try clear h1 h2 h3 h4 h5)
  c05_end

theorem callResultPath_spec (cfg : Cfg) (a x : Nat) (u : View) (hr : Rel a u) :
    ⦃fun w => ⌜view cfg w = u⌝⦄ callResultPath cfg a x ⦃attemptPost cfg a⦄ := by
  have hc := hr.core
  have h1 := shouldClassifyResult_spec cfg u x
  have h2 := fun v => handleSuccessAttemptEnd_v cfg v false a x
  have h3 := fun c => callResultFailure_spec cfg a x c u hr
  mvcgen [callResultPath, h1, h2, h3]
  all_goals (try clear h1 h2 h3)
  c05_end

/-- One iteration of the loop of `_run_sync_call` (the `except` ladder around `func()` included). -/
theorem callAttempt_spec (cfg : Cfg) (a : Nat) (u : View) (ht : Top a u) :
    ⦃fun w => ⌜view cfg w = u⌝⦄ callAttempt cfg a ⦃attemptPost cfg a⦄ := by
  have hc := ht.core
  have hro := Rel.op ht
  have hroc := hro.core
  have h1 := fun v n => checkAbort_v cfg v false n
  have h2 := fun v => callAttemptStart_v cfg v a
  have h3 := fun v => invokeOp_spec cfg v a
  have h4 := fun x v hr => callResultPath_spec cfg a x v hr
  have h5 := fun v e => handleAbortAttemptEnd_v cfg v a e
  have h6 := fun v => emitAbortedOnce_v cfg v false a
  have h7 := fun e v hr he => callExceptionPath_spec cfg a e v hr he
  mvcgen [callAttempt, callOpHandler, modifyAS, h1, h2, h3, h4, h5, h6, h7]
  all_goals (try clear h1 h2 h3 h4 h5 h6 h7)
  c05_end

theorem raiseExhaustedCall_v (cfg : Cfg) (v : View) (hc : Core v) :
    ⦃fun w => ⌜view cfg w = v⌝⦄ raiseExhaustedCall cfg
    ⦃post⟨fun _ w => ⌜view cfg w = v⌝, fun e w => ⌜view cfg w = v ∧ excOk v.mon e w.trace = true⌝⟩⦄ := by
  apply triple_of_run
  intro w hw
  have := adequacy (raiseExhaustedCall_fx (inertV v) w cfg (fun _ => rfl) (fun _ _ => rfl)) w (FootXS.refl w)
  split <;> simp_all
  · exact view_fx cfg _ _ v hw this
  · rename_i e w' _
    have hv := view_fx cfg _ _ v hw this.foot
    refine ⟨hv, ?_⟩
    rcases this.src with (⟨f, rfl, hf⟩ | hl | rfl) | hp
    · simp [excOk, hf, nsOk]
    · have : v.lastExc = some e := by rw [← hv]; exact hl
      exact excOk_of_notExh _ (hc.exc e this)
    · rfl
    · exact excOk_of_srcOk (srcOk_of_prov hp)

/-- the loop of `_run_sync_call` -/
abbrev loopPost (cfg : Cfg) : PostCond α (.except Exn (.arg World .pure)) :=
  post⟨fun _ w => ⌜Core (view cfg w)⌝, fun e w => ⌜Core (view cfg w) ∧ excOk (view cfg w).mon e w.trace = true⌝⟩

theorem callLoop_spec (cfg : Cfg) : ∀ (fuel a : Nat) (u : View), Top a u →
    ⦃fun w => ⌜view cfg w = u⌝⦄ callLoop cfg fuel a ⦃loopPost cfg⦄ := by
  intro fuel
  induction fuel with
  | zero =>
    intro a u ht
    have hc := ht.core
    have h1 := raiseExhaustedCall_v cfg u hc
    mvcgen [callLoop, h1]
    c05_end
  | succ f ih =>
    intro a u ht
    have hc := ht.core
    have h1 := callAttempt_spec cfg a u ht
    mvcgen [callLoop, h1]
    c05_end
    rename_i s _ htop
    exact ih (a + 1) (view cfg s) htop s rfl

/-- a world in which the monitor has not seen anything but the prelude -/
def Pristine (cfg : Cfg) (w : World) : Prop := cur cfg w.trace = (false, {})

theorem initState_spec (cfg : Cfg) :
    ⦃fun w => ⌜Pristine cfg w⌝⦄ initState
    ⦃post⟨fun _ w => ⌜Top 1 (view cfg w)⌝, fun _ _ => ⌜False⌝⟩⦄ := by
  mvcgen [initState]
  all_goals (
    rename_i s hp t
    have h : cur cfg s.trace = (false, {}) := hp
    refine ⟨⟨⟨?_, ?_, ?_, ?_, ?_⟩, ?_, ?_, ?_⟩, ?_, ?_⟩ <;> simp +zetaDelta [view, mon, h])

theorem runCall_spec (cfg : Cfg) :
    ⦃fun w => ⌜Pristine cfg w⌝⦄ runCall cfg ⦃loopPost cfg⦄ := by
  have h1 := initState_spec cfg
  have h2 := fun u ht => callLoop_spec cfg cfg.maxAttempts 1 u ht
  mvcgen [runCall, h1, h2]
  c05_end

/-! #### execute mode -/

/-- one attempt in execute mode: additionally, an outcome that is returned reports the fresh delay or none -/
abbrev attemptPostE (cfg : Cfg) (a : Nat) : PostCond (Option Outcome) (.except Exn (.arg World .pure)) :=
  post⟨fun r w => ⌜Core (view cfg w) ∧ (r = none → Top (a + 1) (view cfg w)) ∧
                    (∀ out, r = some out → nsOk (view cfg w).mon out.nextSleep = true)⌝,
       fun e w => ⌜Core (view cfg w) ∧ excOk (view cfg w).mon e w.trace = true⌝⟩

theorem deliverExecute_spec (cfg : Cfg) (tl : Bool) (o : AOutcome) (rs : RState) (a : Nat) (fr : Bool) (v : View)
    (hs : ∀ x, o.sleep = some x → nsOk v.mon (some x) = true) :
    ⦃fun w => ⌜view cfg w = v⌝⦄ deliverExecute cfg tl (determineAction o rs a fr) o
    ⦃post⟨fun r w => ⌜((r = none → o.decision = .retry) ∧ (∀ out, r = some out → nsOk v.mon out.nextSleep = true))
                      ∧ view cfg w = v⌝,
          fun e' w => ⌜view cfg w = v ∧ srcOk e' w.trace = true⌝⟩⦄ := by
  have h1 := fun n => abortOutcome_v cfg v tl n
  have h2 := fun ok val n ns => buildOutcome_v cfg v ok val n ns
  mvcgen [deliverExecute, h1, h2]
  all_goals (try clear h1 h2)
  c05_end
  all_goals first
    | exact ⟨⟨(determineAction_continue_iff _ _ _ _).mp (by assumption), by simp⟩, rfl⟩
    | (simp_all [nsOk]; done)
    | (refine ⟨⟨by simp, ?_⟩, by assumption⟩
       intro out ho
       cases ho
       rename_i r _ hl _ _ _
       rw [hl]
       split
       · cases hx : o.sleep with
         | none => rfl
         | some x => exact hs x hx
       · rfl)

theorem execAbortExit_spec (cfg : Cfg) (tl : Bool) (a : Nat) (e : Exn) (v : View) :
    ⦃fun w => ⌜view cfg w = v⌝⦄ execAbortExit cfg tl a e
    ⦃post⟨fun r w => ⌜(r ≠ none ∧ ∀ m out, r = some out → nsOk m out.nextSleep = true) ∧ view cfg w = v⌝,
          fun e' w => ⌜view cfg w = v ∧ srcOk e' w.trace = true⌝⟩⦄ := by
  have h1 := handleAbortAttemptEnd_v cfg v a e
  have h2 := fun n => abortOutcome_v cfg v tl n
  mvcgen [execAbortExit, h1, h2]
  all_goals (try clear h1 h2)
  c05_end
  all_goals (simp_all [nsOk])

theorem checkAbortCaught_spec (cfg : Cfg) (tl : Bool) (a : Nat) (v : View) :
    ⦃fun w => ⌜view cfg w = v⌝⦄ checkAbortCaught cfg tl a ⦃same cfg v⦄ := by
  have h1 := checkAbort_v cfg v tl a
  mvcgen [checkAbortCaught, abortToTrue, h1]
  all_goals (try clear h1)
  c05_end

theorem execExceptionPath3_spec (cfg : Cfg) (tl : Bool) (a : Nat) (e : Exn) (d : Decision) (v : View)
    (hc : Core v) (hf : ∀ s ctx, d = .retry s ctx → Fresh v s) (ht : d ≠ .raise → Top (a + 1) v) :
    ⦃fun w => ⌜view cfg w = v⌝⦄ execExceptionPath3 cfg tl a e d ⦃attemptPostE cfg a⦄ := by
  have h3 := fun cls => failureOutcome_spec cfg tl a d cls (some e) none (some .exception) v hf
  have h4 := fun o => callAttemptEndFromOutcome_v cfg v a o
  have h5 := fun o rs hs => deliverExecute_spec cfg tl o rs a false v hs
  mvcgen [execExceptionPath3, getRS, modifyAS, h3, h4, h5]
  all_goals (try clear h3 h4 h5)
  c05_end

theorem execExceptionPath2_spec (cfg : Cfg) (tl : Bool) (a : Nat) (e : Exn) (u : View) (hr : Rel a u)
    (he : e.isExhausted = false) :
    ⦃fun w => ⌜view cfg w = u⌝⦄ execExceptionPath2 cfg tl a e ⦃attemptPostE cfg a⦄ := by
  have hc := hr.core
  have h2 := handleException_spec cfg tl e a u hr he
  have h3 := fun d v hc hf ht => execExceptionPath3_spec cfg tl a e d v hc hf ht
  have h4 := fun v => checkAbortCaught_spec cfg tl a v
  have h5 := fun v => execAbortExit_spec cfg tl a e v
  mvcgen [execExceptionPath2, getRS, modifyAS, h2, h3, h4, h5]
  all_goals (try clear h2 h3 h4 h5)
  c05_end

theorem execExceptionPath_spec (cfg : Cfg) (tl : Bool) (a : Nat) (e : Exn) (u : View) (hr : Rel a u)
    (he : e.isExhausted = false) :
    ⦃fun w => ⌜view cfg w = u⌝⦄ execExceptionPath cfg tl a e ⦃attemptPostE cfg a⦄ := by
  have hc := hr.core
  have h3 := fun v hr => execExceptionPath2_spec cfg tl a e v hr he
  have h4 := fun v => checkAbortCaught_spec cfg tl a v
  have h5 := fun v => execAbortExit_spec cfg tl a e v
  mvcgen [execExceptionPath, modifyAS, h3, h4, h5]
  all_goals (try clear h3 h4 h5)
  c05_end

theorem execResultFailure_spec (cfg : Cfg) (tl : Bool) (a x : Nat) (c : Classification) (u : View) (hr : Rel a u) :
    ⦃fun w => ⌜view cfg w = { u with mon := clsStep u.mon c .result }⌝⦄ execResultFailure cfg tl a x c
    ⦃attemptPostE cfg a⦄ := by
  have hp := hr.cls c .result
  have hc := hp.core
  have h1 := fun v => checkAbort_v cfg v tl a
  have h2 := handleFailure_spec cfg tl c a .result none (some x) _ hp (by simp)
  have h3 := fun d cls v hg => failureOutcome_spec cfg tl a d cls none (some x) (some .result) v hg
  have h4 := fun v o => callAttemptEndFromOutcome_v cfg v a o
  have h5 := fun o rs v hs => deliverExecute_spec cfg tl o rs a true v hs
  mvcgen [execResultFailure, getRS, modifyAS, h1, h2, h3, h4, h5]
  all_goals (try clear h1 h2 h3 h4 h5)
  c05_end

theorem execResultPath_spec (cfg : Cfg) (tl : Bool) (a x : Nat) (u : View) (hr : Rel a u) :
    ⦃fun w => ⌜view cfg w = u⌝⦄ execResultPath cfg tl a x ⦃attemptPostE cfg a⦄ := by
  have hc := hr.core
  have h1 := shouldClassifyResult_spec cfg u x
  have h2 := fun v => handleSuccessAttemptEnd_v cfg v tl a x
  have h3 := fun c => execResultFailure_spec cfg tl a x c u hr
  have h4 := fun v ok val n ns => buildOutcome_v cfg v ok val n ns
  mvcgen [execResultPath, h1, h2, h3, h4]
  all_goals (try clear h1 h2 h3 h4)
  c05_end

/-- the `try:` body up to and including `func()`: whether it completes or is cut short (by the
    operation or by an attempt hook raising), we are inside attempt `a` -/
theorem execPre_spec (cfg : Cfg) (tl : Bool) (a : Nat) (u : View) (ht : Top a u) :
    ⦃fun w => ⌜view cfg w = u⌝⦄ execPre cfg tl a
    ⦃post⟨fun _ w => ⌜Core (view cfg w) ∧ Rel a (view cfg w)⌝,
          fun e w => ⌜(Core (view cfg w) ∧ Rel a (view cfg w)) ∧ srcOk e w.trace = true⌝⟩⦄ := by
  have hr0 := ht.rel
  have hro := Rel.op ht
  have hc0 := ht.core
  have hc1 := hro.core
  have h1 := fun v n => checkAbort_v cfg v tl n
  have h2 := fun v => callAttemptStart_v cfg v a
  have h3 := fun v => invokeOp_spec cfg v a
  mvcgen [execPre, modifyAS, h1, h2, h3]
  all_goals (try clear h1 h2 h3)
  c05_end

theorem execAttempt_spec (cfg : Cfg) (tl : Bool) (a : Nat) (u : View) (ht : Top a u) :
    ⦃fun w => ⌜view cfg w = u⌝⦄ execAttempt cfg tl a ⦃attemptPostE cfg a⦄ := by
  have hc := ht.core
  have h1 := fun v ht => execPre_spec cfg tl a v ht
  have h2 := fun x v hr => execResultPath_spec cfg tl a x v hr
  have h3 := fun v e => execAbortExit_spec cfg tl a e v
  have h4 := fun e v hr he => execExceptionPath_spec cfg tl a e v hr he
  mvcgen [execAttempt, execHandler, execReturnedHandler, h1, h2, h3, h4]
  all_goals (try clear h1 h2 h3 h4)
  c05_end

/-- the loop of `_run_sync_execute`: the outcome reports the fresh delay or none -/
abbrev loopPostE (cfg : Cfg) : PostCond Outcome (.except Exn (.arg World .pure)) :=
  post⟨fun out w => ⌜Core (view cfg w) ∧ nsOk (view cfg w).mon out.nextSleep = true⌝,
       fun e w => ⌜Core (view cfg w) ∧ excOk (view cfg w).mon e w.trace = true⌝⟩

theorem execLoop_spec (cfg : Cfg) (tl : Bool) : ∀ (fuel a : Nat) (u : View), Top a u →
    ⦃fun w => ⌜view cfg w = u⌝⦄ execLoop cfg tl fuel a ⦃loopPostE cfg⦄ := by
  intro fuel
  induction fuel with
  | zero =>
    intro a u ht
    have hc := ht.core
    have h1 := buildExhaustedOutcome_v cfg u tl
    mvcgen [execLoop, h1]
    c05_end
  | succ f ih =>
    intro a u ht
    have hc := ht.core
    have h1 := execAttempt_spec cfg tl a u ht
    mvcgen [execLoop, h1]
    c05_end
    rename_i s _ htop _
    exact ih (a + 1) (view cfg s) htop s rfl

theorem view_setTl (cfg : Cfg) (w : World) (n : Nat) (tl : List TimelineEv) :
    view cfg { w with tlStart := n, timeline := tl } = view cfg w := rfl

theorem runExecute_spec (cfg : Cfg) :
    ⦃fun w => ⌜Pristine cfg w⌝⦄ runExecute cfg ⦃loopPostE cfg⦄ := by
  have h1 := initState_spec cfg
  have h2 := fun u ht => execLoop_spec cfg cfg.timeline cfg.maxAttempts 1 u ht
  mvcgen [runExecute, h1, h2]
  c05_end

/-! ### policy level: nothing outside the retry loop touches the verdict -/
open Policy

/-- requests made around the loop: the breaker's records and events, the final classification of
    `Policy.call`, attempt-end hooks of the retry-less flavour -/
def postQc : Req → Bool
  | .metric ev .. => isBreakerEv ev
  | .log ev .. => isBreakerEv ev
  | .breakerAllow | .breakerSuccess | .breakerFailure _ | .breakerCancel | .attemptEnd _ | .classify _ => true
  | _ => false

/-- …without the classifier -/
def postQ : Req → Bool
  | .classify _ => false
  | r => postQc r

/-- the verdict-relevant part of the monitor -/
structure SameFlags (m m' : St) : Prop where
  sel : m'.badSel = m.badSel
  args : m'.badArgs = m.badArgs
  count : m'.badCount = m.badCount
  sleep : m'.badSleep = m.badSleep
  flow : m'.badFlow = m.badFlow

theorem SameFlags.trans {a b c : St} (h₁ : SameFlags a b) (h₂ : SameFlags b c) : SameFlags a c :=
  ⟨h₂.sel.trans h₁.sel, h₂.args.trans h₁.args, h₂.count.trans h₁.count, h₂.sleep.trans h₁.sleep,
   h₂.flow.trans h₁.flow⟩

theorem clsStep_flags (m : St) (c : Classification) (cause : Cause) : SameFlags m (clsStep m c cause) := by
  unfold clsStep
  split <;> exact ⟨rfl, rfl, rfl, rfl, rfl⟩

theorem stepF_postQc (cfg : Cfg) (p : Bool × St) (x : Req × Ans) (h : postQc x.1 = true) :
    SameFlags p.2 (stepF cfg p x).2 := by
  obtain ⟨r, a⟩ := x
  unfold stepF
  split
  · exact ⟨rfl, rfl, rfl, rfl, rfl⟩
  · cases r <;> simp_all [postQc, step, isBreakerEv] <;>
      first
        | exact ⟨rfl, rfl, rfl, rfl, rfl⟩
        | (split <;> first | exact ⟨rfl, rfl, rfl, rfl, rfl⟩ | (simp_all [isBreakerEv]))
        | skip
    cases a <;> (try simp only) <;>
      first | exact ⟨rfl, rfl, rfl, rfl, rfl⟩ | (refine SameFlags.trans ?_ (clsStep_flags _ _ _); exact ⟨rfl, rfl, rfl, rfl, rfl⟩)

/-- …and, without the classifier, the delay and the count of strategy calls -/
theorem stepF_postQ (cfg : Cfg) (p : Bool × St) (x : Req × Ans) (h : postQ x.1 = true) :
    (stepF cfg p x).2.delay = p.2.delay ∧ (stepF cfg p x).2.strats = p.2.strats := by
  obtain ⟨r, a⟩ := x
  unfold stepF
  split
  · exact ⟨rfl, rfl⟩
  · cases r <;> simp_all [postQ, postQc, step, isBreakerEv] <;>
      first
        | exact ⟨rfl, rfl⟩
        | (split <;> first | exact ⟨rfl, rfl⟩ | (simp_all [isBreakerEv]))

theorem cur_postQc (cfg : Cfg) (δ t : List (Req × Ans)) (h : ∀ x ∈ δ, postQc x.1 = true) :
    SameFlags (cur cfg t).2 (cur cfg (δ ++ t)).2 := by
  induction δ with
  | nil => exact ⟨rfl, rfl, rfl, rfl, rfl⟩
  | cons x δ ih =>
    exact (ih (fun y hy => h y (by simp [hy]))).trans (stepF_postQc cfg _ x (h x (by simp)))

theorem cur_postQ (cfg : Cfg) (δ t : List (Req × Ans)) (h : ∀ x ∈ δ, postQ x.1 = true) :
    (cur cfg (δ ++ t)).2.delay = (cur cfg t).2.delay ∧ (cur cfg (δ ++ t)).2.strats = (cur cfg t).2.strats := by
  induction δ with
  | nil => exact ⟨rfl, rfl⟩
  | cons x δ ih =>
    have h1 := ih (fun y hy => h y (by simp [hy]))
    have h2 := stepF_postQ cfg (cur cfg (δ ++ t)) x (h x (by simp))
    exact ⟨h2.1.trans h1.1, h2.2.trans h1.2⟩

theorem postQ_sub (r : Req) (h : postQ r = true) : postQc r = true := by
  cases r <;> simp_all [postQ]

/-- the prelude: admission by the breaker and its events -/
def preQ : Req → Bool := isPrelude

theorem preQ_sub (r : Req) (h : preQ r = true) : postQc r = true := by
  cases r <;> simp_all [preQ, isPrelude, postQc]

theorem circuit_breakerEv (ev : Event) (h : circuitEv ev = true) : isBreakerEv ev = true := by
  cases ev <;> simp_all [circuitEv, isBreakerEv]

/-- how a call may end, as far as this property is concerned -/
def FinV (cfg : Cfg) (w : World) : Prop := Clean (mon cfg w)
def FinE (cfg : Cfg) (e : Exn) (w : World) : Prop := Clean (mon cfg w) ∧ excOk (mon cfg w) e w.trace = true
def FinO (cfg : Cfg) (o : Outcome) (w : World) : Prop := Clean (mon cfg w) ∧ nsOk (mon cfg w) o.nextSleep = true

theorem Pristine.foot {cfg : Cfg} {w w' : World} (h : FootX preQ w w') (hp : Pristine cfg w) : Pristine cfg w' := by
  obtain ⟨δ, e, k, hn⟩ := h.trace
  unfold Pristine at *
  rw [e]
  clear e hn
  induction δ with
  | nil => exact hp
  | cons x δ ih =>
    have := ih (fun y hy => k y (by simp [hy]))
    have hx : isPrelude x.1 = true := k x (by simp)
    simp [this, stepF, hx]

theorem FinV.of_pristine {cfg : Cfg} {w : World} (hp : Pristine cfg w) : FinV cfg w := by
  have : mon cfg w = {} := by unfold mon; rw [hp]
  unfold FinV
  rw [this]
  exact ⟨rfl, rfl, rfl, rfl, rfl⟩

theorem clean_of_flags {m m' : St} (h : SameFlags m m') (hc : Clean m) : Clean m' :=
  ⟨h.sel.trans hc.sel, h.args.trans hc.args, h.count.trans hc.count, h.sleep.trans hc.sleep, h.flow.trans hc.flow⟩

theorem FinV.foot {cfg : Cfg} {w w' : World} (h : FootX postQc w w') (hv : FinV cfg w) : FinV cfg w' := by
  obtain ⟨δ, e, k, _⟩ := h.trace
  unfold FinV mon at *
  rw [e]
  exact clean_of_flags (cur_postQc cfg δ w.trace k) hv

theorem FinV.of_core {cfg : Cfg} {w : World} (h : Core (view cfg w)) : FinV cfg w :=
  ⟨h.clean.sel, h.clean.args, h.clean.count, h.clean.sleep, h.clean.flow⟩

theorem FinE.of_core {cfg : Cfg} {w : World} {e : Exn} (h : Core (view cfg w))
    (he : excOk (view cfg w).mon e w.trace = true) : FinE cfg e w :=
  ⟨FinV.of_core h, he⟩

theorem FinO.of_core {cfg : Cfg} {w : World} {o : Outcome} (h : Core (view cfg w))
    (ho : nsOk (view cfg w).mon o.nextSleep = true) : FinO cfg o w :=
  ⟨FinV.of_core h, ho⟩

theorem FinE.toV {cfg : Cfg} {w : World} {e : Exn} (h : FinE cfg e w) : FinV cfg w := h.1
theorem FinO.toV {cfg : Cfg} {w : World} {o : Outcome} (h : FinO cfg o w) : FinV cfg w := h.1

theorem FinE.of_notExh {cfg : Cfg} {w : World} {e : Exn} (hv : FinV cfg w) (he : e.isExhausted = false) :
    FinE cfg e w := ⟨hv, excOk_of_notExh _ he⟩

/-- a new exception raised around the loop -/
theorem FinE.of_exc {cfg : Cfg} {w w' : World} {e : Exn} {Own : Exn → Prop} (h : ExcX postQc Own w w' e)
    (hown : ∀ e, Own e → notExh e) (hv : FinV cfg w) : FinE cfg e w' :=
  ⟨FinV.foot h.foot hv, excOk_of_srcOk (srcOk_of_src hown h.src)⟩

theorem excOk_mono {m m' : St} {e : Exn} {δ t : List (Req × Ans)} (hd : m'.delay = m.delay)
    (hs : m'.strats = m.strats) (h : excOk m e t = true) : excOk m' e (δ ++ t) = true := by
  cases e <;> simp_all [excOk]
  rcases h with h | h
  · exact Or.inl (raisedAny_append _ _ _ h)
  · right
    rename_i f
    cases hf : f.nextSleep <;> simp_all [nsOk]

/-- the exception in flight keeps its verdict through the breaker's bookkeeping -/
theorem FinE.foot {cfg : Cfg} {w w' : World} {e : Exn} (h : FootX postQ w w') (hv : FinE cfg e w) :
    FinE cfg e w' := by
  obtain ⟨δ, e₁, k, _⟩ := h.trace
  refine ⟨FinV.foot (h.mono postQ_sub) hv.1, ?_⟩
  have := cur_postQ cfg δ w.trace k
  unfold mon
  rw [e₁]
  exact excOk_mono this.1 this.2 hv.2

theorem FinO.foot {cfg : Cfg} {w w' : World} {o : Outcome} (h : FootX postQ w w') (hv : FinO cfg o w) :
    FinO cfg o w' := by
  obtain ⟨δ, e₁, k, _⟩ := h.trace
  refine ⟨FinV.foot (h.mono postQ_sub) hv.1, ?_⟩
  have := cur_postQ cfg δ w.trace k
  have h2 := hv.2
  unfold mon at *
  rw [e₁]
  cases ho : o.nextSleep <;> simp_all [nsOk]

theorem preQ_circuit_m (ev : Event) (t : Tags) (h : circuitEv ev = true) : preQ (.metric ev 0 0 t) = true := by
  simpa [preQ, isPrelude] using circuit_breakerEv ev h
theorem preQ_circuit_l (ev : Event) (t : Tags) (ra : Option Int) (h : circuitEv ev = true) :
    preQ (.log ev 0 0 t ra) = true := by
  simpa [preQ, isPrelude] using circuit_breakerEv ev h
theorem postQ_circuit_m (ev : Event) (t : Tags) (h : circuitEv ev = true) : postQ (.metric ev 0 0 t) = true := by
  simpa [postQ, postQc] using circuit_breakerEv ev h
theorem postQ_circuit_l (ev : Event) (t : Tags) (ra : Option Int) (h : circuitEv ev = true) :
    postQ (.log ev 0 0 t ra) = true := by
  simpa [postQ, postQc] using circuit_breakerEv ev h
theorem postQc_circuit_m (ev : Event) (t : Tags) (h : circuitEv ev = true) : postQc (.metric ev 0 0 t) = true := by
  simpa [postQc] using circuit_breakerEv ev h
theorem postQc_circuit_l (ev : Event) (t : Tags) (ra : Option Int) (h : circuitEv ev = true) :
    postQc (.log ev 0 0 t ra) = true := by
  simpa [postQc] using circuit_breakerEv ev h

abbrev finPost (cfg : Cfg) : PostCond α (.except Exn (.arg World .pure)) :=
  post⟨fun _ w => ⌜FinV cfg w⌝, fun e w => ⌜FinE cfg e w⌝⟩

/-- `try: x finally: fin` — `fin` runs on both exits and may replace the exception -/
theorem withFinally_spec {α : Type} {x : M α} {fin : M Unit} {P : World → Prop} {Qv : α → World → Prop}
    {Qe : Exn → World → Prop}
    (hx : ⦃fun w => ⌜P w⌝⦄ x ⦃post⟨fun a w => ⌜Qv a w⌝, fun e w => ⌜Qe e w⌝⟩⦄)
    (hv : ∀ a, ⦃fun w => ⌜Qv a w⌝⦄ fin ⦃post⟨fun _ w => ⌜Qv a w⌝, fun e w => ⌜Qe e w⌝⟩⦄)
    (he : ∀ e, ⦃fun w => ⌜Qe e w⌝⦄ fin ⦃post⟨fun _ w => ⌜Qe e w⌝, fun e' w => ⌜Qe e' w⌝⟩⦄) :
    ⦃fun w => ⌜P w⌝⦄ withFinally x fin ⦃post⟨fun a w => ⌜Qv a w⌝, fun e w => ⌜Qe e w⌝⟩⦄ := by
  apply triple_of_run
  intro w hp
  have h1 := adequacy hx w hp
  simp only [withFinally, EStateM.run, bind, EStateM.bind, tryCatch, tryCatchThe, MonadExceptOf.tryCatch,
    EStateM.tryCatch, throw, throwThe, MonadExceptOf.throw, EStateM.throw, pure, EStateM.pure, restore_dummy] at h1 ⊢
  cases hxr : x w with
  | ok a w1 =>
    simp only [hxr] at h1 ⊢
    have h2 := adequacy (hv a) w1 h1
    simp only [EStateM.run] at h2
    cases hf : fin w1 with
    | ok u w2 => simp only [hf] at h2 ⊢; exact h2
    | error e' w2 => simp only [hf] at h2 ⊢; exact h2
  | error e w1 =>
    simp only [hxr] at h1 ⊢
    have h2 := adequacy (he e) w1 h1
    simp only [EStateM.run, restore_dummy] at h2 ⊢
    cases hf : fin w1 with
    | ok u w2 => simp only [hf] at h2 ⊢; exact h2
    | error e' w2 => simp only [hf] at h2 ⊢; exact h2

/-- from a footprint lemma to "this predicate is preserved; a new exception satisfies that one" -/
theorem inv_of_fx {α : Type} {x : M α} {Q : Req → Bool} {Own : Exn → Prop} (I : World → Prop)
    (E : Exn → World → Prop)
    (hx : ∀ w0, ⦃fun w => ⌜FootX Q w0 w⌝⦄ x ⦃fxPost Q w0 Own⦄)
    (hI : ∀ w w', FootX Q w w' → I w → I w') (hE : ∀ w w' e, ExcX Q Own w w' e → I w → E e w') :
    ⦃fun w => ⌜I w⌝⦄ x ⦃post⟨fun _ w => ⌜I w⌝, fun e w => ⌜E e w⌝⟩⦄ := by
  apply triple_of_run
  intro w hw
  have := adequacy (hx w) w (FootX.refl w)
  split <;> simp_all
  · exact hI _ _ this hw
  · exact hE _ _ _ this hw

section policyLeaves
variable (cfg : Cfg)

theorem FinE.new {cfg : Cfg} {w w' : World} {e : Exn} {e0 : Exn} (h : ExcX postQ noOwn w w' e)
    (hv : FinE cfg e0 w) : FinE cfg e w' :=
  FinE.of_exc ⟨h.foot.mono postQ_sub, h.src⟩ (fun _ h => h.elim) hv.1

theorem FinE.newV {cfg : Cfg} {w w' : World} {e : Exn} (h : ExcX postQ noOwn w w' e)
    (hv : FinV cfg w) : FinE cfg e w' :=
  FinE.of_exc ⟨h.foot.mono postQ_sub, h.src⟩ (fun _ h => h.elim) hv

/-- leaves of the `except` ladders, while the exception `e` is in flight -/
theorem recordCancel_e (e : Exn) :
    ⦃fun w => ⌜FinE cfg e w⌝⦄ Policy.recordCancel cfg ⦃post⟨fun _ w => ⌜FinE cfg e w⌝, fun e' w => ⌜FinE cfg e' w⌝⟩⦄ :=
  inv_of_fx _ _ (fun w0 => recordCancel_fx postQ w0 cfg rfl) (fun _ _ h => FinE.foot h) (fun _ _ _ h => FinE.new h)

theorem handleAbortCall_e (e : Exn) :
    ⦃fun w => ⌜FinE cfg e w⌝⦄ handleAbortCall cfg e ⦃post⟨fun _ w => ⌜FinE cfg e w⌝, fun e' w => ⌜FinE cfg e' w⌝⟩⦄ :=
  inv_of_fx _ _ (fun w0 => handleAbortCall_fx postQ w0 cfg e (fun _ => rfl) rfl) (fun _ _ h => FinE.foot h)
    (fun _ _ _ h => FinE.new h)

theorem handleExhaustedCall_e (e : Exn) :
    ⦃fun w => ⌜FinE cfg e w⌝⦄ handleExhaustedCall cfg e
    ⦃post⟨fun _ w => ⌜FinE cfg e w⌝, fun e' w => ⌜FinE cfg e' w⌝⟩⦄ :=
  inv_of_fx _ _ (fun w0 => handleExhaustedCall_fx postQ w0 cfg e (fun _ => rfl)
    (fun ev t h => postQ_circuit_m ev t h) (fun ev t ra h => postQ_circuit_l ev t ra h))
    (fun _ _ h => FinE.foot h) (fun _ _ _ h => FinE.new h)

theorem handleExceptionCall_v (e : Exn) (b : Bool) :
    ⦃fun w => ⌜FinV cfg w⌝⦄ handleExceptionCall cfg e b
    ⦃post⟨fun _ w => ⌜FinV cfg w⌝, fun e' w => ⌜FinE cfg e' w⌝⟩⦄ :=
  inv_of_fx _ _ (fun w0 => handleExceptionCall_fx postQc w0 cfg e b (fun _ => rfl)
    (fun ev t h => postQc_circuit_m ev t h) (fun ev t ra h => postQc_circuit_l ev t ra h) (fun _ => rfl) rfl)
    (fun _ _ h => FinV.foot h) (fun _ _ _ h hv => FinE.of_exc h (fun _ h => h.elim) hv)

theorem ensureSettled_e (e : Exn) :
    ⦃fun w => ⌜FinE cfg e w⌝⦄ ensureSettled cfg ⦃post⟨fun _ w => ⌜FinE cfg e w⌝, fun e' w => ⌜FinE cfg e' w⌝⟩⦄ :=
  inv_of_fx _ _ (fun w0 => ensureSettled_fx postQ w0 cfg rfl) (fun _ _ h => FinE.foot h) (fun _ _ _ h => FinE.new h)

theorem ensureSettled_v :
    ⦃fun w => ⌜FinV cfg w⌝⦄ ensureSettled cfg ⦃post⟨fun _ w => ⌜FinV cfg w⌝, fun e' w => ⌜FinE cfg e' w⌝⟩⦄ :=
  inv_of_fx _ _ (fun w0 => ensureSettled_fx postQ w0 cfg rfl) (fun _ _ h => FinV.foot (h.mono postQ_sub))
    (fun _ _ _ h => FinE.newV h)

theorem ensureSettled_o (o : Outcome) :
    ⦃fun w => ⌜FinO cfg o w⌝⦄ ensureSettled cfg ⦃post⟨fun _ w => ⌜FinO cfg o w⌝, fun e' w => ⌜FinE cfg e' w⌝⟩⦄ :=
  inv_of_fx _ _ (fun w0 => ensureSettled_fx postQ w0 cfg rfl) (fun _ _ h => FinO.foot h)
    (fun _ _ _ h hv => FinE.newV h hv.1)

theorem recordSuccess_v :
    ⦃fun w => ⌜FinV cfg w⌝⦄ Policy.recordSuccess cfg ⦃post⟨fun _ w => ⌜FinV cfg w⌝, fun e' w => ⌜FinE cfg e' w⌝⟩⦄ :=
  inv_of_fx _ _ (fun w0 => recordSuccess_fx postQ w0 cfg rfl (fun ev t h => postQ_circuit_m ev t h)
    (fun ev t ra h => postQ_circuit_l ev t ra h)) (fun _ _ h => FinV.foot (h.mono postQ_sub))
    (fun _ _ _ h => FinE.newV h)

theorem initCtx_p :
    ⦃fun w => ⌜Pristine cfg w⌝⦄ initCtx ⦃post⟨fun _ w => ⌜Pristine cfg w⌝, fun e' w => ⌜FinE cfg e' w⌝⟩⦄ :=
  inv_of_fx _ _ (fun w0 => initCtx_fx preQ w0) (fun _ _ h => Pristine.foot h)
    (fun _ _ _ h hp => FinE.of_exc ⟨h.foot.mono preQ_sub, h.src⟩ (fun _ h => h.elim) (FinV.of_pristine hp))

theorem checkBreaker_p :
    ⦃fun w => ⌜Pristine cfg w⌝⦄ checkBreaker cfg ⦃post⟨fun _ w => ⌜Pristine cfg w⌝, fun e' w => ⌜FinE cfg e' w⌝⟩⦄ :=
  inv_of_fx _ _ (fun w0 => checkBreaker_fx preQ w0 cfg rfl (fun ev t h => preQ_circuit_m ev t h)
    (fun ev t ra h => preQ_circuit_l ev t ra h)) (fun _ _ h => Pristine.foot h)
    (fun _ _ _ h hp => FinE.of_exc (Own := fun e => ∃ st, e = .libCircuitOpen st) ⟨h.foot.mono preQ_sub, h.src⟩
      (fun _ hst => by obtain ⟨st, hst⟩ := hst; subst hst; rfl) (FinV.of_pristine hp))

end policyLeaves

theorem excOk_of_kise {m : St} {e : Exn} (tr : List (Req × Ans)) (h : e.isKiSe = true) : excOk m e tr = true := by
  cases e <;> simp_all [excOk, Exn.isKiSe]

/-- the `except` ladder of `Policy.call`: always re-raises -/
theorem callLadder_spec (cfg : Cfg) (e : Exn) (_hret : cfg.hasRetry = true) :
    ⦃fun w => ⌜FinE cfg e w⌝⦄ callLadder cfg e
    ⦃post⟨fun _ _ => ⌜False⌝, fun e' w => ⌜FinE cfg e' w⌝⟩⦄ := by
  have h1 := recordCancel_e cfg e
  have h2 := handleAbortCall_e cfg e
  have h3 := handleExhaustedCall_e cfg e
  have h4 := handleExceptionCall_v cfg e true
  mvcgen [callLadder, h1, h2, h3, h4]
  all_goals (try clear h1 h2 h3 h4)
  all_goals (try intros)
  all_goals first
    | assumption
    | exact FinE.toV (by assumption)
    | exact FinE.of_notExh (by assumption) (by simp_all)
    | skip

theorem runCall_fin (cfg : Cfg) : ⦃fun w => ⌜Pristine cfg w⌝⦄ runCall cfg ⦃finPost cfg⦄ :=
  Triple.entails_wp_of_post (runCall_spec cfg) (by
    simp only [loopPost, finPost]
    refine ⟨fun _ w h => FinV.of_core h, fun e w h => ?_, trivial⟩
    exact FinE.of_core h.1 h.2)

theorem callAdmitted_spec (cfg : Cfg) (hret : cfg.hasRetry = true) :
    ⦃fun w => ⌜Pristine cfg w⌝⦄ callAdmitted cfg ⦃finPost cfg⦄ := by
  have h1 := checkBreaker_p cfg
  have h2 := runCall_fin cfg
  have h3 := recordSuccess_v cfg
  have h4 := fun e => callLadder_spec cfg e hret
  mvcgen [callAdmitted, h1, h2, h3, h4]
  all_goals (try clear h1 h2 h3 h4)
  all_goals (try intros)
  all_goals first
    | assumption
    | (simp_all; done)
    | skip

/-- `Policy.call` with a retry component (also `RetryPolicy.call`, `@retry`, contexts, async twins) -/
theorem call_retry_spec (cfg : Cfg) (hret : cfg.hasRetry = true) :
    ⦃fun w => ⌜Pristine cfg w⌝⦄ Policy.call cfg ⦃finPost cfg⦄ := by
  have h1 := initCtx_p cfg
  have h2 := withFinally_spec (callAdmitted_spec cfg hret) (fun _ => ensureSettled_v cfg)
    (fun e => ensureSettled_e cfg e)
  mvcgen [Policy.call, h1, h2]

/-! #### execute -/

/-- the `except` ladder around `retry.execute(...)`: always re-raises -/
theorem executeLadder_spec (cfg : Cfg) (e : Exn) :
    ⦃fun w => ⌜FinE cfg e w⌝⦄ executeLadder cfg e
    ⦃post⟨fun _ _ => ⌜False⌝, fun e' w => ⌜FinE cfg e' w⌝⟩⦄ := by
  have h1 := recordCancel_e cfg e
  have h3 := handleExhaustedCall_e cfg e
  have h4 := handleExceptionCall_v cfg e false
  mvcgen [executeLadder, h1, h3, h4]
  all_goals (try clear h1 h3 h4)
  all_goals (try intros)
  all_goals first
    | assumption
    | exact FinE.toV (by assumption)
    | exact FinE.of_notExh (by assumption) (by simp_all)
    | skip

abbrev finPostO (cfg : Cfg) : PostCond Outcome (.except Exn (.arg World .pure)) :=
  post⟨fun o w => ⌜FinO cfg o w⌝, fun e w => ⌜FinE cfg e w⌝⟩

theorem runExecute_fin (cfg : Cfg) : ⦃fun w => ⌜Pristine cfg w⌝⦄ runExecute cfg ⦃finPostO cfg⦄ :=
  Triple.entails_wp_of_post (runExecute_spec cfg) (by
    simp only [loopPostE, finPostO]
    refine ⟨fun _ w h => FinO.of_core h.1 h.2, fun e w h => ?_, trivial⟩
    exact FinE.of_core h.1 h.2)

section
variable (cfg : Cfg)

theorem recordSuccess_o (o : Outcome) :
    ⦃fun w => ⌜FinO cfg o w⌝⦄ Policy.recordSuccess cfg ⦃post⟨fun _ w => ⌜FinO cfg o w⌝, fun e' w => ⌜FinE cfg e' w⌝⟩⦄ :=
  inv_of_fx _ _ (fun w0 => recordSuccess_fx postQ w0 cfg rfl (fun ev t h => postQ_circuit_m ev t h)
    (fun ev t ra h => postQ_circuit_l ev t ra h)) (fun _ _ h => FinO.foot h)
    (fun _ _ _ h hv => FinE.newV h hv.1)

theorem recordCancel_o (o : Outcome) :
    ⦃fun w => ⌜FinO cfg o w⌝⦄ Policy.recordCancel cfg ⦃post⟨fun _ w => ⌜FinO cfg o w⌝, fun e' w => ⌜FinE cfg e' w⌝⟩⦄ :=
  inv_of_fx _ _ (fun w0 => recordCancel_fx postQ w0 cfg rfl) (fun _ _ h => FinO.foot h)
    (fun _ _ _ h hv => FinE.newV h hv.1)

theorem recordFailure_o (o : Outcome) (k : EClass) :
    ⦃fun w => ⌜FinO cfg o w⌝⦄ Policy.recordFailure cfg k
    ⦃post⟨fun _ w => ⌜FinO cfg o w⌝, fun e' w => ⌜FinE cfg e' w⌝⟩⦄ :=
  inv_of_fx _ _ (fun w0 => recordFailure_fx postQ w0 cfg k rfl (fun ev t h => postQ_circuit_m ev t h)
    (fun ev t ra h => postQ_circuit_l ev t ra h)) (fun _ _ h => FinO.foot h)
    (fun _ _ _ h hv => FinE.newV h hv.1)

end

theorem executeWithRetry_spec (cfg : Cfg) :
    ⦃fun w => ⌜Pristine cfg w⌝⦄ executeWithRetry cfg ⦃finPostO cfg⦄ := by
  have h1 := runExecute_fin cfg
  have h2 := fun e => executeLadder_spec cfg e
  have h3 := fun o => recordSuccess_o cfg o
  have h4 := fun o => recordCancel_o cfg o
  have h5 := fun o k => recordFailure_o cfg o k
  mvcgen [executeWithRetry, h1, h2, h3, h4, h5]
  all_goals (try clear h1 h2 h3 h4 h5)
  all_goals (try intros)
  all_goals first
    | assumption
    | (simp_all; done)
    | skip

theorem inv_of_fx' {α : Type} {x : M α} {Q : Req → Bool} {Own : Exn → Prop} {R : α → World → Prop}
    (I : World → Prop) (E : Exn → World → Prop)
    (hx : ∀ w0, ⦃fun w => ⌜FootX Q w0 w⌝⦄ x
      ⦃post⟨fun a w => ⌜R a w ∧ FootX Q w0 w⌝, fun e w => ⌜ExcX Q Own w0 w e⌝⟩⦄)
    (hI : ∀ w w', FootX Q w w' → I w → I w') (hE : ∀ w w' e, ExcX Q Own w w' e → I w → E e w') :
    ⦃fun w => ⌜I w⌝⦄ x ⦃post⟨fun a w => ⌜R a w ∧ I w⌝, fun e w => ⌜E e w⌝⟩⦄ := by
  apply triple_of_run
  intro w hw
  have := adequacy (hx w) w (FootX.refl w)
  split <;> simp_all
  · exact hI _ _ this.2 hw
  · exact hE _ _ _ this hw

section
variable (cfg : Cfg)

theorem FinE.ofPre {cfg : Cfg} {w w' : World} {e : Exn} (h : ExcX preQ noOwn w w' e) (hp : Pristine cfg w) :
    FinE cfg e w' :=
  FinE.of_exc ⟨h.foot.mono preQ_sub, h.src⟩ (fun _ h => h.elim) (FinV.of_pristine hp)

theorem breakerAllow_p (bc : Breaker.Cfg) :
    ⦃fun w => ⌜Pristine cfg w⌝⦄ breakerAllow bc
    ⦃post⟨fun d w => ⌜(∀ ev, d.2.2 = some ev → circuitEv ev = true) ∧ Pristine cfg w⌝,
          fun e' w => ⌜FinE cfg e' w⌝⟩⦄ :=
  inv_of_fx' _ _ (fun w0 => breakerAllow_fx preQ w0 bc rfl) (fun _ _ h => Pristine.foot h)
    (fun _ _ _ h => FinE.ofPre h)

theorem emitBreakerEvent_p (ev : Option Event) (st : CState) (k : Option EClass)
    (hev : ∀ ev', ev = some ev' → circuitEv ev' = true) :
    ⦃fun w => ⌜Pristine cfg w⌝⦄ emitBreakerEvent cfg ev st k
    ⦃post⟨fun _ w => ⌜Pristine cfg w⌝, fun e' w => ⌜FinE cfg e' w⌝⟩⦄ :=
  inv_of_fx _ _ (fun w0 => emitBreakerEvent_fx preQ w0 cfg ev st k
    (fun ev' t h => preQ_circuit_m ev' t (hev ev' h)) (fun ev' t ra h => preQ_circuit_l ev' t ra (hev ev' h)))
    (fun _ _ h => Pristine.foot h) (fun _ _ _ h => FinE.ofPre h)

theorem policyOutcome_p (ok : Bool) (value : Option Nat) (stop : Option StopReason) (attempts : Nat)
    (lc : Option EClass) (le : Option String) (cause : Option Cause) :
    ⦃fun w => ⌜Pristine cfg w⌝⦄ policyOutcome ok value stop attempts lc le cause
    ⦃post⟨fun o w => ⌜(o.nextSleep = none ∧ o.stop = stop) ∧ Pristine cfg w⌝, fun e' w => ⌜FinE cfg e' w⌝⟩⦄ :=
  inv_of_fx' _ _ (fun w0 => policyOutcome_fx preQ w0 ok value stop attempts lc le cause)
    (fun _ _ h => Pristine.foot h) (fun _ _ _ h => FinE.ofPre h)

end

theorem FinO.of_pristine {cfg : Cfg} {w : World} {o : Outcome} (hp : Pristine cfg w) (ho : o.nextSleep = none) :
    FinO cfg o w := ⟨FinV.of_pristine hp, by rw [ho]; rfl⟩

theorem executeAdmitted2_spec (cfg : Cfg) (hret : cfg.hasRetry = true) :
    ⦃fun w => ⌜Pristine cfg w⌝⦄ executeAdmitted2 cfg ⦃finPostO cfg⦄ := by
  have h1 := executeWithRetry_spec cfg
  unfold executeAdmitted2
  simp only [hret, if_true]
  mvcgen [h1]
  all_goals (try intros)
  all_goals first
    | assumption
    | (simp_all; done)
    | skip

theorem executeAdmitted_spec (cfg : Cfg) (hret : cfg.hasRetry = true) :
    ⦃fun w => ⌜Pristine cfg w⌝⦄ executeAdmitted cfg ⦃finPostO cfg⦄ := by
  have h1 := executeAdmitted2_spec cfg hret
  have h2 := fun bc => breakerAllow_p cfg bc
  have h3 := fun ev st k hev => emitBreakerEvent_p cfg ev st k hev
  have h4 := fun a b c d e f g => policyOutcome_p cfg a b c d e f g
  mvcgen [executeAdmitted, h1, h2, h3, h4]
  all_goals (try clear h1 h2 h3 h4)
  all_goals (try split_ands)
  all_goals (try intros)
  all_goals first
    | assumption
    | exact FinO.of_pristine (by assumption) (by assumption)
    | (simp_all; done)
    | skip

/-- `Policy.execute` with a retry component -/
theorem execute_retry_spec (cfg : Cfg) (hret : cfg.hasRetry = true) :
    ⦃fun w => ⌜Pristine cfg w⌝⦄ Policy.execute cfg ⦃finPostO cfg⦄ := by
  have h1 := initCtx_p cfg
  have h2 := withFinally_spec (executeAdmitted_spec cfg hret) (fun o => ensureSettled_o cfg o)
    (fun e => ensureSettled_e cfg e)
  mvcgen [Policy.execute, h1, h2]

/-! ### the theorems -/

/-- all five verdicts of the monitor, for one call -/
def Verdicts (cfg : Cfg) (e : Entry) (t : Trace) (r : Res) : Prop :=
  selectedOk cfg e t r = true ∧ argsAreOk cfg e t r = true ∧ countOk cfg e t r = true ∧
    sleeperOk cfg e t r = true ∧ flowOk cfg e t r = true

theorem verdicts_noLoop {cfg : Cfg} {e : Entry} (hl : hasLoop cfg e = false) (t : Trace) (r : Res) :
    Verdicts cfg e t r := by
  simp [Verdicts, selectedOk, argsAreOk, countOk, sleeperOk, flowOk, hl]

theorem raisedBy_reverse (t : List (Req × Ans)) (e : Exn) :
    Mon.raisedBy (fun _ => true) t.reverse e = Mon.raisedBy (fun _ => true) t e := by
  simp [Mon.raisedBy, List.any_reverse]

theorem verdicts_of_clean {cfg : Cfg} {e : Entry} {w : World} {r : Res} (hc : Clean (mon cfg w))
    (hr : resOk w.trace.reverse (mon cfg w) r = true) : Verdicts cfg e w.trace.reverse r := by
  simp only [Verdicts, selectedOk, argsAreOk, countOk, sleeperOk, flowOk, run_retryTrace]
  have : (cur cfg w.trace).2 = mon cfg w := rfl
  simp [this, hc.sel, hc.args, hc.count, hc.sleep, hc.flow, hr]

theorem verdicts_ret {cfg : Cfg} {e : Entry} {w : World} (v : Nat) (h : FinV cfg w) :
    Verdicts cfg e w.trace.reverse (.ret v) := verdicts_of_clean h rfl

theorem verdicts_raised {cfg : Cfg} {e : Entry} {w : World} {ex : Exn} (h : FinE cfg ex w) :
    Verdicts cfg e w.trace.reverse (.raised ex) := by
  refine verdicts_of_clean h.1 ?_
  have h2 := h.2
  cases ex <;> simp_all [resOk, excOk, raisedBy_reverse, raisedAny]

theorem verdicts_outcome {cfg : Cfg} {e : Entry} {w : World} {o : Outcome} (tl : List TimelineEv)
    (h : FinO cfg o w) : Verdicts cfg e w.trace.reverse (.outcome o tl) :=
  verdicts_of_clean h.1 h.2

/-- the world `runEntry` starts a call from -/
def startWorld (w : World) : World := { w with trace := [], timeline := [], opCalls := 0 }

theorem pristine_start (cfg : Cfg) (w : World) : Pristine cfg (startWorld w) := rfl

theorem verdicts_hold (cfg : Cfg) (e : Entry) (w : World) :
    Verdicts cfg e (runEntry cfg e w).2.trace.reverse (runEntry cfg e w).1 := by
  cases e with
  | call =>
    have := adequacy (runCall_fin cfg) (startWorld w) (pristine_start cfg w)
    simp only [runEntry, startWorld] at this ⊢
    split at this <;> rename_i heq <;> simp only [heq, toRes]
    · exact verdicts_ret _ this
    · exact verdicts_raised this
  | execute =>
    have := adequacy (runExecute_fin cfg) (startWorld w) (pristine_start cfg w)
    simp only [runEntry, startWorld] at this ⊢
    split at this <;> rename_i heq <;> simp only [heq, toResO]
    · exact verdicts_outcome _ this
    · exact verdicts_raised this
  | pcall =>
    cases hret : cfg.hasRetry with
    | true =>
      have := adequacy (call_retry_spec cfg hret) (startWorld w) (pristine_start cfg w)
      simp only [runEntry, startWorld] at this ⊢
      split at this <;> rename_i heq <;> simp only [heq, toRes]
      · exact verdicts_ret _ this
      · exact verdicts_raised this
    | false => exact verdicts_noLoop (by simp [hasLoop, hret, Entry.isPolicy]) _ _
  | pexecute =>
    cases hret : cfg.hasRetry with
    | true =>
      have := adequacy (execute_retry_spec cfg hret) (startWorld w) (pristine_start cfg w)
      simp only [runEntry, startWorld] at this ⊢
      split at this <;> rename_i heq <;> simp only [heq, toResO]
      · exact verdicts_outcome _ this
      · exact verdicts_raised this
    | false => exact verdicts_noLoop (by simp [hasLoop, hret, Entry.isPolicy]) _ _

/-! ### the named conjuncts -/

/-- **strategy_selected.**  Every strategy call goes to the strategy registered for the class the
    classifier just announced — `strategies[klass]` if present, else the default one — with that
    strategy's signature style. -/
theorem strategy_selected (cfg : Cfg) (e : Entry) (w : World) :
    Mon.C05.selectedOk cfg e (runEntry cfg e w).2.trace.reverse (runEntry cfg e w).1 = true :=
  (verdicts_hold cfg e w).1

/-- **strategy_args.**  The strategy is called with the number of the attempt that just failed, the
    classifier's class and `retry_after_s`, the previously applied delay (`state.prev_sleep`, the delay
    of the last GRANTED retry), `deadline − elapsed` at the moment of the call (which is positive) and
    the cause; legacy 3-argument strategies see attempt, class, previous delay. -/
theorem strategy_args (cfg : Cfg) (e : Entry) (w : World) :
    Mon.C05.argsAreOk cfg e (runEntry cfg e w).2.trace.reverse (runEntry cfg e w).1 = true :=
  (verdicts_hold cfg e w).2.1

/-- **strategy_call_count.**  At most one strategy call per attempt; and whoever is handed a delay
    (sleep handler, `before_sleep`, sleeper, `retry` event) is handed it after exactly one. -/
theorem strategy_call_count (cfg : Cfg) (e : Entry) (w : World) :
    Mon.C05.countOk cfg e (runEntry cfg e w).2.trace.reverse (runEntry cfg e w).1 = true :=
  (verdicts_hold cfg e w).2.2.1

/-- **applied_delay_is_sanitized_output.**  What the sleeper receives is `sanitize out remaining`:
    the strategy's output with nan/±inf/negative values replaced by 0, capped at the remaining time. -/
theorem applied_delay_is_sanitized_output (cfg : Cfg) (e : Entry) (w : World) :
    Mon.C05.sleeperOk cfg e (runEntry cfg e w).2.trace.reverse (runEntry cfg e w).1 = true :=
  (verdicts_hold cfg e w).2.2.2.1

/-- **delay_reaches_handler_hook_sleeper_event_and_next_sleep.**  That same value is what the sleep
    handler, `before_sleep`, the sleeper and the `retry` events (metric and log) receive, and what
    `next_sleep_s` reports (of the `RetryOutcome`, or of the `RetryExhaustedError` the library raises). -/
theorem delay_reaches_handler_hook_sleeper_event_and_next_sleep (cfg : Cfg) (e : Entry) (w : World) :
    Mon.C05.flowOk cfg e (runEntry cfg e w).2.trace.reverse (runEntry cfg e w).1 = true :=
  (verdicts_hold cfg e w).2.2.2.2

/--
**C05.**  For every configuration (strategy tables with per-class entries present or absent, context or
legacy signatures, budget, hooks at either level …), every entry point and every world — every answer
stream: class sequences, strategy outputs incl. NaN, ±inf, negatives and values beyond the remaining
time, durations, any callback raising anything — the run satisfies the delay-flow monitor.
-/
theorem delay_flow_holds (cfg : Cfg) (e : Entry) (w : World) :
    Mon.C05.ok cfg e (runEntry cfg e w).2.trace.reverse (runEntry cfg e w).1 = true := by
  have h := verdicts_hold cfg e w
  simp only [Mon.C05.ok, h.1, h.2.1, h.2.2.1, h.2.2.2.1, h.2.2.2.2, Bool.and_self]

/-- …and therefore of every call in every script of calls and clock advances on ONE policy object. -/
theorem delay_flow_holds_script (cfg : Cfg) : ∀ (steps : List Step) (w : World),
    ∀ l ∈ (runScript cfg steps w).1, Mon.C05.ok cfg l.entry l.trace l.res = true := by
  intro steps
  induction steps with
  | nil => intro w l hl; simp [runScript] at hl
  | cons st rest ih =>
    intro w l hl
    cases st with
    | advance d => exact ih _ l (by simpa [runScript] using hl)
    | run e =>
      simp only [runScript, List.mem_cons] at hl
      rcases hl with rfl | hl
      · exact delay_flow_holds cfg e w
      · exact ih _ l hl

/-! ### the monitor can say no (tests, not theorems) -/

/-- accepted: attempt 1 fails TRANSIENT, the default strategy is asked with attempt 1 / no previous delay /
    the whole deadline and answers 5; 5 is slept -/
example : Mon.C05.ok {} .call
    [(.op 1, .raise (.ordinary 0 .transient) 0), (.classify "o0", .klass ⟨.transient, none⟩ 0),
     (.strategy .default .ctx ⟨1, .transient, none, none, 60, .exception⟩, .delay (.fin 5) 0),
     (.sleeper .dflt 5, .unit 5), (.op 2, .value 7 0)] (.ret 7) = true := by decide

/-- rejected: the strategy was told attempt 2 -/
example : Mon.C05.ok {} .call
    [(.op 1, .raise (.ordinary 0 .transient) 0), (.classify "o0", .klass ⟨.transient, none⟩ 0),
     (.strategy .default .ctx ⟨2, .transient, none, none, 60, .exception⟩, .delay (.fin 5) 0),
     (.sleeper .dflt 5, .unit 5), (.op 2, .value 7 0)] (.ret 7) = false := by decide

/-- rejected: the raw (negative) output reached the sleeper's log as a different number -/
example : Mon.C05.ok {} .call
    [(.op 1, .raise (.ordinary 0 .transient) 0), (.classify "o0", .klass ⟨.transient, none⟩ 0),
     (.strategy .default .ctx ⟨1, .transient, none, none, 60, .exception⟩, .delay (.fin (-3)) 0),
     (.sleeper .dflt 3, .unit 3), (.op 2, .value 7 0)] (.ret 7) = false := by decide

end Redress.Props.C05
