/-
  C03 — Retry exactly when permitted: no premature give-up, no wasted backoff.

  Theorems are about `Mon.C03.ok`, the monitor the driver also evaluates on implementation traces:
  for EVERY configuration, EVERY answer stream and every entry point, the monitor accepts the model's
  run.  Structure as in `Props/C01.lean`; the leaf procedures come from the exchange-level footprints
  `FootQ` / `FootE` of `Lemmas/Footprint.lean`.
-/
import Redress.Lemmas.Footprint
import Redress.Monitors

open Std.Do

namespace Redress.Props.C03
open Redress Redress.Retry Redress.Mon Redress.Mon.C03

/-! ### the monitor as a function of the world's (newest-first) log -/

/-- the loop's clock -/
def clk (tr : List (Req × Ans)) : Clock := tr.foldr (fun x c => c.tick x) {}

/-- the monitor state -/
def cur (cfg : Cfg) : List (Req × Ans) → St
  | [] => {}
  | x :: t => step cfg (cur cfg t) x (clk (x :: t)).el

@[simp] theorem clk_cons (x : Req × Ans) (t : List (Req × Ans)) : clk (x :: t) = (clk t).tick x := rfl

@[simp] theorem cur_cons (cfg : Cfg) (x : Req × Ans) (t : List (Req × Ans)) :
    cur cfg (x :: t) = step cfg (cur cfg t) x ((clk t).tick x).el := rfl

theorem pair_fold (cfg : Cfg) (t : List (Req × Ans)) :
    t.foldr (fun x (acc : St × Clock) => (step cfg acc.1 x (acc.2.tick x).el, acc.2.tick x)) ({}, {})
      = (cur cfg t, clk t) := by
  induction t with
  | nil => rfl
  | cons x t ih => simp [List.foldr, ih]

theorem run_reverse (cfg : Cfg) (t : List (Req × Ans)) : run cfg t.reverse = cur cfg t := by
  simp only [run, List.foldl_reverse]
  exact congrArg Prod.fst (pair_fold cfg t)

theorem elapsedOf_reverse (t : List (Req × Ans)) : elapsedOf t.reverse = (clk t).el := by
  simp [elapsedOf, clk, List.foldl_reverse]

/-- an attempt hook or the abort predicate raised (`Mon.attemptHookFault`) -/
def flt (tr : List (Req × Ans)) : Bool := attemptHookFault tr

theorem fault_reverse (t : List (Req × Ans)) : attemptHookFault t.reverse = flt t := by
  simp [attemptHookFault, flt, List.any_reverse]

theorem raisedBy_reverse (p : Req → Bool) (t : List (Req × Ans)) (e : Exn) :
    raisedBy p t.reverse e = raisedBy p t e := by
  simp [raisedBy, List.any_reverse]

/-- the monitor's clock is the total duration of `retryTrace` (what the deadline clause used before
    it was written as a fold) -/
theorem elapsedOf_eq (t : Trace) : elapsedOf t = (retryTrace t).foldl (fun n x => n + x.2.dur) 0 := by
  have hstarted : ∀ (l : Trace) (n : Nat),
      (l.foldl Clock.tick { started := true, el := n }).el = l.foldl (fun n x => n + x.2.dur) n := by
    intro l
    induction l with
    | nil => intro n; rfl
    | cons x l ih => intro n; simp [List.foldl, Clock.tick, ih]
  unfold elapsedOf retryTrace
  induction t with
  | nil => rfl
  | cons x t ih =>
    by_cases hp : isPrelude x.1 = true
    · simp only [List.foldl, List.dropWhile, hp]
      have : Clock.tick {} x = {} := by simp [Clock.tick, hp]
      rw [this]; exact ih
    · have hp' : isPrelude x.1 = false := by simpa using hp
      simp only [List.foldl, List.dropWhile, hp']
      have : Clock.tick {} x = { started := true, el := x.2.dur } := by simp [Clock.tick, hp']
      rw [this, hstarted]
      simp


/-! ### requests that never move the monitor; the view -/

/-- requests of the retry loop that are inert for the C03 monitor (and never part of the prelude) -/
def loopR : Req → Bool
  | .metric ev .. => ev != .retry && ev != .budgetExhausted && !isBreakerEv ev
  | .log ev .. => !isBreakerEv ev
  | .beforeSleep .. | .attemptStart _ | .attemptEnd _ => true
  | _ => false

/-- `loopR`, plus (when `bx`) the `budget_exhausted` metric event, which is inert once the budget has
    refused -/
def loopRx (bx : Bool) (r : Req) : Bool :=
  loopR r || (bx && (match r with
    | .metric .budgetExhausted .. => true
    | _ => false))

theorem loopRx_false (r : Req) : loopRx false r = loopR r := by simp [loopRx]

theorem step_inert (cfg : Cfg) (bx : Bool) (s : St) (x : Req × Ans) (el : Nat) (h : loopRx bx x.1 = true)
    (hx : bx = true → s.refused = true) : step cfg s x el = s := by
  obtain ⟨r, a⟩ := x
  cases r with
  | metric ev _ _ _ =>
    cases ev
    case budgetExhausted =>
      have hr : s.refused = true := hx (by simpa [loopRx, loopR] using h)
      cases s
      cases a <;> simp_all [step, abortKind, abortRaise]
    all_goals (simp_all [loopRx, loopR, step, abortKind, abortRaise, isBreakerEv] <;> (cases a <;> simp_all))
  | log ev _ _ _ _ => simp_all [loopRx, loopR, step, abortKind, abortRaise]; cases a <;> simp
  | _ => simp_all [loopRx, loopR, step, abortKind, abortRaise] <;> (cases a <;> simp)

theorem loopR_not_prelude (bx : Bool) (r : Req) (h : loopRx bx r = true) : isPrelude r = false := by
  cases r with
  | metric ev _ _ _ => cases ev <;> simp_all [loopRx, loopR, isPrelude, isBreakerEv]
  | _ => simp_all [loopRx, loopR, isPrelude]

theorem loopR_not_op (bx : Bool) (r : Req) (h : loopRx bx r = true) : isOp r = false := by
  cases r <;> simp_all [loopRx, loopR, isOp]

theorem tick_el (c : Clock) (x : Req × Ans) (h : isPrelude x.1 = false) : (c.tick x).el = c.el + x.2.dur := by
  simp [Clock.tick, h]

/-- this exchange is an attempt hook (or the abort predicate) raising -/
def hookRaise (x : Req × Ans) : Bool :=
  match x.2 with
  | .raise .. => isAttemptHook x.1
  | _ => false

theorem flt_cons (x : Req × Ans) (t : List (Req × Ans)) : flt (x :: t) = (hookRaise x || flt t) := by
  obtain ⟨r, a⟩ := x
  simp only [flt, attemptHookFault, List.any_cons]
  cases a <;> simp [hookRaise]

theorem flt_quiet (bx : Bool) (x : Req × Ans) (t : List (Req × Ans)) (hr : loopRx bx x.1 = true)
    (hq : quietX x = true) : flt (x :: t) = flt t := by
  obtain ⟨r, a⟩ := x
  rw [flt_cons]
  cases a <;> simp_all [quietX, hookRaise]
  cases r <;> simp_all [loopRx, loopR, swallowedReq, isAttemptHook]

/-- what the C03 argument looks at -/
structure View where
  mon : St
  flt : Bool
  slack : Int                     -- now − start − (elapsed according to the log): 0 inside the loop
  stop : Option StopReason        -- `last_stop_reason`
  stopOk : Bool                   -- … and its condition holds
  counts : EClass → Nat
  unknown : Nat
  noExc : Bool                    -- `last_exc is None`

def stopOkOf (cfg : Cfg) (m : St) (el : Nat) : Option StopReason → Bool
  | none => true
  | some r => stopCond cfg m el r

def view (cfg : Cfg) (w : World) : View :=
  ⟨cur cfg w.trace, flt w.trace, (w.now : Int) - w.rs.start - (clk w.trace).el, w.rs.lastStop,
   stopOkOf cfg (cur cfg w.trace) (clk w.trace).el w.rs.lastStop,
   w.rs.perClassCounts, w.rs.unknownAttempts, w.rs.lastExc.isNone⟩

theorem stopCond_mono (cfg : Cfg) (m : St) {el el' : Nat} (h : el ≤ el') (r : StopReason)
    (hc : stopCond cfg m el r = true) : stopCond cfg m el' r = true := by
  cases r <;> simp_all [stopCond]
  omega

theorem stopOkOf_mono (cfg : Cfg) (m : St) {el el' : Nat} (h : el ≤ el') (r : Option StopReason)
    (hc : stopOkOf cfg m el r = true) : stopOkOf cfg m el' r = true := by
  cases r with
  | none => rfl
  | some r => exact stopCond_mono cfg m h r hc

/-- quiet inert exchanges: the monitor, the fault flag and the slack do not move -/
theorem cur_append_quiet (cfg : Cfg) (bx : Bool) (δ t : List (Req × Ans)) (h : QuietAll (loopRx bx) δ)
    (hx : bx = true → (cur cfg t).refused = true) :
    cur cfg (δ ++ t) = cur cfg t ∧ flt (δ ++ t) = flt t ∧ (clk (δ ++ t)).el = (clk t).el + dsum δ := by
  induction δ with
  | nil => simp [dsum]
  | cons x δ ih =>
    have hx' := h x (by simp)
    have := ih (fun y hy => h y (by simp [hy]))
    refine ⟨?_, ?_, ?_⟩
    · simp only [List.cons_append, cur_cons, this.1]
      exact step_inert cfg bx _ x _ hx'.1 hx
    · rw [List.cons_append, flt_quiet bx _ _ hx'.1 hx'.2, this.2.1]
    · simp only [List.cons_append, clk_cons, tick_el _ _ (loopR_not_prelude bx _ hx'.1), this.2.2, dsum]
      omega

theorem view_fq (cfg : Cfg) (bx : Bool) (w w' : World) (h : FootQ (loopRx bx) w w')
    (hok : (view cfg w).stopOk = true) (hx : bx = true → (view cfg w).mon.refused = true) :
    view cfg w' = view cfg w := by
  obtain ⟨δ, e, q, t⟩ := h.trace
  have hc := cur_append_quiet cfg bx δ w.trace q hx
  have hrs := h.rs
  have hmono := stopOkOf_mono cfg (cur cfg w.trace) (Nat.le_add_right (clk w.trace).el (dsum δ)) w.rs.lastStop
    (by simpa [view] using hok)
  simp only [view, e, hc.1, hc.2.1, hc.2.2, hrs, t, View.mk.injEq, true_and, and_true]
  refine ⟨by omega, ?_⟩
  simp_all [view]


/-! ### what the verdict needs when a run ends with an exception -/

structure ExcCore (cfg : Cfg) (e : Exn) (m : St) (el : Nat) (tr : List (Req × Ans)) : Prop where
  bad : m.bad = false
  must : m.mustOp = false
  stop : ∀ f, e = .libExhausted f →
    raisedBy (fun _ => true) tr e = true ∨ stopCond cfg m el f.stop = true
  give : 1 ≤ m.ops → m.done = false → e.isException = true → e.isAbort = false → e.isExhausted = false →
    raisedBy nonOp tr e = true ∨ (e = .libValueError ∧ m.sawOther = true) ∨
    (raisedBy isOp tr e = true ∧ m.classified = true ∧ anyStop cfg m el = true)

/-- … unless an attempt hook raised -/
def Exc (cfg : Cfg) (e : Exn) (w : World) : Prop :=
  flt w.trace = false → ExcCore cfg e (cur cfg w.trace) (clk w.trace).el w.trace

theorem raisedBy_append (p : Req → Bool) (δ t : List (Req × Ans)) (e : Exn) :
    raisedBy p (δ ++ t) e = (raisedBy p δ e || raisedBy p t e) := by
  simp [raisedBy]

theorem raisedBy_head (p : Req → Bool) (r : Req) (e : Exn) (d : Nat) (t : List (Req × Ans)) (h : p r = true) :
    raisedBy p ((r, Ans.raise e d) :: t) e = true := by
  simp [raisedBy, h]

theorem raisedBy_any_of (p : Req → Bool) (t : List (Req × Ans)) (e : Exn) (h : raisedBy p t e = true) :
    raisedBy (fun _ => true) t e = true := by
  simp only [raisedBy, List.any_eq_true] at h ⊢
  obtain ⟨x, hx, h⟩ := h
  exact ⟨x, hx, by simp_all⟩

/-- a leaf that makes only inert requests failed: one of its callbacks raised -/
theorem exc_of_fe (cfg : Cfg) (bx : Bool) {e : Exn} {w w' : World} (h : FootE (loopRx bx) e w w')
    (hx : bx = true → (view cfg w).mon.refused = true)
    (hb : (view cfg w).mon.bad = false)
    (hm : (view cfg w).mon.mustOp = false ∨
          ∀ r d rest, w'.trace = (r, Ans.raise e d) :: rest → isAttemptHook r = true) :
    Exc cfg e w' := by
  obtain ⟨δ, et, _, r, d, δ', hd, hr, q⟩ := h.trace
  subst hd
  intro hf
  have hc := cur_append_quiet cfg bx δ' w.trace q hx
  have hcur : cur cfg w'.trace = cur cfg w.trace := by
    rw [et]
    simp only [List.cons_append, cur_cons, hc.1]
    exact step_inert cfg bx _ (r, Ans.raise e d) _ hr hx
  have hrb : raisedBy nonOp w'.trace e = true := by
    rw [et]; exact raisedBy_head _ _ _ _ _ (by simp [nonOp, loopR_not_op bx r hr])
  have hmust : (cur cfg w.trace).mustOp = false := by
    rcases hm with hm | hm
    · exact hm
    · have := hm r d (δ' ++ w.trace) (by simpa using et)
      rw [et] at hf
      simp [flt_cons, hookRaise, this] at hf
  rw [hcur]
  exact ⟨hb, hmust, fun f _ => Or.inl (raisedBy_any_of _ _ _ hrb), fun _ _ _ _ _ => Or.inl hrb⟩

/-- leaf procedures: the view does not move; a failure is a callback raising -/
theorem leaf_spec {α : Type} {x : M α} (cfg : Cfg) (bx : Bool)
    (hx : ∀ w0, ⦃fun w => ⌜FootQ (loopRx bx) w0 w⌝⦄ x ⦃fqPost (loopRx bx) w0⦄) (v : View)
    (hr : bx = true → v.mon.refused = true)
    (hok : v.stopOk = true) (hb : v.mon.bad = false) (hm : v.mon.mustOp = false) :
    ⦃fun w => ⌜view cfg w = v⌝⦄ x ⦃post⟨fun _ w => ⌜view cfg w = v⌝, fun e w => ⌜Exc cfg e w⌝⟩⦄ := by
  apply triple_of_run
  intro w hw
  have := adequacy (hx w) w (FootQ.refl (loopRx bx) w)
  subst hw
  split <;> simp_all
  · exact view_fq cfg bx _ _ this hok hr
  · exact exc_of_fe cfg bx this hr hb (Or.inl hm)

/-- requests of the attempt hooks -/
def hookR : Req → Bool
  | .attemptStart _ | .attemptEnd _ => true
  | _ => false

theorem hookR_loopR (r : Req) (h : hookR r = true) : loopRx false r = true := by
  cases r <;> simp_all [hookR, loopR, loopRx]

/-- leaves that only call attempt hooks: a failure is outside the property's environment -/
theorem hook_spec {α : Type} {x : M α} (cfg : Cfg)
    (hx : ∀ w0, ⦃fun w => ⌜FootQ hookR w0 w⌝⦄ x ⦃fqPost hookR w0⦄) (v : View)
    (hok : v.stopOk = true) (hb : v.mon.bad = false) :
    ⦃fun w => ⌜view cfg w = v⌝⦄ x ⦃post⟨fun _ w => ⌜view cfg w = v⌝, fun e w => ⌜Exc cfg e w⌝⟩⦄ := by
  apply triple_of_run
  intro w hw
  have := adequacy (hx w) w (FootQ.refl hookR w)
  subst hw
  split <;> simp_all
  · exact view_fq cfg false _ _ (this.mono hookR_loopR) hok (by simp)
  · refine exc_of_fe cfg false (this.mono hookR_loopR) (by simp) hb (Or.inr ?_)
    obtain ⟨δ, et, _, r, d, δ', hd, hr, _⟩ := this.trace
    intro r' d' rest h'
    rw [et, hd] at h'
    have h1 := (Prod.mk.inj (List.cons.inj h').1).1
    rw [← h1]
    cases r <;> simp_all [hookR, isAttemptHook]


/-- a callback other than the operation raised and nothing caught it -/
theorem exc_of_raise (cfg : Cfg) {w' : World} {tr : List (Req × Ans)} {r : Req} {e : Exn} {d : Nat}
    (ht : w'.trace = (r, Ans.raise e d) :: tr) (hnop : isOp r = false)
    (hb : (cur cfg w'.trace).bad = false)
    (hm : (cur cfg w'.trace).mustOp = false ∨ isAttemptHook r = true) : Exc cfg e w' := by
  intro hf
  have hrb : raisedBy nonOp w'.trace e = true := by
    rw [ht]; exact raisedBy_head _ _ _ _ _ (by simp [nonOp, hnop])
  have hmust : (cur cfg w'.trace).mustOp = false := by
    rcases hm with hm | hm
    · exact hm
    · rw [ht] at hf
      simp [flt_cons, hookRaise, hm] at hf
  exact ⟨hb, hmust, fun f _ => Or.inl (raisedBy_any_of _ _ _ hrb), fun _ _ _ _ _ => Or.inl hrb⟩

/-! ### leaf procedures -/

abbrev leafPost (cfg : Cfg) (v : View) : PostCond α (.except Exn (.arg World .pure)) :=
  post⟨fun _ w => ⌜view cfg w = v⌝, fun e w => ⌜Exc cfg e w⌝⟩

/-- events of the loop other than `retry` (and `budget_exhausted`, unless the budget has refused) -/
def plainEv (bx : Bool) (ev : Event) : Bool :=
  ev != .retry && !isBreakerEv ev && (bx || ev != .budgetExhausted)

section leaves
variable (cfg : Cfg) (tl : Bool) (v : View) (hok : v.stopOk = true) (hb : v.mon.bad = false)
include hok hb

theorem emit_v (hm : v.mon.mustOp = false) (ev : Event) (hev : plainEv v.mon.refused ev = true) (a s : Nat)
    (k : Option EClass) (e : Option Exn) (st : Option StopReason) (c : Option Cause)
    (cl : Option Classification) :
    ⦃fun w => ⌜view cfg w = v⌝⦄ emit cfg tl ev a s k e st c cl ⦃leafPost cfg v⦄ :=
  leaf_spec cfg v.mon.refused (fun w0 => emit_fq (loopRx v.mon.refused) w0 cfg tl ev a s k e st c cl
    (fun _ => by cases ev <;> simp_all [loopRx, loopR, plainEv])
    (fun _ _ => by cases ev <;> simp_all [loopRx, loopR, plainEv])) v id hok hb hm

theorem callBeforeSleep_v (hm : v.mon.mustOp = false) (ctx : BackoffCtx) (s : Nat) :
    ⦃fun w => ⌜view cfg w = v⌝⦄ callBeforeSleep cfg ctx s ⦃leafPost cfg v⦄ :=
  leaf_spec cfg false (fun w0 => callBeforeSleep_fq (loopRx false) w0 cfg ctx s (fun _ => rfl)) v (by simp)
    hok hb hm

theorem callAttemptStart_v (a : Nat) :
    ⦃fun w => ⌜view cfg w = v⌝⦄ callAttemptStart cfg a ⦃leafPost cfg v⦄ :=
  hook_spec cfg (fun w0 => callAttemptStart_fq hookR w0 cfg a (fun _ => rfl)) v hok hb

theorem callAttemptEnd_v (a : Nat) (cls : Option Classification) (exc : Option Exn) (result : Option Nat)
    (d : AttemptDecision) (stop : Option StopReason) (cause : Option Cause) (sleep : Option Nat) :
    ⦃fun w => ⌜view cfg w = v⌝⦄ callAttemptEnd cfg a cls exc result d stop cause sleep ⦃leafPost cfg v⦄ :=
  hook_spec cfg (fun w0 => callAttemptEnd_fq hookR w0 cfg a cls exc result d stop cause sleep (fun _ => rfl))
    v hok hb

theorem callAttemptEndFromOutcome_v (a : Nat) (o : AOutcome) :
    ⦃fun w => ⌜view cfg w = v⌝⦄ callAttemptEndFromOutcome cfg a o ⦃leafPost cfg v⦄ :=
  hook_spec cfg (fun w0 => callAttemptEndFromOutcome_fq hookR w0 cfg a o (fun _ => rfl)) v hok hb

theorem handleAbortAttemptEnd_v (a : Nat) (e : Exn) :
    ⦃fun w => ⌜view cfg w = v⌝⦄ handleAbortAttemptEnd cfg a e ⦃leafPost cfg v⦄ :=
  hook_spec cfg (fun w0 => handleAbortAttemptEnd_fq hookR w0 cfg a e (fun _ => rfl)) v hok hb

end leaves


/-! ### requests the monitor follows: one `ask` each -/

@[simp] theorem view_mon (cfg : Cfg) (w : World) : (view cfg w).mon = cur cfg w.trace := rfl
@[simp] theorem view_flt (cfg : Cfg) (w : World) : (view cfg w).flt = flt w.trace := rfl

/-- the run ends with an exception that is neither an attempt failure nor a report of exhaustion -/
theorem exc_plain (cfg : Cfg) {w' : World} {e : Exn} (hne : ∀ f, e ≠ .libExhausted f)
    (hg : e.isException = false ∨ e.isAbort = true ∨ e.isExhausted = true)
    (hb : (cur cfg w'.trace).bad = false) (hm : flt w'.trace = false → (cur cfg w'.trace).mustOp = false) :
    Exc cfg e w' := by
  intro hf
  refine ⟨hb, hm hf, fun f h => absurd h (hne f), fun _ _ h1 h2 h3 => ?_⟩
  rcases hg with h | h | h <;> simp_all

/-! #### phases of an attempt (predicates on the view) -/

/-- inside attempt `n`: the operation has been called, the run has not stopped, no backoff yet -/
def Core (cfg : Cfg) (n : Nat) (v : View) : Prop :=
  v.mon.ops = n ∧ 1 ≤ n ∧ n ≤ cfg.maxAttempts ∧ v.mon.bad = false ∧ v.flt = false ∧ v.slack = 0 ∧
  v.stop = none ∧ v.stopOk = true ∧ v.mon.mustOp = false ∧ v.mon.decision = none ∧ v.mon.slept = false ∧
  v.mon.refused = false

/-- no strategy has been asked in this attempt -/
def NoStrat (v : View) : Prop :=
  v.mon.strat = false ∧ v.mon.granted = false ∧ v.mon.retryEv = false ∧ v.mon.pollFalse = false

/-- the runner's failure counters agree with the log -/
def CntOK (v : View) : Prop :=
  (∀ k, v.counts k = v.mon.classCount k) ∧ v.unknown ≤ v.mon.classCount .unknown

/-- the top of the loop after `n` attempts -/
def Rel (cfg : Cfg) (n : Nat) (v : View) : Prop :=
  v.mon.ops = n ∧ v.mon.bad = false ∧ v.mon.done = false ∧ v.flt = false ∧ v.slack = 0 ∧ v.stop = none ∧
  v.stopOk = true ∧ CntOK v ∧ (1 ≤ n → v.mon.slept = true) ∧ (n = 0 → v.noExc = true ∧ v.mon.mustOp = false) ∧
  (n = 0 ∨ n < cfg.maxAttempts)

/-- the failure of attempt `n` has been classified as `k`; the runner has not counted it yet -/
def ClsA (k : EClass) (v : View) : Prop :=
  v.mon.classified = true ∧ v.mon.lastClass = some k ∧
  (∀ k', v.mon.classCount k' = if k' = k then v.counts k' + 1 else v.counts k') ∧
  v.unknown + (if EClass.unknown = k then 1 else 0) ≤ v.mon.classCount .unknown

/-- … the runner has counted it in `per_class_counts` -/
def ClsB (k : EClass) (v : View) : Prop :=
  v.mon.classified = true ∧ v.mon.lastClass = some k ∧ (∀ k', v.counts k' = v.mon.classCount k') ∧
  v.unknown + (if EClass.unknown = k then 1 else 0) ≤ v.mon.classCount .unknown

/-- … and in `unknown_attempts` -/
def ClsC (k : EClass) (v : View) : Prop :=
  v.mon.classified = true ∧ v.mon.lastClass = some k ∧ CntOK v

/-- simp set that turns statements about the view of an explicit world into statements about fields -/
macro "c03_simp" : tactic => `(tactic|
  simp_all +zetaDelta [Core, NoStrat, CntOK, Rel, ClsA, ClsB, ClsC, bumpCount, view, cur_cons, clk_cons, flt_cons, hookRaise, Clock.tick,
    isPrelude, step, classify, abortKind, abortRaise, isAttemptHook, stopOkOf, raisedBy, isOp,
    Exn.isException, Exn.isAbort, Exn.isExhausted, Ans.dur])

macro "c03_close" : tactic => `(tactic| all_goals (
  (try subst_vars) <;> (try c03_simp) <;> (try (and_intros <;> (try simp_all [Ans.dur]) <;> omega))))

/-- the operation is invoked -/
theorem invokeOp_spec (cfg : Cfg) (n : Nat) (u : View) (hr : Rel cfg n u) (hn : n < cfg.maxAttempts)
    (a : Nat) :
    ⦃fun w => ⌜view cfg w = u⌝⦄ invokeOp a
    ⦃post⟨fun _ w => ⌜Core cfg (n + 1) (view cfg w) ∧ NoStrat (view cfg w) ∧ CntOK (view cfg w) ∧
                      (view cfg w).mon.classified = false ∧
                      (view cfg w).mon.done = !cfg.resultClassifier⌝,
          fun e w => ⌜Core cfg (n + 1) (view cfg w) ∧ NoStrat (view cfg w) ∧ CntOK (view cfg w) ∧
                      (view cfg w).mon.classified = false ∧ (view cfg w).mon.done = false ∧
                      (e.isException = true → raisedBy isOp w.trace e = true) ∧
                      (e.isAbort = true → (view cfg w).mon.sawAbort = true)⌝⟩⦄ := by
  simp only [Rel] at hr
  mvcgen [invokeOp, ask]
  c03_close


/-- goals `Exc cfg e W` for an explicit world `W` whose newest exchange is the failing one -/
macro "c03_exc" : tactic => `(tactic| first
  | (refine exc_of_raise _ rfl rfl ?_ ?_ <;> c03_simp; done)
  | (refine exc_plain _ (by simp) (by simp [Exn.isException, Exn.isAbort]) ?_ ?_ <;> c03_simp; done))

macro "c03_done" : tactic => `(tactic| all_goals (
  (try subst_vars) <;>
  first
    | c03_exc
    | ((try c03_simp) <;>
       (try (and_intros <;> (try intros) <;>
             first
               | omega
               | (simp_all; done)
               | (split <;> rename_i h <;>
                    first
                      | omega
                      | (rw [← h]; omega))
               | skip)))))

theorem bump_self (f : EClass → Nat) (k : EClass) : bumpCount f k k = f k + 1 := by simp [bumpCount]

theorem callClassifier_spec (cfg : Cfg) (n : Nat) (u : View) (hc : Core cfg n u) (hn : NoStrat u)
    (hk : CntOK u) (hcl : u.mon.classified = false) (hd : u.mon.done = false) (e : Exn) :
    ⦃fun w => ⌜view cfg w = u⌝⦄ callClassifier e
    ⦃post⟨fun c w => ⌜Core cfg n (view cfg w) ∧ NoStrat (view cfg w) ∧ ClsA c.klass (view cfg w) ∧
                      (view cfg w).mon.done = false⌝,
          fun e w => ⌜Exc cfg e w⌝⟩⦄ := by
  simp only [Core, NoStrat, CntOK] at hc hn hk
  mvcgen [callClassifier, ask]
  c03_done


/-- a confirmed success in attempt `n` -/
def Succ (n : Nat) (v : View) : Prop :=
  v.mon.ops = n ∧ 1 ≤ n ∧ v.mon.bad = false ∧ v.flt = false ∧ v.mon.mustOp = false ∧ v.mon.done = true ∧
  v.stop = none ∧ v.stopOk = true ∧ v.mon.granted = false

macro "c03_simp" : tactic => `(tactic|
  simp_all +zetaDelta [Succ, Core, NoStrat, CntOK, Rel, ClsA, ClsB, ClsC, bumpCount, view, cur_cons, clk_cons,
    flt_cons, hookRaise, Clock.tick, isPrelude, step, classify, abortKind, abortRaise, isAttemptHook, stopOkOf,
    raisedBy, isOp, Exn.isException, Exn.isAbort, Exn.isExhausted, Ans.dur])

theorem shouldClassifyResult_spec (cfg : Cfg) (n : Nat) (u : View) (hc : Core cfg n u) (hn : NoStrat u)
    (hk : CntOK u) (hcl : u.mon.classified = false) (hd : u.mon.done = !cfg.resultClassifier) (x : Nat) :
    ⦃fun w => ⌜view cfg w = u⌝⦄ shouldClassifyResult cfg x
    ⦃post⟨fun r w => ⌜match r with
                      | none => Succ n (view cfg w)
                      | some c => Core cfg n (view cfg w) ∧ NoStrat (view cfg w) ∧ ClsA c.klass (view cfg w) ∧
                                  (view cfg w).mon.done = false⌝,
          fun e w => ⌜Exc cfg e w⌝⟩⦄ := by
  simp only [Core, NoStrat, CntOK] at hc hn hk
  mvcgen [shouldClassifyResult, ask]
  c03_done

/-- the view after a poll that answered False -/
def pollV (cfg : Cfg) (u : View) : View :=
  if cfg.abortIf then { u with mon := { u.mon with pollFalse := u.mon.pollFalse || u.mon.strat } } else u

/-- `check_abort`: a poll that answers False changes nothing but `pollFalse`; True ends the run -/
theorem checkAbort_spec (cfg : Cfg) (tl : Bool) (u : View) (hs : u.stop = none) (hb : u.mon.bad = false)
    (a : Nat) :
    ⦃fun w => ⌜view cfg w = u⌝⦄ checkAbort cfg tl a
    ⦃post⟨fun _ w => ⌜view cfg w = pollV cfg u⌝, fun e w => ⌜Exc cfg e w⌝⟩⦄ := by
  have he := fun v hok hb hm => emit_v cfg tl v hok hb hm .aborted rfl a 0 none none (some .aborted) none none
  mvcgen [checkAbort, ask, setStop, modifyRS, he]
  c03_done
  all_goals (simp_all [pollV])
  all_goals (trace_state; sorry)

end Redress.Props.C03
